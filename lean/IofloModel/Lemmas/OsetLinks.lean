import IofloModel.Model.OsetLinks
import IofloModel.Lemmas.Containers
/-! Lemmas for the pointer-level oset: chains of `next` / `prev` links and how `add` / `discard` change them. -/
namespace Ioflo.Containers.Links
set_option linter.unusedSectionVars false
variable {K : Type} [DecidableEq K]

/-- following the link `f` (next or prev) from cell `p` visits the cells `cs` in turn and then reaches `q` -/
def Chain (f : Cell K → Nat) (cells : List (Cell K)) : Nat → List Nat → Nat → Prop
  | p, [], q => ∃ c, cells[p]? = some c ∧ f c = q
  | p, a :: cs, q => (∃ c, cells[p]? = some c ∧ f c = a) ∧ Chain f cells a cs q

theorem chain_append (f : Cell K → Nat) (cells : List (Cell K)) (p : Nat) (a : List Nat) (c : Nat)
    (b : List Nat) (q : Nat) :
    Chain f cells p (a ++ c :: b) q ↔ Chain f cells p a c ∧ Chain f cells c b q := by
  induction a generalizing p with
  | nil => simp [Chain]
  | cons x t ih => simp only [List.cons_append, Chain, ih, and_assoc]

/-- a chain only depends on the link fields of its source cells `p :: cs` -/
theorem chain_congr {f : Cell K → Nat} {cells cells' : List (Cell K)} {p : Nat} {cs : List Nat} {q : Nat}
    (h : Chain f cells p cs q)
    (hs : ∀ i ∈ p :: cs, ∀ c, cells[i]? = some c → ∃ c', cells'[i]? = some c' ∧ f c' = f c) :
    Chain f cells' p cs q := by
  induction cs generalizing p with
  | nil =>
    obtain ⟨c, h1, h2⟩ := h
    obtain ⟨c', h3, h4⟩ := hs p (by simp) c h1
    exact ⟨c', h3, h4 ▸ h2⟩
  | cons a t ih =>
    obtain ⟨⟨c, h1, h2⟩, h'⟩ := h
    obtain ⟨c', h3, h4⟩ := hs p (by simp) c h1
    exact ⟨⟨c', h3, h4 ▸ h2⟩, ih h' (fun i hi => hs i (by simp only [List.mem_cons] at hi ⊢; exact .inr hi))⟩

/-- redirecting the link of the last source cell `z` of a chain redirects the chain -/
theorem chain_redirect {f : Cell K → Nat} {cells cells' : List (Cell K)} {p : Nat} {cs : List Nat} {q x z : Nat}
    (h : Chain f cells p cs q) (hn : (p :: cs).Nodup) (hz : (p :: cs).getLast? = some z)
    (hlast : ∃ c', cells'[z]? = some c' ∧ f c' = x)
    (hs : ∀ i ∈ p :: cs, i ≠ z → ∀ c, cells[i]? = some c → ∃ c', cells'[i]? = some c' ∧ f c' = f c) :
    Chain f cells' p cs x := by
  induction cs generalizing p with
  | nil =>
    simp at hz; subst hz
    simpa [Chain] using hlast
  | cons a t ih =>
    obtain ⟨⟨c, h1, h2⟩, h'⟩ := h
    rw [List.getLast?_cons_cons] at hz
    have hne : p ≠ z := by
      intro e
      have hm : z ∈ a :: t := List.mem_of_getLast? hz
      exact (List.nodup_cons.1 hn).1 (e ▸ hm)
    obtain ⟨c', h3, h4⟩ := hs p (by simp) hne c h1
    exact ⟨⟨c', h3, h4 ▸ h2⟩, ih h' (List.nodup_cons.1 hn).2 hz
      (fun i hi hne' cc hcc => hs i (by simp only [List.mem_cons] at hi ⊢; exact .inr hi) hne' cc hcc)⟩

theorem chain_first {f : Cell K → Nat} {cells : List (Cell K)} {p : Nat} {cs : List Nat} {q : Nat}
    (h : Chain f cells p cs q) : ∃ c, cells[p]? = some c ∧ f c = cs.head?.getD q := by
  cases cs with
  | nil => simpa [Chain] using h
  | cons a t => obtain ⟨⟨c, h1, h2⟩, _⟩ := h; exact ⟨c, h1, by simp [h2]⟩

/-- the same chain hanging off another source cell with the same link -/
theorem chain_swap_head {f : Cell K → Nat} {cells cells' : List (Cell K)} {p p' : Nat} {cs : List Nat} {q : Nat}
    (h : Chain f cells p cs q)
    (hp : ∀ c, cells[p]? = some c → ∃ c', cells'[p']? = some c' ∧ f c' = f c)
    (hs : ∀ i ∈ cs, ∀ c, cells[i]? = some c → ∃ c', cells'[i]? = some c' ∧ f c' = f c) :
    Chain f cells' p' cs q := by
  cases cs with
  | nil =>
    obtain ⟨c, h1, h2⟩ := h
    obtain ⟨c', h3, h4⟩ := hp c h1
    exact ⟨c', h3, h4 ▸ h2⟩
  | cons a t =>
    obtain ⟨⟨c, h1, h2⟩, h'⟩ := h
    obtain ⟨c', h3, h4⟩ := hp c h1
    exact ⟨⟨c', h3, h4 ▸ h2⟩, chain_congr h' hs⟩

/-- unlinking the cell `c` from a chain: the last source before it takes over `c`'s link -/
theorem chain_unlink {f : Cell K → Nat} {cells cells' : List (Cell K)} {p : Nat} {A : List Nat} {c : Nat}
    {B : List Nat} {q z x : Nat}
    (h1 : Chain f cells p A c) (h2 : Chain f cells c B q) (hn : (p :: (A ++ c :: B)).Nodup)
    (hz : (p :: A).getLast? = some z) (hx : ∃ cc, cells[c]? = some cc ∧ f cc = x)
    (hlast : ∃ c', cells'[z]? = some c' ∧ f c' = x)
    (hs : ∀ i ∈ p :: (A ++ B), i ≠ z → ∀ cc, cells[i]? = some cc → ∃ c', cells'[i]? = some c' ∧ f c' = f cc) :
    Chain f cells' p (A ++ B) q := by
  have hnA : (p :: A).Nodup := by
    have : (p :: A).Sublist (p :: (A ++ c :: B)) := List.Sublist.cons₂ _ (List.sublist_append_left _ _)
    exact hn.sublist this
  have hzA : z ∈ p :: A := List.mem_of_getLast? hz
  have hr : Chain f cells' p A x := chain_redirect h1 hnA hz hlast
    (fun i hi hne cc hcc => hs i (by
      simp only [List.mem_cons, List.mem_append] at hi ⊢
      rcases hi with e | e
      · exact .inl e
      · exact .inr (.inl e)) hne cc hcc)
  obtain ⟨cc, hcc, hfx⟩ := hx
  cases B with
  | nil =>
    obtain ⟨c2, hc2, hq⟩ := h2
    rw [hcc] at hc2; cases hc2
    rw [List.append_nil, ← hq, hfx]; exact hr
  | cons y B' =>
    obtain ⟨⟨c2, hc2, hy⟩, h2'⟩ := h2
    rw [hcc] at hc2; cases hc2
    rw [hfx] at hy; subst hy
    rw [chain_append]
    refine ⟨hr, chain_congr h2' ?_⟩
    intro i hi c3 hc3
    have hne : i ≠ z := by
      intro e; subst e
      -- z is in p :: A and in x :: B': contradicts Nodup
      have hd := hn
      rw [show p :: (A ++ c :: x :: B') = (p :: A) ++ (c :: x :: B') from rfl] at hd
      exact (List.nodup_append.1 hd).2.2 i hzA i (by simp only [List.mem_cons] at hi ⊢; exact .inr hi) rfl
    exact hs i (by
      simp only [List.mem_cons, List.mem_append] at hi ⊢
      exact .inr (.inr hi)) hne c3 hc3

/-! ### cell updates -/

theorem getElem?_setNext (cells : List (Cell K)) (i n j : Nat) :
    (setNext cells i n)[j]? = (cells[j]?).map (fun c => if j = i then { c with next := n } else c) := by
  unfold setNext
  cases hi : cells[i]? with
  | none =>
    by_cases e : j = i
    · subst e; simp [hi]
    · simp [e]
  | some c =>
    simp only [List.getElem?_set]
    by_cases e : i = j
    · subst e
      have : i < cells.length := (List.getElem?_eq_some_iff.1 hi).1
      simp only [this, if_true, hi, Option.map_some]
    · have : ¬ j = i := fun x => e x.symm
      simp [e, this]

theorem getElem?_setPrev (cells : List (Cell K)) (i n j : Nat) :
    (setPrev cells i n)[j]? = (cells[j]?).map (fun c => if j = i then { c with prev := n } else c) := by
  unfold setPrev
  cases hi : cells[i]? with
  | none =>
    by_cases e : j = i
    · subst e; simp [hi]
    · simp [e]
  | some c =>
    simp only [List.getElem?_set]
    by_cases e : i = j
    · subst e
      have : i < cells.length := (List.getElem?_eq_some_iff.1 hi).1
      simp only [this, if_true, hi, Option.map_some]
    · have : ¬ j = i := fun x => e x.symm
      simp [e, this]

/-! ### the representation invariant -/

/-- the structure `s` represents the ordered set whose elements and cells are, in link order, `ps` -/
structure Repr (s : LL K) (ps : List (K × Nat)) : Prop where
  ring : (0 :: ps.map Prod.snd).Nodup
  keys : (dkeys ps).Nodup
  fwd : Chain Cell.next s.cells 0 (ps.map Prod.snd) 0
  bwd : Chain Cell.prev s.cells 0 (ps.map Prod.snd).reverse 0
  cellKey : ∀ p ∈ ps, ∃ c, s.cells[p.2]? = some c ∧ c.key = some p.1
  mapNodup : (dkeys s.map).Nodup
  mapGet : ∀ k c, dget s.map k = some c ↔ (k, c) ∈ ps

/-- generic walk along a link field -/
def walk (f : Cell K → Nat) (cells : List (Cell K)) : Nat → Nat → List K
  | 0, _ => []
  | fuel + 1, curr =>
    if curr = 0 then []
    else
      match cells[curr]? with
      | none => []
      | some c => (match c.key with | some k => [k] | none => []) ++ walk f cells fuel (f c)

theorem walkNext_eq (cells : List (Cell K)) (fuel curr : Nat) :
    walkNext cells fuel curr = walk Cell.next cells fuel curr := by
  induction fuel generalizing curr with
  | zero => rfl
  | succ n ih =>
    simp only [walkNext, walk]
    split
    · rfl
    · cases cells[curr]? with
      | none => rfl
      | some c => simp only [ih]; cases c.key <;> rfl

theorem walkPrev_eq (cells : List (Cell K)) (fuel curr : Nat) :
    walkPrev cells fuel curr = walk Cell.prev cells fuel curr := by
  induction fuel generalizing curr with
  | zero => rfl
  | succ n ih =>
    simp only [walkPrev, walk]
    split
    · rfl
    · cases cells[curr]? with
      | none => rfl
      | some c => simp only [ih]; cases c.key <;> rfl

/-- walking a chain that ends at the sentinel yields the keys of its cells -/
theorem walk_chain (f : Cell K → Nat) (cells : List (Cell K)) :
    ∀ (qs : List (K × Nat)) (p fuel : Nat), Chain f cells p (qs.map Prod.snd) 0 → 0 ∉ qs.map Prod.snd →
      (∀ pr ∈ qs, ∃ c, cells[pr.2]? = some c ∧ c.key = some pr.1) → qs.length < fuel →
      ∃ c, cells[p]? = some c ∧ walk f cells fuel (f c) = qs.map Prod.fst
  | [], p, fuel, h, _, _, hf => by
    obtain ⟨c, h1, h2⟩ := h
    refine ⟨c, h1, ?_⟩
    cases fuel with
    | zero => simp at hf
    | succ n => simp [walk, h2]
  | (k, a) :: t, p, fuel, h, h0, hk, hf => by
    obtain ⟨⟨c, h1, h2⟩, h'⟩ := h
    refine ⟨c, h1, ?_⟩
    cases fuel with
    | zero => simp at hf
    | succ n =>
      have ha : a ≠ 0 := fun e => h0 (by simp [e])
      obtain ⟨ca, hca, hkey⟩ := hk (k, a) (by simp)
      obtain ⟨c2, hc2, hw⟩ := walk_chain f cells t a n h' (fun x => h0 (by simp [x]))
        (fun pr hpr => hk pr (by simp [hpr])) (by simp at hf; omega)
      simp only at hca hkey
      rw [hca] at hc2; cases hc2
      simp [walk, h2, ha, hca, hkey, hw]

theorem ring_length_lt {cs : List Nat} {n : Nat} (hn : (0 :: cs).Nodup) (hlt : ∀ c ∈ cs, c < n) (h0 : 0 < n) :
    cs.length < n := by
  have := length_le_of_subset (l := 0 :: cs) (o := List.range n) hn (by
    intro x hx
    simp only [List.mem_cons] at hx
    rcases hx with rfl | hx
    · exact List.mem_range.2 h0
    · exact List.mem_range.2 (hlt x hx))
  simp at this; omega

namespace Repr
variable {s : LL K} {ps : List (K × Nat)}

theorem sentinel (h : Repr s ps) : ∃ e, s.cells[0]? = some e := by
  have := h.fwd
  cases hp : ps.map Prod.snd with
  | nil => rw [hp] at this; obtain ⟨c, h1, _⟩ := this; exact ⟨c, h1⟩
  | cons a t => rw [hp] at this; obtain ⟨⟨c, h1, _⟩, _⟩ := this; exact ⟨c, h1⟩

theorem cell_lt (h : Repr s ps) : ∀ c ∈ ps.map Prod.snd, c < s.cells.length := by
  intro c hc
  obtain ⟨p, hp, rfl⟩ := List.mem_map.1 hc
  obtain ⟨x, hx, _⟩ := h.cellKey p hp
  exact (List.getElem?_eq_some_iff.1 hx).1

theorem fuel (h : Repr s ps) : ps.length < s.cells.length := by
  obtain ⟨e, he⟩ := h.sentinel
  have := ring_length_lt h.ring h.cell_lt (List.getElem?_eq_some_iff.1 he).1
  simpa using this

theorem zero_not_mem (h : Repr s ps) : 0 ∉ ps.map Prod.snd := (List.nodup_cons.1 h.ring).1

/-- iteration yields the elements in link order -/
theorem iter_eq (h : Repr s ps) : iter s = dkeys ps := by
  obtain ⟨c, hc, hw⟩ := walk_chain Cell.next s.cells ps 0 s.cells.length h.fwd h.zero_not_mem h.cellKey h.fuel
  simp only [iter, hc, walkNext_eq, hw, dkeys]

/-- reversed iteration yields them backwards -/
theorem reversed_eq (h : Repr s ps) : reversed s = (dkeys ps).reverse := by
  have hb : Chain Cell.prev s.cells 0 (ps.reverse.map Prod.snd) 0 := by rw [List.map_reverse]; exact h.bwd
  obtain ⟨c, hc, hw⟩ := walk_chain Cell.prev s.cells ps.reverse 0 s.cells.length hb
    (by rw [List.map_reverse, List.mem_reverse]; exact h.zero_not_mem)
    (fun pr hpr => h.cellKey pr (List.mem_reverse.1 hpr)) (by simpa using h.fuel)
  simp only [reversed, hc, walkPrev_eq, hw, dkeys, List.map_reverse]

theorem mem_iff (h : Repr s ps) (k : K) : dhas s.map k = true ↔ k ∈ dkeys ps := by
  rw [dhas_iff, ← dget_isSome_iff, Option.isSome_iff_exists]
  constructor
  · rintro ⟨c, hc⟩; exact List.mem_map.2 ⟨(k, c), (h.mapGet k c).1 hc, rfl⟩
  · intro hk
    obtain ⟨p, hp, rfl⟩ := List.mem_map.1 hk
    exact ⟨p.2, (h.mapGet p.1 p.2).2 hp⟩

theorem len_eq (h : Repr s ps) : len s = ps.length := by
  have h1 : ∀ x, x ∈ dkeys s.map ↔ x ∈ dkeys ps := fun x => by rw [← dhas_iff, h.mem_iff]
  have := ((List.perm_ext_iff_of_nodup h.mapNodup h.keys).2 h1).length_eq
  simpa [len, dkeys] using this

theorem empty : Repr (empty : LL K) [] := by
  refine ⟨by simp, by simp, ?_, ?_, by simp, by simp [Links.empty], ?_⟩
  · exact ⟨_, rfl, rfl⟩
  · exact ⟨_, rfl, rfl⟩
  · intro k c; simp [Links.empty, dget]

/-- the last cell of the ring `0 :: cells of ps` is what `end[1]` points to -/
theorem last_cell (h : Repr s ps) :
    ∃ e, s.cells[0]? = some e ∧ (0 :: ps.map Prod.snd).getLast? = some e.prev := by
  obtain ⟨e, he, hp⟩ := chain_first h.bwd
  refine ⟨e, he, ?_⟩
  rw [List.getLast?_cons, hp, List.head?_reverse]

theorem add_of_mem (h : Repr s ps) {k : K} (hk : k ∈ dkeys ps) : add s k = s := by
  simp [add, (h.mem_iff k).2 hk]

theorem add_new (h : Repr s ps) {k : K} (hk : k ∉ dkeys ps) :
    Repr (add s k) (ps ++ [(k, s.cells.length)]) := by
  obtain ⟨e, he, hlast⟩ := h.last_cell
  have hnot : ¬ dhas s.map k = true := fun x => hk ((h.mem_iff k).1 x)
  have hn0 : 0 < s.cells.length := (List.getElem?_eq_some_iff.1 he).1
  have hcurr : e.prev ∈ 0 :: ps.map Prod.snd := List.mem_of_getLast? hlast
  have hlt : ∀ i ∈ 0 :: ps.map Prod.snd, i < s.cells.length := by
    intro i hi; simp only [List.mem_cons] at hi
    rcases hi with rfl | hi
    · exact hn0
    · exact h.cell_lt i hi
  have hfresh : s.cells.length ∉ 0 :: ps.map Prod.snd := fun x => Nat.lt_irrefl _ (hlt _ x)
  -- the cells after the call
  have hcells : ∀ j, (add s k).cells[j]? = ((s.cells ++ [⟨some k, e.prev, 0⟩])[j]?).map (fun c =>
      let c1 : Cell K := if j = e.prev then { c with next := s.cells.length } else c
      if j = 0 then { c1 with prev := s.cells.length } else c1) := by
    intro j
    have hadd : add s k = ⟨setPrev (setNext (s.cells ++ [⟨some k, e.prev, 0⟩]) e.prev s.cells.length) 0
        s.cells.length, dset s.map k s.cells.length⟩ := by simp [add, hnot, he]
    rw [hadd]
    simp only [getElem?_setPrev, getElem?_setNext, Option.map_map]
    rfl
  have hold : ∀ j, j < s.cells.length → ∀ c, s.cells[j]? = some c →
      ∃ c', (add s k).cells[j]? = some c' ∧ c'.key = c.key ∧
        (j ≠ e.prev → c'.next = c.next) ∧ (j = e.prev → c'.next = s.cells.length) ∧
        (j ≠ 0 → c'.prev = c.prev) ∧ (j = 0 → c'.prev = s.cells.length) := by
    intro j hj c hc
    rw [hcells j, List.getElem?_append_left hj, hc]
    refine ⟨_, rfl, ?_⟩
    by_cases e2 : j = 0
    · subst e2
      by_cases e1 : e.prev = 0
      · simp [e1]
      · have e1' : ¬ 0 = e.prev := fun x => e1 x.symm
        simp [e1, e1']
    · by_cases e1 : j = e.prev
      · subst e1; simp [e2]
      · simp [e1, e2]
  have hnew : (add s k).cells[s.cells.length]? = some ⟨some k, e.prev, 0⟩ := by
    rw [hcells]
    have h1 : ¬ s.cells.length = e.prev := fun x => hfresh (x ▸ hcurr)
    have h2 : ¬ s.cells.length = 0 := by omega
    simp [h1, h2]
  have hmap : (add s k).map = dset s.map k s.cells.length := by simp [add, hnot, he]
  refine ⟨?_, ?_, ?_, ?_, ?_, ?_, ?_⟩
  · -- ring
    have : 0 :: (ps ++ [(k, s.cells.length)]).map Prod.snd = (0 :: ps.map Prod.snd) ++ [s.cells.length] := by simp
    rw [this]
    exact List.nodup_append.2 ⟨h.ring, by simp, by
      intro a ha b hb; simp only [List.mem_singleton] at hb; subst hb
      exact fun x => hfresh (x ▸ ha)⟩
  · simp only [dkeys_append, dkeys_cons, dkeys_nil]
    exact List.nodup_append.2 ⟨h.keys, by simp, by simp; exact fun x hx e => hk (e ▸ hx)⟩
  · -- forward links
    have : (ps ++ [(k, s.cells.length)]).map Prod.snd = ps.map Prod.snd ++ s.cells.length :: [] := by simp
    rw [this, chain_append]
    refine ⟨chain_redirect h.fwd h.ring hlast ?_ ?_, ⟨_, hnew, rfl⟩⟩
    · obtain ⟨c, hc⟩ : ∃ c, s.cells[e.prev]? = some c :=
        ⟨s.cells[e.prev]'(hlt _ hcurr), List.getElem?_eq_getElem _⟩
      obtain ⟨c', h1, _, _, h3, _⟩ := hold e.prev (hlt _ hcurr) c hc
      exact ⟨c', h1, h3 rfl⟩
    · intro i hi hne c hc
      obtain ⟨c', h1, _, h2, _⟩ := hold i (hlt i hi) c hc
      exact ⟨c', h1, h2 hne⟩
  · -- backward links
    have : ((ps ++ [(k, s.cells.length)]).map Prod.snd).reverse = s.cells.length :: (ps.map Prod.snd).reverse := by simp
    rw [this]
    refine ⟨?_, chain_swap_head h.bwd ?_ ?_⟩
    · obtain ⟨c', h1, _, _, _, _, h5⟩ := hold 0 hn0 e he
      exact ⟨c', h1, h5 rfl⟩
    · intro c hc
      rw [he] at hc; cases hc
      exact ⟨_, hnew, rfl⟩
    · intro i hi c hc
      have hi' : i ∈ ps.map Prod.snd := List.mem_reverse.1 hi
      have hne : i ≠ 0 := fun x => h.zero_not_mem (x ▸ hi')
      obtain ⟨c', h1, _, _, _, h4, _⟩ := hold i (h.cell_lt i hi') c hc
      exact ⟨c', h1, h4 hne⟩
  · intro p hp
    simp only [List.mem_append, List.mem_singleton] at hp
    rcases hp with hp | rfl
    · obtain ⟨c, hc, hkey⟩ := h.cellKey p hp
      obtain ⟨c', h1, h2, _⟩ := hold p.2 (h.cell_lt _ (List.mem_map.2 ⟨p, hp, rfl⟩)) c hc
      exact ⟨c', h1, h2 ▸ hkey⟩
    · exact ⟨_, hnew, rfl⟩
  · rw [hmap]; exact nodup_dkeys_dset _ _ h.mapNodup
  · intro k' c
    rw [hmap, dget_dset]
    simp only [List.mem_append, List.mem_singleton, Prod.mk.injEq]
    by_cases e1 : k' = k
    · subst e1
      simp only [if_true, Option.some.injEq, true_and]
      constructor
      · intro x; exact .inr x.symm
      · rintro (x | x)
        · exact absurd (List.mem_map.2 ⟨(k', c), x, rfl⟩) hk
        · exact x.symm
    · simp only [e1, if_false, false_and, or_false]
      exact h.mapGet k' c

theorem discard_not_mem (h : Repr s ps) {k : K} (hk : k ∉ dkeys ps) : discard s k = s := by
  have : dget s.map k = none := by
    rw [dget_eq_none_iff]; exact fun x => hk ((h.mem_iff k).1 ((dhas_iff _ _).2 x))
  simp [discard, this]

theorem discard_mem {a b : List (K × Nat)} {k : K} {c : Nat} (h : Repr s (a ++ (k, c) :: b)) :
    Repr (discard s k) (a ++ b) := by
  have hg : dget s.map k = some c := (h.mapGet k c).2 (by simp)
  obtain ⟨cell, hcell, _⟩ := h.cellKey (k, c) (by simp)
  simp only at hcell
  have hmapS : (a ++ (k, c) :: b).map Prod.snd = a.map Prod.snd ++ c :: b.map Prod.snd := by simp
  have hfwd := h.fwd; rw [hmapS, chain_append] at hfwd
  have hrev : (a.map Prod.snd ++ c :: b.map Prod.snd).reverse
      = (b.map Prod.snd).reverse ++ c :: (a.map Prod.snd).reverse := by simp
  have hbwd := h.bwd; rw [hmapS, hrev, chain_append] at hbwd
  have hring := h.ring; rw [hmapS] at hring
  -- c's own links
  obtain ⟨c1, hc1, hnext⟩ := chain_first hfwd.2
  rw [hcell] at hc1; cases hc1
  obtain ⟨c2, hc2, hprev⟩ := chain_first hbwd.2
  rw [hcell] at hc2; cases hc2
  have hzF : (0 :: a.map Prod.snd).getLast? = some cell.prev := by
    rw [List.getLast?_cons, hprev, List.head?_reverse]
  have hzB : (0 :: (b.map Prod.snd).reverse).getLast? = some cell.next := by
    rw [List.getLast?_cons, hnext, List.getLast?_reverse]
  have hringB : (0 :: ((b.map Prod.snd).reverse ++ c :: (a.map Prod.snd).reverse)).Nodup := by
    rw [← hrev]
    have := List.nodup_cons.1 hring
    exact List.nodup_cons.2 ⟨fun x => this.1 (List.mem_reverse.1 x), (List.reverse_perm _).nodup_iff.2 this.2⟩
  have hlt : ∀ i ∈ 0 :: (a.map Prod.snd ++ c :: b.map Prod.snd), i < s.cells.length := by
    intro i hi; simp only [List.mem_cons] at hi
    rcases hi with rfl | hi
    · obtain ⟨e, he⟩ := h.sentinel; exact (List.getElem?_eq_some_iff.1 he).1
    · exact h.cell_lt i (hmapS ▸ hi)
  have hd : discard s k = ⟨setPrev (setNext s.cells cell.prev cell.next) cell.next cell.prev, ddel s.map k⟩ := by
    simp [discard, hg, hcell]
  have hcells : ∀ j cc, s.cells[j]? = some cc → ∃ c', (discard s k).cells[j]? = some c' ∧ c'.key = cc.key ∧
      (j ≠ cell.prev → c'.next = cc.next) ∧ (j = cell.prev → c'.next = cell.next) ∧
      (j ≠ cell.next → c'.prev = cc.prev) ∧ (j = cell.next → c'.prev = cell.prev) := by
    intro j cc hcc
    rw [hd]
    simp only [getElem?_setPrev, getElem?_setNext, hcc, Option.map_some]
    refine ⟨_, rfl, ?_⟩
    by_cases e1 : j = cell.prev
    · subst e1
      by_cases e2 : cell.prev = cell.next
      · simp [e2]
      · simp [e2]
    · by_cases e2 : j = cell.next
      · subst e2; simp [e1]
      · simp [e1, e2]
  have hex : ∀ i ∈ 0 :: (a.map Prod.snd ++ c :: b.map Prod.snd), ∃ cc, s.cells[i]? = some cc :=
    fun i hi => ⟨s.cells[i]'(hlt i hi), List.getElem?_eq_getElem _⟩
  have hmemF : cell.prev ∈ 0 :: (a.map Prod.snd ++ c :: b.map Prod.snd) := by
    have := List.mem_of_getLast? hzF
    simp only [List.mem_cons, List.mem_append] at this ⊢
    rcases this with e | e
    · exact .inl e
    · exact .inr (.inl e)
  have hmemB : cell.next ∈ 0 :: (a.map Prod.snd ++ c :: b.map Prod.snd) := by
    have := List.mem_of_getLast? hzB
    simp only [List.mem_cons, List.mem_append, List.mem_reverse] at this ⊢
    rcases this with e | e
    · exact .inl e
    · exact .inr (.inr (.inr e))
  refine ⟨?_, ?_, ?_, ?_, ?_, ?_, ?_⟩
  · have : (0 :: (a ++ b).map Prod.snd).Sublist (0 :: (a.map Prod.snd ++ c :: b.map Prod.snd)) := by
      rw [List.map_append]
      exact List.Sublist.cons₂ _ (List.Sublist.append (List.Sublist.refl _) (List.sublist_cons_self _ _))
    exact hring.sublist this
  · have : (dkeys (a ++ b)).Sublist (dkeys (a ++ (k, c) :: b)) := by
      simp only [dkeys_append, dkeys_cons]
      exact List.Sublist.append (List.Sublist.refl _) (List.sublist_cons_self _ _)
    exact h.keys.sublist this
  · rw [List.map_append]
    refine chain_unlink hfwd.1 hfwd.2 hring hzF ⟨cell, hcell, rfl⟩ ?_ ?_
    · obtain ⟨cc, hcc⟩ := hex _ hmemF
      obtain ⟨c', h1, _, _, h3, _⟩ := hcells _ cc hcc
      exact ⟨c', h1, h3 rfl⟩
    · intro i _ hne cc hcc
      obtain ⟨c', h1, _, h2, _⟩ := hcells i cc hcc
      exact ⟨c', h1, h2 hne⟩
  · rw [List.map_append, List.reverse_append]
    refine chain_unlink hbwd.1 hbwd.2 hringB hzB ⟨cell, hcell, rfl⟩ ?_ ?_
    · obtain ⟨cc, hcc⟩ := hex _ hmemB
      obtain ⟨c', h1, _, _, _, _, h5⟩ := hcells _ cc hcc
      exact ⟨c', h1, h5 rfl⟩
    · intro i _ hne cc hcc
      obtain ⟨c', h1, _, _, _, h4, _⟩ := hcells i cc hcc
      exact ⟨c', h1, h4 hne⟩
  · intro p hp
    obtain ⟨cc, hcc, hkey⟩ := h.cellKey p (by
      simp only [List.mem_append, List.mem_cons] at hp ⊢
      rcases hp with e | e
      · exact .inl e
      · exact .inr (.inr e))
    obtain ⟨c', h1, h2, _⟩ := hcells p.2 cc hcc
    exact ⟨c', h1, h2 ▸ hkey⟩
  · rw [hd]; exact nodup_dkeys_ddel _ h.mapNodup
  · intro k' c'
    rw [hd]
    simp only [dget_ddel _ _ _ h.mapNodup]
    have hkn := h.keys
    simp only [dkeys_append, dkeys_cons] at hkn
    have hka : k ∉ dkeys a := fun x => (List.nodup_append.1 hkn).2.2 k x k (by simp) rfl
    have hkb : k ∉ dkeys b := (List.nodup_cons.1 (List.nodup_append.1 hkn).2.1).1
    by_cases e : k' = k
    · subst e
      simp only [if_true, List.mem_append]
      constructor
      · intro x; cases x
      · rintro (x | x)
        · exact absurd (List.mem_map.2 ⟨(k', c'), x, rfl⟩) hka
        · exact absurd (List.mem_map.2 ⟨(k', c'), x, rfl⟩) hkb
    · simp only [e, if_false]
      rw [h.mapGet k' c']
      simp only [List.mem_append, List.mem_cons, Prod.mk.injEq, e, false_and, false_or]

end Repr

end Ioflo.Containers.Links
