import IofloModel.Model.Outline
/-! Helper lemmas about `exEn` / `stopIndex` (outline algebra). -/
namespace Ioflo.Outline

/-- the stop condition of the `ExEn` loop at index `j` -/
def StopAt (far : Fid) (ns fs : List Fid) (j : Nat) : Prop :=
  ns[j]? = some far ∨ ns[j]? ≠ fs[j]?

theorem exEn_nil_left (far : Fid) (fs : List Fid) : exEn far [] fs = ([], [], []) := by
  cases fs <;> rfl

theorem exEn_nil_right (far : Fid) (ns : List Fid) : exEn far ns [] = ([], [], ns) := by
  cases ns <;> rfl

theorem stopIndex_nil_left (far : Fid) (fs : List Fid) : stopIndex far [] fs = none := by
  cases fs <;> rfl

theorem stopIndex_nil_right (far : Fid) (ns : List Fid) : stopIndex far ns [] = none := by
  cases ns <;> rfl

/-- returning from inside the loop at index `i` -/
theorem exEn_of_stop (far : Fid) : ∀ (ns fs : List Fid) (i : Nat),
    stopIndex far ns fs = some i → exEn far ns fs = (ns.drop i, fs.drop i, ns.take i)
  | [], fs, i, h => by rw [stopIndex_nil_left] at h; cases h
  | n :: ns, [], i, h => by simp [stopIndex] at h
  | n :: ns, f :: fs, i, h => by
    unfold stopIndex at h
    unfold exEn
    by_cases hc : n = far ∨ n ≠ f
    · simp only [hc, if_true] at h ⊢
      cases h; rfl
    · simp only [hc, if_false] at h ⊢
      cases hs : stopIndex far ns fs with
      | none => simp [hs] at h
      | some k =>
        simp only [hs, Option.map_some, Option.some.injEq] at h
        subst h
        rw [exEn_of_stop far ns fs k hs]
        simp

/-- falling out of the loop -/
theorem exEn_of_noStop (far : Fid) : ∀ (ns fs : List Fid),
    stopIndex far ns fs = none → exEn far ns fs = ([], [], ns)
  | [], fs, _ => exEn_nil_left far fs
  | n :: ns, [], _ => rfl
  | n :: ns, f :: fs, h => by
    unfold stopIndex at h
    unfold exEn
    by_cases hc : n = far ∨ n ≠ f
    · simp [hc] at h
    · simp only [hc, if_false] at h ⊢
      cases hs : stopIndex far ns fs with
      | some k => simp [hs] at h
      | none => rw [exEn_of_noStop far ns fs hs]

theorem stopIndex_lt (far : Fid) : ∀ (ns fs : List Fid) (i : Nat),
    stopIndex far ns fs = some i → i < ns.length ∧ i < fs.length
  | [], fs, i, h => by rw [stopIndex_nil_left] at h; cases h
  | n :: ns, [], i, h => by simp [stopIndex] at h
  | n :: ns, f :: fs, i, h => by
    unfold stopIndex at h
    by_cases hc : n = far ∨ n ≠ f
    · simp only [hc, if_true, Option.some.injEq] at h
      subst h; simp
    · simp only [hc, if_false] at h
      cases hs : stopIndex far ns fs with
      | none => simp [hs] at h
      | some k =>
        simp only [hs, Option.map_some, Option.some.injEq] at h
        subst h
        have := stopIndex_lt far ns fs k hs
        simp only [List.length_cons]; omega

/-- at the returned index the stop condition holds … -/
theorem stopIndex_stop (far : Fid) : ∀ (ns fs : List Fid) (i : Nat),
    stopIndex far ns fs = some i → StopAt far ns fs i
  | [], fs, i, h => by rw [stopIndex_nil_left] at h; cases h
  | n :: ns, [], i, h => by simp [stopIndex] at h
  | n :: ns, f :: fs, i, h => by
    unfold stopIndex at h
    by_cases hc : n = far ∨ n ≠ f
    · simp only [hc, if_true, Option.some.injEq] at h
      subst h
      unfold StopAt
      simp only [List.getElem?_cons_zero, Option.some.injEq, ne_eq]
      exact hc
    · simp only [hc, if_false] at h
      cases hs : stopIndex far ns fs with
      | none => simp [hs] at h
      | some k =>
        simp only [hs, Option.map_some, Option.some.injEq] at h
        subst h
        have := stopIndex_stop far ns fs k hs
        unfold StopAt at this ⊢
        simpa using this

/-- … and at no smaller index (the loop returns at the *first* such index) -/
theorem stopIndex_first (far : Fid) : ∀ (ns fs : List Fid) (i : Nat),
    stopIndex far ns fs = some i → ∀ j, j < i → ¬ StopAt far ns fs j
  | [], fs, i, h => by rw [stopIndex_nil_left] at h; cases h
  | n :: ns, [], i, h => by simp [stopIndex] at h
  | n :: ns, f :: fs, i, h => by
    unfold stopIndex at h
    by_cases hc : n = far ∨ n ≠ f
    · simp only [hc, if_true, Option.some.injEq] at h
      subst h; intro j hj; omega
    · simp only [hc, if_false] at h
      cases hs : stopIndex far ns fs with
      | none => simp [hs] at h
      | some k =>
        simp only [hs, Option.map_some, Option.some.injEq] at h
        subst h
        intro j hj
        cases j with
        | zero =>
          unfold StopAt
          simp only [List.getElem?_cons_zero, Option.some.injEq, ne_eq]
          exact hc
        | succ j =>
          have := stopIndex_first far ns fs k hs j (by omega)
          unfold StopAt at this ⊢
          simpa using this

/-- the loop falls through iff the stop condition holds at no index below `min(len, len)` -/
theorem stopIndex_none (far : Fid) : ∀ (ns fs : List Fid),
    stopIndex far ns fs = none → ∀ j, j < ns.length → j < fs.length → ¬ StopAt far ns fs j
  | [], fs, _ => by intro j hj; simp at hj
  | n :: ns, [], _ => by intro j _ hj; simp at hj
  | n :: ns, f :: fs, h => by
    unfold stopIndex at h
    by_cases hc : n = far ∨ n ≠ f
    · simp [hc] at h
    · simp only [hc, if_false] at h
      cases hs : stopIndex far ns fs with
      | some k => simp [hs] at h
      | none =>
        intro j hj1 hj2
        cases j with
        | zero =>
          unfold StopAt
          simp only [List.getElem?_cons_zero, Option.some.injEq, ne_eq]
          exact hc
        | succ j =>
          have := stopIndex_none far ns fs hs j (by simpa using hj1) (by simpa using hj2)
          unfold StopAt at this ⊢
          simpa using this

/-- conversely: if some index below both lengths satisfies the stop condition, the loop returns -/
theorem stopIndex_isSome (far : Fid) : ∀ (ns fs : List Fid) (j : Nat),
    j < ns.length → j < fs.length → StopAt far ns fs j → (stopIndex far ns fs).isSome
  | [], fs, j, hj, _, _ => by simp at hj
  | n :: ns, [], j, _, hj, _ => by simp at hj
  | n :: ns, f :: fs, j, hj1, hj2, hst => by
    unfold stopIndex
    by_cases hc : n = far ∨ n ≠ f
    · simp [hc]
    · simp only [hc, if_false]
      cases j with
      | zero =>
        unfold StopAt at hst
        simp only [List.getElem?_cons_zero, Option.some.injEq, ne_eq] at hst
        exact absurd hst hc
      | succ j =>
        have hst' : StopAt far ns fs j := by
          unfold StopAt at hst ⊢; simpa using hst
        have := stopIndex_isSome far ns fs j (by simpa using hj1) (by simpa using hj2) hst'
        cases hs : stopIndex far ns fs with
        | none => simp [hs] at this
        | some k => simp

/-- below the stop index (or everywhere, when the loop falls through) the two outlines agree
and do not contain `far` -/
theorem not_stopAt_iff (far : Fid) (ns fs : List Fid) (j : Nat) (h1 : j < ns.length) (h2 : j < fs.length) :
    ¬ StopAt far ns fs j ↔ ns[j] = fs[j] ∧ ns[j] ≠ far := by
  unfold StopAt
  simp only [List.getElem?_eq_getElem h1, List.getElem?_eq_getElem h2, Option.some.injEq, ne_eq,
    not_or, Decidable.not_not]
  constructor
  · intro ⟨a, b⟩; exact ⟨b, a⟩
  · intro ⟨a, b⟩; exact ⟨b, a⟩

/-- the exits are a suffix of `nears`: every exited frame is a current frame -/
theorem exEn_exits_mem (far : Fid) (ns fs : List Fid) (x : Fid) (h : x ∈ (exEn far ns fs).1) : x ∈ ns := by
  cases hs : stopIndex far ns fs with
  | some i =>
    rw [exEn_of_stop far ns fs i hs] at h
    exact List.mem_of_mem_drop h
  | none =>
    rw [exEn_of_noStop far ns fs hs] at h
    simp at h

theorem exEn_reexens_mem (far : Fid) (ns fs : List Fid) (x : Fid) (h : x ∈ (exEn far ns fs).2.2) : x ∈ ns := by
  cases hs : stopIndex far ns fs with
  | some i =>
    rw [exEn_of_stop far ns fs i hs] at h
    exact List.mem_of_mem_take h
  | none =>
    rw [exEn_of_noStop far ns fs hs] at h
    exact h

theorem exEn_enters_mem (far : Fid) (ns fs : List Fid) (x : Fid) (h : x ∈ (exEn far ns fs).2.1) : x ∈ fs := by
  cases hs : stopIndex far ns fs with
  | some i =>
    rw [exEn_of_stop far ns fs i hs] at h
    exact List.mem_of_mem_drop h
  | none =>
    rw [exEn_of_noStop far ns fs hs] at h
    simp at h

/-- when something is entered, the last (bottom) frame of the current outline is exited -/
theorem exEn_last_exited (far : Fid) (ns fs : List Fid) (m : Fid) (hen : (exEn far ns fs).2.1 ≠ [])
    (hm : ns.getLast? = some m) : m ∈ (exEn far ns fs).1 := by
  cases hs : stopIndex far ns fs with
  | none =>
    rw [exEn_of_noStop far ns fs hs] at hen
    exact absurd rfl hen
  | some i =>
    rw [exEn_of_stop far ns fs i hs]
    have hl := (stopIndex_lt far ns fs i hs).1
    show m ∈ ns.drop i
    have hne : ns.drop i ≠ [] := by
      intro h; rw [List.drop_eq_nil_iff] at h; omega
    have : (ns.drop i).getLast? = some m := by
      rw [List.getLast?_drop]
      simp only [hm]
      have : ¬ ns.length ≤ i := by omega
      simp [this]
    exact List.mem_of_getLast? this

theorem take_eq_of_agree' (ns fs : List Fid) (i : Nat)
    (h : ∀ j, j < i → ns[j]? = fs[j]?) : ns.take i = fs.take i := by
  apply List.ext_getElem?
  intro j
  simp only [List.getElem?_take]
  by_cases hj : j < i
  · simp [hj, h j hj]
  · simp [hj]

/-- when something is entered, `ExEn` splits both outlines at one index below which they agree -/
theorem exEn_decomp (far : Fid) (ns fs : List Fid) (hen : (exEn far ns fs).2.1 ≠ []) :
    ∃ k, (exEn far ns fs).1 = ns.drop k ∧ (exEn far ns fs).2.1 = fs.drop k ∧ (exEn far ns fs).2.2 = ns.take k ∧
      ns.take k = fs.take k := by
  cases hs : stopIndex far ns fs with
  | none =>
    rw [exEn_of_noStop far ns fs hs] at hen
    exact absurd rfl hen
  | some k =>
    refine ⟨k, ?_, ?_, ?_, ?_⟩
    · rw [exEn_of_stop far ns fs k hs]
    · rw [exEn_of_stop far ns fs k hs]
    · rw [exEn_of_stop far ns fs k hs]
    · apply take_eq_of_agree'
      intro j hj
      have hl := stopIndex_lt far ns fs k hs
      have := (not_stopAt_iff far ns fs j (by omega) (by omega)).1 (stopIndex_first far ns fs k hs j hj)
      simp [List.getElem?_eq_getElem (show j < ns.length by omega),
        List.getElem?_eq_getElem (show j < fs.length by omega), this.1]

/-- bookkeeping of a transition on "entered" flags: start from "entered iff on `ns`", clear the exits
(`ns.drop k`), set the enters (`fs.drop k`); with a common prefix of length `k` the result is "entered iff on `fs`" -/
theorem entered_after_transit (ns fs : List Fid) (k : Nat) (hn : ns.Nodup) (hf : fs.Nodup)
    (hpre : ns.take k = fs.take k) (e0 e1 e2 : Fid → Bool) (f : Fid)
    (h0 : e0 f = true ↔ f ∈ ns)
    (h1 : (f ∈ ns.drop k → e1 f = false) ∧ (f ∉ ns.drop k → e1 f = e0 f))
    (h2 : (f ∈ fs.drop k → e2 f = true) ∧ (f ∉ fs.drop k → e2 f = e1 f)) :
    e2 f = true ↔ f ∈ fs := by
  have hns : f ∈ ns ↔ f ∈ ns.take k ∨ f ∈ ns.drop k := by
    rw [← List.mem_append, List.take_append_drop]
  have hfs : f ∈ fs ↔ f ∈ fs.take k ∨ f ∈ fs.drop k := by
    rw [← List.mem_append, List.take_append_drop]
  have hnd : f ∈ ns.take k → f ∉ ns.drop k := by
    intro h1' h2'
    have := hn
    rw [← List.take_append_drop k ns] at this
    exact (List.nodup_append.1 this).2.2 f h1' f h2' rfl
  have hfd : f ∈ fs.take k → f ∉ fs.drop k := by
    intro h1' h2'
    have := hf
    rw [← List.take_append_drop k fs] at this
    exact (List.nodup_append.1 this).2.2 f h1' f h2' rfl
  by_cases he : f ∈ fs.drop k
  · rw [h2.1 he]; simp [hfs, he]
  · rw [h2.2 he]
    by_cases hx : f ∈ ns.drop k
    · rw [h1.1 hx]
      constructor
      · intro h; cases h
      · intro hin
        rcases hfs.1 hin with ht | hd
        · rw [← hpre] at ht; exact absurd hx (hnd ht)
        · exact absurd hd he
    · rw [h1.2 hx, h0, hns, hfs, hpre]
      simp [hx, he]

end Ioflo.Outline
