import IofloModel.Model.Pid
import IofloModel.Lemmas.Wrap
/-! Helper lemmas for C46 (PID limits). Core Lean only. -/
namespace Ioflo.Pid
open Num

/-- decidable equality of results, for the concrete examples -/
instance exceptDecEq {ε α : Type} [DecidableEq ε] [DecidableEq α] : DecidableEq (Except ε α)
  | .ok a, .ok b => if h : a = b then isTrue (by rw [h]) else isFalse (fun e => h (by injection e))
  | .error a, .error b => if h : a = b then isTrue (by rw [h]) else isFalse (fun e => h (by injection e))
  | .ok _, .error _ => isFalse (fun e => by cases e)
  | .error _, .ok _ => isFalse (fun e => by cases e)

/-! ## the order with NaN -/

theorem lt_not_nan {a b : Num} (h : lt a b = true) : a.isNan = false ∧ b.isNan = false := by
  cases a <;> cases b <;> simp_all [lt, isNan]

theorem lt_asymm {a b : Num} (h : lt a b = true) : lt b a = false := by
  cases a <;> cases b <;> simp_all [lt]
  next x y => exact Rat.not_lt.2 (Rat.le_of_lt h)

theorem le_of_lt {a b : Num} (h : lt a b = true) : le a b = true := by
  have := lt_not_nan h
  simp [le, this.1, this.2, lt_asymm h]

theorem le_not_nan {a b : Num} (h : le a b = true) : a.isNan = false ∧ b.isNan = false := by
  simp only [le, Bool.and_eq_true, Bool.not_eq_true'] at h
  exact ⟨h.1.1, h.1.2⟩

theorem lt_irrefl (a : Num) : lt a a = false := by
  cases a <;> simp [lt]

theorem le_refl {a : Num} (h : a.isNan = false) : le a a = true := by
  simp [le, h, lt_irrefl]

/-- Python `max(a, b)` is one of its arguments, and `b` only when `b > a` -/
theorem pymax_cases (a b : Num) : pymax a b = a ∨ (pymax a b = b ∧ lt a b = true) := by
  unfold pymax gt
  by_cases h : lt a b = true
  · right; simp [h]
  · left; simp [h]

/-- Python `min(a, b)` is one of its arguments, and `b` only when `b < a` -/
theorem pymin_cases (a b : Num) : pymin a b = a ∨ (pymin a b = b ∧ lt b a = true) := by
  unfold pymin
  by_cases h : lt b a = true
  · right; simp [h]
  · left; simp [h]

/-- **the clamp**: for ordered limits the result is within them, whatever `x` is (NaN, ±inf, …) -/
theorem clamp_within (lo hi x : Num) (h : le lo hi = true) : within lo hi (clamp lo hi x) = true := by
  have hn := le_not_nan h
  unfold within clamp
  rcases pymin_cases hi (pymax lo x) with h1 | ⟨h1, h2⟩
  · rw [h1]; simp [h, le_refl hn.2]
  · rw [h1]
    rcases pymax_cases lo x with h3 | ⟨h3, h4⟩
    · rw [h3] at h2 ⊢; simp [le_refl hn.1, le_of_lt h2]
    · rw [h3] at h2 ⊢; simp [le_of_lt h4, le_of_lt h2]

/-! ## unfolding `action` -/

/-- the lapse `action` computes -/
def lapseOf (A : Arith) (s : State) (st : Option Num) : Num := (updateLapse A s st).lapse

/-- was the controller evaluated (lapse positive)? -/
def evaluated (A : Arith) (s : State) (st : Option Num) : Bool := !(le (lapseOf A s st) zero)

/-- the state after `updateLapse` and the copy of the lapse to the `elapsed` share -/
def lapsed (A : Arith) (s : State) (st : Option Num) : State :=
  { updateLapse A s st with elapsed := (updateLapse A s st).lapse }

theorem lapsed_shares (A : Arith) (s : State) (st : Option Num) :
    (lapsed A s st).prsp = s.prsp ∧ (lapsed A s st).e = s.e ∧ (lapsed A s st).er = s.er ∧
    (lapsed A s st).es = s.es ∧ (lapsed A s st).out = s.out ∧
    (lapsed A s st).lapse = lapseOf A s st := by
  unfold lapsed lapseOf updateLapse
  cases s.stamp <;> cases st <;> simp

theorem action_skip (A : Arith) (s : State) (st : Option Num) (i r sp : Num) (p : Parm)
    (h : evaluated A s st = false) : action A s st i r sp p = .ok (lapsed A s st) := by
  unfold evaluated lapseOf at h
  simp only [Bool.not_eq_false'] at h
  unfold action lapsed
  simp only [h, if_true]

/-- the set-point test of `action` -/
def jump (A : Arith) (s : State) (sp : Num) (p : Parm) : Bool := gt (abs (A.sub sp s.prsp)) p.drsp

/-- the set point the controller uses -/
def rspEff (A : Arith) (s : State) (sp : Num) (p : Parm) : Num := if jump A s sp p then sp else s.prsp

/-- what an evaluated `action` leaves in the shares -/
theorem action_eval (A : Arith) (s : State) (st : Option Num) (i r sp : Num) (p : Parm) (s' : State)
    (hev : evaluated A s st = true) (h : action A s st i r sp p = .ok s') :
    ∃ e er es1 out1,
      wrap2 A (A.sub i (rspEff A s sp p)) p.wrap = .ok e ∧
      s'.e = e ∧ s'.er = er ∧ s'.prsp = rspEff A s sp p ∧
      s'.es = clamp p.esmin p.esmax es1 ∧ s'.out = clamp p.ovmin p.ovmax out1 ∧
      s'.lapse = lapseOf A s st ∧ s'.elapsed = lapseOf A s st ∧ s'.stamp = st := by
  unfold evaluated lapseOf at hev
  simp only [Bool.not_eq_true'] at hev
  have hst : (updateLapse A s st).stamp = st := by
    unfold updateLapse; cases s.stamp <;> cases st <;> rfl
  have hprsp : (updateLapse A s st).prsp = s.prsp := by
    unfold updateLapse; cases s.stamp <;> cases st <;> rfl
  unfold action at h
  simp only [hev, Bool.false_eq_true, if_false] at h
  unfold rspEff jump
  rw [← hprsp]
  split at h
  · cases h
  · next e he =>
    split at h
    · cases h
    · next er _ =>
      split at h
      · cases h
      · next ae _ =>
        split at h
        · cases h
        · next b1 _ =>
          split at h
          · cases h
          · next b2 _ =>
            injection h with h
            subst h
            exact ⟨e, er, _, _, he, rfl, rfl, rfl, rfl, rfl, rfl, rfl, hst⟩


/-! ## exact arithmetic: `wrap2` is the C43 function -/

theorem fin_ne_zero {q : Rat} (h : q ≠ 0) : (Num.fin q) ≠ zero := by
  intro e; unfold zero at e; injection e with e; exact h e

theorem ne_fin_zero (q : Rat) : ne (.fin q) zero = true ↔ q ≠ 0 := by
  unfold ne zero isNan; simp

theorem wrap2_exact (a w : Rat) :
    wrap2 exactArith (.fin a) (.fin w) = .ok (.fin (Wrap.wrap2 a w)) := by
  unfold wrap2 Wrap.wrap2
  by_cases hw : w = 0
  · subst hw; simp [ne, isNan, zero]
  · have hne : ne (.fin w) zero = true := (ne_fin_zero w).2 hw
    have h2 : w * 2 ≠ 0 := by grind
    have hnw : -w ≠ 0 := by grind
    simp only [hne, if_true, ne_eq, hw, not_false_eq_true]
    simp only [exactArith, xmul, two, pmod, fin_ne_zero h2, if_false, xmod, Num.abs, gt, lt,
      decide_eq_true_eq, xsub, Num.neg, xadd, fin_ne_zero hnw]
    by_cases hc : Wrap.pabs w < Wrap.pabs (Wrap.pymod a (w * 2))
    · simp only [hc, if_true, Rat.sub_eq_add_neg]
    · simp only [hc, if_false]

/-- binary64 arithmetic: `wrap2` is C43's rounded instantiation -/
theorem wrap2_float (a w : Rat) :
    wrap2 floatArith (.fin a) (.fin w) = .ok (.fin (Wrap.wrap2F a w)) := by
  unfold wrap2 Wrap.wrap2F
  by_cases hw : w = 0
  · subst hw; simp [ne, isNan, zero]
  · have hne : ne (.fin w) zero = true := (ne_fin_zero w).2 hw
    have h2 : Wrap.rn (w * 2) ≠ 0 := fun e => hw (by have := (Wrap.rn_eq_zero_iff _).1 e; grind)
    have hnw : -w ≠ 0 := by grind
    simp only [hne, if_true, ne_eq, hw, not_false_eq_true]
    simp only [floatArith, xmul, two, rnN, pmod, fin_ne_zero h2, if_false, xmod, Num.abs, gt, lt,
      decide_eq_true_eq, xsub, Num.neg, xadd, fin_ne_zero hnw, Wrap.pymodF]
    by_cases hc : Wrap.pabs w < Wrap.pabs (Wrap.rn (Wrap.pymod a (Wrap.rn (w * 2))))
    · simp only [hc, if_true, Rat.sub_eq_add_neg]
    · simp only [hc, if_false]

/-! ## no `ZeroDivisionError` -/

theorem pdiv_ok (A : Arith) (x y : Num) (h : y ≠ zero) : pdiv A x y = .ok (A.div x y) := by
  simp [pdiv, h]

theorem pmod_ok (A : Arith) (x y : Num) (h : y ≠ zero) : pmod A x y = .ok (A.mod x y) := by
  simp [pmod, h]

theorem neg_ne_zero {w : Num} (h : ne w zero = true) : neg w ≠ zero := by
  cases w with
  | fin q =>
    have : q ≠ 0 := (ne_fin_zero q).1 h
    simp only [Num.neg]
    exact fin_ne_zero (by grind)
  | _ => simp [Num.neg, zero]

/-- doubling a non-zero number does not give zero (true of exact and of binary64 arithmetic) -/
def DoublingNonzero (A : Arith) : Prop := ∀ w, ne w zero = true → A.mul w two ≠ zero

theorem wrap2_total (A : Arith) (hA : DoublingNonzero A) (x w : Num) : ∃ e, wrap2 A x w = .ok e := by
  unfold wrap2
  by_cases h : ne w zero = true
  · simp only [h, if_true, pmod_ok A _ _ (hA w h), pmod_ok A _ _ (neg_ne_zero h)]
    split <;> exact ⟨_, rfl⟩
  · simp only [h]; exact ⟨_, rfl⟩

theorem blend0_total (A : Arith) (d u s : Num) (hs : abs s ≠ zero) : ∃ b, blend0 A d u s = .ok b := by
  unfold blend0
  simp only [pdiv_ok A _ _ hs]
  split
  · exact ⟨_, rfl⟩
  · split <;> exact ⟨_, rfl⟩

theorem action_total (A : Arith) (hA : DoublingNonzero A) (s : State) (st : Option Num)
    (i r sp : Num) (p : Parm) : ∃ s', action A s st i r sp p = .ok s' := by
  by_cases hev : evaluated A s st = true
  · have hle : le (updateLapse A s st).lapse zero = false := by
      simpa [evaluated, lapseOf] using hev
    have hl : (updateLapse A s st).lapse ≠ zero := by
      intro e; rw [e] at hle; revert hle; decide
    unfold action
    simp only [hle, Bool.false_eq_true, if_false]
    obtain ⟨e, he⟩ := wrap2_total A hA
      (A.sub i (if gt (abs (A.sub sp (updateLapse A s st).prsp)) p.drsp = true then sp
        else (updateLapse A s st).prsp)) p.wrap
    simp only [he, pdiv_ok A _ _ hl, pdiv_ok A _ two (by decide)]
    have h3 : abs three ≠ zero := by decide
    have h4 : abs tenth ≠ zero := by decide +kernel
    cases p.calcRate
    · simp only [Bool.false_eq_true, if_false]
      obtain ⟨b1, hb1⟩ := blend0_total A (A.div (A.mul (updateLapse A s st).lapse (A.add e (updateLapse A s st).e)) two) zero three h3
      obtain ⟨b2, hb2⟩ := blend0_total A (A.mul p.ger r) zero tenth h4
      simp only [hb1, hb2]; exact ⟨_, rfl⟩
    · simp only [if_true]
      obtain ⟨b1, hb1⟩ := blend0_total A (A.div (A.mul (updateLapse A s st).lapse (A.add e (updateLapse A s st).e)) two) zero three h3
      obtain ⟨b2, hb2⟩ := blend0_total A (A.div (A.sub e (updateLapse A s st).e) (updateLapse A s st).lapse) zero tenth h4
      simp only [hb1, hb2]; exact ⟨_, rfl⟩
  · simp only [Bool.not_eq_true] at hev
    exact ⟨_, action_skip A s st i r sp p hev⟩

theorem exact_doubling : DoublingNonzero exactArith := by
  intro w h
  cases w with
  | fin q =>
    have : q ≠ 0 := (ne_fin_zero q).1 h
    simp only [exactArith, xmul, two]
    exact fin_ne_zero (by grind)
  | nan => simp [exactArith, xmul, zero]
  | pinf => simp only [exactArith, two]; decide +kernel
  | ninf => simp only [exactArith, two]; decide +kernel


theorem float_doubling : DoublingNonzero floatArith := by
  intro w h
  cases w with
  | fin q =>
    have hq : q ≠ 0 := (ne_fin_zero q).1 h
    have h2 : q * 2 ≠ 0 := by grind
    simp only [floatArith, xmul, two, rnN]
    exact fin_ne_zero (fun e => h2 ((Wrap.rn_eq_zero_iff _).1 e))
  | nan => simp [floatArith, xmul, rnN, zero]
  | pinf => simp only [floatArith, two]; decide +kernel
  | ninf => simp only [floatArith, two]; decide +kernel

end Ioflo.Pid
