import IofloModel.Lemmas.Pid
import IofloModel.Model.PidTyped
/-! Helper lemmas for the typed PID model (C46). Core Lean only. -/
namespace Ioflo.Pid
open Num

theorem pymaxT_v (a b : TNum) : (TNum.pymax a b).v = Num.pymax a.v b.v := by
  unfold TNum.pymax Num.pymax; split <;> rfl

theorem pyminT_v (a b : TNum) : (TNum.pymin a b).v = Num.pymin a.v b.v := by
  unfold TNum.pymin Num.pymin; split <;> rfl

/-- the typed clamp selects among its argument objects exactly as the untyped one among values -/
theorem clampT_v (lo hi x : TNum) : (clampT lo hi x).v = clamp lo.v hi.v x.v := by
  unfold clampT clamp; rw [pyminT_v, pymaxT_v]

theorem clampT_within (lo hi x : TNum) (h : le lo.v hi.v = true) :
    within lo.v hi.v (clampT lo hi x).v = true := by
  rw [clampT_v]; exact clamp_within _ _ _ h

def evaluatedT (s : StateT) (st : Option TNum) : Bool := !(le (updateLapseT s st).lapse.v zero)

theorem actionT_eval (s : StateT) (st : Option TNum) (i r sp : TNum) (p : ParmT) (s' : StateT)
    (hev : evaluatedT s st = true) (h : actionT s st i r sp p = .ok s') :
    ∃ es1 out1, s'.es = clampT p.esmin p.esmax es1 ∧ s'.out = clampT p.ovmin p.ovmax out1 := by
  unfold evaluatedT at hev
  simp only [Bool.not_eq_true'] at hev
  unfold actionT at h
  simp only [hev, Bool.false_eq_true, if_false] at h
  split at h
  · cases h
  · split at h
    · cases h
    · split at h
      · cases h
      · split at h
        · cases h
        · split at h
          · cases h
          · injection h with h
            subst h
            exact ⟨_, _, rfl, rfl⟩

theorem actionT_skip (s : StateT) (st : Option TNum) (i r sp : TNum) (p : ParmT)
    (hev : evaluatedT s st = false) :
    ∃ s', actionT s st i r sp p = .ok s' ∧ s'.es = s.es ∧ s'.out = s.out ∧ s'.prsp = s.prsp ∧ s'.e = s.e := by
  unfold evaluatedT at hev
  simp only [Bool.not_eq_false'] at hev
  unfold actionT
  simp only [hev, if_true]
  refine ⟨_, rfl, ?_⟩
  unfold updateLapseT
  cases s.stamp <;> cases st <;> simp

end Ioflo.Pid
