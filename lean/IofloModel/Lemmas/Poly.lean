import IofloModel.Model.Poly
/-!
Helper lemmas for C44: the loops as "on an edge? else sum of crossings", consecutive pairs of a
closed walk, and how crossings behave under swapping an edge / translating.
-/
namespace Ioflo.Poly

/-! ### integers -/

theorem mul_self_nonneg (a : Int) : 0 ≤ a * a := by
  have := Int.sq_nonneg a
  grind

theorem sq_sum_zero (a b : Int) (h : a * a + b * b = 0) : a = 0 ∧ b = 0 := by
  have ha := mul_self_nonneg a
  have hb := mul_self_nonneg b
  have ha0 : a * a = 0 := by omega
  have hb0 : b * b = 0 := by omega
  exact ⟨by rcases Int.mul_eq_zero.mp ha0 with h | h <;> exact h,
         by rcases Int.mul_eq_zero.mp hb0 with h | h <;> exact h⟩

theorem nonneg_of_pos_mul (d x : Int) (hd : 0 < d) (h : 0 ≤ d * x) : 0 ≤ x :=
  Int.nonneg_of_mul_nonneg_right h hd

theorem eq_zero_of_pos_mul (d x : Int) (hd : 0 < d) (h : d * x = 0) : x = 0 := by
  rcases Int.mul_eq_zero.mp h with h | h
  · omega
  · exact h

/-! ### the geometric meaning of `tween2` -/

/-- `p = u + (n/d)·(v − u)` for a fraction `0 ≤ n/d ≤ 1` -/
def OnSegment (p u v : Pt) : Prop :=
  ∃ n d : Int, 0 ≤ n ∧ n ≤ d ∧ 0 < d ∧
    d * (p.1 - u.1) = n * (v.1 - u.1) ∧ d * (p.2 - u.2) = n * (v.2 - u.2)

theorem tween2_iff (p u v : Pt) : tween2 p u v = true ↔ OnSegment p u v := by
  obtain ⟨p1, p2⟩ := p
  obtain ⟨u1, u2⟩ := u
  obtain ⟨v1, v2⟩ := v
  simp only [tween2, sub, dot, mag2, trip, OnSegment]
  constructor
  · intro h
    by_cases h0 : (v1 - u1) * (v1 - u1) + (v2 - u2) * (v2 - u2) = 0
    · simp only [h0, if_true, decide_eq_true_eq, Prod.mk.injEq] at h
      exact ⟨1, 1, by omega, by omega, by omega, by omega, by omega⟩
    · simp only [h0, if_false] at h
      have hpos : 0 < (v1 - u1) * (v1 - u1) + (v2 - u2) * (v2 - u2) := by
        have := mul_self_nonneg (v1 - u1); have := mul_self_nonneg (v2 - u2); omega
      by_cases h1 : (p1 - u1) * (v1 - u1) + (p2 - u2) * (v2 - u2) < 0
      · simp [h1] at h
      · by_cases h2 : (p1 - u1) * (v1 - u1) + (p2 - u2) * (v2 - u2) > (v1 - u1) * (v1 - u1) + (v2 - u2) * (v2 - u2)
        · simp [h1, h2] at h
        · by_cases h3 : (p1 - u1) * (v2 - u2) - (p2 - u2) * (v1 - u1) = 0
          · refine ⟨(p1 - u1) * (v1 - u1) + (p2 - u2) * (v2 - u2),
              (v1 - u1) * (v1 - u1) + (v2 - u2) * (v2 - u2), by omega, by omega, hpos, ?_, ?_⟩ <;> grind
          · simp [h1, h2, h3] at h
  · rintro ⟨n, d, hn, hnd, hd, e1, e2⟩
    by_cases h0 : (v1 - u1) * (v1 - u1) + (v2 - u2) * (v2 - u2) = 0
    · obtain ⟨hb1, hb2⟩ := sq_sum_zero _ _ h0
      have ha1 : p1 - u1 = 0 := eq_zero_of_pos_mul d _ hd (by rw [e1, hb1]; simp)
      have ha2 : p2 - u2 = 0 := eq_zero_of_pos_mul d _ hd (by rw [e2, hb2]; simp)
      simp only [h0, if_true, decide_eq_true_eq, Prod.mk.injEq]
      omega
    · simp only [h0, if_false]
      have hbb : 0 ≤ (v1 - u1) * (v1 - u1) + (v2 - u2) * (v2 - u2) := by
        have := mul_self_nonneg (v1 - u1); have := mul_self_nonneg (v2 - u2); omega
      have hk : d * ((p1 - u1) * (v1 - u1) + (p2 - u2) * (v2 - u2)) =
          n * ((v1 - u1) * (v1 - u1) + (v2 - u2) * (v2 - u2)) := by grind
      have h1 : ¬ (p1 - u1) * (v1 - u1) + (p2 - u2) * (v2 - u2) < 0 := by
        have : 0 ≤ (p1 - u1) * (v1 - u1) + (p2 - u2) * (v2 - u2) :=
          nonneg_of_pos_mul d _ hd (by rw [hk]; exact Int.mul_nonneg hn hbb)
        omega
      have h2 : ¬ (p1 - u1) * (v1 - u1) + (p2 - u2) * (v2 - u2) > (v1 - u1) * (v1 - u1) + (v2 - u2) * (v2 - u2) := by
        have hle : d * ((p1 - u1) * (v1 - u1) + (p2 - u2) * (v2 - u2)) ≤
            d * ((v1 - u1) * (v1 - u1) + (v2 - u2) * (v2 - u2)) := by
          rw [hk]; exact Int.mul_le_mul_of_nonneg_right hnd hbb
        have := Int.le_of_mul_le_mul_left hle hd
        omega
      have h3 : (p1 - u1) * (v2 - u2) - (p2 - u2) * (v1 - u1) = 0 :=
        eq_zero_of_pos_mul d _ hd (by grind)
      simp [h1, h2, h3]

theorem OnSegment.symm {p u v : Pt} (h : OnSegment p u v) : OnSegment p v u := by
  obtain ⟨n, d, hn, hnd, hd, e1, e2⟩ := h
  exact ⟨d - n, d, by omega, by omega, hd, by grind, by grind⟩

theorem tween2_symm (p u v : Pt) : tween2 p u v = tween2 p v u := by
  have h1 := tween2_iff p u v
  have h2 := tween2_iff p v u
  cases ha : tween2 p u v <;> cases hb : tween2 p v u <;> simp_all
  · exact absurd (h2.symm) (fun h => by have := OnSegment.symm h; simp_all)
  · exact absurd (h1.symm) (fun h => by have := OnSegment.symm h; simp_all)

/-! ### the loops -/

/-- p lies on one of the sides -/
def onEdge (p : Pt) (es : List (Pt × Pt)) : Bool := es.any (fun e => tween2 p e.1 e.2)

/-- sum of the crossing contributions -/
def crossSum (p : Pt) (es : List (Pt × Pt)) : Int := (es.map (cross p)).sum

theorem windLoop_eq (p : Pt) (es : List (Pt × Pt)) (w : Int) :
    windLoop p es w = if onEdge p es then 0 else w + crossSum p es := by
  induction es generalizing w with
  | nil => simp [windLoop, onEdge, crossSum]
  | cons e rest ih =>
    simp only [windLoop, onEdge, crossSum, List.any_cons, List.map_cons, List.sum_cons]
    by_cases h : tween2 p e.1 e.2 = true
    · simp [h]
    · simp only [h, Bool.false_eq_true, if_false, Bool.false_or]
      rw [ih]; simp only [onEdge, crossSum, Int.add_assoc]

theorem insideLoop_eq (p : Pt) (side : Bool) (es : List (Pt × Pt)) (w : Int) :
    insideLoop p side es w = if onEdge p es then side else (w + crossSum p es != 0) := by
  induction es generalizing w with
  | nil => simp [insideLoop, onEdge, crossSum]
  | cons e rest ih =>
    simp only [insideLoop, onEdge, crossSum, List.any_cons, List.map_cons, List.sum_cons]
    by_cases h : tween2 p e.1 e.2 = true
    · simp [h]
    · simp only [h, Bool.false_eq_true, if_false, Bool.false_or]
      rw [ih]; simp only [onEdge, crossSum, Int.add_assoc]

/-- on a vertex or on a side -/
def onBoundary (p : Pt) (vs : List Pt) : Bool := decide (p ∈ vs) || onEdge p (edges vs)

theorem wind_eq (p : Pt) (vs : List Pt) :
    wind p vs = if onBoundary p vs then 0 else crossSum p (edges vs) := by
  unfold wind onBoundary
  by_cases h : p ∈ vs
  · simp [h]
  · simp only [h, if_false, decide_false, Bool.false_or, windLoop_eq]
    split <;> omega

theorem inside_eq (p : Pt) (vs : List Pt) (side : Bool) :
    inside p vs side = if onBoundary p vs then side else (crossSum p (edges vs) != 0) := by
  unfold inside onBoundary
  by_cases h : p ∈ vs
  · simp [h]
  · simp only [h, if_false, decide_false, Bool.false_or, insideLoop_eq, Int.zero_add]

theorem sideOnly_eq (p : Pt) (vs : List Pt) : sideOnly p vs = onBoundary p vs := by
  unfold sideOnly onBoundary onEdge
  by_cases h : p ∈ vs <;> simp [h]

/-! ### closed walks -/

/-- consecutive pairs of a list -/
def pairs : List Pt → List (Pt × Pt)
  | [] => []
  | [_] => []
  | a :: b :: t => (a, b) :: pairs (b :: t)

theorem zip_eq_pairs (x y : Pt) (l : List Pt) : (x :: l).zip (l ++ [y]) = pairs (x :: (l ++ [y])) := by
  induction l generalizing x with
  | nil => rfl
  | cons b t ih =>
    simp only [List.cons_append, List.zip_cons_cons, pairs]
    rw [ih]

/-- the sides of `a :: l` are the consecutive pairs of the closed walk `a, l…, a` -/
theorem edges_eq_pairs (a : Pt) (l : List Pt) : edges (a :: l) = pairs (a :: (l ++ [a])) := by
  simp only [edges]; exact zip_eq_pairs a a l

theorem pairs_snoc (l : List Pt) (x y : Pt) : pairs (l ++ [x, y]) = pairs (l ++ [x]) ++ [(x, y)] := by
  induction l with
  | nil => rfl
  | cons a t ih =>
    cases t with
    | nil => rfl
    | cons b t' =>
      simp only [List.cons_append, pairs] at ih ⊢
      rw [ih]

theorem pairs_reverse (l : List Pt) : pairs l.reverse = ((pairs l).map Prod.swap).reverse := by
  induction l with
  | nil => rfl
  | cons a t ih =>
    cases t with
    | nil => rfl
    | cons b t' =>
      have h1 : (a :: b :: t').reverse = t'.reverse ++ [b, a] := by simp
      rw [h1, pairs_snoc]
      have h2 : t'.reverse ++ [b] = (b :: t').reverse := by simp
      rw [h2, ih]
      simp [pairs]

/-! ### swapping and translating an edge -/

theorem cross_swap (p a b : Pt) : cross p (b, a) = - cross p (a, b) := by
  obtain ⟨p1, p2⟩ := p
  obtain ⟨a1, a2⟩ := a
  obtain ⟨b1, b2⟩ := b
  simp only [cross, left, right, trip, sub]
  have key : (p1 - b1) * (a2 - b2) - (p2 - b2) * (a1 - b1) = - ((p1 - a1) * (b2 - a2) - (p2 - a2) * (b1 - a1)) := by
    grind
  simp only [key]
  by_cases h1 : a2 ≤ p2 <;> by_cases h2 : b2 ≤ p2 <;>
    by_cases h3 : (p1 - a1) * (b2 - a2) - (p2 - a2) * (b1 - a1) < 0 <;>
    by_cases h4 : (p1 - a1) * (b2 - a2) - (p2 - a2) * (b1 - a1) > 0 <;>
    simp [h1, h2, h3] <;> omega

def shift (d p : Pt) : Pt := (p.1 + d.1, p.2 + d.2)

theorem sub_shift (d p u : Pt) : sub (shift d p) (shift d u) = sub p u := by
  simp only [sub, shift, Prod.mk.injEq]; omega

theorem tween2_shift (d p u v : Pt) : tween2 (shift d p) (shift d u) (shift d v) = tween2 p u v := by
  simp only [tween2, sub_shift]

theorem cross_shift (d p a b : Pt) : cross (shift d p) (shift d a, shift d b) = cross p (a, b) := by
  simp only [cross, sub_shift]
  have h5 : ((shift d a).2 ≤ (shift d p).2) = (a.2 ≤ p.2) := by simp only [shift]; apply propext; omega
  have h6 : ((shift d b).2 > (shift d p).2) = (b.2 > p.2) := by simp only [shift]; apply propext; omega
  have h7 : ((shift d b).2 ≤ (shift d p).2) = (b.2 ≤ p.2) := by simp only [shift]; apply propext; omega
  simp only [h5, h6, h7]

theorem edges_map_shift (d : Pt) (vs : List Pt) :
    edges (vs.map (shift d)) = (edges vs).map (fun e => (shift d e.1, shift d e.2)) := by
  cases vs with
  | nil => rfl
  | cons a t =>
    simp only [edges, List.map_cons]
    have : List.map (shift d) t ++ [shift d a] = List.map (shift d) (t ++ [a]) := by simp
    rw [this, ← List.map_cons, List.zip_map]
    simp [Prod.map]

theorem shift_injective (d p q : Pt) (h : shift d p = shift d q) : p = q := by
  obtain ⟨p1, p2⟩ := p
  obtain ⟨q1, q2⟩ := q
  simp only [shift, Prod.mk.injEq] at h ⊢
  omega

theorem mem_map_shift (d p : Pt) (vs : List Pt) : shift d p ∈ vs.map (shift d) ↔ p ∈ vs := by
  simp only [List.mem_map]
  constructor
  · rintro ⟨q, hq, he⟩
    rw [← shift_injective d q p he]; exact hq
  · intro h; exact ⟨p, h, rfl⟩

/-! ### rotating the vertex list -/

def rot1 : List α → List α
  | [] => []
  | a :: t => t ++ [a]

theorem edges_rot1 (vs : List Pt) : edges (rot1 vs) = rot1 (edges vs) := by
  cases vs with
  | nil => rfl
  | cons a t =>
    cases t with
    | nil => rfl
    | cons b t' =>
      simp only [rot1, edges, List.cons_append, List.zip_cons_cons]
      have hlen : (b :: t').length = (t' ++ [a]).length := by simp
      have : (b :: (t' ++ [a])).zip (t' ++ [a] ++ [b]) = ((b :: t') ++ [a]).zip ((t' ++ [a]) ++ [b]) := by simp
      rw [this, List.zip_append hlen]
      simp

theorem onEdge_rot1 (p : Pt) (es : List (Pt × Pt)) : onEdge p (rot1 es) = onEdge p es := by
  cases es with
  | nil => rfl
  | cons e t => simp [rot1, onEdge, List.any_append, Bool.or_comm]

theorem crossSum_rot1 (p : Pt) (es : List (Pt × Pt)) : crossSum p (rot1 es) = crossSum p es := by
  cases es with
  | nil => rfl
  | cons e t => simp only [rot1, crossSum, List.map_append, List.sum_append, List.map_cons, List.sum_cons,
      List.map_nil, List.sum_nil]; omega

theorem mem_rot1 (p : Pt) (vs : List Pt) : p ∈ rot1 vs ↔ p ∈ vs := by
  cases vs with
  | nil => simp [rot1]
  | cons a t => simp [rot1, or_comm]

theorem onBoundary_rot1 (p : Pt) (vs : List Pt) : onBoundary p (rot1 vs) = onBoundary p vs := by
  simp only [onBoundary, edges_rot1, onEdge_rot1]
  congr 1
  exact decide_eq_decide.mpr (mem_rot1 p vs)

/-! ### reversing -/

theorem onEdge_swap_reverse (p : Pt) (es : List (Pt × Pt)) :
    onEdge p ((es.map Prod.swap).reverse) = onEdge p es := by
  simp only [onEdge, List.any_reverse, List.any_map]
  congr 1
  funext e
  simp only [Function.comp, Prod.swap]
  exact tween2_symm p e.2 e.1

theorem crossSum_swap_reverse (p : Pt) (es : List (Pt × Pt)) :
    crossSum p ((es.map Prod.swap).reverse) = - crossSum p es := by
  simp only [crossSum, List.map_reverse, List.sum_reverse, List.map_map]
  induction es with
  | nil => simp
  | cons e t ih =>
    obtain ⟨a, b⟩ := e
    simp only [List.map_cons, List.sum_cons, Function.comp, Prod.swap] at ih ⊢
    rw [ih, cross_swap p a b]
    omega

/-! ### axis-parallel sides -/

theorem mul_neg_iff_of_pos (a c : Int) (hc : 0 < c) : a * c < 0 ↔ a < 0 := by
  constructor
  · intro h
    by_cases ha : a < 0
    · exact ha
    · have := Int.mul_nonneg (by omega : 0 ≤ a) (by omega : 0 ≤ c); omega
  · intro h; exact Int.mul_neg_of_neg_of_pos h hc

theorem cross_vertical_up (p : Pt) (x ya yb : Int) (h : ya < yb) :
    cross p ((x, ya), (x, yb)) = if ya ≤ p.2 ∧ p.2 < yb ∧ p.1 < x then 1 else 0 := by
  obtain ⟨p1, p2⟩ := p
  simp only [cross, right, left, trip, sub]
  have e : (p1 - x) * (yb - ya) - (p2 - ya) * (x - x) = (p1 - x) * (yb - ya) := by
    have : x - x = 0 := by omega
    rw [this]; simp
  simp only [e]
  have s := mul_neg_iff_of_pos (p1 - x) (yb - ya) (by omega)
  by_cases h1 : ya ≤ p2 <;> by_cases h2 : yb > p2 <;> by_cases h3 : p1 < x <;> simp [h1, h2, h3, s] <;> omega

theorem cross_vertical_down (p : Pt) (x ya yb : Int) (h : ya < yb) :
    cross p ((x, yb), (x, ya)) = if ya ≤ p.2 ∧ p.2 < yb ∧ p.1 < x then -1 else 0 := by
  rw [cross_swap, cross_vertical_up p x ya yb h]
  split <;> simp

theorem cross_horizontal (p : Pt) (a b y : Int) : cross p ((a, y), (b, y)) = 0 := by
  simp only [cross]
  by_cases h : y ≤ p.2
  · have : ¬ y > p.2 := by omega
    simp [h, this]
  · simp [h]

theorem tween2_horizontal (p : Pt) (a b y : Int) (h : a < b) :
    tween2 p (a, y) (b, y) = decide (p.2 = y ∧ a ≤ p.1 ∧ p.1 ≤ b) := by
  rw [Bool.eq_iff_iff, tween2_iff, decide_eq_true_iff]
  obtain ⟨p1, p2⟩ := p
  simp only [OnSegment]
  constructor
  · rintro ⟨n, d, hn, hnd, hd, e1, e2⟩
    have hz : y - y = 0 := by omega
    rw [hz, Int.mul_zero] at e2
    have hy : p2 - y = 0 := eq_zero_of_pos_mul d _ hd e2
    have h1 : 0 ≤ p1 - a := nonneg_of_pos_mul d _ hd (by rw [e1]; exact Int.mul_nonneg hn (by omega))
    have h2 : d * (p1 - a) ≤ d * (b - a) := by rw [e1]; exact Int.mul_le_mul_of_nonneg_right hnd (by omega)
    have h3 := Int.le_of_mul_le_mul_left h2 hd
    omega
  · rintro ⟨hy, h1, h2⟩
    refine ⟨p1 - a, b - a, by omega, by omega, by omega, Int.mul_comm _ _, ?_⟩
    have : p2 - y = 0 := by omega
    have h0 : y - y = 0 := by omega
    rw [this, h0]; simp

theorem tween2_vertical (p : Pt) (x a b : Int) (h : a < b) :
    tween2 p (x, a) (x, b) = decide (p.1 = x ∧ a ≤ p.2 ∧ p.2 ≤ b) := by
  rw [Bool.eq_iff_iff, tween2_iff, decide_eq_true_iff]
  obtain ⟨p1, p2⟩ := p
  simp only [OnSegment]
  constructor
  · rintro ⟨n, d, hn, hnd, hd, e1, e2⟩
    have hz : x - x = 0 := by omega
    rw [hz, Int.mul_zero] at e1
    have hx : p1 - x = 0 := eq_zero_of_pos_mul d _ hd e1
    have h1 : 0 ≤ p2 - a := nonneg_of_pos_mul d _ hd (by rw [e2]; exact Int.mul_nonneg hn (by omega))
    have h2 : d * (p2 - a) ≤ d * (b - a) := by rw [e2]; exact Int.mul_le_mul_of_nonneg_right hnd (by omega)
    have h3 := Int.le_of_mul_le_mul_left h2 hd
    omega
  · rintro ⟨hx, h1, h2⟩
    refine ⟨p2 - a, b - a, by omega, by omega, by omega, ?_, Int.mul_comm _ _⟩
    have : p1 - x = 0 := by omega
    have h0 : x - x = 0 := by omega
    rw [this, h0]; simp

end Ioflo.Poly
