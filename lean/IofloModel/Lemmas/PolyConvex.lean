import IofloModel.Lemmas.Poly
/-!
Helper lemmas for C44, convex polygons: balance of up and down crossings of a closed walk, a polygon
strictly on one side of a line through p does not wind, a point strictly left of every side is wound,
closed-walk propagation lemmas.
-/
namespace Ioflo.Poly

/-! ### sign toolkit -/
theorem pos_of_mul_pos_of_pos {x y : Int} (h : 0 < x * y) (hx : 0 < x) : 0 < y := by
  by_cases hy : 0 < y
  · exact hy
  · have := Int.mul_nonpos_of_nonneg_of_nonpos (by omega : 0 ≤ x) (by omega : y ≤ 0); omega
theorem neg_of_mul_pos_of_neg {x y : Int} (h : 0 < x * y) (hx : x < 0) : y < 0 := by
  by_cases hy : y < 0
  · exact hy
  · have := Int.mul_nonpos_of_nonpos_of_nonneg (by omega : x ≤ 0) (by omega : 0 ≤ y); omega
theorem neg_of_mul_neg_of_pos {x y : Int} (h : x * y < 0) (hx : 0 < x) : y < 0 := by
  by_cases hy : y < 0
  · exact hy
  · have := Int.mul_nonneg (by omega : 0 ≤ x) (by omega : 0 ≤ y); omega
theorem pos_of_mul_neg_of_neg {x y : Int} (h : x * y < 0) (hx : x < 0) : 0 < y := by
  by_cases hy : 0 < y
  · exact hy
  · have := Int.mul_nonneg_of_nonpos_of_nonpos (by omega : x ≤ 0) (by omega : y ≤ 0); omega

/-! ### levels and the balance of up and down crossings -/
/-- the vertex is strictly above the level of `p` -/
def hi (p a : Pt) : Bool := decide (p.2 < a.2)
def b2i (b : Bool) : Int := if b then 1 else 0
/-- +1 for a side going from not-above to above, −1 for the opposite, else 0 -/
def ud (p : Pt) (e : Pt × Pt) : Int := b2i (hi p e.2) - b2i (hi p e.1)

theorem sum_ud_pairs (p : Pt) (l : List Pt) (x : Pt) :
    ((pairs (x :: l)).map (ud p)).sum = b2i (hi p ((x :: l).getLast (by simp))) - b2i (hi p x) := by
  induction l generalizing x with
  | nil => simp [pairs]
  | cons y t ih =>
    simp only [pairs, List.map_cons, List.sum_cons, ih y, ud]
    simp only [List.getLast_cons_cons]
    omega

theorem sum_ud_edges (p : Pt) (vs : List Pt) : ((edges vs).map (ud p)).sum = 0 := by
  cases vs with
  | nil => rfl
  | cons a t =>
    rw [edges_eq_pairs, sum_ud_pairs]
    have : (a :: (t ++ [a])).getLast (by simp) = a := by
      rw [List.getLast_cons (by simp)]; simp
    rw [this]; omega

/-- orientation of `p` with respect to the directed side `e`: > 0 left, < 0 right, 0 on its line -/
def ori (p : Pt) (e : Pt × Pt) : Int := trip (sub e.2 e.1) (sub p e.1)

/-- the crossing rule in terms of levels and orientation -/
theorem cross_eq (p : Pt) (e : Pt × Pt) :
    cross p e = if hi p e.1 = false ∧ hi p e.2 = true then (if 0 < ori p e then 1 else 0)
      else if hi p e.1 = true ∧ hi p e.2 = false then (if ori p e < 0 then -1 else 0) else 0 := by
  obtain ⟨⟨a1, a2⟩, ⟨b1, b2⟩⟩ := e
  obtain ⟨p1, p2⟩ := p
  simp only [cross, hi, ori, right, left, trip, sub, decide_eq_true_eq, decide_eq_false_iff_not]
  have key : (p1 - a1) * (b2 - a2) - (p2 - a2) * (b1 - a1) = - ((b1 - a1) * (p2 - a2) - (b2 - a2) * (p1 - a1)) := by grind
  simp only [key]
  by_cases h1 : a2 ≤ p2 <;> by_cases h2 : b2 > p2 <;>
    by_cases h3 : 0 < (b1 - a1) * (p2 - a2) - (b2 - a2) * (p1 - a1) <;>
    by_cases h4 : (b1 - a1) * (p2 - a2) - (b2 - a2) * (p1 - a1) < 0 <;>
    simp [h1, h2, h3, h4] <;> omega

theorem mem_edges_mem (vs : List Pt) (e : Pt × Pt) (h : e ∈ edges vs) : e.1 ∈ vs ∧ e.2 ∈ vs := by
  cases vs with
  | nil => simp [edges] at h
  | cons a t =>
    simp only [edges] at h
    have := List.of_mem_zip h
    refine ⟨this.1, ?_⟩
    have h2 := this.2
    simp only [List.mem_append, List.mem_singleton] at h2
    rcases h2 with h2 | h2
    · exact List.mem_cons_of_mem _ h2
    · rw [h2]; exact List.mem_cons_self


/-! ### all vertices strictly on one side of a line through p ⇒ no winding -/

/-- with `A = a − p`, `B = b − p`: `n.x · (A × B) = B.y (n·A) − A.y (n·B)` and `ori p (a,b) = A × B` -/
theorem ori_eq (p a b : Pt) : ori p (a, b) = trip (sub a p) (sub b p) := by
  simp only [ori, trip, sub]; grind

theorem halfplane_key (n A B : Pt) : n.1 * trip A B = B.2 * dot n A - A.2 * dot n B := by
  simp only [trip, dot]; grind

theorem cross_halfplane (n p : Pt) (e : Pt × Pt)
    (h1 : 0 < dot n (sub e.1 p)) (h2 : 0 < dot n (sub e.2 p)) :
    cross p e = if 0 < n.1 then ud p e else 0 := by
  obtain ⟨a, b⟩ := e
  rw [cross_eq, ori_eq]
  have key := halfplane_key n (sub a p) (sub b p)
  simp only [ud, b2i, hi, decide_eq_true_eq, decide_eq_false_iff_not] at *
  have hA : (sub a p).2 = a.2 - p.2 := rfl
  have hB : (sub b p).2 = b.2 - p.2 := rfl
  by_cases ha : p.2 < a.2 <;> by_cases hb : p.2 < b.2
  · simp [ha, hb]
  · -- down: A.y > 0 ≥ B.y : n.x · (A×B) < 0
    have t1 : (sub b p).2 * dot n (sub a p) ≤ 0 :=
      Int.mul_nonpos_of_nonpos_of_nonneg (by omega) (by omega)
    have t2 : 0 < (sub a p).2 * dot n (sub b p) := Int.mul_pos (by omega) h2
    have hneg : n.1 * trip (sub a p) (sub b p) < 0 := by omega
    by_cases hn : 0 < n.1
    · have := neg_of_mul_neg_of_pos hneg hn
      simp [ha, hb, hn, this]
    · have hn0 : n.1 ≠ 0 := by intro h0; rw [h0] at hneg; simp at hneg
      have := pos_of_mul_neg_of_neg hneg (by omega : n.1 < 0)
      have h' : ¬ trip (sub a p) (sub b p) < 0 := by omega
      simp [ha, hb, hn, h']
  · -- up: A.y ≤ 0 < B.y : n.x · (A×B) > 0
    have t1 : 0 < (sub b p).2 * dot n (sub a p) := Int.mul_pos (by omega) h1
    have t2 : (sub a p).2 * dot n (sub b p) ≤ 0 :=
      Int.mul_nonpos_of_nonpos_of_nonneg (by omega) (by omega)
    have hpos : 0 < n.1 * trip (sub a p) (sub b p) := by omega
    by_cases hn : 0 < n.1
    · have := pos_of_mul_pos_of_pos hpos hn
      simp [ha, hb, hn, this]
    · have hn0 : n.1 ≠ 0 := by intro h0; rw [h0] at hpos; simp at hpos
      have := neg_of_mul_pos_of_neg hpos (by omega : n.1 < 0)
      have h' : ¬ 0 < trip (sub a p) (sub b p) := by omega
      simp [ha, hb, hn, h']
  · simp [ha, hb]

theorem crossSum_halfplane (n p : Pt) (vs : List Pt) (h : ∀ v ∈ vs, 0 < dot n (sub v p)) :
    crossSum p (edges vs) = 0 := by
  have hterm : ∀ e ∈ edges vs, cross p e = if 0 < n.1 then ud p e else 0 := by
    intro e he
    have := mem_edges_mem vs e he
    exact cross_halfplane n p e (h _ this.1) (h _ this.2)
  simp only [crossSum]
  rw [List.map_congr_left hterm]
  by_cases hn : 0 < n.1
  · simp only [hn, if_true]; exact sum_ud_edges p vs
  · simp only [hn, if_false]
    induction edges vs with
    | nil => rfl
    | cons e t ih => simp [ih]


/-! ### convex polygons: a point strictly right of some side is outside -/

/-- counter-clockwise convex: every vertex is on or to the left of the line of every side -/
def ConvexCCW (vs : List Pt) : Prop := ∀ e ∈ edges vs, ∀ v ∈ vs, 0 ≤ ori v e

instance (vs : List Pt) : Decidable (ConvexCCW vs) := by unfold ConvexCCW; infer_instance

theorem ori_shift (p v : Pt) (e : Pt × Pt) :
    dot (-(sub e.2 e.1).2, (sub e.2 e.1).1) (sub v p) = ori v e - ori p e := by
  simp only [ori, dot, trip, sub]; grind

theorem crossSum_of_right (p : Pt) (vs : List Pt) (hc : ConvexCCW vs) (e0 : Pt × Pt) (he : e0 ∈ edges vs)
    (hr : ori p e0 < 0) : crossSum p (edges vs) = 0 := by
  apply crossSum_halfplane (-(sub e0.2 e0.1).2, (sub e0.2 e0.1).1) p vs
  intro v hv
  rw [ori_shift]
  have := hc e0 he v hv
  omega

/-! ### closed walks: what is closed under "predecessor" and holds somewhere holds everywhere -/

theorem pairs_sub_cons (x : Pt) (l : List Pt) (e : Pt × Pt) (h : e ∈ pairs l) : e ∈ pairs (x :: l) := by
  cases l with
  | nil => simp [pairs] at h
  | cons y t => simp only [pairs, List.mem_cons]; exact Or.inr h

theorem back_prop (P : Pt → Prop) (l1 : List Pt) : ∀ (l : List Pt) (v : Pt) (l2 : List Pt),
    l = l1 ++ v :: l2 → (∀ e ∈ pairs l, P e.2 → P e.1) → P v → ∀ u ∈ l1, P u := by
  induction l1 with
  | nil => intro l v l2 _ _ _ u hu; simp at hu
  | cons x t ih =>
    intro l v l2 hl hp hv u hu
    have htail : ∀ u ∈ t, P u := by
      apply ih (t ++ v :: l2) v l2 rfl _ hv
      intro e he; apply hp; rw [hl]; exact pairs_sub_cons x _ e he
    simp only [List.mem_cons] at hu
    rcases hu with rfl | hu
    · cases t with
      | nil =>
        have : (u, v) ∈ pairs l := by rw [hl]; simp [pairs]
        exact hp _ this hv
      | cons y t' =>
        have : (u, y) ∈ pairs l := by rw [hl]; simp [pairs]
        exact hp _ this (htail y (by simp))
    · exact htail u hu

theorem cyclic_prop (P : Pt → Prop) (vs : List Pt) (hp : ∀ e ∈ edges vs, P e.2 → P e.1)
    (v : Pt) (hv : v ∈ vs) (hPv : P v) : ∀ u ∈ vs, P u := by
  cases vs with
  | nil => simp at hv
  | cons a t =>
    rw [edges_eq_pairs] at hp
    -- P a
    have ha : P a := by
      simp only [List.mem_cons] at hv
      rcases hv with rfl | hv
      · exact hPv
      · obtain ⟨t1, t2, ht⟩ := List.append_of_mem hv
        have := back_prop P (a :: t1) (a :: (t ++ [a])) v (t2 ++ [a]) (by simp [ht]) hp hPv
        exact this a (by simp)
    -- a is also the last element of the closed walk
    have := back_prop P (a :: t) (a :: (t ++ [a])) a [] (by simp) hp ha
    exact this

theorem succ_edge (vs : List Pt) (v : Pt) (hv : v ∈ vs) : ∃ e ∈ edges vs, e.1 = v := by
  cases vs with
  | nil => simp at hv
  | cons a t =>
    simp only [edges]
    obtain ⟨i, hi, rfl⟩ := List.mem_iff_getElem.mp hv
    have hlen : (t ++ [a]).length = (a :: t).length := by simp
    refine ⟨((a :: t)[i], (t ++ [a])[i]'(by omega)), ?_, rfl⟩
    apply List.mem_iff_getElem.mpr
    refine ⟨i, by simp [List.length_zip]; omega, ?_⟩
    simp [List.getElem_zip]

theorem pred_edge (vs : List Pt) (v : Pt) (hv : v ∈ vs) : ∃ e ∈ edges vs, e.2 = v := by
  cases vs with
  | nil => simp at hv
  | cons a t =>
    simp only [edges]
    have hv' : v ∈ t ++ [a] := by
      simp only [List.mem_cons] at hv; simp only [List.mem_append, List.mem_singleton]
      rcases hv with h | h
      · exact Or.inr h
      · exact Or.inl h
    obtain ⟨i, hi, rfl⟩ := List.mem_iff_getElem.mp hv'
    have hlen : (t ++ [a]).length = (a :: t).length := by simp
    have hi' : i < t.length + 1 := by simpa using hi
    refine ⟨((a :: t)[i]'(by simp; omega), (t ++ [a])[i]), ?_, rfl⟩
    apply List.mem_iff_getElem.mpr
    refine ⟨i, by simp [List.length_zip]; omega, ?_⟩
    simp [List.getElem_zip]


/-! ### strictly left of every side ⇒ the winding number is positive (any closed polygon) -/

theorem trip_trans_key (A B C : Pt) : trip A C * B.2 = trip A B * C.2 + trip B C * A.2 := by
  simp only [trip]; grind

theorem trip_self (A : Pt) : trip A A = 0 := by simp only [trip]; grind

/-- going round strictly counter-clockwise inside an open half plane above / below p never closes -/
theorem chain (p : Pt) (Q : Pt → Prop)
    (htrans : ∀ a b c, Q a → Q b → Q c → 0 < trip (sub a p) (sub b p) → 0 < trip (sub b p) (sub c p) →
      0 < trip (sub a p) (sub c p)) :
    ∀ (l : List Pt) (x : Pt) (hne : l ≠ []), (∀ v ∈ x :: l, Q v) →
      (∀ e ∈ pairs (x :: l), 0 < trip (sub e.1 p) (sub e.2 p)) →
      0 < trip (sub x p) (sub (l.getLast hne) p) := by
  intro l
  induction l with
  | nil => intro x hne; exact absurd rfl hne
  | cons y t ih =>
    intro x _ hQ hR
    have hxy : 0 < trip (sub x p) (sub y p) := hR (x, y) (by simp [pairs])
    cases t with
    | nil => simpa using hxy
    | cons z t' =>
      have hrec := ih y (by simp) (fun v hv => hQ v (by simp at hv ⊢; exact Or.inr hv))
        (fun e he => hR e (pairs_sub_cons x _ e he))
      have hlast : (y :: z :: t').getLast (by simp) = (z :: t').getLast (by simp) := by simp
      rw [hlast]
      have hmem : (z :: t').getLast (by simp) ∈ x :: y :: z :: t' :=
        List.mem_cons_of_mem _ (List.mem_cons_of_mem _ (List.getLast_mem _))
      exact htrans x y _ (hQ x (by simp)) (hQ y (by simp)) (hQ _ hmem) hxy hrec


/-- strictly left of every side -/
def InsideCCW (p : Pt) (vs : List Pt) : Prop := vs ≠ [] ∧ ∀ e ∈ edges vs, 0 < ori p e

instance (p : Pt) (vs : List Pt) : Decidable (InsideCCW p vs) := by unfold InsideCCW; infer_instance

theorem no_cycle (p : Pt) (Q : Pt → Prop)
    (htrans : ∀ a b c, Q a → Q b → Q c → 0 < trip (sub a p) (sub b p) → 0 < trip (sub b p) (sub c p) →
      0 < trip (sub a p) (sub c p))
    (vs : List Pt) (hin : InsideCCW p vs) (hQ : ∀ v ∈ vs, Q v) : False := by
  obtain ⟨hne, ho⟩ := hin
  cases vs with
  | nil => exact hne rfl
  | cons a t =>
    rw [edges_eq_pairs] at ho
    have := chain p Q htrans (t ++ [a]) a (by simp)
      (by intro v hv; apply hQ
          have : v = a ∨ v ∈ t ∨ v = a := by simpa using hv
          rcases this with h | h | h
          · rw [h]; exact List.mem_cons_self
          · exact List.mem_cons_of_mem _ h
          · rw [h]; exact List.mem_cons_self)
      (by intro e he; have := ho e he; rw [ori_eq] at this; exact this)
    have hl : (t ++ [a]).getLast (by simp) = a := by simp
    rw [hl, trip_self] at this
    omega

theorem trans_high (p a b c : Pt) (ha : p.2 < a.2) (hb : p.2 < b.2) (hc : p.2 < c.2)
    (h1 : 0 < trip (sub a p) (sub b p)) (h2 : 0 < trip (sub b p) (sub c p)) :
    0 < trip (sub a p) (sub c p) := by
  have key := trip_trans_key (sub a p) (sub b p) (sub c p)
  have e1 : (sub a p).2 = a.2 - p.2 := rfl
  have e2 : (sub b p).2 = b.2 - p.2 := rfl
  have e3 : (sub c p).2 = c.2 - p.2 := rfl
  have t1 : 0 < trip (sub a p) (sub b p) * (sub c p).2 := Int.mul_pos h1 (by omega)
  have t2 : 0 < trip (sub b p) (sub c p) * (sub a p).2 := Int.mul_pos h2 (by omega)
  have t3 : 0 < (sub b p).2 * trip (sub a p) (sub c p) := by rw [Int.mul_comm]; omega
  exact pos_of_mul_pos_of_pos t3 (by omega)

theorem trans_low (p a b c : Pt) (ha : a.2 < p.2) (hb : b.2 < p.2) (hc : c.2 < p.2)
    (h1 : 0 < trip (sub a p) (sub b p)) (h2 : 0 < trip (sub b p) (sub c p)) :
    0 < trip (sub a p) (sub c p) := by
  have key := trip_trans_key (sub a p) (sub b p) (sub c p)
  have e1 : (sub a p).2 = a.2 - p.2 := rfl
  have e2 : (sub b p).2 = b.2 - p.2 := rfl
  have e3 : (sub c p).2 = c.2 - p.2 := rfl
  have t1 : trip (sub a p) (sub b p) * (sub c p).2 < 0 := Int.mul_neg_of_pos_of_neg h1 (by omega)
  have t2 : trip (sub b p) (sub c p) * (sub a p).2 < 0 := Int.mul_neg_of_pos_of_neg h2 (by omega)
  have t3 : (sub b p).2 * trip (sub a p) (sub c p) < 0 := by rw [Int.mul_comm]; omega
  exact pos_of_mul_neg_of_neg t3 (by omega)

/-- a vertex level with p is impossible when p is strictly left of the sides before and after it and
no vertex is above -/
theorem no_level_vertex (p : Pt) (vs : List Pt) (hin : InsideCCW p vs) (hlow : ∀ v ∈ vs, v.2 ≤ p.2)
    (v : Pt) (hv : v ∈ vs) : v.2 < p.2 := by
  have hle := hlow v hv
  by_cases heq : v.2 = p.2
  · exfalso
    obtain ⟨e1, he1, h1⟩ := succ_edge vs v hv
    obtain ⟨e2, he2, h2⟩ := pred_edge vs v hv
    obtain ⟨a1, s⟩ := e1
    obtain ⟨r, a2⟩ := e2
    simp only at h1 h2
    have o1 := hin.2 _ he1
    have o2 := hin.2 _ he2
    rw [ori_eq] at o1 o2
    have hs := hlow s (mem_edges_mem vs _ he1).2
    have hr := hlow r (mem_edges_mem vs _ he2).1
    simp only [trip, sub, h1, h2] at o1 o2
    have z : v.2 - p.2 = 0 := by omega
    rw [z] at o1 o2
    simp only [Int.zero_mul, Int.mul_zero, Int.sub_zero, Int.zero_sub] at o1 o2
    -- o1 : 0 < (v.1 - p.1) * (s.2 - p.2) ; o2 : 0 < -((r.2 - p.2) * (v.1 - p.1))
    have hx : v.1 - p.1 < 0 := by
      by_cases h : v.1 - p.1 < 0
      · exact h
      · have := Int.mul_nonpos_of_nonneg_of_nonpos (by omega : 0 ≤ v.1 - p.1) (by omega : s.2 - p.2 ≤ 0); omega
    have : 0 ≤ (r.2 - p.2) * (v.1 - p.1) := Int.mul_nonneg_of_nonpos_of_nonpos (by omega) (by omega)
    omega
  · omega

theorem sum_nonneg (l : List Int) (h0 : ∀ x ∈ l, 0 ≤ x) : 0 ≤ l.sum := by
  induction l with
  | nil => simp
  | cons y t ih =>
    simp only [List.sum_cons]
    have := h0 y (by simp)
    have := ih (fun x hx => h0 x (List.mem_cons_of_mem _ hx))
    omega

theorem sum_nonneg_ge (l : List Int) (h0 : ∀ x ∈ l, 0 ≤ x) (x : Int) (hx : x ∈ l) : x ≤ l.sum := by
  induction l with
  | nil => simp at hx
  | cons y t ih =>
    simp only [List.sum_cons]
    have hy := h0 y (by simp)
    have ht := sum_nonneg t (fun x hx => h0 x (List.mem_cons_of_mem _ hx))
    simp only [List.mem_cons] at hx
    rcases hx with rfl | hx
    · omega
    · have := ih (fun x hx => h0 x (List.mem_cons_of_mem _ hx)) hx; omega

/-- **inside ⇒ wound**: a point strictly left of every side of a closed polygon (convex or not) has
positive crossing sum -/
theorem crossSum_pos_of_inside (p : Pt) (vs : List Pt) (hin : InsideCCW p vs) :
    1 ≤ crossSum p (edges vs) := by
  -- every term is 1 on an up side and 0 elsewhere
  have hterm : ∀ e ∈ edges vs, cross p e = if hi p e.1 = false ∧ hi p e.2 = true then 1 else 0 := by
    intro e he
    have ho := hin.2 e he
    rw [cross_eq]
    have : ¬ ori p e < 0 := by omega
    simp [ho, this]
  -- there is a vertex above and a vertex not above
  have hhigh : ∃ v ∈ vs, hi p v = true := by
    apply Classical.byContradiction
    intro hno
    have hlow : ∀ v ∈ vs, v.2 ≤ p.2 := by
      intro v hv
      have : ¬ hi p v = true := fun h => hno ⟨v, hv, h⟩
      simp only [hi, decide_eq_true_eq] at this; omega
    exact no_cycle p (fun v => v.2 < p.2) (fun a b c ha hb hc => trans_low p a b c ha hb hc) vs hin
      (fun v hv => no_level_vertex p vs hin hlow v hv)
  have hlowv : ∃ v ∈ vs, hi p v = false := by
    apply Classical.byContradiction
    intro hno
    have hall : ∀ v ∈ vs, p.2 < v.2 := by
      intro v hv
      cases h : hi p v with
      | false => exact absurd ⟨v, hv, h⟩ hno
      | true => simpa [hi] using h
    exact no_cycle p (fun v => p.2 < v.2) (fun a b c ha hb hc => trans_high p a b c ha hb hc) vs hin hall
  -- hence an up side
  have hup : ∃ e ∈ edges vs, hi p e.1 = false ∧ hi p e.2 = true := by
    apply Classical.byContradiction
    intro hno
    obtain ⟨v, hv, hvh⟩ := hhigh
    obtain ⟨u, hu, hul⟩ := hlowv
    have := cyclic_prop (fun w => hi p w = true) vs
      (by intro e he h2
          cases h1 : hi p e.1 with
          | true => rfl
          | false => exact absurd ⟨e, he, h1, h2⟩ hno) v hv hvh u hu
    rw [hul] at this; cases this
  obtain ⟨e, he, hue⟩ := hup
  simp only [crossSum]
  have h1 : cross p e = 1 := by rw [hterm e he]; simp [hue]
  rw [← h1]
  apply sum_nonneg_ge
  · intro x hx
    obtain ⟨e', he', rfl⟩ := List.mem_map.mp hx
    rw [hterm e' he']; split <;> omega
  · exact List.mem_map.mpr ⟨e, he, rfl⟩


/-! ### on the boundary ⇒ on the line of some side -/

theorem tween2_ori_zero (p a b : Pt) (h : tween2 p a b = true) : ori p (a, b) = 0 := by
  obtain ⟨p1, p2⟩ := p
  obtain ⟨a1, a2⟩ := a
  obtain ⟨b1, b2⟩ := b
  simp only [tween2, sub, dot, mag2, trip] at h
  simp only [ori, trip, sub]
  by_cases h0 : (b1 - a1) * (b1 - a1) + (b2 - a2) * (b2 - a2) = 0
  · obtain ⟨hb1, hb2⟩ := sq_sum_zero _ _ h0
    rw [hb1, hb2]; simp
  · simp only [h0, if_false] at h
    by_cases h3 : (p1 - a1) * (b2 - a2) - (p2 - a2) * (b1 - a1) = 0
    · grind
    · simp [h3] at h

theorem boundary_ori_zero (p : Pt) (vs : List Pt) (h : onBoundary p vs = true) :
    ∃ e ∈ edges vs, ori p e = 0 := by
  simp only [onBoundary, onEdge, Bool.or_eq_true, decide_eq_true_eq, List.any_eq_true] at h
  rcases h with h | ⟨e, he, ht⟩
  · obtain ⟨e, he, h1⟩ := succ_edge vs p h
    refine ⟨e, he, ?_⟩
    obtain ⟨a, b⟩ := e
    simp only at h1; subst h1
    simp only [ori, trip, sub]; grind
  · exact ⟨e, he, tween2_ori_zero p e.1 e.2 ht⟩

/-! ### p on the prolongation of a side of a convex polygon -/

theorem mem_pairs_mid (l1 : List Pt) (v y : Pt) (t : List Pt) : (v, y) ∈ pairs (l1 ++ v :: y :: t) := by
  induction l1 with
  | nil => simp [pairs]
  | cons x l ih => exact pairs_sub_cons x _ _ ih

theorem fwd_prop (P : Pt → Prop) (l2 : List Pt) : ∀ (l l1 : List Pt) (v : Pt),
    l = l1 ++ v :: l2 → (∀ e ∈ pairs l, P e.1 → P e.2) → P v → ∀ u ∈ l2, P u := by
  induction l2 with
  | nil => intro l l1 v _ _ _ u hu; simp at hu
  | cons y t ih =>
    intro l l1 v hl hp hv u hu
    have hy : P y := hp (v, y) (by rw [hl]; exact mem_pairs_mid l1 v y t) hv
    simp only [List.mem_cons] at hu
    rcases hu with rfl | hu
    · exact hy
    · exact ih l (l1 ++ [v]) y (by simp [hl]) hp hy u hu

theorem cyclic_prop_succ (P : Pt → Prop) (vs : List Pt) (hp : ∀ e ∈ edges vs, P e.1 → P e.2)
    (v : Pt) (hv : v ∈ vs) (hPv : P v) : ∀ u ∈ vs, P u := by
  cases vs with
  | nil => simp at hv
  | cons a t =>
    rw [edges_eq_pairs] at hp
    have ha : P a := by
      simp only [List.mem_cons] at hv
      rcases hv with rfl | hv
      · exact hPv
      · obtain ⟨t1, t2, ht⟩ := List.append_of_mem hv
        have := fwd_prop P (t2 ++ [a]) (a :: (t ++ [a])) (a :: t1) v (by simp [ht]) hp hPv
        exact this a (by simp)
    have hall := fwd_prop P (t ++ [a]) (a :: (t ++ [a])) [] a (by simp) hp ha
    intro u hu
    simp only [List.mem_cons] at hu
    rcases hu with rfl | hu
    · exact ha
    · exact hall u (by simp [hu])

/-- decomposition of `U×V` along a direction `d` -/
theorem trip_decomp (d U V : Pt) : dot d d * trip U V = dot d U * trip d V - dot d V * trip d U := by
  simp only [dot, trip]; grind

theorem comp_x (d U : Pt) : dot d d * U.1 = dot d U * d.1 - trip d U * d.2 := by
  simp only [dot, trip]; grind
theorem comp_y (d U : Pt) : dot d d * U.2 = dot d U * d.2 + trip d U * d.1 := by
  simp only [dot, trip]; grind

theorem dot_self_pos (d : Pt) (h : d ≠ (0, 0)) : 0 < dot d d := by
  obtain ⟨x, y⟩ := d
  simp only [dot]
  have hx := mul_self_nonneg x
  have hy := mul_self_nonneg y
  by_cases h0 : x * x + y * y = 0
  · obtain ⟨rfl, rfl⟩ := sq_sum_zero x y h0; exact absurd rfl h
  · omega

/-- on the line through p with direction d and at parameter 0 ⇒ equal to p -/
theorem on_line_zero (d p v : Pt) (hd : 0 < dot d d) (h1 : trip d (sub v p) = 0) (h2 : dot d (sub v p) = 0) :
    v = p := by
  have hx := comp_x d (sub v p)
  have hy := comp_y d (sub v p)
  rw [h1, h2] at hx hy
  simp only [Int.zero_mul, Int.sub_zero, Int.add_zero] at hx hy
  have e1 := eq_zero_of_pos_mul _ _ hd hx
  have e2 := eq_zero_of_pos_mul _ _ hd hy
  obtain ⟨v1, v2⟩ := v
  obtain ⟨p1, p2⟩ := p
  simp only [sub] at e1 e2
  simp only [Prod.mk.injEq]; omega

/-- two points of the line on opposite sides of p have p on the segment between them -/
theorem between_on_line (d p u v : Pt) (hd : 0 < dot d d)
    (hu : trip d (sub u p) = 0) (hv : trip d (sub v p) = 0)
    (su : dot d (sub u p) < 0) (sv : 0 < dot d (sub v p)) : tween2 p u v = true := by
  rw [tween2_iff]
  refine ⟨- dot d (sub u p), dot d (sub v p) - dot d (sub u p), by omega, by omega, by omega, ?_, ?_⟩
  · have hx1 := comp_x d (sub u p)
    have hx2 := comp_x d (sub v p)
    rw [hu] at hx1; rw [hv] at hx2
    have : dot d d * ((dot d (sub v p) - dot d (sub u p)) * (p.1 - u.1)) =
        dot d d * (- dot d (sub u p) * (v.1 - u.1)) := by
      have a1 : (sub u p).1 = u.1 - p.1 := rfl
      have a2 : (sub v p).1 = v.1 - p.1 := rfl
      rw [a1] at hx1; rw [a2] at hx2
      grind
    exact Int.eq_of_mul_eq_mul_left (by omega) this
  · have hy1 := comp_y d (sub u p)
    have hy2 := comp_y d (sub v p)
    rw [hu] at hy1; rw [hv] at hy2
    have : dot d d * ((dot d (sub v p) - dot d (sub u p)) * (p.2 - u.2)) =
        dot d d * (- dot d (sub u p) * (v.2 - u.2)) := by
      have a1 : (sub u p).2 = u.2 - p.2 := rfl
      have a2 : (sub v p).2 = v.2 - p.2 := rfl
      rw [a1] at hy1; rw [a2] at hy2
      grind
    exact Int.eq_of_mul_eq_mul_left (by omega) this

/-- `ori b (u, v)` through the decomposition along d, all relative to p -/
theorem ori_decomp (d p u v b : Pt) :
    dot d d * ori b (u, v) =
      (dot d (sub v p) * trip d (sub b p) - dot d (sub b p) * trip d (sub v p)) +
      (dot d (sub u p) * trip d (sub v p) - dot d (sub v p) * trip d (sub u p)) +
      (dot d (sub b p) * trip d (sub u p) - dot d (sub u p) * trip d (sub b p)) := by
  simp only [ori, dot, trip, sub]; grind


/-- no zero-length side -/
def ProperSides (vs : List Pt) : Prop := ∀ e ∈ edges vs, e.1 ≠ e.2

instance (vs : List Pt) : Decidable (ProperSides vs) := by unfold ProperSides; infer_instance

/-- offset across (`lin`) and along (`par`) the direction d, seen from p -/
def lin (d p v : Pt) : Int := trip d (sub v p)
def par (d p v : Pt) : Int := dot d (sub v p)

theorem ori_lin (p v a b : Pt) : ori v (a, b) - ori p (a, b) = lin (sub b a) p v := by
  simp only [ori, lin, trip, sub]; grind

theorem natAbs_le_sum (f : Pt → Int) (vs : List Pt) (v : Pt) (hv : v ∈ vs) :
    ((f v).natAbs : Int) ≤ ((vs.map (fun u => ((f u).natAbs : Int))).sum) := by
  apply sum_nonneg_ge
  · intro x hx
    obtain ⟨u, _, rfl⟩ := List.mem_map.mp hx
    omega
  · exact List.mem_map.mpr ⟨v, hv, rfl⟩

theorem dot_combo (d V : Pt) (M t : Int) :
    dot (M * (-d.2) + t * d.1, M * d.1 + t * d.2) V = M * trip d V + t * dot d V := by
  simp only [dot, trip]; grind

theorem off_boundary (p : Pt) (vs : List Pt) (hb : onBoundary p vs = false) :
    p ∉ vs ∧ ∀ e ∈ edges vs, tween2 p e.1 e.2 = false := by
  simp only [onBoundary, onEdge, Bool.or_eq_false_iff, decide_eq_false_iff_not, List.any_eq_false] at hb
  refine ⟨hb.1, ?_⟩
  intro e he
  have := hb.2 e he
  simpa using this

/-- **p on the line of a side of a convex polygon, but not on the boundary ⇒ no winding** -/
theorem crossSum_of_on_line (p : Pt) (vs : List Pt) (hc : ConvexCCW vs) (hps : ProperSides vs)
    (hb : onBoundary p vs = false) (e0 : Pt × Pt) (he0 : e0 ∈ edges vs) (h0 : ori p e0 = 0) :
    crossSum p (edges vs) = 0 := by
  obtain ⟨hpv, hpe⟩ := off_boundary p vs hb
  obtain ⟨a0, b0⟩ := e0
  have hne : sub b0 a0 ≠ (0, 0) := by
    intro h
    apply hps _ he0
    obtain ⟨x1, y1⟩ := a0
    obtain ⟨x2, y2⟩ := b0
    simp only [sub, Prod.mk.injEq] at h ⊢
    omega
  have hD := dot_self_pos (sub b0 a0) hne
  -- offsets of the vertices
  have hlin : ∀ v ∈ vs, 0 ≤ lin (sub b0 a0) p v ∧ lin (sub b0 a0) p v = ori v (a0, b0) := by
    intro v hv
    have h1 := hc _ he0 v hv
    have h2 := ori_lin p v a0 b0
    omega
  have hb0 : b0 ∈ vs := (mem_edges_mem vs _ he0).2
  have hlb : lin (sub b0 a0) p b0 = 0 := by
    rw [(hlin b0 hb0).2]; simp only [ori, trip, sub]; grind
  have hzero : ∀ v ∈ vs, lin (sub b0 a0) p v = 0 → par (sub b0 a0) p v ≠ 0 := by
    intro v hv hl hs
    have := on_line_zero (sub b0 a0) p v hD hl hs
    rw [this] at hv; exact hpv hv
  have hsb := hzero b0 hb0 hlb
  -- bound for the offsets along the line
  obtain ⟨S, hS⟩ : ∃ S : Int, S = (vs.map (fun u => ((par (sub b0 a0) p u).natAbs : Int))).sum := ⟨_, rfl⟩
  have hM : ∀ v ∈ vs, ((par (sub b0 a0) p v).natAbs : Int) < 1 + S := by
    intro v hv
    have := natAbs_le_sum (par (sub b0 a0) p) vs v hv
    omega
  by_cases hside : par (sub b0 a0) p b0 < 0
  · -- all vertices of the line are behind p (on b0's side)
    have hall : ∀ v ∈ vs, lin (sub b0 a0) p v = 0 → par (sub b0 a0) p v < 0 := by
      intro w hw hlw
      apply Classical.byContradiction
      intro hnot
      have hsw : 0 < par (sub b0 a0) p w := by have := hzero w hw hlw; omega
      have hP := cyclic_prop (fun v => lin (sub b0 a0) p v = 0 ∧ 0 < par (sub b0 a0) p v) vs
        (by
          intro e he hv
          obtain ⟨u, v⟩ := e
          simp only at hv ⊢
          have hu := (mem_edges_mem vs _ he).1
          have hlu := (hlin u hu).1
          by_cases hl0 : lin (sub b0 a0) p u = 0
          · refine ⟨hl0, ?_⟩
            have hnz := hzero u hu hl0
            by_cases hneg : par (sub b0 a0) p u < 0
            · have := between_on_line (sub b0 a0) p u v hD hl0 hv.1 hneg hv.2
              have h2 := hpe _ he
              simp only at h2; rw [this] at h2; cases h2
            · omega
          · exfalso
            have hconv := hc _ he b0 hb0
            have hdec := ori_decomp (sub b0 a0) p u v b0
            have e1 : trip (sub b0 a0) (sub b0 p) = 0 := hlb
            have e2 : trip (sub b0 a0) (sub v p) = 0 := hv.1
            rw [e1, e2] at hdec
            simp only [Int.mul_zero, Int.sub_zero, Int.zero_sub, Int.sub_self, Int.zero_add, Int.add_zero] at hdec
            have hpos : 0 ≤ dot (sub b0 a0) (sub b0 a0) * ori b0 (u, v) := Int.mul_nonneg (by omega) hconv
            have hlt : (dot (sub b0 a0) (sub b0 p) - dot (sub b0 a0) (sub v p)) * trip (sub b0 a0) (sub u p) < 0 :=
              Int.mul_neg_of_neg_of_pos (by have := hv.2; simp only [par] at this hside; omega)
                (by simp only [lin] at hlu hl0; omega)
            grind)
        w hw ⟨hlw, hsw⟩ b0 hb0
      have := hP.2; omega
    apply crossSum_halfplane
      ((1 + S) * (-(sub b0 a0).2) + (-1) * (sub b0 a0).1, (1 + S) * (sub b0 a0).1 + (-1) * (sub b0 a0).2) p vs
    intro v hv
    rw [dot_combo]
    change 0 < (1 + S) * lin (sub b0 a0) p v + (-1) * par (sub b0 a0) p v
    have hl := (hlin v hv).1
    have hm := hM v hv
    have hS0 : 0 ≤ S := by
      rw [hS]; apply sum_nonneg
      intro x hx; obtain ⟨u, _, rfl⟩ := List.mem_map.mp hx; omega
    by_cases hl0 : lin (sub b0 a0) p v = 0
    · have := hall v hv hl0
      rw [hl0]; omega
    · have h1 : 1 ≤ lin (sub b0 a0) p v := by omega
      have := Int.mul_le_mul_of_nonneg_left h1 (by omega : 0 ≤ 1 + S)
      omega
  · -- all vertices of the line are ahead of p
    have hsb' : 0 < par (sub b0 a0) p b0 := by omega
    have hall : ∀ v ∈ vs, lin (sub b0 a0) p v = 0 → 0 < par (sub b0 a0) p v := by
      intro w hw hlw
      apply Classical.byContradiction
      intro hnot
      have hsw : par (sub b0 a0) p w < 0 := by have := hzero w hw hlw; omega
      have hP := cyclic_prop_succ (fun v => lin (sub b0 a0) p v = 0 ∧ par (sub b0 a0) p v < 0) vs
        (by
          intro e he hv
          obtain ⟨v, s⟩ := e
          simp only at hv ⊢
          have hs := (mem_edges_mem vs _ he).2
          have hls := (hlin s hs).1
          by_cases hl0 : lin (sub b0 a0) p s = 0
          · refine ⟨hl0, ?_⟩
            have hnz := hzero s hs hl0
            by_cases hpos : 0 < par (sub b0 a0) p s
            · have := between_on_line (sub b0 a0) p v s hD hv.1 hl0 hv.2 hpos
              have h2 := hpe _ he
              simp only at h2; rw [this] at h2; cases h2
            · omega
          · exfalso
            have hconv := hc _ he b0 hb0
            have hdec := ori_decomp (sub b0 a0) p v s b0
            have e1 : trip (sub b0 a0) (sub b0 p) = 0 := hlb
            have e2 : trip (sub b0 a0) (sub v p) = 0 := hv.1
            rw [e1, e2] at hdec
            simp only [Int.mul_zero, Int.sub_zero, Int.zero_sub, Int.sub_self, Int.zero_add, Int.add_zero] at hdec
            have hpos : 0 ≤ dot (sub b0 a0) (sub b0 a0) * ori b0 (v, s) := Int.mul_nonneg (by omega) hconv
            have hlt : (dot (sub b0 a0) (sub v p) - dot (sub b0 a0) (sub b0 p)) * trip (sub b0 a0) (sub s p) < 0 :=
              Int.mul_neg_of_neg_of_pos (by have := hv.2; simp only [par] at this hsb'; omega)
                (by simp only [lin] at hls hl0; omega)
            grind)
        w hw ⟨hlw, hsw⟩ b0 hb0
      have := hP.2; omega
    apply crossSum_halfplane
      ((1 + S) * (-(sub b0 a0).2) + 1 * (sub b0 a0).1, (1 + S) * (sub b0 a0).1 + 1 * (sub b0 a0).2) p vs
    intro v hv
    rw [dot_combo]
    change 0 < (1 + S) * lin (sub b0 a0) p v + 1 * par (sub b0 a0) p v
    have hl := (hlin v hv).1
    have hm := hM v hv
    have hS0 : 0 ≤ S := by
      rw [hS]; apply sum_nonneg
      intro x hx; obtain ⟨u, _, rfl⟩ := List.mem_map.mp hx; omega
    by_cases hl0 : lin (sub b0 a0) p v = 0
    · have := hall v hv hl0
      rw [hl0]; omega
    · have h1 : 1 ≤ lin (sub b0 a0) p v := by omega
      have := Int.mul_le_mul_of_nonneg_left h1 (by omega : 0 ≤ 1 + S)
      omega

end Ioflo.Poly
