import IofloModel.Model.Reconnect
/-! Helper lemmas for C27: one service call, the bounded-liveness induction. -/
namespace Ioflo.Reconnect

theorem reopen_fst (c : Client) :
    (reopen c).1 = { c with accepted := false, cutoff := false, sock := some c.fresh, fresh := c.fresh + 1,
                            attempts := 0, opened := true } := by
  unfold reopen close openSock
  cases h : c.sock <;> simp

/-- `accept` on an open socket -/
theorem accept_open (c : Client) (ans : Nat → Nat) (id : Nat) (h : c.sock = some id) :
    (accept c ans).1 =
      if ans c.attempts = 0 ∨ ans c.attempts = EISCONN then
        { c with attempts := c.attempts + 1, ca := some id, accepted := true, cutoff := false }
      else if ans c.attempts = EINVAL ∨ ans c.attempts = ECONNREFUSED then
        (reopen { c with attempts := c.attempts + 1 }).1
      else { c with attempts := c.attempts + 1 } := by
  unfold accept
  simp only [h]
  split
  · rfl
  · split <;> rfl

theorem timerFired_iff (c : Client) : timerFired c = true ↔ 0 < c.timeout ∧ c.timer.stop ≤ c.now := by
  simp [timerFired, Timer.expired]

theorem cutoffPart_not_cutoff (c : Client) (d : Option Int) (hx : c.cutoff = false) : cutoffPart c d = (c, []) := by
  simp [cutoffPart, hx]

/-- on a client that is not cut off the repaired `serviceConnect` is the old one -/
theorem serviceConnect_not_cutoff (c : Client) (ans : Nat → Nat) (hx : c.cutoff = false) :
    serviceConnect c ans = serviceConnectAsIs c ans := by
  unfold serviceConnect
  rw [cutoffPart_not_cutoff c none hx]
  simp

def notRefused (code : Nat) : Prop := code ≠ EINVAL ∧ code ≠ ECONNREFUSED
def isOk (code : Nat) : Prop := code = 0 ∨ code = EISCONN

instance (code : Nat) : Decidable (isOk code) := by unfold isOk; infer_instance
instance (code : Nat) : Decidable (notRefused code) := by unfold notRefused; infer_instance

/-- one `Client.serviceConnectAsIs` on an open, unconnected socket whose answer is not a refusal and
at which the reconnect timer does not fire -/
theorem serviceConnect_step (c : Client) (ans : Nat → Nat) (id : Nat)
    (hs : c.sock = some id) (ha : c.accepted = false) (hn : notRefused (ans c.attempts))
    (ht : c.reconnectable = true → ¬ (0 < c.timeout ∧ c.timer.stop ≤ c.now)) :
    (serviceConnectAsIs c ans).1 =
      if isOk (ans c.attempts) then
        { c with attempts := c.attempts + 1, ca := some id, accepted := true, cutoff := false }
      else { c with attempts := c.attempts + 1 } := by
  unfold serviceConnectAsIs
  simp only [ha, Bool.not_false, if_true]
  have hacc := accept_open c ans id hs
  by_cases hok : isOk (ans c.attempts)
  · have hok' : ans c.attempts = 0 ∨ ans c.attempts = EISCONN := hok
    rw [if_pos hok'] at hacc
    rw [if_pos hok]
    generalize accept c ans = r at hacc
    obtain ⟨c1, e1⟩ := r
    simp only at hacc
    subst hacc
    simp
  · have hok' : ¬ (ans c.attempts = 0 ∨ ans c.attempts = EISCONN) := hok
    have hr : ¬ (ans c.attempts = EINVAL ∨ ans c.attempts = ECONNREFUSED) := by
      intro h; rcases h with h | h
      · exact hn.1 h
      · exact hn.2 h
    rw [if_neg hok', if_neg hr] at hacc
    rw [if_neg hok]
    generalize accept c ans = r at hacc
    obtain ⟨c1, e1⟩ := r
    simp only at hacc
    subst hacc
    have hnf : ¬ ((!c.accepted && c.reconnectable && timerFired { c with attempts := c.attempts + 1 }) = true) := by
      intro h
      simp only [Bool.and_eq_true] at h
      have hf := (timerFired_iff { c with attempts := c.attempts + 1 }).mp h.2
      exact ht h.1.2 hf
    simp only [Bool.and_eq_true] at hnf ⊢
    rw [if_neg hnf]
    simp [ha]

/-- the server listens with latency `k`: no refusal before, success at the `k`-th `connect_ex` on a socket -/
def Listening (k : Nat) (ansOf : Nat → Nat) : Prop :=
  0 < k ∧ (∀ m, m + 1 < k → notRefused (ansOf m)) ∧ isOk (ansOf (k - 1))

/-- the calls that must come before the reconnect timer fires again: all but the last of the schedule;
`slack` = time left until the timer expires -/
def Paced : Int → List Int → Prop
  | _, [] => True
  | _, [_] => True
  | slack, d :: d' :: rest => d < slack ∧ Paced (slack - d) (d' :: rest)

instance Paced.dec : ∀ (slack : Int) (dts : List Int), Decidable (Paced slack dts)
  | _, [] => isTrue trivial
  | _, [_] => isTrue trivial
  | slack, d :: d' :: rest =>
    match Paced.dec (slack - d) (d' :: rest) with
    | isTrue h => if hd : d < slack then isTrue ⟨hd, h⟩ else isFalse (fun h' => hd h'.1)
    | isFalse h => isFalse (fun h' => h h'.2)

/-- a client that is connected and not cut off is left alone by every service call -/
theorem service_live (k : Kind) (c : Client) (ans : Nat → Nat) (ha : c.accepted = true) (hx : c.cutoff = false) :
    (k.service c ans).1 = c := by
  cases k <;> simp [Kind.service, serviceConnect_not_cutoff c ans hx, serviceConnectAsIs, stackServiceConnect, patronConnect, cutoffPart_not_cutoff, ha, hx]

theorem runListening_live (ansOf : Nat → Nat) (k : Kind) (dts : List Int) : ∀ (c : Client),
    c.accepted = true → c.cutoff = false →
    (runListening ansOf k c dts).accepted = true ∧ (runListening ansOf k c dts).cutoff = false ∧
    (runListening ansOf k c dts).sock = c.sock ∧ (runListening ansOf k c dts).ca = c.ca ∧
    (runListening ansOf k c dts).localHa = c.localHa := by
  induction dts with
  | nil => intro c ha hx; exact ⟨ha, hx, rfl, rfl, rfl⟩
  | cons d rest ih =>
    intro c ha hx
    unfold runListening
    rw [service_live k { c with now := c.now + d } ansOf ha hx]
    exact ih { c with now := c.now + d } ha hx

/-- what `TcpClientStack.serviceConnect` adds to `Client.serviceConnect` when the client is not cut off -/
theorem stack_not_cutoff (c : Client) (ans : Nat → Nat) (hx : c.cutoff = false) (ha : c.accepted = false) :
    (stackServiceConnect c ans).1 =
      if (serviceConnectAsIs c ans).1.accepted then
        { (serviceConnectAsIs c ans).1 with localHa := (serviceConnectAsIs c ans).1.ca }
      else (serviceConnectAsIs c ans).1 := by
  unfold stackServiceConnect
  simp [hx, ha, serviceConnect_not_cutoff c ans hx]

theorem patron_not_cutoff (c : Client) (ans : Nat → Nat) (hx : c.cutoff = false) (ha : c.accepted = false) :
    (patronConnect c ans).1 = (serviceConnectAsIs c ans).1 := by
  unfold patronConnect
  simp [cutoffPart_not_cutoff c c.retry hx, ha, serviceConnect_not_cutoff c ans hx]

/-- **bounded liveness, core**: an open socket `id` on which `n < k` attempts have been made, not
connected, not cut off; the server listens with latency `k`; the remaining `k - n` rounds are paced
(all but the last come before the timer expires).  Then after these rounds the client is connected
on that very socket and reports its address (and the stack's `local.ha` follows). -/
theorem reconnect_core (k : Nat) (ansOf : Nat → Nat) (kind : Kind) (hL : Listening k ansOf) (id : Nat) :
    ∀ (dts : List Int) (c : Client), c.sock = some id → c.accepted = false → c.cutoff = false →
    c.attempts + dts.length = k → 0 < dts.length →
    (c.reconnectable = true → 0 < c.timeout → Paced (c.timer.stop - c.now) dts) →
    (runListening ansOf kind c dts).accepted = true ∧ (runListening ansOf kind c dts).cutoff = false ∧
    (runListening ansOf kind c dts).sock = some id ∧ (runListening ansOf kind c dts).ca = some id ∧
    (kind = .stack → (runListening ansOf kind c dts).localHa = some id) := by
  intro dts
  induction dts with
  | nil => intro c _ _ _ _ h; simp at h
  | cons d rest ih =>
    intro c hs ha hx hlen _ hp
    obtain ⟨hk, hnr, hok⟩ := hL
    -- the service call of this round, as a bare `serviceConnectAsIs`
    let c0 : Client := { c with now := c.now + d }
    have hs0 : c0.sock = some id := hs
    have ha0 : c0.accepted = false := ha
    have hx0 : c0.cutoff = false := hx
    have hsvc : (kind.service c0 ansOf).1 =
        (if (serviceConnectAsIs c0 ansOf).1.accepted ∧ kind = .stack then
          { (serviceConnectAsIs c0 ansOf).1 with localHa := (serviceConnectAsIs c0 ansOf).1.ca }
        else (serviceConnectAsIs c0 ansOf).1) := by
      cases kind with
      | bare => simp [Kind.service, serviceConnect_not_cutoff c0 ansOf hx0]
      | stack => simp [Kind.service, stack_not_cutoff c0 ansOf hx0 ha0]
      | patron => simp [Kind.service, patron_not_cutoff c0 ansOf hx0 ha0]
    unfold runListening
    show _ ∧ _
    rw [show ({ c with now := c.now + d } : Client) = c0 from rfl, hsvc]
    cases rest with
    | nil =>
      -- last round: the k-th attempt succeeds (no pacing needed: success is tested before the timer)
      have hn : c0.attempts = k - 1 := by simp at hlen; show c.attempts = k - 1; omega
      have hok' : isOk (ansOf c0.attempts) := by rw [hn]; exact hok
      have hnr' : notRefused (ansOf c0.attempts) := by
        rcases hok' with h | h <;> rw [h] <;> unfold notRefused EINVAL ECONNREFUSED <;> (try unfold EISCONN) <;> omega
      -- serviceConnectAsIs: accept succeeds, the timer is not consulted
      have hsc : (serviceConnectAsIs c0 ansOf).1 =
          { c0 with attempts := c0.attempts + 1, ca := some id, accepted := true, cutoff := false } := by
        unfold serviceConnectAsIs
        simp only [ha0, Bool.not_false, if_true]
        have hacc := accept_open c0 ansOf id hs0
        have hok'' : ansOf c0.attempts = 0 ∨ ansOf c0.attempts = EISCONN := hok'
        rw [if_pos hok''] at hacc
        generalize accept c0 ansOf = r at hacc
        obtain ⟨c1, e1⟩ := r
        simp only at hacc
        subst hacc
        simp
      rw [hsc]
      simp only [runListening, true_and]
      by_cases hst : kind = .stack
      · simp [hst, hs0]
      · simp [hst, hs0]
    | cons d' rest' =>
      have hn : c0.attempts + 1 < k := by simp at hlen; show c.attempts + 1 < k; omega
      have hnr' : notRefused (ansOf c0.attempts) := hnr _ hn
      have ht : c0.reconnectable = true → ¬ (0 < c0.timeout ∧ c0.timer.stop ≤ c0.now) := by
        intro hr ⟨h1, h2⟩
        have := (hp hr h1).1
        have e1 : c0.timer.stop = c.timer.stop := rfl
        have e2 : c0.now = c.now + d := rfl
        omega
      have hsc := serviceConnect_step c0 ansOf id hs0 ha0 hnr' ht
      rw [hsc]
      by_cases hokn : isOk (ansOf c0.attempts)
      · -- connected early; it stays connected
        rw [if_pos hokn]
        simp only [true_and]
        by_cases hst : kind = .stack
        · simp only [hst, if_true]
          obtain ⟨l1, l2, l3, l4, l5⟩ := runListening_live ansOf .stack (d' :: rest')
            { c0 with attempts := c0.attempts + 1, ca := some id, accepted := true, cutoff := false,
                      localHa := some id } rfl rfl
          exact ⟨l1, l2, by rw [l3]; exact hs0, by rw [l4], fun _ => by rw [l5]⟩
        · simp only [hst, if_false]
          obtain ⟨l1, l2, l3, l4, _⟩ := runListening_live ansOf kind (d' :: rest')
            { c0 with attempts := c0.attempts + 1, ca := some id, accepted := true, cutoff := false } rfl rfl
          exact ⟨l1, l2, by rw [l3]; exact hs0, by rw [l4], fun h => h.elim⟩
      · rw [if_neg hokn]
        have hna : ¬ (({ c0 with attempts := c0.attempts + 1 } : Client).accepted = true ∧ kind = .stack) := by
          intro h
          rw [show ({ c0 with attempts := c0.attempts + 1 } : Client).accepted = false from ha0] at h
          exact Bool.noConfusion h.1
        rw [if_neg hna]
        apply ih { c0 with attempts := c0.attempts + 1 } hs0 ha0 hx0
        · simp at hlen ⊢; show c.attempts + 1 + (rest'.length + 1) = k; omega
        · simp
        · intro hr h1
          have := (hp hr h1).2
          have e1 : ({ c0 with attempts := c0.attempts + 1 } : Client).timer.stop = c.timer.stop := rfl
          have e2 : ({ c0 with attempts := c0.attempts + 1 } : Client).now = c.now + d := rfl
          rw [e1, e2]
          have e3 : c.timer.stop - (c.now + d) = c.timer.stop - c.now - d := by omega
          rw [e3]; exact this


/-- the state a timer-driven reopen leaves: a fresh socket, nothing tried yet, not connected, not cut
off, the timer restarted just now -/
def JustReopened (c : Client) (id : Nat) : Prop :=
  c.sock = some id ∧ c.attempts = 0 ∧ c.accepted = false ∧ c.cutoff = false ∧
  c.timer.stop = c.now + c.timer.duration

instance (c : Client) (id : Nat) : Decidable (JustReopened c id) := by
  unfold JustReopened; infer_instance

theorem reopenRestart_spec (c : Client) (d : Option Int) :
    JustReopened (reopenRestart c d).1 c.fresh ∧ (reopenRestart c d).1.now = c.now ∧
    (reopenRestart c d).1.reconnectable = c.reconnectable ∧ (reopenRestart c d).1.timeout = c.timeout ∧
    (reopenRestart c d).1.retry = c.retry ∧
    (reopenRestart c d).1.timer.duration = (match d with | some x => iabs x | none => c.timer.duration) := by
  unfold reopenRestart
  have h := reopen_fst c
  generalize reopen c = r at h
  obtain ⟨c1, e1⟩ := r
  simp only at h
  subst h
  cases d <;> simp [JustReopened, Timer.restart]

/-- invariant: a connected client holds a socket and reports that socket's address -/
def AddrInv (c : Client) : Prop := c.accepted = true → c.sock.isSome = true ∧ c.ca = c.sock

theorem reopen_addr (c : Client) : AddrInv (reopen c).1 := by
  rw [reopen_fst]; intro h; cases h

theorem reopenRestart_addr (c : Client) (d : Option Int) : AddrInv (reopenRestart c d).1 := by
  intro h
  rw [(reopenRestart_spec c d).1.2.2.1] at h; cases h

theorem accept_addr (c : Client) (ans : Nat → Nat) (h : AddrInv c) : AddrInv (accept c ans).1 := by
  cases hs : c.sock with
  | some id =>
    rw [accept_open c ans id hs]
    split
    · intro _; simp [hs]
    · split
      · exact reopen_addr _
      · intro ha; have := h ha; simpa [hs] using this
  | none =>
    -- a closed client is reopened first, then the same as above on the new socket
    have hro := reopen_fst c
    have key : (accept c ans).1 = (accept (reopen c).1 ans).1 := by
      conv => lhs; unfold accept
      simp only [hs]
      rw [accept_open (reopen c).1 ans c.fresh (by rw [hro])]
      generalize reopen c = r at hro
      obtain ⟨c1, e1⟩ := r
      simp only at hro
      subst hro
      simp only
      split
      · rfl
      · split <;> rfl
    rw [key, accept_open (reopen c).1 ans c.fresh (by rw [hro])]
    split
    · intro _; simp [hro]
    · split
      · exact reopen_addr _
      · intro ha; rw [hro] at ha; cases ha

theorem serviceConnect_addr (c : Client) (ans : Nat → Nat) (h : AddrInv c) : AddrInv (serviceConnectAsIs c ans).1 := by
  unfold serviceConnectAsIs
  by_cases ha : c.accepted = true
  · simp only [ha, Bool.not_true, Bool.false_eq_true, if_false]; exact h
  · have ha' : c.accepted = false := by simpa using ha
    simp only [ha', Bool.not_false, if_true]
    have h1 := accept_addr c ans h
    generalize accept c ans = r at h1
    obtain ⟨c1, e1⟩ := r
    simp only at h1 ⊢
    split
    · exact reopenRestart_addr c1 none
    · exact h1

theorem cutoffPart_addr (c : Client) (d : Option Int) (h : AddrInv c) : AddrInv (cutoffPart c d).1 := by
  unfold cutoffPart
  split
  · exact reopenRestart_addr c d
  · exact h

theorem serviceConnectNew_addr (c : Client) (ans : Nat → Nat) (h : AddrInv c) : AddrInv (serviceConnect c ans).1 := by
  unfold serviceConnect
  have h1 := cutoffPart_addr c none h
  generalize cutoffPart c none = r at h1
  obtain ⟨c1, e1⟩ := r
  simp only at h1 ⊢
  have h2 := serviceConnect_addr c1 ans h1
  generalize serviceConnectAsIs c1 ans = r2 at h2
  obtain ⟨c2, e2⟩ := r2
  exact h2

theorem stack_addr (c : Client) (ans : Nat → Nat) (h : AddrInv c) : AddrInv (stackServiceConnect c ans).1 := by
  unfold stackServiceConnect
  split
  · exact cutoffPart_addr c none h
  · split
    · have h1 := serviceConnectNew_addr c ans h
      generalize serviceConnect c ans = r at h1
      obtain ⟨c1, e1⟩ := r
      simp only at h1 ⊢
      split
      · exact h1
      · exact h1
    · exact h

theorem patron_addr (c : Client) (ans : Nat → Nat) (h : AddrInv c) : AddrInv (patronConnect c ans).1 := by
  unfold patronConnect
  have h1 := cutoffPart_addr c c.retry h
  generalize cutoffPart c c.retry = r at h1
  obtain ⟨c1, e1⟩ := r
  simp only at h1 ⊢
  split
  · have h2 := serviceConnectNew_addr c1 ans h1
    generalize serviceConnect c1 ans = r2 at h2
    obtain ⟨c2, e2⟩ := r2
    exact h2
  · exact h1

theorem step_addr (c : Client) (op : Op) (h : AddrInv c) : AddrInv (step c op).1 := by
  cases op with
  | advance dt => exact h
  | clientServiceConnect code => exact serviceConnectNew_addr c _ h
  | stackServiceConnect code => exact stack_addr c _ h
  | patronConnect code => exact patron_addr c _ h
  | loss =>
    simp only [step]
    split
    · exact h
    · exact h
  | close =>
    simp only [step, close]
    cases hs : c.sock with
    | none => exact h
    | some id => intro ha; cases ha
  | reopen => exact reopen_addr c

theorem run_addr (ops : List Op) : ∀ (c : Client), AddrInv c → AddrInv (run c ops).1 := by
  induction ops with
  | nil => intro c h; exact h
  | cons op ops ih =>
    intro c h
    have := ih (step c op).1 (step_addr c op h)
    simpa [run] using this


/-- fields the reconnect timer logic reads are not touched by `reopen` / `accept` -/
theorem reopen_keeps (c : Client) : (reopen c).1.now = c.now ∧ (reopen c).1.timeout = c.timeout ∧
    (reopen c).1.timer = c.timer ∧ (reopen c).1.reconnectable = c.reconnectable ∧ (reopen c).1.retry = c.retry := by
  rw [reopen_fst]; exact ⟨rfl, rfl, rfl, rfl, rfl⟩

/-- the index of the `connect_ex` the next `accept` makes on its socket -/
def nextAttempt (c : Client) : Nat := match c.sock with | some _ => c.attempts | none => 0

theorem accept_not_ok (c : Client) (ans : Nat → Nat)
    (hn : ¬ isOk (ans (nextAttempt c))) (ha : c.accepted = false) :
    (accept c ans).1.accepted = false ∧ (accept c ans).1.now = c.now ∧ (accept c ans).1.timeout = c.timeout ∧
    (accept c ans).1.timer = c.timer ∧ (accept c ans).1.reconnectable = c.reconnectable := by
  -- reduce to a client with an open socket
  have key : ∀ (c : Client) (id : Nat), c.sock = some id → c.accepted = false → ¬ isOk (ans c.attempts) →
      (accept c ans).1.accepted = false ∧ (accept c ans).1.now = c.now ∧ (accept c ans).1.timeout = c.timeout ∧
      (accept c ans).1.timer = c.timer ∧ (accept c ans).1.reconnectable = c.reconnectable := by
    intro c id hs ha hn
    rw [accept_open c ans id hs]
    have h1 : ¬ (ans c.attempts = 0 ∨ ans c.attempts = EISCONN) := hn
    rw [if_neg h1]
    split
    · obtain ⟨a, b, d, e, _⟩ := reopen_keeps { c with attempts := c.attempts + 1 }
      refine ⟨?_, a, b, d, e⟩
      rw [reopen_fst]
    · exact ⟨ha, rfl, rfl, rfl, rfl⟩
  cases hs : c.sock with
  | some id => exact key c id hs ha (by simpa [nextAttempt, hs] using hn)
  | none =>
    have hro := reopen_fst c
    have heq : (accept c ans).1 = (accept (reopen c).1 ans).1 := by
      conv => lhs; unfold accept
      simp only [hs]
      rw [accept_open (reopen c).1 ans c.fresh (by rw [hro])]
      generalize reopen c = r at hro
      obtain ⟨c1, e1⟩ := r
      simp only at hro
      subst hro
      simp only
      split
      · rfl
      · split <;> rfl
    rw [heq]
    obtain ⟨a, b, d, e, f⟩ := key (reopen c).1 c.fresh (by rw [hro]) (by rw [hro])
      (by rw [hro]; simpa [nextAttempt, hs] using hn)
    obtain ⟨a', b', d', e', _⟩ := reopen_keeps c
    exact ⟨a, by rw [b, a'], by rw [d, b'], by rw [e, d'], by rw [f, e']⟩

/-- a successful `connect_ex` connects, whatever the timer says -/
theorem serviceConnect_ok (c : Client) (ans : Nat → Nat) (ha : c.accepted = false)
    (hok : isOk (ans (nextAttempt c))) :
    (serviceConnectAsIs c ans).1.accepted = true ∧ (serviceConnectAsIs c ans).1.cutoff = false := by
  have key : ∀ (c : Client) (id : Nat), c.sock = some id → isOk (ans c.attempts) →
      (accept c ans).1.accepted = true ∧ (accept c ans).1.cutoff = false := by
    intro c id hs hok
    rw [accept_open c ans id hs]
    have h1 : ans c.attempts = 0 ∨ ans c.attempts = EISCONN := hok
    rw [if_pos h1]
    exact ⟨rfl, rfl⟩
  have hacc : (accept c ans).1.accepted = true ∧ (accept c ans).1.cutoff = false := by
    cases hs : c.sock with
    | some id => exact key c id hs (by simpa [nextAttempt, hs] using hok)
    | none =>
      have hro := reopen_fst c
      have heq : (accept c ans).1 = (accept (reopen c).1 ans).1 := by
        conv => lhs; unfold accept
        simp only [hs]
        rw [accept_open (reopen c).1 ans c.fresh (by rw [hro])]
        generalize reopen c = r at hro
        obtain ⟨c1, e1⟩ := r
        simp only at hro
        subst hro
        simp only
        split
        · rfl
        · split <;> rfl
      rw [heq]
      exact key (reopen c).1 c.fresh (by rw [hro]) (by rw [hro]; simpa [nextAttempt, hs] using hok)
  have hna : (!c.accepted) = true := by simp [ha]
  unfold serviceConnectAsIs
  rw [if_pos hna]
  generalize accept c ans = r at hacc
  obtain ⟨c1, e1⟩ := r
  simp only at hacc ⊢
  have hcond : ¬ ((!c1.accepted && c1.reconnectable && timerFired c1) = true) := by
    rw [hacc.1]; simp
  rw [if_neg hcond]
  exact hacc

/-! ### the TLS client -/

/-- TLS invariant: connected only when accepted, and the inherited address invariant -/
def TlsInv (t : Tls) : Prop := (t.connected = true → t.c.accepted = true) ∧ AddrInv t.c

theorem tlsInv_of_not (t : Tls) (h1 : t.connected = false) (h2 : t.c.accepted = false) : TlsInv t := by
  unfold TlsInv AddrInv
  refine ⟨?_, ?_⟩
  · intro hh; rw [h1] at hh; cases hh
  · intro hh; rw [h2] at hh; cases hh

theorem tlsClose_spec (t : Tls) (h : TlsInv t) :
    TlsInv (tlsClose t).1 ∧ (t.c.sock.isSome = true → (tlsClose t).1.connected = false ∧ (tlsClose t).1.c.accepted = false) := by
  unfold tlsClose
  cases hs : t.c.sock with
  | none => exact ⟨h, by intro hh; cases hh⟩
  | some id =>
    simp only [close, hs]
    exact ⟨tlsInv_of_not _ rfl rfl, by simp⟩

theorem tlsOpen_spec (t : Tls) :
    TlsInv (tlsOpen t).1 ∧ (tlsOpen t).1.connected = false ∧ (tlsOpen t).1.c.accepted = false ∧
    (tlsOpen t).1.c.cutoff = false ∧ (tlsOpen t).1.c.sock = some t.c.fresh := by
  unfold tlsOpen openSock
  exact ⟨tlsInv_of_not _ rfl rfl, rfl, rfl, rfl, rfl⟩

theorem tlsReopen_clears (t : Tls) :
    (tlsReopen t).1.connected = false ∧ (tlsReopen t).1.c.accepted = false ∧ (tlsReopen t).1.c.cutoff = false ∧
    (∃ id, (tlsReopen t).1.c.sock = some id) ∧ TlsInv (tlsReopen t).1 := by
  unfold tlsReopen
  generalize tlsClose t = r
  obtain ⟨t1, e1⟩ := r
  obtain ⟨i, a, b, c, d⟩ := tlsOpen_spec t1
  simp only
  generalize tlsOpen t1 = r2 at i a b c d
  obtain ⟨t2, e2⟩ := r2
  exact ⟨a, b, c, ⟨_, d⟩, i⟩

theorem tlsReopenRestart_spec (t : Tls) (d : Option Int) :
    (tlsReopenRestart t d).1.connected = false ∧ (tlsReopenRestart t d).1.c.accepted = false ∧
    (tlsReopenRestart t d).1.c.cutoff = false ∧ TlsInv (tlsReopenRestart t d).1 := by
  unfold tlsReopenRestart
  obtain ⟨a, b, c, _, i⟩ := tlsReopen_clears t
  generalize tlsReopen t = r at a b c i
  obtain ⟨t1, e1⟩ := r
  simp only at a b c i ⊢
  exact ⟨a, b, c, tlsInv_of_not _ a b⟩

theorem tlsCutoffPart_inv (t : Tls) (d : Option Int) (h : TlsInv t) : TlsInv (tlsCutoffPart t d).1 := by
  unfold tlsCutoffPart
  split
  · exact (tlsReopenRestart_spec t d).2.2.2
  · exact h

theorem tlsConnect_inv (t : Tls) (ans : Nat → Nat) (hs : Nat → Shake) (h : TlsInv t) :
    TlsInv (tlsConnect t ans hs).1 := by
  unfold tlsConnect
  -- the accept part
  have h1 : TlsInv (if (!t.c.accepted) = true then
        ((⟨(accept t.c ans).1, if ((accept t.c ans).1.sock == t.c.sock) = true then t.connected else false,
           if ((accept t.c ans).1.sock == t.c.sock) = true then t.shakes else 0⟩ : Tls),
         (accept t.c ans).2.map TEvent.base)
      else (t, [])).1 := by
    by_cases ha : t.c.accepted = true
    · simp only [ha, Bool.not_true, Bool.false_eq_true, if_false]; exact h
    · have ha' : t.c.accepted = false := by simpa using ha
      have hc : t.connected = false := by
        cases hcc : t.connected with
        | false => rfl
        | true => exact absurd (h.1 hcc) ha
      simp only [ha', Bool.not_false, if_true, hc, ite_self]
      unfold TlsInv
      exact ⟨(by intro hh; cases hh), accept_addr t.c ans h.2⟩
  generalize (if (!t.c.accepted) = true then
        ((⟨(accept t.c ans).1, if ((accept t.c ans).1.sock == t.c.sock) = true then t.connected else false,
           if ((accept t.c ans).1.sock == t.c.sock) = true then t.shakes else 0⟩ : Tls),
         (accept t.c ans).2.map TEvent.base)
      else (t, [])) = r at h1
  obtain ⟨t1, e1⟩ := r
  simp only at h1 ⊢
  split
  · rename_i hcond
    simp only [Bool.and_eq_true, Bool.not_eq_true'] at hcond
    cases hsock : t1.c.sock with
    | none => exact h1
    | some id =>
      simp only
      cases hs t1.shakes with
      | ok => exact ⟨fun _ => hcond.1, h1.2⟩
      | want => exact ⟨(by intro hh; simp only at hh; rw [hcond.2] at hh; cases hh), h1.2⟩
      | fail =>
        simp only
        have := (tlsClose_spec { t1 with shakes := t1.shakes + 1 }
          ⟨(by intro hh; simp only at hh; rw [hcond.2] at hh; cases hh), h1.2⟩).1
        generalize tlsClose { t1 with shakes := t1.shakes + 1 } = r3 at this
        obtain ⟨t3, e3⟩ := r3
        exact this
  · exact h1

theorem tlsServiceConnect_inv (t : Tls) (ans : Nat → Nat) (hs : Nat → Shake) (h : TlsInv t) :
    TlsInv (tlsServiceConnect t ans hs).1 := by
  unfold tlsServiceConnect
  have h0 := tlsCutoffPart_inv t none h
  generalize tlsCutoffPart t none = r0 at h0
  obtain ⟨t0, e0⟩ := r0
  simp only at h0 ⊢
  split
  · have h1 := tlsConnect_inv t0 ans hs h0
    generalize tlsConnect t0 ans hs = r1 at h1
    obtain ⟨t1, e1, raised⟩ := r1
    simp only at h1 ⊢
    split
    · exact h1
    · split
      · exact (tlsReopenRestart_spec t1 none).2.2.2
      · exact h1
  · exact h0

theorem tlsStack_inv (t : Tls) (ans : Nat → Nat) (hs : Nat → Shake) (h : TlsInv t) :
    TlsInv (tlsStackServiceConnect t ans hs).1 := by
  unfold tlsStackServiceConnect
  split
  · exact tlsCutoffPart_inv t none h
  · split
    · have h1 := tlsServiceConnect_inv t ans hs h
      generalize tlsServiceConnect t ans hs = r at h1
      obtain ⟨t1, e1⟩ := r
      simp only at h1 ⊢
      split
      · exact ⟨h1.1, h1.2⟩
      · exact h1
    · exact h

theorem tlsPatron_inv (t : Tls) (ans : Nat → Nat) (hs : Nat → Shake) (h : TlsInv t) :
    TlsInv (tlsPatronConnect t ans hs).1 := by
  unfold tlsPatronConnect
  have h1 := tlsCutoffPart_inv t t.c.retry h
  generalize tlsCutoffPart t t.c.retry = r at h1
  obtain ⟨t1, e1⟩ := r
  simp only at h1 ⊢
  split
  · have h2 := tlsServiceConnect_inv t1 ans hs h1
    generalize tlsServiceConnect t1 ans hs = r2 at h2
    obtain ⟨t2, e2⟩ := r2
    exact h2
  · exact h1

theorem tstep_inv (t : Tls) (op : TOp) (h : TlsInv t) : TlsInv (tstep t op).1 := by
  cases op with
  | advance dt => exact h
  | clientServiceConnect code a => exact tlsServiceConnect_inv t _ _ h
  | stackServiceConnect code a => exact tlsStack_inv t _ _ h
  | patronConnect code a => exact tlsPatron_inv t _ _ h
  | loss =>
    simp only [tstep]
    split
    · exact h
    · exact h
  | close => exact (tlsClose_spec t h).1
  | reopen => exact (tlsReopen_clears t).2.2.2.2

theorem trun_inv (ops : List TOp) : ∀ (t : Tls), TlsInv t → TlsInv (trun t ops).1 := by
  induction ops with
  | nil => intro t h; exact h
  | cons op ops ih =>
    intro t h
    have := ih (tstep t op).1 (tstep_inv t op h)
    simpa [trun] using this

theorem tlsReopen_fst (t : Tls) :
    (tlsReopen t).1 = ⟨{ t.c with accepted := false, cutoff := false, sock := some t.c.fresh, fresh := t.c.fresh + 1,
                                  attempts := 0, opened := true }, false, 0⟩ := by
  unfold tlsReopen tlsClose tlsOpen close openSock
  cases h : t.c.sock <;> simp


/-! ### TLS client: bounded liveness for arbitrary latencies -/

/-- a TLS handshake that completes within `b` calls: no failure before, success at the `b`-th -/
def Shaking (b : Nat) (hsOf : Nat → Shake) : Prop :=
  0 < b ∧ (∀ m, m + 1 < b → hsOf m ≠ .fail) ∧ hsOf (b - 1) = .ok

/-- the reconnect timer would make `serviceConnect` reopen now -/
def Fires (c : Client) : Prop := c.reconnectable = true ∧ 0 < c.timeout ∧ c.timer.stop ≤ c.now

theorem tls_step_accept_wait (t : Tls) (ans : Nat → Nat) (hs : Nat → Shake) (id : Nat)
    (hsock : t.c.sock = some id) (hx : t.c.cutoff = false) (hc : t.connected = false) (ha : t.c.accepted = false)
    (hn : ¬ isOk (ans t.c.attempts)) (hr : notRefused (ans t.c.attempts)) (ht : ¬ Fires t.c) :
    (tlsServiceConnect t ans hs).1 = { t with c := { t.c with attempts := t.c.attempts + 1 } } := by
  have h1 : ¬ (ans t.c.attempts = 0 ∨ ans t.c.attempts = EISCONN) := hn
  have h2 : ¬ (ans t.c.attempts = EINVAL ∨ ans t.c.attempts = ECONNREFUSED) := by
    intro h; rcases h with h | h
    · exact hr.1 h
    · exact hr.2 h
  unfold Fires at ht
  simp [tlsServiceConnect, tlsCutoffPart, tlsConnect, accept, hsock, hx, hc, ha, h1, h2, timerFired, Timer.expired, ht]

theorem tls_step_accept_ok (t : Tls) (ans : Nat → Nat) (hs : Nat → Shake) (id : Nat)
    (hsock : t.c.sock = some id) (hx : t.c.cutoff = false) (hc : t.connected = false) (ha : t.c.accepted = false)
    (hok : isOk (ans t.c.attempts)) (hnf : hs t.shakes ≠ .fail)
    (ht : hs t.shakes = .ok ∨ ¬ Fires t.c) :
    (tlsServiceConnect t ans hs).1 =
      ⟨{ t.c with attempts := t.c.attempts + 1, ca := some id, accepted := true, cutoff := false },
       decide (hs t.shakes = .ok), t.shakes + 1⟩ := by
  have h1 : ans t.c.attempts = 0 ∨ ans t.c.attempts = EISCONN := hok
  cases hh : hs t.shakes with
  | ok => simp [tlsServiceConnect, tlsCutoffPart, tlsConnect, accept, hsock, hx, hc, ha, h1, hh]
  | fail => exact absurd hh hnf
  | want =>
    rcases ht with ht | ht
    · rw [hh] at ht; cases ht
    · unfold Fires at ht
      simp [tlsServiceConnect, tlsCutoffPart, tlsConnect, accept, hsock, hx, hc, ha, h1, hh, timerFired, Timer.expired, ht]

theorem tls_step_shake (t : Tls) (ans : Nat → Nat) (hs : Nat → Shake) (id : Nat)
    (hsock : t.c.sock = some id) (hx : t.c.cutoff = false) (hc : t.connected = false) (ha : t.c.accepted = true)
    (hnf : hs t.shakes ≠ .fail) (ht : hs t.shakes = .ok ∨ ¬ Fires t.c) :
    (tlsServiceConnect t ans hs).1 = ⟨t.c, decide (hs t.shakes = .ok), t.shakes + 1⟩ := by
  cases hh : hs t.shakes with
  | ok => simp [tlsServiceConnect, tlsCutoffPart, tlsConnect, hsock, hx, hc, ha, hh]
  | fail => exact absurd hh hnf
  | want =>
    rcases ht with ht | ht
    · rw [hh] at ht; cases ht
    · unfold Fires at ht
      simp [tlsServiceConnect, tlsCutoffPart, tlsConnect, hsock, hx, hc, ha, hh, timerFired, Timer.expired, ht]

theorem tls_service_live (t : Tls) (ans : Nat → Nat) (hs : Nat → Shake) (hc : t.connected = true) (hx : t.c.cutoff = false) :
    (tlsServiceConnect t ans hs).1 = t := by
  simp [tlsServiceConnect, tlsCutoffPart, hc, hx]

theorem trunListening_bare_live (ansOf : Nat → Nat) (hsOf : Nat → Shake) (dts : List Int) : ∀ (t : Tls),
    t.connected = true → t.c.cutoff = false →
    (trunListening ansOf hsOf .bare t dts).connected = true ∧ (trunListening ansOf hsOf .bare t dts).c.cutoff = false ∧
    (trunListening ansOf hsOf .bare t dts).c.sock = t.c.sock ∧ (trunListening ansOf hsOf .bare t dts).c.ca = t.c.ca ∧
    (trunListening ansOf hsOf .bare t dts).c.accepted = t.c.accepted := by
  induction dts with
  | nil => intro t hc hx; exact ⟨hc, hx, rfl, rfl, rfl⟩
  | cons d rest ih =>
    intro t hc hx
    unfold trunListening
    simp only [Kind.tlsService]
    rw [tls_service_live { t with c := { t.c with now := t.c.now + d } } ansOf hsOf hc hx]
    exact ih _ hc hx

/-- how many more service calls a TLS client in the middle of (re)connecting needs at most -/
def tlsNeed (a b : Nat) (t : Tls) : Nat :=
  if t.c.accepted then b - t.shakes else (a - t.c.attempts) + (b - 1)

/-- **bounded liveness of the TLS client, core**: socket `id` open, not connected, not cut off, either
still connecting (`n < a` attempts made, no handshake yet) or accepted with `m < b` handshake calls made;
the server answers the `a`-th `connect_ex` and completes the handshake at its `b`-th call; the schedule is
at least as long as needed and paced.  Then the client ends connected on that socket. -/
theorem tls_reconnect_core (a b : Nat) (ansOf : Nat → Nat) (hsOf : Nat → Shake) (hL : Listening a ansOf)
    (hS : Shaking b hsOf) (id : Nat) :
    ∀ (dts : List Int) (t : Tls), t.c.sock = some id → t.connected = false → t.c.cutoff = false →
    (t.c.accepted = false → t.shakes = 0 ∧ t.c.attempts < a) →
    (t.c.accepted = true → t.shakes < b ∧ t.c.ca = some id) →
    tlsNeed a b t ≤ dts.length → 0 < dts.length →
    (t.c.reconnectable = true → 0 < t.c.timeout → Paced (t.c.timer.stop - t.c.now) dts) →
    (trunListening ansOf hsOf .bare t dts).connected = true ∧ (trunListening ansOf hsOf .bare t dts).c.cutoff = false ∧
    (trunListening ansOf hsOf .bare t dts).c.accepted = true ∧
    (trunListening ansOf hsOf .bare t dts).c.sock = some id ∧ (trunListening ansOf hsOf .bare t dts).c.ca = some id := by
  obtain ⟨ha0, hnr, haok⟩ := hL
  obtain ⟨hb0, hnf, hbok⟩ := hS
  intro dts
  induction dts with
  | nil => intro t _ _ _ _ _ _ h; simp at h
  | cons d rest ih =>
    intro t hsock hc hx hph1 hph2 hneed _ hp
    let t0 : Tls := { t with c := { t.c with now := t.c.now + d } }
    have hsock0 : t0.c.sock = some id := hsock
    have hc0 : t0.connected = false := hc
    have hx0 : t0.c.cutoff = false := hx
    -- when another round follows, the timer does not fire in this one
    have hquiet : rest ≠ [] → ¬ Fires t0.c := by
      intro hne ⟨r, p, le⟩
      cases rest with
      | nil => exact hne rfl
      | cons d' rest' =>
        have := (hp r p).1
        have e1 : t0.c.timer.stop = t.c.timer.stop := rfl
        have e2 : t0.c.now = t.c.now + d := rfl
        omega
    have hpaced' : ∀ (t1 : Tls), t1.c.timer = t.c.timer → t1.c.now = t.c.now + d → t1.c.reconnectable = t.c.reconnectable →
        t1.c.timeout = t.c.timeout → t1.c.reconnectable = true → 0 < t1.c.timeout →
        Paced (t1.c.timer.stop - t1.c.now) rest := by
      intro t1 e1 e2 e3 e4 r p
      cases rest with
      | nil => trivial
      | cons d' rest' =>
        have := (hp (e3 ▸ r) (e4 ▸ p)).2
        rw [e1, e2]
        have e : t.c.timer.stop - (t.c.now + d) = t.c.timer.stop - t.c.now - d := by omega
        rw [e]; exact this
    unfold trunListening
    simp only [Kind.tlsService]
    rw [show ({ t with c := { t.c with now := t.c.now + d } } : Tls) = t0 from rfl]
    by_cases hacc : t.c.accepted = true
    · -- handshake phase
      have hacc0 : t0.c.accepted = true := hacc
      obtain ⟨hm, hca⟩ := hph2 hacc
      have hm0 : t0.shakes < b := hm
      have hnf0 : hsOf t0.shakes ≠ .fail := by
        by_cases hl : t0.shakes + 1 < b
        · exact hnf _ hl
        · have : t0.shakes = b - 1 := by omega
          rw [this, hbok]; intro h; cases h
      have hneed' : b - t.shakes ≤ rest.length + 1 := by simpa [tlsNeed, hacc] using hneed
      have hstep := tls_step_shake t0 ansOf hsOf id hsock0 hx0 hc0 hacc0 hnf0
        (by
          by_cases hok : hsOf t0.shakes = .ok
          · exact Or.inl hok
          · right
            apply hquiet
            intro hr
            have : t0.shakes = b - 1 := by
              have : t.shakes = t0.shakes := rfl
              rw [hr] at hneed'; simp at hneed'; omega
            exact hok (this ▸ hbok))
      rw [hstep]
      by_cases hok : hsOf t0.shakes = .ok
      · simp only [hok, decide_true]
        obtain ⟨l1, l2, l3, l4, l5⟩ := trunListening_bare_live ansOf hsOf rest ⟨t0.c, true, t0.shakes + 1⟩ rfl hx0
        exact ⟨l1, l2, by rw [l5]; exact hacc0, by rw [l3]; exact hsock0, by rw [l4]; exact hca⟩
      · simp only [hok, decide_false]
        have hm1 : t0.shakes + 1 < b := by
          by_cases hl : t0.shakes + 1 < b
          · exact hl
          · have : t0.shakes = b - 1 := by omega
            exact absurd (this ▸ hbok) hok
        have hlen : 0 < rest.length := by
          have : t.shakes = t0.shakes := rfl
          omega
        apply ih ⟨t0.c, false, t0.shakes + 1⟩ hsock0 rfl hx0
        · intro h; rw [hacc0] at h; cases h
        · intro _; exact ⟨hm1, hca⟩
        · have : t.shakes = t0.shakes := rfl
          simp only [tlsNeed, hacc0, if_true]; omega
        · exact hlen
        · exact hpaced' ⟨t0.c, false, t0.shakes + 1⟩ rfl rfl rfl rfl
    · -- connecting phase
      have hacc' : t.c.accepted = false := by simpa using hacc
      have hacc0 : t0.c.accepted = false := hacc'
      obtain ⟨hsh, hn⟩ := hph1 hacc'
      have hsh0 : t0.shakes = 0 := hsh
      have hn0 : t0.c.attempts < a := hn
      have hneed' : (a - t.c.attempts) + (b - 1) ≤ rest.length + 1 := by simpa [tlsNeed, hacc'] using hneed
      by_cases hok : isOk (ansOf t0.c.attempts)
      · -- accepted in this call, first handshake call in the same call
        have hnf0 : hsOf t0.shakes ≠ .fail := by
          rw [hsh0]
          by_cases hl : 0 + 1 < b
          · exact hnf 0 hl
          · have : b - 1 = 0 := by omega
            rw [← this, hbok]; intro h; cases h
        have hstep := tls_step_accept_ok t0 ansOf hsOf id hsock0 hx0 hc0 hacc0 hok hnf0
          (by
            by_cases hk : hsOf t0.shakes = .ok
            · exact Or.inl hk
            · right
              apply hquiet
              intro hr
              have hb1 : b - 1 = 0 := by
                have : t.c.attempts = t0.c.attempts := rfl
                rw [hr] at hneed'; simp at hneed'; omega
              exact hk (by rw [hsh0, ← hb1]; exact hbok))
        rw [hstep]
        by_cases hk : hsOf t0.shakes = .ok
        · simp only [hk, decide_true]
          obtain ⟨l1, l2, l3, l4, l5⟩ := trunListening_bare_live ansOf hsOf rest
            ⟨{ t0.c with attempts := t0.c.attempts + 1, ca := some id, accepted := true, cutoff := false }, true,
              t0.shakes + 1⟩ rfl rfl
          exact ⟨l1, l2, by rw [l5], by rw [l3]; exact hsock0, by rw [l4]⟩
        · simp only [hk, decide_false]
          have hb2 : 0 + 1 < b := by
            by_cases hl : 0 + 1 < b
            · exact hl
            · have : b - 1 = 0 := by omega
              exact absurd (by rw [hsh0, ← this]; exact hbok) hk
          have hlen : 0 < rest.length := by
            have : t.c.attempts = t0.c.attempts := rfl
            omega
          apply ih ⟨{ t0.c with attempts := t0.c.attempts + 1, ca := some id, accepted := true, cutoff := false },
              false, t0.shakes + 1⟩ hsock0 rfl rfl
          · intro h; cases h
          · intro _; exact ⟨by rw [hsh0]; exact hb2, rfl⟩
          · have : t.c.attempts = t0.c.attempts := rfl
            simp only [tlsNeed, if_true]; rw [hsh0]; omega
          · exact hlen
          · exact hpaced' _ rfl rfl rfl rfl
      · -- still waiting for the connection
        have hn1 : t0.c.attempts + 1 < a := by
          by_cases hl : t0.c.attempts + 1 < a
          · exact hl
          · have : t0.c.attempts = a - 1 := by omega
            exact absurd (this ▸ haok) hok
        have hlen : 0 < rest.length := by
          have : t.c.attempts = t0.c.attempts := rfl
          omega
        have hstep := tls_step_accept_wait t0 ansOf hsOf id hsock0 hx0 hc0 hacc0 hok (hnr _ hn1)
          (hquiet (by intro h; rw [h] at hlen; simp at hlen))
        rw [hstep]
        apply ih { t0 with c := { t0.c with attempts := t0.c.attempts + 1 } } hsock0 hc0 hx0
        · intro _; exact ⟨hsh0, hn1⟩
        · intro h; rw [show ({ t0 with c := { t0.c with attempts := t0.c.attempts + 1 } } : Tls).c.accepted = false from hacc0] at h; cases h
        · have : t.c.attempts = t0.c.attempts := rfl
          simp only [tlsNeed, hacc0, Bool.false_eq_true, if_false]; omega
        · exact hlen
        · exact hpaced' _ rfl rfl rfl rfl

/-- the state a timer-driven reopen leaves a TLS client in -/
def TlsJustReopened (t : Tls) (id : Nat) : Prop :=
  JustReopened t.c id ∧ t.connected = false ∧ t.shakes = 0

theorem tlsReopenRestart_just (t : Tls) (d : Option Int) :
    TlsJustReopened (tlsReopenRestart t d).1 t.c.fresh ∧ (tlsReopenRestart t d).1.c.now = t.c.now ∧
    (tlsReopenRestart t d).1.c.reconnectable = t.c.reconnectable ∧ (tlsReopenRestart t d).1.c.timeout = t.c.timeout ∧
    (tlsReopenRestart t d).1.c.timer.duration = (match d with | some x => iabs x | none => t.c.timer.duration) := by
  unfold tlsReopenRestart
  have := tlsReopen_fst t
  generalize tlsReopen t = r at this
  obtain ⟨t1, e1⟩ := r
  simp only at this
  subst this
  cases d <;> simp [TlsJustReopened, JustReopened, Timer.restart]

theorem tls_cutoff_split (t : Tls) (ans : Nat → Nat) (hs : Nat → Shake)
    (hx : t.c.cutoff = true) (hr : t.c.reconnectable = true) (hf : timerFired t.c = true) :
    (tlsServiceConnect t ans hs).1 = (tlsServiceConnect (tlsReopenRestart t none).1 ans hs).1 := by
  have hcp : tlsCutoffPart t none = tlsReopenRestart t none := by
    unfold tlsCutoffPart
    rw [if_pos (by rw [hx, hr, hf]; rfl)]
  have hj := (tlsReopenRestart_just t none).1
  have hcp2 : tlsCutoffPart (tlsReopenRestart t none).1 none = ((tlsReopenRestart t none).1, []) := by
    unfold tlsCutoffPart
    rw [hj.1.2.2.2.1]; rfl
  conv => lhs; unfold tlsServiceConnect
  conv => rhs; unfold tlsServiceConnect
  rw [hcp, hcp2]
  generalize tlsReopenRestart t none = r
  obtain ⟨t1, e1⟩ := r
  simp only
  split
  · generalize tlsConnect t1 ans hs = r2
    obtain ⟨t2, e2, raised⟩ := r2
    simp only
    split
    · rfl
    · split <;> rfl
  · rfl


end Ioflo.Reconnect
