import IofloModel.Model.Reconnect
/-! Helper lemmas for C27: one service call, the bounded-liveness induction. -/
namespace Ioflo.Reconnect

theorem reopen_fst (c : Client) :
    (reopen c).1 = { c with accepted := false, cutoff := false, sock := some c.fresh, fresh := c.fresh + 1,
                            attempts := 0, opened := true } := by
  unfold reopen close openSock
  cases h : c.sock <;> simp

/-- `accept` on an open socket -/
theorem accept_open (c : Client) (ans : Nat → Nat) (id : Nat) (h : c.sock = some id) :
    (accept c ans).1 =
      if ans c.attempts = 0 ∨ ans c.attempts = EISCONN then
        { c with attempts := c.attempts + 1, ca := some id, accepted := true, cutoff := false }
      else if ans c.attempts = EINVAL ∨ ans c.attempts = ECONNREFUSED then
        (reopen { c with attempts := c.attempts + 1 }).1
      else { c with attempts := c.attempts + 1 } := by
  unfold accept
  simp only [h]
  split
  · rfl
  · split <;> rfl

def notRefused (code : Nat) : Prop := code ≠ EINVAL ∧ code ≠ ECONNREFUSED
def isOk (code : Nat) : Prop := code = 0 ∨ code = EISCONN

instance (code : Nat) : Decidable (isOk code) := by unfold isOk; infer_instance

/-- one `Client.serviceConnect` on an open, unconnected socket whose answer is not a refusal and
at which the reconnect timer does not fire -/
theorem serviceConnect_step (c : Client) (ans : Nat → Nat) (id : Nat)
    (hs : c.sock = some id) (ha : c.accepted = false) (hn : notRefused (ans c.attempts))
    (ht : c.reconnectable = true → ¬ (0 < c.timeout ∧ c.timer.stop ≤ c.now)) :
    (serviceConnect c ans).1 =
      if isOk (ans c.attempts) then
        { c with attempts := c.attempts + 1, ca := some id, accepted := true, cutoff := false }
      else { c with attempts := c.attempts + 1 } := by
  unfold serviceConnect
  simp only [ha, Bool.not_false, if_true]
  have hacc := accept_open c ans id hs
  by_cases hok : isOk (ans c.attempts)
  · have hok' : ans c.attempts = 0 ∨ ans c.attempts = EISCONN := hok
    rw [if_pos hok'] at hacc
    rw [if_pos hok]
    generalize accept c ans = r at hacc
    obtain ⟨c1, e1⟩ := r
    simp only at hacc
    subst hacc
    simp
  · have hok' : ¬ (ans c.attempts = 0 ∨ ans c.attempts = EISCONN) := hok
    have hr : ¬ (ans c.attempts = EINVAL ∨ ans c.attempts = ECONNREFUSED) := by
      intro h; rcases h with h | h
      · exact hn.1 h
      · exact hn.2 h
    rw [if_neg hok', if_neg hr] at hacc
    rw [if_neg hok]
    generalize accept c ans = r at hacc
    obtain ⟨c1, e1⟩ := r
    simp only at hacc
    subst hacc
    simp only [ha, Bool.not_false, Bool.true_and]
    by_cases hrec : c.reconnectable = true
    · simp only [hrec, if_true]
      have := ht hrec
      simp only [Timer.expired, decide_eq_true_eq]
      rw [if_neg this]
    · simp [hrec]

/-- the server listens with latency `k`: no refusal before, success at the `k`-th `connect_ex` on a socket -/
def Listening (k : Nat) (ansOf : Nat → Nat) : Prop :=
  0 < k ∧ (∀ m, m + 1 < k → notRefused (ansOf m)) ∧ isOk (ansOf (k - 1))

/-- the calls that must come before the reconnect timer fires again: all but the last of the schedule;
`slack` = time left until the timer expires -/
def Paced : Int → List Int → Prop
  | _, [] => True
  | _, [_] => True
  | slack, d :: d' :: rest => d < slack ∧ Paced (slack - d) (d' :: rest)

/-- a client that is connected and not cut off is left alone by every service call -/
theorem service_live (k : Kind) (c : Client) (ans : Nat → Nat) (ha : c.accepted = true) (hx : c.cutoff = false) :
    (k.service c ans).1 = c := by
  cases k <;> simp [Kind.service, serviceConnect, stackServiceConnect, patronConnect, ha, hx]

theorem runListening_live (ansOf : Nat → Nat) (k : Kind) (dts : List Int) : ∀ (c : Client),
    c.accepted = true → c.cutoff = false →
    (runListening ansOf k c dts).accepted = true ∧ (runListening ansOf k c dts).cutoff = false ∧
    (runListening ansOf k c dts).sock = c.sock ∧ (runListening ansOf k c dts).ca = c.ca ∧
    (runListening ansOf k c dts).localHa = c.localHa := by
  induction dts with
  | nil => intro c ha hx; exact ⟨ha, hx, rfl, rfl, rfl⟩
  | cons d rest ih =>
    intro c ha hx
    unfold runListening
    rw [service_live k { c with now := c.now + d } ansOf ha hx]
    exact ih { c with now := c.now + d } ha hx

/-- what `TcpClientStack.serviceConnect` adds to `Client.serviceConnect` when the client is not cut off -/
theorem stack_not_cutoff (c : Client) (ans : Nat → Nat) (hx : c.cutoff = false) (ha : c.accepted = false) :
    (stackServiceConnect c ans).1 =
      if (serviceConnect c ans).1.accepted then
        { (serviceConnect c ans).1 with localHa := (serviceConnect c ans).1.ca }
      else (serviceConnect c ans).1 := by
  unfold stackServiceConnect
  simp [hx, ha]

theorem patron_not_cutoff (c : Client) (ans : Nat → Nat) (hx : c.cutoff = false) (ha : c.accepted = false) :
    (patronConnect c ans).1 = (serviceConnect c ans).1 := by
  unfold patronConnect
  simp [hx, ha]

/-- **bounded liveness, core**: an open socket `id` on which `n < k` attempts have been made, not
connected, not cut off; the server listens with latency `k`; the remaining `k - n` rounds are paced
(all but the last come before the timer expires).  Then after these rounds the client is connected
on that very socket and reports its address (and the stack's `local.ha` follows). -/
theorem reconnect_core (k : Nat) (ansOf : Nat → Nat) (kind : Kind) (hL : Listening k ansOf) (id : Nat) :
    ∀ (dts : List Int) (c : Client), c.sock = some id → c.accepted = false → c.cutoff = false →
    c.attempts + dts.length = k → 0 < dts.length →
    (c.reconnectable = true → 0 < c.timeout → Paced (c.timer.stop - c.now) dts) →
    (runListening ansOf kind c dts).accepted = true ∧ (runListening ansOf kind c dts).cutoff = false ∧
    (runListening ansOf kind c dts).sock = some id ∧ (runListening ansOf kind c dts).ca = some id ∧
    (kind = .stack → (runListening ansOf kind c dts).localHa = some id) := by
  intro dts
  induction dts with
  | nil => intro c _ _ _ _ h; simp at h
  | cons d rest ih =>
    intro c hs ha hx hlen _ hp
    obtain ⟨hk, hnr, hok⟩ := hL
    -- the service call of this round, as a bare `serviceConnect`
    let c0 : Client := { c with now := c.now + d }
    have hs0 : c0.sock = some id := hs
    have ha0 : c0.accepted = false := ha
    have hx0 : c0.cutoff = false := hx
    have hsvc : (kind.service c0 ansOf).1 =
        (if (serviceConnect c0 ansOf).1.accepted ∧ kind = .stack then
          { (serviceConnect c0 ansOf).1 with localHa := (serviceConnect c0 ansOf).1.ca }
        else (serviceConnect c0 ansOf).1) := by
      cases kind with
      | bare => simp [Kind.service]
      | stack => simp [Kind.service, stack_not_cutoff c0 ansOf hx0 ha0]
      | patron => simp [Kind.service, patron_not_cutoff c0 ansOf hx0 ha0]
    unfold runListening
    show _ ∧ _
    rw [show ({ c with now := c.now + d } : Client) = c0 from rfl, hsvc]
    cases rest with
    | nil =>
      -- last round: the k-th attempt succeeds (no pacing needed: success is tested before the timer)
      have hn : c0.attempts = k - 1 := by simp at hlen; show c.attempts = k - 1; omega
      have hok' : isOk (ansOf c0.attempts) := by rw [hn]; exact hok
      have hnr' : notRefused (ansOf c0.attempts) := by
        rcases hok' with h | h <;> rw [h] <;> unfold notRefused EINVAL ECONNREFUSED <;> (try unfold EISCONN) <;> omega
      -- serviceConnect: accept succeeds, the timer is not consulted
      have hsc : (serviceConnect c0 ansOf).1 =
          { c0 with attempts := c0.attempts + 1, ca := some id, accepted := true, cutoff := false } := by
        unfold serviceConnect
        simp only [ha0, Bool.not_false, if_true]
        have hacc := accept_open c0 ansOf id hs0
        have hok'' : ansOf c0.attempts = 0 ∨ ansOf c0.attempts = EISCONN := hok'
        rw [if_pos hok''] at hacc
        generalize accept c0 ansOf = r at hacc
        obtain ⟨c1, e1⟩ := r
        simp only at hacc
        subst hacc
        simp
      rw [hsc]
      simp only [runListening, true_and]
      by_cases hst : kind = .stack
      · simp [hst, hs0]
      · simp [hst, hs0]
    | cons d' rest' =>
      have hn : c0.attempts + 1 < k := by simp at hlen; show c.attempts + 1 < k; omega
      have hnr' : notRefused (ansOf c0.attempts) := hnr _ hn
      have ht : c0.reconnectable = true → ¬ (0 < c0.timeout ∧ c0.timer.stop ≤ c0.now) := by
        intro hr ⟨h1, h2⟩
        have := (hp hr h1).1
        have e1 : c0.timer.stop = c.timer.stop := rfl
        have e2 : c0.now = c.now + d := rfl
        omega
      have hsc := serviceConnect_step c0 ansOf id hs0 ha0 hnr' ht
      rw [hsc]
      by_cases hokn : isOk (ansOf c0.attempts)
      · -- connected early; it stays connected
        rw [if_pos hokn]
        simp only [true_and]
        by_cases hst : kind = .stack
        · simp only [hst, if_true]
          obtain ⟨l1, l2, l3, l4, l5⟩ := runListening_live ansOf .stack (d' :: rest')
            { c0 with attempts := c0.attempts + 1, ca := some id, accepted := true, cutoff := false,
                      localHa := some id } rfl rfl
          exact ⟨l1, l2, by rw [l3]; exact hs0, by rw [l4], fun _ => by rw [l5]⟩
        · simp only [hst, if_false]
          obtain ⟨l1, l2, l3, l4, _⟩ := runListening_live ansOf kind (d' :: rest')
            { c0 with attempts := c0.attempts + 1, ca := some id, accepted := true, cutoff := false } rfl rfl
          exact ⟨l1, l2, by rw [l3]; exact hs0, by rw [l4], fun h => h.elim⟩
      · rw [if_neg hokn]
        have hna : ¬ (({ c0 with attempts := c0.attempts + 1 } : Client).accepted = true ∧ kind = .stack) := by
          intro h
          rw [show ({ c0 with attempts := c0.attempts + 1 } : Client).accepted = false from ha0] at h
          exact Bool.noConfusion h.1
        rw [if_neg hna]
        apply ih { c0 with attempts := c0.attempts + 1 } hs0 ha0 hx0
        · simp at hlen ⊢; show c.attempts + 1 + (rest'.length + 1) = k; omega
        · simp
        · intro hr h1
          have := (hp hr h1).2
          have e1 : ({ c0 with attempts := c0.attempts + 1 } : Client).timer.stop = c.timer.stop := rfl
          have e2 : ({ c0 with attempts := c0.attempts + 1 } : Client).now = c.now + d := rfl
          rw [e1, e2]
          have e3 : c.timer.stop - (c.now + d) = c.timer.stop - c.now - d := by omega
          rw [e3]; exact this

end Ioflo.Reconnect
