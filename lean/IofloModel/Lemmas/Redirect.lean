import IofloModel.Model.Redirect
/-!
Helper lemmas for C34 (redirect model): what `build`, `transmit*`, `follow`, `redirect`,
`serviceResponse`, `serviceRequests` leave unchanged, and which effects they can produce.
-/
namespace Ioflo.Redirect

scoped instance {ε α : Type} [DecidableEq ε] [DecidableEq α] : DecidableEq (Except ε α) := fun a b =>
  match a, b with
  | .ok x, .ok y => if h : x = y then isTrue (by rw [h]) else isFalse (fun he => h (by cases he; rfl))
  | .error x, .error y => if h : x = y then isTrue (by rw [h]) else isFalse (fun he => h (by cases he; rfl))
  | .ok _, .error _ => isFalse (fun he => by cases he)
  | .error _, .ok _ => isFalse (fun he => by cases he)

/-! ## `build` -/

theorem build_ok {S : Std} {r r' : Requester} {s : Sent} (h : build S r = .ok (r', s)) :
    r'.scheme = r.scheme ∧ r'.hostname = r.hostname ∧ r'.port = r.port ∧ r'.method = r.method
      ∧ r'.body = r.body
      ∧ s.method = r.method ∧ s.host = hostHeader r.hostname r.port
      ∧ s.body = (if r.method = sGET then [] else r.body)
      ∧ r'.path = (S.urlsplit r.path).path
      ∧ r'.qargs = (updateQargsQuery S r.qargs (S.urlsplit r.path).query).1
      ∧ s.target = (S.urlsplit (S.quote (S.urlsplit r.path).path ++ ['?']
            ++ (updateQargsQuery S r.qargs (S.urlsplit r.path).query).2 ++ ['#'])).geturl := by
  unfold build at h
  simp only [] at h
  split at h
  · cases h
  · split at h
    · cases h
    · split at h
      · cases h
      · split at h
        · cases h
        · split at h
          · cases h
          · simp only [Except.ok.injEq, Prod.mk.injEq] at h
            obtain ⟨h1, h2⟩ := h
            subst h1; subst h2
            simp

/-- the request target `Requester.build` produces for a path and query dict -/
def buildTarget (S : Std) (path : Str) (qargs : List (Str × Str)) : Str :=
  (S.urlsplit (S.quote (S.urlsplit path).path ++ ['?']
    ++ (updateQargsQuery S qargs (S.urlsplit path).query).2 ++ ['#'])).geturl

theorem updateQargsQuery_nil (S : Std) (d : List (Str × Str)) :
    updateQargsQuery S d [] = (d, renderQuery S d) := by
  simp [updateQargsQuery, queryParts]

/-! ## effects and frames of the transmit functions -/

def Effect.isSend : Effect → Bool
  | .send _ _ => true
  | _ => false

/-- the part of the client state that redirect handling must not touch -/
structure SameBooks (p q : Patron) : Prop where
  redirects : q.redirects = p.redirects
  responses : q.responses = p.responses
  redirectable : q.redirectable = p.redirectable
  queue : q.queue = p.queue
  respMethod : q.respMethod = p.respMethod

theorem transmitRedirect_cases (S : Std) (p : Patron) (path : Str) (qargs : List (Str × Str)) (fragment : Str) :
    (∃ e, transmitRedirect S p path qargs fragment = ⟨p, [], some e⟩) ∨
    (∃ r' s, build S { p.req with path := path, qargs := qargs, fragment := fragment, body := [] } = .ok (r', s)
      ∧ transmitRedirect S p path qargs fragment = ⟨{ p with req := r', waited := true }, [Effect.send p.conn s], none⟩) := by
  unfold transmitRedirect
  simp only []
  split
  · left; exact ⟨_, rfl⟩
  · rename_i r' s h
    right; exact ⟨r', s, h, rfl⟩

theorem transmitRequest_cases (S : Std) (p : Patron) (q : Request) :
    (∃ e, transmitRequest S p q = ⟨p, [], some e⟩) ∨
    (∃ r' s, build S { p.req with method := asciiUpper q.method, path := q.path, qargs := q.qargs, body := q.body }
        = .ok (r', s)
      ∧ transmitRequest S p q
        = ⟨{ p with req := r', waited := true, respMethod := r'.method }, [Effect.send p.conn s], none⟩) := by
  unfold transmitRequest
  simp only []
  split
  · left; exact ⟨_, rfl⟩
  · rename_i r' s h
    right; exact ⟨r', s, h, rfl⟩

/-! ## `parseLocation` -/

theorem schemeOf_cases (s : Str) : schemeOf s = sHttps ∨ schemeOf s = sHttp := by
  unfold schemeOf; split
  · left; rfl
  · right; rfl

theorem targetOfSplit_scheme {sp : Split} {t : Target} (h : targetOfSplit sp = .ok t) :
    t.secured = decide (t.scheme = sHttps) ∧ (t.scheme = sHttps ∨ t.scheme = sHttp) := by
  unfold targetOfSplit at h
  split at h
  · cases h
  · split at h
    · cases h
    · simp only [Except.ok.injEq] at h
      subst h
      exact ⟨rfl, schemeOf_cases _⟩

theorem parseLocation_scheme {S : Std} {r : Requester} {loc : Option Str} {t : Target}
    (h : parseLocation S r loc = .ok t) :
    t.secured = decide (t.scheme = sHttps) ∧ (t.scheme = sHttps ∨ t.scheme = sHttp) := by
  unfold parseLocation at h
  split at h
  · cases h
  · exact targetOfSplit_scheme h

theorem sHttp_ne_sHttps : sHttp ≠ sHttps := by decide

end Ioflo.Redirect
