import IofloModel.Model.Redirect
/-!
Helper lemmas for C34 (redirect model): what `build`, `transmit*`, `follow`, `redirect`,
`serviceResponse`, `serviceRequests` leave unchanged, and which effects they can produce.
-/
namespace Ioflo.Redirect

scoped instance {ε α : Type} [DecidableEq ε] [DecidableEq α] : DecidableEq (Except ε α) := fun a b =>
  match a, b with
  | .ok x, .ok y => if h : x = y then isTrue (by rw [h]) else isFalse (fun he => h (by cases he; rfl))
  | .error x, .error y => if h : x = y then isTrue (by rw [h]) else isFalse (fun he => h (by cases he; rfl))
  | .ok _, .error _ => isFalse (fun he => by cases he)
  | .error _, .ok _ => isFalse (fun he => by cases he)

/-! ## `build` -/

theorem build_ok {S : Std} {r r' : Requester} {s : Sent} (h : build S r = .ok (r', s)) :
    r'.scheme = r.scheme ∧ r'.hostname = r.hostname ∧ r'.port = r.port ∧ r'.method = r.method
      ∧ r'.body = r.body
      ∧ s.method = r.method ∧ s.host = hostHeader r.hostname r.port
      ∧ s.body = (if r.method = sGET then [] else r.body)
      ∧ r'.path = (S.urlsplit r.path).path
      ∧ r'.qargs = (updateQargsQuery S r.qargs (S.urlsplit r.path).query).1
      ∧ s.target = (S.urlsplit (S.quote (S.urlsplit r.path).path ++ ['?']
            ++ (updateQargsQuery S r.qargs (S.urlsplit r.path).query).2 ++ ['#'])).geturl := by
  unfold build at h
  simp only [] at h
  split at h
  · cases h
  · split at h
    · cases h
    · split at h
      · cases h
      · split at h
        · cases h
        · split at h
          · cases h
          · simp only [Except.ok.injEq, Prod.mk.injEq] at h
            obtain ⟨h1, h2⟩ := h
            subst h1; subst h2
            simp

/-- the request target `Requester.build` produces for a path and query dict -/
def buildTarget (S : Std) (path : Str) (qargs : List (Str × Str)) : Str :=
  (S.urlsplit (S.quote (S.urlsplit path).path ++ ['?']
    ++ (updateQargsQuery S qargs (S.urlsplit path).query).2 ++ ['#'])).geturl

theorem updateQargsQuery_nil (S : Std) (d : List (Str × Str)) :
    updateQargsQuery S d [] = (d, renderQuery S d) := by
  simp [updateQargsQuery, queryParts]

/-! ## effects and frames of the transmit functions -/

def Effect.isSend : Effect → Bool
  | .send _ _ => true
  | _ => false

/-- the part of the client state that redirect handling must not touch -/
structure SameBooks (p q : Patron) : Prop where
  redirects : q.redirects = p.redirects
  responses : q.responses = p.responses
  redirectable : q.redirectable = p.redirectable
  queue : q.queue = p.queue
  respMethod : q.respMethod = p.respMethod

theorem transmitRedirect_cases (S : Std) (p : Patron) (path : Str) (qargs : List (Str × Str)) (fragment : Str) :
    (∃ e, transmitRedirect S p path qargs fragment = ⟨p, [], some e⟩) ∨
    (∃ r' s, build S { p.req with path := path, qargs := qargs, fragment := fragment, body := [] } = .ok (r', s)
      ∧ transmitRedirect S p path qargs fragment
          = ⟨{ p with req := r', waited := true, unsent := p.unsent ++ [(p.conn, s)] }, [Effect.send p.conn s], none⟩) := by
  unfold transmitRedirect
  simp only []
  split
  · left; exact ⟨_, rfl⟩
  · rename_i r' s h
    right; exact ⟨r', s, h, rfl⟩

theorem transmitRequest_cases (S : Std) (p : Patron) (q : Request) :
    (∃ e, transmitRequest S p q = ⟨p, [], some e⟩) ∨
    (∃ r' s, build S { p.req with method := asciiUpper q.method, path := q.path, qargs := q.qargs, body := q.body }
        = .ok (r', s)
      ∧ transmitRequest S p q
        = ⟨{ p with req := r', waited := true, respMethod := r'.method, unsent := p.unsent ++ [(p.conn, s)] },
           [Effect.send p.conn s], none⟩) := by
  unfold transmitRequest
  simp only []
  split
  · left; exact ⟨_, rfl⟩
  · rename_i r' s h
    right; exact ⟨r', s, h, rfl⟩

/-! ## `drain` touches only the transmit queue -/

@[simp] theorem drain_es (o : Out) : (drain o).es = o.es := rfl
@[simp] theorem drain_err (o : Out) : (drain o).err = o.err := rfl
@[simp] theorem drain_conn (o : Out) : (drain o).p.conn = o.p.conn := rfl
@[simp] theorem drain_req (o : Out) : (drain o).p.req = o.p.req := rfl
@[simp] theorem drain_redirects (o : Out) : (drain o).p.redirects = o.p.redirects := rfl
@[simp] theorem drain_responses (o : Out) : (drain o).p.responses = o.p.responses := rfl
@[simp] theorem drain_waited (o : Out) : (drain o).p.waited = o.p.waited := rfl
@[simp] theorem drain_redirectable (o : Out) : (drain o).p.redirectable = o.p.redirectable := rfl
@[simp] theorem drain_queue (o : Out) : (drain o).p.queue = o.p.queue := rfl
@[simp] theorem drain_respMethod (o : Out) : (drain o).p.respMethod = o.p.respMethod := rfl
@[simp] theorem drain_unsent (o : Out) : (drain o).p.unsent = [] := rfl

/-! ## `parseLocation` -/

theorem schemeOf_cases (s : Str) : schemeOf s = sHttps ∨ schemeOf s = sHttp := by
  unfold schemeOf; split
  · left; rfl
  · right; rfl

theorem targetOfSplit_scheme {sp : Split} {t : Target} (h : targetOfSplit sp = .ok t) :
    t.secured = decide (t.scheme = sHttps) ∧ (t.scheme = sHttps ∨ t.scheme = sHttp) := by
  unfold targetOfSplit at h
  split at h
  · cases h
  · split at h
    · cases h
    · split at h
      · cases h
      · simp only [Except.ok.injEq] at h
        subst h
        exact ⟨rfl, schemeOf_cases _⟩

theorem parseLocation_scheme {S : Std} {r : Requester} {loc : Option Str} {t : Target}
    (h : parseLocation S r loc = .ok t) :
    t.secured = decide (t.scheme = sHttps) ∧ (t.scheme = sHttps ∨ t.scheme = sHttp) := by
  unfold parseLocation at h
  split at h
  · cases h
  · split at h
    · cases h
    · split at h
      · cases h
      · exact targetOfSplit_scheme h

/-- what a successfully parsed Location went through -/
theorem parseLocation_ok {S : Std} {r : Requester} {loc : Option Str} {t : Target}
    (h : parseLocation S r loc = .ok t) :
    ∃ l u, loc = some l ∧ l ≠ [] ∧ S.urljoin (baseUrl r) (locText S l) = some u ∧ targetOfSplit (S.urlsplit u) = .ok t := by
  unfold parseLocation at h
  split at h
  · cases h
  · rename_i l
    split at h
    · cases h
    · rename_i hne
      split at h
      · cases h
      · rename_i u hu
        exact ⟨l, u, rfl, by intro hl; subst hl; exact hne rfl, hu, h⟩

theorem sHttp_ne_sHttps : sHttp ≠ sHttps := by decide

/-! ## `httping.InvalidURL` is raised before `redirect` does anything (fix D32a) -/

theorem build_err {S : Std} {r : Requester} {e : Err} (h : build S r = .error e) : e ≠ .invalidURL := by
  unfold build at h
  simp only [] at h
  split at h
  · cases h; intro hc; cases hc
  · split at h
    · cases h; intro hc; cases hc
    · split at h
      · cases h; intro hc; cases hc
      · split at h
        · cases h; intro hc; cases hc
        · split at h
          · cases h; intro hc; cases hc
          · cases h

theorem transmitRedirect_err (S : Std) (p : Patron) (path : Str) (qargs : List (Str × Str)) (fragment : Str) :
    (transmitRedirect S p path qargs fragment).err ≠ some .invalidURL := by
  unfold transmitRedirect
  simp only []
  split
  · rename_i e h
    intro hc
    simp only [Option.some.injEq] at hc
    exact build_err h hc
  · intro hc; cases hc

theorem follow_err (S : Std) (p : Patron) (t : Target) (ip : Str) : (follow S p t ip).err ≠ some .invalidURL := by
  unfold follow
  simp only []
  split
  · split
    · intro hc; cases hc
    · exact transmitRedirect_err S _ _ _ _
  · exact transmitRedirect_err S _ _ _ _

theorem build_err_gai {S : Std} {r : Requester} {e : Err} (h : build S r = .error e) : e ≠ .gaiError := by
  unfold build at h
  simp only [] at h
  split at h
  · cases h; intro hc; cases hc
  · split at h
    · cases h; intro hc; cases hc
    · split at h
      · cases h; intro hc; cases hc
      · split at h
        · cases h; intro hc; cases hc
        · split at h
          · cases h; intro hc; cases hc
          · cases h

theorem follow_err_gai (S : Std) (p : Patron) (t : Target) (ip : Str) : (follow S p t ip).err ≠ some .gaiError := by
  have htr : ∀ (p : Patron) (path : Str) (qargs : List (Str × Str)) (fragment : Str),
      (transmitRedirect S p path qargs fragment).err ≠ some .gaiError := by
    intro p path qargs fragment
    unfold transmitRedirect
    simp only []
    split
    · rename_i e h
      intro hc
      simp only [Option.some.injEq] at hc
      exact build_err_gai h hc
    · intro hc; cases hc
  unfold follow
  simp only []
  split
  · split
    · intro hc; cases hc
    · exact htr _ _ _ _
  · exact htr _ _ _ _

theorem pyInt_ne_gai (s : Str) : pyInt s ≠ .error .gaiError := by
  unfold pyInt
  simp only []
  repeat' split
  all_goals (intro h; cases h)

theorem pyInt_err_gai {s : Str} {e : Err} (h : pyInt s = .error e) : e ≠ .gaiError := by
  intro hc; subst hc; exact pyInt_ne_gai s h

theorem normalizeHostPort_err_gai {host : Option Str} {port : Option Int} {d : Int} {e : Err}
    (h : normalizeHostPort host port d = .error e) : e ≠ .gaiError := by
  unfold normalizeHostPort at h
  split at h
  · cases h; intro hc; cases hc
  · simp only [] at h
    split at h
    · split at h
      · cases h
      · split at h
        · cases h
        · rename_i e' he
          simp only [Except.error.injEq] at h
          subst h
          exact pyInt_err_gai he
    · cases h

theorem parseLocation_err_gai {S : Std} {r : Requester} {loc : Option Str} {e : Err}
    (h : parseLocation S r loc = .error e) : e ≠ .gaiError := by
  unfold parseLocation at h
  split at h
  · cases h; intro hc; cases hc
  · split at h
    · cases h; intro hc; cases hc
    · split at h
      · cases h; intro hc; cases hc
      · unfold targetOfSplit at h
        split at h
        · cases h; intro hc; cases hc
        · split at h
          · cases h; intro hc; cases hc
          · split at h
            · rename_i e' he
              simp only [Except.error.injEq] at h
              subst h
              exact normalizeHostPort_err_gai he
            · cases h

/-- `redirect` raises `InvalidURL` only while it is still looking at the Location: nothing was closed, opened or
sent and the client state is untouched -/
theorem redirect_invalid {S : Std} {p : Patron} (h : (redirect S p).err = some .invalidURL) :
    redirect S p = ⟨p, [], some .invalidURL⟩ := by
  unfold redirect at h ⊢
  split
  · rename_i hl; rw [hl] at h; cases h
  · rename_i last hl
    rw [hl] at h
    simp only [] at h ⊢
    split
    · rename_i e hp
      rw [hp] at h
      simp only [Option.some.injEq] at h
      rw [h]
    · rename_i t hp
      rw [hp] at h
      simp only [] at h
      split
      · rfl
      · rename_i ip hr
        rw [hr] at h
        exact absurd h (follow_err S p t ip)

end Ioflo.Redirect
