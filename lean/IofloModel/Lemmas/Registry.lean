import IofloModel.Model.Registry
/-!
Helper lemmas for `Model/Registry.lean` (property C47): the automatic-name loop, association
lists, the well-formedness invariant of the registry heap.
-/
namespace Ioflo.Registry

/-! ### the `while name in Names` loop -/

/-- length of the longest key -/
def maxLen (keys : List Str) : Nat := (keys.map List.length).foldr max 0

theorem length_le_maxLen {keys : List Str} {k : Str} (h : k ∈ keys) : k.length ≤ maxLen keys := by
  induction keys with
  | nil => simp at h
  | cons a as ih =>
    simp only [maxLen, List.map_cons, List.foldr_cons]
    rcases List.mem_cons.mp h with h1 | h1
    · subst h1; exact Nat.le_max_left _ _
    · exact Nat.le_trans (ih h1) (Nat.le_max_right _ _)

/-- a name longer than every key is not a key -/
theorem not_mem_of_long {keys : List Str} {k : Str} (h : maxLen keys < k.length) : k ∉ keys :=
  fun hm => Nat.lt_irrefl _ (Nat.lt_of_lt_of_le h (length_le_maxLen hm))

/-- **the loop ends**: with at least `maxLen keys + 1 - |name|` letters in the supply — whatever
they are — it stops on a name that is not a key, that extends the start name by exactly the
letters it consumed, and it consumed at most that many. -/
theorem extend_terminates (keys : List Str) : ∀ (ls : List Char) (name : Str),
    maxLen keys + 1 - name.length ≤ ls.length →
    ∃ used rest, extend keys name ls = some (name ++ used, rest) ∧ ls = used ++ rest ∧
      name ++ used ∉ keys ∧ used.length ≤ maxLen keys + 1 - name.length ∧
      (∀ p, p <+: used → p ≠ used → name ++ p ∈ keys) := by
  intro ls
  induction ls with
  | nil =>
    intro name h
    have hlong : maxLen keys < name.length := by simp at h; omega
    have hn := not_mem_of_long hlong
    refine ⟨[], [], by simp [extend, hn], rfl, by simpa using hn, by simp, ?_⟩
    intro p hp hne
    exact absurd (List.prefix_nil.mp hp) hne
  | cons c ls ih =>
    intro name h
    by_cases hm : name ∈ keys
    · have hlen := length_le_maxLen hm
      have h' : maxLen keys + 1 - (name ++ [c]).length ≤ ls.length := by
        simp only [List.length_append, List.length_cons, List.length_nil] at h ⊢; omega
      obtain ⟨used, rest, he, hl, hnot, hbound, hpre⟩ := ih (name ++ [c]) h'
      refine ⟨c :: used, rest, ?_, ?_, ?_, ?_, ?_⟩
      · simp only [extend, hm, if_true, he]
        simp [List.append_assoc]
      · simp [hl]
      · simpa [List.append_assoc] using hnot
      · simp only [List.length_append, List.length_cons, List.length_nil] at hbound ⊢; omega
      · intro p hp hne
        cases p with
        | nil => simpa using hm
        | cons a p' =>
          rw [List.cons_prefix_cons] at hp
          obtain ⟨rfl, hp'⟩ := hp
          have := hpre p' hp' (by intro e; exact hne (by rw [e]))
          simpa [List.append_assoc] using this
    · refine ⟨[], c :: ls, by simp [extend, hm], rfl, by simpa using hm, by simp, ?_⟩
      intro p hp hne
      exact absurd (List.prefix_nil.mp hp) hne

/-! ### association lists -/

theorem dget_append_some {d : Dict} {k : Str} {v : Nat} (h : dget d k = some v) (e : Str × Nat) :
    dget (d ++ [e]) k = some v := by
  induction d with
  | nil => simp [dget] at h
  | cons a rest ih =>
    obtain ⟨k', v'⟩ := a
    by_cases hk : k' = k
    · simpa [dget, hk] using h
    · simp only [dget, hk, if_false, List.cons_append] at h ⊢
      exact ih h

theorem dget_none_iff {d : Dict} {k : Str} : dget d k = none ↔ k ∉ dkeys d := by
  induction d with
  | nil => simp [dget, dkeys]
  | cons a rest ih =>
    obtain ⟨k', v'⟩ := a
    by_cases hk : k' = k
    · simp [dget, dkeys, hk]
    · have : ¬ k = k' := fun e => hk e.symm
      simp only [dget, hk, if_false, dkeys, List.map_cons, List.mem_cons, this, false_or]
      exact ih

theorem dget_append_new {d : Dict} {k : Str} (h : k ∉ dkeys d) (v : Nat) :
    dget (d ++ [(k, v)]) k = some v := by
  induction d with
  | nil => simp [dget]
  | cons a rest ih =>
    obtain ⟨k', v'⟩ := a
    simp only [dkeys, List.map_cons, List.mem_cons, not_or] at h
    have hk : ¬ k' = k := fun e => h.1 e.symm
    simp only [List.cons_append, dget, hk, if_false]
    exact ih h.2

theorem dget_append_other {d : Dict} {k j : Str} (h : k ≠ j) (v : Nat) :
    dget (d ++ [(k, v)]) j = dget d j := by
  induction d with
  | nil => simp [dget, h]
  | cons a rest ih =>
    obtain ⟨k', v'⟩ := a
    by_cases hk : k' = j
    · simp [dget, hk]
    · simp only [List.cons_append, dget, hk, if_false]
      exact ih

theorem dkeys_append (d : Dict) (k : Str) (v : Nat) : dkeys (d ++ [(k, v)]) = dkeys d ++ [k] := by
  simp [dkeys]

/-! ### getters and setters -/

@[simp] theorem getNames_setCounter (s : St) (c : Nat) (cls cls' : Cls) :
    getNames (setCounter s c cls) cls' = getNames s cls' := by
  cases cls <;> cases cls' <;> rfl

@[simp] theorem heap_setCounter (s : St) (c : Nat) (cls : Cls) : (setCounter s c cls).heap = s.heap := by
  cases cls <;> rfl

@[simp] theorem insts_setCounter (s : St) (c : Nat) (cls : Cls) : (setCounter s c cls).insts = s.insts := by
  cases cls <;> rfl

@[simp] theorem nextDict_setCounter (s : St) (c : Nat) (cls : Cls) :
    (setCounter s c cls).nextDict = s.nextDict := by
  cases cls <;> rfl

@[simp] theorem nextInst_setCounter (s : St) (c : Nat) (cls : Cls) :
    (setCounter s c cls).nextInst = s.nextInst := by
  cases cls <;> rfl

@[simp] theorem houseDicts_setCounter (s : St) (c : Nat) (cls : Cls) :
    (setCounter s c cls).houseDicts = s.houseDicts := by
  cases cls <;> rfl

@[simp] theorem framerDicts_setCounter (s : St) (c : Nat) (cls : Cls) :
    (setCounter s c cls).framerDicts = s.framerDicts := by
  cases cls <;> rfl

@[simp] theorem heap_setNames (s : St) (d : Nat) (cls : Cls) : (setNames s d cls).heap = s.heap := by
  cases cls <;> rfl

@[simp] theorem insts_setNames (s : St) (d : Nat) (cls : Cls) : (setNames s d cls).insts = s.insts := by
  cases cls <;> rfl

@[simp] theorem nextDict_setNames (s : St) (d : Nat) (cls : Cls) :
    (setNames s d cls).nextDict = s.nextDict := by
  cases cls <;> rfl

@[simp] theorem nextInst_setNames (s : St) (d : Nat) (cls : Cls) :
    (setNames s d cls).nextInst = s.nextInst := by
  cases cls <;> rfl

@[simp] theorem houseDicts_setNames (s : St) (d : Nat) (cls : Cls) :
    (setNames s d cls).houseDicts = s.houseDicts := by
  cases cls <;> rfl

@[simp] theorem framerDicts_setNames (s : St) (d : Nat) (cls : Cls) :
    (setNames s d cls).framerDicts = s.framerDicts := by
  cases cls <;> rfl

/-- after `cls.Names = d` every class is bound to `d` or to what it was bound to before -/
theorem getNames_setNames (s : St) (d : Nat) (cls cls' : Cls) :
    getNames (setNames s d cls) cls' = d ∨ getNames (setNames s d cls) cls' = getNames s cls' := by
  cases cls with
  | root r =>
    cases cls' with
    | root r' =>
      simp only [setNames, getNames]
      by_cases h : r' = r <;> simp [h]
    | sub x' =>
      simp only [setNames, getNames]
      cases s.sNames x' with
      | some e => simp
      | none => simp only; by_cases h : x'.parent = r <;> simp [h]
  | sub x =>
    cases cls' with
    | root r' => right; rfl
    | sub x' =>
      simp only [setNames, getNames]
      by_cases h : x' = x
      · simp [h]
      · simp [h]

theorem getNames_setNames_self (s : St) (d : Nat) (cls : Cls) :
    getNames (setNames s d cls) cls = d := by
  cases cls <;> simp [setNames, getNames]

/-! ### the invariant -/

structure WF (s : St) : Prop where
  keysNodup : ∀ d, (dkeys (s.heap d)).Nodup
  instsIn : ∀ i ∈ s.insts, dget (s.heap i.dict) i.name = some i.id
  entryInst : ∀ d n v, dget (s.heap d) n = some v → ∃ c, (⟨v, c, n, d⟩ : Inst) ∈ s.insts
  idsLt : ∀ i ∈ s.insts, i.id < s.nextInst
  boundLt : ∀ cls, getNames s cls < s.nextDict
  emptyBeyond : ∀ d, s.nextDict ≤ d → s.heap d = []
  housesLt : ∀ e ∈ s.houseDicts, e.2.1 < s.nextDict ∧ e.2.2.1 < s.nextDict ∧ e.2.2.2 < s.nextDict
  framersLt : ∀ e ∈ s.framerDicts, e.2 < s.nextDict

theorem wf_init : WF init := by
  refine ⟨by intro d; simp [init, dkeys], by simp [init], by simp [init, dget], by simp [init], ?_,
    by simp [init], by simp [init], by simp [init]⟩
  intro cls
  cases cls with
  | root r => cases r <;> simp [init, getNames]
  | sub x => cases x <;> simp [init, getNames, Sub.parent]

theorem wf_setCounter {s : St} (h : WF s) (c : Nat) (cls : Cls) : WF (setCounter s c cls) := by
  refine ⟨?_, ?_, ?_, ?_, ?_, ?_, ?_, ?_⟩
  · simpa using h.keysNodup
  · simpa using h.instsIn
  · simpa using h.entryInst
  · simpa using h.idsLt
  · simpa using h.boundLt
  · simpa using h.emptyBeyond
  · simpa using h.housesLt
  · simpa using h.framersLt

theorem wf_setNames {s : St} (h : WF s) {d : Nat} (hd : d < s.nextDict) (cls : Cls) :
    WF (setNames s d cls) := by
  refine ⟨?_, ?_, ?_, ?_, ?_, ?_, ?_, ?_⟩
  · simpa using h.keysNodup
  · simpa using h.instsIn
  · simpa using h.entryInst
  · simpa using h.idsLt
  · intro cls'
    simp only [nextDict_setNames]
    rcases getNames_setNames s d cls cls' with e | e
    · rw [e]; exact hd
    · rw [e]; exact h.boundLt cls'
  · simpa using h.emptyBeyond
  · simpa using h.housesLt
  · simpa using h.framersLt

/-- allocating `k` more dict ids -/
theorem wf_alloc {s : St} (h : WF s) (k : Nat) : WF { s with nextDict := s.nextDict + k } := by
  refine ⟨h.keysNodup, h.instsIn, h.entryInst, h.idsLt, ?_, ?_, ?_, ?_⟩
  · intro cls
    have := h.boundLt cls
    have e : getNames { s with nextDict := s.nextDict + k } cls = getNames s cls := by
      cases cls <;> rfl
    rw [e]; simp only; omega
  · intro d hd; exact h.emptyBeyond d (by simp only at hd; omega)
  · intro e he
    have := h.housesLt e he
    simp only; omega
  · intro e he
    have := h.framersLt e he
    simp only; omega

theorem wf_register {s : St} (h : WF s) (cls : Cls) {d : Nat} {name : Str}
    (hn : name ∉ dkeys (s.heap d)) (hd : d < s.nextDict) : WF (register s cls d name).1 := by
  have hgn : ∀ c, getNames (register s cls d name).1 c = getNames s c := by
    intro c; cases c <;> rfl
  refine ⟨?_, ?_, ?_, ?_, ?_, ?_, ?_, ?_⟩
  · intro d'
    simp only [register, setHeap]
    by_cases e : d' = d
    · subst e
      simp only [if_true, dkeys_append]
      rw [List.nodup_append]
      refine ⟨h.keysNodup d', by simp, ?_⟩
      intro a ha b hb
      simp only [List.mem_singleton] at hb
      subst hb
      intro e; subst e; exact hn ha
    · simp only [e, if_false]; exact h.keysNodup d'
  · intro i hi
    simp only [register, setHeap, List.mem_append, List.mem_singleton] at hi ⊢
    rcases hi with hi | hi
    · have := h.instsIn i hi
      by_cases e : i.dict = d
      · simp only [e, if_true]
        rw [e] at this
        exact dget_append_some this _
      · simp only [e, if_false]; exact this
    · subst hi
      simp only [if_true]
      exact dget_append_new hn _
  · intro d' n v hv
    simp only [register, setHeap, List.mem_append, List.mem_singleton] at hv ⊢
    by_cases e : d' = d
    · subst e
      simp only [if_true] at hv
      by_cases en : name = n
      · subst en
        rw [dget_append_new hn] at hv
        simp only [Option.some.injEq] at hv
        subst hv
        exact ⟨cls, Or.inr rfl⟩
      · rw [dget_append_other en] at hv
        obtain ⟨c, hc⟩ := h.entryInst d' n v hv
        exact ⟨c, Or.inl hc⟩
    · simp only [e, if_false] at hv
      obtain ⟨c, hc⟩ := h.entryInst d' n v hv
      exact ⟨c, Or.inl hc⟩
  · intro i hi
    simp only [register, List.mem_append, List.mem_singleton] at hi ⊢
    rcases hi with hi | hi
    · have := h.idsLt i hi; omega
    · subst hi; simp
  · intro c; rw [hgn c]; exact h.boundLt c
  · intro d' hd'
    simp only [register, setHeap] at hd' ⊢
    have : d' ≠ d := by omega
    simp only [this, if_false]
    exact h.emptyBeyond d' hd'
  · exact h.housesLt
  · exact h.framersLt

theorem wf_registrarInit {s : St} (h : WF s) (cls : Cls) (name : Str) (letters : List Char) :
    WF (registrarInit s cls name letters).1 := by
  have h1 := wf_setCounter h (getCounter s cls + 1) cls
  have hd : getNames (setCounter s (getCounter s cls + 1) cls) cls <
      (setCounter s (getCounter s cls + 1) cls).nextDict := h1.boundLt cls
  unfold registrarInit
  simp only
  split
  · split
    · exact h1
    · next nm rest he =>
      apply wf_register h1 cls _ hd
      -- the loop's result is not a key
      have : ∀ (ls : List Char) (start : Str) (nm : Str) (rest : List Char) (keys : List Str),
          extend keys start ls = some (nm, rest) → nm ∉ keys := by
        intro ls
        induction ls with
        | nil =>
          intro start nm rest keys hx
          simp only [extend] at hx
          split at hx
          · simp at hx
          · simp only [Option.some.injEq, Prod.mk.injEq] at hx; rw [← hx.1]; assumption
        | cons c ls ih =>
          intro start nm rest keys hx
          simp only [extend] at hx
          split at hx
          · exact ih _ _ _ _ hx
          · simp only [Option.some.injEq, Prod.mk.injEq] at hx; rw [← hx.1]; assumption
      exact this _ _ _ _ _ he
  · split
    · exact h1
    · next hn => exact wf_register h1 cls hn hd

theorem wf_clear {s : St} (h : WF s) (cls : Cls) : WF (clear s cls) := by
  unfold clear
  apply wf_setCounter
  apply wf_setNames (wf_alloc h 1)
  simp

theorem nextDict_registrarInit (s : St) (cls : Cls) (name : Str) (letters : List Char) :
    (registrarInit s cls name letters).1.nextDict = s.nextDict := by
  unfold registrarInit
  simp only
  split
  · split <;> simp [register, setHeap]
  · split <;> simp [register, setHeap]

theorem houseDicts_registrarInit (s : St) (cls : Cls) (name : Str) (letters : List Char) :
    (registrarInit s cls name letters).1.houseDicts = s.houseDicts := by
  unfold registrarInit
  simp only
  split
  · split <;> simp [register, setHeap]
  · split <;> simp [register, setHeap]

theorem framerDicts_registrarInit (s : St) (cls : Cls) (name : Str) (letters : List Char) :
    (registrarInit s cls name letters).1.framerDicts = s.framerDicts := by
  unfold registrarInit
  simp only
  split
  · split <;> simp [register, setHeap]
  · split <;> simp [register, setHeap]

theorem wf_addHouse {s : St} (h : WF s) (i : Nat) : WF (allocHouse s i) := by
  unfold allocHouse
  have h3 := wf_alloc h 3
  refine ⟨h3.keysNodup, h3.instsIn, h3.entryInst, h3.idsLt, ?_, h3.emptyBeyond, ?_, h3.framersLt⟩
  · intro cls
    have := h3.boundLt cls
    have e : ∀ (a : List (Nat × Nat × Nat × Nat)),
        getNames { s with nextDict := s.nextDict + 3, houseDicts := a } cls =
        getNames { s with nextDict := s.nextDict + 3 } cls := by intro a; cases cls <;> rfl
    rw [e]; exact this
  · intro e he
    simp only [List.mem_append, List.mem_singleton] at he
    rcases he with he | he
    · exact h3.housesLt e he
    · subst he; simp only; omega

theorem wf_addFramer {s : St} (h : WF s) (i : Nat) : WF (allocFramer s i) := by
  unfold allocFramer
  have h1 := wf_alloc h 1
  refine ⟨h1.keysNodup, h1.instsIn, h1.entryInst, h1.idsLt, ?_, h1.emptyBeyond, h1.housesLt, ?_⟩
  · intro cls
    have := h1.boundLt cls
    have e : ∀ (a : List (Nat × Nat)),
        getNames { s with nextDict := s.nextDict + 1, framerDicts := a } cls =
        getNames { s with nextDict := s.nextDict + 1 } cls := by intro a; cases cls <;> rfl
    rw [e]; exact this
  · intro e he
    simp only [List.mem_append, List.mem_singleton] at he
    rcases he with he | he
    · exact h1.framersLt e he
    · subst he; simp only; omega

/-! ### instance labels -/

/-- instance labels are never reused -/
def IdsOk (s : St) : Prop := (s.insts.map Inst.id).Nodup ∧ ∀ i ∈ s.insts, i.id < s.nextInst

theorem idsOk_register {s : St} (h : IdsOk s) (cls : Cls) (d : Nat) (name : Str) :
    IdsOk (register s cls d name).1 := by
  obtain ⟨h1, h2⟩ := h
  constructor
  · simp only [register, List.map_append, List.map_cons, List.map_nil]
    rw [List.nodup_append]
    refine ⟨h1, by simp, ?_⟩
    intro a ha b hb
    simp only [List.mem_singleton] at hb
    subst hb
    obtain ⟨i, hi, rfl⟩ := List.mem_map.mp ha
    exact Nat.ne_of_lt (h2 i hi)
  · intro i hi
    simp only [register, List.mem_append, List.mem_singleton] at hi ⊢
    rcases hi with hi | hi
    · have := h2 i hi; omega
    · subst hi; simp

theorem idsOk_of_same {s s' : St} (h : IdsOk s) (e1 : s'.insts = s.insts) (e2 : s'.nextInst = s.nextInst) :
    IdsOk s' := by
  unfold IdsOk; rw [e1, e2]; exact h

theorem idsOk_registrarInit {s : St} (h : IdsOk s) (cls : Cls) (name : Str) (letters : List Char) :
    IdsOk (registrarInit s cls name letters).1 := by
  have h1 : IdsOk (setCounter s (getCounter s cls + 1) cls) := idsOk_of_same h (by simp) (by simp)
  unfold registrarInit
  simp only
  split
  · split
    · exact h1
    · exact idsOk_register h1 _ _ _
  · split
    · exact h1
    · exact idsOk_register h1 _ _ _

theorem eq_of_nodup_map_id {l : List Inst} (h : (l.map Inst.id).Nodup) {a b : Inst}
    (ha : a ∈ l) (hb : b ∈ l) (e : a.id = b.id) : a = b := by
  induction l with
  | nil => simp at ha
  | cons x xs ih =>
    simp only [List.map_cons, List.nodup_cons, List.mem_map, not_exists, not_and] at h
    rcases List.mem_cons.mp ha with ha1 | ha1 <;> rcases List.mem_cons.mp hb with hb1 | hb1
    · rw [ha1, hb1]
    · rw [ha1] at e; exact absurd e.symm (h.1 b hb1)
    · rw [hb1] at e; exact absurd e (h.1 a ha1)
    · exact ih h.2 ha1 hb1

/-! ### removal -/

theorem dget_derase_ne (d : Dict) {k j : Str} (h : k ≠ j) : dget (derase d k) j = dget d j := by
  induction d with
  | nil => rfl
  | cons e rest ih =>
    obtain ⟨k', v⟩ := e
    by_cases hk : k' = k
    · subst hk; simp [derase, dget, h]
    · by_cases hj : k' = j
      · subst hj; simp [derase, dget, hk]
      · simp [derase, dget, hk, hj, ih]

theorem dkeys_derase_sublist (d : Dict) (k : Str) : (dkeys (derase d k)).Sublist (dkeys d) := by
  induction d with
  | nil => exact List.Sublist.refl _
  | cons e rest ih =>
    obtain ⟨k', v⟩ := e
    by_cases hk : k' = k
    · simp [derase, dkeys, hk]
    · simp only [derase, hk, if_false, dkeys, List.map_cons]
      exact List.Sublist.cons_cons _ ih

theorem dget_derase_self {d : Dict} (hn : (dkeys d).Nodup) (k : Str) : dget (derase d k) k = none := by
  induction d with
  | nil => rfl
  | cons e rest ih =>
    obtain ⟨k', v⟩ := e
    simp only [dkeys, List.map_cons, List.nodup_cons] at hn
    by_cases hk : k' = k
    · subst hk
      simp only [derase, if_true]
      exact dget_none_iff.mpr hn.1
    · simp [derase, dget, hk, ih hn.2]

theorem findInst_some {l : List Inst} {i : Nat} {r : Inst} (h : findInst l i = some r) :
    r ∈ l ∧ r.id = i := by
  induction l with
  | nil => simp [findInst] at h
  | cons x xs ih =>
    simp only [findInst] at h
    split at h
    · next e => simp only [Option.some.injEq] at h; subst h; exact ⟨List.mem_cons_self .., e⟩
    · exact ⟨List.mem_cons_of_mem _ (ih h).1, (ih h).2⟩

theorem getNames_unregister (s : St) (i : Nat) (c : Cls) : getNames (unregister s i) c = getNames s c := by
  unfold unregister
  split
  · rfl
  · dsimp only
    split
    · cases c <;> rfl
    · rfl

theorem idsOk_unregister {s : St} (h : IdsOk s) (i : Nat) : IdsOk (unregister s i) := by
  unfold unregister
  split
  · exact h
  · dsimp only
    split
    · constructor
      · exact List.Nodup.sublist (List.Sublist.map _ List.filter_sublist) h.1
      · intro j hj
        exact h.2 j (List.mem_filter.mp hj).1
    · exact h

theorem wf_unregister {s : St} (h : WF s) (hi : IdsOk s) (i : Nat) : WF (unregister s i) := by
  unfold unregister
  split
  · exact h
  · next r hf =>
    dsimp only
    split
    · next hc =>
      have hr := findInst_some hf
      have hd : getNames s (.sub .framer) < s.nextDict := h.boundLt _
      generalize hdd : getNames s (.sub .framer) = d at hc hd
      obtain ⟨c0, hrec⟩ := h.entryInst d r.name i hc
      refine ⟨?_, ?_, ?_, ?_, ?_, ?_, h.housesLt, h.framersLt⟩
      · intro d'
        simp only [setHeap]
        by_cases e : d' = d
        · subst e; simp only [if_true]
          exact List.Nodup.sublist (dkeys_derase_sublist _ _) (h.keysNodup d')
        · simp only [e, if_false]; exact h.keysNodup d'
      · intro j hj
        have hj' := List.mem_filter.mp hj
        have hne : j.id ≠ i := by simpa using hj'.2
        have hin := h.instsIn j hj'.1
        simp only [setHeap]
        by_cases e : j.dict = d
        · simp only [e, if_true]
          by_cases en : r.name = j.name
          · rw [e, ← en, hc] at hin
            exact absurd (Option.some.inj hin).symm hne
          · rw [dget_derase_ne _ en]; rw [e] at hin; exact hin
        · simp only [e, if_false]; exact hin
      · intro d' n v hv
        simp only [setHeap] at hv
        have key : ∀ c, (⟨v, c, n, d'⟩ : Inst) ∈ s.insts → v ≠ i →
            (⟨v, c, n, d'⟩ : Inst) ∈ s.insts.filter (fun x => x.id != i) := by
          intro c hm hne
          exact List.mem_filter.mpr ⟨hm, by simpa using hne⟩
        by_cases e : d' = d
        · subst e
          simp only [if_true] at hv
          have hnn : r.name ≠ n := by
            intro en; subst en
            rw [dget_derase_self (h.keysNodup d')] at hv; simp at hv
          rw [dget_derase_ne _ hnn] at hv
          obtain ⟨c, hm⟩ := h.entryInst d' n v hv
          refine ⟨c, key c hm ?_⟩
          intro ev; subst ev
          have := eq_of_nodup_map_id hi.1 hm hrec rfl
          simp only [Inst.mk.injEq, true_and] at this
          exact hnn this.2.1.symm
        · simp only [e, if_false] at hv
          obtain ⟨c, hm⟩ := h.entryInst d' n v hv
          refine ⟨c, key c hm ?_⟩
          intro ev; subst ev
          have := eq_of_nodup_map_id hi.1 hm hrec rfl
          simp only [Inst.mk.injEq, true_and] at this
          exact e this.2.2
      · intro j hj
        exact h.idsLt j (List.mem_filter.mp hj).1
      · intro c
        have : getNames { setHeap s d (derase (s.heap d) r.name) with
            insts := s.insts.filter (fun x => x.id != i) } c = getNames s c := by cases c <;> rfl
        rw [this]; exact h.boundLt c
      · intro d' hd'
        simp only [setHeap] at hd' ⊢
        have : d' ≠ d := by omega
        simp only [this, if_false]
        exact h.emptyBeyond d' hd'
    · exact h

theorem idsOk_step {s : St} (h : IdsOk s) (op : Op) : IdsOk (step s op).1 := by
  cases op with
  | new cls name letters =>
    have h1 := idsOk_registrarInit h cls name letters
    simp only [step]
    cases hr : registrarInit s cls name letters with
    | mk s1 r =>
      rw [hr] at h1
      cases r with
      | error e => exact h1
      | ok p =>
        obtain ⟨nm, i⟩ := p
        simp only at h1 ⊢
        split
        · exact idsOk_of_same h1 rfl rfl
        · exact h1
  | newHouse name letters =>
    have h1 := idsOk_registrarInit h (.root .house) name letters
    simp only [step]
    cases hr : registrarInit s (.root .house) name letters with
    | mk s1 r =>
      rw [hr] at h1
      cases r with
      | error e => exact h1
      | ok p =>
        obtain ⟨nm, i⟩ := p
        simp only at h1 ⊢
        have h2 : IdsOk (allocHouse s1 i) := idsOk_of_same h1 rfl rfl
        have h3 := idsOk_registrarInit h2 (.root .store) nm []
        cases hr2 : registrarInit (allocHouse s1 i) (.root .store) nm [] with
        | mk s3 r2 => rw [hr2] at h3; cases r2 <;> exact h3
  | clear cls => exact idsOk_of_same h (by simp [step, clear]) (by simp [step, clear])
  | clearRegistries => exact idsOk_of_same h (by simp [step, clear]) (by simp [step, clear])
  | assignRegistries k =>
    simp only [step]
    split
    · exact h
    · exact idsOk_of_same h (by simp) (by simp)
  | assignFrameRegistry k =>
    simp only [step]
    split
    · exact h
    · exact idsOk_of_same h (by simp) (by simp)
  | prune k =>
    simp only [step]
    split
    · exact h
    · exact idsOk_unregister h _

theorem idsOk_run {s : St} (h : IdsOk s) (ops : List Op) : IdsOk (run s ops) := by
  induction ops generalizing s with
  | nil => exact h
  | cons op ops ih => exact ih (idsOk_step h op)

/-- every operation preserves the invariant -/
theorem wf_step {s : St} (h : WF s) (hi : IdsOk s) (op : Op) : WF (step s op).1 := by
  cases op with
  | new cls name letters =>
    simp only [step]
    have h1 := wf_registrarInit h cls name letters
    cases hr : registrarInit s cls name letters with
    | mk s1 r =>
      rw [hr] at h1
      cases r with
      | error e => exact h1
      | ok p =>
        obtain ⟨nm, i⟩ := p
        simp only at h1 ⊢
        split
        · exact wf_addFramer h1 i
        · exact h1
  | newHouse name letters =>
    simp only [step]
    have h1 := wf_registrarInit h (.root .house) name letters
    cases hr : registrarInit s (.root .house) name letters with
    | mk s1 r =>
      rw [hr] at h1
      cases r with
      | error e => exact h1
      | ok p =>
        obtain ⟨nm, i⟩ := p
        simp only at h1 ⊢
        have h2 := wf_addHouse h1 i
        generalize allocHouse s1 i = s2 at h2 ⊢
        have h3 := wf_registrarInit h2 (.root .store) nm []
        cases hr2 : registrarInit s2 (.root .store) nm [] with
        | mk s3 r2 =>
          rw [hr2] at h3
          cases r2 <;> exact h3
  | clear cls => exact wf_clear h cls
  | clearRegistries => exact wf_clear (wf_clear (wf_clear h (.root .store)) (.root .tasker)) (.root .log)
  | assignRegistries k =>
    simp only [step]
    cases hk : s.houseDicts[k]? with
    | none => exact h
    | some e =>
      obtain ⟨hi, ds, dt, dl⟩ := e
      have hm : (hi, ds, dt, dl) ∈ s.houseDicts := List.mem_of_getElem? hk
      have hlt := h.housesLt _ hm
      simp only at hlt ⊢
      have a1 := wf_setCounter (wf_setNames h hlt.1 (.root .store)) 0 (.root .store)
      have a2 := wf_setCounter (wf_setNames a1 (d := dt) (by simpa using hlt.2.1) (.root .tasker)) 0 (.root .tasker)
      exact wf_setCounter (wf_setNames a2 (d := dl) (by simpa using hlt.2.2) (.root .log)) 0 (.root .log)
  | assignFrameRegistry k =>
    simp only [step]
    cases hk : s.framerDicts[k]? with
    | none => exact h
    | some e =>
      obtain ⟨fi, d⟩ := e
      have hm : (fi, d) ∈ s.framerDicts := List.mem_of_getElem? hk
      have hlt := h.framersLt _ hm
      exact wf_setCounter (wf_setNames h hlt (.root .frame)) 0 (.root .frame)
  | prune k =>
    simp only [step]
    split
    · exact h
    · exact wf_unregister h hi _

theorem wf_run {s : St} (h : WF s) (hi : IdsOk s) (ops : List Op) : WF (run s ops) := by
  induction ops generalizing s with
  | nil => exact h
  | cons op ops ih => exact ih (wf_step h hi op) (idsOk_step hi op)

end Ioflo.Registry
