import IofloModel.Model.Remotes
import IofloModel.Lemmas.Containers
/-! Helper lemmas for C37: re-keying an entry of an ordered dictionary in place, deleting an entry,
the uid search loop. -/
namespace Ioflo.Remotes
open Ioflo.Containers
set_option linter.unusedSectionVars false

section
variable {K : Type} [DecidableEq K]

/-- the object identities held by an index, in iteration order -/
def ids (m : List (K × Nat)) : List Nat := m.map Prod.snd

@[simp] theorem ids_append (a b : List (K × Nat)) : ids (a ++ b) = ids a ++ ids b := by simp [ids]
@[simp] theorem ids_cons (p : K × Nat) (t : List (K × Nat)) : ids (p :: t) = p.2 :: ids t := rfl
@[simp] theorem ids_nil : ids ([] : List (K × Nat)) = [] := rfl

/-- split an ordered dictionary at the entry of a key -/
theorem split_of_dget {m : List (K × Nat)} {k : K} {r : Nat} (h : dget m k = some r) :
    ∃ a b, m = a ++ (k, r) :: b ∧ k ∉ dkeys a := by
  induction m with
  | nil => simp [dget] at h
  | cons p t ih =>
    obtain ⟨x, y⟩ := p
    by_cases e : x = k
    · subst e
      simp [dget] at h; subst h
      exact ⟨[], t, rfl, by simp⟩
    · simp only [dget, e, if_false] at h
      obtain ⟨a, b, rfl, hk⟩ := ih h
      refine ⟨(x, y) :: a, b, rfl, ?_⟩
      simp only [dkeys_cons, List.mem_cons, not_or]
      exact ⟨fun x' => e x'.symm, hk⟩

theorem idxOf_split (a b : List (K × Nat)) (k : K) (r : Nat) (hk : k ∉ dkeys a) :
    ((a ++ (k, r) :: b).map Prod.fst).idxOf k = a.length := by
  induction a with
  | nil => simp
  | cons p t ih =>
    simp only [dkeys_cons, List.mem_cons, not_or] at hk
    have : ¬ p.1 = k := fun e => hk.1 e.symm
    simp only [List.cons_append, List.map_cons, List.length_cons]
    rw [List.idxOf_cons]
    have hb : (p.1 == k) = false := by simpa using this
    rw [hb]
    have := ih hk.2
    simp only [List.map_append, List.map_cons] at this ⊢
    simp only [cond_false, this]

theorem ddel_split (a b : List (K × Nat)) (k : K) (r : Nat) (hk : k ∉ dkeys a) :
    ddel (a ++ (k, r) :: b) k = a ++ b := by
  induction a with
  | nil => simp [ddel]
  | cons p t ih =>
    obtain ⟨x, y⟩ := p
    simp only [dkeys_cons, List.mem_cons, not_or] at hk
    have : ¬ x = k := fun e => hk.1 e.symm
    simp [ddel, this, ih hk.2]

theorem pyInsert_natCast {α : Type} (l : List α) (n : Nat) (x : α) (h : n ≤ l.length) :
    pyInsert l (n : Int) x = l.take n ++ x :: l.drop n := by
  unfold pyInsert
  have h1 : ¬ ((n:Int) < 0) := by omega
  have h2 : ¬ ((n:Int) > (l.length : Int)) := by omega
  simp only [h1, h2, if_false, Int.toNat_natCast]

/-- `index = keys().index(old); del d[old]; d.insert(index, new, r)` replaces the entry in place -/
theorem rekey_split (a b : List (K × Nat)) (old new : K) (r : Nat) (hk : old ∉ dkeys a) :
    rekey (a ++ (old, r) :: b) old new r = a ++ (new, r) :: b := by
  unfold rekey
  rw [idxOf_split a b old r hk, ddel_split a b old r hk]
  rw [Int.ofNat_eq_natCast, pyInsert_natCast _ _ _ (by simp)]
  simp

theorem mem_split_ne {a b : List (K × Nat)} {k : K} {r : Nat} {p : K × Nat}
    (hn : (ids (a ++ (k, r) :: b)).Nodup) (hp : p ∈ a ∨ p ∈ b) : p.2 ≠ r := by
  simp only [ids_append, ids_cons] at hn
  have h1 := List.nodup_append.1 hn
  intro e
  rcases hp with hp | hp
  · exact h1.2.2 p.2 (List.mem_map.2 ⟨p, hp, rfl⟩) r (by simp) e
  · have := (List.nodup_cons.1 h1.2.1).1
    exact this (e ▸ List.mem_map.2 ⟨p, hp, rfl⟩)

/-- deleting the (unique) entry of object `r` removes `r` from the identity sequence -/
theorem ids_ddel (a b : List (K × Nat)) (k : K) (r : Nat) (hk : k ∉ dkeys a)
    (hn : (ids (a ++ (k, r) :: b)).Nodup) :
    ids (ddel (a ++ (k, r) :: b) k) = (ids (a ++ (k, r) :: b)).erase r := by
  rw [ddel_split a b k r hk]
  simp only [ids_append, ids_cons]
  have hr : r ∉ ids a := by
    intro h
    simp only [ids_append, ids_cons] at hn
    exact (List.nodup_append.1 hn).2.2 r h r (by simp) rfl
  rw [List.erase_append, if_neg hr]
  simp

end

/-! ### the uid search loop -/

theorem le_maxUid {l : List Nat} {x : Nat} (h : x ∈ l) : x ≤ maxUid l := by
  unfold maxUid
  have : ∀ (l : List Nat) (acc : Nat), (x ∈ l ∨ x ≤ acc) → x ≤ l.foldl max acc := by
    intro l
    induction l with
    | nil => intro acc h; rcases h with h | h; simp at h; exact h
    | cons a t ih =>
      intro acc h
      simp only [List.foldl_cons]
      apply ih
      rcases h with h | h
      · simp only [List.mem_cons] at h
        rcases h with rfl | h
        · exact .inr (Nat.le_max_right _ _)
        · exact .inl h
      · exact .inr (Nat.le_trans h (Nat.le_max_left _ _))
  exact this l 0 (.inl h)

/-- with enough fuel the loop returns a uid that is not in use, larger than the previous uid -/
theorem findUid_fresh (used : List Nat) : ∀ (f p : Nat), maxUid used ≤ p + f →
    findUid f p used ∉ used ∧ p < findUid f p used
  | 0, p, h => by
    refine ⟨fun hm => ?_, by simp [findUid]⟩
    have := le_maxUid hm
    simp only [findUid] at this; omega
  | f + 1, p, h => by
    simp only [findUid]
    split
    · have := findUid_fresh used f (p + 1) (by omega)
      exact ⟨this.1, by omega⟩
    · rename_i hm; exact ⟨hm, by omega⟩

end Ioflo.Remotes
