import IofloModel.Model.ResolvePath
/-!
Helper lemmas for C13 (`Props/C13.lean`): `Act.resolvePath` on segments commutes with every
segment renaming that respects the keywords.  Core Lean only.
-/
namespace Ioflo.ResolvePath

/-- the segments the code compares against -/
def Keywords : List String := ["", "framer", "frame", "actor", "me", "main"]

/-- a renaming of segments that fixes the keywords and maps nothing else onto one -/
def Resp (f : String → String) : Prop := ∀ k ∈ Keywords, ∀ s, f s = k ↔ s = k

def FrameC.map (f : String → String) (x : FrameC) : FrameC := ⟨f x.name, x.inode.map f⟩
def MainC.map (f : String → String) (m : MainC) : MainC :=
  ⟨m.chain.map (FrameC.map f), f m.framerName, m.framerInode.map f⟩
def Ctx.map (f : String → String) (c : Ctx) : Ctx :=
  { frames := c.frames.map (FrameC.map f), framerName := f c.framerName, framerInode := c.framerInode.map f,
    mains := c.mains.map (MainC.map f), actor := c.actor.map (List.map f) }

section
variable {f : String → String} (hf : Resp f)
include hf

theorem resp_iff (k : String) (hk : k ∈ Keywords) (s : String) : f s = k ↔ s = k := hf k hk s

theorem resp_fix (k : String) (hk : k ∈ Keywords) : f k = k := (hf k hk k).2 rfl

theorem beq_kw (k : String) (hk : k ∈ Keywords) (s : String) : (f s == k) = (s == k) := by
  have := hf k hk s
  by_cases h : s = k
  · have h' : f s = k := this.2 h
    rw [h', h]
  · have h' : ¬ f s = k := fun e => h (this.1 e)
    have e1 : (f s == k) = false := by simpa using h'
    have e2 : (s == k) = false := by simpa using h
    rw [e1, e2]

theorem absOrFramer_map (l : List String) : absOrFramer (l.map f) = absOrFramer l := by
  cases l with
  | nil => rfl
  | cons s t =>
    simp only [List.map_cons, absOrFramer]
    rw [beq_kw hf "" (by simp [Keywords]), beq_kw hf "framer" (by simp [Keywords])]

theorem headMe_map (l : List String) : headMe (l.map f) = headMe l := by
  cases l with
  | nil => rfl
  | cons s t =>
    simp only [List.map_cons, headMe]
    rw [beq_kw hf "me" (by simp [Keywords])]

omit hf in
theorem map_ne_nil (l : List String) : (l.map f ≠ []) ↔ (l ≠ []) := by
  cases l <;> simp

theorem walkMain_map (chain : List FrameC) (fp : List String) :
    walkMain (chain.map (FrameC.map f)) (fp.map f) = (walkMain chain fp).map f := by
  induction chain generalizing fp with
  | nil => rfl
  | cons m rest ih =>
    simp only [List.map_cons, walkMain, absOrFramer_map hf]
    by_cases h1 : absOrFramer fp = true
    · simp [h1]
    · simp only [h1]
      by_cases h2 : m.inode = []
      · simp [FrameC.map, h2, ih]
      · have h2' : (FrameC.map f m).inode ≠ [] := by simpa [FrameC.map] using h2
        simp only [h2, h2', ne_eq, not_false_eq_true, if_true, Bool.false_eq_true, if_false]
        have : (FrameC.map f m).inode ++ fp.map f = (m.inode ++ fp).map f := by simp [FrameC.map]
        rw [this, headMe_map hf]
        by_cases h3 : headMe (m.inode ++ fp) = true
        · simp [h3, List.map_tail]
        · simp only [h3]; exact ih _

theorem walkFramers_map (mains : List MainC) (fp : List String) :
    walkFramers (mains.map (MainC.map f)) (fp.map f) = (walkFramers mains fp).map f := by
  induction mains generalizing fp with
  | nil => rfl
  | cons m rest ih =>
    simp only [List.map_cons, walkFramers, absOrFramer_map hf, headMe_map hf]
    by_cases h1 : absOrFramer fp = true
    · simp [h1]
    · simp only [h1]
      have hin : ((MainC.map f m).framerInode ≠ []) ↔ (m.framerInode ≠ []) := by
        simp [MainC.map]
      by_cases h2 : headMe fp = true
      · simp only [h2, if_true, Bool.false_eq_true, if_false]
        by_cases h3 : m.framerInode = []
        · have : (MainC.map f m).framerInode = [] := by simp [MainC.map, h3]
          simp only [h3, this, ne_eq, not_true_eq_false, if_false]
          rw [← List.map_tail]; exact ih _
        · have h3' : (MainC.map f m).framerInode ≠ [] := hin.2 h3
          simp only [h3, h3', ne_eq, not_false_eq_true, if_true]
          have : (MainC.map f m).framerInode ++ (fp.map f).tail = (m.framerInode ++ fp.tail).map f := by
            simp [MainC.map, List.map_tail]
          rw [this]; exact ih _
      · simp only [h2, Bool.false_eq_true, if_false]
        have hw : walkMain (MainC.map f m).chain (fp.map f) = (walkMain m.chain fp).map f := by
          simpa [MainC.map] using walkMain_map hf m.chain fp
        rw [hw, absOrFramer_map hf]
        by_cases h4 : absOrFramer (walkMain m.chain fp) = true
        · simp [h4]
        · simp only [h4, Bool.false_eq_true, if_false]
          by_cases h3 : m.framerInode = []
          · have : (MainC.map f m).framerInode = [] := by simp [MainC.map, h3]
            simp only [h3, this, ne_eq, not_true_eq_false, if_false]
            exact ih _
          · have h3' : (MainC.map f m).framerInode ≠ [] := hin.2 h3
            simp only [h3, h3', ne_eq, not_false_eq_true, if_true]
            have : (MainC.map f m).framerInode ++ (walkMain m.chain fp).map f
                = (m.framerInode ++ walkMain m.chain fp).map f := by simp [MainC.map]
            rw [this]; exact ih _

theorem walkOver_map (overs : List FrameC) (op : List String) :
    walkOver (overs.map (FrameC.map f)) (op.map f) = (walkOver overs op).map f := by
  induction overs generalizing op with
  | nil =>
    unfold walkOver
    simp only [List.map_nil, absOrFramer_map hf, headMe_map hf]
    by_cases h1 : absOrFramer op = true
    · simp [h1]
    · by_cases h2 : headMe op = true
      · simp [h1, h2, List.map_tail]
      · simp [h1, h2]
  | cons x rest ih =>
    rw [walkOver.eq_def (x :: rest), List.map_cons, walkOver]
    simp only [absOrFramer_map hf, headMe_map hf]
    by_cases h1 : absOrFramer op = true
    · simp [h1]
    · by_cases h2 : headMe op = true
      · simp [h1, h2, List.map_tail]
      · simp only [h1, h2, Bool.false_eq_true, if_false]
        by_cases h3 : x.inode = []
        · have : (FrameC.map f x).inode = [] := by simp [FrameC.map, h3]
          simp only [h3, this, ne_eq, not_true_eq_false, if_false]
          exact ih _
        · have h3' : (FrameC.map f x).inode ≠ [] := by simpa [FrameC.map] using h3
          simp only [h3, h3', ne_eq, not_false_eq_true, if_true]
          have : (FrameC.map f x).inode ++ op.map f = (x.inode ++ op).map f := by simp [FrameC.map]
          rw [this]; exact ih _

theorem framerParts_map (c : Ctx) : framerParts (c.map f) = (framerParts c).map f := by
  unfold framerParts
  have : walkFramers (c.map f).mains (c.map f).framerInode = (walkFramers c.mains c.framerInode).map f := by
    simpa [Ctx.map] using walkFramers_map hf c.mains c.framerInode
  simp only [this, headMe_map hf]
  by_cases h : headMe (walkFramers c.mains c.framerInode) = true
  · simp [h, List.map_tail]
  · simp [h]

theorem overParts_map (c : Ctx) : overParts (c.map f) = (overParts c).map f := by
  unfold overParts
  cases hfr : c.frames with
  | nil => simp [Ctx.map, hfr]
  | cons x overs =>
    have : (c.map f).frames = FrameC.map f x :: overs.map (FrameC.map f) := by simp [Ctx.map, hfr]
    simp only [this]
    simpa [FrameC.map] using walkOver_map hf overs x.inode

theorem head?_kw (k : String) (hk : k ∈ Keywords) (l : List String) :
    ((l.map f).head? = some k) ↔ (l.head? = some k) := by
  cases l with
  | nil => simp
  | cons s t => simp only [List.map_cons, List.head?_cons, Option.some.injEq]; exact hf k hk s

theorem defaultInode_map : defaultInode.map f = defaultInode := by
  simp only [defaultInode, List.map_cons, List.map_nil]
  rw [resp_fix hf "framer" (by simp [Keywords]), resp_fix hf "me" (by simp [Keywords]),
    resp_fix hf "frame" (by simp [Keywords]), resp_fix hf "actor" (by simp [Keywords])]

theorem addInode_map (fp op : List String) (inode : Option (List String)) (parts : List String) :
    addInode (fp.map f) (op.map f) (inode.map (List.map f)) (parts.map f)
      = (addInode fp op inode parts).map f := by
  cases inode with
  | none => rfl
  | some ip =>
    simp only [addInode, Option.map_some, List.map_eq_nil_iff, head?_kw hf "framer" (by simp [Keywords]),
      head?_kw hf "me" (by simp [Keywords])]
    by_cases h1 : parts = [] ∨ ¬ (parts.head? = some "framer" ∨ parts.head? = some "me")
    · simp only [h1, if_true]
      by_cases h2 : ip = [] ∧ op = [] ∧ fp = []
      · simp only [h2, and_self, if_true, List.map_append, defaultInode_map hf]
      · simp only [h2, if_false, List.map_append]
    · simp only [h1, if_false]

theorem addCtx_map (fp op : List String) (q : List String) :
    addCtx (fp.map f) (op.map f) (q.map f) = (addCtx fp op q).map f := by
  unfold addCtx
  simp only [absOrFramer_map hf, headMe_map hf]
  by_cases h1 : absOrFramer q = true
  · simp [h1]
  · simp only [h1, Bool.false_eq_true, if_false]
    by_cases h2 : headMe q = true
    · simp only [h2, if_true]
      rw [← List.map_tail, absOrFramer_map hf]
      by_cases h3 : absOrFramer q.tail = true
      · simp [h3]
      · simp [h3]
    · simp only [h2, Bool.false_eq_true, if_false]
      rw [← List.map_append, absOrFramer_map hf]
      by_cases h3 : absOrFramer (op ++ q) = true
      · simp [h3]
      · simp [h3]

theorem prepend_map (c : Ctx) (inode : Option (List String)) (parts : List String) :
    prepend (c.map f) (inode.map (List.map f)) (parts.map f) = (prepend c inode parts).map f := by
  unfold prepend
  rw [framerParts_map hf, overParts_map hf, addInode_map hf, addCtx_map hf]

theorem substActor_map (c : Ctx) (l : List String) :
    substActor (c.map f) (l.map f) = (substActor c l).map (List.map f) := by
  have hme : f "me" = "me" := resp_fix hf "me" (by simp [Keywords])
  cases l with
  | nil => rfl
  | cons p rest =>
    simp only [List.map_cons, substActor]
    have hp : (f p = "me") ↔ (p = "me") := hf "me" (by simp [Keywords]) p
    by_cases h : p = "me"
    · subst h
      simp only [hme, if_true]
      cases ha : c.actor with
      | none => simp [Ctx.map, ha, Except.map]
      | some a => simp [Ctx.map, ha, Except.map]
    · have h' : ¬ f p = "me" := fun e => h (hp.1 e)
      simp [h, h', Except.map]

theorem substFramerName_map (c : Ctx) (p : String) :
    substFramerName (c.map f) (f p) = (substFramerName c p).map f := by
  unfold substFramerName
  have hme : f "me" = "me" := resp_fix hf "me" (by simp [Keywords])
  have hmain : f "main" = "main" := resp_fix hf "main" (by simp [Keywords])
  have h1 : (f p = "me") ↔ (p = "me") := hf "me" (by simp [Keywords]) p
  have h2 : (f p = "main") ↔ (p = "main") := hf "main" (by simp [Keywords]) p
  by_cases a : p = "me"
  · subst a; simp [hme, Ctx.map, Except.map]
  · have a' : ¬ f p = "me" := fun e => a (h1.1 e)
    by_cases b : p = "main"
    · subst b
      simp only [hmain, if_true]
      have : ¬ ("main" = "me") := by decide
      simp only [this, if_false]
      cases hm : c.mains with
      | nil => simp [Ctx.map, hm, Except.map]
      | cons m t => simp [Ctx.map, hm, MainC.map, Except.map]
    · have b' : ¬ f p = "main" := fun e => b (h2.1 e)
      simp [a, a', b, b', Except.map]

theorem substFrameName_map (c : Ctx) (p : String) :
    substFrameName (c.map f) (f p) = (substFrameName c p).map f := by
  unfold substFrameName
  have hme : f "me" = "me" := resp_fix hf "me" (by simp [Keywords])
  have hmain : f "main" = "main" := resp_fix hf "main" (by simp [Keywords])
  have h1 : (f p = "me") ↔ (p = "me") := hf "me" (by simp [Keywords]) p
  have h2 : (f p = "main") ↔ (p = "main") := hf "main" (by simp [Keywords]) p
  have hempty : f "" = "" := resp_fix hf "" (by simp [Keywords])
  by_cases a : p = "me"
  · subst a
    simp only [hme, if_true, Except.map]
    cases hfr : c.frames with
    | nil => simp [Ctx.map, hfr, hempty]
    | cons x t => simp [Ctx.map, hfr, FrameC.map]
  · have a' : ¬ f p = "me" := fun e => a (h1.1 e)
    by_cases b : p = "main"
    · subst b
      simp only [hmain, if_true]
      have : ¬ ("main" = "me") := by decide
      simp only [this, if_false]
      cases hm : c.mains with
      | nil => simp [Ctx.map, hm, Except.map]
      | cons m t =>
        cases hch : m.chain with
        | nil => simp [Ctx.map, hm, MainC.map, hch, Except.map, hempty]
        | cons x t2 => simp [Ctx.map, hm, MainC.map, hch, FrameC.map, Except.map]
    · have b' : ¬ f p = "main" := fun e => b (h2.1 e)
      simp [a, a', b, b', Except.map]

theorem substFramer_map (c : Ctx) (l : List String) :
    substFramer (c.map f) (l.map f) = (substFramer c l).map (List.map f) := by
  have hframer : f "framer" = "framer" := resp_fix hf "framer" (by simp [Keywords])
  have hframe : f "frame" = "frame" := resp_fix hf "frame" (by simp [Keywords])
  have hactor : f "actor" = "actor" := resp_fix hf "actor" (by simp [Keywords])
  cases l with
  | nil => rfl
  | cons p1 rest =>
    simp only [List.map_cons, substFramer, bind, Except.bind]
    rw [substFramerName_map hf]
    cases h1 : substFramerName c p1 with
    | error e => simp [Except.map]
    | ok n1 =>
      simp only [Except.map]
      cases rest with
      | nil => simp [pure, Except.pure, hframer]
      | cons p2 rest3 =>
        simp only [List.map_cons]
        have i2 : (f p2 = "frame") ↔ (p2 = "frame") := hf "frame" (by simp [Keywords]) p2
        have i2a : (f p2 = "actor") ↔ (p2 = "actor") := hf "actor" (by simp [Keywords]) p2
        by_cases a : p2 = "frame"
        · subst a
          simp only [hframe, if_true]
          cases rest3 with
          | nil => rfl
          | cons p3 rest4 =>
            simp only [List.map_cons, bind, Except.bind]
            rw [substFrameName_map hf]
            cases h3 : substFrameName c p3 with
            | error e => simp [Except.map]
            | ok n3 =>
              simp only [Except.map]
              cases rest4 with
              | nil => simp [pure, Except.pure, hframer, hframe]
              | cons p4 rest5 =>
                simp only [List.map_cons]
                have i4 : (f p4 = "actor") ↔ (p4 = "actor") := hf "actor" (by simp [Keywords]) p4
                by_cases b : p4 = "actor"
                · subst b
                  simp only [hactor, if_true, bind, Except.bind]
                  rw [substActor_map hf]
                  cases h5 : substActor c rest5 with
                  | error e => simp [Except.map]
                  | ok t => simp [Except.map, pure, Except.pure, hframer, hframe, hactor]
                · have b' : ¬ f p4 = "actor" := fun e => b (i4.1 e)
                  simp [b, b', pure, Except.pure, hframer, hframe]
        · have a' : ¬ f p2 = "frame" := fun e => a (i2.1 e)
          simp only [a, a', if_false]
          by_cases b : p2 = "actor"
          · subst b
            simp only [hactor, if_true, bind, Except.bind]
            rw [substActor_map hf]
            cases h5 : substActor c rest3 with
            | error e => simp [Except.map]
            | ok t => simp [Except.map, pure, Except.pure, hframer, hactor]
          · have b' : ¬ f p2 = "actor" := fun e => b (i2a.1 e)
            simp [b, b', pure, Except.pure, hframer]

theorem incompletePath_map (l : List String) : incompletePath (l.map f) = incompletePath l := by
  have b1 := beq_kw hf "framer" (by simp [Keywords])
  have b2 := beq_kw hf "frame" (by simp [Keywords])
  have b3 := beq_kw hf "actor" (by simp [Keywords])
  match l with
  | [] => rfl
  | [p0] => simp [incompletePath, b1]
  | [p0, _] => simp [incompletePath, b1]
  | [p0, _, p2] => simp [incompletePath, b1, b2, b3]
  | [p0, _, _, _] => simp [incompletePath, b1]
  | [p0, _, p2, _, p4] => simp [incompletePath, b1, b2, b3]
  | p0 :: _ :: _ :: _ :: _ :: _ :: _ => simp [incompletePath, b1]

/-- **equivariance of `Act.resolvePath`** under every keyword-respecting renaming of segments -/
theorem resolveParts_map (c : Ctx) (inode : Option (List String)) (parts : List String) :
    resolveParts (c.map f) (inode.map (List.map f)) (parts.map f)
      = (resolveParts c inode parts).map (List.map f) := by
  unfold resolveParts
  have habs : ((parts.map f).head? = some "") ↔ (parts.head? = some "") := head?_kw hf "" (by simp [Keywords]) parts
  have hq : (if (parts.map f).head? = some "" then parts.map f
      else prepend (c.map f) (inode.map (List.map f)) (parts.map f))
      = (if parts.head? = some "" then parts else prepend c inode parts).map f := by
    by_cases h : parts.head? = some ""
    · simp [h, habs.2 h]
    · have h' : ¬ (parts.map f).head? = some "" := fun e => h (habs.1 e)
      simp only [h, h', if_false]
      exact prepend_map hf c inode parts
  simp only [hq]
  generalize (if parts.head? = some "" then parts else prepend c inode parts) = q
  rw [incompletePath_map hf]
  by_cases hinc : incompletePath q = true
  · simp [hinc, Except.map]
  simp only [hinc, Bool.false_eq_true, if_false]
  cases q with
  | nil => rfl
  | cons p0 rest =>
    simp only [List.map_cons]
    have i0 : (f p0 = "framer") ↔ (p0 = "framer") := hf "framer" (by simp [Keywords]) p0
    by_cases a : p0 = "framer"
    · subst a
      have a' : f "framer" = "framer" := resp_fix hf "framer" (by simp [Keywords])
      simp only [a', if_true]
      exact substFramer_map hf c rest
    · have a' : ¬ f p0 = "framer" := fun e => a (i0.1 e)
      simp [a, a', Except.map]

end
/-! ## Builder.parseRelation / parseIndirect under a renaming of the name tokens -/

/-- keywords of the clause grammar -/
def TokKw : List String := Keywords ++ ["of", "root"]

/-- a renaming of tokens that respects the clause grammar: fixes keywords, maps nothing else onto them,
keeps reserved / non-reserved and identifier-ness -/
structure RespTok (f : String → String) : Prop where
  kw : ∀ k ∈ TokKw, ∀ s, f s = k ↔ s = k
  res : ∀ s, f s ∈ reserved ↔ s ∈ reserved
  ident : ∀ s, isIdentPub (f s) = isIdentPub s

theorem RespTok.resp {f : String → String} (h : RespTok f) : Resp f :=
  fun k hk s => h.kw k (by simp [TokKw, hk]) s

def mapPR (f : String → String) (x : List String × List String) : List String × List String :=
  (x.1.map f, x.2.map f)

section
variable {f : String → String} (hf : RespTok f)
include hf

theorem fix_tok (k : String) (hk : k ∈ TokKw) : f k = k := (hf.kw k hk k).2 rfl

theorem optName_map (toks : List String) :
    optName (toks.map f) = (optName toks).map (fun x => (f x.1, x.2.map f)) := by
  have hempty : f "" = "" := fix_tok hf "" (by simp [TokKw, Keywords])
  cases toks with
  | nil => simp [optName, Except.map, hempty]
  | cons n rest =>
    simp only [List.map_cons, optName]
    by_cases h1 : n ∈ reserved
    · have h1' : f n ∈ reserved := (hf.res n).2 h1
      simp [h1, h1', Except.map, hempty]
    · have h1' : ¬ f n ∈ reserved := fun e => h1 ((hf.res n).1 e)
      simp only [h1, h1', if_false, hf.ident]
      by_cases h2 : isIdentPub n = true
      · simp [h2, Except.map]
      · simp [h2, Except.map]

theorem contains_map (k : String) (hk : k ∈ TokKw) (l : List String) :
    (l.map f).contains k = l.contains k := by
  induction l with
  | nil => rfl
  | cons s t ih =>
    simp only [List.map_cons, List.contains_cons, ih]
    have := hf.kw k hk s
    by_cases h : s = k
    · subst h; simp [fix_tok hf s hk]
    · have h' : ¬ f s = k := fun e => h (this.1 e)
      have e1 : (k == f s) = false := by rw [beq_eq_false_iff_ne]; exact fun e => h' e.symm
      have e2 : (k == s) = false := by rw [beq_eq_false_iff_ne]; exact fun e => h e.symm
      rw [e1, e2]

theorem hasInner_map (k : String) (hk : k ∈ TokKw) (l : List String) :
    hasInner k (l.map f) = hasInner k l := by
  cases l with
  | nil => rfl
  | cons s t =>
    simp only [List.map_cons, hasInner]
    rw [← List.map_dropLast, contains_map hf k hk]

theorem parseRelation_map : ∀ (fuel : Nat) (toks : List String) (fn : String),
    parseRelation fuel (toks.map f) (f fn) = (parseRelation fuel toks fn).map (mapPR f) := by
  have hof : f "of" = "of" := fix_tok hf "of" (by simp [TokKw])
  have hroot : f "root" = "root" := fix_tok hf "root" (by simp [TokKw])
  have hme : f "me" = "me" := fix_tok hf "me" (by simp [TokKw, Keywords])
  have hmain : f "main" = "main" := fix_tok hf "main" (by simp [TokKw, Keywords])
  have hframer : f "framer" = "framer" := fix_tok hf "framer" (by simp [TokKw, Keywords])
  have hframe : f "frame" = "frame" := fix_tok hf "frame" (by simp [TokKw, Keywords])
  have hactor : f "actor" = "actor" := fix_tok hf "actor" (by simp [TokKw, Keywords])
  have hempty : f "" = "" := fix_tok hf "" (by simp [TokKw, Keywords])
  have iff_ (k : String) (hk : k ∈ TokKw) (s : String) : (f s = k) ↔ (s = k) := hf.kw k hk s
  intro fuel
  induction fuel with
  | zero => intro toks fn; rfl
  | succ fuel ih =>
    intro toks fn
    cases toks with
    | nil => rfl
    | cons t rest0 =>
      simp only [List.map_cons, parseRelation]
      by_cases h0 : t = "of"
      · subst h0
        simp only [hof, if_true]
        cases rest0 with
        | nil => rfl
        | cons rel rest =>
          simp only [List.map_cons]
          by_cases r1 : rel = "root"
          · subst r1; simp [hroot, Except.map, mapPR]
          · have r1' : ¬ f rel = "root" := fun e => r1 ((iff_ "root" (by simp [TokKw]) rel).1 e)
            simp only [r1, r1', if_false]
            by_cases r2 : rel = "me"
            · subst r2; simp [hme, Except.map, mapPR]
            · have r2' : ¬ f rel = "me" := fun e => r2 ((iff_ "me" (by simp [TokKw, Keywords]) rel).1 e)
              simp only [r2, r2', if_false]
              by_cases r3 : rel = "framer"
              · subst r3
                simp only [hframer, if_true, bind, Except.bind, optName_map hf]
                cases hn : optName rest with
                | error e => simp [Except.map]
                | ok nr =>
                  simp only [Except.map, pure, Except.pure, mapPR]
                  have e1 : (f nr.1 = "") ↔ (nr.1 = "") := iff_ "" (by simp [TokKw, Keywords]) nr.1
                  have e2 : (f fn = "") ↔ (fn = "") := iff_ "" (by simp [TokKw, Keywords]) fn
                  by_cases a : nr.1 = ""
                  · have a' : f nr.1 = "" := e1.2 a
                    by_cases b : fn = ""
                    · have b' : f fn = "" := e2.2 b
                      simp [a, b, hframer, hme, hempty]
                    · have b' : ¬ f fn = "" := fun e => b (e2.1 e)
                      simp [a, b, b', hframer, hempty]
                  · have a' : ¬ f nr.1 = "" := fun e => a (e1.1 e)
                    simp [a, a', hframer]
              · have r3' : ¬ f rel = "framer" := fun e => r3 ((iff_ "framer" (by simp [TokKw, Keywords]) rel).1 e)
                simp only [r3, r3', if_false]
                by_cases r4 : rel = "frame"
                · subst r4
                  simp only [hframe, if_true, bind, Except.bind, optName_map hf]
                  cases hn : optName rest with
                  | error e => simp [Except.map]
                  | ok nr =>
                    simp only [Except.map]
                    have e1 : (f nr.1 = "") ↔ (nr.1 = "") := iff_ "" (by simp [TokKw, Keywords]) nr.1
                    have e3 : (f nr.1 = "main") ↔ (nr.1 = "main") := iff_ "main" (by simp [TokKw, Keywords]) nr.1
                    -- the name and the default framer name commute with f
                    have hname : (if f nr.1 = "" then "me" else f nr.1) = f (if nr.1 = "" then "me" else nr.1) := by
                      by_cases a : nr.1 = ""
                      · simp [a, e1.2 a, hme, hempty]
                      · have a' : ¬ f nr.1 = "" := fun e => a (e1.1 e)
                        simp [a, a']
                    rw [hname]
                    generalize hnm : (if nr.1 = "" then "me" else nr.1) = name
                    have e4 : (f name = "main") ↔ (name = "main") := iff_ "main" (by simp [TokKw, Keywords]) name
                    have hfn : (if f name = "main" then "main" else "") = f (if name = "main" then "main" else "") := by
                      by_cases a : name = "main"
                      · simp [a, hmain]
                      · have a' : ¬ f name = "main" := fun e => a (e4.1 e)
                        simp [a, a', hempty]
                    rw [hfn, ih]
                    cases hr : parseRelation fuel nr.2 (if name = "main" then "main" else "") with
                    | error e => simp [Except.map]
                    | ok fr =>
                      simp only [Except.map, mapPR, List.map_eq_nil_iff, ne_eq,
                        hasInner_map hf "frame" (by simp [TokKw, Keywords]),
                        hasInner_map hf "actor" (by simp [TokKw, Keywords])]
                      by_cases c1 : ¬ fr.1 = [] ∧ (hasInner "frame" fr.1 = true ∨ hasInner "actor" fr.1 = true)
                      · simp [c1]
                      · simp only [c1, if_false]
                        by_cases c2 : fr.1 = []
                        · simp only [c2, not_true_eq_false, if_false, pure, Except.pure]
                          have e5 : (f (if name = "main" then "main" else "") = "") ↔
                              ((if name = "main" then "main" else "") = "") :=
                            iff_ "" (by simp [TokKw, Keywords]) _
                          by_cases a : name = "main"
                          · simp [a, hmain, hframer, hframe]
                          · simp [a, hempty, hme, hframer, hframe]
                        · simp [c2, pure, Except.pure, hframe]
                · have r4' : ¬ f rel = "frame" := fun e => r4 ((iff_ "frame" (by simp [TokKw, Keywords]) rel).1 e)
                  simp only [r4, r4', if_false]
                  by_cases r5 : rel = "actor"
                  · subst r5
                    simp only [hactor, if_true, bind, Except.bind, optName_map hf]
                    cases hn : optName rest with
                    | error e => simp [Except.map]
                    | ok nr =>
                      simp only [Except.map]
                      have e1 : (f nr.1 = "") ↔ (nr.1 = "") := iff_ "" (by simp [TokKw, Keywords]) nr.1
                      have hname : (if f nr.1 = "" then "me" else f nr.1) = f (if nr.1 = "" then "me" else nr.1) := by
                        by_cases a : nr.1 = ""
                        · simp [a, e1.2 a, hme, hempty]
                        · have a' : ¬ f nr.1 = "" := fun e => a (e1.1 e)
                          simp [a, a']
                      rw [hname]
                      generalize hnm : (if nr.1 = "" then "me" else nr.1) = name
                      have := ih nr.2 ""
                      rw [hempty] at this
                      rw [this]
                      cases hr : parseRelation fuel nr.2 "" with
                      | error e => simp [Except.map]
                      | ok fr =>
                        simp only [Except.map, mapPR, List.map_eq_nil_iff, ne_eq,
                          hasInner_map hf "actor" (by simp [TokKw, Keywords])]
                        by_cases c1 : ¬ fr.1 = [] ∧ hasInner "actor" fr.1 = true
                        · simp [c1]
                        · simp only [c1, if_false]
                          by_cases c2 : fr.1 = []
                          · simp [c2, pure, Except.pure, hme, hframer, hframe, hactor]
                          · simp [c2, pure, Except.pure, hactor]
                  · have r5' : ¬ f rel = "actor" := fun e => r5 ((iff_ "actor" (by simp [TokKw, Keywords]) rel).1 e)
                    simp [r5, r5', Except.map]
      · have h0' : ¬ f t = "of" := fun e => h0 ((iff_ "of" (by simp [TokKw]) t).1 e)
        simp [h0, h0', Except.map, mapPR]

theorem joinSegs_map (rel chunks : List String) (b : Bool) (hc : chunks.map f = chunks) :
    parseIndirect.joinSegs (rel.map f) chunks b = (parseIndirect.joinSegs rel chunks b).map f := by
  unfold parseIndirect.joinSegs
  have ht : chunks.tail.map f = chunks.tail := by rw [List.map_tail, hc]
  by_cases h : rel = []
  · simp [h, hc]
  · have h' : ¬ rel.map f = [] := by simpa using h
    cases b <;> simp [h, h', hc, ht]

theorem eq_me_map (rel : List String) : (rel.map f = ["me"]) ↔ (rel = ["me"]) := by
  cases rel with
  | nil => simp
  | cons s t =>
    cases t with
    | nil => simp only [List.map_cons, List.map_nil, List.cons.injEq, and_true]; exact hf.kw "me" (by simp [TokKw, Keywords]) s
    | cons u v => simp

/-- **`Builder.parseIndirect` commutes with a renaming of the name tokens of the clause** (the path
token itself is not touched by the renaming) -/
theorem parseIndirect_map (node : Bool) (path : String) (rest : List String)
    (hp : (path.splitOn ".").map f = path.splitOn ".") :
    parseIndirect node (path :: rest.map f) = (parseIndirect node (path :: rest)).map (mapPR f) := by
  have hempty : f "" = "" := fix_tok hf "" (by simp [TokKw, Keywords])
  have hframer : f "framer" = "framer" := fix_tok hf "framer" (by simp [TokKw, Keywords])
  have hframe : f "frame" = "frame" := fix_tok hf "frame" (by simp [TokKw, Keywords])
  have hme : f "me" = "me" := fix_tok hf "me" (by simp [TokKw, Keywords])
  have hmain : f "main" = "main" := fix_tok hf "main" (by simp [TokKw, Keywords])
  have hrel := parseRelation_map hf (rest.length + 1) rest ""
  rw [hempty] at hrel
  simp only [parseIndirect, List.length_map]
  by_cases h0 : path ∈ reserved
  · simp [h0, Except.map]
  · simp only [h0, if_false]
    by_cases h1 : isDotPath node (path.splitOn ".") = true
    · simp only [h1, if_true, bind, Except.bind, hrel]
      cases hr : parseRelation (rest.length + 1) rest "" with
      | error e => simp [Except.map]
      | ok rr => simp [Except.map, pure, Except.pure, mapPR, joinSegs_map hf _ _ _ hp]
    · simp only [h1, Bool.false_eq_true, if_false]
      by_cases h2 : isRelPath node (path.splitOn ".") = true
      · simp only [h2, if_true, bind, Except.bind, hrel]
        cases hr : parseRelation (rest.length + 1) rest "" with
        | error e => simp [Except.map]
        | ok rr =>
          simp only [Except.map, mapPR, List.map_eq_nil_iff, ne_eq,
            hasInner_map hf "frame" (by simp [TokKw, Keywords]),
            hasInner_map hf "actor" (by simp [TokKw, Keywords]), eq_me_map hf]
          by_cases c1 : rr.1 = []
          · simp only [c1, not_true_eq_false, if_false]
            have fixj : ∀ kws : List String, kws.map f = kws →
                (parseIndirect.joinSegs kws (path.splitOn ".") true).map f
                  = parseIndirect.joinSegs kws (path.splitOn ".") true := by
              intro kws hk
              rw [← joinSegs_map hf kws _ true hp, hk]
            have k1 : (["framer", "me", "frame", "me"] : List String).map f = ["framer", "me", "frame", "me"] := by
              simp [hframer, hme, hframe]
            have k2 : (["framer", "main"] : List String).map f = ["framer", "main"] := by simp [hframer, hmain]
            have k3 : (["framer", "me"] : List String).map f = ["framer", "me"] := by simp [hframer, hme]
            by_cases d1 : (path.splitOn ".").headD "" = "actor"
            · simp only [d1, if_true]
              by_cases d2 : (path.splitOn ".").length < 3
              · simp [d2, Except.map]
              · simp [d2, pure, Except.pure, Except.map, mapPR, fixj _ k1]
            · simp only [d1, if_false]
              by_cases d3 : (path.splitOn ".").headD "" = "frame"
              · simp only [d3, if_true]
                by_cases d2 : (path.splitOn ".").length < 3
                · simp [d2, Except.map]
                · simp only [d2, if_false, List.getD_eq_getElem?_getD]
                  by_cases d4 : (path.splitOn ".")[1]?.getD "" = "main"
                  · simp only [d4, if_true, pure, Except.pure, Except.map, mapPR, fixj _ k2]
                  · simp only [d4, if_false, pure, Except.pure, Except.map, mapPR, fixj _ k3]
              · simp only [d3, if_false, pure, Except.pure, Except.map, mapPR, hp]
          · simp only [c1, not_false_eq_true, if_true]
            split
            · split
              · rfl
              · split
                · rfl
                · simp [pure, Except.pure, joinSegs_map hf _ _ _ hp]
            · simp [pure, Except.pure, joinSegs_map hf _ _ _ hp]
      · simp [h2, Except.map]

end

/-! ## the actor's name enters a resolved path as one run of segments -/

def Ctx.withActor (c : Ctx) (a : List String) : Ctx := { c with actor := some a }

theorem substActor_splice (c : Ctx) (l : List String) :
    (∃ r, ∀ a, substActor (c.withActor a) l = r) ∨
    (∃ suf, ∀ a, substActor (c.withActor a) l = .ok (a ++ suf)) := by
  cases l with
  | nil => exact Or.inl ⟨_, fun _ => rfl⟩
  | cons p rest =>
    by_cases h : p = "me"
    · exact Or.inr ⟨rest, fun a => by simp [substActor, h, Ctx.withActor]⟩
    · exact Or.inl ⟨.ok (p :: rest), fun a => by simp [substActor, h]⟩


end Ioflo.ResolvePath
