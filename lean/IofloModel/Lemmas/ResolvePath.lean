import IofloModel.Model.ResolvePath
/-!
Helper lemmas for C13 (`Props/C13.lean`): `Act.resolvePath` on segments commutes with every
segment renaming that respects the keywords.  Core Lean only.
-/
namespace Ioflo.ResolvePath

/-- the segments the code compares against -/
def Keywords : List String := ["", "framer", "frame", "actor", "me", "main"]

/-- a renaming of segments that fixes the keywords and maps nothing else onto one -/
def Resp (f : String → String) : Prop := ∀ k ∈ Keywords, ∀ s, f s = k ↔ s = k

def FrameC.map (f : String → String) (x : FrameC) : FrameC := ⟨f x.name, x.inode.map f⟩
def MainC.map (f : String → String) (m : MainC) : MainC :=
  ⟨m.chain.map (FrameC.map f), f m.framerName, m.framerInode.map f⟩
def Ctx.map (f : String → String) (c : Ctx) : Ctx :=
  { frames := c.frames.map (FrameC.map f), framerName := f c.framerName, framerInode := c.framerInode.map f,
    mains := c.mains.map (MainC.map f), actor := c.actor.map (List.map f) }

section
variable {f : String → String} (hf : Resp f)
include hf

theorem resp_iff (k : String) (hk : k ∈ Keywords) (s : String) : f s = k ↔ s = k := hf k hk s

theorem resp_fix (k : String) (hk : k ∈ Keywords) : f k = k := (hf k hk k).2 rfl

theorem beq_kw (k : String) (hk : k ∈ Keywords) (s : String) : (f s == k) = (s == k) := by
  have := hf k hk s
  by_cases h : s = k
  · have h' : f s = k := this.2 h
    rw [h', h]
  · have h' : ¬ f s = k := fun e => h (this.1 e)
    have e1 : (f s == k) = false := by simpa using h'
    have e2 : (s == k) = false := by simpa using h
    rw [e1, e2]

theorem absOrFramer_map (l : List String) : absOrFramer (l.map f) = absOrFramer l := by
  cases l with
  | nil => rfl
  | cons s t =>
    simp only [List.map_cons, absOrFramer]
    rw [beq_kw hf "" (by simp [Keywords]), beq_kw hf "framer" (by simp [Keywords])]

theorem headMe_map (l : List String) : headMe (l.map f) = headMe l := by
  cases l with
  | nil => rfl
  | cons s t =>
    simp only [List.map_cons, headMe]
    rw [beq_kw hf "me" (by simp [Keywords])]

omit hf in
theorem map_ne_nil (l : List String) : (l.map f ≠ []) ↔ (l ≠ []) := by
  cases l <;> simp

theorem walkMain_map (chain : List FrameC) (fp : List String) :
    walkMain (chain.map (FrameC.map f)) (fp.map f) = (walkMain chain fp).map f := by
  induction chain generalizing fp with
  | nil => rfl
  | cons m rest ih =>
    simp only [List.map_cons, walkMain, absOrFramer_map hf]
    by_cases h1 : absOrFramer fp = true
    · simp [h1]
    · simp only [h1]
      by_cases h2 : m.inode = []
      · simp [FrameC.map, h2, ih]
      · have h2' : (FrameC.map f m).inode ≠ [] := by simpa [FrameC.map] using h2
        simp only [h2, h2', ne_eq, not_false_eq_true, if_true, Bool.false_eq_true, if_false]
        have : (FrameC.map f m).inode ++ fp.map f = (m.inode ++ fp).map f := by simp [FrameC.map]
        rw [this, headMe_map hf]
        by_cases h3 : headMe (m.inode ++ fp) = true
        · simp [h3, List.map_tail]
        · simp only [h3]; exact ih _

theorem walkFramers_map (mains : List MainC) (fp : List String) :
    walkFramers (mains.map (MainC.map f)) (fp.map f) = (walkFramers mains fp).map f := by
  induction mains generalizing fp with
  | nil => rfl
  | cons m rest ih =>
    simp only [List.map_cons, walkFramers, absOrFramer_map hf, headMe_map hf]
    by_cases h1 : absOrFramer fp = true
    · simp [h1]
    · simp only [h1]
      have hin : ((MainC.map f m).framerInode ≠ []) ↔ (m.framerInode ≠ []) := by
        simp [MainC.map]
      by_cases h2 : headMe fp = true
      · simp only [h2, if_true, Bool.false_eq_true, if_false]
        by_cases h3 : m.framerInode = []
        · have : (MainC.map f m).framerInode = [] := by simp [MainC.map, h3]
          simp only [h3, this, ne_eq, not_true_eq_false, if_false]
          rw [← List.map_tail]; exact ih _
        · have h3' : (MainC.map f m).framerInode ≠ [] := hin.2 h3
          simp only [h3, h3', ne_eq, not_false_eq_true, if_true]
          have : (MainC.map f m).framerInode ++ (fp.map f).tail = (m.framerInode ++ fp.tail).map f := by
            simp [MainC.map, List.map_tail]
          rw [this]; exact ih _
      · simp only [h2, Bool.false_eq_true, if_false]
        have hw : walkMain (MainC.map f m).chain (fp.map f) = (walkMain m.chain fp).map f := by
          simpa [MainC.map] using walkMain_map hf m.chain fp
        rw [hw, absOrFramer_map hf]
        by_cases h4 : absOrFramer (walkMain m.chain fp) = true
        · simp [h4]
        · simp only [h4, Bool.false_eq_true, if_false]
          by_cases h3 : m.framerInode = []
          · have : (MainC.map f m).framerInode = [] := by simp [MainC.map, h3]
            simp only [h3, this, ne_eq, not_true_eq_false, if_false]
            exact ih _
          · have h3' : (MainC.map f m).framerInode ≠ [] := hin.2 h3
            simp only [h3, h3', ne_eq, not_false_eq_true, if_true]
            have : (MainC.map f m).framerInode ++ (walkMain m.chain fp).map f
                = (m.framerInode ++ walkMain m.chain fp).map f := by simp [MainC.map]
            rw [this]; exact ih _

theorem walkOver_map (overs : List FrameC) (op : List String) :
    walkOver (overs.map (FrameC.map f)) (op.map f) = (walkOver overs op).map f := by
  induction overs generalizing op with
  | nil =>
    unfold walkOver
    simp only [List.map_nil, absOrFramer_map hf, headMe_map hf]
    by_cases h1 : absOrFramer op = true
    · simp [h1]
    · by_cases h2 : headMe op = true
      · simp [h1, h2, List.map_tail]
      · simp [h1, h2]
  | cons x rest ih =>
    rw [walkOver.eq_def (x :: rest), List.map_cons, walkOver]
    simp only [absOrFramer_map hf, headMe_map hf]
    by_cases h1 : absOrFramer op = true
    · simp [h1]
    · by_cases h2 : headMe op = true
      · simp [h1, h2, List.map_tail]
      · simp only [h1, h2, Bool.false_eq_true, if_false]
        by_cases h3 : x.inode = []
        · have : (FrameC.map f x).inode = [] := by simp [FrameC.map, h3]
          simp only [h3, this, ne_eq, not_true_eq_false, if_false]
          exact ih _
        · have h3' : (FrameC.map f x).inode ≠ [] := by simpa [FrameC.map] using h3
          simp only [h3, h3', ne_eq, not_false_eq_true, if_true]
          have : (FrameC.map f x).inode ++ op.map f = (x.inode ++ op).map f := by simp [FrameC.map]
          rw [this]; exact ih _

theorem framerParts_map (c : Ctx) : framerParts (c.map f) = (framerParts c).map f := by
  unfold framerParts
  have : walkFramers (c.map f).mains (c.map f).framerInode = (walkFramers c.mains c.framerInode).map f := by
    simpa [Ctx.map] using walkFramers_map hf c.mains c.framerInode
  simp only [this, headMe_map hf]
  by_cases h : headMe (walkFramers c.mains c.framerInode) = true
  · simp [h, List.map_tail]
  · simp [h]

theorem overParts_map (c : Ctx) : overParts (c.map f) = (overParts c).map f := by
  unfold overParts
  cases hfr : c.frames with
  | nil => simp [Ctx.map, hfr]
  | cons x overs =>
    have : (c.map f).frames = FrameC.map f x :: overs.map (FrameC.map f) := by simp [Ctx.map, hfr]
    simp only [this]
    simpa [FrameC.map] using walkOver_map hf overs x.inode

theorem head?_kw (k : String) (hk : k ∈ Keywords) (l : List String) :
    ((l.map f).head? = some k) ↔ (l.head? = some k) := by
  cases l with
  | nil => simp
  | cons s t => simp only [List.map_cons, List.head?_cons, Option.some.injEq]; exact hf k hk s

theorem defaultInode_map : defaultInode.map f = defaultInode := by
  simp only [defaultInode, List.map_cons, List.map_nil]
  rw [resp_fix hf "framer" (by simp [Keywords]), resp_fix hf "me" (by simp [Keywords]),
    resp_fix hf "frame" (by simp [Keywords]), resp_fix hf "actor" (by simp [Keywords])]

theorem addInode_map (fp op : List String) (inode : Option (List String)) (parts : List String) :
    addInode (fp.map f) (op.map f) (inode.map (List.map f)) (parts.map f)
      = (addInode fp op inode parts).map f := by
  cases inode with
  | none => rfl
  | some ip =>
    simp only [addInode, Option.map_some, List.map_eq_nil_iff, head?_kw hf "framer" (by simp [Keywords]),
      head?_kw hf "me" (by simp [Keywords])]
    by_cases h1 : parts = [] ∨ ¬ (parts.head? = some "framer" ∨ parts.head? = some "me")
    · simp only [h1, if_true]
      by_cases h2 : ip = [] ∧ op = [] ∧ fp = []
      · simp only [h2, and_self, if_true, List.map_append, defaultInode_map hf]
      · simp only [h2, if_false, List.map_append]
    · simp only [h1, if_false]

theorem addCtx_map (fp op : List String) (q : List String) :
    addCtx (fp.map f) (op.map f) (q.map f) = (addCtx fp op q).map f := by
  unfold addCtx
  simp only [absOrFramer_map hf, headMe_map hf]
  by_cases h1 : absOrFramer q = true
  · simp [h1]
  · simp only [h1, Bool.false_eq_true, if_false]
    by_cases h2 : headMe q = true
    · simp only [h2, if_true]
      rw [← List.map_tail, absOrFramer_map hf]
      by_cases h3 : absOrFramer q.tail = true
      · simp [h3]
      · simp [h3]
    · simp only [h2, Bool.false_eq_true, if_false]
      rw [← List.map_append, absOrFramer_map hf]
      by_cases h3 : absOrFramer (op ++ q) = true
      · simp [h3]
      · simp [h3]

theorem prepend_map (c : Ctx) (inode : Option (List String)) (parts : List String) :
    prepend (c.map f) (inode.map (List.map f)) (parts.map f) = (prepend c inode parts).map f := by
  unfold prepend
  rw [framerParts_map hf, overParts_map hf, addInode_map hf, addCtx_map hf]

theorem substActor_map (c : Ctx) (l : List String) :
    substActor (c.map f) (l.map f) = (substActor c l).map (List.map f) := by
  have hme : f "me" = "me" := resp_fix hf "me" (by simp [Keywords])
  cases l with
  | nil => rfl
  | cons p rest =>
    simp only [List.map_cons, substActor]
    have hp : (f p = "me") ↔ (p = "me") := hf "me" (by simp [Keywords]) p
    by_cases h : p = "me"
    · subst h
      simp only [hme, if_true]
      cases ha : c.actor with
      | none => simp [Ctx.map, ha, Except.map]
      | some a => simp [Ctx.map, ha, Except.map]
    · have h' : ¬ f p = "me" := fun e => h (hp.1 e)
      simp [h, h', Except.map]

theorem substFramerName_map (c : Ctx) (p : String) :
    substFramerName (c.map f) (f p) = (substFramerName c p).map f := by
  unfold substFramerName
  have hme : f "me" = "me" := resp_fix hf "me" (by simp [Keywords])
  have hmain : f "main" = "main" := resp_fix hf "main" (by simp [Keywords])
  have h1 : (f p = "me") ↔ (p = "me") := hf "me" (by simp [Keywords]) p
  have h2 : (f p = "main") ↔ (p = "main") := hf "main" (by simp [Keywords]) p
  by_cases a : p = "me"
  · subst a; simp [hme, Ctx.map, Except.map]
  · have a' : ¬ f p = "me" := fun e => a (h1.1 e)
    by_cases b : p = "main"
    · subst b
      simp only [hmain, if_true]
      have : ¬ ("main" = "me") := by decide
      simp only [this, if_false]
      cases hm : c.mains with
      | nil => simp [Ctx.map, hm, Except.map]
      | cons m t => simp [Ctx.map, hm, MainC.map, Except.map]
    · have b' : ¬ f p = "main" := fun e => b (h2.1 e)
      simp [a, a', b, b', Except.map]

theorem substFrameName_map (c : Ctx) (p : String) :
    substFrameName (c.map f) (f p) = (substFrameName c p).map f := by
  unfold substFrameName
  have hme : f "me" = "me" := resp_fix hf "me" (by simp [Keywords])
  have hmain : f "main" = "main" := resp_fix hf "main" (by simp [Keywords])
  have h1 : (f p = "me") ↔ (p = "me") := hf "me" (by simp [Keywords]) p
  have h2 : (f p = "main") ↔ (p = "main") := hf "main" (by simp [Keywords]) p
  have hempty : f "" = "" := resp_fix hf "" (by simp [Keywords])
  by_cases a : p = "me"
  · subst a
    simp only [hme, if_true, Except.map]
    cases hfr : c.frames with
    | nil => simp [Ctx.map, hfr, hempty]
    | cons x t => simp [Ctx.map, hfr, FrameC.map]
  · have a' : ¬ f p = "me" := fun e => a (h1.1 e)
    by_cases b : p = "main"
    · subst b
      simp only [hmain, if_true]
      have : ¬ ("main" = "me") := by decide
      simp only [this, if_false]
      cases hm : c.mains with
      | nil => simp [Ctx.map, hm, Except.map]
      | cons m t =>
        cases hch : m.chain with
        | nil => simp [Ctx.map, hm, MainC.map, hch, Except.map, hempty]
        | cons x t2 => simp [Ctx.map, hm, MainC.map, hch, FrameC.map, Except.map]
    · have b' : ¬ f p = "main" := fun e => b (h2.1 e)
      simp [a, a', b, b', Except.map]

theorem substFramer_map (c : Ctx) (l : List String) :
    substFramer (c.map f) (l.map f) = (substFramer c l).map (List.map f) := by
  have hframer : f "framer" = "framer" := resp_fix hf "framer" (by simp [Keywords])
  have hframe : f "frame" = "frame" := resp_fix hf "frame" (by simp [Keywords])
  have hactor : f "actor" = "actor" := resp_fix hf "actor" (by simp [Keywords])
  cases l with
  | nil => rfl
  | cons p1 rest =>
    simp only [List.map_cons, substFramer, bind, Except.bind]
    rw [substFramerName_map hf]
    cases h1 : substFramerName c p1 with
    | error e => simp [Except.map]
    | ok n1 =>
      simp only [Except.map]
      cases rest with
      | nil => simp [pure, Except.pure, hframer]
      | cons p2 rest3 =>
        simp only [List.map_cons]
        have i2 : (f p2 = "frame") ↔ (p2 = "frame") := hf "frame" (by simp [Keywords]) p2
        have i2a : (f p2 = "actor") ↔ (p2 = "actor") := hf "actor" (by simp [Keywords]) p2
        by_cases a : p2 = "frame"
        · subst a
          simp only [hframe, if_true]
          cases rest3 with
          | nil => rfl
          | cons p3 rest4 =>
            simp only [List.map_cons, bind, Except.bind]
            rw [substFrameName_map hf]
            cases h3 : substFrameName c p3 with
            | error e => simp [Except.map]
            | ok n3 =>
              simp only [Except.map]
              cases rest4 with
              | nil => simp [pure, Except.pure, hframer, hframe]
              | cons p4 rest5 =>
                simp only [List.map_cons]
                have i4 : (f p4 = "actor") ↔ (p4 = "actor") := hf "actor" (by simp [Keywords]) p4
                by_cases b : p4 = "actor"
                · subst b
                  simp only [hactor, if_true, bind, Except.bind]
                  rw [substActor_map hf]
                  cases h5 : substActor c rest5 with
                  | error e => simp [Except.map]
                  | ok t => simp [Except.map, pure, Except.pure, hframer, hframe, hactor]
                · have b' : ¬ f p4 = "actor" := fun e => b (i4.1 e)
                  simp [b, b', pure, Except.pure, hframer, hframe]
        · have a' : ¬ f p2 = "frame" := fun e => a (i2.1 e)
          simp only [a, a', if_false]
          by_cases b : p2 = "actor"
          · subst b
            simp only [hactor, if_true, bind, Except.bind]
            rw [substActor_map hf]
            cases h5 : substActor c rest3 with
            | error e => simp [Except.map]
            | ok t => simp [Except.map, pure, Except.pure, hframer, hactor]
          · have b' : ¬ f p2 = "actor" := fun e => b (i2a.1 e)
            simp [b, b', pure, Except.pure, hframer]

/-- **equivariance of `Act.resolvePath`** under every keyword-respecting renaming of segments -/
theorem resolveParts_map (c : Ctx) (inode : Option (List String)) (parts : List String) :
    resolveParts (c.map f) (inode.map (List.map f)) (parts.map f)
      = (resolveParts c inode parts).map (List.map f) := by
  unfold resolveParts
  have habs : ((parts.map f).head? = some "") ↔ (parts.head? = some "") := head?_kw hf "" (by simp [Keywords]) parts
  have hq : (if (parts.map f).head? = some "" then parts.map f
      else prepend (c.map f) (inode.map (List.map f)) (parts.map f))
      = (if parts.head? = some "" then parts else prepend c inode parts).map f := by
    by_cases h : parts.head? = some ""
    · simp [h, habs.2 h]
    · have h' : ¬ (parts.map f).head? = some "" := fun e => h (habs.1 e)
      simp only [h, h', if_false]
      exact prepend_map hf c inode parts
  simp only [hq]
  generalize (if parts.head? = some "" then parts else prepend c inode parts) = q
  cases q with
  | nil => rfl
  | cons p0 rest =>
    simp only [List.map_cons]
    have i0 : (f p0 = "framer") ↔ (p0 = "framer") := hf "framer" (by simp [Keywords]) p0
    by_cases a : p0 = "framer"
    · subst a
      have a' : f "framer" = "framer" := resp_fix hf "framer" (by simp [Keywords])
      simp only [a', if_true]
      exact substFramer_map hf c rest
    · have a' : ¬ f p0 = "framer" := fun e => a (i0.1 e)
      simp [a, a', Except.map]

end
end Ioflo.ResolvePath
