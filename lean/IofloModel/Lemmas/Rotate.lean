import IofloModel.Model.Rotate
/-!
Helper lemmas for C23 (rotation and flushing): the oldest-to-newest view under the primitives,
the per-primitive invariant `P`, the rename chain.
-/
namespace Ioflo.Rotate

/-! ## records -/

theorem recsOf_append (a b : List Line) : recsOf (a ++ b) = recsOf a ++ recsOf b := by
  induction a with
  | nil => rfl
  | cons x r ih => cases x <;> simp [recsOf, ih]

theorem recsOf_recs (rs : List Rec) : recsOf (rs.map Line.rec_) = rs := by
  induction rs with
  | nil => rfl
  | cons r t ih => simp [recsOf, ih]

/-! ## the view -/

theorem vf_congr (s s' : Nat → Option (List Line)) (n : Nat) (h : ∀ i, i < n → s' i = s i) :
    vf s' n = vf s n := by
  induction n with
  | zero => rfl
  | succ n ih =>
    simp only [vf]
    rw [h n (Nat.lt_succ_self n), ih (fun i hi => h i (Nat.lt_succ_of_lt hi))]

/-- slots after `rename j` of an existing file -/
def mv (s : Nat → Option (List Line)) (j : Nat) : Nat → Option (List Line) :=
  fun i => if i = j then none else if i = j + 1 then s j else s i

/-- moving slot `j` into an empty slot `j+1` does not change the view -/
theorem vf_mv_hole (s : Nat → Option (List Line)) (j n : Nat) (hn : j + 2 ≤ n) (hh : s (j + 1) = none) :
    vf (mv s j) n = vf s n := by
  induction n with
  | zero => omega
  | succ n ih =>
    by_cases hj : n = j + 1
    · subst hj
      have hlow : vf (mv s j) j = vf s j := vf_congr _ _ _ (by
        intro i hi; simp only [mv]; rw [if_neg (by omega), if_neg (by omega)])
      simp only [vf, mv, hlow, hh, content]
      simp
    · have hn' : j + 2 ≤ n := by omega
      simp only [vf]
      rw [ih hn']
      congr 2
      simp only [mv]
      rw [if_neg (by omega), if_neg (by omega)]

/-- moving slot `j` onto the oldest slot `j+1` drops what the oldest slot held -/
theorem vf_mv_top (s : Nat → Option (List Line)) (j : Nat) :
    vf s (j + 2) = content (s (j + 1)) ++ vf (mv s j) (j + 2) := by
  have hlow : vf (mv s j) j = vf s j := vf_congr _ _ _ (by
    intro i hi; simp only [mv]; rw [if_neg (by omega), if_neg (by omega)])
  simp only [vf, mv, hlow, content]
  simp

/-- the copies (slots `n … 1`), oldest first -/
def upper (s : Nat → Option (List Line)) : Nat → List Line
  | 0 => []
  | n + 1 => content (s (n + 1)) ++ upper s n

theorem vf_upper (s : Nat → Option (List Line)) (n : Nat) : vf s (n + 1) = upper s n ++ content (s 0) := by
  induction n with
  | zero => simp [vf, upper]
  | succ n ih =>
    have : vf s (n + 2) = content (s (n + 1)) ++ vf s (n + 1) := rfl
    rw [this, ih]
    simp [upper, List.append_assoc]

theorem upper_congr (s s' : Nat → Option (List Line)) (n : Nat) (h : ∀ i, 1 ≤ i → i ≤ n → s' i = s i) :
    upper s' n = upper s n := by
  induction n with
  | zero => rfl
  | succ n ih =>
    simp only [upper]
    rw [h (n + 1) (by omega) (by omega), ih (fun i h1 h2 => h i h1 (by omega))]

theorem vf_content_congr (s s' : Nat → Option (List Line)) (n : Nat)
    (h : ∀ i, i < n → content (s' i) = content (s i)) : vf s' n = vf s n := by
  induction n with
  | zero => rfl
  | succ n ih =>
    simp only [vf]
    rw [h n (Nat.lt_succ_self n), ih (fun i hi => h i (Nat.lt_succ_of_lt hi))]

/-! ## the invariant of every crash point -/

structure P (K : Nat) (b : Bool) (fs : FS) (a : Acct) : Prop where
  /-- the retained files and the buffer hold a suffix of the record stream, and what fell off
  the oldest copy had been flushed -/
  contig : ∃ k, k ≤ a.flushed.length ∧ recsOf (fs.view K) ++ recsOf fs.buf = a.written.drop k
  /-- the buffer holds the records written since the last flush -/
  buf : recsOf fs.buf = a.pend
  closed : fs.isOpen = false → fs.buf = []
  /-- (`b`: when headers are claimed) the main file with the buffer is empty or header + records -/
  shape0 : b = true → Shape (content (fs.slots 0) ++ fs.buf)
  shapes : b = true → ∀ j, 1 ≤ j → Shape (content (fs.slots j))
  /-- the newest file and the buffer hold the records since the last rotation -/
  newest : recsOf (content (fs.slots 0)) ++ recsOf fs.buf = a.since

variable {b : Bool}

theorem Shape_nil : Shape [] := Or.inl rfl

theorem Shape_prefix (a b : List Line) (h : Shape (a ++ b)) : Shape a := by
  rcases h with h | ⟨rs, h⟩
  · left; cases a with
    | nil => rfl
    | cons x r => simp at h
  · cases a with
    | nil => exact Or.inl rfl
    | cons x r =>
      right
      simp only [List.cons_append, List.cons.injEq] at h
      obtain ⟨hx, hr⟩ := h
      subst hx
      -- r ++ b = rs.map rec_  ⇒  r is a map of a prefix
      have : ∀ (r : List Line) (rs : List Rec), r ++ b = rs.map Line.rec_ → ∃ rs' : List Rec, r = rs'.map Line.rec_ := by
        intro r
        induction r with
        | nil => intro rs _; exact ⟨[], rfl⟩
        | cons y t ih =>
          intro rs h
          cases rs with
          | nil => simp at h
          | cons q qs =>
            simp only [List.cons_append, List.map_cons, List.cons.injEq] at h
            obtain ⟨rs', h'⟩ := ih qs h.2
            exact ⟨q :: rs', by simp [h.1, h']⟩
      obtain ⟨rs', h'⟩ := this r rs hr
      exact ⟨rs', by rw [h']⟩

theorem setSlot_same (fs : FS) (k : Nat) (c : Option (List Line)) : (fs.setSlot k c).slots k = c := by
  simp [FS.setSlot]

theorem setSlot_other (fs : FS) (k i : Nat) (c : Option (List Line)) (h : i ≠ k) :
    (fs.setSlot k c).slots i = fs.slots i := by
  simp [FS.setSlot, h]

theorem P_write_recs (K : Nat) (fs : FS) (a : Acct) (rs : List Rec) (h : P K b fs a) (ho : fs.isOpen = true)
    (hh : b = true → ∃ rs0 : List Rec, content (fs.slots 0) ++ fs.buf = .header :: rs0.map Line.rec_) :
    P K b (fs.apply (.write (rs.map Line.rec_))) (a.step (.write (rs.map Line.rec_))) := by
  obtain ⟨k, hk, hc⟩ := h.contig
  refine ⟨⟨k, hk, ?_⟩, ?_, ?_, ?_, h.shapes, ?_⟩
  · show recsOf (vf fs.slots (K + 1)) ++ recsOf (fs.buf ++ rs.map Line.rec_) =
      (a.flushed ++ (a.pend ++ recsOf (rs.map Line.rec_))).drop k
    have hc' : recsOf (vf fs.slots (K + 1)) ++ recsOf fs.buf = (a.flushed ++ a.pend).drop k := hc
    have e : (a.flushed ++ (a.pend ++ recsOf (rs.map Line.rec_))).drop k =
        (a.flushed ++ a.pend).drop k ++ recsOf (rs.map Line.rec_) := by
      rw [← List.append_assoc, List.drop_append_of_le_length (by simp; omega)]
    rw [e, ← hc', recsOf_append, List.append_assoc]
  · show recsOf (fs.buf ++ rs.map Line.rec_) = a.pend ++ recsOf (rs.map Line.rec_)
    rw [recsOf_append, h.buf]
  · intro hcl
    have : fs.isOpen = false := hcl
    rw [ho] at this; cases this
  · intro hb
    obtain ⟨rs0, hrs⟩ := hh hb
    right
    refine ⟨rs0 ++ rs, ?_⟩
    show content (fs.slots 0) ++ (fs.buf ++ rs.map Line.rec_) = _
    rw [← List.append_assoc, hrs]; simp
  · show recsOf (content (fs.slots 0)) ++ recsOf (fs.buf ++ rs.map Line.rec_) =
      a.since ++ recsOf (rs.map Line.rec_)
    rw [recsOf_append, ← List.append_assoc, h.newest]

theorem P_write_header (K : Nat) (fs : FS) (a : Acct) (h : P K b fs a) (ho : fs.isOpen = true)
    (he : content (fs.slots 0) ++ fs.buf = []) :
    P K b (fs.apply (.write [.header])) (a.step (.write [.header])) := by
  have hb : fs.buf = [] := by
    cases hb : fs.buf with
    | nil => rfl
    | cons x r => rw [hb] at he; simp at he
  have ha : a.step (.write [.header]) = a := by
    simp [Acct.step, recsOf]
  rw [ha]
  obtain ⟨k, hk, hc⟩ := h.contig
  refine ⟨⟨k, hk, ?_⟩, ?_, ?_, ?_, h.shapes, ?_⟩
  · show recsOf (vf fs.slots (K + 1)) ++ recsOf (fs.buf ++ [.header]) = _
    rw [recsOf_append]; simpa [recsOf, FS.view] using hc
  · show recsOf (fs.buf ++ [.header]) = a.pend
    rw [recsOf_append]; simpa [recsOf] using h.buf
  · intro hcl
    have : fs.isOpen = false := hcl
    rw [ho] at this; cases this
  · intro _
    right
    refine ⟨[], ?_⟩
    show content (fs.slots 0) ++ (fs.buf ++ [.header]) = _
    rw [← List.append_assoc, he]; rfl
  · show recsOf (content (fs.slots 0)) ++ recsOf (fs.buf ++ [.header]) = a.since
    rw [recsOf_append]; simpa [recsOf] using h.newest

/-- flushing (also on close) moves the buffer into the main file -/
theorem P_flush (K : Nat) (fs : FS) (a : Acct) (h : P K b fs a) (op : Bool) :
    P K b { fs.setSlot 0 (some (content (fs.slots 0) ++ fs.buf)) with buf := [], isOpen := op }
      { a with flushed := a.flushed ++ a.pend, pend := [] } := by
  obtain ⟨k, hk, hc⟩ := h.contig
  simp only [FS.view] at hc
  have hup : ∀ n, upper (fs.setSlot 0 (some (content (fs.slots 0) ++ fs.buf))).slots n = upper fs.slots n := by
    intro n; apply upper_congr; intro i h1 _; exact setSlot_other _ _ _ _ (by omega)
  refine ⟨⟨k, by simp; omega, ?_⟩, rfl, fun _ => rfl, ?_, ?_, ?_⟩
  · show recsOf (vf (fs.setSlot 0 (some (content (fs.slots 0) ++ fs.buf))).slots (K + 1)) ++ recsOf [] =
      ((a.flushed ++ a.pend) ++ []).drop k
    rw [vf_upper, hup, setSlot_same]
    rw [vf_upper] at hc
    have hw : a.written = a.flushed ++ a.pend := rfl
    rw [hw] at hc
    have hcs : content (some (content (fs.slots 0) ++ fs.buf)) = content (fs.slots 0) ++ fs.buf := rfl
    rw [hcs, List.append_nil, ← hc]
    simp [recsOf_append, recsOf, List.append_assoc]
  · intro hb
    show Shape (content ((fs.setSlot 0 (some (content (fs.slots 0) ++ fs.buf))).slots 0) ++ [])
    rw [setSlot_same]; simpa [content] using h.shape0 hb
  · intro hb j hj
    show Shape (content ((fs.setSlot 0 (some (content (fs.slots 0) ++ fs.buf))).slots j))
    rw [setSlot_other _ _ _ _ (by omega)]; exact h.shapes hb j hj
  · show recsOf (content ((fs.setSlot 0 (some (content (fs.slots 0) ++ fs.buf))).slots 0)) ++ recsOf [] = a.since
    rw [setSlot_same]
    simp only [content, recsOf, List.append_nil, recsOf_append]
    exact h.newest

theorem P_sync (K : Nat) (fs : FS) (a : Acct) (h : P K b fs a) : P K b (fs.apply .sync) (a.step .sync) := by
  have := P_flush K fs a h fs.isOpen
  exact this

theorem P_closeF (K : Nat) (fs : FS) (a : Acct) (h : P K b fs a) : P K b (fs.apply .closeF) (a.step .closeF) :=
  P_flush K fs a h false

/-- primitives that change no content: the view, the shapes and the newest file stay -/
theorem P_same_content (K : Nat) (fs fs' : FS) (a : Acct) (h : P K b fs a)
    (hs : ∀ i, content (fs'.slots i) = content (fs.slots i)) (hb : fs'.buf = fs.buf)
    (hc : fs'.isOpen = false → fs'.buf = []) : P K b fs' a := by
  obtain ⟨k, hk, hcon⟩ := h.contig
  refine ⟨⟨k, hk, ?_⟩, by rw [hb]; exact h.buf, hc, by rw [hs 0, hb]; exact h.shape0,
    fun hf j hj => by rw [hs j]; exact h.shapes hf j hj, by rw [hs 0, hb]; exact h.newest⟩
  simp only [FS.view] at hcon ⊢
  rw [vf_content_congr fs.slots fs'.slots _ (fun i _ => hs i), hb]
  exact hcon

theorem P_openA (K : Nat) (fs : FS) (a : Acct) (h : P K b fs a) (hcl : fs.isOpen = false) :
    P K b (fs.apply .openA) (a.step .openA) := by
  have hb := h.closed hcl
  apply P_same_content K fs _ a h
  · intro i
    show content ((fs.setSlot 0 (some (content (fs.slots 0)))).slots i) = _
    by_cases hi : i = 0
    · subst hi; rw [setSlot_same]; rfl
    · rw [setSlot_other _ _ _ _ hi]
  · show ([] : List Line) = fs.buf
    rw [hb]
  · intro _; rfl

theorem P_touch (K : Nat) (fs : FS) (a : Acct) (k : Nat) (h : P K b fs a) :
    P K b (fs.apply (.touch k)) (a.step (.touch k)) := by
  apply P_same_content K fs _ a h
  · intro i
    show content ((fs.setSlot k (some (content (fs.slots k)))).slots i) = _
    by_cases hi : i = k
    · subst hi; rw [setSlot_same]; rfl
    · rw [setSlot_other _ _ _ _ hi]
  · rfl
  · exact h.closed

theorem P_create (K : Nat) (fs : FS) (a : Acct) (h : P K b fs a) (h0 : fs.slots 0 = none) (hb : fs.buf = []) :
    P K b (fs.apply .create) (a.step .create) := by
  apply P_same_content K fs _ a h
  · intro i
    show content ((fs.setSlot 0 (some [])).slots i) = _
    by_cases hi : i = 0
    · subst hi; rw [setSlot_same, h0]; rfl
    · rw [setSlot_other _ _ _ _ hi]
  · show ([] : List Line) = fs.buf
    rw [hb]
  · intro _; rfl

theorem apply_rename_slots (fs : FS) (j : Nat) (c : List Line) (hj : fs.slots j = some c) :
    (fs.apply (.rename j)).slots = mv fs.slots j ∧ (fs.apply (.rename j)).buf = fs.buf ∧
    (fs.apply (.rename j)).isOpen = fs.isOpen := by
  refine ⟨?_, ?_, ?_⟩
  · funext i
    simp only [FS.apply, hj, FS.setSlot, mv]
  · simp only [FS.apply, hj, FS.setSlot]
  · simp only [FS.apply, hj, FS.setSlot]

theorem P_rename (K : Nat) (fs : FS) (a : Acct) (j : Nat) (c : List Line) (h : P K b fs a)
    (hb : fs.buf = []) (hj : fs.slots j = some c) (hjK : j < K)
    (hd : j + 1 = K ∨ fs.slots (j + 1) = none) :
    P K b (fs.apply (.rename j)) (a.step (.rename j)) := by
  obtain ⟨e1, e2, e3⟩ := apply_rename_slots fs j c hj
  obtain ⟨k, hk, hc⟩ := h.contig
  simp only [FS.view, hb, recsOf, List.append_nil] at hc
  have hpend : a.pend = [] := by rw [← h.buf, hb]; rfl
  have hw : a.written = a.flushed := by simp [Acct.written, hpend]
  -- the accounts
  have hacc : (a.step (.rename j)).flushed = a.flushed ∧ (a.step (.rename j)).pend = a.pend ∧
      (a.step (.rename j)).since = (if j = 0 then [] else a.since) := by
    cases j with
    | zero => exact ⟨rfl, rfl, rfl⟩
    | succ j => exact ⟨rfl, rfl, rfl⟩
  obtain ⟨a1, a2, a3⟩ := hacc
  have hw' : (a.step (.rename j)).written = a.written := by simp [Acct.written, a1, a2]
  refine ⟨?_, by rw [e2, a2]; exact h.buf, by rw [e3, e2]; exact h.closed, ?_, ?_, ?_⟩
  · -- contiguity
    simp only [FS.view, e1, e2, hb, recsOf, List.append_nil, hw', a1]
    rcases hd with hd | hd
    · -- onto the oldest slot: its records fall off
      have htop := vf_mv_top fs.slots j
      have hK : K + 1 = j + 2 := by omega
      rw [hK] at hc ⊢
      rw [htop, recsOf_append] at hc
      refine ⟨k + (recsOf (content (fs.slots (j + 1)))).length, ?_, ?_⟩
      · have hl := congrArg List.length hc
        simp only [List.length_append, List.length_drop, hw] at hl
        omega
      · have := congrArg (List.drop (recsOf (content (fs.slots (j + 1)))).length) hc
        rw [List.drop_left, List.drop_drop] at this
        rw [this]
    · exact ⟨k, hk, by rw [vf_mv_hole fs.slots j (K + 1) (by omega) hd]; exact hc⟩
  · -- the main file
    intro hf
    rw [e1, e2, hb, List.append_nil]
    by_cases h0 : j = 0
    · subst h0; simp [mv, content]; exact Shape_nil
    · have : mv fs.slots j 0 = fs.slots 0 := by
        simp only [mv]; rw [if_neg (by omega), if_neg (by omega)]
      rw [this]
      have := h.shape0 hf
      rw [hb, List.append_nil] at this
      exact this
  · intro hf i hi
    rw [e1]
    simp only [mv]
    by_cases h1 : i = j
    · simp [h1, content]; exact Shape_nil
    · by_cases h2 : i = j + 1
      · simp only [h2, if_true]
        rw [if_neg (by omega)]
        by_cases h0 : j = 0
        · subst h0
          have := h.shape0 hf
          rw [hb, List.append_nil] at this
          exact this
        · exact h.shapes hf j (by omega)
      · simp only [h1, h2, if_false]
        exact h.shapes hf i hi
  · rw [e1, e2, hb, a3]
    by_cases h0 : j = 0
    · subst h0; simp [mv, content, recsOf]
    · have : mv fs.slots j 0 = fs.slots 0 := by
        simp only [mv]; rw [if_neg (by omega), if_neg (by omega)]
      rw [this, if_neg h0]
      have := h.newest
      rw [hb] at this
      exact this

/-- the process dies: the buffer is lost, with it the records written since the last flush -/
theorem P_reboot (K : Nat) (fs : FS) (a : Acct) (h : P K b fs a) : P K b (fs.apply .reboot) (a.step .reboot) := by
  obtain ⟨k, hk, hc⟩ := h.contig
  have hview : (fs.apply .reboot).view K = fs.view K := rfl
  have hcut : a.since.take (a.since.length - a.pend.length) = recsOf (content (fs.slots 0)) := by
    rw [← h.newest, ← h.buf]
    simp
  refine ⟨⟨k, hk, ?_⟩, rfl, fun _ => rfl, ?_, h.shapes, ?_⟩
  · show recsOf ((fs.apply .reboot).view K) ++ recsOf [] = (a.flushed ++ []).drop k
    rw [hview]
    have hw : a.written.drop k = a.flushed.drop k ++ a.pend := by
      show (a.flushed ++ a.pend).drop k = _
      exact List.drop_append_of_le_length hk
    rw [h.buf, hw] at hc
    simp only [recsOf, List.append_nil]
    exact List.append_cancel_right hc
  · intro hf
    show Shape (content (fs.slots 0) ++ [])
    rw [List.append_nil]
    exact Shape_prefix _ _ (h.shape0 hf)
  · show recsOf (content (fs.slots 0)) ++ recsOf [] = a.since.take (a.since.length - a.pend.length)
    rw [hcut]; simp [recsOf]

theorem vf_empty (n : Nat) : vf (fun _ => none) n = [] := by
  induction n with
  | zero => rfl
  | succ n ih => simp [vf, content, ih]

theorem P_empty (K : Nat) : P K b {} {} := by
  refine ⟨⟨0, Nat.le_refl _, ?_⟩, rfl, fun _ => rfl, fun _ => Shape_nil, fun _ _ _ => Shape_nil, rfl⟩
  show recsOf (vf (fun _ => none) (K + 1)) ++ recsOf [] = _
  rw [vf_empty]; rfl

theorem P_newdir (K : Nat) (fs : FS) (a : Acct) : P K b (fs.apply .newdir) (a.step .newdir) := P_empty K

/-! ## every prefix of a trace -/

/-- the main file is rotated away only at or above the size threshold -/
def Q (cfg : Cfg) (fs : FS) (p : Prim) : Prop :=
  p = .rename 0 → (fs.slots 0).isSome → cfg.fileSize = 0 ∨ cfg.fileSize ≤ bytes cfg (content (fs.slots 0))

/-- `P` holds at every crash point of performing `ps` from `fs`, and `Q` for every primitive -/
def AllP (cfg : Cfg) (b : Bool) : FS → Acct → List Prim → Prop
  | fs, a, [] => P cfg.keep b fs a
  | fs, a, p :: ps => P cfg.keep b fs a ∧ Q cfg fs p ∧ AllP cfg b (fs.apply p) (a.step p) ps

def Acct.stepAll (a : Acct) (ps : List Prim) : Acct := ps.foldl Acct.step a

theorem stepAll_cons (a : Acct) (p : Prim) (ps : List Prim) : a.stepAll (p :: ps) = (a.step p).stepAll ps := rfl

theorem stepAll_append (a : Acct) (xs ys : List Prim) : a.stepAll (xs ++ ys) = (a.stepAll xs).stepAll ys := by
  simp [Acct.stepAll, List.foldl_append]

theorem applyAll_append (fs : FS) (xs ys : List Prim) :
    fs.applyAll (xs ++ ys) = (fs.applyAll xs).applyAll ys := by
  induction xs generalizing fs with
  | nil => rfl
  | cons x r ih => simp only [List.cons_append, FS.applyAll, ih]

theorem AllP_head {cfg : Cfg} {fs : FS} {a : Acct} {ps : List Prim} (h : AllP cfg b fs a ps) : P cfg.keep b fs a := by
  cases ps with
  | nil => exact h
  | cons p r => exact h.1

theorem AllP_last {cfg : Cfg} {fs : FS} {a : Acct} {ps : List Prim} (h : AllP cfg b fs a ps) :
    P cfg.keep b (fs.applyAll ps) (a.stepAll ps) := by
  induction ps generalizing fs a with
  | nil => exact h
  | cons p r ih => exact ih h.2.2

theorem AllP_append {cfg : Cfg} {fs : FS} {a : Acct} {xs ys : List Prim} (h1 : AllP cfg b fs a xs)
    (h2 : AllP cfg b (fs.applyAll xs) (a.stepAll xs) ys) : AllP cfg b fs a (xs ++ ys) := by
  induction xs generalizing fs a with
  | nil => exact h2
  | cons p r ih => exact ⟨h1.1, h1.2.1, ih h1.2.2 h2⟩

/-- `P` at the crash point after the first `n` primitives -/
theorem AllP_take {cfg : Cfg} {fs : FS} {a : Acct} {ps : List Prim} (h : AllP cfg b fs a ps) (n : Nat) :
    P cfg.keep b (fs.applyAll (ps.take n)) (a.stepAll (ps.take n)) := by
  induction ps generalizing fs a n with
  | nil =>
    have h' : P cfg.keep b fs a := h
    simpa [FS.applyAll, Acct.stepAll] using h'
  | cons p r ih =>
    cases n with
    | zero => simpa [FS.applyAll, Acct.stepAll] using h.1
    | succ n => exact ih h.2.2 n

/-- `Q` for the primitive number `n` -/
theorem AllP_Q {cfg : Cfg} {fs : FS} {a : Acct} {ps : List Prim} (h : AllP cfg b fs a ps) (n : Nat) (p : Prim)
    (hp : ps[n]? = some p) : Q cfg (fs.applyAll (ps.take n)) p := by
  induction ps generalizing fs a n with
  | nil => simp at hp
  | cons x r ih =>
    cases n with
    | zero =>
      simp at hp; subst hp
      exact h.2.1
    | succ n => exact ih h.2.2 n (by simpa using hp)

/-- a primitive that is not `rename 0` satisfies `Q` -/
theorem Q_of_ne {cfg : Cfg} {fs : FS} {p : Prim} (h : p ≠ .rename 0) : Q cfg fs p := fun e => absurd e h

/-! ## the logger state -/

/-- the files are what the trace made of the empty directory, and every crash point is fine -/
structure Good (b : Bool) (s : St) : Prop where
  consistent : s.fs = s.fs0.applyAll s.trace
  all : AllP s.cfg b s.fs0 {} s.trace

theorem Good.now {s : St} (h : Good b s) : P s.cfg.keep b s.fs (acctOf s.trace) := by
  have := AllP_last h.all
  rw [← h.consistent] at this
  exact this

theorem emit_good {s : St} (h : Good b s) (ps : List Prim) (hp : AllP s.cfg b s.fs (acctOf s.trace) ps) :
    Good b (s.emit ps) := by
  refine ⟨?_, ?_⟩
  · show s.fs.applyAll ps = s.fs0.applyAll (s.trace ++ ps)
    rw [applyAll_append, ← h.consistent]
  · show AllP s.cfg b s.fs0 {} (s.trace ++ ps)
    apply AllP_append h.all
    rw [← h.consistent]
    exact hp

theorem acctOf_append (tr ps : List Prim) : acctOf (tr ++ ps) = (acctOf tr).stepAll ps := by
  simp [acctOf, Acct.stepAll, List.foldl_append]

/-- everything of the logger state except the files and the trace -/
def St.vars (s : St) :
    Cfg × Int × Int × Int × Status × Bool × Bool × Bool × Nat × Option (List Nat) × Option Nat :=
  (s.cfg, s.stamp, s.flushStamp, s.cycleStamp, s.status, s.logged, s.first, s.hasPaths, s.seq, s.batch, s.failAt)

/-- `s'` has the same variables, the same files present, and the same main-file-plus-buffer -/
structure Kept (s s' : St) : Prop where
  vars : s'.vars = s.vars
  fs0 : s'.fs0 = s.fs0
  some : ∀ i, (s'.fs.slots i).isSome = (s.fs.slots i).isSome
  main : content (s'.fs.slots 0) ++ s'.fs.buf = content (s.fs.slots 0) ++ s.fs.buf
  copies : ∀ i, 1 ≤ i → s'.fs.slots i = s.fs.slots i

theorem Kept.refl (s : St) : Kept s s := ⟨rfl, rfl, fun _ => rfl, rfl, fun _ _ => rfl⟩

theorem Kept.trans {a b c : St} (h1 : Kept a b) (h2 : Kept b c) : Kept a c :=
  ⟨h2.vars.trans h1.vars, h2.fs0.trans h1.fs0, fun i => (h2.some i).trans (h1.some i),
   h2.main.trans h1.main, fun i hi => (h2.copies i hi).trans (h1.copies i hi)⟩

theorem Kept.cfg {s s' : St} (h : Kept s s') : s'.cfg = s.cfg := by
  have := h.vars; simp only [St.vars, Prod.mk.injEq] at this; exact this.1

/-- `Log.flush` -/
theorem flushLog_spec (s : St) (hg : Good b s) (ho : s.fs.isOpen = true → (s.fs.slots 0).isSome) :
    Good b s.flushLog ∧ Kept s s.flushLog ∧ s.flushLog.fs.isOpen = s.fs.isOpen ∧
    (s.fs.isOpen = true → s.flushLog.fs.buf = []) := by
  unfold St.flushLog
  by_cases hop : s.fs.isOpen = true
  · rw [if_pos hop]
    have hP := hg.now
    refine ⟨emit_good hg _ ⟨hP, Q_of_ne (by simp), P_sync _ _ _ hP⟩, ?_, ?_, fun _ => rfl⟩
    · refine ⟨rfl, rfl, ?_, ?_, ?_⟩
      · intro i
        show (((s.fs.apply .sync)).slots i).isSome = _
        by_cases hi : i = 0
        · subst hi
          simp only [FS.apply, FS.setSlot, if_true, Option.isSome_some]
          exact (ho hop).symm
        · simp only [FS.apply, FS.setSlot, hi, if_false]
      · show content ((s.fs.apply .sync).slots 0) ++ (s.fs.apply .sync).buf = _
        simp [FS.apply, FS.setSlot, content]
      · intro i hi
        show (s.fs.apply .sync).slots i = _
        simp only [FS.apply, FS.setSlot]
        rw [if_neg (by omega)]
    · show (s.fs.apply .sync).isOpen = s.fs.isOpen
      rfl
  · rw [if_neg hop]
    exact ⟨hg, Kept.refl s, rfl, fun h => absurd h hop⟩

/-- `Log.close` -/
theorem closeLog_spec (s : St) (hg : Good b s) (ho : s.fs.isOpen = true → (s.fs.slots 0).isSome) :
    Good b s.closeLog ∧ Kept s s.closeLog ∧ s.closeLog.fs.isOpen = false ∧ s.closeLog.fs.buf = [] := by
  unfold St.closeLog
  by_cases hop : s.fs.isOpen = true
  · rw [if_pos hop]
    have hP := hg.now
    have hP1 := P_sync _ _ _ hP
    refine ⟨emit_good hg _ ⟨hP, Q_of_ne (by simp), hP1, Q_of_ne (by simp), P_closeF _ _ _ hP1⟩, ?_, rfl, rfl⟩
    refine ⟨rfl, rfl, ?_, ?_, ?_⟩
    · intro i
      show ((((s.fs.apply .sync).apply .closeF)).slots i).isSome = _
      by_cases hi : i = 0
      · subst hi
        simp only [FS.apply, FS.setSlot, if_true, Option.isSome_some]
        exact (ho hop).symm
      · simp only [FS.apply, FS.setSlot, hi, if_false]
    · show content (((s.fs.apply .sync).apply .closeF).slots 0) ++ ((s.fs.apply .sync).apply .closeF).buf = _
      simp [FS.apply, FS.setSlot, content]
    · intro i hi
      show ((s.fs.apply .sync).apply .closeF).slots i = _
      simp only [FS.apply, FS.setSlot]
      rw [if_neg (by omega), if_neg (by omega)]
  · have hcl : s.fs.isOpen = false := by simpa using hop
    rw [if_neg hop]
    exact ⟨hg, Kept.refl s, hcl, hg.now.closed hcl⟩

theorem applyAll_touches (fs : FS) (ks : List Nat) :
    (∀ i, ((fs.applyAll (ks.map Prim.touch)).slots i) =
      if i ∈ ks then some (content (fs.slots i)) else fs.slots i) ∧
    (fs.applyAll (ks.map Prim.touch)).buf = fs.buf ∧ (fs.applyAll (ks.map Prim.touch)).isOpen = fs.isOpen := by
  induction ks generalizing fs with
  | nil => simp [FS.applyAll]
  | cons k r ih =>
    obtain ⟨h1, h2, h3⟩ := ih (fs.apply (.touch k))
    refine ⟨?_, ?_, ?_⟩
    · intro i
      simp only [List.map_cons, FS.applyAll]
      rw [h1 i]
      by_cases hk : i = k
      · subst hk
        simp [FS.apply, FS.setSlot, content]
      · simp only [FS.apply, FS.setSlot, hk, if_false, List.mem_cons, false_or]
    · simp only [List.map_cons, FS.applyAll]; rw [h2]; rfl
    · simp only [List.map_cons, FS.applyAll]; rw [h3]; rfl

theorem AllP_touches (cfg : Cfg) (fs : FS) (a : Acct) (ks : List Nat) (h : P cfg.keep b fs a) :
    AllP cfg b fs a (ks.map Prim.touch) := by
  induction ks generalizing fs a with
  | nil => exact h
  | cons k r ih => exact ⟨h, Q_of_ne (by simp), ih _ _ (P_touch _ _ _ k h)⟩

theorem Good.congr {s s' : St} (h : Good b s) (h1 : s'.fs = s.fs) (h2 : s'.fs0 = s.fs0) (h3 : s'.trace = s.trace)
    (h4 : s'.cfg = s.cfg) : Good b s' := by
  refine ⟨by rw [h1, h2, h3]; exact h.consistent, by rw [h2, h3, h4]; exact h.all⟩

/-- `if os.path.exists(self.path): self.first = False` -/
def setFirst (s1 : St) : St := if s1.oldFile then { s1 with first := false } else s1

theorem setFirst_facts (s1 : St) :
    (setFirst s1).fs = s1.fs ∧ (setFirst s1).trace = s1.trace ∧ (setFirst s1).fs0 = s1.fs0 ∧
    (setFirst s1).cfg = s1.cfg ∧ (setFirst s1).logged = s1.logged ∧ (setFirst s1).status = s1.status ∧
    (setFirst s1).seq = s1.seq ∧ (setFirst s1).batch = s1.batch ∧ (setFirst s1).hasPaths = s1.hasPaths ∧
    ((setFirst s1).stamp = s1.stamp ∧ (setFirst s1).flushStamp = s1.flushStamp ∧
      (setFirst s1).cycleStamp = s1.cycleStamp) ∧
    (setFirst s1).first = (if s1.oldFile then false else s1.first) := by
  unfold setFirst
  split <;> simp

/-- what `Log.reopen(keep)` does to the files and to `.first` / `.paths` -/
structure Reopened (b : Bool) (s s' : St) (keep : Nat) : Prop where
  good : Good b s'
  isOpen : s'.fs.isOpen = true
  buf : s'.fs.buf = []
  main : s'.fs.slots 0 = some (content (s.fs.slots 0) ++ s.fs.buf)
  copies : ∀ i, 1 ≤ i → content (s'.fs.slots i) = content (s.fs.slots i) ∧
    ((s.fs.slots i).isSome = true → (s'.fs.slots i).isSome = true)
  made : 0 < keep → ∀ i, 1 ≤ i → i ≤ keep → (s'.fs.slots i).isSome = true
  /-- (with fix D53) `.first` is cleared exactly when the main file, with what is still buffered, is not empty -/
  first : s.cfg.emptyIsNew = true →
    s'.first = (if content (s.fs.slots 0) ++ s.fs.buf = [] then s.first else false)
  paths : s'.hasPaths = (s.hasPaths || decide (0 < keep))
  cfg : s'.cfg = s.cfg
  fs0 : s'.fs0 = s.fs0
  logged : s'.logged = s.logged
  status : s'.status = s.status
  seq : s'.seq = s.seq
  batch : s'.batch = s.batch
  stamps : s'.stamp = s.stamp ∧ s'.flushStamp = s.flushStamp ∧ s'.cycleStamp = s.cycleStamp

theorem reopen_spec (s : St) (keep : Nat) (hg : Good b s) (ho : s.fs.isOpen = true → (s.fs.slots 0).isSome) :
    Reopened b s (s.reopen keep) keep := by
  obtain ⟨g1, k1, c1, b1⟩ := closeLog_spec s hg ho
  have hv := k1.vars
  simp only [St.vars, Prod.mk.injEq] at hv
  obtain ⟨v1, v2, v3, v4, v5, v6, v7, v8, v9, v10, _⟩ := hv
  -- after the close
  generalize hs1 : s.closeLog = s1 at g1 k1 c1 b1 v1 v2 v3 v4 v5 v6 v7 v8 v9 v10
  have hmain1 : content (s1.fs.slots 0) = content (s.fs.slots 0) ++ s.fs.buf := by
    have := k1.main; rw [b1, List.append_nil] at this; exact this
  -- `.first`
  obtain ⟨f1, f2, f3, f4, f5, f6, f7, f8, f9, f10, f11⟩ := setFirst_facts s1
  generalize hs2 : setFirst s1 = s2 at f1 f2 f3 f4 f5 f6 f7 f8 f9 f10 f11
  have g2 : Good b s2 := g1.congr f1 f3 f2 f4
  have hfs2 : s2.fs = s1.fs := f1
  have hfirst2 : s.cfg.emptyIsNew = true →
      s2.first = (if content (s.fs.slots 0) ++ s.fs.buf = [] then s.first else false) := by
    intro hfix
    rw [f11, v7]
    have hcfg1 : s1.cfg.emptyIsNew = true := by rw [v1]; exact hfix
    unfold St.oldFile
    rw [← hmain1]
    cases hs10 : s1.fs.slots 0 with
    | none => simp [content]
    | some c =>
      cases c with
      | nil => simp [content, hcfg1]
      | cons x r => simp [content]
  have hrest2 : s2.cfg = s.cfg ∧ s2.fs0 = s.fs0 ∧ s2.logged = s.logged ∧ s2.status = s.status ∧
      s2.seq = s.seq ∧ s2.batch = s.batch ∧ s2.hasPaths = s.hasPaths ∧
      (s2.stamp = s.stamp ∧ s2.flushStamp = s.flushStamp ∧ s2.cycleStamp = s.cycleStamp) :=
    ⟨f4.trans v1, f3.trans k1.fs0, f5.trans v6, f6.trans v5, f7.trans v9, f8.trans v10, f9.trans v8,
     f10.1.trans v2, f10.2.1.trans v3, f10.2.2.trans v4⟩
  -- open for append
  have hP2 := g2.now
  have hcl2 : s2.fs.isOpen = false := by rw [hfs2]; exact c1
  have g3 : Good b (s2.emit [.openA]) :=
    emit_good g2 _ ⟨hP2, Q_of_ne (by simp), P_openA _ _ _ hP2 hcl2⟩
  have hfs3 : (s2.emit [.openA]).fs = s1.fs.apply .openA := by
    show s2.fs.apply .openA = _
    rw [hfs2]
  have hslots3 : ∀ i, (s1.fs.apply .openA).slots i = if i = 0 then some (content (s1.fs.slots 0)) else s1.fs.slots i := by
    intro i; simp only [FS.apply, FS.setSlot]
  have hreopen : s.reopen keep =
      (if keep > 0 then { (s2.emit [.openA]).emit ((List.range keep).map fun k => .touch (k + 1)) with hasPaths := true }
       else s2.emit [.openA]) := by
    simp only [St.reopen, hs1, ← hs2]
    rfl
  rw [hreopen]
  obtain ⟨r1, r2, r3, r4, r5, r6, r7, r8⟩ := hrest2
  by_cases hk : keep > 0
  · rw [if_pos hk]
    have hmm : ((List.range keep).map fun k => Prim.touch (k + 1)) =
        ((List.range keep).map (· + 1)).map Prim.touch := by simp [List.map_map, Function.comp]
    have g4 : Good b ((s2.emit [.openA]).emit ((List.range keep).map fun k => .touch (k + 1))) := by
      apply emit_good g3
      rw [hmm]
      exact AllP_touches _ _ _ _ g3.now
    obtain ⟨t1, t2, t3⟩ := applyAll_touches (s1.fs.apply .openA) ((List.range keep).map (· + 1))
    have hfs4 : ((s2.emit [.openA]).emit ((List.range keep).map fun k => .touch (k + 1))).fs =
        (s1.fs.apply .openA).applyAll (((List.range keep).map (· + 1)).map Prim.touch) := by
      show (s2.emit [.openA]).fs.applyAll _ = _
      rw [hfs3, hmm]
    have hmem : ∀ i, i ∈ (List.range keep).map (· + 1) ↔ (1 ≤ i ∧ i ≤ keep) := by
      intro i
      simp only [List.mem_map, List.mem_range]
      constructor
      · rintro ⟨a, ha, rfl⟩; omega
      · intro ⟨h1, h2⟩; exact ⟨i - 1, by omega, by omega⟩
    refine ⟨g4.congr rfl rfl rfl rfl, ?_, ?_, ?_, ?_, ?_, hfirst2, ?_, r1, r2, r3, r4, r5, r6, r8⟩
    · show ((s2.emit [.openA]).emit _).fs.isOpen = true
      rw [hfs4, t3]; rfl
    · show ((s2.emit [.openA]).emit _).fs.buf = []
      rw [hfs4, t2]; rfl
    · show ((s2.emit [.openA]).emit _).fs.slots 0 = _
      rw [hfs4, t1 0, if_neg (by rw [hmem]; omega), hslots3 0, if_pos rfl, hmain1]
    · intro i hi
      show content (((s2.emit [.openA]).emit _).fs.slots i) = _ ∧ (_ → (((s2.emit [.openA]).emit _).fs.slots i).isSome = true)
      have hne : ¬ i = 0 := by omega
      have e1 : (s1.fs.apply .openA).slots i = s.fs.slots i := by
        rw [hslots3 i, if_neg hne, k1.copies i hi]
      rw [hfs4, t1 i, e1]
      split
      · exact ⟨rfl, fun _ => rfl⟩
      · exact ⟨rfl, fun h => h⟩
    · intro _ i h1 h2
      show (((s2.emit [.openA]).emit _).fs.slots i).isSome = true
      rw [hfs4, t1 i, if_pos ((hmem i).2 ⟨h1, h2⟩)]
      rfl
    · show true = (s.hasPaths || decide (0 < keep))
      simp [hk]
  · rw [if_neg hk]
    refine ⟨g3, ?_, ?_, ?_, ?_, fun h => absurd h hk, hfirst2, ?_, r1, r2, r3, r4, r5, r6, r8⟩
    · rw [hfs3]; rfl
    · rw [hfs3]; rfl
    · rw [hfs3, hslots3 0, if_pos rfl, hmain1]
    · intro i hi
      have hne : ¬ i = 0 := by omega
      rw [hfs3, hslots3 i, if_neg hne, k1.copies i hi]
      exact ⟨rfl, fun h => h⟩
    · show s2.hasPaths = (s.hasPaths || decide (0 < keep))
      rw [r7]; simp [hk]

/-! ## the rename chain of `Log.cycle` -/

/-- about to rename slots `k-1 … 0`: they exist, slot `k` is the hole (or the oldest copy), the
slots above are filled, the file is closed and flushed -/
structure ChainInv (b : Bool) (s : St) (k : Nat) : Prop where
  good : Good b s
  kle : k ≤ s.cfg.keep
  srcs : ∀ i, i < k → (s.fs.slots i).isSome = true
  hole : k < s.cfg.keep → s.fs.slots k = none
  above : ∀ i, k < i → i ≤ s.cfg.keep → (s.fs.slots i).isSome = true
  buf : s.fs.buf = []
  closed : s.fs.isOpen = false
  size : (s.fs.slots 0).isSome = true →
    s.cfg.fileSize = 0 ∨ s.cfg.fileSize ≤ bytes s.cfg (content (s.fs.slots 0))
  nofault : s.failAt = none

theorem renames_spec (s : St) (k : Nat) (h : ChainInv b s k) :
    (s.renames k).2 = true ∧ ChainInv b (s.renames k).1 0 ∧ (s.renames k).1.vars = s.vars ∧
    (s.renames k).1.fs0 = s.fs0 ∧ (k ≥ 1 → (s.renames k).1.fs.slots 0 = none) := by
  induction k generalizing s with
  | zero => exact ⟨rfl, h, rfl, rfl, fun h => by omega⟩
  | succ k ih =>
    have hsrc := h.srcs k (Nat.lt_succ_self k)
    cases hk : s.fs.slots k with
    | none => rw [hk] at hsrc; cases hsrc
    | some c =>
      have hP := h.good.now
      have hdest : k + 1 = s.cfg.keep ∨ s.fs.slots (k + 1) = none := by
        by_cases e : k + 1 = s.cfg.keep
        · exact Or.inl e
        · exact Or.inr (h.hole (by have := h.kle; omega))
      have hP' := P_rename s.cfg.keep s.fs (acctOf s.trace) k c hP h.buf hk (by have := h.kle; omega) hdest
      have hQ : Q s.cfg s.fs (.rename k) := by
        intro e hs
        have : k = 0 := by simpa using e
        subst this
        exact h.size hs
      have g' : Good b (s.emit [.rename k]) := emit_good h.good _ ⟨hP, hQ, hP'⟩
      obtain ⟨e1, e2, e3⟩ := apply_rename_slots s.fs k c hk
      have hfs : (s.emit [.rename k]).fs = s.fs.apply (.rename k) := rfl
      have inv' : ChainInv b (s.emit [.rename k]) k := by
        refine ⟨g', by have := h.kle; exact Nat.le_of_succ_le this, ?_, ?_, ?_, ?_, ?_, ?_, h.nofault⟩
        · intro i hi
          rw [hfs, e1]
          simp only [mv]
          rw [if_neg (by omega), if_neg (by omega)]
          exact h.srcs i (by omega)
        · intro _
          rw [hfs, e1]
          simp [mv]
        · intro i hi1 hi2
          rw [hfs, e1]
          simp only [mv]
          rw [if_neg (by omega)]
          by_cases e : i = k + 1
          · rw [if_pos e, hk]; rfl
          · rw [if_neg e]; exact h.above i (by omega) hi2
        · rw [hfs, e2]; exact h.buf
        · rw [hfs, e3]; exact h.closed
        · intro hs
          rw [hfs, e1] at hs ⊢
          by_cases e : k = 0
          · subst e; simp [mv] at hs
          · have : mv s.fs.slots k 0 = s.fs.slots 0 := by
              simp only [mv]; rw [if_neg (by omega), if_neg (by omega)]
            rw [this] at hs ⊢
            exact h.size hs
      obtain ⟨r1, r2, r3, r4, r5⟩ := ih (s.emit [.rename k]) inv'
      have hren : s.renames (k + 1) = (s.emit [.rename k]).renames k := by
        have hnf := h.nofault
        cases s with
        | mk cfg fs fs0 trace stamp flushStamp cycleStamp status logged first hasPaths seq batch failAt =>
          simp only at hnf hk
          subst hnf
          simp only [St.renames, Option.map_none, hk]
      rw [hren]
      refine ⟨r1, r2, r3, r4, fun _ => ?_⟩
      by_cases e : k = 0
      · subst e
        -- the chain ends here: slot 0 was just moved away
        show (s.emit [.rename 0]).fs.slots 0 = none
        rw [hfs, e1]; simp [mv]
      · exact r5 (by omega)

/-! ## the rename chain when `os.rename` fails (injected fault, or a source that is missing) -/

/-- about to rename slots `k-1 … 0`, with no assumption on which copies exist or whether a fault is
pending: slot `k` is the hole the chain itself has just made (or the oldest copy) -/
structure ChainF (b : Bool) (s : St) (k : Nat) : Prop where
  good : Good b s
  kle : k ≤ s.cfg.keep
  hole : k < s.cfg.keep → s.fs.slots k = none
  buf : s.fs.buf = []
  closed : s.fs.isOpen = false
  size : (s.fs.slots 0).isSome = true →
    s.cfg.fileSize = 0 ∨ s.cfg.fileSize ≤ bytes s.cfg (content (s.fs.slots 0))

theorem P_noop (K : Nat) (fs : FS) (a : Acct) (p : Prim) (h : P K b fs a) (h1 : fs.apply p = fs)
    (h2 : a.step p = a) : P K b (fs.apply p) (a.step p) := by rw [h1, h2]; exact h

/-- a rename that raises (fault on an existing source, or a missing source) moves nothing and changes no account -/
theorem failed_rename_good (s : St) (k : Nat) (h : ChainF b s (k + 1)) (f : Option Nat) (p : Prim)
    (hp : (p = .renameErr k) ∨ (p = .rename k ∧ s.fs.slots k = none)) :
    Good b (({ s with failAt := f } : St).emit [p]) ∧ (({ s with failAt := f } : St).emit [p]).fs = s.fs := by
  have hg : Good b ({ s with failAt := f } : St) := h.good.congr rfl rfl rfl rfl
  have hP := h.good.now
  have hfs : s.fs.apply p = s.fs := by
    rcases hp with rfl | ⟨rfl, hn⟩
    · rfl
    · simp only [FS.apply, hn]
  have hac : (acctOf s.trace).step p = acctOf s.trace := by
    rcases hp with rfl | ⟨rfl, hn⟩
    · rfl
    · cases k with
      | succ k => rfl
      | zero =>
        -- the main file is missing: nothing was written since it was moved away
        have hnew := hP.newest
        rw [hn, h.buf] at hnew
        show ({ (acctOf s.trace) with since := [] } : Acct) = acctOf s.trace
        have : (acctOf s.trace).since = [] := by simpa [content, recsOf] using hnew.symm
        cases hacc : acctOf s.trace with
        | mk fl pe si => rw [hacc] at this; simp only at this; subst this; rfl
  have hQ : Q s.cfg s.fs p := by
    intro e hs
    rcases hp with rfl | ⟨rfl, hn⟩
    · cases e
    · have : k = 0 := by simpa using e
      subst this
      rw [hn] at hs; cases hs
  refine ⟨emit_good hg [p] ⟨hP, hQ, P_noop _ _ _ p hP hfs hac⟩, hfs⟩

/-- **the rename chain with faults**: whatever copies exist and whichever `os.rename` call raises,
every crash point of the chain satisfies the invariant `P` (contiguity of what is retained, nothing
but the oldest copy overwritten, every file empty or header + records), the files end closed and
unbuffered, and a chain that fails leaves the main file as it was -/
theorem renames_fault_spec (s : St) (k : Nat) (h : ChainF b s k) :
    Good b (s.renames k).1 ∧ (s.renames k).1.fs.buf = [] ∧ (s.renames k).1.fs.isOpen = false ∧
    (s.renames k).1.cfg = s.cfg ∧ (s.renames k).1.fs0 = s.fs0 ∧
    ((s.renames k).2 = false → (s.renames k).1.fs.slots 0 = s.fs.slots 0) := by
  induction k generalizing s with
  | zero => exact ⟨h.good, h.buf, h.closed, rfl, rfl, fun _ => rfl⟩
  | succ k ih =>
    unfold St.renames
    split
    · -- the injected fault hits this call
      obtain ⟨g, hfs⟩ := failed_rename_good s k h none
        (if (s.fs.slots k).isSome then .renameErr k else .rename k) (by
          cases hk : s.fs.slots k with
          | none => exact Or.inr ⟨by simp, rfl⟩
          | some c => exact Or.inl (by simp))
      refine ⟨g, by rw [hfs]; exact h.buf, by rw [hfs]; exact h.closed, rfl, rfl, fun _ => by rw [hfs]⟩
    · simp only []
      have hg1 : Good b ({ s with failAt := s.failAt.map (· - 1) } : St) := h.good.congr rfl rfl rfl rfl
      split
      · rename_i c hk
        have hk' : s.fs.slots k = some c := hk
        have hP := h.good.now
        have hdest : k + 1 = s.cfg.keep ∨ s.fs.slots (k + 1) = none := by
          by_cases e : k + 1 = s.cfg.keep
          · exact Or.inl e
          · exact Or.inr (h.hole (by have := h.kle; omega))
        have hP' := P_rename s.cfg.keep s.fs (acctOf s.trace) k c hP h.buf hk' (by have := h.kle; omega) hdest
        have hQ : Q s.cfg s.fs (.rename k) := by
          intro e hs
          have : k = 0 := by simpa using e
          subst this
          exact h.size hs
        have g' : Good b (({ s with failAt := s.failAt.map (· - 1) } : St).emit [.rename k]) :=
          emit_good hg1 _ ⟨hP, hQ, hP'⟩
        obtain ⟨e1, e2, e3⟩ := apply_rename_slots s.fs k c hk'
        have hfs : (({ s with failAt := s.failAt.map (· - 1) } : St).emit [.rename k]).fs = s.fs.apply (.rename k) := rfl
        have inv' : ChainF b (({ s with failAt := s.failAt.map (· - 1) } : St).emit [.rename k]) k := by
          refine ⟨g', by have := h.kle; exact Nat.le_of_succ_le this, ?_, ?_, ?_, ?_⟩
          · intro _; rw [hfs, e1]; simp [mv]
          · rw [hfs, e2]; exact h.buf
          · rw [hfs, e3]; exact h.closed
          · intro hs
            rw [hfs, e1] at hs ⊢
            by_cases e : k = 0
            · subst e; simp [mv] at hs
            · have : mv s.fs.slots k 0 = s.fs.slots 0 := by
                simp only [mv]; rw [if_neg (by omega), if_neg (by omega)]
              rw [this] at hs ⊢
              exact h.size hs
        obtain ⟨r1, r2, r3, r4, r5, r6⟩ := ih _ inv'
        refine ⟨r1, r2, r3, r4, r5, fun hfalse => ?_⟩
        rw [r6 hfalse, hfs, e1]
        by_cases e : k = 0
        · -- the chain ends with this rename: it cannot have failed afterwards
          subst e
          simp [St.renames] at hfalse
        · simp only [mv]; rw [if_neg (by omega), if_neg (by omega)]
      · rename_i hk
        obtain ⟨g, hfs⟩ := failed_rename_good s k h (s.failAt.map (· - 1)) (.rename k) (Or.inr ⟨rfl, hk⟩)
        refine ⟨g, by rw [hfs]; exact h.buf, by rw [hfs]; exact h.closed, rfl, rfl, fun _ => by rw [hfs]⟩

/-! ## the invariant between controls -/

structure SI (b : Bool) (s : St) : Prop where
  good : Good b s
  paths : s.hasPaths = true → 1 ≤ s.cfg.keep ∧ ∀ i, i ≤ s.cfg.keep → (s.fs.slots i).isSome = true
  /-- the code with fix patch D53 -/
  fixed : s.cfg.emptyIsNew = true
  /-- nothing in the main file, nothing buffered: this `Log` object has not logged and will write the header -/
  empty : content (s.fs.slots 0) ++ s.fs.buf = [] → s.first = true ∧ s.logged = false
  shape : Shape (content (s.fs.slots 0) ++ s.fs.buf)
  openHdr : s.fs.isOpen = true → content (s.fs.slots 0) ++ s.fs.buf ≠ []
  opened : s.fs.isOpen = true → (s.fs.slots 0).isSome = true
  /-- no injected fault is pending -/
  nofault : s.failAt = none

/-- the variables a file operation never touches (`.first` is not among them) -/
structure Vars0 (s s' : St) : Prop where
  cfg : s'.cfg = s.cfg
  fs0 : s'.fs0 = s.fs0
  logged : s'.logged = s.logged
  status : s'.status = s.status
  seq : s'.seq = s.seq
  hasPaths : s'.hasPaths = s.hasPaths
  batch : s'.batch = s.batch
  stamps : s'.stamp = s.stamp ∧ s'.flushStamp = s.flushStamp ∧ s'.cycleStamp = s.cycleStamp
  failAt : s'.failAt = s.failAt

theorem Vars0.refl (s : St) : Vars0 s s := ⟨rfl, rfl, rfl, rfl, rfl, rfl, rfl, ⟨rfl, rfl, rfl⟩, rfl⟩

theorem Vars0.trans {a b c : St} (h1 : Vars0 a b) (h2 : Vars0 b c) : Vars0 a c :=
  ⟨h2.cfg.trans h1.cfg, h2.fs0.trans h1.fs0, h2.logged.trans h1.logged, h2.status.trans h1.status,
   h2.seq.trans h1.seq, h2.hasPaths.trans h1.hasPaths, h2.batch.trans h1.batch,
   ⟨h2.stamps.1.trans h1.stamps.1, h2.stamps.2.1.trans h1.stamps.2.1, h2.stamps.2.2.trans h1.stamps.2.2⟩,
   h2.failAt.trans h1.failAt⟩

theorem Vars0.of_vars {s s' : St} (hv : s'.vars = s.vars) (hf : s'.fs0 = s.fs0) : Vars0 s s' ∧ s'.first = s.first := by
  simp only [St.vars, Prod.mk.injEq] at hv
  obtain ⟨v1, v2, v3, v4, v5, v6, v7, v8, v9, v10, v11⟩ := hv
  exact ⟨⟨v1, hf, v6, v5, v9, v8, v10, ⟨v2, v3, v4⟩, v11⟩, v7⟩

theorem Kept.vars0 {s s' : St} (h : Kept s s') : Vars0 s s' ∧ s'.first = s.first := Vars0.of_vars h.vars h.fs0

/-- `SI` survives an operation that keeps the files present and main-file-plus-buffer -/
theorem SI.kept {s s' : St} (h : SI b s) (hk : Kept s s') (hg : Good b s') (ho : s'.fs.isOpen = s.fs.isOpen) : SI b s' := by
  obtain ⟨v, vf⟩ := hk.vars0
  refine ⟨hg, ?_, by rw [v.cfg]; exact h.fixed, ?_, by rw [hk.main]; exact h.shape, ?_, ?_,
    by rw [v.failAt]; exact h.nofault⟩
  · intro hp
    rw [v.hasPaths] at hp
    obtain ⟨p1, p2⟩ := h.paths hp
    rw [v.cfg]
    exact ⟨p1, fun i hi => by rw [hk.some i]; exact p2 i hi⟩
  · intro he
    rw [hk.main] at he
    obtain ⟨a1, a2⟩ := h.empty he
    exact ⟨vf.trans a1, v.logged.trans a2⟩
  · intro hop
    rw [hk.main]
    exact h.openHdr (ho ▸ hop)
  · intro hop
    rw [hk.some 0]
    exact h.opened (ho ▸ hop)

theorem emit_vars0 (s : St) (ps : List Prim) : Vars0 s (s.emit ps) ∧ (s.emit ps).first = s.first :=
  ⟨⟨rfl, rfl, rfl, rfl, rfl, rfl, rfl, ⟨rfl, rfl, rfl⟩, rfl⟩, rfl⟩

theorem closeLog_failAt (s : St) : s.closeLog.failAt = s.failAt := by
  unfold St.closeLog; split <;> rfl

theorem flushLog_failAt (s : St) : s.flushLog.failAt = s.failAt := by
  unfold St.flushLog; split <;> rfl

theorem reopen_failAt (s : St) (keep : Nat) : (s.reopen keep).failAt = s.failAt := by
  unfold St.reopen
  simp only []
  repeat' split
  all_goals exact closeLog_failAt s

theorem Reopened.vars0 {s s' : St} (h : Reopened b s s' 0) (hf : s'.failAt = s.failAt) : Vars0 s s' :=
  ⟨h.cfg, h.fs0, h.logged, h.status, h.seq, by rw [h.paths]; simp, h.batch, h.stamps, hf⟩

/-- `Log.cycle`, called on an open log -/
theorem cycle_spec (s : St) (h : SI b s) (hop : s.fs.isOpen = true) :
    SI b s.cycle ∧ s.cycle.fs.isOpen = true ∧ Vars0 s s.cycle := by
  unfold St.cycle
  by_cases hp : s.hasPaths = true
  · simp only [hp, Bool.not_true, Bool.false_eq_true, if_false]
    obtain ⟨g1, k1, o1, b1⟩ := flushLog_spec s h.good h.opened
    have b1' := b1 hop
    have si1 : SI b s.flushLog := h.kept k1 g1 o1
    obtain ⟨v1, _⟩ := k1.vars0
    generalize s.flushLog = s1 at g1 k1 o1 b1' si1 v1
    have hop1 : s1.fs.isOpen = true := o1.trans hop
    split
    · exact ⟨si1, hop1, v1⟩
    · rename_i hsz1
      split
      · exact ⟨si1, hop1, v1⟩
      · rename_i hsz2
        obtain ⟨g2, k2, c2, b2⟩ := closeLog_spec s1 g1 si1.opened
        obtain ⟨v2, _⟩ := k2.vars0
        have hp1 : s1.hasPaths = true := v1.hasPaths.trans hp
        obtain ⟨p1, p2⟩ := si1.paths hp1
        have hmain2 : content (s1.closeLog.fs.slots 0) = content (s1.fs.slots 0) := by
          have := k2.main; rw [b2, b1', List.append_nil, List.append_nil] at this; exact this
        have chain : ChainInv b s1.closeLog s1.closeLog.cfg.keep := by
          refine ⟨g2, Nat.le_refl _, ?_, fun h => absurd h (Nat.lt_irrefl _), ?_, b2, c2, ?_,
            by rw [closeLog_failAt]; exact si1.nofault⟩
          · intro i hi
            rw [k2.some i]
            exact p2 i (by rw [v2.cfg] at hi; omega)
          · intro i h1 h2; omega
          · intro hs
            rw [v2.cfg, hmain2]
            have hs1 : (s1.fs.slots 0).isSome = true := by rw [← k2.some 0]; exact hs
            by_cases hz : s1.cfg.fileSize = 0
            · exact Or.inl hz
            · right
              have : ¬ (bytes s1.cfg (content (s1.fs.slots 0)) < s1.cfg.fileSize) := by
                intro hlt; exact hsz1 ⟨hz, hs1, hlt⟩
              omega
        obtain ⟨r1, r2, r3, r4, r5⟩ := renames_spec s1.closeLog _ chain
        have hkeep2 : s1.closeLog.cfg.keep = s1.cfg.keep := by rw [v2.cfg]
        obtain ⟨v3, _⟩ := Vars0.of_vars r3 r4
        rcases hr : s1.closeLog.renames s1.closeLog.cfg.keep with ⟨s3, ok⟩
        rw [hr] at r1 r2 r3 r4 r5 v3
        simp only at r1 r2 r3 r4 r5 v3
        subst r1
        simp only []
        have h30 : s3.fs.slots 0 = none := r5 (by rw [hkeep2]; exact p1)
        -- create the new main file and write the header
        have hP3 := r2.good.now
        have hP4 := P_create _ _ _ hP3 h30 r2.buf
        have ho4 : (s3.fs.apply .create).isOpen = true := rfl
        have he4 : content ((s3.fs.apply .create).slots 0) ++ (s3.fs.apply .create).buf = [] := by
          simp [FS.apply, FS.setSlot, content]
        have hP5 := P_write_header _ _ _ hP4 ho4 he4
        have g4 : Good b (s3.emit [.create, .write [.header]]) :=
          emit_good r2.good _ ⟨hP3, Q_of_ne (by simp), hP4, Q_of_ne (by simp), hP5⟩
        have hfs4 : (s3.emit [.create, .write [.header]]).fs = (s3.fs.apply .create).apply (.write [.header]) := rfl
        have hslots4 : ∀ i, (s3.emit [.create, .write [.header]]).fs.slots i = if i = 0 then some [] else s3.fs.slots i := by
          intro i; rw [hfs4]; simp only [FS.apply, FS.setSlot]
        have hopen4 : (s3.emit [.create, .write [.header]]).fs.isOpen = true := rfl
        have hbuf4 : (s3.emit [.create, .write [.header]]).fs.buf = [.header] := rfl
        have ro := reopen_spec (s3.emit [.create, .write [.header]]) 0 g4 (fun _ => by rw [hslots4 0]; rfl)
        obtain ⟨v4, _⟩ := emit_vars0 s3 [.create, .write [.header]]
        have v5 := ro.vars0 (reopen_failAt _ 0)
        generalize (s3.emit [.create, .write [.header]]).reopen 0 = s5 at ro v5
        have vall : Vars0 s s5 := v1.trans (v2.trans (v3.trans (v4.trans v5)))
        have hmb : content (s5.fs.slots 0) ++ s5.fs.buf = [.header] := by
          rw [ro.main, ro.buf, hslots4 0, if_pos rfl, hbuf4]; rfl
        refine ⟨⟨ro.good, ?_, by rw [vall.cfg]; exact h.fixed, ?_, ?_, ?_, ?_,
          by rw [vall.failAt]; exact h.nofault⟩, ro.isOpen, vall⟩
        · intro _
          rw [vall.cfg]
          have hkc : s.cfg.keep = s1.cfg.keep := by rw [v1.cfg]
          refine ⟨by rw [hkc]; exact p1, ?_⟩
          intro i hi
          by_cases h0 : i = 0
          · subst h0; rw [ro.main]; rfl
          · have h1 : 1 ≤ i := by omega
            apply (ro.copies i h1).2
            rw [hslots4 i, if_neg h0]
            exact r2.above i (by omega) (by rw [v3.cfg, hkeep2, ← hkc]; exact hi)
        · intro he; rw [hmb] at he; cases he
        · rw [hmb]; exact Or.inr ⟨[], rfl⟩
        · intro _; rw [hmb]; simp
        · intro _; rw [ro.main]; rfl
  · have : s.hasPaths = false := by simpa using hp
    simp only [this, Bool.not_false, if_true]
    exact ⟨h, hop, Vars0.refl s⟩

/-- an open log whose main file (with the buffer) starts with the header -/
structure Pre (b : Bool) (s : St) : Prop where
  good : Good b s
  paths : s.hasPaths = true → 1 ≤ s.cfg.keep ∧ ∀ i, i ≤ s.cfg.keep → (s.fs.slots i).isSome = true
  isOpen : s.fs.isOpen = true
  hdr : ∃ rs : List Rec, content (s.fs.slots 0) ++ s.fs.buf = .header :: rs.map Line.rec_
  main : (s.fs.slots 0).isSome = true
  fixed : s.cfg.emptyIsNew = true
  nofault : s.failAt = none

theorem Pre.si {s : St} (h : Pre b s) : SI b s := by
  obtain ⟨rs, hrs⟩ := h.hdr
  refine ⟨h.good, h.paths, h.fixed, ?_, Or.inr ⟨rs, hrs⟩, ?_, fun _ => h.main, h.nofault⟩
  · intro he; rw [hrs] at he; cases he
  · intro _; rw [hrs]; simp

theorem SI.pre {s : St} (h : SI b s) (ho : s.fs.isOpen = true) : Pre b s := by
  have hm := h.opened ho
  refine ⟨h.good, h.paths, ho, ?_, hm, h.fixed, h.nofault⟩
  rcases h.shape with he | ⟨rs, hrs⟩
  · exact absurd he (h.openHdr ho)
  · exact ⟨rs, hrs⟩

/-- changing only timers, `.seq`, `.logged`, `.status` keeps `Pre` -/
theorem Pre.congr {s s' : St} (h : Pre b s) (h1 : s'.fs = s.fs) (h2 : s'.fs0 = s.fs0) (h3 : s'.trace = s.trace)
    (h4 : s'.cfg = s.cfg) (h5 : s'.hasPaths = s.hasPaths) (h6 : s'.failAt = s.failAt := by rfl) : Pre b s' :=
  ⟨h.good.congr h1 h2 h3 h4, by rw [h5, h4, h1]; exact h.paths, by rw [h1]; exact h.isOpen,
   by rw [h1]; exact h.hdr, by rw [h1]; exact h.main, by rw [h4]; exact h.fixed, by rw [h6]; exact h.nofault⟩

/-- what the pieces of `Logger.log` keep -/
structure Step (b : Bool) (s s' : St) : Prop where
  pre : Pre b s'
  cfg : s'.cfg = s.cfg
  fs0 : s'.fs0 = s.fs0
  status : s'.status = s.status
  hasPaths : s'.hasPaths = s.hasPaths

theorem Step.trans {x y z : St} (h1 : Step b x y) (h2 : Step b y z) : Step b x z :=
  ⟨h2.pre, h2.cfg.trans h1.cfg, h2.fs0.trans h1.fs0, h2.status.trans h1.status, h2.hasPaths.trans h1.hasPaths⟩

theorem writeRec_spec (s : St) (h : Pre b s) : Step b s s.writeRec := by
  unfold St.writeRec
  cases hb : s.batch with
  | none => exact ⟨h, rfl, rfl, rfl, rfl⟩
  | some sizes =>
    simp only []
    have hP := h.good.now
    have hP1 := P_write_recs s.cfg.keep s.fs (acctOf s.trace) (mkRecs s.seq sizes) hP h.isOpen (fun _ => h.hdr)
    have g1 : Good b (s.emit [.write ((mkRecs s.seq sizes).map Line.rec_)]) :=
      emit_good h.good _ ⟨hP, Q_of_ne (by simp), hP1⟩
    have pre1 : Pre b (s.emit [.write ((mkRecs s.seq sizes).map Line.rec_)]) := by
      refine ⟨g1, h.paths, h.isOpen, ?_, h.main, h.fixed, h.nofault⟩
      obtain ⟨rs, hrs⟩ := h.hdr
      refine ⟨rs ++ mkRecs s.seq sizes, ?_⟩
      show content (s.fs.slots 0) ++ (s.fs.buf ++ (mkRecs s.seq sizes).map Line.rec_) = _
      rw [← List.append_assoc, hrs]; simp
    exact ⟨pre1.congr rfl rfl rfl rfl rfl, rfl, rfl, rfl, rfl⟩

theorem flushTimer_spec (s : St) (h : Pre b s) : Step b s s.flushTimer := by
  unfold St.flushTimer
  split
  · obtain ⟨gf, kf, of, _⟩ := flushLog_spec s h.good (fun _ => h.main)
    obtain ⟨vf, _⟩ := kf.vars0
    have : Pre b s.flushLog := (h.si.kept kf gf of).pre (of.trans h.isOpen)
    exact ⟨this.congr rfl rfl rfl rfl rfl, vf.cfg, vf.fs0, vf.status, vf.hasPaths⟩
  · exact ⟨h, rfl, rfl, rfl, rfl⟩

theorem cycleTimer_spec (s : St) (h : Pre b s) : Step b s s.cycleTimer := by
  unfold St.cycleTimer
  split
  · split
    · obtain ⟨sc, oc, vc⟩ := cycle_spec s h.si h.isOpen
      exact ⟨(sc.pre oc).congr rfl rfl rfl rfl rfl, vc.cfg, vc.fs0, vc.status, vc.hasPaths⟩
    · exact ⟨h, rfl, rfl, rfl, rfl⟩
  · exact ⟨h, rfl, rfl, rfl, rfl⟩

/-- `Logger.log` on an open log -/
theorem logAll_spec (s : St) (h : Pre b s) : Step b s s.logAll := by
  have h1 := writeRec_spec s h
  have h2 := flushTimer_spec _ h1.pre
  have h3 := cycleTimer_spec _ h2.pre
  exact h1.trans (h2.trans h3)

/-! ## controls -/

theorem SI.congr {s s' : St} (h : SI b s) (h1 : s'.fs = s.fs) (h2 : s'.fs0 = s.fs0) (h3 : s'.trace = s.trace)
    (h4 : s'.cfg = s.cfg) (h5 : s'.hasPaths = s.hasPaths) (h6 : s'.first = s.first)
    (h7 : s'.logged = s.logged) (h8 : s'.failAt = s.failAt := by rfl) : SI b s' :=
  ⟨h.good.congr h1 h2 h3 h4, by rw [h5, h4, h1]; exact h.paths, by rw [h4]; exact h.fixed,
   by rw [h1, h6, h7]; exact h.empty, by rw [h1]; exact h.shape, by rw [h1]; exact h.openHdr,
   by rw [h1]; exact h.opened, by rw [h8]; exact h.nofault⟩

structure Inv (b : Bool) (s : St) : Prop where
  si : SI b s
  running : s.status ≠ .stopped → s.fs.isOpen = true

theorem start_spec (s : St) (h : Inv b s) : Inv b (s.send .start) ∧ (s.send .start).cfg = s.cfg ∧
    (s.send .start).fs0 = s.fs0 := by
  have ro := reopen_spec s s.cfg.keep h.si.good h.si.opened
  simp only [St.send]
  have hnf1 : (s.reopen s.cfg.keep).failAt = none := by rw [reopen_failAt]; exact h.si.nofault
  generalize s.reopen s.cfg.keep = s1 at ro hnf1
  -- `prepare`
  have hpaths1 : s1.hasPaths = true → 1 ≤ s1.cfg.keep ∧ ∀ i, i ≤ s1.cfg.keep → (s1.fs.slots i).isSome = true := by
    intro hp
    rw [ro.cfg]
    rw [ro.paths] at hp
    by_cases hk : 0 < s.cfg.keep
    · refine ⟨hk, fun i hi => ?_⟩
      by_cases h0 : i = 0
      · subst h0; rw [ro.main]; rfl
      · exact ro.made hk i (by omega) hi
    · have hp' : s.hasPaths = true := by simpa [hk] using hp
      obtain ⟨p1, _⟩ := h.si.paths hp'
      omega
  have hmain1 : (s1.fs.slots 0).isSome = true := by rw [ro.main]; rfl
  have pre2 : ∀ s2 : St, s2 = (if !s1.logged && s1.first then s1.emit [.write [.header]] else s1) →
      Pre b s2 ∧ s2.cfg = s1.cfg ∧ s2.fs0 = s1.fs0 := by
    intro s2 hs2
    have hfix1 : s1.cfg.emptyIsNew = true := by rw [ro.cfg]; exact h.si.fixed
    have hmb1 : content (s1.fs.slots 0) ++ s1.fs.buf = content (s.fs.slots 0) ++ s.fs.buf := by
      rw [ro.main, ro.buf]; simp [content]
    by_cases he0 : content (s.fs.slots 0) ++ s.fs.buf = []
    · -- a new (or still empty) file: this object has not logged, the header is written
      obtain ⟨a1, a2⟩ := h.si.empty he0
      have hf : s1.first = true := by rw [ro.first h.si.fixed, if_pos he0]; exact a1
      have hl : s1.logged = false := ro.logged.trans a2
      have he : content (s1.fs.slots 0) ++ s1.fs.buf = [] := by rw [hmb1]; exact he0
      have hP := ro.good.now
      have hP' := P_write_header _ _ _ hP ro.isOpen he
      have g2 : Good b (s1.emit [.write [.header]]) := emit_good ro.good _ ⟨hP, Q_of_ne (by simp), hP'⟩
      simp only [hl, hf, Bool.not_false, Bool.and_self, if_true] at hs2
      subst hs2
      refine ⟨⟨g2, hpaths1, ro.isOpen, ⟨[], ?_⟩, hmain1, hfix1, hnf1⟩, rfl, rfl⟩
      show content (s1.fs.slots 0) ++ (s1.fs.buf ++ [.header]) = _
      rw [← List.append_assoc, he]; rfl
    · -- the file has content: it starts with its header, none is added
      have hf : s1.first = false := by rw [ro.first h.si.fixed, if_neg he0]
      simp only [hf, Bool.and_false, Bool.false_eq_true, if_false] at hs2
      subst hs2
      rcases h.si.shape with he | ⟨rs, hrs⟩
      · exact absurd he he0
      · exact ⟨⟨ro.good, hpaths1, ro.isOpen, ⟨rs, by rw [hmb1]; exact hrs⟩, hmain1, hfix1, hnf1⟩, rfl, rfl⟩
  obtain ⟨p2, c2, f2⟩ := pre2 _ rfl
  generalize (if !s1.logged && s1.first then s1.emit [.write [.header]] else s1) = s2 at p2 c2 f2
  have st := logAll_spec s2 p2
  refine ⟨⟨(st.pre.si).congr rfl rfl rfl rfl rfl rfl rfl, fun _ => st.pre.isOpen⟩,
    st.cfg.trans (c2.trans ro.cfg), st.fs0.trans (f2.trans ro.fs0)⟩

theorem run_spec (s : St) (h : Inv b s) (hr : s.status ≠ .stopped) : Inv b (s.send .run) ∧
    (s.send .run).cfg = s.cfg ∧ (s.send .run).fs0 = s.fs0 := by
  have st := logAll_spec s (h.si.pre (h.running hr))
  simp only [St.send]
  exact ⟨⟨(st.pre.si).congr rfl rfl rfl rfl rfl rfl rfl, fun _ => st.pre.isOpen⟩, st.cfg, st.fs0⟩

theorem SI.closed {s s' : St} (h : SI b s) (hk : Kept s s') (hg : Good b s') (hc : s'.fs.isOpen = false)
    (hne : content (s.fs.slots 0) ++ s.fs.buf ≠ []) : SI b s' := by
  obtain ⟨v, vf⟩ := hk.vars0
  refine ⟨hg, ?_, by rw [v.cfg]; exact h.fixed, ?_, by rw [hk.main]; exact h.shape, ?_, ?_,
    by rw [v.failAt]; exact h.nofault⟩
  · intro hp
    rw [v.hasPaths] at hp
    obtain ⟨p1, p2⟩ := h.paths hp
    rw [v.cfg]
    exact ⟨p1, fun i hi => by rw [hk.some i]; exact p2 i hi⟩
  · intro he; rw [hk.main] at he; exact absurd he hne
  · intro hop; rw [hc] at hop; cases hop
  · intro hop; rw [hc] at hop; cases hop

theorem stop_spec (s : St) (h : Inv b s) : Inv b (s.send .stop) ∧ (s.send .stop).cfg = s.cfg ∧
    (s.send .stop).fs0 = s.fs0 := by
  simp only [St.send]
  by_cases hst : s.status = .stopped
  · rw [if_pos hst]; exact ⟨h, rfl, rfl⟩
  · rw [if_neg hst]
    have st := logAll_spec s (h.si.pre (h.running hst))
    generalize s.logAll = s1 at st
    have cy : ∀ s2 : St, s2 = (if s1.cfg.keep ≠ 0 ∧ s1.cfg.reuse = true then s1.cycle else s1) →
        SI b s2 ∧ s2.fs.isOpen = true ∧ s2.cfg = s1.cfg ∧ s2.fs0 = s1.fs0 := by
      intro s2 hs2
      subst hs2
      split
      · obtain ⟨sc, oc, vc⟩ := cycle_spec s1 st.pre.si st.pre.isOpen
        exact ⟨sc, oc, vc.cfg, vc.fs0⟩
      · exact ⟨st.pre.si, st.pre.isOpen, rfl, rfl⟩
    obtain ⟨si2, o2, c2, f2⟩ := cy _ rfl
    generalize (if s1.cfg.keep ≠ 0 ∧ s1.cfg.reuse = true then s1.cycle else s1) = s2 at si2 o2 c2 f2
    obtain ⟨g3, k3, c3, _⟩ := closeLog_spec s2 si2.good si2.opened
    have si3 := si2.closed k3 g3 c3 (si2.openHdr o2)
    obtain ⟨v3, _⟩ := k3.vars0
    refine ⟨⟨si3.congr rfl rfl rfl rfl rfl rfl rfl, fun hne => absurd rfl hne⟩,
      v3.cfg.trans (c2.trans st.cfg), v3.fs0.trans (f2.trans st.fs0)⟩

/-- a new process life -/
theorem reboot_spec' (s : St) (hgood : Good b s) (hfixed : s.cfg.emptyIsNew = true)
    (hshape : Shape (content (s.fs.slots 0) ++ s.fs.buf)) (hnf : s.failAt = none) :
    Inv b s.reboot ∧ s.reboot.cfg = s.cfg ∧ s.reboot.fs0 = s.fs0 := by
  have hP := hgood.now
  have g1 : Good b (s.emit [if s.cfg.reuse then .reboot else .newdir]) := by
    apply emit_good hgood
    by_cases hr : s.cfg.reuse = true
    · rw [if_pos hr]; exact ⟨hP, Q_of_ne (by simp), P_reboot _ _ _ hP⟩
    · rw [if_neg hr]; exact ⟨hP, Q_of_ne (by simp), P_newdir _ _ _⟩
  have hclosed : (s.fs.apply (if s.cfg.reuse then Prim.reboot else Prim.newdir)).isOpen = false := by
    split <;> rfl
  have hbuf : (s.fs.apply (if s.cfg.reuse then Prim.reboot else Prim.newdir)).buf = [] := by
    split <;> rfl
  suffices si : SI b s.reboot from ⟨⟨si, fun hne => absurd rfl hne⟩, rfl, rfl⟩
  refine ⟨g1.congr rfl rfl rfl rfl, ?_, hfixed, ?_, ?_, ?_, ?_, hnf⟩
  · intro hp; cases hp
  · intro _; exact ⟨rfl, rfl⟩
  · -- what survives is a prefix of what was there
    show Shape (content ((s.fs.apply (if s.cfg.reuse then Prim.reboot else Prim.newdir)).slots 0) ++
      (s.fs.apply (if s.cfg.reuse then Prim.reboot else Prim.newdir)).buf)
    rw [hbuf, List.append_nil]
    by_cases hr : s.cfg.reuse = true
    · rw [if_pos hr]
      exact Shape_prefix _ _ hshape
    · rw [if_neg hr]; exact Shape_nil
  · intro ho
    have : (s.fs.apply (if s.cfg.reuse then Prim.reboot else Prim.newdir)).isOpen = true := ho
    rw [hclosed] at this; cases this
  · intro ho
    have : (s.fs.apply (if s.cfg.reuse then Prim.reboot else Prim.newdir)).isOpen = true := ho
    rw [hclosed] at this; cases this

theorem reboot_spec (s : St) (h : Inv b s) :
    Inv b s.reboot ∧ s.reboot.cfg = s.cfg ∧ s.reboot.fs0 = s.fs0 :=
  reboot_spec' s h.si.good h.si.fixed h.si.shape h.si.nofault

theorem AllP_prefix {cfg : Cfg} {fs : FS} {a : Acct} {xs ys : List Prim} (h : AllP cfg b fs a (xs ++ ys)) :
    AllP cfg b fs a xs := by
  induction xs generalizing fs a with
  | nil => exact AllP_head h
  | cons p r ih => exact ⟨h.1, h.2.1, ih h.2.2⟩

/-- **a process killed in the middle of a control**: every prefix of the control's primitives is a
crash point where `P` holds (headers included), and that is all the next process needs: the state
it starts from is as good as one reached between controls -/
theorem cut_spec (s s' : St) (k : Nat) (hb : b = true) (h' : Inv b s') :
    Inv b (St.cut s s' k) ∧ (St.cut s s' k).cfg = s'.cfg ∧ (St.cut s s' k).fs0 = s'.fs0 := by
  have hall : AllP s'.cfg b s'.fs0 {} (s'.trace.take (s.trace.length + k)) := by
    have := h'.si.good.all
    rw [← List.take_append_drop (s.trace.length + k) s'.trace] at this
    exact AllP_prefix this
  have hg : Good b (St.cutMid s s' k) := ⟨rfl, hall⟩
  exact reboot_spec' _ hg h'.si.fixed (hg.now.shape0 hb) h'.si.nofault

/-- RUN only to a started / running logger -/
theorem ctl_spec (s : St) (c : Ctl) (h : Inv b s) (hp : proto s.status [.ctl c] = true) :
    Inv b (s.send c) ∧ (s.send c).cfg = s.cfg ∧ (s.send c).fs0 = s.fs0 := by
  cases c with
  | start => exact start_spec s h
  | stop => exact stop_spec s h
  | run =>
    have hr : s.status ≠ .stopped := by
      intro e; rw [e] at hp; simp [proto] at hp
    exact run_spec s h hr

theorem step_spec (s : St) (op : Op) (hb : b = true) (h : Inv b s) (hp : proto s.status [op] = true) :
    Inv b (s.step op) ∧ (s.step op).cfg = s.cfg ∧ (s.step op).fs0 = s.fs0 := by
  cases op with
  | fault n => simp [proto] at hp
  | die c k =>
    have hc : proto s.status [.ctl c] = true := by
      cases c <;> simp [proto] at hp ⊢
      exact hp
    obtain ⟨i1, c1, f1⟩ := ctl_spec s c h hc
    obtain ⟨i2, c2, f2⟩ := cut_spec s (s.send c) k hb i1
    exact ⟨i2, c2.trans c1, f2.trans f1⟩
  | advance d =>
    exact ⟨⟨h.si.congr rfl rfl rfl rfl rfl rfl rfl, h.running⟩, rfl, rfl⟩
  | batch n =>
    exact ⟨⟨h.si.congr rfl rfl rfl rfl rfl rfl rfl, h.running⟩, rfl, rfl⟩
  | reboot => exact reboot_spec s h
  | ctl c =>
    cases c with
    | start => exact start_spec s h
    | stop => exact stop_spec s h
    | run =>
      have hr : s.status ≠ .stopped := by
        intro e; rw [e] at hp; simp [proto] at hp
      exact run_spec s h hr

/-- the runner's status after an operation -/
def nextStatus (st : Status) : Op → Status
  | .ctl .start => .started
  | .ctl .run => .running
  | .ctl .stop => .stopped
  | .reboot => .stopped
  | .die _ _ => .stopped
  | _ => st

theorem step_status (s : St) (op : Op) : (s.step op).status = nextStatus s.status op := by
  cases op with
  | advance d => rfl
  | batch n => rfl
  | reboot => rfl
  | die c k => rfl
  | fault n => rfl
  | ctl c =>
    cases c with
    | start => rfl
    | run => rfl
    | stop =>
      simp only [St.step, St.send, nextStatus]
      split
      · assumption
      · rfl

theorem proto_cons (st : Status) (op : Op) (rest : List Op) (h : proto st (op :: rest) = true) :
    proto st [op] = true ∧ proto (nextStatus st op) rest = true := by
  cases op with
  | advance d => exact ⟨rfl, h⟩
  | batch n => exact ⟨rfl, h⟩
  | reboot => exact ⟨rfl, h⟩
  | fault n => simp [proto] at h
  | die c k =>
    simp only [proto, Bool.and_eq_true] at h ⊢
    exact ⟨⟨h.1, trivial⟩, h.2⟩
  | ctl c =>
    cases c with
    | start => exact ⟨rfl, h⟩
    | stop => exact ⟨rfl, h⟩
    | run =>
      simp only [proto, Bool.and_eq_true] at h ⊢
      exact ⟨⟨h.1, trivial⟩, h.2⟩

theorem exec_spec (s : St) (h : List Op) (hb : b = true) (hi : Inv b s) (hp : proto s.status h = true) :
    Inv b (s.exec h) ∧ (s.exec h).cfg = s.cfg ∧ (s.exec h).fs0 = s.fs0 := by
  induction h generalizing s with
  | nil => exact ⟨hi, rfl, rfl⟩
  | cons op rest ih =>
    obtain ⟨p1, p2⟩ := proto_cons _ _ _ hp
    obtain ⟨i1, c1, f1⟩ := step_spec s op hb hi p1
    obtain ⟨i2, c2, f2⟩ := ih (s.step op) i1 (by rw [step_status]; exact p2)
    exact ⟨i2, c2.trans c1, f2.trans f1⟩

theorem init_inv (cfg : Cfg) (hfix : cfg.emptyIsNew = true) : Inv b (St.init cfg) := by
  refine ⟨⟨⟨rfl, P_empty cfg.keep⟩, ?_, hfix, ?_, Shape_nil, ?_, ?_, rfl⟩, ?_⟩
  · intro h; cases h
  · intro _; exact ⟨rfl, rfl⟩
  · intro h; cases h
  · intro h; cases h
  · intro h; exact absurd rfl h

/-- the invariant `P` (header claims included) at every crash point of a protocol-respecting history
over any number of process lives, from an empty directory -/
theorem crash_points (cfg : Cfg) (hfix : cfg.emptyIsNew = true) (h : List Op) (hp : proto .stopped h = true)
    (n : Nat) :
    P cfg.keep true (({} : FS).applyAll (((St.init cfg).exec h).trace.take n))
      (acctOf (((St.init cfg).exec h).trace.take n)) := by
  obtain ⟨i, c, f⟩ := exec_spec (b := true) (St.init cfg) h rfl (init_inv cfg hfix) hp
  have hall := i.si.good.all
  have hf : ((St.init cfg).exec h).fs0 = {} := f
  have hc : ((St.init cfg).exec h).cfg = cfg := c
  rw [hf, hc] at hall
  exact AllP_take hall n

theorem rotation_points (cfg : Cfg) (hfix : cfg.emptyIsNew = true) (h : List Op) (hp : proto .stopped h = true)
    (n : Nat) (p : Prim) (hn : ((St.init cfg).exec h).trace[n]? = some p) :
    Q cfg (({} : FS).applyAll (((St.init cfg).exec h).trace.take n)) p := by
  obtain ⟨i, c, f⟩ := exec_spec (b := true) (St.init cfg) h rfl (init_inv cfg hfix) hp
  have hall := i.si.good.all
  rw [f, c] at hall
  exact AllP_Q hall n p hn

/-! ## the records are numbered in the order they are written -/

theorem recW_append (a b : List Prim) : recW (a ++ b) = recW a ++ recW b := by
  induction a with
  | nil => rfl
  | cons p r ih => cases p <;> simp [recW, ih, List.append_assoc]

theorem written_step (a : Acct) (p : Prim) : (a.step p).written.Sublist (a.written ++ recW [p]) := by
  cases p with
  | write ls => simp [Acct.step, Acct.written, recW, List.append_assoc]
  | sync => simp [Acct.step, Acct.written, recW]
  | closeF => simp [Acct.step, Acct.written, recW]
  | rename k => cases k <;> simp [Acct.step, Acct.written, recW]
  | renameErr k => simp [Acct.step, Acct.written, recW]
  | create => simp [Acct.step, Acct.written, recW]
  | openA => simp [Acct.step, Acct.written, recW]
  | touch k => simp [Acct.step, Acct.written, recW]
  | reboot => simp [Acct.step, Acct.written, recW]
  | newdir => simp [Acct.step, Acct.written, recW]

theorem written_stepAll (a : Acct) (ps : List Prim) : (a.stepAll ps).written.Sublist (a.written ++ recW ps) := by
  induction ps generalizing a with
  | nil => simp [Acct.stepAll, recW]
  | cons p r ih =>
    rw [stepAll_cons]
    have h1 := ih (a.step p)
    have h2 := written_step a p
    have : recW (p :: r) = recW [p] ++ recW r := by
      have := recW_append [p] r; simpa using this
    rw [this, ← List.append_assoc]
    exact h1.trans (List.Sublist.append_right h2 _)

/-- the records that survive in the accounts are, in order, among those the trace wrote -/
theorem written_acctOf (tr : List Prim) : (acctOf tr).written.Sublist (recW tr) := by
  have := written_stepAll {} tr
  simpa [acctOf, Acct.stepAll, Acct.written] using this

/-- `s'` wrote no record beyond those of `s` -/
def NoRec (s s' : St) : Prop := recW s'.trace = recW s.trace ∧ s'.seq = s.seq

theorem NoRec.refl (s : St) : NoRec s s := ⟨rfl, rfl⟩
theorem NoRec.trans {a b c : St} (h1 : NoRec a b) (h2 : NoRec b c) : NoRec a c :=
  ⟨h2.1.trans h1.1, h2.2.trans h1.2⟩

theorem emit_noRec (s : St) (ps : List Prim) (h : recW ps = []) : NoRec s (s.emit ps) := by
  refine ⟨?_, rfl⟩
  show recW (s.trace ++ ps) = _
  rw [recW_append, h, List.append_nil]

theorem flushLog_noRec (s : St) : NoRec s s.flushLog := by
  unfold St.flushLog; split
  · exact emit_noRec s _ rfl
  · exact NoRec.refl s

theorem closeLog_noRec (s : St) : NoRec s s.closeLog := by
  unfold St.closeLog; split
  · exact emit_noRec s _ rfl
  · exact NoRec.refl s

theorem recW_touches (ks : List Nat) : recW (ks.map fun k => Prim.touch (k + 1)) = [] := by
  induction ks with
  | nil => rfl
  | cons k r ih => simpa [recW] using ih

theorem reopen_noRec (s : St) (k : Nat) : NoRec s (s.reopen k) := by
  unfold St.reopen
  simp only []
  have h1 := closeLog_noRec s
  generalize s.closeLog = s1 at h1
  have h2 : NoRec s1 (if s1.oldFile then { s1 with first := false } else s1) := by
    split <;> exact ⟨rfl, rfl⟩
  generalize (if s1.oldFile then ({ s1 with first := false } : St) else s1) = s2 at h2
  have h3 := emit_noRec s2 [.openA] rfl
  split
  · have h4 := emit_noRec (s2.emit [.openA]) ((List.range k).map fun k => Prim.touch (k + 1)) (recW_touches _)
    exact h1.trans (h2.trans (h3.trans ⟨h4.1, h4.2⟩))
  · exact h1.trans (h2.trans h3)

theorem renames_noRec (s : St) (k : Nat) : NoRec s (s.renames k).1 := by
  induction k generalizing s with
  | zero => exact NoRec.refl s
  | succ k ih =>
    have hset : ∀ (f : Option Nat), NoRec s ({ s with failAt := f } : St) := fun _ => ⟨rfl, rfl⟩
    unfold St.renames
    split
    · exact (hset none).trans (emit_noRec _ _ (by split <;> rfl))
    · simp only []
      split
      · exact ((hset _).trans (emit_noRec _ [.rename k] rfl)).trans (ih _)
      · exact (hset _).trans (emit_noRec _ [.rename k] rfl)

theorem cycle_noRec (s : St) : NoRec s s.cycle := by
  unfold St.cycle
  split
  · exact NoRec.refl s
  · simp only []
    have h1 := flushLog_noRec s
    generalize s.flushLog = s1 at h1
    split
    · exact h1
    · split
      · exact h1
      · have h2 := closeLog_noRec s1
        generalize s1.closeLog = s2 at h2
        have h3 := renames_noRec s2 s2.cfg.keep
        rcases hr : s2.renames s2.cfg.keep with ⟨s3, ok⟩
        rw [hr] at h3
        simp only at h3
        cases ok
        · exact h1.trans (h2.trans (h3.trans (reopen_noRec s3 0)))
        · have h4 := emit_noRec s3 [.create, .write [.header]] rfl
          exact h1.trans (h2.trans (h3.trans (h4.trans (reopen_noRec _ 0))))

/-- the records written so far are numbered `0, 1, …, seq-1` -/
def Numbered (s : St) : Prop := (recW s.trace).map (·.n) = List.range s.seq

theorem Numbered.noRec {s s' : St} (h : Numbered s) (hn : NoRec s s') : Numbered s' := by
  unfold Numbered; rw [hn.1, hn.2]; exact h

theorem mkRecs_numbers (seq : Nat) (sizes : List Nat) :
    List.range seq ++ (mkRecs seq sizes).map (·.n) = List.range (seq + sizes.length) := by
  induction sizes generalizing seq with
  | nil => simp [mkRecs]
  | cons sz r ih =>
    simp only [mkRecs, List.map_cons, List.length_cons]
    have := ih (seq + 1)
    rw [List.range_succ, List.append_assoc] at this
    rw [show seq + (r.length + 1) = seq + 1 + r.length by omega]
    simpa using this

theorem logAll_numbered (s : St) (h : Numbered s) : Numbered s.logAll := by
  have h1 : Numbered s.writeRec := by
    unfold St.writeRec
    cases hb : s.batch with
    | none => exact h
    | some sizes =>
      unfold Numbered
      show (recW (s.trace ++ [.write ((mkRecs s.seq sizes).map Line.rec_)])).map (·.n) =
        List.range (s.seq + sizes.length)
      rw [recW_append, List.map_append, h]
      simp only [recW, recsOf_recs, List.append_nil]
      exact mkRecs_numbers s.seq sizes
  have h2 : Numbered s.writeRec.flushTimer := by
    unfold St.flushTimer
    split
    · exact h1.noRec ⟨(flushLog_noRec _).1, (flushLog_noRec _).2⟩
    · exact h1
  unfold St.logAll St.cycleTimer
  split
  · split
    · exact h2.noRec ⟨(cycle_noRec _).1, (cycle_noRec _).2⟩
    · exact h2
  · exact h2

theorem recW_take_prefix (tr : List Prim) (n : Nat) : ∃ rest, recW tr = recW (tr.take n) ++ rest := by
  refine ⟨recW (tr.drop n), ?_⟩
  rw [← recW_append, List.take_append_drop]

theorem range_take (n m : Nat) (h : m ≤ n) : (List.range n).take m = List.range m := by
  rw [List.take_range]; congr 1; omega

theorem cut_numbered (s s' : St) (k : Nat) (h : Numbered s') : Numbered (St.cut s s' k) := by
  obtain ⟨rest, hr⟩ := recW_take_prefix s'.trace (s.trace.length + k)
  have hmid : Numbered (St.cutMid s s' k) := by
    show (recW (s'.trace.take (s.trace.length + k))).map (·.n) =
      List.range (recW (s'.trace.take (s.trace.length + k))).length
    have h1 : (recW s'.trace).map (·.n) = List.range s'.seq := h
    rw [hr, List.map_append] at h1
    have h2 := congrArg (List.take (recW (s'.trace.take (s.trace.length + k))).length) h1
    rw [List.take_left' (by simp)] at h2
    rw [h2]
    apply range_take
    have := congrArg List.length h1
    simp at this
    omega
  have := emit_noRec (St.cutMid s s' k) [if (St.cutMid s s' k).cfg.reuse then .reboot else .newdir]
    (by split <;> rfl)
  exact hmid.noRec ⟨this.1, this.2⟩

theorem send_numbered (s : St) (c : Ctl) (h : Numbered s) : Numbered (s.send c) := by
  cases c with
  | run => exact logAll_numbered s h
  | start =>
    simp only [St.send]
    have h1 := h.noRec (reopen_noRec s s.cfg.keep)
    generalize s.reopen s.cfg.keep = s1 at h1
    have h2 : Numbered (if !s1.logged && s1.first then s1.emit [.write [.header]] else s1) := by
      split
      · exact h1.noRec (emit_noRec s1 _ rfl)
      · exact h1
    exact logAll_numbered _ h2
  | stop =>
    simp only [St.send]
    split
    · exact h
    · have h1 := logAll_numbered s h
      generalize s.logAll = s1 at h1
      have h2 : Numbered (if s1.cfg.keep ≠ 0 ∧ s1.cfg.reuse = true then s1.cycle else s1) := by
        split
        · exact h1.noRec (cycle_noRec s1)
        · exact h1
      exact h2.noRec ⟨(closeLog_noRec _).1, (closeLog_noRec _).2⟩

theorem step_numbered (s : St) (op : Op) (h : Numbered s) : Numbered (s.step op) := by
  cases op with
  | fault n => exact h
  | die c k => exact cut_numbered s (s.send c) k (send_numbered s c h)
  | advance d => exact h
  | batch n => exact h
  | reboot =>
    have := emit_noRec s [if s.cfg.reuse then .reboot else .newdir] (by split <;> rfl)
    exact h.noRec ⟨this.1, this.2⟩
  | ctl c =>
    cases c with
    | run => exact logAll_numbered s h
    | start =>
      simp only [St.step, St.send]
      have h1 := h.noRec (reopen_noRec s s.cfg.keep)
      generalize s.reopen s.cfg.keep = s1 at h1
      have h2 : Numbered (if !s1.logged && s1.first then s1.emit [.write [.header]] else s1) := by
        split
        · exact h1.noRec (emit_noRec s1 _ rfl)
        · exact h1
      exact logAll_numbered _ h2
    | stop =>
      simp only [St.step, St.send]
      split
      · exact h
      · have h1 := logAll_numbered s h
        generalize s.logAll = s1 at h1
        have h2 : Numbered (if s1.cfg.keep ≠ 0 ∧ s1.cfg.reuse = true then s1.cycle else s1) := by
          split
          · exact h1.noRec (cycle_noRec s1)
          · exact h1
        exact h2.noRec ⟨(closeLog_noRec _).1, (closeLog_noRec _).2⟩

theorem exec_numbered (s : St) (h : List Op) (hn : Numbered s) : Numbered (s.exec h) := by
  induction h generalizing s with
  | nil => exact hn
  | cons op rest ih => exact ih _ (step_numbered s op hn)

end Ioflo.Rotate
