import IofloModel.Model.RotateMulti
import IofloModel.Lemmas.Rotate
/-!
Lemmas for multi-log loggers (C23): the logger's variables move in lockstep in every component, so
the per-phase loops of `Logger` are, log by log, the single-log logger.
-/
namespace Ioflo.Rotate

/-- the logger's own variables -/
def lcfg (c : Cfg) : Nat × Int × Int × Bool := (c.keep, c.cyclePeriod, c.flushPeriod, c.reuse)

theorem lcfg_fields {a b : Cfg} (h : lcfg a = lcfg b) :
    a.keep = b.keep ∧ a.cyclePeriod = b.cyclePeriod ∧ a.flushPeriod = b.flushPeriod ∧ a.reuse = b.reuse := by
  simpa [lcfg] using h

/-- the logger's own variables (the header size and the size threshold play no part in its decisions
about *when* to flush and cycle; the header size may differ from log to log) -/
def lv (s : St) : (Nat × Int × Int × Bool) × Int × Int × Int × Status :=
  (lcfg s.cfg, s.stamp, s.flushStamp, s.cycleStamp, s.status)

theorem lv_emit (s : St) (ps : List Prim) : lv (s.emit ps) = lv s := rfl

theorem lv_flushLog (s : St) : lv s.flushLog = lv s := by unfold St.flushLog; split <;> rfl

theorem lv_closeLog (s : St) : lv s.closeLog = lv s := by unfold St.closeLog; split <;> rfl

theorem lv_reopen (s : St) (k : Nat) : lv (s.reopen k) = lv s := by
  unfold St.reopen
  simp only []
  have h1 := lv_closeLog s
  generalize s.closeLog = s1 at h1
  have h2 : lv (if s1.oldFile then { s1 with first := false } else s1) = lv s1 := by split <;> rfl
  generalize (if s1.oldFile then ({ s1 with first := false } : St) else s1) = s2 at h2
  split
  · exact (show lv _ = lv s2 from rfl).trans (h2.trans h1)
  · exact (show lv _ = lv s2 from rfl).trans (h2.trans h1)

theorem lv_renames (s : St) (k : Nat) : lv (s.renames k).1 = lv s := by
  induction k generalizing s with
  | zero => rfl
  | succ k ih =>
    unfold St.renames
    split
    · rfl
    · simp only []
      split
      · exact (ih _).trans rfl
      · rfl

theorem lv_cycle (s : St) : lv s.cycle = lv s := by
  unfold St.cycle
  split
  · rfl
  · simp only []
    have h1 := lv_flushLog s
    generalize s.flushLog = s1 at h1
    split
    · exact h1
    · split
      · exact h1
      · have h2 := lv_closeLog s1
        generalize s1.closeLog = s2 at h2
        have h3 := lv_renames s2 s2.cfg.keep
        rcases hr : s2.renames s2.cfg.keep with ⟨s3, ok⟩
        rw [hr] at h3
        simp only at h3
        cases ok
        · exact (lv_reopen s3 0).trans (h3.trans (h2.trans h1))
        · exact (lv_reopen _ 0).trans ((lv_emit s3 _).trans (h3.trans (h2.trans h1)))

theorem lv_writeRec (s : St) : lv s.writeRec = lv s := by
  unfold St.writeRec; split <;> rfl

theorem lv_prepareHdr (s : St) : lv s.prepareHdr = lv s := by
  unfold St.prepareHdr; split <;> rfl

/-- the flush-timer condition is the logger's -/
def flushDue (s : St) : Prop := s.stamp - s.flushStamp ≥ s.cfg.flushPeriod
def cycleDue (s : St) : Prop := s.cfg.keep ≠ 0 ∧ s.stamp - s.cycleStamp ≥ s.cfg.cyclePeriod

instance (s : St) : Decidable (flushDue s) := by unfold flushDue; exact inferInstance
instance (s : St) : Decidable (cycleDue s) := by unfold cycleDue; exact inferInstance

theorem flushDue_congr {x y : St} (h : lv x = lv y) : flushDue x ↔ flushDue y := by
  simp only [lv, Prod.mk.injEq] at h
  obtain ⟨h1, h2, h3, _, _⟩ := h
  unfold flushDue; rw [(lcfg_fields h1).2.2.1, h2, h3]

theorem cycleDue_congr {x y : St} (h : lv x = lv y) : cycleDue x ↔ cycleDue y := by
  simp only [lv, Prod.mk.injEq] at h
  obtain ⟨h1, h2, _, h4, _⟩ := h
  unfold cycleDue; rw [(lcfg_fields h1).1, (lcfg_fields h1).2.1, h2, h4]

theorem flushTimer_eq (s : St) :
    s.flushTimer = if flushDue s then { s.flushLog with flushStamp := s.stamp } else s := rfl

theorem cycleTimer_eq (s : St) :
    s.cycleTimer = if cycleDue s then { s.cycle with cycleStamp := s.stamp } else s := by
  unfold St.cycleTimer cycleDue
  by_cases h1 : s.cfg.keep ≠ 0
  · by_cases h2 : s.stamp - s.cycleStamp ≥ s.cfg.cyclePeriod
    · simp [h1, h2]
    · simp [h1, h2]
  · simp [h1]

/-- all components carry the same logger variables -/
def Coherent (ms : MSt) : Prop := ∀ x ∈ ms, ∀ y ∈ ms, lv x = lv y

theorem Coherent.map {ms : MSt} (h : Coherent ms) (f : St → St)
    (hf : ∀ x y, lv x = lv y → lv (f x) = lv (f y)) : Coherent (ms.map f) := by
  intro x hx y hy
  rw [List.mem_map] at hx hy
  obtain ⟨a, ha, rfl⟩ := hx
  obtain ⟨b, hb, rfl⟩ := hy
  exact hf a b (h a ha b hb)

/-- a per-log `if` on a logger-level condition is one decision for the whole list -/
theorem map_ite_coherent (ms : MSt) (p : St → Prop) [DecidablePred p] (f : St → St)
    (hp : ∀ x ∈ ms, ∀ y ∈ ms, (p x ↔ p y)) :
    ms.map (fun x => if p x then f x else x) =
      (match ms with
       | [] => []
       | s :: _ => if p s then ms.map f else ms) := by
  cases ms with
  | nil => rfl
  | cons s r =>
    simp only []
    by_cases hs : p s
    · rw [if_pos hs]
      apply List.map_congr_left
      intro x hx
      rw [if_pos ((hp s (by simp) x hx).1 hs)]
    · rw [if_neg hs]
      have : ∀ x ∈ s :: r, (if p x then f x else x) = x := by
        intro x hx
        rw [if_neg (fun h => hs ((hp s (by simp) x hx).2 h))]
      rw [List.map_congr_left this]
      simp

theorem MSt.flushTimer_eq_map (ms : MSt) (h : Coherent ms) : MSt.flushTimer ms = ms.map St.flushTimer := by
  have := map_ite_coherent ms flushDue (fun x => { x.flushLog with flushStamp := x.stamp })
    (fun x hx y hy => flushDue_congr (h x hx y hy))
  have hfun : (fun x : St => x.flushTimer) =
      fun x => if flushDue x then { x.flushLog with flushStamp := x.stamp } else x := by
    funext x; exact flushTimer_eq x
  rw [show ms.map St.flushTimer = ms.map (fun x => x.flushTimer) from rfl, hfun, this]
  unfold MSt.flushTimer
  cases ms <;> rfl

theorem MSt.cycleTimer_eq_map (ms : MSt) (h : Coherent ms) : MSt.cycleTimer ms = ms.map St.cycleTimer := by
  have := map_ite_coherent ms cycleDue (fun x => { x.cycle with cycleStamp := x.stamp })
    (fun x hx y hy => cycleDue_congr (h x hx y hy))
  have hfun : (fun x : St => x.cycleTimer) = fun x => if cycleDue x then { x.cycle with cycleStamp := x.stamp } else x := by
    funext x; exact cycleTimer_eq x
  rw [show ms.map St.cycleTimer = ms.map (fun x => x.cycleTimer) from rfl, hfun, this]
  unfold MSt.cycleTimer
  cases ms with
  | nil => rfl
  | cons s r =>
    simp only [cycleDue]
    by_cases h1 : s.cfg.keep ≠ 0
    · by_cases h2 : s.stamp - s.cycleStamp ≥ s.cfg.cyclePeriod
      · simp [h1, h2]
      · simp [h1, h2]
    · simp [h1]

/-! ## congruence of the logger variables -/

theorem lv_fields {x y : St} (h : lv x = lv y) :
    lcfg x.cfg = lcfg y.cfg ∧ x.stamp = y.stamp ∧ x.flushStamp = y.flushStamp ∧ x.cycleStamp = y.cycleStamp ∧
    x.status = y.status := by
  simpa [lv] using h

theorem lv_of_fields {x y : St} (h1 : lcfg x.cfg = lcfg y.cfg) (h2 : x.stamp = y.stamp) (h3 : x.flushStamp = y.flushStamp)
    (h4 : x.cycleStamp = y.cycleStamp) (h5 : x.status = y.status) : lv x = lv y := by
  simp [lv, h1, h2, h3, h4, h5]

theorem lv_flushTimer_congr {x y : St} (h : lv x = lv y) : lv x.flushTimer = lv y.flushTimer := by
  rw [flushTimer_eq, flushTimer_eq]
  obtain ⟨a1, a2, a3, a4, a5⟩ := lv_fields h
  obtain ⟨b1, b2, b3, b4, b5⟩ := lv_fields (lv_flushLog x)
  obtain ⟨c1, c2, c3, c4, c5⟩ := lv_fields (lv_flushLog y)
  by_cases hx : flushDue x
  · rw [if_pos hx, if_pos ((flushDue_congr h).1 hx)]
    exact lv_of_fields (b1.trans (a1.trans c1.symm)) (b2.trans (a2.trans c2.symm)) a2
      (b4.trans (a4.trans c4.symm)) (b5.trans (a5.trans c5.symm))
  · rw [if_neg hx, if_neg (fun hy => hx ((flushDue_congr h).2 hy))]
    exact h

theorem lv_cycleTimer_congr {x y : St} (h : lv x = lv y) : lv x.cycleTimer = lv y.cycleTimer := by
  rw [cycleTimer_eq, cycleTimer_eq]
  obtain ⟨a1, a2, a3, a4, a5⟩ := lv_fields h
  obtain ⟨b1, b2, b3, b4, b5⟩ := lv_fields (lv_cycle x)
  obtain ⟨c1, c2, c3, c4, c5⟩ := lv_fields (lv_cycle y)
  by_cases hx : cycleDue x
  · rw [if_pos hx, if_pos ((cycleDue_congr h).1 hx)]
    exact lv_of_fields (b1.trans (a1.trans c1.symm)) (b2.trans (a2.trans c2.symm))
      (b3.trans (a3.trans c3.symm)) a2 (b5.trans (a5.trans c5.symm))
  · rw [if_neg hx, if_neg (fun hy => hx ((cycleDue_congr h).2 hy))]
    exact h

theorem lv_writeRec_congr {x y : St} (h : lv x = lv y) : lv x.writeRec = lv y.writeRec := by
  rw [lv_writeRec, lv_writeRec]; exact h

theorem lv_logAll_congr {x y : St} (h : lv x = lv y) : lv x.logAll = lv y.logAll :=
  lv_cycleTimer_congr (lv_flushTimer_congr (lv_writeRec_congr h))

theorem lv_status {x y : St} (h : lv x = lv y) (st : Status) :
    lv ({ x with status := st } : St) = lv ({ y with status := st } : St) := by
  obtain ⟨a1, a2, a3, a4, _⟩ := lv_fields h
  exact lv_of_fields a1 a2 a3 a4 rfl

theorem lv_send_congr {x y : St} (h : lv x = lv y) (c : Ctl) : lv (x.send c) = lv (y.send c) := by
  cases c with
  | run => exact lv_status (lv_logAll_congr h) _
  | start =>
    simp only [St.send]
    have h1 : lv (x.reopen x.cfg.keep) = lv (y.reopen y.cfg.keep) := by
      rw [lv_reopen, lv_reopen]; exact h
    have h2 : lv (x.reopen x.cfg.keep).prepareHdr = lv (y.reopen y.cfg.keep).prepareHdr := by
      rw [lv_prepareHdr, lv_prepareHdr]; exact h1
    exact lv_status (lv_logAll_congr h2) _
  | stop =>
    simp only [St.send]
    obtain ⟨a1, a2, a3, a4, a5⟩ := lv_fields h
    by_cases hs : x.status = .stopped
    · rw [if_pos hs, if_pos (a5 ▸ hs)]; exact h
    · rw [if_neg hs, if_neg (fun e => hs (a5.trans e))]
      have h1 := lv_logAll_congr h
      have hc := lcfg_fields (lv_fields h1).1
      have h2 : lv (if x.logAll.cfg.keep ≠ 0 ∧ x.logAll.cfg.reuse = true then x.logAll.cycle else x.logAll) =
          lv (if y.logAll.cfg.keep ≠ 0 ∧ y.logAll.cfg.reuse = true then y.logAll.cycle else y.logAll) := by
        rw [hc.1, hc.2.2.2]
        split
        · rw [lv_cycle, lv_cycle]; exact h1
        · exact h1
      have h3 : ∀ (u v : St), lv u = lv v → lv u.closeLog = lv v.closeLog := by
        intro u v huv; rw [lv_closeLog, lv_closeLog]; exact huv
      exact lv_status (h3 _ _ h2) _

theorem lv_reboot_congr {x y : St} (h : lv x = lv y) : lv x.reboot = lv y.reboot := by
  obtain ⟨a1, _, _, _, _⟩ := lv_fields h
  have e : ∀ s : St, lcfg s.reboot.cfg = lcfg s.cfg := fun _ => rfl
  exact lv_of_fields ((e x).trans (a1.trans (e y).symm)) rfl rfl rfl rfl

/-! ## the per-phase loops are the single-log logger, log by log -/

theorem MSt.logAll_eq_map (ms : MSt) (h : Coherent ms) : MSt.logAll ms = ms.map St.logAll := by
  unfold MSt.logAll
  have c1 : Coherent (ms.map St.writeRec) := h.map _ (fun _ _ => lv_writeRec_congr)
  rw [MSt.flushTimer_eq_map _ c1]
  have c2 : Coherent ((ms.map St.writeRec).map St.flushTimer) := c1.map _ (fun _ _ => lv_flushTimer_congr)
  rw [MSt.cycleTimer_eq_map _ c2, List.map_map, List.map_map]
  rfl

theorem MSt.send_eq_map (ms : MSt) (h : Coherent ms) (c : Ctl) : MSt.send ms c = ms.map (fun x => x.send c) := by
  cases c with
  | run =>
    simp only [MSt.send, MSt.logAll_eq_map ms h, List.map_map]
    rfl
  | start =>
    simp only [MSt.send]
    have c1 : Coherent (ms.map fun x => x.reopen x.cfg.keep) :=
      h.map _ (fun x y hxy => by rw [lv_reopen, lv_reopen]; exact hxy)
    have c2 : Coherent ((ms.map fun x => x.reopen x.cfg.keep).map St.prepareHdr) :=
      c1.map _ (fun x y hxy => by rw [lv_prepareHdr, lv_prepareHdr]; exact hxy)
    rw [MSt.logAll_eq_map _ c2, List.map_map, List.map_map, List.map_map]
    rfl
  | stop =>
    cases ms with
    | nil => rfl
    | cons s r =>
      simp only [MSt.send]
      have hst : ∀ x ∈ s :: r, x.status = s.status := fun x hx => (lv_fields (h x hx s (by simp))).2.2.2.2
      by_cases hs : s.status = .stopped
      · rw [if_pos hs]
        have : ∀ x ∈ s :: r, x.send .stop = x := by
          intro x hx
          simp only [St.send]
          rw [if_pos ((hst x hx).trans hs)]
        rw [List.map_congr_left this]; simp
      · rw [if_neg hs, MSt.logAll_eq_map _ h]
        have c1 : Coherent ((s :: r).map St.logAll) := h.map _ (fun _ _ => lv_logAll_congr)
        have hcfg : ∀ x ∈ s :: r, x.logAll.cfg.keep = s.logAll.cfg.keep ∧ x.logAll.cfg.reuse = s.logAll.cfg.reuse := by
          intro x hx
          have := lcfg_fields (lv_fields (c1 x.logAll (List.mem_map_of_mem hx) s.logAll (List.mem_map_of_mem (by simp)))).1
          exact ⟨this.1, this.2.2.2⟩
        have hmap : (s :: r).map St.logAll = s.logAll :: r.map St.logAll := rfl
        rw [hmap]
        simp only []
        rw [← hmap]
        by_cases hc : s.logAll.cfg.keep ≠ 0 ∧ s.logAll.cfg.reuse = true
        · rw [if_pos hc, List.map_map, List.map_map]
          apply List.map_congr_left
          intro x hx
          simp only [Function.comp, St.send]
          rw [if_neg (fun e => hs ((hst x hx).symm.trans e)), (hcfg x hx).1, (hcfg x hx).2, if_pos hc]
        · rw [if_neg hc, List.map_map]
          apply List.map_congr_left
          intro x hx
          simp only [Function.comp, St.send]
          rw [if_neg (fun e => hs ((hst x hx).symm.trans e)), (hcfg x hx).1, (hcfg x hx).2, if_neg hc]

theorem setBatch_get (ms : MSt) (j : Nat) (b : Option (List Nat)) (i : Nat) :
    (setBatch ms j b)[i]? = if i = j then (ms[i]?).map (fun s => { s with batch := b }) else ms[i]? := by
  induction ms generalizing j i with
  | nil => simp [setBatch]
  | cons s r ih =>
    cases j with
    | zero =>
      cases i with
      | zero => simp [setBatch]
      | succ i => simp [setBatch]
    | succ j =>
      cases i with
      | zero => simp [setBatch]
      | succ i => simp [setBatch, ih]

theorem setBatch_coherent (ms : MSt) (j : Nat) (b : Option (List Nat)) (h : Coherent ms) :
    Coherent (setBatch ms j b) := by
  -- every component of the result has the logger variables of a component of `ms`
  have key : ∀ (ms : MSt) (j : Nat), ∀ x ∈ setBatch ms j b, ∃ y ∈ ms, lv x = lv y := by
    intro ms
    induction ms with
    | nil => intro j x hx; simp [setBatch] at hx
    | cons s r ih =>
      intro j x hx
      cases j with
      | zero =>
        simp only [setBatch, List.mem_cons] at hx
        rcases hx with rfl | hx
        · exact ⟨s, by simp, rfl⟩
        · exact ⟨x, by simp [hx], rfl⟩
      | succ j =>
        simp only [setBatch, List.mem_cons] at hx
        rcases hx with rfl | hx
        · exact ⟨x, by simp, rfl⟩
        · obtain ⟨y, hy, e⟩ := ih j x hx
          exact ⟨y, by simp [hy], e⟩
  intro x hx y hy
  obtain ⟨x', hx', ex⟩ := key ms j x hx
  obtain ⟨y', hy', ey⟩ := key ms j y hy
  rw [ex, ey]; exact h x' hx' y' hy'

theorem setFault_get (ms : MSt) (j : Nat) (b : Nat) (i : Nat) :
    (setFault ms j b)[i]? = if i = j then (ms[i]?).map (fun s => { s with failAt := some b }) else ms[i]? := by
  induction ms generalizing j i with
  | nil => simp [setFault]
  | cons s r ih =>
    cases j with
    | zero =>
      cases i with
      | zero => simp [setFault]
      | succ i => simp [setFault]
    | succ j =>
      cases i with
      | zero => simp [setFault]
      | succ i => simp [setFault, ih]

theorem setFault_coherent (ms : MSt) (j : Nat) (b : Nat) (h : Coherent ms) :
    Coherent (setFault ms j b) := by
  -- every component of the result has the logger variables of a component of `ms`
  have key : ∀ (ms : MSt) (j : Nat), ∀ x ∈ setFault ms j b, ∃ y ∈ ms, lv x = lv y := by
    intro ms
    induction ms with
    | nil => intro j x hx; simp [setFault] at hx
    | cons s r ih =>
      intro j x hx
      cases j with
      | zero =>
        simp only [setFault, List.mem_cons] at hx
        rcases hx with rfl | hx
        · exact ⟨s, by simp, rfl⟩
        · exact ⟨x, by simp [hx], rfl⟩
      | succ j =>
        simp only [setFault, List.mem_cons] at hx
        rcases hx with rfl | hx
        · exact ⟨x, by simp, rfl⟩
        · obtain ⟨y, hy, e⟩ := ih j x hx
          exact ⟨y, by simp [hy], e⟩
  intro x hx y hy
  obtain ⟨x', hx', ex⟩ := key ms j x hx
  obtain ⟨y', hy', ey⟩ := key ms j y hy
  rw [ex, ey]; exact h x' hx' y' hy'

theorem cutAll_mem (a b : List St) (j : Nat) (ks : List Nat) (x : St) (hx : x ∈ cutAll a b j ks) :
    ∃ s s' k, s' ∈ b ∧ x = St.cut s s' k := by
  induction a generalizing b j with
  | nil => simp [cutAll] at hx
  | cons s r ih =>
    cases b with
    | nil => simp [cutAll] at hx
    | cons s' r' =>
      simp only [cutAll, List.mem_cons] at hx
      rcases hx with hx | hx
      · exact ⟨s, s', _, by simp, hx⟩
      · obtain ⟨s1, s2, k, hm, e⟩ := ih r' (j + 1) hx
        exact ⟨s1, s2, k, by simp [hm], e⟩

theorem cutAll_get (a b : List St) (j : Nat) (ks : List Nat) (i : Nat) (s s' : St)
    (ha : a[i]? = some s) (hb : b[i]? = some s') :
    (cutAll a b j ks)[i]? = some (St.cut s s' (ks.getD (j + i) 0)) := by
  induction a generalizing b j i with
  | nil => simp at ha
  | cons x r ih =>
    cases b with
    | nil => simp at hb
    | cons y r' =>
      cases i with
      | zero =>
        simp only [List.getElem?_cons_zero, Option.some.injEq] at ha hb
        subst ha; subst hb
        simp [cutAll]
      | succ i =>
        simp only [List.getElem?_cons_succ] at ha hb
        simp only [cutAll, List.getElem?_cons_succ]
        rw [ih r' (j + 1) i ha hb]
        congr 3; omega

theorem lv_cut (s s' : St) (k : Nat) : lv (St.cut s s' k) = (lcfg s'.cfg, 0, 0, 0, .stopped) := rfl

theorem step_coherent (ms : MSt) (op : MOp) (h : Coherent ms) : Coherent (ms.step op) := by
  cases op with
  | die c ks =>
    simp only [MSt.step]
    have hc : Coherent (MSt.send ms c) := by
      rw [MSt.send_eq_map ms h c]
      exact h.map _ (fun _ _ hxy => lv_send_congr hxy c)
    intro x hx y hy
    obtain ⟨_, x', _, hx', rfl⟩ := cutAll_mem _ _ _ _ x hx
    obtain ⟨_, y', _, hy', rfl⟩ := cutAll_mem _ _ _ _ y hy
    rw [lv_cut, lv_cut, (lv_fields (hc x' hx' y' hy')).1]
  | advance d =>
    exact h.map _ (fun x y hxy => by
      obtain ⟨a1, a2, a3, a4, a5⟩ := lv_fields hxy
      exact lv_of_fields a1 (by show x.stamp + _ = y.stamp + _; rw [a2]) a3 a4 a5)
  | batch i b => exact setBatch_coherent ms i b h
  | fault i n => exact setFault_coherent ms i n h
  | ctl c =>
    simp only [MSt.step]
    rw [MSt.send_eq_map ms h c]
    exact h.map _ (fun _ _ hxy => lv_send_congr hxy c)
  | reboot => exact h.map _ (fun _ _ => lv_reboot_congr)

/-- **lockstep**: in a logger with several logs, log `i` is at every moment exactly where the
single-log logger would be on the history as log `i` sees it -/
theorem lockstep (ms : MSt) (h : List MOp) (hc : Coherent ms) (i : Nat) (s : St) (hs : ms[i]? = some s) :
    (MSt.exec ms h)[i]? = some (s.exec (proj i h)) := by
  induction h generalizing ms s with
  | nil => simpa [MSt.exec, proj, St.exec] using hs
  | cons op rest ih =>
    simp only [MSt.exec]
    have hc' := step_coherent ms op hc
    cases op with
    | advance d =>
      have : (ms.step (.advance d))[i]? = some (s.step (.advance d)) := by
        simp only [MSt.step, List.getElem?_map, hs, Option.map_some, St.step]
      have := ih _ hc' _ this
      simpa [proj, projOp, St.exec] using this
    | ctl c =>
      have : (ms.step (.ctl c))[i]? = some (s.step (.ctl c)) := by
        simp only [MSt.step, MSt.send_eq_map ms hc c, List.getElem?_map, hs, Option.map_some, St.step]
      have := ih _ hc' _ this
      simpa [proj, projOp, St.exec] using this
    | reboot =>
      have : (ms.step .reboot)[i]? = some (s.step .reboot) := by
        simp only [MSt.step, List.getElem?_map, hs, Option.map_some, St.step]
      have := ih _ hc' _ this
      simpa [proj, projOp, St.exec] using this
    | die c ks =>
      have : (ms.step (.die c ks))[i]? = some (s.step (.die c (ks.getD i 0))) := by
        simp only [MSt.step, St.step, St.die]
        have hb : (MSt.send ms c)[i]? = some (s.send c) := by
          simp only [MSt.send_eq_map ms hc c, List.getElem?_map, hs, Option.map_some]
        rw [cutAll_get ms _ 0 ks i s _ hs hb, Nat.zero_add]
      have := ih _ hc' _ this
      simpa [proj, projOp, St.exec] using this
    | batch j b =>
      by_cases hj : j = i
      · subst hj
        have : (ms.step (.batch j b))[j]? = some (s.step (.batch b)) := by
          simp only [MSt.step, setBatch_get, if_true, hs, Option.map_some, St.step]
        have := ih _ hc' _ this
        simpa [proj, projOp, St.exec] using this
      · have : (ms.step (.batch j b))[i]? = some s := by
          simp only [MSt.step, setBatch_get]
          rw [if_neg (fun e => hj e.symm)]; exact hs
        have := ih _ hc' _ this
        simpa [proj, projOp, hj] using this

    | fault j b =>
      by_cases hj : j = i
      · subst hj
        have : (ms.step (.fault j b))[j]? = some (s.step (.fault b)) := by
          simp only [MSt.step, setFault_get, if_true, hs, Option.map_some, St.step]
        have := ih _ hc' _ this
        simpa [proj, projOp, St.exec] using this
      · have : (ms.step (.fault j b))[i]? = some s := by
          simp only [MSt.step, setFault_get]
          rw [if_neg (fun e => hj e.symm)]; exact hs
        have := ih _ hc' _ this
        simpa [proj, projOp, hj] using this

theorem init_coherent (cfg : Cfg) (hs : List Nat) : Coherent (MSt.init cfg hs) := by
  intro x hx y hy
  simp only [MSt.init, List.mem_map] at hx hy
  obtain ⟨a, _, rfl⟩ := hx
  obtain ⟨b, _, rfl⟩ := hy
  rfl

/-- the runner protocol for a multi-log history -/
def mproto : Status → List MOp → Bool
  | _, [] => true
  | _, .ctl .start :: r => mproto .started r
  | st, .ctl .run :: r => (st != .stopped) && mproto .running r
  | _, .ctl .stop :: r => mproto .stopped r
  | _, .reboot :: r => mproto .stopped r
  | st, .die c _ :: r => (match c with | .run => st != .stopped | _ => true) && mproto .stopped r
  | _, .fault _ _ :: _ => false
  | st, _ :: r => mproto st r

theorem proto_proj (i : Nat) (st : Status) (h : List MOp) (hm : mproto st h = true) :
    proto st (proj i h) = true := by
  induction h generalizing st with
  | nil => rfl
  | cons op rest ih =>
    cases op with
    | advance d => simp only [proj, List.filterMap_cons, projOp, proto, mproto] at hm ⊢; exact ih st hm
    | reboot => simp only [proj, List.filterMap_cons, projOp, proto, mproto] at hm ⊢; exact ih _ hm
    | fault j n => simp [mproto] at hm
    | die c ks =>
      simp only [proj, List.filterMap_cons, projOp, proto, mproto, Bool.and_eq_true] at hm ⊢
      exact ⟨hm.1, ih _ hm.2⟩
    | batch j b =>
      by_cases hj : j = i
      · simp only [proj, List.filterMap_cons, projOp, hj, if_true, proto, mproto] at hm ⊢; exact ih st hm
      · simp only [proj, List.filterMap_cons, projOp, hj, if_false, mproto] at hm ⊢; exact ih st hm
    | ctl c =>
      cases c with
      | start => simp only [proj, List.filterMap_cons, projOp, proto, mproto] at hm ⊢; exact ih _ hm
      | stop => simp only [proj, List.filterMap_cons, projOp, proto, mproto] at hm ⊢; exact ih _ hm
      | run =>
        simp only [proj, List.filterMap_cons, projOp, proto, mproto, Bool.and_eq_true] at hm ⊢
        exact ⟨hm.1, ih _ hm.2⟩

end Ioflo.Rotate
