import IofloModel.Model.Server
/-! Helper lemmas for C26: the odict operations `put` / `del` / `get?`, the socket-table update
`upd`, and the invariant of the connection table with its preservation by every primitive. -/
namespace Ioflo.Server

/-! ### odict operations -/

theorem keys_put {β : Type} (l : List (Addr × β)) (k : Addr) (v : β) :
    (put l k v).map (·.1) = if k ∈ l.map (·.1) then l.map (·.1) else l.map (·.1) ++ [k] := by
  induction l with
  | nil => simp [put]
  | cons e l ih =>
    obtain ⟨k', v'⟩ := e
    simp only [put]
    by_cases h : k' = k
    · subst h; simp
    · have hne : ¬ k = k' := fun h' => h h'.symm
      simp only [h, if_false, List.map_cons, ih, List.mem_cons, hne, false_or]
      split <;> simp

theorem nodup_keys_put {β : Type} {l : List (Addr × β)} (k : Addr) (v : β)
    (h : (l.map (·.1)).Nodup) : ((put l k v).map (·.1)).Nodup := by
  rw [keys_put]
  split
  · exact h
  · next hk =>
    rw [List.nodup_append]
    refine ⟨h, by simp, ?_⟩
    intro a ha b hb
    simp only [List.mem_singleton] at hb
    subst hb
    intro hab; subst hab; exact hk ha

theorem mem_put {β : Type} {l : List (Addr × β)} {k : Addr} {v : β} {e : Addr × β}
    (h : e ∈ put l k v) : e = (k, v) ∨ e ∈ l := by
  induction l with
  | nil => simp [put] at h; exact Or.inl h
  | cons e' l ih =>
    obtain ⟨k', v'⟩ := e'
    simp only [put] at h
    split at h
    · simp only [List.mem_cons] at h
      rcases h with h | h
      · exact Or.inl h
      · exact Or.inr (List.mem_cons_of_mem _ h)
    · simp only [List.mem_cons] at h
      rcases h with h | h
      · exact Or.inr (by rw [h]; exact List.mem_cons_self)
      · rcases ih h with h' | h'
        · exact Or.inl h'
        · exact Or.inr (List.mem_cons_of_mem _ h')

theorem mem_put_self {β : Type} (l : List (Addr × β)) (k : Addr) (v : β) : (k, v) ∈ put l k v := by
  induction l with
  | nil => simp [put]
  | cons e' l ih =>
    obtain ⟨k', v'⟩ := e'
    simp only [put]
    split
    · exact List.mem_cons_self
    · exact List.mem_cons_of_mem _ ih

theorem mem_put_of_ne {β : Type} {l : List (Addr × β)} {k : Addr} {v : β} {e : Addr × β}
    (he : e ∈ l) (hk : e.1 ≠ k) : e ∈ put l k v := by
  induction l with
  | nil => cases he
  | cons e' l ih =>
    obtain ⟨k', v'⟩ := e'
    simp only [put]
    rcases List.mem_cons.mp he with h | h
    · subst h
      simp only at hk
      simp only [hk, if_false]
      exact List.mem_cons_self
    · split
      · exact List.mem_cons_of_mem _ h
      · exact List.mem_cons_of_mem _ (ih h)

theorem mem_del {β : Type} {l : List (Addr × β)} {k : Addr} {e : Addr × β}
    (h : e ∈ del l k) : e ∈ l := by
  induction l with
  | nil => cases h
  | cons e' l ih =>
    obtain ⟨k', v'⟩ := e'
    simp only [del] at h
    split at h
    · exact List.mem_cons_of_mem _ h
    · rcases List.mem_cons.mp h with h | h
      · rw [h]; exact List.mem_cons_self
      · exact List.mem_cons_of_mem _ (ih h)

theorem keys_del_sublist {β : Type} (l : List (Addr × β)) (k : Addr) :
    ((del l k).map (·.1)).Sublist (l.map (·.1)) := by
  induction l with
  | nil => exact List.Sublist.refl _
  | cons e' l ih =>
    obtain ⟨k', v'⟩ := e'
    simp only [del]
    split
    · exact List.sublist_cons_self _ _
    · exact List.Sublist.cons_cons _ ih

theorem nodup_keys_del {β : Type} {l : List (Addr × β)} (k : Addr)
    (h : (l.map (·.1)).Nodup) : ((del l k).map (·.1)).Nodup :=
  List.Nodup.sublist (keys_del_sublist l k) h

theorem not_mem_keys_del {β : Type} {l : List (Addr × β)} (k : Addr)
    (h : (l.map (·.1)).Nodup) : k ∉ (del l k).map (·.1) := by
  induction l with
  | nil => simp [del]
  | cons e' l ih =>
    obtain ⟨k', v'⟩ := e'
    simp only [List.map_cons, List.nodup_cons] at h
    simp only [del]
    split
    · next hk => subst hk; exact h.1
    · next hk =>
      simp only [List.map_cons, List.mem_cons, not_or]
      exact ⟨fun h' => hk h'.symm, ih h.2⟩

theorem get?_some_mem {β : Type} {l : List (Addr × β)} {k : Addr} {v : β}
    (h : get? l k = some v) : (k, v) ∈ l := by
  induction l with
  | nil => simp [get?] at h
  | cons e' l ih =>
    obtain ⟨k', v'⟩ := e'
    simp only [get?] at h
    split at h
    · next hk => subst hk; cases h; exact List.mem_cons_self
    · exact List.mem_cons_of_mem _ (ih h)

theorem get?_none_not_mem {β : Type} {l : List (Addr × β)} {k : Addr}
    (h : get? l k = none) : k ∉ l.map (·.1) := by
  induction l with
  | nil => simp
  | cons e' l ih =>
    obtain ⟨k', v'⟩ := e'
    simp only [get?] at h
    split at h
    · cases h
    · next hk =>
      simp only [List.map_cons, List.mem_cons, not_or]
      exact ⟨fun h' => hk h'.symm, ih h⟩

theorem get?_of_mem_nodup {β : Type} {l : List (Addr × β)} {k : Addr} {v : β}
    (hn : (l.map (·.1)).Nodup) (h : (k, v) ∈ l) : get? l k = some v := by
  induction l with
  | nil => cases h
  | cons e' l ih =>
    obtain ⟨k', v'⟩ := e'
    simp only [List.map_cons, List.nodup_cons] at hn
    simp only [get?]
    rcases List.mem_cons.mp h with h | h
    · cases h; simp
    · have : k' ≠ k := by
        intro hk; subst hk
        exact hn.1 (List.mem_map.mpr ⟨(k', v), h, rfl⟩)
      simp only [this, if_false]
      exact ih hn.2 h

theorem get?_put_self {β : Type} (l : List (Addr × β)) (k : Addr) (v : β) :
    get? (put l k v) k = some v := by
  induction l with
  | nil => simp [put, get?]
  | cons e' l ih =>
    obtain ⟨k', v'⟩ := e'
    simp only [put]
    split
    · simp [get?]
    · next hk => simp only [get?, hk, if_false]; exact ih

theorem get?_put_ne {β : Type} (l : List (Addr × β)) {k k' : Addr} (v : β) (h : k' ≠ k) :
    get? (put l k v) k' = get? l k' := by
  induction l with
  | nil => simp [put, get?, Ne.symm h]
  | cons e' l ih =>
    obtain ⟨k'', v''⟩ := e'
    simp only [put]
    split
    · next hk => subst hk; simp [get?, Ne.symm h]
    · simp only [get?]; split
      · rfl
      · exact ih

theorem get?_del_ne {β : Type} (l : List (Addr × β)) {k k' : Addr} (h : k' ≠ k) :
    get? (del l k) k' = get? l k' := by
  induction l with
  | nil => rfl
  | cons e' l ih =>
    obtain ⟨k'', v''⟩ := e'
    simp only [del]
    split
    · next hk => subst hk; simp [get?, Ne.symm h]
    · simp only [get?]; split
      · rfl
      · exact ih

theorem get?_del_self {β : Type} {l : List (Addr × β)} (k : Addr) (h : (l.map (·.1)).Nodup) :
    get? (del l k) k = none := by
  cases hg : get? (del l k) k with
  | none => rfl
  | some v =>
    exact absurd (List.mem_map.mpr ⟨(k, v), get?_some_mem hg, rfl⟩) (not_mem_keys_del k h)

/-! ### the socket table -/

theorem length_upd {α : Type} (l : List α) (i : Nat) (f : α → α) : (upd l i f).length = l.length := by
  induction l generalizing i with
  | nil => rfl
  | cons a l ih => cases i <;> simp [upd, ih]

theorem getElem?_upd {α : Type} (l : List α) (i j : Nat) (f : α → α) :
    (upd l i f)[j]? = if j = i then l[j]?.map f else l[j]? := by
  induction l generalizing i j with
  | nil => simp [upd]
  | cons a l ih =>
    cases i with
    | zero => cases j <;> simp [upd]
    | succ i =>
      cases j with
      | zero => simp [upd]
      | succ j => simp only [upd, List.getElem?_cons_succ, ih]; simp

/-- `getpeername()` of socket `id` -/
def peerOf (socks : List Sock) (id : Nat) : Option Addr := socks[id]?.map (·.peer)

theorem peerOf_upd (socks : List Sock) (i j : Nat) (f : Sock → Sock) (hf : ∀ k, (f k).peer = k.peer) :
    peerOf (upd socks i f) j = peerOf socks j := by
  unfold peerOf
  rw [getElem?_upd]
  split
  · cases socks[j]? <;> simp [hf]
  · rfl

theorem peerOf_append {socks : List Sock} {j : Nat} {a : Addr} (x : Sock)
    (h : peerOf socks j = some a) : peerOf (socks ++ [x]) j = some a := by
  unfold peerOf at *
  have hj : j < socks.length := by
    cases hs : socks[j]? with
    | none => rw [hs] at h; cases h
    | some k => exact (List.getElem?_eq_some_iff.mp hs).1
  rw [List.getElem?_append_left hj]; exact h

theorem peerOf_shutdownIncomer (socks : List Sock) (ix : Incomer) (j : Nat) :
    peerOf (shutdownIncomer socks ix) j = peerOf socks j := by
  unfold shutdownIncomer
  split
  · exact peerOf_upd _ _ _ _ (fun _ => rfl)
  · rfl

theorem peerOf_shutcloseIncomer (socks : List Sock) (ix : Incomer) (j : Nat) :
    peerOf (shutcloseIncomer socks ix).1 j = peerOf socks j := by
  unfold shutcloseIncomer
  split
  · exact peerOf_upd _ _ _ _ (fun _ => rfl)
  · rfl

theorem peerOf_shutStale (v : Version) (socks : List Sock) (tab : List (Addr × Incomer)) (ca : Addr)
    (j : Nat) : peerOf (shutStale v socks tab ca) j = peerOf socks j := by
  unfold shutStale
  split
  · exact peerOf_shutdownIncomer _ _ _
  · rfl

theorem shutcloseIncomer_ix (socks : List Sock) (ix : Incomer) :
    (shutcloseIncomer socks ix).2.sock = ix.sock ∧ (shutcloseIncomer socks ix).2.ca = ix.ca ∧
      (shutcloseIncomer socks ix).2.hasCs = false := by
  unfold shutcloseIncomer
  split
  · exact ⟨rfl, rfl, rfl⟩
  · next h => exact ⟨rfl, rfl, by simpa using h⟩

/-! ### the table invariant -/

/-- an entry stored under key `e.1`: the incomer's `.ca` is the key and its socket's peer is the key -/
def EntryOk (socks : List Sock) (e : Addr × Incomer) : Prop :=
  e.2.ca = e.1 ∧ peerOf socks e.2.sock = some e.1

structure Inv (s : State) : Prop where
  ixKeys : (s.ixes.map (·.1)).Nodup
  cxKeys : (s.cxes.map (·.1)).Nodup
  ixEnt : ∀ e ∈ s.ixes, EntryOk s.socks e
  cxEnt : ∀ e ∈ s.cxes, EntryOk s.socks e

theorem EntryOk.mono {socks socks' : List Sock} {e : Addr × Incomer}
    (hp : ∀ j a, peerOf socks j = some a → peerOf socks' j = some a) (h : EntryOk socks e) :
    EntryOk socks' e := ⟨h.1, hp _ _ h.2⟩

theorem inv_init (tls : Bool) (eha : Addr) : Inv (init tls eha) :=
  ⟨List.nodup_nil, List.nodup_nil, fun _ h => (nomatch h), fun _ h => (nomatch h)⟩

theorem inv_admitOne (v : Version) (s : State) (cs : Nat) (ca : Addr) (h : Inv s) :
    Inv (admitOne v s cs ca).state := by
  unfold admitOne
  split
  · exact h
  · next k hk =>
    split
    · exact h
    · next hchk =>
      have hca : ca = k.peer := by
        by_cases hc : ca = k.peer
        · exact hc
        · exact absurd (Or.inl hc) hchk
      have hnew : ∀ socks', (∀ j a, peerOf s.socks j = some a → peerOf socks' j = some a) →
          EntryOk socks' (ca, { sock := cs, ca := k.peer }) := by
        intro socks' hp
        exact ⟨hca.symm, hp _ _ (by unfold peerOf; rw [hk]; simp [hca])⟩
      split
      · -- TLS: into cxes
        have hp : ∀ j a, peerOf s.socks j = some a →
            peerOf (shutStale v s.socks s.cxes ca) j = some a := by
          intro j a hj; rw [peerOf_shutStale]; exact hj
        refine ⟨h.ixKeys, nodup_keys_put _ _ h.cxKeys, fun e he => (h.ixEnt e he).mono hp, ?_⟩
        intro e he
        rcases mem_put he with rfl | he
        · exact hnew _ hp
        · exact (h.cxEnt e he).mono hp
      · split
        · next old _ =>
          have hp : ∀ j a, peerOf s.socks j = some a →
              peerOf (shutdownIncomer s.socks old) j = some a := by
            intro j a hj; rw [peerOf_shutdownIncomer]; exact hj
          cases v <;> first
            | exact h
            | (refine ⟨nodup_keys_put _ _ h.ixKeys, h.cxKeys, ?_, ?_⟩
               · intro e he
                 rcases mem_put he with rfl | he
                 · exact hnew _ hp
                 · exact (h.ixEnt e he).mono hp
               · intro e he; exact (h.cxEnt e he).mono hp)
        · refine ⟨nodup_keys_put _ _ h.ixKeys, h.cxKeys, ?_, h.cxEnt⟩
          intro e he
          rcases mem_put he with rfl | he
          · exact hnew _ (fun _ _ x => x)
          · exact h.ixEnt e he

theorem inv_axes_irrelevant {s : State} (axes : List (Nat × Addr)) (h : Inv s) :
    Inv { s with axes := axes } := ⟨h.ixKeys, h.cxKeys, h.ixEnt, h.cxEnt⟩

theorem inv_axesLoop (v : Version) (s : State) (l : List (Nat × Addr)) (h : Inv s) :
    Inv (axesLoop v s l).state := by
  induction l generalizing s with
  | nil => exact inv_axes_irrelevant [] h
  | cons e rest ih =>
    obtain ⟨cs, ca⟩ := e
    unfold axesLoop
    have := inv_admitOne v { s with axes := rest } cs ca (inv_axes_irrelevant rest h)
    split
    · next s' hs => rw [hs] at this; exact ih s' this
    · next e' s' hs => rw [hs] at this; exact this

theorem inv_serviceAccepts (s : State) (h : Inv s) : Inv (serviceAccepts s) :=
  ⟨h.ixKeys, h.cxKeys, h.ixEnt, h.cxEnt⟩

theorem inv_serviceAxes (v : Version) (s : State) (h : Inv s) : Inv (serviceAxes v s).state :=
  inv_axesLoop v _ _ (inv_serviceAccepts s h)

theorem inv_shakeOne (v : Version) (s : State) (ca : Addr) (cx : Incomer) (h : Inv s)
    (hok : EntryOk s.socks (ca, cx)) : Inv (shakeOne v s ca cx).state := by
  unfold shakeOne
  split
  · have hp0 : ∀ j a, peerOf s.socks j = some a → peerOf (shutStale v s.socks s.ixes ca) j = some a := by
      intro j a hj; rw [peerOf_shutStale]; exact hj
    refine ⟨nodup_keys_put _ _ h.ixKeys, nodup_keys_del _ h.cxKeys, ?_,
      fun e he => (h.cxEnt e (mem_del he)).mono hp0⟩
    intro e he
    rcases mem_put he with rfl | he
    · exact hok.mono hp0
    · exact (h.ixEnt e he).mono hp0
  · split
    · exact h
    · split
      · exact h
      · next k hk =>
        have hp : ∀ j a, peerOf s.socks j = some a →
            peerOf (upd s.socks cx.sock (fun k => { k with hs := k.hs.tail })) j = some a := by
          intro j a hj
          exact (peerOf_upd s.socks cx.sock j (fun k => { k with hs := k.hs.tail }) (fun _ => rfl)).trans hj
        split
        · exact ⟨h.ixKeys, h.cxKeys, fun e he => (h.ixEnt e he).mono hp,
            fun e he => (h.cxEnt e he).mono hp⟩
        · have hp1 : ∀ j a, peerOf s.socks j = some a →
              peerOf (shutStale v (upd s.socks cx.sock (fun k => { k with hs := k.hs.tail })) s.ixes ca) j
                = some a := by
            intro j a hj; rw [peerOf_shutStale]; exact hp j a hj
          refine ⟨nodup_keys_put _ _ h.ixKeys, nodup_keys_del _ h.cxKeys, ?_,
            fun e he => (h.cxEnt e (mem_del he)).mono hp1⟩
          intro e he
          rcases mem_put he with rfl | he
          · exact EntryOk.mono hp1 ⟨hok.1, hok.2⟩
          · exact (h.ixEnt e he).mono hp1
        · have hp2 : ∀ j a, peerOf s.socks j = some a →
              peerOf (shutcloseIncomer (upd s.socks cx.sock (fun k => { k with hs := k.hs.tail })) cx).1 j
                = some a := by
            intro j a hj; rw [peerOf_shutcloseIncomer]; exact hp j a hj
          have hx := shutcloseIncomer_ix (upd s.socks cx.sock (fun k => { k with hs := k.hs.tail })) cx
          refine ⟨h.ixKeys, nodup_keys_put _ _ h.cxKeys, fun e he => (h.ixEnt e he).mono hp2, ?_⟩
          intro e he
          rcases mem_put he with rfl | he
          · exact ⟨by rw [hx.2.1]; exact hok.1, by rw [hx.1]; exact hp2 _ _ hok.2⟩
          · exact (h.cxEnt e he).mono hp2

/-- no primitive ever changes what `getpeername()` of an existing socket answers -/
theorem peerOf_shakeOne (v : Version) (s : State) (ca : Addr) (cx : Incomer) (j : Nat) (a : Addr)
    (hj : peerOf s.socks j = some a) : peerOf (shakeOne v s ca cx).state.socks j = some a := by
  unfold shakeOne
  split
  · show peerOf (shutStale v s.socks s.ixes ca) j = some a
    rw [peerOf_shutStale]; exact hj
  · split
    · exact hj
    · split
      · exact hj
      · have hp : peerOf (upd s.socks cx.sock (fun k => { k with hs := k.hs.tail })) j = some a :=
          (peerOf_upd s.socks cx.sock j (fun k => { k with hs := k.hs.tail }) (fun _ => rfl)).trans hj
        split
        · exact hp
        · show peerOf (shutStale v _ s.ixes ca) j = some a
          rw [peerOf_shutStale]; exact hp
        · show peerOf (shutcloseIncomer _ cx).1 j = some a
          rw [peerOf_shutcloseIncomer]; exact hp

theorem inv_cxesLoop (v : Version) (s : State) (l : List (Addr × Incomer)) (h : Inv s)
    (hl : ∀ e ∈ l, EntryOk s.socks e) : Inv (cxesLoop v s l).state := by
  induction l generalizing s with
  | nil => exact h
  | cons e rest ih =>
    obtain ⟨ca, cx⟩ := e
    unfold cxesLoop
    have hi := inv_shakeOne v s ca cx h (hl _ List.mem_cons_self)
    have hp := peerOf_shakeOne v s ca cx
    split
    · next s' hs =>
      rw [hs] at hi hp
      exact ih s' hi (fun e he => (hl e (List.mem_cons_of_mem _ he)).mono hp)
    · next e' s' hs => rw [hs] at hi; exact hi

theorem inv_serviceCxes (v : Version) (s : State) (h : Inv s) : Inv (serviceCxes v s).state :=
  inv_cxesLoop v s s.cxes h h.cxEnt

theorem inv_serviceConnects (v : Version) (s : State) (h : Inv s) : Inv (serviceConnects v s).state := by
  unfold serviceConnects
  have := inv_serviceAxes v s h
  split
  · next s' hs =>
    rw [hs] at this
    split
    · exact inv_serviceCxes v s' this
    · exact this
  · next r hr =>
    cases hs : serviceAxes v s with
    | ok s' => exact absurd hs (hr s')
    | raised e s' => rw [hs] at this; exact this

theorem inv_shutdownIx (s : State) (ca : Addr) (h : Inv s) : Inv (shutdownIx s ca).state := by
  unfold shutdownIx
  split
  · exact h
  · next ix _ =>
    have hp : ∀ j a, peerOf s.socks j = some a → peerOf (shutdownIncomer s.socks ix) j = some a := by
      intro j a hj; rw [peerOf_shutdownIncomer]; exact hj
    exact ⟨h.ixKeys, h.cxKeys, fun e he => (h.ixEnt e he).mono hp, fun e he => (h.cxEnt e he).mono hp⟩

theorem inv_closeIx (s : State) (ca : Addr) (h : Inv s) : Inv (closeIx s ca).state := by
  unfold closeIx
  split
  · exact h
  · next ix hix =>
    have hp : ∀ j a, peerOf s.socks j = some a → peerOf (shutcloseIncomer s.socks ix).1 j = some a := by
      intro j a hj; rw [peerOf_shutcloseIncomer]; exact hj
    have hx := shutcloseIncomer_ix s.socks ix
    have hold := h.ixEnt _ (get?_some_mem hix)
    refine ⟨nodup_keys_put _ _ h.ixKeys, h.cxKeys, ?_, fun e he => (h.cxEnt e he).mono hp⟩
    intro e he
    rcases mem_put he with rfl | he
    · exact ⟨by rw [hx.2.1]; exact hold.1, by rw [hx.1]; exact hp _ _ hold.2⟩
    · exact (h.ixEnt e he).mono hp

theorem inv_closeAllLoop (s : State) (l : List (Addr × Incomer)) (h : Inv s) : Inv (closeAllLoop s l) := by
  induction l generalizing s with
  | nil => exact h
  | cons e rest ih =>
    obtain ⟨ca, ix⟩ := e
    unfold closeAllLoop
    have := inv_closeIx s ca h
    split
    · next s' hs => rw [hs] at this; exact ih s' this
    · next e' s' hs => rw [hs] at this; exact ih s' this

theorem inv_removeIx (s : State) (ca : Addr) (sc : Bool) (h : Inv s) : Inv (removeIx s ca sc).state := by
  unfold removeIx
  split
  · exact h
  · next ix _ =>
    split
    · have hp : ∀ j a, peerOf s.socks j = some a → peerOf (shutcloseIncomer s.socks ix).1 j = some a := by
        intro j a hj; rw [peerOf_shutcloseIncomer]; exact hj
      exact ⟨nodup_keys_del _ h.ixKeys, h.cxKeys, fun e he => (h.ixEnt e (mem_del he)).mono hp,
        fun e he => (h.cxEnt e he).mono hp⟩
    · exact ⟨nodup_keys_del _ h.ixKeys, h.cxKeys, fun e he => h.ixEnt e (mem_del he), h.cxEnt⟩

theorem inv_step (v : Version) (s : State) (op : Op) (h : Inv s) : Inv (step v s op).state := by
  cases op with
  | arrive peer sockname reported hs =>
    exact ⟨h.ixKeys, h.cxKeys, fun e he => (h.ixEnt e he).mono (fun _ _ x => peerOf_append _ x),
      fun e he => (h.cxEnt e he).mono (fun _ _ x => peerOf_append _ x)⟩
  | serviceAccepts => exact inv_serviceAccepts s h
  | serviceAxes => exact inv_serviceAxes v s h
  | serviceCxes =>
    simp only [step]
    split
    · exact inv_serviceCxes v s h
    · exact h
  | serviceConnects => exact inv_serviceConnects v s h
  | serviceAll =>
    simp only [step, serviceAll]
    have := inv_serviceConnects v s h
    split
    · next s' hs =>
      rw [hs] at this
      unfold serviceReceivesAllIx
      split <;> exact this
    · next r hr =>
      cases hs : serviceConnects v s with
      | ok s' => exact absurd hs (hr s')
      | raised e s' => rw [hs] at this; exact this
  | shutdownIx ca => exact inv_shutdownIx s ca h
  | shutdownSendIx ca => exact inv_shutdownIx s ca h
  | shutdownReceiveIx ca => exact inv_shutdownIx s ca h
  | closeIx ca => exact inv_closeIx s ca h
  | closeAllIx => exact inv_closeAllLoop s s.ixes h
  | removeIx ca sc => exact inv_removeIx s ca sc h

theorem inv_run (v : Version) (s : State) (ops : List Op) (h : Inv s) : Inv (run v s ops) := by
  induction ops generalizing s with
  | nil => exact h
  | cons op ops ih => exact ih _ (inv_step v s op h)

/-! ### no connection is dropped from the table without being shut down (plain `Server`, repaired) -/

theorem mem_del_of_ne {β : Type} {l : List (Addr × β)} {k : Addr} {e : Addr × β}
    (he : e ∈ l) (hk : e.1 ≠ k) : e ∈ del l k := by
  induction l with
  | nil => cases he
  | cons e' l ih =>
    obtain ⟨k', v'⟩ := e'
    simp only [del]
    rcases List.mem_cons.mp he with h | h
    · subst h
      simp only at hk
      simp only [hk, if_false]
      exact List.mem_cons_self
    · split
      · exact h
      · exact List.mem_cons_of_mem _ (ih h)

/-- the socket has received `shutdown()` or `close()` -/
def isShut (socks : List Sock) (id : Nat) : Prop :=
  ∃ k, socks[id]? = some k ∧ (0 < k.shutdowns ∨ k.closed = true)

/-- a live entry of the table (one that still has its socket) wraps socket `id` -/
def heldBy (tab : List (Addr × Incomer)) (id : Nat) : Prop :=
  ∃ e ∈ tab, e.2.sock = id ∧ e.2.hasCs = true

/-- every socket ever entered into the table is still the socket of a live entry, or has been shut
down / closed, or was handed back to the caller by `removeIx(ca, shutclose=False)` -/
def Accounted (s : State) : Prop :=
  ∀ id ∈ s.admitted, heldBy (s.ixes ++ s.cxes) id ∨ isShut s.socks id ∨ id ∈ s.released

theorem isShut_upd {socks : List Sock} {i id : Nat} {f : Sock → Sock}
    (hf : ∀ k, k.shutdowns ≤ (f k).shutdowns ∧ (k.closed = true → (f k).closed = true))
    (h : isShut socks id) : isShut (upd socks i f) id := by
  obtain ⟨k, hk, hs⟩ := h
  unfold isShut
  rw [getElem?_upd]
  split
  · refine ⟨f k, by rw [hk]; rfl, ?_⟩
    rcases hs with hs | hs
    · exact Or.inl (Nat.lt_of_lt_of_le hs (hf k).1)
    · exact Or.inr ((hf k).2 hs)
  · exact ⟨k, hk, hs⟩

theorem isShut_shutdownIncomer {socks : List Sock} {id : Nat} (ix : Incomer) (h : isShut socks id) :
    isShut (shutdownIncomer socks ix) id := by
  unfold shutdownIncomer
  split
  · exact isShut_upd (fun k => ⟨Nat.le_succ _, fun hc => hc⟩) h
  · exact h

theorem isShut_shutcloseIncomer {socks : List Sock} {id : Nat} (ix : Incomer) (h : isShut socks id) :
    isShut (shutcloseIncomer socks ix).1 id := by
  unfold shutcloseIncomer
  split
  · exact isShut_upd (fun k => ⟨Nat.le_succ _, fun _ => rfl⟩) h
  · exact h

/-- shutting down an incomer that still has its socket makes that socket shut -/
theorem shutdownIncomer_shuts {socks : List Sock} {ix : Incomer} {a : Addr} (hcs : ix.hasCs = true)
    (hp : peerOf socks ix.sock = some a) : isShut (shutdownIncomer socks ix) ix.sock := by
  unfold peerOf at hp
  cases hk : socks[ix.sock]? with
  | none => rw [hk] at hp; cases hp
  | some k =>
    refine ⟨{ k with shutdowns := k.shutdowns + 1 }, ?_, Or.inl (Nat.succ_pos _)⟩
    simp only [shutdownIncomer, hcs, if_true, getElem?_upd, hk]
    rfl

theorem shutcloseIncomer_shuts {socks : List Sock} {ix : Incomer} {a : Addr} (hcs : ix.hasCs = true)
    (hp : peerOf socks ix.sock = some a) : isShut (shutcloseIncomer socks ix).1 ix.sock := by
  unfold peerOf at hp
  cases hk : socks[ix.sock]? with
  | none => rw [hk] at hp; cases hp
  | some k =>
    refine ⟨{ k with shutdowns := k.shutdowns + 1, closed := true }, ?_, Or.inr rfl⟩
    simp only [shutcloseIncomer, hcs, if_true, getElem?_upd, hk]
    rfl

theorem isShut_shutStale {v : Version} {socks : List Sock} {tab : List (Addr × Incomer)} {ca : Addr}
    {id : Nat} (h : isShut socks id) : isShut (shutStale v socks tab ca) id := by
  unfold shutStale
  split
  · exact isShut_shutdownIncomer _ h
  · exact h

theorem shutStale_shuts {socks : List Sock} {tab : List (Addr × Incomer)} {ca a : Addr} {old : Incomer}
    (hg : get? tab ca = some old) (hcs : old.hasCs = true) (hp : peerOf socks old.sock = some a) :
    isShut (shutStale .fixed2 socks tab ca) old.sock := by
  simp only [shutStale, hg]
  exact shutdownIncomer_shuts hcs hp

theorem heldBy_append {a b : List (Addr × Incomer)} {id : Nat} :
    heldBy (a ++ b) id ↔ heldBy a id ∨ heldBy b id := by
  constructor
  · rintro ⟨e, he, h1, h2⟩
    rcases List.mem_append.mp he with he | he
    · exact Or.inl ⟨e, he, h1, h2⟩
    · exact Or.inr ⟨e, he, h1, h2⟩
  · rintro (⟨e, he, h1, h2⟩ | ⟨e, he, h1, h2⟩)
    · exact ⟨e, List.mem_append_left _ he, h1, h2⟩
    · exact ⟨e, List.mem_append_right _ he, h1, h2⟩

/-- replacing the entry under `ca`: a socket held by the table is still held, unless it was the replaced
entry's — and then `hsh` says it has been shut -/
theorem held_put {tab : List (Addr × Incomer)} {ca : Addr} {new : Incomer} {id : Nat} {socks' : List Sock}
    (hn : (tab.map (·.1)).Nodup)
    (hsh : ∀ old, get? tab ca = some old → old.hasCs = true → isShut socks' old.sock)
    (h : heldBy tab id) : heldBy (put tab ca new) id ∨ isShut socks' id := by
  obtain ⟨e, he, hes, hec⟩ := h
  by_cases hek : e.1 = ca
  · have hg := get?_of_mem_nodup hn (show (e.1, e.2) ∈ tab from he)
    rw [hek] at hg
    right; rw [← hes]; exact hsh _ hg hec
  · exact Or.inl ⟨e, mem_put_of_ne he hek, hes, hec⟩

theorem held_del {tab : List (Addr × Incomer)} {ca : Addr} {id : Nat} {socks' : List Sock}
    (hn : (tab.map (·.1)).Nodup)
    (hsh : ∀ old, get? tab ca = some old → old.hasCs = true → isShut socks' old.sock)
    (h : heldBy tab id) : heldBy (del tab ca) id ∨ isShut socks' id := by
  obtain ⟨e, he, hes, hec⟩ := h
  by_cases hek : e.1 = ca
  · have hg := get?_of_mem_nodup hn (show (e.1, e.2) ∈ tab from he)
    rw [hek] at hg
    right; rw [← hes]; exact hsh _ hg hec
  · exact Or.inl ⟨e, mem_del_of_ne he hek, hes, hec⟩

/-- the bundle preserved by every operation of both servers with all repairs -/
structure AccInv (s : State) : Prop where
  inv : Inv s
  acc : Accounted s

/-- generic step: tables and socket table change such that every previously accounted socket stays
accounted -/
theorem acc_of {s s' : State} (hadm : s'.admitted = s.admitted) (hrel : ∀ id ∈ s.released, id ∈ s'.released)
    (hheld : ∀ id, heldBy (s.ixes ++ s.cxes) id →
      heldBy (s'.ixes ++ s'.cxes) id ∨ isShut s'.socks id ∨ id ∈ s'.released)
    (hshut : ∀ id, isShut s.socks id → isShut s'.socks id) (h : Accounted s) : Accounted s' := by
  intro id hid
  rw [hadm] at hid
  rcases h id hid with hh | hsh | hr
  · exact hheld id hh
  · exact Or.inr (Or.inl (hshut id hsh))
  · exact Or.inr (Or.inr (hrel id hr))

theorem acc_admitOne (s : State) (cs : Nat) (ca : Addr) (h : AccInv s) :
    AccInv (admitOne .fixed2 s cs ca).state := by
  refine ⟨inv_admitOne .fixed2 s cs ca h.inv, ?_⟩
  unfold admitOne
  split
  · exact h.acc
  · next k hk =>
    split
    · exact h.acc
    · split
      · -- TLS: into cxes, a stale pending incomer is shut down
        intro id hid
        rcases List.mem_append.mp hid with hid | hid
        · rcases h.acc id hid with hh | hsh | hr
          · rcases heldBy_append.mp hh with hh | hh
            · exact Or.inl (heldBy_append.mpr (Or.inl hh))
            · have := held_put (new := { sock := cs, ca := k.peer })
                (socks' := shutStale .fixed2 s.socks s.cxes ca) h.inv.cxKeys
                (fun old hg hcs => shutStale_shuts hg hcs (h.inv.cxEnt _ (get?_some_mem hg)).2) hh
              rcases this with t | t
              · exact Or.inl (heldBy_append.mpr (Or.inr t))
              · exact Or.inr (Or.inl t)
          · exact Or.inr (Or.inl (isShut_shutStale hsh))
          · exact Or.inr (Or.inr hr)
        · simp only [List.mem_singleton] at hid
          subst hid
          exact Or.inl (heldBy_append.mpr (Or.inr ⟨_, mem_put_self _ _ _, rfl, rfl⟩))
      · split
        · next old hold =>
          intro id hid
          rcases List.mem_append.mp hid with hid | hid
          · rcases h.acc id hid with hh | hsh | hr
            · rcases heldBy_append.mp hh with hh | hh
              · have := held_put (new := { sock := cs, ca := k.peer })
                  (socks' := shutdownIncomer s.socks old) h.inv.ixKeys
                  (fun old' hg hcs => by
                    rw [hold] at hg; cases hg
                    exact shutdownIncomer_shuts hcs (h.inv.ixEnt _ (get?_some_mem hold)).2) hh
                rcases this with t | t
                · exact Or.inl (heldBy_append.mpr (Or.inl t))
                · exact Or.inr (Or.inl t)
              · exact Or.inl (heldBy_append.mpr (Or.inr hh))
            · exact Or.inr (Or.inl (isShut_shutdownIncomer old hsh))
            · exact Or.inr (Or.inr hr)
          · simp only [List.mem_singleton] at hid
            subst hid
            exact Or.inl (heldBy_append.mpr (Or.inl ⟨_, mem_put_self _ _ _, rfl, rfl⟩))
        · next hnone =>
          intro id hid
          rcases List.mem_append.mp hid with hid | hid
          · rcases h.acc id hid with hh | hsh | hr
            · rcases heldBy_append.mp hh with hh | hh
              · have := held_put (new := { sock := cs, ca := k.peer }) (socks' := s.socks) h.inv.ixKeys
                  (fun old' hg _ => by rw [hnone] at hg; cases hg) hh
                rcases this with t | t
                · exact Or.inl (heldBy_append.mpr (Or.inl t))
                · exact Or.inr (Or.inl t)
              · exact Or.inl (heldBy_append.mpr (Or.inr hh))
            · exact Or.inr (Or.inl hsh)
            · exact Or.inr (Or.inr hr)
          · simp only [List.mem_singleton] at hid
            subst hid
            exact Or.inl (heldBy_append.mpr (Or.inl ⟨_, mem_put_self _ _ _, rfl, rfl⟩))

theorem acc_axesLoop (s : State) (l : List (Nat × Addr)) (h : AccInv s) :
    AccInv (axesLoop .fixed2 s l).state := by
  induction l generalizing s with
  | nil => exact ⟨inv_axes_irrelevant [] h.inv, h.acc⟩
  | cons e rest ih =>
    obtain ⟨cs, ca⟩ := e
    unfold axesLoop
    have := acc_admitOne { s with axes := rest } cs ca ⟨inv_axes_irrelevant rest h.inv, h.acc⟩
    split
    · next s' hs => rw [hs] at this; exact ih s' this
    · next e' s' hs => rw [hs] at this; exact this

theorem acc_serviceAxes (s : State) (h : AccInv s) : AccInv (serviceAxes .fixed2 s).state :=
  acc_axesLoop _ _ ⟨inv_serviceAccepts s h.inv, h.acc⟩

/-- moving `(ca, cx)` from `.cxes` to `.ixes` (after `shutStale`) keeps everything accounted -/
theorem acc_move {s : State} {ca : Addr} {cx cx' : Incomer} {socks0 : List Sock} (h : AccInv s)
    (hcx : (ca, cx) ∈ s.cxes) (hsock : cx'.sock = cx.sock) (hhas : cx'.hasCs = cx.hasCs)
    (hp0 : ∀ j a, peerOf s.socks j = some a → peerOf socks0 j = some a)
    (hs0 : ∀ id, isShut s.socks id → isShut socks0 id) :
    Accounted { s with socks := shutStale .fixed2 socks0 s.ixes ca, ixes := put s.ixes ca cx',
                       cxes := del s.cxes ca } := by
  intro id hid
  rcases h.acc id hid with hh | hsh | hr
  · rcases heldBy_append.mp hh with hh | hh
    · have := held_put (new := cx') (socks' := shutStale .fixed2 socks0 s.ixes ca) h.inv.ixKeys
        (fun old hg hcs => shutStale_shuts hg hcs (hp0 _ _ (h.inv.ixEnt _ (get?_some_mem hg)).2)) hh
      rcases this with t | t
      · exact Or.inl (heldBy_append.mpr (Or.inl t))
      · exact Or.inr (Or.inl t)
    · obtain ⟨e, he, hes, hec⟩ := hh
      by_cases hek : e.1 = ca
      · have g1 := get?_of_mem_nodup h.inv.cxKeys (show (e.1, e.2) ∈ s.cxes from he)
        have g2 := get?_of_mem_nodup h.inv.cxKeys hcx
        rw [hek, g2] at g1
        have he2 : e.2 = cx := (Option.some.inj g1).symm
        exact Or.inl (heldBy_append.mpr (Or.inl ⟨(ca, cx'), mem_put_self _ _ _,
          by rw [← hes, he2]; exact hsock, by rw [← he2] at hhas; rw [hhas]; exact hec⟩))
      · exact Or.inl (heldBy_append.mpr (Or.inr ⟨e, mem_del_of_ne he hek, hes, hec⟩))
  · exact Or.inr (Or.inl (isShut_shutStale (hs0 id hsh)))
  · exact Or.inr (Or.inr hr)

theorem acc_shakeOne (s : State) (ca : Addr) (cx : Incomer) (h : AccInv s) (hcx : (ca, cx) ∈ s.cxes) :
    AccInv (shakeOne .fixed2 s ca cx).state := by
  have hok := h.inv.cxEnt _ hcx
  refine ⟨inv_shakeOne .fixed2 s ca cx h.inv hok, ?_⟩
  unfold shakeOne
  split
  · exact acc_move h hcx rfl rfl (fun _ _ x => x) (fun _ x => x)
  · split
    · exact h.acc
    · next hcs =>
      have hcs' : cx.hasCs = true := by simpa using hcs
      split
      · exact h.acc
      · next k hk =>
        have hp : ∀ j a, peerOf s.socks j = some a →
            peerOf (upd s.socks cx.sock (fun k => { k with hs := k.hs.tail })) j = some a := by
          intro j a hj
          exact (peerOf_upd s.socks cx.sock j (fun k => { k with hs := k.hs.tail }) (fun _ => rfl)).trans hj
        have hs0 : ∀ id, isShut s.socks id →
            isShut (upd s.socks cx.sock (fun k => { k with hs := k.hs.tail })) id :=
          fun id hx => isShut_upd (fun k => ⟨Nat.le_refl _, fun hc => hc⟩) hx
        split
        · exact acc_of (s := s) rfl (fun _ x => x) (fun id hh => Or.inl hh) hs0 h.acc
        · exact acc_move h hcx rfl rfl hp hs0
        · -- handshake failed: the incomer is closed and stays (socket-less) in .cxes
          intro id hid
          rcases h.acc id hid with hh | hsh | hr
          · rcases heldBy_append.mp hh with hh | hh
            · exact Or.inl (heldBy_append.mpr (Or.inl hh))
            · have := held_put
                (new := (shutcloseIncomer (upd s.socks cx.sock (fun k => { k with hs := k.hs.tail })) cx).2)
                (socks' := (shutcloseIncomer (upd s.socks cx.sock (fun k => { k with hs := k.hs.tail })) cx).1)
                h.inv.cxKeys
                (fun old hg _ => by
                  have g2 := get?_of_mem_nodup h.inv.cxKeys hcx
                  rw [g2] at hg; cases hg
                  exact shutcloseIncomer_shuts hcs' (hp _ _ hok.2)) hh
              rcases this with t | t
              · exact Or.inl (heldBy_append.mpr (Or.inr t))
              · exact Or.inr (Or.inl t)
          · exact Or.inr (Or.inl (isShut_shutcloseIncomer cx (hs0 id hsh)))
          · exact Or.inr (Or.inr hr)

/-- an entry of the snapshot under another key is still in `.cxes` after one `shakeOne` -/
theorem mem_cxes_shakeOne (v : Version) (s : State) (ca : Addr) (cx : Incomer) (e : Addr × Incomer)
    (he : e ∈ s.cxes) (hne : e.1 ≠ ca) : e ∈ (shakeOne v s ca cx).state.cxes := by
  unfold shakeOne
  split
  · exact mem_del_of_ne he hne
  · split
    · exact he
    · split
      · exact he
      · split
        · exact he
        · exact mem_del_of_ne he hne
        · exact mem_put_of_ne he hne

theorem acc_cxesLoop (s : State) (l : List (Addr × Incomer)) (h : AccInv s)
    (hl : ∀ e ∈ l, e ∈ s.cxes) (hn : (l.map (·.1)).Nodup) : AccInv (cxesLoop .fixed2 s l).state := by
  induction l generalizing s with
  | nil => exact h
  | cons e rest ih =>
    obtain ⟨ca, cx⟩ := e
    unfold cxesLoop
    have hi := acc_shakeOne s ca cx h (hl _ List.mem_cons_self)
    simp only [List.map_cons, List.nodup_cons] at hn
    have hrest : ∀ e ∈ rest, e ∈ (shakeOne .fixed2 s ca cx).state.cxes := by
      intro e he
      refine mem_cxes_shakeOne _ s ca cx e (hl e (List.mem_cons_of_mem _ he)) ?_
      intro hk
      exact hn.1 (List.mem_map.mpr ⟨e, he, hk⟩)
    split
    · next s' hs => rw [hs] at hi hrest; exact ih s' hi hrest hn.2
    · next e' s' hs => rw [hs] at hi; exact hi

theorem acc_serviceCxes (s : State) (h : AccInv s) : AccInv (serviceCxes .fixed2 s).state :=
  acc_cxesLoop s s.cxes h (fun _ x => x) h.inv.cxKeys

theorem acc_serviceConnects (s : State) (h : AccInv s) : AccInv (serviceConnects .fixed2 s).state := by
  unfold serviceConnects
  have := acc_serviceAxes s h
  split
  · next s' hs =>
    rw [hs] at this
    split
    · exact acc_serviceCxes s' this
    · exact this
  · next r hr =>
    cases hs : serviceAxes .fixed2 s with
    | ok s' => exact absurd hs (hr s')
    | raised e s' => rw [hs] at this; exact this

theorem acc_shutdownIx (s : State) (ca : Addr) (h : AccInv s) : AccInv (shutdownIx s ca).state := by
  refine ⟨inv_shutdownIx s ca h.inv, ?_⟩
  unfold shutdownIx
  split
  · exact h.acc
  · next ix hix =>
    exact acc_of (s := s) rfl (fun _ x => x) (fun id hh => Or.inl hh) (fun id hx => isShut_shutdownIncomer ix hx) h.acc

theorem acc_closeIx (s : State) (ca : Addr) (h : AccInv s) : AccInv (closeIx s ca).state := by
  refine ⟨inv_closeIx s ca h.inv, ?_⟩
  unfold closeIx
  split
  · exact h.acc
  · next ix hix =>
    refine acc_of (s := s) rfl (fun _ x => x) ?_ (fun id hx => isShut_shutcloseIncomer ix hx) h.acc
    intro id hh
    rcases heldBy_append.mp hh with hh | hh
    · have := held_put (new := (shutcloseIncomer s.socks ix).2) (socks' := (shutcloseIncomer s.socks ix).1)
        h.inv.ixKeys
        (fun old hg hcs => by
          rw [hix] at hg; cases hg
          exact shutcloseIncomer_shuts hcs (h.inv.ixEnt _ (get?_some_mem hix)).2) hh
      rcases this with t | t
      · exact Or.inl (heldBy_append.mpr (Or.inl t))
      · exact Or.inr (Or.inl t)
    · exact Or.inl (heldBy_append.mpr (Or.inr hh))

theorem acc_closeAllLoop (s : State) (l : List (Addr × Incomer)) (h : AccInv s) :
    AccInv (closeAllLoop s l) := by
  induction l generalizing s with
  | nil => exact h
  | cons e rest ih =>
    obtain ⟨ca, ix⟩ := e
    unfold closeAllLoop
    have := acc_closeIx s ca h
    split
    · next s' hs => rw [hs] at this; exact ih s' this
    · next e' s' hs => rw [hs] at this; exact ih s' this

theorem acc_removeIx (s : State) (ca : Addr) (sc : Bool) (h : AccInv s) :
    AccInv (removeIx s ca sc).state := by
  refine ⟨inv_removeIx s ca sc h.inv, ?_⟩
  unfold removeIx
  split
  · exact h.acc
  · next ix hix =>
    have hok := h.inv.ixEnt _ (get?_some_mem hix)
    split
    · refine acc_of (s := s) rfl (fun _ x => x) ?_ (fun id hx => isShut_shutcloseIncomer ix hx) h.acc
      intro id hh
      rcases heldBy_append.mp hh with hh | hh
      · have := held_del (socks' := (shutcloseIncomer s.socks ix).1) h.inv.ixKeys
          (fun old hg hcs => by
            rw [hix] at hg; cases hg
            exact shutcloseIncomer_shuts hcs hok.2) hh
        rcases this with t | t
        · exact Or.inl (heldBy_append.mpr (Or.inl t))
        · exact Or.inr (Or.inl t)
      · exact Or.inl (heldBy_append.mpr (Or.inr hh))
    · refine acc_of (s := s) rfl ?_ ?_ (fun _ x => x) h.acc
      · intro id hr
        show id ∈ (if ix.hasCs = true then s.released ++ [ix.sock] else s.released)
        split
        · exact List.mem_append_left _ hr
        · exact hr
      · intro id hh
        rcases heldBy_append.mp hh with hh | hh
        · obtain ⟨e, he, hes, hec⟩ := hh
          by_cases hek : e.1 = ca
          · have g := get?_of_mem_nodup h.inv.ixKeys (show (e.1, e.2) ∈ s.ixes from he)
            rw [hek, hix] at g
            have he2 : e.2 = ix := (Option.some.inj g).symm
            right; right
            show id ∈ (if ix.hasCs = true then s.released ++ [ix.sock] else s.released)
            rw [← he2, hec, if_pos rfl, hes]
            exact List.mem_append_right _ List.mem_cons_self
          · exact Or.inl (heldBy_append.mpr (Or.inl ⟨e, mem_del_of_ne he hek, hes, hec⟩))
        · exact Or.inl (heldBy_append.mpr (Or.inr hh))

theorem acc_step (s : State) (op : Op) (h : AccInv s) : AccInv (step .fixed2 s op).state := by
  cases op with
  | arrive peer sockname reported hs =>
    refine ⟨inv_step .fixed2 s (.arrive peer sockname reported hs) h.inv, ?_⟩
    refine acc_of (s := s) rfl (fun _ x => x) (fun id hh => Or.inl hh) ?_ h.acc
    rintro id ⟨k, hk, hs'⟩
    refine ⟨k, ?_, hs'⟩
    show (s.socks ++ _)[id]? = some k
    rw [List.getElem?_append_left (List.getElem?_eq_some_iff.mp hk).1]; exact hk
  | serviceAccepts => exact ⟨inv_serviceAccepts s h.inv, h.acc⟩
  | serviceAxes => exact acc_serviceAxes s h
  | serviceCxes =>
    simp only [step]
    split
    · exact acc_serviceCxes s h
    · exact h
  | serviceConnects => exact acc_serviceConnects s h
  | serviceAll =>
    simp only [step, serviceAll]
    have := acc_serviceConnects s h
    split
    · next s' hs =>
      rw [hs] at this
      unfold serviceReceivesAllIx
      split <;> exact this
    · next r hr =>
      cases hs : serviceConnects .fixed2 s with
      | ok s' => exact absurd hs (hr s')
      | raised e s' => rw [hs] at this; exact this
  | shutdownIx ca => exact acc_shutdownIx s ca h
  | shutdownSendIx ca => exact acc_shutdownIx s ca h
  | shutdownReceiveIx ca => exact acc_shutdownIx s ca h
  | closeIx ca => exact acc_closeIx s ca h
  | closeAllIx => exact acc_closeAllLoop s s.ixes h
  | removeIx ca sc => exact acc_removeIx s ca sc h

theorem acc_run (s : State) (ops : List Op) (h : AccInv s) : AccInv (run .fixed2 s ops) := by
  induction ops generalizing s with
  | nil => exact h
  | cons op ops ih => exact ih _ (acc_step s op h)

/-- region of finding D14b: a TLS server and an address that arrives more than once -/
def hasDup : List Nat → Bool
  | [] => false
  | a :: l => l.contains a || hasDup l

def tlsDupPeer (tls : Bool) (peers : List Addr) : Bool := tls && hasDup peers

end Ioflo.Server
