import IofloModel.Model.Server
/-! Helper lemmas for C26: the odict operations `put` / `del` / `get?`, the socket-table update
`upd`, and the invariant of the connection table with its preservation by every primitive. -/
namespace Ioflo.Server

/-! ### odict operations -/

theorem keys_put {β : Type} (l : List (Addr × β)) (k : Addr) (v : β) :
    (put l k v).map (·.1) = if k ∈ l.map (·.1) then l.map (·.1) else l.map (·.1) ++ [k] := by
  induction l with
  | nil => simp [put]
  | cons e l ih =>
    obtain ⟨k', v'⟩ := e
    simp only [put]
    by_cases h : k' = k
    · subst h; simp
    · have hne : ¬ k = k' := fun h' => h h'.symm
      simp only [h, if_false, List.map_cons, ih, List.mem_cons, hne, false_or]
      split <;> simp

theorem nodup_keys_put {β : Type} {l : List (Addr × β)} (k : Addr) (v : β)
    (h : (l.map (·.1)).Nodup) : ((put l k v).map (·.1)).Nodup := by
  rw [keys_put]
  split
  · exact h
  · next hk =>
    rw [List.nodup_append]
    refine ⟨h, by simp, ?_⟩
    intro a ha b hb
    simp only [List.mem_singleton] at hb
    subst hb
    intro hab; subst hab; exact hk ha

theorem mem_put {β : Type} {l : List (Addr × β)} {k : Addr} {v : β} {e : Addr × β}
    (h : e ∈ put l k v) : e = (k, v) ∨ e ∈ l := by
  induction l with
  | nil => simp [put] at h; exact Or.inl h
  | cons e' l ih =>
    obtain ⟨k', v'⟩ := e'
    simp only [put] at h
    split at h
    · simp only [List.mem_cons] at h
      rcases h with h | h
      · exact Or.inl h
      · exact Or.inr (List.mem_cons_of_mem _ h)
    · simp only [List.mem_cons] at h
      rcases h with h | h
      · exact Or.inr (by rw [h]; exact List.mem_cons_self)
      · rcases ih h with h' | h'
        · exact Or.inl h'
        · exact Or.inr (List.mem_cons_of_mem _ h')

theorem mem_put_self {β : Type} (l : List (Addr × β)) (k : Addr) (v : β) : (k, v) ∈ put l k v := by
  induction l with
  | nil => simp [put]
  | cons e' l ih =>
    obtain ⟨k', v'⟩ := e'
    simp only [put]
    split
    · exact List.mem_cons_self
    · exact List.mem_cons_of_mem _ ih

theorem mem_put_of_ne {β : Type} {l : List (Addr × β)} {k : Addr} {v : β} {e : Addr × β}
    (he : e ∈ l) (hk : e.1 ≠ k) : e ∈ put l k v := by
  induction l with
  | nil => cases he
  | cons e' l ih =>
    obtain ⟨k', v'⟩ := e'
    simp only [put]
    rcases List.mem_cons.mp he with h | h
    · subst h
      simp only at hk
      simp only [hk, if_false]
      exact List.mem_cons_self
    · split
      · exact List.mem_cons_of_mem _ h
      · exact List.mem_cons_of_mem _ (ih h)

theorem mem_del {β : Type} {l : List (Addr × β)} {k : Addr} {e : Addr × β}
    (h : e ∈ del l k) : e ∈ l := by
  induction l with
  | nil => cases h
  | cons e' l ih =>
    obtain ⟨k', v'⟩ := e'
    simp only [del] at h
    split at h
    · exact List.mem_cons_of_mem _ h
    · rcases List.mem_cons.mp h with h | h
      · rw [h]; exact List.mem_cons_self
      · exact List.mem_cons_of_mem _ (ih h)

theorem keys_del_sublist {β : Type} (l : List (Addr × β)) (k : Addr) :
    ((del l k).map (·.1)).Sublist (l.map (·.1)) := by
  induction l with
  | nil => exact List.Sublist.refl _
  | cons e' l ih =>
    obtain ⟨k', v'⟩ := e'
    simp only [del]
    split
    · exact List.sublist_cons_self _ _
    · exact List.Sublist.cons_cons _ ih

theorem nodup_keys_del {β : Type} {l : List (Addr × β)} (k : Addr)
    (h : (l.map (·.1)).Nodup) : ((del l k).map (·.1)).Nodup :=
  List.Nodup.sublist (keys_del_sublist l k) h

theorem not_mem_keys_del {β : Type} {l : List (Addr × β)} (k : Addr)
    (h : (l.map (·.1)).Nodup) : k ∉ (del l k).map (·.1) := by
  induction l with
  | nil => simp [del]
  | cons e' l ih =>
    obtain ⟨k', v'⟩ := e'
    simp only [List.map_cons, List.nodup_cons] at h
    simp only [del]
    split
    · next hk => subst hk; exact h.1
    · next hk =>
      simp only [List.map_cons, List.mem_cons, not_or]
      exact ⟨fun h' => hk h'.symm, ih h.2⟩

theorem get?_some_mem {β : Type} {l : List (Addr × β)} {k : Addr} {v : β}
    (h : get? l k = some v) : (k, v) ∈ l := by
  induction l with
  | nil => simp [get?] at h
  | cons e' l ih =>
    obtain ⟨k', v'⟩ := e'
    simp only [get?] at h
    split at h
    · next hk => subst hk; cases h; exact List.mem_cons_self
    · exact List.mem_cons_of_mem _ (ih h)

theorem get?_none_not_mem {β : Type} {l : List (Addr × β)} {k : Addr}
    (h : get? l k = none) : k ∉ l.map (·.1) := by
  induction l with
  | nil => simp
  | cons e' l ih =>
    obtain ⟨k', v'⟩ := e'
    simp only [get?] at h
    split at h
    · cases h
    · next hk =>
      simp only [List.map_cons, List.mem_cons, not_or]
      exact ⟨fun h' => hk h'.symm, ih h⟩

theorem get?_of_mem_nodup {β : Type} {l : List (Addr × β)} {k : Addr} {v : β}
    (hn : (l.map (·.1)).Nodup) (h : (k, v) ∈ l) : get? l k = some v := by
  induction l with
  | nil => cases h
  | cons e' l ih =>
    obtain ⟨k', v'⟩ := e'
    simp only [List.map_cons, List.nodup_cons] at hn
    simp only [get?]
    rcases List.mem_cons.mp h with h | h
    · cases h; simp
    · have : k' ≠ k := by
        intro hk; subst hk
        exact hn.1 (List.mem_map.mpr ⟨(k', v), h, rfl⟩)
      simp only [this, if_false]
      exact ih hn.2 h

theorem get?_put_self {β : Type} (l : List (Addr × β)) (k : Addr) (v : β) :
    get? (put l k v) k = some v := by
  induction l with
  | nil => simp [put, get?]
  | cons e' l ih =>
    obtain ⟨k', v'⟩ := e'
    simp only [put]
    split
    · simp [get?]
    · next hk => simp only [get?, hk, if_false]; exact ih

theorem get?_put_ne {β : Type} (l : List (Addr × β)) {k k' : Addr} (v : β) (h : k' ≠ k) :
    get? (put l k v) k' = get? l k' := by
  induction l with
  | nil => simp [put, get?, Ne.symm h]
  | cons e' l ih =>
    obtain ⟨k'', v''⟩ := e'
    simp only [put]
    split
    · next hk => subst hk; simp [get?, Ne.symm h]
    · simp only [get?]; split
      · rfl
      · exact ih

theorem get?_del_ne {β : Type} (l : List (Addr × β)) {k k' : Addr} (h : k' ≠ k) :
    get? (del l k) k' = get? l k' := by
  induction l with
  | nil => rfl
  | cons e' l ih =>
    obtain ⟨k'', v''⟩ := e'
    simp only [del]
    split
    · next hk => subst hk; simp [get?, Ne.symm h]
    · simp only [get?]; split
      · rfl
      · exact ih

theorem get?_del_self {β : Type} {l : List (Addr × β)} (k : Addr) (h : (l.map (·.1)).Nodup) :
    get? (del l k) k = none := by
  cases hg : get? (del l k) k with
  | none => rfl
  | some v =>
    exact absurd (List.mem_map.mpr ⟨(k, v), get?_some_mem hg, rfl⟩) (not_mem_keys_del k h)

/-! ### the socket table -/

theorem length_upd {α : Type} (l : List α) (i : Nat) (f : α → α) : (upd l i f).length = l.length := by
  induction l generalizing i with
  | nil => rfl
  | cons a l ih => cases i <;> simp [upd, ih]

theorem getElem?_upd {α : Type} (l : List α) (i j : Nat) (f : α → α) :
    (upd l i f)[j]? = if j = i then l[j]?.map f else l[j]? := by
  induction l generalizing i j with
  | nil => simp [upd]
  | cons a l ih =>
    cases i with
    | zero => cases j <;> simp [upd]
    | succ i =>
      cases j with
      | zero => simp [upd]
      | succ j => simp only [upd, List.getElem?_cons_succ, ih]; simp

/-- `getpeername()` of socket `id` -/
def peerOf (socks : List Sock) (id : Nat) : Option Addr := socks[id]?.map (·.peer)

theorem peerOf_upd (socks : List Sock) (i j : Nat) (f : Sock → Sock) (hf : ∀ k, (f k).peer = k.peer) :
    peerOf (upd socks i f) j = peerOf socks j := by
  unfold peerOf
  rw [getElem?_upd]
  split
  · cases socks[j]? <;> simp [hf]
  · rfl

theorem peerOf_append {socks : List Sock} {j : Nat} {a : Addr} (x : Sock)
    (h : peerOf socks j = some a) : peerOf (socks ++ [x]) j = some a := by
  unfold peerOf at *
  have hj : j < socks.length := by
    cases hs : socks[j]? with
    | none => rw [hs] at h; cases h
    | some k => exact (List.getElem?_eq_some_iff.mp hs).1
  rw [List.getElem?_append_left hj]; exact h

theorem peerOf_shutdownIncomer (socks : List Sock) (ix : Incomer) (j : Nat) :
    peerOf (shutdownIncomer socks ix) j = peerOf socks j := by
  unfold shutdownIncomer
  split
  · exact peerOf_upd _ _ _ _ (fun _ => rfl)
  · rfl

theorem peerOf_shutcloseIncomer (socks : List Sock) (ix : Incomer) (j : Nat) :
    peerOf (shutcloseIncomer socks ix).1 j = peerOf socks j := by
  unfold shutcloseIncomer
  split
  · exact peerOf_upd _ _ _ _ (fun _ => rfl)
  · rfl

theorem shutcloseIncomer_ix (socks : List Sock) (ix : Incomer) :
    (shutcloseIncomer socks ix).2.sock = ix.sock ∧ (shutcloseIncomer socks ix).2.ca = ix.ca ∧
      (shutcloseIncomer socks ix).2.hasCs = false := by
  unfold shutcloseIncomer
  split
  · exact ⟨rfl, rfl, rfl⟩
  · next h => exact ⟨rfl, rfl, by simpa using h⟩

/-! ### the table invariant -/

/-- an entry stored under key `e.1`: the incomer's `.ca` is the key and its socket's peer is the key -/
def EntryOk (socks : List Sock) (e : Addr × Incomer) : Prop :=
  e.2.ca = e.1 ∧ peerOf socks e.2.sock = some e.1

structure Inv (s : State) : Prop where
  ixKeys : (s.ixes.map (·.1)).Nodup
  cxKeys : (s.cxes.map (·.1)).Nodup
  ixEnt : ∀ e ∈ s.ixes, EntryOk s.socks e
  cxEnt : ∀ e ∈ s.cxes, EntryOk s.socks e

theorem EntryOk.mono {socks socks' : List Sock} {e : Addr × Incomer}
    (hp : ∀ j a, peerOf socks j = some a → peerOf socks' j = some a) (h : EntryOk socks e) :
    EntryOk socks' e := ⟨h.1, hp _ _ h.2⟩

theorem inv_init (tls : Bool) (eha : Addr) : Inv (init tls eha) :=
  ⟨List.nodup_nil, List.nodup_nil, fun _ h => (nomatch h), fun _ h => (nomatch h)⟩

theorem inv_admitOne (v : Version) (s : State) (cs : Nat) (ca : Addr) (h : Inv s) :
    Inv (admitOne v s cs ca).state := by
  unfold admitOne
  split
  · exact h
  · next k hk =>
    split
    · exact h
    · next hchk =>
      have hca : ca = k.peer := by
        by_cases hc : ca = k.peer
        · exact hc
        · exact absurd (Or.inl hc) hchk
      have hnew : ∀ socks', (∀ j a, peerOf s.socks j = some a → peerOf socks' j = some a) →
          EntryOk socks' (ca, { sock := cs, ca := k.peer }) := by
        intro socks' hp
        exact ⟨hca.symm, hp _ _ (by unfold peerOf; rw [hk]; simp [hca])⟩
      split
      · -- TLS: into cxes
        refine ⟨h.ixKeys, nodup_keys_put _ _ h.cxKeys, h.ixEnt, ?_⟩
        intro e he
        rcases mem_put he with rfl | he
        · exact hnew _ (fun _ _ x => x)
        · exact h.cxEnt e he
      · split
        · next old _ =>
          cases v with
          | orig => exact h
          | fixed =>
            have hp : ∀ j a, peerOf s.socks j = some a →
                peerOf (shutdownIncomer s.socks old) j = some a := by
              intro j a hj; rw [peerOf_shutdownIncomer]; exact hj
            refine ⟨nodup_keys_put _ _ h.ixKeys, h.cxKeys, ?_, ?_⟩
            · intro e he
              rcases mem_put he with rfl | he
              · exact hnew _ hp
              · exact (h.ixEnt e he).mono hp
            · intro e he; exact (h.cxEnt e he).mono hp
        · refine ⟨nodup_keys_put _ _ h.ixKeys, h.cxKeys, ?_, h.cxEnt⟩
          intro e he
          rcases mem_put he with rfl | he
          · exact hnew _ (fun _ _ x => x)
          · exact h.ixEnt e he

theorem inv_axes_irrelevant {s : State} (axes : List (Nat × Addr)) (h : Inv s) :
    Inv { s with axes := axes } := ⟨h.ixKeys, h.cxKeys, h.ixEnt, h.cxEnt⟩

theorem inv_axesLoop (v : Version) (s : State) (l : List (Nat × Addr)) (h : Inv s) :
    Inv (axesLoop v s l).state := by
  induction l generalizing s with
  | nil => exact inv_axes_irrelevant [] h
  | cons e rest ih =>
    obtain ⟨cs, ca⟩ := e
    unfold axesLoop
    have := inv_admitOne v { s with axes := rest } cs ca (inv_axes_irrelevant rest h)
    split
    · next s' hs => rw [hs] at this; exact ih s' this
    · next e' s' hs => rw [hs] at this; exact this

theorem inv_serviceAccepts (s : State) (h : Inv s) : Inv (serviceAccepts s) :=
  ⟨h.ixKeys, h.cxKeys, h.ixEnt, h.cxEnt⟩

theorem inv_serviceAxes (v : Version) (s : State) (h : Inv s) : Inv (serviceAxes v s).state :=
  inv_axesLoop v _ _ (inv_serviceAccepts s h)

theorem inv_shakeOne (s : State) (ca : Addr) (cx : Incomer) (h : Inv s)
    (hok : EntryOk s.socks (ca, cx)) : Inv (shakeOne s ca cx).state := by
  unfold shakeOne
  split
  · refine ⟨nodup_keys_put _ _ h.ixKeys, nodup_keys_del _ h.cxKeys, ?_, fun e he => h.cxEnt e (mem_del he)⟩
    intro e he
    rcases mem_put he with rfl | he
    · exact hok
    · exact h.ixEnt e he
  · split
    · exact h
    · split
      · exact h
      · next k hk =>
        have hp : ∀ j a, peerOf s.socks j = some a →
            peerOf (upd s.socks cx.sock (fun k => { k with hs := k.hs.tail })) j = some a := by
          intro j a hj
          exact (peerOf_upd s.socks cx.sock j (fun k => { k with hs := k.hs.tail }) (fun _ => rfl)).trans hj
        split
        · exact ⟨h.ixKeys, h.cxKeys, fun e he => (h.ixEnt e he).mono hp,
            fun e he => (h.cxEnt e he).mono hp⟩
        · refine ⟨nodup_keys_put _ _ h.ixKeys, nodup_keys_del _ h.cxKeys, ?_,
            fun e he => (h.cxEnt e (mem_del he)).mono hp⟩
          intro e he
          rcases mem_put he with rfl | he
          · exact EntryOk.mono hp ⟨hok.1, hok.2⟩
          · exact (h.ixEnt e he).mono hp
        · have hp2 : ∀ j a, peerOf s.socks j = some a →
              peerOf (shutcloseIncomer (upd s.socks cx.sock (fun k => { k with hs := k.hs.tail })) cx).1 j
                = some a := by
            intro j a hj; rw [peerOf_shutcloseIncomer]; exact hp j a hj
          have hx := shutcloseIncomer_ix (upd s.socks cx.sock (fun k => { k with hs := k.hs.tail })) cx
          refine ⟨h.ixKeys, nodup_keys_put _ _ h.cxKeys, fun e he => (h.ixEnt e he).mono hp2, ?_⟩
          intro e he
          rcases mem_put he with rfl | he
          · exact ⟨by rw [hx.2.1]; exact hok.1, by rw [hx.1]; exact hp2 _ _ hok.2⟩
          · exact (h.cxEnt e he).mono hp2

/-- no primitive ever changes what `getpeername()` of an existing socket answers -/
theorem peerOf_shakeOne (s : State) (ca : Addr) (cx : Incomer) (j : Nat) (a : Addr)
    (hj : peerOf s.socks j = some a) : peerOf (shakeOne s ca cx).state.socks j = some a := by
  unfold shakeOne
  split
  · exact hj
  · split
    · exact hj
    · split
      · exact hj
      · have hp : peerOf (upd s.socks cx.sock (fun k => { k with hs := k.hs.tail })) j = some a :=
          (peerOf_upd s.socks cx.sock j (fun k => { k with hs := k.hs.tail }) (fun _ => rfl)).trans hj
        split
        · exact hp
        · exact hp
        · show peerOf (shutcloseIncomer _ cx).1 j = some a
          rw [peerOf_shutcloseIncomer]; exact hp

theorem inv_cxesLoop (s : State) (l : List (Addr × Incomer)) (h : Inv s)
    (hl : ∀ e ∈ l, EntryOk s.socks e) : Inv (cxesLoop s l).state := by
  induction l generalizing s with
  | nil => exact h
  | cons e rest ih =>
    obtain ⟨ca, cx⟩ := e
    unfold cxesLoop
    have hi := inv_shakeOne s ca cx h (hl _ List.mem_cons_self)
    have hp := peerOf_shakeOne s ca cx
    split
    · next s' hs =>
      rw [hs] at hi hp
      exact ih s' hi (fun e he => (hl e (List.mem_cons_of_mem _ he)).mono hp)
    · next e' s' hs => rw [hs] at hi; exact hi

theorem inv_serviceCxes (s : State) (h : Inv s) : Inv (serviceCxes s).state :=
  inv_cxesLoop s s.cxes h h.cxEnt

theorem inv_serviceConnects (v : Version) (s : State) (h : Inv s) : Inv (serviceConnects v s).state := by
  unfold serviceConnects
  have := inv_serviceAxes v s h
  split
  · next s' hs =>
    rw [hs] at this
    split
    · exact inv_serviceCxes s' this
    · exact this
  · next r hr =>
    cases hs : serviceAxes v s with
    | ok s' => exact absurd hs (hr s')
    | raised e s' => rw [hs] at this; exact this

theorem inv_shutdownIx (s : State) (ca : Addr) (h : Inv s) : Inv (shutdownIx s ca).state := by
  unfold shutdownIx
  split
  · exact h
  · next ix _ =>
    have hp : ∀ j a, peerOf s.socks j = some a → peerOf (shutdownIncomer s.socks ix) j = some a := by
      intro j a hj; rw [peerOf_shutdownIncomer]; exact hj
    exact ⟨h.ixKeys, h.cxKeys, fun e he => (h.ixEnt e he).mono hp, fun e he => (h.cxEnt e he).mono hp⟩

theorem inv_closeIx (s : State) (ca : Addr) (h : Inv s) : Inv (closeIx s ca).state := by
  unfold closeIx
  split
  · exact h
  · next ix hix =>
    have hp : ∀ j a, peerOf s.socks j = some a → peerOf (shutcloseIncomer s.socks ix).1 j = some a := by
      intro j a hj; rw [peerOf_shutcloseIncomer]; exact hj
    have hx := shutcloseIncomer_ix s.socks ix
    have hold := h.ixEnt _ (get?_some_mem hix)
    refine ⟨nodup_keys_put _ _ h.ixKeys, h.cxKeys, ?_, fun e he => (h.cxEnt e he).mono hp⟩
    intro e he
    rcases mem_put he with rfl | he
    · exact ⟨by rw [hx.2.1]; exact hold.1, by rw [hx.1]; exact hp _ _ hold.2⟩
    · exact (h.ixEnt e he).mono hp

theorem inv_closeAllLoop (s : State) (l : List (Addr × Incomer)) (h : Inv s) : Inv (closeAllLoop s l) := by
  induction l generalizing s with
  | nil => exact h
  | cons e rest ih =>
    obtain ⟨ca, ix⟩ := e
    unfold closeAllLoop
    have := inv_closeIx s ca h
    split
    · next s' hs => rw [hs] at this; exact ih s' this
    · next e' s' hs => rw [hs] at this; exact ih s' this

theorem inv_removeIx (s : State) (ca : Addr) (sc : Bool) (h : Inv s) : Inv (removeIx s ca sc).state := by
  unfold removeIx
  split
  · exact h
  · next ix _ =>
    split
    · have hp : ∀ j a, peerOf s.socks j = some a → peerOf (shutcloseIncomer s.socks ix).1 j = some a := by
        intro j a hj; rw [peerOf_shutcloseIncomer]; exact hj
      exact ⟨nodup_keys_del _ h.ixKeys, h.cxKeys, fun e he => (h.ixEnt e (mem_del he)).mono hp,
        fun e he => (h.cxEnt e he).mono hp⟩
    · exact ⟨nodup_keys_del _ h.ixKeys, h.cxKeys, fun e he => h.ixEnt e (mem_del he), h.cxEnt⟩

theorem inv_step (v : Version) (s : State) (op : Op) (h : Inv s) : Inv (step v s op).state := by
  cases op with
  | arrive peer sockname reported hs =>
    exact ⟨h.ixKeys, h.cxKeys, fun e he => (h.ixEnt e he).mono (fun _ _ x => peerOf_append _ x),
      fun e he => (h.cxEnt e he).mono (fun _ _ x => peerOf_append _ x)⟩
  | serviceAccepts => exact inv_serviceAccepts s h
  | serviceAxes => exact inv_serviceAxes v s h
  | serviceCxes =>
    simp only [step]
    split
    · exact inv_serviceCxes s h
    · exact h
  | serviceConnects => exact inv_serviceConnects v s h
  | serviceAll =>
    simp only [step, serviceAll]
    have := inv_serviceConnects v s h
    split
    · next s' hs =>
      rw [hs] at this
      unfold serviceReceivesAllIx
      split <;> exact this
    · next r hr =>
      cases hs : serviceConnects v s with
      | ok s' => exact absurd hs (hr s')
      | raised e s' => rw [hs] at this; exact this
  | shutdownIx ca => exact inv_shutdownIx s ca h
  | closeIx ca => exact inv_closeIx s ca h
  | closeAllIx => exact inv_closeAllLoop s s.ixes h
  | removeIx ca sc => exact inv_removeIx s ca sc h

theorem inv_run (v : Version) (s : State) (ops : List Op) (h : Inv s) : Inv (run v s ops) := by
  induction ops generalizing s with
  | nil => exact h
  | cons op ops ih => exact ih _ (inv_step v s op h)

/-! ### no connection is dropped from the table without being shut down (plain `Server`, repaired) -/

theorem mem_del_of_ne {β : Type} {l : List (Addr × β)} {k : Addr} {e : Addr × β}
    (he : e ∈ l) (hk : e.1 ≠ k) : e ∈ del l k := by
  induction l with
  | nil => cases he
  | cons e' l ih =>
    obtain ⟨k', v'⟩ := e'
    simp only [del]
    rcases List.mem_cons.mp he with h | h
    · subst h
      simp only at hk
      simp only [hk, if_false]
      exact List.mem_cons_self
    · split
      · exact h
      · exact List.mem_cons_of_mem _ (ih h)

/-- the socket has received `shutdown()` or `close()` -/
def isShut (socks : List Sock) (id : Nat) : Prop :=
  ∃ k, socks[id]? = some k ∧ (0 < k.shutdowns ∨ k.closed = true)

/-- a live entry of the table (one that still has its socket) wraps socket `id` -/
def heldBy (tab : List (Addr × Incomer)) (id : Nat) : Prop :=
  ∃ e ∈ tab, e.2.sock = id ∧ e.2.hasCs = true

/-- every socket ever entered into the table is still the socket of a live entry, or has been shut
down / closed, or was handed back to the caller by `removeIx(ca, shutclose=False)` -/
def Accounted (s : State) : Prop :=
  ∀ id ∈ s.admitted, heldBy s.ixes id ∨ isShut s.socks id ∨ id ∈ s.released

theorem isShut_upd {socks : List Sock} {i id : Nat} {f : Sock → Sock}
    (hf : ∀ k, k.shutdowns ≤ (f k).shutdowns ∧ (k.closed = true → (f k).closed = true))
    (h : isShut socks id) : isShut (upd socks i f) id := by
  obtain ⟨k, hk, hs⟩ := h
  unfold isShut
  rw [getElem?_upd]
  split
  · refine ⟨f k, by rw [hk]; rfl, ?_⟩
    rcases hs with hs | hs
    · exact Or.inl (Nat.lt_of_lt_of_le hs (hf k).1)
    · exact Or.inr ((hf k).2 hs)
  · exact ⟨k, hk, hs⟩

theorem isShut_shutdownIncomer {socks : List Sock} {id : Nat} (ix : Incomer) (h : isShut socks id) :
    isShut (shutdownIncomer socks ix) id := by
  unfold shutdownIncomer
  split
  · exact isShut_upd (fun k => ⟨Nat.le_succ _, fun hc => hc⟩) h
  · exact h

theorem isShut_shutcloseIncomer {socks : List Sock} {id : Nat} (ix : Incomer) (h : isShut socks id) :
    isShut (shutcloseIncomer socks ix).1 id := by
  unfold shutcloseIncomer
  split
  · exact isShut_upd (fun k => ⟨Nat.le_succ _, fun _ => rfl⟩) h
  · exact h

/-- shutting down an incomer that still has its socket makes that socket shut -/
theorem shutdownIncomer_shuts {socks : List Sock} {ix : Incomer} {a : Addr} (hcs : ix.hasCs = true)
    (hp : peerOf socks ix.sock = some a) : isShut (shutdownIncomer socks ix) ix.sock := by
  unfold peerOf at hp
  cases hk : socks[ix.sock]? with
  | none => rw [hk] at hp; cases hp
  | some k =>
    refine ⟨{ k with shutdowns := k.shutdowns + 1 }, ?_, Or.inl (Nat.succ_pos _)⟩
    simp only [shutdownIncomer, hcs, if_true, getElem?_upd, hk]
    rfl

theorem shutcloseIncomer_shuts {socks : List Sock} {ix : Incomer} {a : Addr} (hcs : ix.hasCs = true)
    (hp : peerOf socks ix.sock = some a) : isShut (shutcloseIncomer socks ix).1 ix.sock := by
  unfold peerOf at hp
  cases hk : socks[ix.sock]? with
  | none => rw [hk] at hp; cases hp
  | some k =>
    refine ⟨{ k with shutdowns := k.shutdowns + 1, closed := true }, ?_, Or.inr rfl⟩
    simp only [shutcloseIncomer, hcs, if_true, getElem?_upd, hk]
    rfl

/-- the bundle preserved by every operation of a plain, repaired `Server` -/
structure PlainInv (s : State) : Prop where
  inv : Inv s
  plain : s.tls = false
  acc : Accounted s

theorem plain_admitOne (s : State) (cs : Nat) (ca : Addr) (h : PlainInv s) :
    PlainInv (admitOne .fixed s cs ca).state := by
  have hi := inv_admitOne .fixed s cs ca h.inv
  unfold admitOne at hi ⊢
  split
  · exact h
  · next k hk =>
    simp only [hk] at hi
    split
    · exact h
    · next hchk =>
      simp only [hchk, if_false] at hi
      simp only [h.plain, Bool.false_eq_true, if_false] at hi ⊢
      split
      · next old hold =>
        simp only [hold] at hi
        refine ⟨hi, (by first | exact h.plain | rfl), ?_⟩
        intro id hid
        have holdmem := get?_some_mem hold
        have holdok := h.inv.ixEnt _ holdmem
        rcases List.mem_append.mp hid with hid | hid
        · rcases h.acc id hid with ⟨e, he, hes, hec⟩ | hsh | hrel
          · by_cases hek : e.1 = ca
            · -- the displaced entry: its socket has just been shut down
              have : e.2 = old := by
                have := get?_of_mem_nodup h.inv.ixKeys (show (e.1, e.2) ∈ s.ixes from he)
                rw [hek, hold] at this; exact (Option.some.inj this).symm
              right; left
              rw [← hes, this]
              exact shutdownIncomer_shuts (by rw [← this]; exact hec) holdok.2
            · exact Or.inl ⟨e, mem_put_of_ne he hek, hes, hec⟩
          · exact Or.inr (Or.inl (isShut_shutdownIncomer old hsh))
          · exact Or.inr (Or.inr hrel)
        · simp only [List.mem_singleton] at hid
          subst hid
          exact Or.inl ⟨_, mem_put_self _ _ _, rfl, rfl⟩
      · next hnone =>
        simp only [hnone] at hi
        refine ⟨hi, (by first | exact h.plain | rfl), ?_⟩
        intro id hid
        have hnk := get?_none_not_mem hnone
        rcases List.mem_append.mp hid with hid | hid
        · rcases h.acc id hid with ⟨e, he, hes, hec⟩ | hsh | hrel
          · have hek : e.1 ≠ ca := fun hek => hnk (List.mem_map.mpr ⟨e, he, hek⟩)
            exact Or.inl ⟨e, mem_put_of_ne he hek, hes, hec⟩
          · exact Or.inr (Or.inl hsh)
          · exact Or.inr (Or.inr hrel)
        · simp only [List.mem_singleton] at hid
          subst hid
          exact Or.inl ⟨_, mem_put_self _ _ _, rfl, rfl⟩

theorem plain_axesLoop (s : State) (l : List (Nat × Addr)) (h : PlainInv s) :
    PlainInv (axesLoop .fixed s l).state := by
  induction l generalizing s with
  | nil => exact ⟨inv_axes_irrelevant [] h.inv, h.plain, h.acc⟩
  | cons e rest ih =>
    obtain ⟨cs, ca⟩ := e
    unfold axesLoop
    have := plain_admitOne { s with axes := rest } cs ca ⟨inv_axes_irrelevant rest h.inv, h.plain, h.acc⟩
    split
    · next s' hs => rw [hs] at this; exact ih s' this
    · next e' s' hs => rw [hs] at this; exact this

theorem plain_serviceAxes (s : State) (h : PlainInv s) : PlainInv (serviceAxes .fixed s).state :=
  plain_axesLoop _ _ ⟨inv_serviceAccepts s h.inv, h.plain, h.acc⟩

theorem plain_serviceConnects (s : State) (h : PlainInv s) :
    PlainInv (serviceConnects .fixed s).state := by
  unfold serviceConnects
  have := plain_serviceAxes s h
  split
  · next s' hs =>
    rw [hs] at this
    simp only [Res.state] at this
    simp only [this.plain, Bool.false_eq_true, if_false]
    exact this
  · next r hr =>
    cases hs : serviceAxes .fixed s with
    | ok s' => exact absurd hs (hr s')
    | raised e s' => rw [hs] at this; exact this

theorem plain_shutdownIx (s : State) (ca : Addr) (h : PlainInv s) : PlainInv (shutdownIx s ca).state := by
  have hi := inv_shutdownIx s ca h.inv
  unfold shutdownIx at hi ⊢
  split
  · exact h
  · next ix hix =>
    simp only [hix] at hi
    refine ⟨hi, h.plain, ?_⟩
    intro id hid
    rcases h.acc id hid with hh | hsh | hrel
    · exact Or.inl hh
    · exact Or.inr (Or.inl (isShut_shutdownIncomer ix hsh))
    · exact Or.inr (Or.inr hrel)

theorem plain_closeIx (s : State) (ca : Addr) (h : PlainInv s) : PlainInv (closeIx s ca).state := by
  have hi := inv_closeIx s ca h.inv
  unfold closeIx at hi ⊢
  split
  · exact h
  · next ix hix =>
    simp only [hix] at hi
    refine ⟨hi, h.plain, ?_⟩
    intro id hid
    have hmem := get?_some_mem hix
    have hok := h.inv.ixEnt _ hmem
    rcases h.acc id hid with ⟨e, he, hes, hec⟩ | hsh | hrel
    · by_cases hek : e.1 = ca
      · have : e.2 = ix := by
          have := get?_of_mem_nodup h.inv.ixKeys (show (e.1, e.2) ∈ s.ixes from he)
          rw [hek, hix] at this; exact (Option.some.inj this).symm
        right; left
        rw [← hes, this]
        exact shutcloseIncomer_shuts (by rw [← this]; exact hec) hok.2
      · exact Or.inl ⟨e, mem_put_of_ne he hek, hes, hec⟩
    · exact Or.inr (Or.inl (isShut_shutcloseIncomer ix hsh))
    · exact Or.inr (Or.inr hrel)

theorem plain_closeAllLoop (s : State) (l : List (Addr × Incomer)) (h : PlainInv s) :
    PlainInv (closeAllLoop s l) := by
  induction l generalizing s with
  | nil => exact h
  | cons e rest ih =>
    obtain ⟨ca, ix⟩ := e
    unfold closeAllLoop
    have := plain_closeIx s ca h
    split
    · next s' hs => rw [hs] at this; exact ih s' this
    · next e' s' hs => rw [hs] at this; exact ih s' this

theorem plain_removeIx (s : State) (ca : Addr) (sc : Bool) (h : PlainInv s) :
    PlainInv (removeIx s ca sc).state := by
  have hi := inv_removeIx s ca sc h.inv
  unfold removeIx at hi ⊢
  split
  · exact h
  · next ix hix =>
    simp only [hix] at hi
    have hmem := get?_some_mem hix
    have hok := h.inv.ixEnt _ hmem
    have key : ∀ e ∈ s.ixes, e.1 = ca → e.2 = ix := by
      intro e he hek
      have := get?_of_mem_nodup h.inv.ixKeys (show (e.1, e.2) ∈ s.ixes from he)
      rw [hek, hix] at this; exact (Option.some.inj this).symm
    split
    · next hsc =>
      simp only [hsc, if_true] at hi
      refine ⟨hi, h.plain, ?_⟩
      intro id hid
      rcases h.acc id hid with ⟨e, he, hes, hec⟩ | hsh | hrel
      · by_cases hek : e.1 = ca
        · have := key e he hek
          right; left
          rw [← hes, this]
          exact shutcloseIncomer_shuts (by rw [← this]; exact hec) hok.2
        · exact Or.inl ⟨e, mem_del_of_ne he hek, hes, hec⟩
      · exact Or.inr (Or.inl (isShut_shutcloseIncomer ix hsh))
      · exact Or.inr (Or.inr hrel)
    · next hsc =>
      simp only [hsc] at hi
      refine ⟨hi, h.plain, ?_⟩
      intro id hid
      rcases h.acc id hid with ⟨e, he, hes, hec⟩ | hsh | hrel
      · by_cases hek : e.1 = ca
        · have := key e he hek
          right; right
          show id ∈ (if ix.hasCs = true then s.released ++ [ix.sock] else s.released)
          rw [← this, hec, if_pos rfl, hes]
          exact List.mem_append_right _ List.mem_cons_self
        · exact Or.inl ⟨e, mem_del_of_ne he hek, hes, hec⟩
      · exact Or.inr (Or.inl hsh)
      · right; right
        show id ∈ (if ix.hasCs = true then s.released ++ [ix.sock] else s.released)
        split
        · exact List.mem_append_left _ hrel
        · exact hrel

theorem plain_step (s : State) (op : Op) (h : PlainInv s) : PlainInv (step .fixed s op).state := by
  cases op with
  | arrive peer sockname reported hs =>
    refine ⟨inv_step .fixed s (.arrive peer sockname reported hs) h.inv, h.plain, ?_⟩
    intro id hid
    rcases h.acc id hid with hh | ⟨k, hk, hs'⟩ | hrel
    · exact Or.inl hh
    · refine Or.inr (Or.inl ⟨k, ?_, hs'⟩)
      show (s.socks ++ _)[id]? = some k
      rw [List.getElem?_append_left (List.getElem?_eq_some_iff.mp hk).1]; exact hk
    · exact Or.inr (Or.inr hrel)
  | serviceAccepts => exact ⟨inv_serviceAccepts s h.inv, h.plain, h.acc⟩
  | serviceAxes => exact plain_serviceAxes s h
  | serviceCxes =>
    simp only [step, h.plain, Bool.false_eq_true, if_false]
    exact h
  | serviceConnects => exact plain_serviceConnects s h
  | serviceAll =>
    simp only [step, serviceAll]
    have := plain_serviceConnects s h
    split
    · next s' hs =>
      rw [hs] at this
      unfold serviceReceivesAllIx
      split <;> exact this
    · next r hr =>
      cases hs : serviceConnects .fixed s with
      | ok s' => exact absurd hs (hr s')
      | raised e s' => rw [hs] at this; exact this
  | shutdownIx ca => exact plain_shutdownIx s ca h
  | closeIx ca => exact plain_closeIx s ca h
  | closeAllIx => exact plain_closeAllLoop s s.ixes h
  | removeIx ca sc => exact plain_removeIx s ca sc h

theorem plain_run (s : State) (ops : List Op) (h : PlainInv s) : PlainInv (run .fixed s ops) := by
  induction ops generalizing s with
  | nil => exact h
  | cons op ops ih => exact ih _ (plain_step s op h)

/-- region of finding D14b: a TLS server and an address that arrives more than once -/
def hasDup : List Nat → Bool
  | [] => false
  | a :: l => l.contains a || hasDup l

def tlsDupPeer (tls : Bool) (peers : List Addr) : Bool := tls && hasDup peers

end Ioflo.Server
