import IofloModel.Model.Share
/-!
Helper lemmas for `Model/Share.lean` (property C19): the C-level dict (`lookup`, `rawSet`,
`rawDel`), the class-attribute table, the synchronisation invariant between the dict and the
odict key list, and the ordered-map view.
-/
namespace Ioflo.Share

/-! ### the C-level dict -/

theorem lookup_rawSet (l : List (Str × Val)) (k j : Str) (v : Val) :
    lookup (rawSet l k v) j = if k = j then some v else lookup l j := by
  induction l with
  | nil => simp [rawSet, lookup]
  | cons e rest ih =>
    obtain ⟨k', v'⟩ := e
    by_cases h : k' = k
    · subst h; by_cases hj : k' = j <;> simp [rawSet, lookup, hj]
    · by_cases hj : k' = j
      · subst hj
        have : ¬ k = k' := fun e => h e.symm
        simp [rawSet, lookup, h, this]
      · simp [rawSet, lookup, h, hj, ih]

theorem lookup_rawDel_ne (l : List (Str × Val)) {k j : Str} (h : k ≠ j) :
    lookup (rawDel l k) j = lookup l j := by
  induction l with
  | nil => rfl
  | cons e rest ih =>
    obtain ⟨k', v'⟩ := e
    by_cases hk : k' = k
    · subst hk; simp [rawDel, lookup, h]
    · by_cases hj : k' = j
      · subst hj; simp [rawDel, lookup, hk]
      · simp [rawDel, lookup, hk, hj, ih]

/-- keys of the C-level dict are distinct (it is a dict) -/
def RawNodup (l : List (Str × Val)) : Prop := (l.map Prod.fst).Nodup

theorem lookup_none_of_not_mem {l : List (Str × Val)} {k : Str} (h : k ∉ l.map Prod.fst) :
    lookup l k = none := by
  induction l with
  | nil => rfl
  | cons e rest ih =>
    obtain ⟨k', v'⟩ := e
    simp only [List.map_cons, List.mem_cons, not_or] at h
    have : ¬ k' = k := fun e => h.1 e.symm
    simp [lookup, this, ih h.2]

theorem lookup_rawDel_self {l : List (Str × Val)} (hn : RawNodup l) (k : Str) :
    lookup (rawDel l k) k = none := by
  induction l with
  | nil => rfl
  | cons e rest ih =>
    obtain ⟨k', v'⟩ := e
    have hn' : RawNodup rest := (List.nodup_cons.mp hn).2
    by_cases hk : k' = k
    · subst hk
      simp only [rawDel, if_true]
      exact lookup_none_of_not_mem (List.nodup_cons.mp hn).1
    · simp [rawDel, lookup, hk, ih hn']

theorem map_fst_rawSet (l : List (Str × Val)) (k : Str) (v : Val) :
    (rawSet l k v).map Prod.fst =
      if (lookup l k).isSome then l.map Prod.fst else l.map Prod.fst ++ [k] := by
  induction l with
  | nil => simp [rawSet, lookup]
  | cons e rest ih =>
    obtain ⟨k', v'⟩ := e
    by_cases hk : k' = k
    · simp [rawSet, lookup, hk]
    · simp only [rawSet, hk, if_false, List.map_cons, lookup, ih]
      split <;> simp

theorem lookup_isSome_iff_mem (l : List (Str × Val)) (k : Str) :
    (lookup l k).isSome = true ↔ k ∈ l.map Prod.fst := by
  induction l with
  | nil => simp [lookup]
  | cons e rest ih =>
    obtain ⟨k', v'⟩ := e
    by_cases hk : k' = k
    · simp [lookup, hk]
    · have : ¬ k = k' := fun e => hk e.symm
      simp [lookup, hk, this, ih]

theorem rawNodup_rawSet {l : List (Str × Val)} (hn : RawNodup l) (k : Str) (v : Val) :
    RawNodup (rawSet l k v) := by
  unfold RawNodup at *
  rw [map_fst_rawSet]
  split
  · exact hn
  · next h =>
    rw [List.nodup_append]
    refine ⟨hn, by simp, ?_⟩
    intro a ha b hb
    simp only [List.mem_singleton] at hb
    subst hb
    intro e; subst e
    exact h ((lookup_isSome_iff_mem l a).mpr ha)

theorem map_fst_rawDel_sublist (l : List (Str × Val)) (k : Str) :
    ((rawDel l k).map Prod.fst).Sublist (l.map Prod.fst) := by
  induction l with
  | nil => exact List.Sublist.refl _
  | cons e rest ih =>
    obtain ⟨k', v'⟩ := e
    by_cases hk : k' = k
    · simp [rawDel, hk]
    · simp only [rawDel, hk, if_false, List.map_cons]
      exact List.Sublist.cons_cons _ ih

theorem rawNodup_rawDel {l : List (Str × Val)} (hn : RawNodup l) (k : Str) : RawNodup (rawDel l k) :=
  List.Nodup.sublist (map_fst_rawDel_sublist l k) hn

theorem length_rawSet (l : List (Str × Val)) (k : Str) (v : Val) :
    (rawSet l k v).length = if (lookup l k).isSome then l.length else l.length + 1 := by
  have := congrArg List.length (map_fst_rawSet l k v)
  simp only [List.length_map] at this
  rw [this]; split <;> simp

/-! ### class attributes never look like public identifiers -/

theorem shadowNames_not_public : shadowNames.all (fun s => !identPub s) = true := by decide

theorem identPub_not_classAttr {k : Str} (h : identPub k = true) : classAttr k = none := by
  unfold classAttr
  split
  · next e => subst e; revert h; decide
  · split
    · next e => subst e; revert h; decide
    · split
      · next e => subst e; revert h; decide
      · split
        · next hc =>
          have hm : k ∈ shadowNames := by simpa using hc
          have := List.all_eq_true.mp shadowNames_not_public k hm
          simp [h] at this
        · rfl

theorem classAttr_value : classAttr "value".toList = none := by decide

/-! ### the synchronisation invariant between the C-level dict and `odict._keys` -/

structure Sync (d : Data) : Prop where
  rawNodup : RawNodup d.raw
  keysNodup : d.keys.Nodup
  keysInRaw : ∀ k ∈ d.keys, (lookup d.raw k).isSome = true
  rawInKeys : ∀ k, (lookup d.raw k).isSome = true → k ∈ d.keys
  keysPublic : ∀ k ∈ d.keys, identPub k = true

theorem sync_empty : Sync ⟨[], []⟩ :=
  ⟨by simp [RawNodup], by simp, by simp, by simp [lookup], by simp⟩

/-- `hasattr` spelled out -/
theorem hasattr_iff (d : Data) (k : Str) :
    hasattr d k = true ↔ (lookup d.raw k).isSome = true ∨ (classAttr k).isSome = true := by
  unfold hasattr getattr
  cases hc : classAttr k with
  | none => cases hl : lookup d.raw k <;> simp
  | some c => cases c <;> cases hl : lookup d.raw k <;> simp

theorem hasattr_public {d : Data} {k : Str} (hp : identPub k = true) :
    hasattr d k = (lookup d.raw k).isSome := by
  have hc := identPub_not_classAttr hp
  unfold hasattr getattr
  rw [hc]
  cases lookup d.raw k <;> simp

theorem sync_rawSet_present {d : Data} (h : Sync d) (k : Str) (v : Val)
    (hk : (lookup d.raw k).isSome = true) :
    Sync { d with raw := rawSet d.raw k v } := by
  refine ⟨rawNodup_rawSet h.rawNodup k v, h.keysNodup, ?_, ?_, h.keysPublic⟩
  · intro j hj
    simp only [lookup_rawSet]
    split
    · rfl
    · exact h.keysInRaw j hj
  · intro j hj
    simp only [lookup_rawSet] at hj
    split at hj
    · next e => subst e; exact h.rawInKeys _ hk
    · exact h.rawInKeys j hj

theorem sync_odictSet_new {d : Data} (h : Sync d) (k : Str) (v : Val)
    (hn : lookup d.raw k = none) (hp : identPub k = true) : Sync (odictSet d k v) := by
  have hnk : k ∉ d.keys := by
    intro hm
    have := h.keysInRaw k hm
    rw [hn] at this; simp at this
  have hc : d.keys.contains k = false := by simpa using hnk
  unfold odictSet
  rw [hc]
  refine ⟨rawNodup_rawSet h.rawNodup k v, ?_, ?_, ?_, ?_⟩
  · simp only [Bool.false_eq_true, ↓reduceIte]
    rw [List.nodup_append]
    refine ⟨h.keysNodup, by simp, ?_⟩
    intro a ha b hb
    simp only [List.mem_singleton] at hb
    subst hb
    intro e; subst e; exact hnk ha
  · intro j hj
    simp only [Bool.false_eq_true, ↓reduceIte, List.mem_append, List.mem_singleton] at hj
    simp only [lookup_rawSet]
    split
    · rfl
    · next hne =>
      rcases hj with hj | hj
      · exact h.keysInRaw j hj
      · exact absurd hj.symm hne
  · intro j hj
    simp only [lookup_rawSet] at hj
    simp only [Bool.false_eq_true, ↓reduceIte, List.mem_append, List.mem_singleton]
    split at hj
    · next e => exact Or.inr e.symm
    · exact Or.inl (h.rawInKeys j hj)
  · intro j hj
    simp only [Bool.false_eq_true, ↓reduceIte, List.mem_append, List.mem_singleton] at hj
    rcases hj with hj | hj
    · exact h.keysPublic j hj
    · subst hj; exact hp

/-- `Data.__setattr__` preserves the invariant whatever the name and whether or not it raises -/
theorem sync_setattr {d : Data} (h : Sync d) (k : Str) (v : Val) : Sync (setattr d k v).1 := by
  unfold setattr
  by_cases hh : hasattr d k = true
  · simp only [hh, if_true]
    split
    · exact h
    · next hg =>
      cases hl : lookup d.raw k with
      | some x =>
        have hs : (lookup d.raw k).isSome = true := by simp [hl]
        split
        · exact h
        · exact h
        · exact h
        · exact sync_rawSet_present h k v hs
      | none =>
        -- not refused although absent: `__dict__` or `__weakref__`; both raise
        simp only [hl, Option.isNone_none, Bool.true_and, Bool.and_eq_true, bne_iff_ne, ne_eq,
          not_and, Decidable.not_not] at hg
        by_cases hd : classAttr k = some .dictPtr
        · simp only [hd]; exact h
        · have := hg hd
          simp only [this]; exact h
  · simp only [hh, Bool.false_eq_true, if_false]
    have hno : ¬ ((lookup d.raw k).isSome = true ∨ (classAttr k).isSome = true) :=
      fun x => hh ((hasattr_iff d k).mpr x)
    have hn : lookup d.raw k = none := by
      cases hl : lookup d.raw k with
      | none => rfl
      | some x => exact absurd (Or.inl (by simp [hl])) hno
    by_cases hp : identPub k = true
    · simp only [hn, hp, Option.isSome_none, Bool.false_or, if_true]
      exact sync_odictSet_new h k v hn hp
    · simp only [hn, hp, Option.isSome_none, Bool.false_or, Bool.false_eq_true, if_false]
      exact h

theorem sync_odictPop {d : Data} (h : Sync d) (k : Str) : Sync (odictPop d k) := by
  unfold odictPop
  refine ⟨rawNodup_rawDel h.rawNodup k, h.keysNodup.erase k, ?_, ?_, ?_⟩
  · intro j hj
    have hj' := (List.Nodup.mem_erase_iff h.keysNodup).mp hj
    rw [lookup_rawDel_ne _ (Ne.symm hj'.1)]
    exact h.keysInRaw j hj'.2
  · intro j hj
    have hne : k ≠ j := by
      intro e; subst e
      rw [lookup_rawDel_self h.rawNodup] at hj; simp at hj
    rw [lookup_rawDel_ne _ hne] at hj
    exact (List.Nodup.mem_erase_iff h.keysNodup).mpr ⟨Ne.symm hne, h.rawInKeys j hj⟩
  · intro j hj
    exact h.keysPublic j (List.mem_of_mem_erase hj)

theorem sync_delattr {d : Data} (h : Sync d) (k : Str) : Sync (delattr d k).1 := by
  unfold delattr
  split
  · exact sync_odictPop h k
  · split <;> exact h

theorem sync_changeLoop {d : Data} (h : Sync d) (ps : List (Str × Val)) : Sync (changeLoop d ps).1 := by
  induction ps generalizing d with
  | nil => exact h
  | cons p ps ih =>
    obtain ⟨k, v⟩ := p
    simp only [changeLoop]
    have hs := sync_setattr h k v
    cases hr : setattr d k v with
    | mk d' e =>
      rw [hr] at hs
      cases e with
      | none => exact ih hs
      | some e => exact hs

theorem sync_createLoop {d : Data} (h : Sync d) (upd : Bool) (ps : List (Str × Val)) :
    Sync (createLoop d upd ps).1 := by
  induction ps generalizing d upd with
  | nil => exact h
  | cons p ps ih =>
    obtain ⟨k, v⟩ := p
    simp only [createLoop]
    split
    · exact ih h upd
    · have hs := sync_setattr h k v
      cases hr : setattr d k v with
      | mk d' e =>
        rw [hr] at hs
        cases e with
        | none => exact ih hs true
        | some e => exact hs

/-- `list.insert` puts the element somewhere and keeps everything else in order -/
theorem pyInsert_perm (l : List Str) (i : Int) (x : Str) : (pyInsert l i x).Perm (x :: l) := by
  unfold pyInsert
  simp only
  generalize (if i < 0 then (if i + (l.length : Int) < 0 then 0 else (i + l.length).toNat)
    else (if i.toNat > l.length then l.length else i.toNat)) = n
  have h := List.perm_middle (a := x) (l₁ := l.take n) (l₂ := l.drop n)
  rwa [List.take_append_drop] at h

theorem mem_pyInsert {l : List Str} {i : Int} {x j : Str} : j ∈ pyInsert l i x ↔ j = x ∨ j ∈ l := by
  rw [(pyInsert_perm l i x).mem_iff]; simp

theorem sync_insert {d : Data} (h : Sync d) {k : Str} (v : Val) (i : Int)
    (hn : lookup d.raw k = none) (hp : identPub k = true) :
    Sync ⟨rawSet d.raw k v, pyInsert d.keys i k⟩ := by
  have hnk : k ∉ d.keys := by
    intro hm; have := h.keysInRaw k hm; rw [hn] at this; simp at this
  refine ⟨rawNodup_rawSet h.rawNodup k v, ?_, ?_, ?_, ?_⟩
  · rw [(pyInsert_perm d.keys i k).nodup_iff, List.nodup_cons]
    exact ⟨hnk, h.keysNodup⟩
  · intro j hj
    simp only [lookup_rawSet]
    split
    · rfl
    · next hne =>
      rcases mem_pyInsert.mp hj with e | e
      · exact absurd e.symm hne
      · exact h.keysInRaw j e
  · intro j hj
    simp only [lookup_rawSet] at hj
    split at hj
    · next e => exact mem_pyInsert.mpr (Or.inl e.symm)
    · exact mem_pyInsert.mpr (Or.inr (h.rawInKeys j hj))
  · intro j hj
    rcases mem_pyInsert.mp hj with e | e
    · subst e; exact hp
    · exact h.keysPublic j e

/-- one step of `odict.reorder`: the key gets the value and moves to the end of the key list -/
theorem sync_moveToEnd {d : Data} (h : Sync d) (k : Str) (v : Val)
    (hk : (lookup d.raw k).isSome = true ∨ identPub k = true) :
    Sync ⟨rawSet d.raw k v, d.keys.erase k ++ [k]⟩ := by
  have hmem : ∀ j, j ∈ d.keys.erase k ++ [k] ↔ j = k ∨ j ∈ d.keys := by
    intro j
    simp only [List.mem_append, List.mem_singleton]
    constructor
    · rintro (h1 | h1)
      · exact Or.inr (List.mem_of_mem_erase h1)
      · exact Or.inl h1
    · rintro (h1 | h1)
      · exact Or.inr h1
      · by_cases e : j = k
        · exact Or.inr e
        · exact Or.inl ((List.Nodup.mem_erase_iff h.keysNodup).mpr ⟨e, h1⟩)
  refine ⟨rawNodup_rawSet h.rawNodup k v, ?_, ?_, ?_, ?_⟩
  · rw [List.nodup_append]
    refine ⟨h.keysNodup.erase k, by simp, ?_⟩
    intro a ha b hb
    simp only [List.mem_singleton] at hb
    subst hb
    intro e; subst e
    exact ((List.Nodup.mem_erase_iff h.keysNodup).mp ha).1 rfl
  · intro j hj
    simp only [lookup_rawSet]
    split
    · rfl
    · next hne =>
      rcases (hmem j).mp hj with e | e
      · exact absurd e.symm hne
      · exact h.keysInRaw j e
  · intro j hj
    simp only [lookup_rawSet] at hj
    split at hj
    · next e => exact (hmem j).mpr (Or.inl e.symm)
    · exact (hmem j).mpr (Or.inr (h.rawInKeys j hj))
  · intro j hj
    rcases (hmem j).mp hj with e | e
    · subst e
      rcases hk with h1 | h1
      · exact h.keysPublic _ (h.rawInKeys _ h1)
      · exact h1
    · exact h.keysPublic j e

theorem sync_reorderFold (ps : List (Str × Val)) : ∀ {d : Data}, Sync d →
    (∀ p ∈ ps, (lookup d.raw p.1).isSome = true ∨ identPub p.1 = true) →
    Sync (ps.foldl (fun d p => ⟨rawSet d.raw p.1 p.2, d.keys.erase p.1 ++ [p.1]⟩) d) := by
  induction ps with
  | nil => intro d h _; exact h
  | cons p ps ih =>
    intro d h hp
    simp only [List.foldl_cons]
    apply ih (sync_moveToEnd h p.1 p.2 (hp p (List.mem_cons_self ..)))
    intro q hq
    rcases hp q (List.mem_cons_of_mem _ hq) with h1 | h1
    · left
      simp only [lookup_rawSet]
      split
      · rfl
      · exact h1
    · exact Or.inr h1

/-- every operation preserves the invariant -/
theorem sync_step {w : World} (h : Sync w.data) (op : Op) : Sync (step w op).1.data := by
  cases op with
  | setValue v =>
    simp only [step]
    have hs := sync_setattr h "value".toList v
    cases hr : setattr w.data "value".toList v with
    | mk d e => rw [hr] at hs; cases e <;> exact hs
  | getValue => simp only [step]; split <;> exact h
  | update ps =>
    simp only [step]
    have hs := sync_changeLoop h ps
    cases hr : changeLoop w.data ps with
    | mk d e => rw [hr] at hs; cases e <;> exact hs
  | change ps => exact sync_changeLoop h ps
  | create ps =>
    simp only [step]
    have hs := sync_createLoop h false ps
    cases hr : createLoop w.data false ps with
    | mk d r =>
      obtain ⟨upd, e⟩ := r
      rw [hr] at hs
      cases e with
      | none => cases upd <;> exact hs
      | some e => exact hs
  | stampNow => exact h
  | setItem k v => exact sync_setattr h k v
  | getItem k => simp only [step]; split <;> exact h
  | delItem k => exact sync_delattr h k
  | contains k => exact h
  | get k => simp only [step]; split <;> exact h
  | keys => exact h
  | items => simp only [step]; split <;> exact h
  | values => simp only [step]; split <;> exact h
  | len => exact h
  | pop k =>
    simp only [step]
    split
    · exact sync_odictPop h k
    · exact h
  | popitem =>
    simp only [step]
    split
    · exact h
    · split
      · exact sync_odictPop h _
      · exact h
  | setdefault k v =>
    simp only [step]
    split
    · exact h
    · have hs := sync_setattr h k v
      cases hr : setattr w.data k v with
      | mk d e =>
        rw [hr] at hs
        cases e with
        | none => simp only; split <;> exact hs
        | some e => exact hs
  | clear => exact sync_empty
  | sift fs => cases fs <;> (simp only [step]; split <;> exact h)
  | copy => simp only [step]; split <;> exact h
  | reorder ps =>
    simp only [step]
    split
    · exact h
    · next hc =>
      apply sync_reorderFold ps h
      intro p hp
      have := hc
      simp only [List.any_eq_true, not_exists, not_and, Bool.and_eq_true, Bool.not_eq_true'] at this
      have h1 := this p hp
      by_cases e : (lookup w.data.raw p.1).isSome = true
      · exact Or.inl e
      · right
        have hn : (lookup w.data.raw p.1).isNone = true := by
          cases hl : lookup w.data.raw p.1 <;> simp_all
        cases hi : identPub p.1
        · exact absurd hi (by simpa using h1 hn)
        · rfl
  | setData ps =>
    simp only [step]
    have hs := sync_changeLoop sync_empty ps
    cases hr : changeLoop ⟨[], []⟩ ps with
    | mk d e => rw [hr] at hs; cases e <;> first | exact hs | exact h
  | setTruth v => exact h
  | getTruth => exact h
  | changeUnit ps => exact h
  | createUnit ps => exact h
  | fetchUnit k =>
    simp only [step]
    split
    · exact h
    · split <;> exact h
  | ctorUnit ps =>
    simp only [step]
    split
    · split <;> exact h
    · exact h
  | mutate id n => exact h
  | insert idx k v =>
    simp only [step]
    split
    · exact h
    · next hp =>
      split
      · exact h
      · next hl =>
        apply sync_insert h v idx
        · cases hx : lookup w.data.raw k with
          | none => rfl
          | some x => rw [hx] at hl; simp at hl
        · simpa using hp
  | push v => exact h
  | pull => simp only [step]; split <;> exact h
  | gulp v => simp only [step]; split <;> exact h
  | spew => simp only [step]; split <;> exact h
  | setClock i t => simp only [step]; split <;> exact h
  | attach s => exact h

theorem sync_run {w : World} (h : Sync w.data) (ops : List Op) : Sync (run w ops).data := by
  induction ops generalizing w with
  | nil => exact h
  | cons op ops ih => exact ih (sync_step h op)

/-! ### the ordered-map view -/

/-- the fields as `keys()`/`items()` present them -/
def view (d : Data) : List (Str × Val) :=
  d.keys.filterMap (fun k => (lookup d.raw k).map (fun v => (k, v)))

theorem items_ok (raw : List (Str × Val)) (ks : List Str)
    (h : ∀ k ∈ ks, (lookup raw k).isSome = true) :
    ks.mapM (fun k => match lookup raw k with
      | some v => (Except.ok (k, v) : Except Err (Str × Val))
      | none => .error .keyError) =
    .ok (ks.filterMap (fun k => (lookup raw k).map (fun v => (k, v)))) := by
  induction ks with
  | nil => rfl
  | cons k ks ih =>
    have hk := h k (List.mem_cons_self ..)
    have ih' := ih (fun j hj => h j (List.mem_cons_of_mem _ hj))
    cases hl : lookup raw k with
    | none => rw [hl] at hk; simp at hk
    | some v =>
      simp only [List.mapM_cons, hl, ih', List.filterMap_cons, Option.map_some]
      rfl

/-- under the invariant `items()` never raises and is the view -/
theorem items_eq_view {d : Data} (h : Sync d) : items d = .ok (view d) :=
  items_ok d.raw d.keys h.keysInRaw

theorem view_keys {d : Data} (h : Sync d) : (view d).map Prod.fst = d.keys := by
  unfold view
  have : ∀ ks : List Str, (∀ k ∈ ks, (lookup d.raw k).isSome = true) →
      (ks.filterMap (fun k => (lookup d.raw k).map (fun v => (k, v)))).map Prod.fst = ks := by
    intro ks
    induction ks with
    | nil => intro _; rfl
    | cons k ks ih =>
      intro hk
      have h1 := hk k (List.mem_cons_self ..)
      cases hl : lookup d.raw k with
      | none => rw [hl] at h1; simp at h1
      | some v =>
        simp only [List.filterMap_cons, hl, Option.map_some, List.map_cons]
        rw [ih (fun j hj => hk j (List.mem_cons_of_mem _ hj))]
  exact this d.keys h.keysInRaw

theorem lookup_filterMap (raw : List (Str × Val)) (ks : List Str) (k : Str) :
    lookup (ks.filterMap (fun j => (lookup raw j).map (fun v => (j, v)))) k =
      if k ∈ ks then lookup raw k else none := by
  induction ks with
  | nil => simp [lookup]
  | cons j ks ih =>
    cases hl : lookup raw j with
    | none =>
      simp only [List.filterMap_cons, hl, Option.map_none, ih, List.mem_cons]
      by_cases e : k = j
      · subst e; simp [hl]
      · simp [e]
    | some v =>
      simp only [List.filterMap_cons, hl, Option.map_some, lookup, ih, List.mem_cons]
      by_cases e : j = k
      · subst e; simp [hl]
      · have : ¬ k = j := fun x => e x.symm
        simp [e, this]

theorem lookup_view (d : Data) (k : Str) :
    lookup (view d) k = if k ∈ d.keys then lookup d.raw k else none :=
  lookup_filterMap d.raw d.keys k

theorem filterMap_congr_raw (raw raw' : List (Str × Val)) (ks : List Str)
    (h : ∀ j ∈ ks, lookup raw' j = lookup raw j) :
    ks.filterMap (fun j => (lookup raw' j).map (fun v => (j, v))) =
      ks.filterMap (fun j => (lookup raw j).map (fun v => (j, v))) := by
  induction ks with
  | nil => rfl
  | cons j ks ih =>
    simp only [List.filterMap_cons, h j (List.mem_cons_self ..)]
    rw [ih (fun i hi => h i (List.mem_cons_of_mem _ hi))]

theorem rawSet_of_lookup_none {l : List (Str × Val)} {k : Str} (h : lookup l k = none) (v : Val) :
    rawSet l k v = l ++ [(k, v)] := by
  induction l with
  | nil => rfl
  | cons e rest ih =>
    obtain ⟨k', v'⟩ := e
    by_cases hk : k' = k
    · simp [lookup, hk] at h
    · simp only [lookup, hk, if_false] at h
      simp [rawSet, hk, ih h]

theorem rawDel_of_lookup_none {l : List (Str × Val)} {k : Str} (h : lookup l k = none) :
    rawDel l k = l := by
  induction l with
  | nil => rfl
  | cons e rest ih =>
    obtain ⟨k', v'⟩ := e
    by_cases hk : k' = k
    · simp [lookup, hk] at h
    · simp only [lookup, hk, if_false] at h
      simp [rawDel, hk, ih h]

/-- replacing the value of a key that is in the key list = replacing it in place in the view -/
theorem filterMap_rawSet_mem (raw : List (Str × Val)) (k : Str) (v : Val) (ks : List Str)
    (hin : ∀ j ∈ ks, (lookup raw j).isSome = true) (hnd : ks.Nodup) (hk : k ∈ ks) :
    ks.filterMap (fun j => (lookup (rawSet raw k v) j).map (fun x => (j, x))) =
      rawSet (ks.filterMap (fun j => (lookup raw j).map (fun x => (j, x)))) k v := by
  induction ks with
  | nil => simp at hk
  | cons j ks ih =>
    have hj := hin j (List.mem_cons_self ..)
    have hnd' := (List.nodup_cons.mp hnd)
    cases hl : lookup raw j with
    | none => rw [hl] at hj; simp at hj
    | some x =>
      by_cases e : j = k
      · subst e
        have hcongr := filterMap_congr_raw raw (rawSet raw j v) ks (by
          intro i hi
          have : ¬ j = i := by intro e; subst e; exact hnd'.1 hi
          simp [lookup_rawSet, this])
        have hhead : lookup (rawSet raw j v) j = some v := by simp [lookup_rawSet]
        simp only [List.filterMap_cons, hhead, hl, Option.map_some, rawSet, if_true]
        rw [hcongr]
      · have hk' : k ∈ ks := by
          rcases List.mem_cons.mp hk with h1 | h1
          · exact absurd h1.symm e
          · exact h1
        have e' : ¬ k = j := fun x => e x.symm
        have hhead : lookup (rawSet raw k v) j = some x := by simp [lookup_rawSet, e', hl]
        simp only [List.filterMap_cons, hhead, hl, Option.map_some, rawSet, e, if_false]
        rw [ih (fun i hi => hin i (List.mem_cons_of_mem _ hi)) hnd'.2 hk']

theorem filterMap_erase (raw : List (Str × Val)) (k : Str) (ks : List Str)
    (hin : ∀ j ∈ ks, (lookup raw j).isSome = true) (hnd : ks.Nodup) :
    (ks.erase k).filterMap (fun j => (lookup raw j).map (fun x => (j, x))) =
      rawDel (ks.filterMap (fun j => (lookup raw j).map (fun x => (j, x)))) k := by
  induction ks with
  | nil => rfl
  | cons j ks ih =>
    have hj := hin j (List.mem_cons_self ..)
    have hnd' := (List.nodup_cons.mp hnd)
    cases hl : lookup raw j with
    | none => rw [hl] at hj; simp at hj
    | some x =>
      by_cases e : j = k
      · subst e
        simp [hl, rawDel]
      · rw [List.erase_cons_tail (by simpa using e)]
        simp only [List.filterMap_cons, hl, Option.map_some, rawDel, e, if_false]
        rw [ih (fun i hi => hin i (List.mem_cons_of_mem _ hi)) hnd'.2]

/-- **set**: for a public name `Data.__setattr__` never raises and acts on the view exactly like
an insertion-ordered map (`rawSet`: replace in place, or append) -/
theorem view_setattr {d : Data} (h : Sync d) {k : Str} (hp : identPub k = true) (v : Val) :
    (setattr d k v).2 = none ∧ view (setattr d k v).1 = rawSet (view d) k v := by
  have hc := identPub_not_classAttr hp
  unfold setattr
  rw [hasattr_public hp]
  cases hl : lookup d.raw k with
  | some x =>
    have hmem : k ∈ d.keys := h.rawInKeys k (by simp [hl])
    simp only [Option.isSome_some, if_true, hc, Option.isNone_some, Bool.false_and,
      Bool.false_eq_true, if_false, true_and]
    exact filterMap_rawSet_mem d.raw k v d.keys h.keysInRaw h.keysNodup hmem
  | none =>
    have hnk : k ∉ d.keys := by
      intro hm; have := h.keysInRaw k hm; rw [hl] at this; simp at this
    have hcont : d.keys.contains k = false := by simpa using hnk
    simp only [Option.isSome_none, Bool.false_eq_true, if_false, hp, Bool.or_true, if_true, true_and]
    unfold view odictSet
    have hkk : lookup (rawSet d.raw k v) k = some v := by simp [lookup_rawSet]
    simp only [hcont, Bool.false_eq_true, if_false, List.filterMap_append, List.filterMap_cons,
      List.filterMap_nil, hkk, Option.map_some]
    have hcongr := filterMap_congr_raw d.raw (rawSet d.raw k v) d.keys (by
      intro i hi
      have : ¬ k = i := by intro e; subst e; exact hnk hi
      simp [lookup_rawSet, this])
    rw [hcongr]
    have hvn : lookup (d.keys.filterMap (fun j => (lookup d.raw j).map (fun x => (j, x)))) k = none := by
      rw [lookup_filterMap]; simp [hnk]
    rw [rawSet_of_lookup_none hvn]

/-- **delete**: for a public name, deletion removes exactly that entry from the view and keeps
the order of the others; deleting a name that is not a field raises and changes nothing -/
theorem view_delattr {d : Data} (h : Sync d) {k : Str} (hp : identPub k = true) :
    (k ∈ d.keys → (delattr d k).2 = none ∧ view (delattr d k).1 = rawDel (view d) k) ∧
    (k ∉ d.keys → delattr d k = (d, some .attributeError)) := by
  have hc := identPub_not_classAttr hp
  constructor
  · intro hm
    have hs := h.keysInRaw k hm
    unfold delattr
    simp only [hs, if_true, true_and]
    unfold view odictPop
    simp only
    have hcongr := filterMap_congr_raw d.raw (rawDel d.raw k) (d.keys.erase k) (by
      intro i hi
      have hi' := (List.Nodup.mem_erase_iff h.keysNodup).mp hi
      exact lookup_rawDel_ne _ (Ne.symm hi'.1))
    rw [hcongr]
    exact filterMap_erase d.raw k d.keys h.keysInRaw h.keysNodup
  · intro hm
    have hn : lookup d.raw k = none := by
      cases hl : lookup d.raw k with
      | none => rfl
      | some x => exact absurd (h.rawInKeys k (by simp [hl])) hm
    unfold delattr
    simp [hn, hc]

/-- **get**: for a public name, attribute access reads the view -/
theorem view_getattr {d : Data} (h : Sync d) {k : Str} (hp : identPub k = true) :
    getattr d k = match lookup (view d) k with
      | some v => .ok v
      | none => .error .attributeError := by
  have hc := identPub_not_classAttr hp
  rw [lookup_view]
  unfold getattr
  rw [hc]
  cases hl : lookup d.raw k with
  | some x =>
    have hmem : k ∈ d.keys := h.rawInKeys k (by simp [hl])
    simp [hmem]
  | none => simp

/-! ### `create` -/

theorem createLoop_flag (ps : List (Str × Val)) : ∀ (d : Data) (upd : Bool),
    (createLoop d upd ps).2.2 = none →
      (createLoop d upd ps).2.1 = (upd || ps.any (fun p => !hasattr d p.1)) := by
  induction ps with
  | nil => intro d upd _; simp [createLoop]
  | cons p ps ih =>
    obtain ⟨k, v⟩ := p
    intro d upd h
    simp only [createLoop] at h ⊢
    by_cases hh : hasattr d k = true
    · simp only [hh, if_true] at h ⊢
      rw [ih d upd h]; simp [hh]
    · simp only [hh, Bool.false_eq_true, if_false] at h ⊢
      cases hr : setattr d k v with
      | mk d' e =>
        rw [hr] at h
        cases e with
        | some e => simp at h
        | none =>
          simp only at h ⊢
          rw [ih d' true h]; simp [hh]

theorem getattr_congr {d d' : Data} {k : Str} (h : lookup d'.raw k = lookup d.raw k) :
    getattr d' k = getattr d k := by
  unfold getattr; rw [h]

/-- setting an attribute that did not exist does not disturb any other attribute -/
theorem getattr_setattr_other {d : Data} {k' : Str} (v : Val) {k : Str}
    (hk' : hasattr d k' = false) (hk : hasattr d k = true) :
    getattr (setattr d k' v).1 k = getattr d k := by
  have hne : k' ≠ k := by intro e; subst e; rw [hk] at hk'; simp at hk'
  unfold setattr
  simp only [hk', Bool.false_eq_true, if_false]
  split
  · apply getattr_congr
    simp [odictSet, lookup_rawSet, hne]
  · rfl

theorem hasattr_of_getattr_eq {d d' : Data} {k : Str} (h : getattr d' k = getattr d k) :
    hasattr d' k = hasattr d k := by
  unfold hasattr; rw [h]

theorem createLoop_keeps (ps : List (Str × Val)) : ∀ (d : Data) (upd : Bool) (k : Str),
    hasattr d k = true → getattr (createLoop d upd ps).1 k = getattr d k := by
  induction ps with
  | nil => intro d upd k _; rfl
  | cons p ps ih =>
    obtain ⟨k', v⟩ := p
    intro d upd k hk
    simp only [createLoop]
    by_cases hh : hasattr d k' = true
    · simp only [hh, if_true]; exact ih d upd k hk
    · have hh' : hasattr d k' = false := by simpa using hh
      simp only [hh, Bool.false_eq_true, if_false]
      have hg := getattr_setattr_other v hh' hk
      cases hr : setattr d k' v with
      | mk d' e =>
        rw [hr] at hg
        cases e with
        | some e => exact hg
        | none =>
          simp only
          rw [ih d' true k (by rw [hasattr_of_getattr_eq hg]; exact hk)]
          exact hg

theorem setattr_public_none (d : Data) {k : Str} (v : Val) (hp : identPub k = true) :
    (setattr d k v).2 = none := by
  have hc := identPub_not_classAttr hp
  unfold setattr
  rw [hasattr_public hp]
  cases hl : lookup d.raw k with
  | some x => simp [hc]
  | none => simp [hp]

/-! ### deck -/

theorem step_deck (w : World) (op : Op) :
    (step w op).1.deck = match op with
      | .push v => w.deck ++ [v]
      | .gulp v => if v = .none then w.deck else w.deck ++ [v]
      | .pull => w.deck.tail
      | .spew => w.deck.tail
      | _ => w.deck := by
  cases op with
  | setValue v => simp only [step]; split <;> rfl
  | getValue => simp only [step]; split <;> rfl
  | update ps => simp only [step]; split <;> rfl
  | change ps => rfl
  | create ps =>
    simp only [step]
    split
    · split <;> rfl
    · rfl
  | stampNow => rfl
  | setItem k v => rfl
  | getItem k => simp only [step]; split <;> rfl
  | delItem k => rfl
  | contains k => rfl
  | get k => simp only [step]; split <;> rfl
  | keys => rfl
  | items => simp only [step]; split <;> rfl
  | values => simp only [step]; split <;> rfl
  | len => rfl
  | pop k => simp only [step]; split <;> rfl
  | popitem =>
    simp only [step]
    split
    · rfl
    · split <;> rfl
  | setdefault k v =>
    simp only [step]
    split
    · rfl
    · split
      · split <;> rfl
      · rfl
  | clear => rfl
  | sift fs => cases fs <;> (simp only [step]; split <;> rfl)
  | copy => simp only [step]; split <;> rfl
  | reorder ps => simp only [step]; split <;> rfl
  | setData ps => simp only [step]; split <;> rfl
  | setTruth v => rfl
  | getTruth => rfl
  | changeUnit ps => rfl
  | createUnit ps => rfl
  | fetchUnit k =>
    simp only [step]
    split
    · rfl
    · split <;> rfl
  | ctorUnit ps =>
    simp only [step]
    split
    · split <;> rfl
    · rfl
  | mutate id n => rfl
  | insert idx k v =>
    simp only [step]
    split
    · rfl
    · split <;> rfl
  | push v => rfl
  | pull => simp only [step]; split <;> simp_all
  | gulp v => simp only [step]; split <;> simp_all
  | spew => simp only [step]; split <;> simp_all
  | setClock i t => simp only [step]; split <;> rfl
  | attach s => rfl

end Ioflo.Share
