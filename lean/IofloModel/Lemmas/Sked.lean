import IofloModel.Model.Sked
/-!
Helper lemmas for the scheduler model (`Model/Sked.lean`): the deque rotation of one pass as a
chain of per-entry steps (`after`, `Proc`), and the invariants used by `Props/C02.lean`.
-/
set_option linter.unusedSectionVars false
set_option linter.unusedVariables false
namespace Ioflo.Sked
open List (Sublist)
open scoped List

variable {τ ω : Type} [TimeLike τ]

def ids (l : List (Entry τ)) : List Nat := l.map (·.id)

@[simp] theorem ids_nil : ids ([] : List (Entry τ)) = [] := rfl
@[simp] theorem ids_cons (e : Entry τ) (l : List (Entry τ)) : ids (e :: l) = e.id :: ids l := rfl
@[simp] theorem ids_append (a b : List (Entry τ)) : ids (a ++ b) = ids a ++ ids b := by
  simp [ids]

/-- the result of a send ends the tasker's life in `ready` -/
def Sent.terminal : Sent → Bool
  | .yielded s => s == .aborted
  | .stopIteration => true
  | .raised _ => true

/-- the entry goes to `aborted` -/
def Sent.aborts : Sent → Bool
  | .yielded s => s == .aborted
  | .stopIteration => true
  | .raised _ => false

def BodyOut.state : BodyOut τ ω → St τ ω
  | .ok s _ => s
  | .exc _ s => s

def BodyOut.isOk : BodyOut τ ω → Bool
  | .ok _ _ => true
  | .exc _ _ => false

theorem BodyOut.eq_ok_of_isOk {o : BodyOut τ ω} (h : o.isOk = true) : ∃ m, o = .ok o.state m := by
  cases o with
  | ok s m => exact ⟨m, rfl⟩
  | exc x s => simp [BodyOut.isOk] at h

/-- the event of sending to the head entry `e` in state `s` -/
def sendEvent (E : Env τ ω) (s : St τ ω) (e : Entry τ) : Event τ :=
  let c := E.desire s.world e.id
  let r := E.send .loop e.id c s.storeStamp s.world
  { phase := .loop, tick := s.tick, id := e.id, control := c, stamp := s.storeStamp, result := r.1,
    periodAfter := E.period r.2 e.id }

/-- the entry re-appended after a run of `e` -/
def rescheduled (e : Entry τ) (ev : Event τ) : Entry τ :=
  { id := e.id, retime := TimeLike.add e.retime ev.periodAfter, period := ev.periodAfter }

/-- the state after the loop body has handled head entry `e` (`rest` = the deque behind it) -/
def after (E : Env τ ω) (s : St τ ω) (e : Entry τ) (rest : List (Entry τ)) : St τ ω :=
  if TimeLike.lt s.stamp e.retime then
    { s with ready := rest ++ [e], status := some (E.status s.world e.id) }
  else
    let ev := sendEvent E s e
    let w := (E.send .loop e.id (E.desire s.world e.id) s.storeStamp s.world).2
    { s with world := w, events := s.events ++ [ev]
             ready := rest ++ (if ev.result.terminal then [] else [rescheduled e ev])
             aborted := s.aborted ++ (if ev.result.aborts then [{ id := e.id, retime := s.stamp, period := e.period }] else [])
             status := match ev.result with | .yielded st => some st | .stopIteration => some .aborted | .raised _ => s.status }

theorem checkMore_state (s : St τ ω) (m : Bool) : (checkMore s m).state = s := by
  unfold checkMore; split <;> rfl

theorem body_state (E : Env τ ω) (s : St τ ω) (more : Bool) (e : Entry τ) (rest : List (Entry τ))
    (h : s.ready = e :: rest) : (body E s more).state = after E s e rest := by
  unfold body after
  rw [h]
  simp only []
  split
  · rw [checkMore_state]
  · simp only [sendEvent]
    split
    · rename_i st hst
      split
      · rename_i hab
        rw [checkMore_state]; subst hab; simp [hst, Sent.terminal, Sent.aborts]
      · rename_i hab
        rw [checkMore_state]; simp [hst, Sent.terminal, Sent.aborts, hab, rescheduled]
    · rename_i hst
      rw [checkMore_state]; simp [hst, Sent.terminal, Sent.aborts]
    · rename_i x hst
      simp [BodyOut.state, hst, Sent.terminal, Sent.aborts]

theorem body_ok_state {E : Env τ ω} {s s' : St τ ω} {more m : Bool} {e : Entry τ} {rest : List (Entry τ)}
    (h : s.ready = e :: rest) (hb : body E s more = .ok s' m) : s' = after E s e rest := by
  have := body_state E s more e rest h
  rw [hb] at this; exact this

theorem body_exc_state {E : Env τ ω} {s s' : St τ ω} {more : Bool} {x : Exc} {e : Entry τ} {rest : List (Entry τ)}
    (h : s.ready = e :: rest) (hb : body E s more = .exc x s') : s' = after E s e rest := by
  have := body_state E s more e rest h
  rw [hb] at this; exact this

/-- what one step leaves unchanged / appends -/
structure StepSpec (s s' : St τ ω) (e : Entry τ) (rest : List (Entry τ)) : Prop where
  ready : ∃ K, s'.ready = rest ++ K ∧ ids K <+ [e.id]
  events : ∃ N, s'.events = s.events ++ N ∧ N.map (·.id) <+ [e.id] ∧
    ∀ ev ∈ N, ev.phase = .loop ∧ ev.tick = s.tick
  aborted : ∃ A, s'.aborted = s.aborted ++ A ∧ ids A <+ [e.id]
  tick : s'.tick = s.tick
  stamp : s'.stamp = s.stamp
  storeStamp : s'.storeStamp = s.storeStamp
  P : s'.P = s.P

theorem after_spec (E : Env τ ω) (s : St τ ω) (e : Entry τ) (rest : List (Entry τ)) :
    StepSpec s (after E s e rest) e rest := by
  unfold after
  split
  · exact ⟨⟨[e], rfl, by simp⟩, ⟨[], by simp, by simp, by simp⟩, ⟨[], by simp, by simp⟩, rfl, rfl, rfl, rfl⟩
  · refine ⟨⟨_, rfl, ?_⟩, ⟨[sendEvent E s e], rfl, by simp [sendEvent], by simp [sendEvent]⟩, ⟨_, rfl, ?_⟩, rfl, rfl, rfl, rfl⟩
    · split <;> simp [rescheduled]
    · split <;> simp

/-- `Proc E done s s'`: starting in `s`, the loop body handled exactly the entries `done`
(the head of the deque each time) and reached `s'`. -/
inductive Proc (E : Env τ ω) : List (Entry τ) → St τ ω → St τ ω → Prop
  | nil (s : St τ ω) : Proc E [] s s
  | cons {s s' : St τ ω} {e : Entry τ} {rest done : List (Entry τ)} :
      s.ready = e :: rest → Proc E done (after E s e rest) s' → Proc E (e :: done) s s'

/-- The `for i in range(len(ready))` loop handles a prefix of the entries that were in the deque
when it started — all of them unless an exception ends it. -/
theorem forLoop_proc (E : Env τ ω) : ∀ (front back : List (Entry τ)) (s : St τ ω) (more : Bool),
    s.ready = front ++ back →
    ∃ done todo, front = done ++ todo ∧ Proc E done s (forLoop E front.length s more).state ∧
      (∀ s' m, forLoop E front.length s more = .ok s' m → todo = []) := by
  intro front
  induction front with
  | nil =>
    intro back s more _
    exact ⟨[], [], rfl, Proc.nil s, fun _ _ _ => rfl⟩
  | cons e es ih =>
    intro back s more h
    have h' : s.ready = e :: (es ++ back) := by simpa using h
    simp only [List.length_cons, forLoop]
    cases hb : body E s more with
    | ok s1 m1 =>
      have hs1 := body_ok_state h' hb
      obtain ⟨K, hK, _⟩ := (after_spec E s e (es ++ back)).ready
      have hr : s1.ready = es ++ (back ++ K) := by rw [hs1, hK]; simp
      obtain ⟨done, todo, hsplit, hproc, hok⟩ := ih (back ++ K) s1 m1 hr
      refine ⟨e :: done, todo, by simp [hsplit], ?_, hok⟩
      exact Proc.cons h' (hs1 ▸ hproc)
    | exc x s1 =>
      have hs1 := body_exc_state h' hb
      refine ⟨[e], es, rfl, ?_, fun _ _ h => by simp at h⟩
      exact Proc.cons h' (hs1 ▸ Proc.nil _)

/-- summary of a (partial) pass -/
structure PassSpec (s s' : St τ ω) (done back : List (Entry τ)) : Prop where
  ready : ∃ K, s'.ready = back ++ K ∧ ids K <+ ids done
  events : ∃ N, s'.events = s.events ++ N ∧ N.map (·.id) <+ ids done ∧
    ∀ ev ∈ N, ev.phase = .loop ∧ ev.tick = s.tick
  aborted : ∃ A, s'.aborted = s.aborted ++ A ∧ ids A <+ ids done
  tick : s'.tick = s.tick
  stamp : s'.stamp = s.stamp
  storeStamp : s'.storeStamp = s.storeStamp
  P : s'.P = s.P

theorem Proc.spec {E : Env τ ω} {done : List (Entry τ)} {s s' : St τ ω} (hp : Proc E done s s') :
    ∀ back, s.ready = done ++ back → PassSpec s s' done back := by
  induction hp with
  | nil s =>
    intro back h
    exact ⟨⟨[], by simpa using h, by simp⟩, ⟨[], by simp, by simp, by simp⟩, ⟨[], by simp, by simp⟩, rfl, rfl, rfl, rfl⟩
  | @cons s s' e rest done hr _ ih =>
    intro back h
    have hrest : rest = done ++ back := by
      rw [hr] at h; simpa using h
    have st := after_spec E s e rest
    obtain ⟨K0, hK0, hK0s⟩ := st.ready
    obtain ⟨N0, hN0, hN0s, hN0p⟩ := st.events
    obtain ⟨A0, hA0, hA0s⟩ := st.aborted
    have ih' := ih (back ++ K0) (by rw [hK0, hrest]; simp)
    obtain ⟨K1, hK1, hK1s⟩ := ih'.ready
    obtain ⟨N1, hN1, hN1s, hN1p⟩ := ih'.events
    obtain ⟨A1, hA1, hA1s⟩ := ih'.aborted
    refine ⟨⟨K0 ++ K1, by rw [hK1]; simp, ?_⟩, ⟨N0 ++ N1, by rw [hN1, hN0]; simp, ?_, ?_⟩,
      ⟨A0 ++ A1, by rw [hA1, hA0]; simp, ?_⟩, ?_, ?_, ?_, ?_⟩
    · simpa using List.Sublist.append hK0s hK1s
    · simpa using List.Sublist.append hN0s hN1s
    · intro ev hev
      rcases List.mem_append.mp hev with h0 | h1
      · exact hN0p ev h0
      · have := hN1p ev h1
        rw [st.tick] at this; exact this
    · simpa using List.Sublist.append hA0s hA1s
    · rw [ih'.tick, st.tick]
    · rw [ih'.stamp, st.stamp]
    · rw [ih'.storeStamp, st.storeStamp]
    · rw [ih'.P, st.P]

/-! ### explicit description of one step -/

def isDue (s : St τ ω) (e : Entry τ) : Bool := !TimeLike.lt s.stamp e.retime

def newEvents (E : Env τ ω) (s : St τ ω) (e : Entry τ) : List (Event τ) :=
  if isDue s e then [sendEvent E s e] else []

def kept (E : Env τ ω) (s : St τ ω) (e : Entry τ) : List (Entry τ) :=
  if isDue s e then
    (if (sendEvent E s e).result.terminal then [] else [rescheduled e (sendEvent E s e)])
  else [e]

theorem after_ready (E : Env τ ω) (s : St τ ω) (e : Entry τ) (rest : List (Entry τ)) :
    (after E s e rest).ready = rest ++ kept E s e := by
  unfold after kept isDue
  split <;> simp_all

theorem after_events (E : Env τ ω) (s : St τ ω) (e : Entry τ) (rest : List (Entry τ)) :
    (after E s e rest).events = s.events ++ newEvents E s e := by
  unfold after newEvents isDue
  split <;> simp_all

theorem after_world (E : Env τ ω) (s : St τ ω) (e : Entry τ) (rest : List (Entry τ)) :
    (after E s e rest).world =
      if isDue s e then (E.send .loop e.id (E.desire s.world e.id) s.storeStamp s.world).2 else s.world := by
  unfold after isDue
  split <;> simp_all

theorem ids_kept (E : Env τ ω) (s : St τ ω) (e : Entry τ) : ∀ x ∈ kept E s e, x.id = e.id := by
  unfold kept
  intro x hx
  split at hx
  · split at hx
    · simp at hx
    · simp at hx; subst hx; rfl
  · simp at hx; subst hx; rfl

theorem ids_newEvents (E : Env τ ω) (s : St τ ω) (e : Entry τ) : ∀ x ∈ newEvents E s e, x.id = e.id := by
  unfold newEvents
  intro x hx
  split at hx
  · simp at hx; subst hx; rfl
  · simp at hx

theorem kept_of_terminal (E : Env τ ω) (s : St τ ω) (e : Entry τ) :
    ∀ x ∈ newEvents E s e, x.result.terminal = true → kept E s e = [] := by
  unfold newEvents kept
  intro x hx ht
  split at hx
  · rename_i hd
    simp at hx; subst hx; simp [ht, hd]
  · simp at hx

theorem kept_sublist (E : Env τ ω) (s : St τ ω) (e : Entry τ) : ids (kept E s e) <+ [e.id] := by
  unfold kept
  split
  · split <;> simp [rescheduled]
  · simp

/-! ### a tasker that has ended never runs again -/

/-- `e'` (later) does not contradict `e` (earlier): if `e` ended its tasker, `e'` is another tasker's -/
def Later (e e' : Event τ) : Prop := e.result.terminal = true → e'.id ≠ e.id

/-- no send to a tasker after a send that ended it (status ABORTED, StopIteration, exception) -/
def NoRerun (evs : List (Event τ)) : Prop := evs.Pairwise Later

structure Good (s : St τ ω) : Prop where
  nodup : (ids s.ready).Nodup
  dead : ∀ ev ∈ s.events, ev.result.terminal = true → ev.id ∉ ids s.ready
  norerun : NoRerun s.events

theorem good_step {s s' : St τ ω} {e : Entry τ} {rest K : List (Entry τ)} {N : List (Event τ)}
    (hg : Good s) (hr : s.ready = e :: rest)
    (hK : ids K <+ [e.id]) (hN : ∀ x ∈ N, x.id = e.id) (hNp : N.Pairwise Later)
    (hT : ∀ x ∈ N, x.result.terminal = true → K = [])
    (hr' : s'.ready = rest ++ K) (he' : s'.events = s.events ++ N) : Good s' := by
  have hnd := hg.nodup
  rw [hr] at hnd
  simp only [ids_cons, List.nodup_cons] at hnd
  obtain ⟨hnot, hndr⟩ := hnd
  have hKid : ∀ x ∈ ids K, x = e.id := by
    intro x hx
    have := hK.subset hx
    simpa using this
  refine ⟨?_, ?_, ?_⟩
  · rw [hr', ids_append]
    have h1 : (ids rest ++ [e.id]).Nodup := by
      rw [List.nodup_append]
      refine ⟨hndr, by simp, ?_⟩
      intro a ha b hb
      simp at hb; subst hb
      intro h; subst h; exact hnot ha
    exact (List.Sublist.append (List.Sublist.refl _) hK).nodup h1
  · intro ev hev ht
    rw [he'] at hev
    rw [hr', ids_append]
    rcases List.mem_append.mp hev with h0 | h1
    · have := hg.dead ev h0 ht
      rw [hr] at this
      simp only [ids_cons, List.mem_cons, not_or] at this
      intro hmem
      rcases List.mem_append.mp hmem with h2 | h3
      · exact this.2 h2
      · exact this.1 (hKid _ h3)
    · have hk := hT ev h1 ht
      subst hk
      simp only [ids_nil, List.append_nil]
      rw [hN ev h1]; exact hnot
  · unfold NoRerun
    rw [he', List.pairwise_append]
    refine ⟨hg.norerun, hNp, ?_⟩
    intro a ha b hb hta
    have := hg.dead a ha hta
    rw [hr] at this
    simp only [ids_cons, List.mem_cons, not_or] at this
    rw [hN b hb]
    exact fun h => this.1 h.symm

theorem good_after {E : Env τ ω} {s : St τ ω} {e : Entry τ} {rest : List (Entry τ)}
    (hg : Good s) (hr : s.ready = e :: rest) : Good (after E s e rest) := by
  refine good_step hg hr (kept_sublist E s e) (ids_newEvents E s e) ?_ (kept_of_terminal E s e)
    (after_ready E s e rest) (after_events E s e rest)
  unfold newEvents; split <;> simp

theorem Proc.good {E : Env τ ω} {done : List (Entry τ)} {s s' : St τ ω} (hp : Proc E done s s')
    (hg : Good s) : Good s' := by
  induction hp with
  | nil s => exact hg
  | cons hr _ ih => exact ih (good_after hg hr)

/-- `Good` only looks at `ready` and `events` -/
theorem Good.congr {s s' : St τ ω} (hg : Good s) (hr : s'.ready = s.ready) (he : s'.events = s.events) :
    Good s' := by
  refine ⟨by rw [hr]; exact hg.nodup, ?_, by unfold NoRerun; rw [he]; exact hg.norerun⟩
  rw [hr, he]; exact hg.dead

def TickOut.state : TickOut τ ω → St τ ω
  | .next s => s
  | .done _ s => s

/-- advancing the clock after a completed pass -/
def advance (s : St τ ω) : St τ ω :=
  { s with stamp := TimeLike.add s.stamp s.P, tick := s.tick + 1, storeStamp := TimeLike.add s.stamp s.P }

/-- the clock advanced but the stores were not stamped (exception at the boundary) -/
def halfAdvance (s : St τ ω) : St τ ω :=
  { s with stamp := TimeLike.add s.stamp s.P, tick := s.tick + 1 }

theorem tick_cases (E : Env τ ω) (s : St τ ω) :
    (∃ x s', forLoop E s.ready.length s false = .exc x s' ∧ tick E s = .done (classify x) s') ∨
    (∃ s' more, forLoop E s.ready.length s false = .ok s' more ∧
      ((∃ en, tick E s = .done en s') ∨ (∃ en, tick E s = .done en (halfAdvance s')) ∨
        tick E s = .next (advance s'))) := by
  unfold tick
  cases hf : forLoop E s.ready.length s false with
  | exc x s' => left; exact ⟨x, s', rfl, rfl⟩
  | ok s' more =>
    right
    refine ⟨s', more, rfl, ?_⟩
    simp only []
    split
    · left; exact ⟨_, rfl⟩
    · split
      · left; exact ⟨_, rfl⟩
      · split
        · right; left; exact ⟨_, rfl⟩
        · right; right; rfl

/-- One pass: the body handled a prefix `done` of the deque (all of it when the pass completed);
the pass's state `s1` differs from the tick's result only in the clock fields. -/
theorem tick_proc (E : Env τ ω) (s : St τ ω) :
    ∃ done todo s1, s.ready = done ++ todo ∧ Proc E done s s1 ∧
      (tick E s).state.ready = s1.ready ∧ (tick E s).state.events = s1.events ∧
      (tick E s).state.aborted = s1.aborted ∧ (tick E s).state.world = s1.world ∧
      (tick E s).state.P = s1.P ∧
      (∀ s2, tick E s = .next s2 → todo = [] ∧ s2 = advance s1) ∧
      (∀ en s2, tick E s = .done en s2 → s2.tick = s.tick ∨ s2.tick = s.tick + 1) := by
  obtain ⟨done, todo, hsplit, hproc, hok⟩ := forLoop_proc E s.ready [] s false (by simp)
  have hspec := hproc.spec todo hsplit
  rcases tick_cases E s with ⟨x, s', hf, ht⟩ | ⟨s', more, hf, ht⟩
  · rw [hf] at hproc hspec
    simp only [BodyOut.state] at hproc hspec
    refine ⟨done, todo, s', hsplit, hproc, ?_⟩
    rw [ht]
    refine ⟨rfl, rfl, rfl, rfl, rfl, ?_, ?_⟩
    · intro s2 h; simp at h
    · intro en s2 h
      simp only [TickOut.done.injEq] at h
      left; rw [← h.2]; exact hspec.tick
  · rw [hf] at hproc hspec
    have htodo := hok s' more hf
    simp only [BodyOut.state] at hproc hspec
    refine ⟨done, todo, s', hsplit, hproc, ?_⟩
    rcases ht with ⟨en, ht⟩ | ⟨en, ht⟩ | ht
    · rw [ht]
      refine ⟨rfl, rfl, rfl, rfl, rfl, ?_, ?_⟩
      · intro s2 h; simp at h
      · intro en s2 h
        simp only [TickOut.done.injEq] at h
        left; rw [← h.2]; exact hspec.tick
    · rw [ht]
      refine ⟨rfl, rfl, rfl, rfl, rfl, ?_, ?_⟩
      · intro s2 h; simp at h
      · intro en s2 h
        simp only [TickOut.done.injEq] at h
        right; rw [← h.2]; simp [halfAdvance, hspec.tick]
    · rw [ht]
      refine ⟨rfl, rfl, rfl, rfl, rfl, ?_, ?_⟩
      · intro s2 h
        simp only [TickOut.next.injEq] at h
        exact ⟨htodo, h.symm⟩
      · intro en s2 h; simp at h

theorem tick_good (E : Env τ ω) (s : St τ ω) (hg : Good s) : Good (tick E s).state := by
  obtain ⟨done, todo, s1, _, hproc, hr, he, _⟩ := tick_proc E s
  exact (hproc.good hg).congr hr he

theorem runLoop_good (E : Env τ ω) : ∀ (fuel : Nat) (s : St τ ω), Good s → Good (runLoop E fuel s).2
  | 0, s, hg => hg
  | n+1, s, hg => by
    have := tick_good E s hg
    unfold runLoop
    cases ht : tick E s with
    | next s2 => rw [ht] at this; exact runLoop_good E n s2 this
    | done en s2 => rw [ht] at this; exact this

/-- the event of the abort sweep for head entry `e` -/
def finalEvent (E : Env τ ω) (s : St τ ω) (e : Entry τ) : Event τ :=
  let r := E.send .final e.id .abort s.storeStamp s.world
  { phase := .final, tick := s.tick, id := e.id, control := .abort, stamp := s.storeStamp, result := r.1,
    periodAfter := E.period r.2 e.id }

def afterFinal (E : Env τ ω) (s : St τ ω) (e : Entry τ) (rest : List (Entry τ)) : St τ ω :=
  { s with ready := rest, world := (E.send .final e.id .abort s.storeStamp s.world).2,
           events := s.events ++ [finalEvent E s e] }

theorem finalLoop_succ (E : Env τ ω) (n : Nat) (s : St τ ω) (e : Entry τ) (rest : List (Entry τ))
    (h : s.ready = e :: rest) :
    (∃ x, ((finalEvent E s e).result = .raised x ∧ x.isException = false) ∧
      finalLoop E (n+1) s = (some x, afterFinal E s e rest)) ∨
    finalLoop E (n+1) s = finalLoop E n (afterFinal E s e rest) := by
  rw [finalLoop, h]
  simp only []
  split
  · rename_i x hx
    split
    · right; rfl
    · rename_i hne; left; exact ⟨x, ⟨hx, by simpa using hne⟩, rfl⟩
  · right; rfl

/-- the state `run` ends in: the loop's state when the model's fuel ran out, else the state after the
sweep with the deque cleared -/
theorem run_state (E : Env τ ω) (fuel : Nat) (s : St τ ω) :
    (run E fuel s).2 = (runLoop E fuel s).2 ∨
    (run E fuel s).2 = { (finalLoop E (runLoop E fuel s).2.ready.length (runLoop E fuel s).2).2 with ready := [] } := by
  unfold run
  cases hl : runLoop E fuel s with
  | mk en s' =>
    have hfz : (finalize E s').2 = { (finalLoop E s'.ready.length s').2 with ready := [] } := rfl
    cases hf : finalize E s' with
    | mk o s'' =>
      rw [hf] at hfz
      simp only [] at hfz
      cases en
      case fuel => left; rfl
      all_goals (right; simp only [hf]; cases o <;> exact hfz)

theorem Good.clear {s : St τ ω} (hg : Good s) : Good { s with ready := [] } :=
  ⟨by simp, fun _ _ _ => by simp, hg.norerun⟩

theorem good_afterFinal {E : Env τ ω} {s : St τ ω} {e : Entry τ} {rest : List (Entry τ)}
    (hg : Good s) (hr : s.ready = e :: rest) : Good (afterFinal E s e rest) :=
  good_step (K := []) (N := [finalEvent E s e]) hg hr (by simp) (by simp [finalEvent]) (by simp)
    (by simp) (by simp [afterFinal]) rfl

theorem finalLoop_good (E : Env τ ω) : ∀ (n : Nat) (s : St τ ω), Good s → Good (finalLoop E n s).2
  | 0, s, hg => hg
  | n+1, s, hg => by
    cases hr : s.ready with
    | nil => unfold finalLoop; rw [hr]; exact hg
    | cons e rest =>
      rcases finalLoop_succ E n s e rest hr with ⟨x, _, h⟩ | h
      · rw [h]; exact good_afterFinal hg hr
      · rw [h]; exact finalLoop_good E n _ (good_afterFinal hg hr)

theorem run_good (E : Env τ ω) (fuel : Nat) (s : St τ ω) (hg : Good s) : Good (run E fuel s).2 := by
  have h1 := runLoop_good E fuel s hg
  rcases run_state E fuel s with h | h
  · rw [h]; exact h1
  · rw [h]; exact (finalLoop_good E _ _ h1).clear

/-! ### lifting any step invariant to a whole run -/

/-- an invariant of the scheduler state that every elementary step preserves -/
structure StepInv (E : Env τ ω) (I : St τ ω → Prop) : Prop where
  after : ∀ s e rest, I s → s.ready = e :: rest → I (after E s e rest)
  afterFinal : ∀ s e rest, I s → s.ready = e :: rest → I (afterFinal E s e rest)
  advance : ∀ s, I s → I (advance s)
  halfAdvance : ∀ s, I s → I (halfAdvance s)
  /-- `ready.clear()` at the end of the sweep -/
  clear : ∀ s, I s → I { s with ready := [] }

theorem Proc.inv {E : Env τ ω} {I : St τ ω → Prop} (h : StepInv E I) {done : List (Entry τ)}
    {s s' : St τ ω} (hp : Proc E done s s') (hi : I s) : I s' := by
  induction hp with
  | nil s => exact hi
  | cons hr _ ih => exact ih (h.after _ _ _ hi hr)

theorem tick_inv {E : Env τ ω} {I : St τ ω → Prop} (h : StepInv E I) (s : St τ ω) (hi : I s) :
    I (tick E s).state := by
  obtain ⟨done, todo, hsplit, hproc, _⟩ := forLoop_proc E s.ready [] s false (by simp)
  have h1 := hproc.inv h hi
  rcases tick_cases E s with ⟨x, s', hf, ht⟩ | ⟨s', more, hf, ht⟩
  · rw [hf] at h1; rw [ht]; exact h1
  · rw [hf] at h1
    rcases ht with ⟨en, ht⟩ | ⟨en, ht⟩ | ht
    · rw [ht]; exact h1
    · rw [ht]; exact h.halfAdvance _ h1
    · rw [ht]; exact h.advance _ h1

theorem runLoop_inv {E : Env τ ω} {I : St τ ω → Prop} (h : StepInv E I) :
    ∀ (fuel : Nat) (s : St τ ω), I s → I (runLoop E fuel s).2
  | 0, s, hi => hi
  | n+1, s, hi => by
    have := tick_inv h s hi
    unfold runLoop
    cases ht : tick E s with
    | next s2 => rw [ht] at this; exact runLoop_inv h n s2 this
    | done en s2 => rw [ht] at this; exact this

theorem finalLoop_inv {E : Env τ ω} {I : St τ ω → Prop} (h : StepInv E I) :
    ∀ (n : Nat) (s : St τ ω), I s → I (finalLoop E n s).2
  | 0, s, hi => hi
  | n+1, s, hi => by
    cases hr : s.ready with
    | nil => unfold finalLoop; rw [hr]; exact hi
    | cons e rest =>
      rcases finalLoop_succ E n s e rest hr with ⟨x, _, hx⟩ | hx
      · rw [hx]; exact h.afterFinal _ _ _ hi hr
      · rw [hx]; exact finalLoop_inv h n _ (h.afterFinal _ _ _ hi hr)

/-- **Any invariant preserved by the elementary steps holds after `Skedder.run`.** -/
theorem run_inv {E : Env τ ω} {I : St τ ω → Prop} (h : StepInv E I) (fuel : Nat) (s : St τ ω)
    (hi : I s) : I (run E fuel s).2 := by
  have h1 := runLoop_inv h fuel s hi
  rcases run_state E fuel s with hs | hs
  · rw [hs]; exact h1
  · rw [hs]; exact h.clear _ (finalLoop_inv h _ _ h1)

theorem foldl_addReadyTask_inv {E : Env τ ω} {I : St τ ω → Prop}
    (hadd : ∀ s i, I s → I (addReadyTask E s i)) : ∀ (l : List Nat) (s0 : St τ ω), I s0 →
    I (l.foldl (addReadyTask E) s0)
  | [], s0, h0 => h0
  | i :: l, s0, h0 => foldl_addReadyTask_inv hadd l _ (hadd _ _ h0)

theorem foldl_addReadyTask_inv_mem {E : Env τ ω} {I : St τ ω → Prop} (D : List Nat)
    (hadd : ∀ s i, i ∈ D → I s → I (addReadyTask E s i)) : ∀ (l : List Nat) (s0 : St τ ω),
    (∀ i ∈ l, i ∈ D) → I s0 → I (l.foldl (addReadyTask E) s0)
  | [], s0, _, h0 => h0
  | i :: l, s0, hl, h0 =>
    foldl_addReadyTask_inv_mem D hadd l _ (fun j hj => hl j (List.mem_cons_of_mem _ hj))
      (hadd _ _ (hl i (by simp)) h0)

/-- the prologue preserves an invariant that `addReadyTask` preserves for the declared taskers -/
theorem start_inv_mem {E : Env τ ω} {I : St τ ω → Prop} (period stamp : τ) (houses : List House) (w : ω)
    (hadd : ∀ s i, i ∈ houses.flatMap House.taskables → I s → I (addReadyTask E s i))
    (h0 : I { stamp := TimeLike.abs stamp, storeStamp := TimeLike.abs stamp, P := TimeLike.abs period,
              ready := [], aborted := [], world := w, status := none, tick := 0, events := [] }) :
    I (start E period stamp houses w) :=
  foldl_addReadyTask_inv_mem _ hadd _ _ (fun _ h => h) h0

/-- the prologue preserves an invariant that `addReadyTask` preserves -/
theorem start_inv {E : Env τ ω} {I : St τ ω → Prop}
    (hadd : ∀ s i, I s → I (addReadyTask E s i)) (period stamp : τ) (houses : List House) (w : ω)
    (h0 : I { stamp := TimeLike.abs stamp, storeStamp := TimeLike.abs stamp, P := TimeLike.abs period,
              ready := [], aborted := [], world := w, status := none, tick := 0, events := [] }) :
    I (start E period stamp houses w) :=
  foldl_addReadyTask_inv hadd _ _ h0

/-! ### declared order, pass by pass -/

/-- the sends of pass `n` of the main loop -/
def passEvents (n : Nat) (evs : List (Event τ)) : List (Event τ) :=
  evs.filter (fun ev => decide (ev.phase = .loop ∧ ev.tick = n))

theorem passEvents_append (n : Nat) (a b : List (Event τ)) :
    passEvents n (a ++ b) = passEvents n a ++ passEvents n b := by
  simp [passEvents]

structure OrderInv (D : List Nat) (s : St τ ω) : Prop where
  ready : ids s.ready <+ D
  old : ∀ ev ∈ s.events, ev.tick < s.tick
  passes : ∀ n, (passEvents n s.events).map (·.id) <+ D

theorem passEvents_new {s : St τ ω} {N : List (Event τ)} {D : List Nat}
    (hold : ∀ ev ∈ s.events, ev.tick < s.tick) (hp : ∀ n, (passEvents n s.events).map (·.id) <+ D)
    (hN : ∀ ev ∈ N, ev.phase = .loop ∧ ev.tick = s.tick) (hND : N.map (·.id) <+ D) :
    ∀ n, (passEvents n (s.events ++ N)).map (·.id) <+ D := by
  intro n
  rw [passEvents_append]
  by_cases hn : n = s.tick
  · have h1 : passEvents n s.events = [] := by
      unfold passEvents
      rw [List.filter_eq_nil_iff]
      intro ev hev
      have := hold ev hev
      simp; intro _; omega
    have h2 : passEvents n N = N := by
      unfold passEvents
      rw [List.filter_eq_self]
      intro ev hev
      have := hN ev hev
      simp [this.1, this.2, hn]
    rw [h1, h2]; simpa using hND
  · have h2 : passEvents n N = [] := by
      unfold passEvents
      rw [List.filter_eq_nil_iff]
      intro ev hev
      have := hN ev hev
      simp [this.2]; intro _; exact fun h => hn h.symm
    rw [h2]; simpa using hp n

theorem tick_order (E : Env τ ω) (D : List Nat) (s : St τ ω) (hi : OrderInv D s) :
    (∀ n, (passEvents n (tick E s).state.events).map (·.id) <+ D) ∧
    (∀ s2, tick E s = .next s2 → OrderInv D s2) := by
  obtain ⟨done, todo, s1, hsplit, hproc, hr, he, _, _, _, hnext, _⟩ := tick_proc E s
  have hspec := hproc.spec todo hsplit
  obtain ⟨N, hN, hNs, hNp⟩ := hspec.events
  obtain ⟨K, hK, hKs⟩ := hspec.ready
  have hdone : ids done <+ D := by
    refine List.Sublist.trans ?_ hi.ready
    rw [hsplit, ids_append]; exact List.sublist_append_left _ _
  have hall := passEvents_new hi.old hi.passes hNp (hNs.trans hdone)
  refine ⟨by rw [he, hN]; exact hall, ?_⟩
  intro s2 ht
  obtain ⟨htodo, hs2⟩ := hnext s2 ht
  subst hs2
  refine ⟨?_, ?_, ?_⟩
  · show ids s1.ready <+ D
    rw [hK, htodo]; simpa using hKs.trans hdone
  · intro ev hev
    have hev' : ev ∈ s1.events := hev
    show ev.tick < s1.tick + 1
    rw [hN] at hev'
    rw [hspec.tick]
    rcases List.mem_append.mp hev' with h0 | h1
    · have := hi.old ev h0; omega
    · have := (hNp ev h1).2; omega
  · show ∀ n, (passEvents n s1.events).map (·.id) <+ D
    rw [hN]; exact hall

theorem runLoop_order (E : Env τ ω) (D : List Nat) : ∀ (fuel : Nat) (s : St τ ω), OrderInv D s →
    ∀ n, (passEvents n (runLoop E fuel s).2.events).map (·.id) <+ D
  | 0, s, hi => hi.passes
  | k+1, s, hi => by
    have := tick_order E D s hi
    unfold runLoop
    cases ht : tick E s with
    | next s2 => exact runLoop_order E D k s2 (this.2 s2 ht)
    | done en s2 => rw [ht] at this; exact this.1

theorem finalLoop_passEvents (E : Env τ ω) (m : Nat) : ∀ (n : Nat) (s : St τ ω),
    passEvents m (finalLoop E n s).2.events = passEvents m s.events
  | 0, s => rfl
  | n+1, s => by
    cases hr : s.ready with
    | nil => unfold finalLoop; rw [hr]
    | cons e rest =>
      have hstep : passEvents m (afterFinal E s e rest).events = passEvents m s.events := by
        simp [afterFinal, passEvents, finalEvent]
      rcases finalLoop_succ E n s e rest hr with ⟨x, _, h⟩ | h
      · rw [h]; exact hstep
      · rw [h, finalLoop_passEvents E m n _, hstep]

theorem run_events_passEvents (E : Env τ ω) (fuel : Nat) (s : St τ ω) (m : Nat) :
    passEvents m (run E fuel s).2.events = passEvents m (runLoop E fuel s).2.events := by
  rcases run_state E fuel s with hs | hs
  · rw [hs]
  · rw [hs]; exact finalLoop_passEvents E m _ _

/-! ### the prologue -/

theorem addReadyTask_fields (E : Env τ ω) (s : St τ ω) (i : Nat) :
    ids (addReadyTask E s i).ready = ids s.ready ++ [i] ∧ (addReadyTask E s i).events = s.events ∧
    (addReadyTask E s i).tick = s.tick ∧ (addReadyTask E s i).stamp = s.stamp ∧
    (addReadyTask E s i).storeStamp = s.storeStamp ∧ (addReadyTask E s i).P = s.P ∧
    (∀ e ∈ (addReadyTask E s i).ready, e ∈ s.ready ∨ (e.id = i ∧ e.retime = s.storeStamp)) := by
  simp [addReadyTask]
  intro e he
  rcases he with h | h
  · left; exact h
  · right; subst h; simp

theorem foldl_addReadyTask (E : Env τ ω) : ∀ (l : List Nat) (s : St τ ω),
    let s' := l.foldl (addReadyTask E) s
    ids s'.ready = ids s.ready ++ l ∧ s'.events = s.events ∧ s'.tick = s.tick ∧ s'.stamp = s.stamp ∧
    s'.storeStamp = s.storeStamp ∧ s'.P = s.P ∧
    (∀ e ∈ s'.ready, e ∈ s.ready ∨ e.retime = s.storeStamp)
  | [], s => by simp; exact fun e he => Or.inl he
  | i :: l, s => by
    have h1 := addReadyTask_fields E s i
    have h2 := foldl_addReadyTask E l (addReadyTask E s i)
    simp only [List.foldl_cons]
    obtain ⟨a1, a2, a3, a4, a5, a6, a7⟩ := h1
    obtain ⟨b1, b2, b3, b4, b5, b6, b7⟩ := h2
    refine ⟨by rw [b1, a1]; simp, by rw [b2, a2], by rw [b3, a3], by rw [b4, a4], by rw [b5, a5], by rw [b6, a6], ?_⟩
    intro e he
    rcases b7 e he with h | h
    · rcases a7 e h with h' | h'
      · left; exact h'
      · right; exact h'.2
    · right; rw [h, a5]

/-- the declared order of a scheduler: houses in order, in each `fronts + mids + backs` -/
def declared (houses : List House) : List Nat := houses.flatMap House.taskables

theorem start_fields (E : Env τ ω) (period stamp : τ) (houses : List House) (w : ω) :
    let s := start E period stamp houses w
    ids s.ready = declared houses ∧ s.events = [] ∧ s.tick = 0 ∧ s.stamp = TimeLike.abs stamp ∧
    s.storeStamp = TimeLike.abs stamp ∧ s.P = TimeLike.abs period ∧
    (∀ e ∈ s.ready, e.retime = TimeLike.abs stamp) := by
  have := foldl_addReadyTask E (declared houses)
    { stamp := TimeLike.abs stamp, storeStamp := TimeLike.abs stamp, P := TimeLike.abs period,
      ready := [], aborted := [], world := w, status := none, tick := 0, events := [] }
  simp only [start, declared] at this ⊢
  obtain ⟨a1, a2, a3, a4, a5, a6, a7⟩ := this
  refine ⟨by simpa using a1, a2, a3, a4, a5, a6, ?_⟩
  intro e he
  rcases a7 e he with h | h
  · simp at h
  · exact h

/-! ### one tasker's view of a pass -/

/-- the sends to tasker `i` -/
def evOf (i : Nat) (evs : List (Event τ)) : List (Event τ) := evs.filter (fun ev => decide (ev.id = i))

theorem evOf_append (i : Nat) (a b : List (Event τ)) : evOf i (a ++ b) = evOf i a ++ evOf i b := by
  simp [evOf]

theorem evOf_other {i : Nat} {N : List (Event τ)} (h : ∀ x ∈ N, x.id ≠ i) : evOf i N = [] := by
  unfold evOf
  rw [List.filter_eq_nil_iff]
  intro x hx; simp [h x hx]

theorem nodup_rotate {e : Entry τ} {rest K : List (Entry τ)} (hnd : (ids (e :: rest)).Nodup)
    (hK : ids K <+ [e.id]) : (ids (rest ++ K)).Nodup := by
  simp only [ids_cons, List.nodup_cons] at hnd
  rw [ids_append]
  have h1 : (ids rest ++ [e.id]).Nodup := by
    rw [List.nodup_append]
    refine ⟨hnd.2, by simp, ?_⟩
    intro a ha b hb
    simp at hb; subst hb
    intro h; subst h; exact hnd.1 ha
  exact (List.Sublist.append (List.Sublist.refl _) hK).nodup h1

theorem Proc.other {E : Env τ ω} {done : List (Entry τ)} {s s' : St τ ω} (hp : Proc E done s s')
    (i : Nat) (hi : i ∉ ids done) :
    evOf i s'.events = evOf i s.events ∧ ∀ x : Entry τ, x.id = i → (x ∈ s'.ready ↔ x ∈ s.ready) := by
  induction hp with
  | nil s => exact ⟨rfl, fun _ _ => Iff.rfl⟩
  | @cons s s' e rest done hr _ ih =>
    simp only [ids_cons, List.mem_cons, not_or] at hi
    obtain ⟨h1, h2⟩ := ih hi.2
    have hN : evOf i (newEvents E s e) = [] :=
      evOf_other (fun x hx => by rw [ids_newEvents E s e x hx]; exact fun h => hi.1 h.symm)
    rw [after_events, evOf_append, hN, List.append_nil] at h1
    refine ⟨h1, ?_⟩
    intro x hx
    rw [h2 x hx, after_ready, hr]
    constructor
    · intro h
      rcases List.mem_append.mp h with h | h
      · exact List.mem_cons_of_mem _ h
      · exact absurd ((ids_kept E s e x h).symm.trans hx) (fun h => hi.1 h.symm)
    · intro h
      rcases List.mem_cons.mp h with h | h
      · subst h; exact absurd hx (fun h => hi.1 h.symm)
      · exact List.mem_append_left _ h

/-- what a pass does for one entry `e` of the deque -/
structure SelfSpec (s s' : St τ ω) (e : Entry τ) : Prop where
  notDue : isDue s e = false → evOf e.id s'.events = evOf e.id s.events ∧ e ∈ s'.ready
  due : isDue s e = true → ∃ ev, evOf e.id s'.events = evOf e.id s.events ++ [ev] ∧ ev.id = e.id ∧
    ev.phase = .loop ∧ ev.tick = s.tick ∧ ev.stamp = s.storeStamp ∧
    (ev.result.terminal = false → rescheduled e ev ∈ s'.ready) ∧
    (ev.result.terminal = true → ∀ x ∈ s'.ready, x.id ≠ e.id)

theorem Proc.self {E : Env τ ω} {done : List (Entry τ)} {s s' : St τ ω} (hp : Proc E done s s') :
    ∀ back, s.ready = done ++ back → (ids s.ready).Nodup → ∀ e ∈ done, SelfSpec s s' e := by
  induction hp with
  | nil s => intro back _ _ e he; simp at he
  | @cons s s' h rest done hr hp' ih =>
    intro back hsplit hnd e he
    have hrest : rest = done ++ back := by rw [hr] at hsplit; simpa using hsplit
    have hnd' := hnd
    rw [hr] at hnd'
    have hnot : h.id ∉ ids rest := by simp only [ids_cons, List.nodup_cons] at hnd'; exact hnd'.1
    rcases List.mem_cons.mp he with heq | hmem
    · -- `e` is the head: it is handled now, the rest of the pass does not touch it
      subst heq
      have hdone : e.id ∉ ids done := by
        intro hc; apply hnot; rw [hrest, ids_append]; exact List.mem_append_left _ hc
      obtain ⟨o1, o2⟩ := hp'.other e.id hdone
      refine ⟨?_, ?_⟩
      · intro hd
        have hk : kept E s e = [e] := by simp [kept, hd]
        have hn : newEvents E s e = [] := by simp [newEvents, hd]
        refine ⟨by rw [o1, after_events, hn]; simp, ?_⟩
        apply (o2 e rfl).mpr
        rw [after_ready, hk]; simp
      · intro hd
        have hn : newEvents E s e = [sendEvent E s e] := by simp [newEvents, hd]
        refine ⟨sendEvent E s e, ?_, rfl, rfl, rfl, rfl, ?_, ?_⟩
        · rw [o1, after_events, hn, evOf_append]
          simp [evOf, sendEvent]
        · intro ht
          have hk : kept E s e = [rescheduled e (sendEvent E s e)] := by simp [kept, hd, ht]
          apply (o2 (rescheduled e (sendEvent E s e)) rfl).mpr
          rw [after_ready, hk]; simp
        · intro ht x hx hid
          have hk : kept E s e = [] := by simp [kept, hd, ht]
          rw [o2 x hid, after_ready, hk] at hx
          simp only [List.append_nil] at hx
          apply hnot
          rw [← hid]; exact List.mem_map_of_mem hx
    · -- `e` is further back: the head is another tasker
      have hne : e.id ≠ h.id := by
        intro hc; apply hnot; rw [← hc, hrest, ids_append]
        exact List.mem_append_left _ (List.mem_map_of_mem hmem)
      have hnd1 : (ids (after E s h rest).ready).Nodup := by
        rw [after_ready]; exact nodup_rotate hnd' (kept_sublist E s h)
      have := ih (back ++ kept E s h) (by rw [after_ready, hrest]; simp) hnd1 e hmem
      have st := after_spec E s h rest
      have hN : evOf e.id (newEvents E s h) = [] :=
        evOf_other (fun x hx => by rw [ids_newEvents E s h x hx]; exact fun hc => hne hc.symm)
      have hev : evOf e.id (after E s h rest).events = evOf e.id s.events := by
        rw [after_events, evOf_append, hN, List.append_nil]
      have hdue : isDue (after E s h rest) e = isDue s e := by simp [isDue, st.stamp]
      refine ⟨?_, ?_⟩
      · intro hd
        have := this.notDue (by rw [hdue]; exact hd)
        rw [hev] at this; exact this
      · intro hd
        obtain ⟨ev, h1, h2, h3, h4, h5, h6, h7⟩ := this.due (by rw [hdue]; exact hd)
        exact ⟨ev, by rw [← hev]; exact h1, h2, h3, by rw [h4, st.tick], by rw [h5, st.storeStamp], h6, h7⟩

theorem Proc.nodup {E : Env τ ω} {done : List (Entry τ)} {s s' : St τ ω} (hp : Proc E done s s')
    (hnd : (ids s.ready).Nodup) : (ids s'.ready).Nodup := by
  induction hp with
  | nil s => exact hnd
  | @cons s s' e rest done hr _ ih =>
    apply ih
    rw [after_ready]; rw [hr] at hnd
    exact nodup_rotate hnd (kept_sublist E s e)

/-! ### the states at the start of each pass -/

/-- the state at the start of pass `n` (if the loop gets that far) -/
def stateAt (E : Env τ ω) : Nat → St τ ω → Option (St τ ω)
  | 0, s => some s
  | n+1, s =>
    match stateAt E n s with
    | some s' => (match tick E s' with | .next s'' => some s'' | .done _ _ => none)
    | none => none

theorem stateAt_succ {E : Env τ ω} {n : Nat} {s0 s2 : St τ ω} (h : stateAt E (n+1) s0 = some s2) :
    ∃ s, stateAt E n s0 = some s ∧ tick E s = .next s2 := by
  simp only [stateAt] at h
  cases hs : stateAt E n s0 with
  | none => rw [hs] at h; simp at h
  | some s =>
    rw [hs] at h
    simp only [] at h
    cases ht : tick E s with
    | next s'' => rw [ht] at h; simp only [Option.some.injEq] at h; subst h; exact ⟨s, rfl, ht⟩
    | done en s'' => rw [ht] at h; simp at h

theorem tick_next_forLoop {E : Env τ ω} {s s2 : St τ ω} (h : tick E s = .next s2) :
    ∃ s1 m, forLoop E s.ready.length s false = .ok s1 m ∧ s2 = advance s1 := by
  rcases tick_cases E s with ⟨x, s', _, ht⟩ | ⟨s', more, hf, ht⟩
  · rw [ht] at h; simp at h
  · rcases ht with ⟨en, ht⟩ | ⟨en, ht⟩ | ht
    · rw [ht] at h; simp at h
    · rw [ht] at h; simp at h
    · rw [ht] at h; simp only [TickOut.next.injEq] at h; exact ⟨s', more, hf, h.symm⟩

/-- a completed pass handled exactly the deque it started with -/
theorem forLoop_ok_proc {E : Env τ ω} {s s1 : St τ ω} {m : Bool}
    (h : forLoop E s.ready.length s false = .ok s1 m) : Proc E s.ready s s1 := by
  obtain ⟨done, todo, hsplit, hproc, hok⟩ := forLoop_proc E s.ready [] s false (by simp)
  have := hok s1 m h
  subst this
  rw [h] at hproc
  simp only [List.append_nil] at hsplit
  rw [hsplit]; exact hproc

theorem pass_self {E : Env τ ω} {s s1 : St τ ω} {m : Bool}
    (h : forLoop E s.ready.length s false = .ok s1 m) (hnd : (ids s.ready).Nodup) :
    (∀ e ∈ s.ready, SelfSpec s s1 e) ∧ (ids s1.ready).Nodup ∧ PassSpec s s1 s.ready [] := by
  have hp := forLoop_ok_proc h
  exact ⟨hp.self [] (by simp) hnd, hp.nodup hnd, hp.spec [] (by simp)⟩

/-! ### when the loop goes on: `more` -/

def Status.live (st : Status) : Bool := st == .running || st == .started

/-- the status attribute read by the scheduler is what the tasker last yielded, and only a
tasker's own run changes it — on the worlds `W` that the environment can be in (`W` is closed
under sends) -/
structure StatusFaithful (E : Env τ ω) (W : ω → Prop) : Prop where
  closed : ∀ ph i c st w, W w → W (E.send ph i c st w).2
  other : ∀ ph i c st w k, W w → k ≠ i → E.status (E.send ph i c st w).2 k = E.status w k
  own : ∀ ph i c st w x, W w → (E.send ph i c st w).1 = .yielded x → E.status (E.send ph i c st w).2 i = x
  stop : ∀ ph i c st w, W w → (E.send ph i c st w).1 = .stopIteration → E.status (E.send ph i c st w).2 i = .aborted

theorem checkMore_ok {s s1 : St τ ω} {more m1 : Bool} (h : checkMore s more = .ok s1 m1) :
    s1 = s ∧ ∃ st, s.status = some st ∧ m1 = (more || st.live) := by
  unfold checkMore at h
  split at h
  · simp at h
  · rename_i st hst
    simp only [BodyOut.ok.injEq] at h
    refine ⟨h.1.symm, st, hst, ?_⟩
    rw [← h.2]; simp [Status.live, Bool.or_assoc]

/-- one completed step of the pass: `more` gains exactly "this tasker is started or running now";
nobody else's status moved -/
theorem body_ok_live {E : Env τ ω} {W : ω → Prop} (hf : StatusFaithful E W) {s s1 : St τ ω} {more m1 : Bool}
    {e : Entry τ} {rest : List (Entry τ)} (hW : W s.world) (hr : s.ready = e :: rest)
    (hb : body E s more = .ok s1 m1) :
    W s1.world ∧ m1 = (more || (E.status s1.world e.id).live) ∧
    ∀ k, k ≠ e.id → E.status s1.world k = E.status s.world k := by
  unfold body at hb
  rw [hr] at hb
  simp only [] at hb
  split at hb
  · obtain ⟨h1, st, hst, hm⟩ := checkMore_ok hb
    subst h1
    simp only [Option.some.injEq] at hst
    subst hst
    exact ⟨hW, hm, fun _ _ => rfl⟩
  · split at hb
    · rename_i st hres
      split at hb
      · obtain ⟨h1, st', hst, hm⟩ := checkMore_ok hb
        subst h1
        simp only [Option.some.injEq] at hst
        subst hst
        refine ⟨hf.closed _ _ _ _ _ hW, ?_, fun k hk => hf.other _ _ _ _ _ k hW hk⟩
        rw [hm]; simp only []; rw [hf.own _ _ _ _ _ _ hW hres]
      · obtain ⟨h1, st', hst, hm⟩ := checkMore_ok hb
        subst h1
        simp only [Option.some.injEq] at hst
        subst hst
        refine ⟨hf.closed _ _ _ _ _ hW, ?_, fun k hk => hf.other _ _ _ _ _ k hW hk⟩
        rw [hm]; simp only []; rw [hf.own _ _ _ _ _ _ hW hres]
    · rename_i hres
      obtain ⟨h1, st', hst, hm⟩ := checkMore_ok hb
      subst h1
      simp only [Option.some.injEq] at hst
      subst hst
      refine ⟨hf.closed _ _ _ _ _ hW, ?_, fun k hk => hf.other _ _ _ _ _ k hW hk⟩
      rw [hm]; simp only []; rw [hf.stop _ _ _ _ _ hW hres]
    · simp at hb

/-- **`more` after a completed pass** = some tasker that was in the deque when the pass began is
started or running at the end of the pass. -/
theorem forLoop_more {E : Env τ ω} {W : ω → Prop} (hf : StatusFaithful E W) :
    ∀ (front back : List (Entry τ)) (s s' : St τ ω)
    (more more' : Bool), W s.world → s.ready = front ++ back → (ids s.ready).Nodup →
    forLoop E front.length s more = .ok s' more' →
    W s'.world ∧ more' = (more || front.any (fun e => (E.status s'.world e.id).live)) ∧
    ∀ k, k ∉ ids front → E.status s'.world k = E.status s.world k := by
  intro front
  induction front with
  | nil =>
    intro back s s' more more' hW _ _ h
    simp only [List.length_nil, forLoop, BodyOut.ok.injEq] at h
    obtain ⟨h1, h2⟩ := h
    subst h1; subst h2
    simp [hW]
  | cons e es ih =>
    intro back s s' more more' hW hr hnd h
    have hr' : s.ready = e :: (es ++ back) := by simpa using hr
    simp only [List.length_cons, forLoop] at h
    cases hb : body E s more with
    | exc x s1 => rw [hb] at h; simp at h
    | ok s1 m1 =>
      rw [hb] at h
      simp only [] at h
      have hs1 := body_ok_state hr' hb
      obtain ⟨hW1, hm1, hoth⟩ := body_ok_live hf hW hr' hb
      have hrd : s1.ready = es ++ (back ++ kept E s e) := by rw [hs1, after_ready]; simp
      have hnd1 : (ids s1.ready).Nodup := by
        rw [hs1, after_ready]; rw [hr'] at hnd; exact nodup_rotate hnd (kept_sublist E s e)
      obtain ⟨hW', hm', hoth'⟩ := ih (back ++ kept E s e) s1 s' m1 more' hW1 hrd hnd1 h
      have hnot : e.id ∉ ids es := by
        rw [hr'] at hnd
        simp only [ids_cons, ids_append, List.nodup_cons, List.mem_append, not_or] at hnd
        exact hnd.1.1
      refine ⟨hW', ?_, ?_⟩
      · rw [hm', hm1, ← hoth' e.id hnot]
        simp [Bool.or_assoc]
      · intro k hk
        simp only [ids_cons, List.mem_cons, not_or] at hk
        rw [hoth' k hk.2, hoth k hk.1]

/-- the world invariant of a faithful environment holds in every state of a run -/
theorem worldInv_step {E : Env τ ω} {W : ω → Prop} (hf : StatusFaithful E W) :
    StepInv E (fun s => W s.world) where
  after := by
    intro s e rest hi _
    show W (after E s e rest).world
    rw [after_world]
    split
    · exact hf.closed _ _ _ _ _ hi
    · exact hi
  afterFinal := fun s e rest hi _ => hf.closed _ _ _ _ _ hi
  advance := fun s hi => hi
  halfAdvance := fun s hi => hi
  clear := fun s hi => hi

/-! ### the abort sweep -/

/-- what the scheduler did, without the tasker's answer -/
def Event.addr (ev : Event τ) : Phase × Nat × Control := (ev.phase, ev.id, ev.control)

/-- The sweep handles a prefix `done` of the deque — all of it unless a send raised something that is
not an `Exception`, in which case the raising one is the last handled —, sending ABORT to each once, in order. -/
theorem finalLoop_events (E : Env τ ω) : ∀ (l : List (Entry τ)) (s : St τ ω), s.ready = l →
    ∃ done todo N, l = done ++ todo ∧ (finalLoop E l.length s).2.ready = todo ∧
      (finalLoop E l.length s).2.events = s.events ++ N ∧
      N.map Event.addr = done.map (fun e => (Phase.final, e.id, Control.abort)) ∧
      (finalLoop E l.length s).2.aborted = s.aborted ∧
      ((finalLoop E l.length s).1 = none → todo = []) ∧
      (∀ x, (finalLoop E l.length s).1 = some x → x.isException = false ∧ ∃ pre last, done = pre ++ [last] ∧
        ∃ ev ∈ N, ev.id = last.id ∧ ev.result = .raised x)
  | [], s, h => by
    refine ⟨[], [], [], rfl, by simp [finalLoop, h], by simp [finalLoop], rfl, rfl, fun _ => rfl, ?_⟩
    intro x hx; simp [finalLoop] at hx
  | e :: rest, s, h => by
    rcases finalLoop_succ E rest.length s e rest h with ⟨x, hres, hx⟩ | hx
    · simp only [List.length_cons]
      rw [hx]
      refine ⟨[e], rest, [finalEvent E s e], rfl, rfl, rfl, by simp [Event.addr, finalEvent], rfl, ?_, ?_⟩
      · intro h; simp at h
      · intro y hy
        simp only [Option.some.injEq] at hy
        subst hy
        exact ⟨hres.2, [], e, rfl, finalEvent E s e, by simp, rfl, hres.1⟩
    · simp only [List.length_cons]
      rw [hx]
      obtain ⟨done, todo, N, h1, h2, h3, h4, h5, h6, h7⟩ := finalLoop_events E rest (afterFinal E s e rest) rfl
      refine ⟨e :: done, todo, finalEvent E s e :: N, by simp [h1], h2, ?_, ?_, ?_, h6, ?_⟩
      · rw [h3]; simp [afterFinal]
      · simp [Event.addr, finalEvent]; exact h4
      · rw [h5]; rfl
      · intro x hx'
        obtain ⟨hnx, pre, last, hd, ev, hev, hid, hres⟩ := h7 x hx'
        exact ⟨hnx, e :: pre, last, by simp [hd], ev, List.mem_cons_of_mem _ hev, hid, hres⟩

/-! ### aborted entries are out of the deque -/

def newAborted (E : Env τ ω) (s : St τ ω) (e : Entry τ) : List (Entry τ) :=
  if isDue s e then
    (if (sendEvent E s e).result.aborts then [{ id := e.id, retime := s.stamp, period := e.period }] else [])
  else []

theorem after_aborted (E : Env τ ω) (s : St τ ω) (e : Entry τ) (rest : List (Entry τ)) :
    (after E s e rest).aborted = s.aborted ++ newAborted E s e := by
  unfold after newAborted isDue
  split <;> simp_all

theorem aborts_terminal (r : Sent) (h : r.aborts = true) : r.terminal = true := by
  cases r <;> simp_all [Sent.aborts, Sent.terminal]

/-- no entry of `aborted` has an id that is still in the deque -/
structure AbortedOut (s : St τ ω) : Prop where
  nodup : (ids s.ready).Nodup
  out : ∀ a ∈ s.aborted, a.id ∉ ids s.ready

theorem abortedOut_step (E : Env τ ω) : StepInv E AbortedOut where
  after := by
    intro s e rest hi hr
    have hnd := hi.nodup
    rw [hr] at hnd
    have hnot : e.id ∉ ids rest := by simp only [ids_cons, List.nodup_cons] at hnd; exact hnd.1
    refine ⟨by rw [after_ready]; exact nodup_rotate hnd (kept_sublist E s e), ?_⟩
    intro a ha
    rw [after_aborted] at ha
    rw [after_ready, ids_append]
    rcases List.mem_append.mp ha with h | h
    · have := hi.out a h
      rw [hr] at this
      simp only [ids_cons, List.mem_cons, not_or] at this
      intro hm
      rcases List.mem_append.mp hm with h1 | h2
      · exact this.2 h1
      · obtain ⟨x, hx, hxa⟩ := List.mem_map.mp h2
        exact this.1 (by rw [← hxa, ids_kept E s e x hx])
    · -- the entry just moved to `aborted`: nothing was re-appended
      unfold newAborted at h
      split at h
      · rename_i hd
        split at h
        · rename_i hab
          simp at h; subst h
          have hk : kept E s e = [] := by
            simp [kept, hd, aborts_terminal _ hab]
          rw [hk]; simpa using hnot
        · simp at h
      · simp at h
  afterFinal := by
    intro s e rest hi hr
    have hnd := hi.nodup
    rw [hr] at hnd
    simp only [ids_cons, List.nodup_cons] at hnd
    refine ⟨hnd.2, ?_⟩
    intro a ha
    have := hi.out a ha
    rw [hr] at this
    simp only [ids_cons, List.mem_cons, not_or] at this
    exact this.2
  advance := fun s hi => ⟨hi.nodup, hi.out⟩
  halfAdvance := fun s hi => ⟨hi.nodup, hi.out⟩
  clear := fun s hi => ⟨by simp, fun _ _ => by simp⟩

/-- an exception that ends a pass comes out of a send (the loop's own `IndexError` and
`UnboundLocalError` cannot happen) -/
theorem body_exc_is_send {E : Env τ ω} {s s' : St τ ω} {more : Bool} {x : Exc} {e : Entry τ}
    {rest : List (Entry τ)} (hr : s.ready = e :: rest) (hb : body E s more = .exc x s') :
    isDue s e = true ∧ (sendEvent E s e).result = .raised x := by
  unfold body at hb
  rw [hr] at hb
  simp only [] at hb
  split at hb
  · simp [checkMore] at hb
  · rename_i hd
    split at hb
    · split at hb <;> simp [checkMore] at hb
    · simp [checkMore] at hb
    · rename_i y hres
      simp only [BodyOut.exc.injEq] at hb
      refine ⟨by simp [isDue, hd], ?_⟩
      rw [← hb.1]; exact hres

theorem tick_of_ok {E : Env τ ω} {s s' : St τ ω} {more : Bool}
    (h : forLoop E s.ready.length s false = .ok s' more) :
    tick E s =
      if s'.ready.isEmpty then .done .noReady s'
      else if !more then .done .noMore s'
      else match E.boundary s'.tick s'.world with
        | some x => .done (classify x) (halfAdvance s')
        | none => .next (advance s') := by
  unfold tick
  rw [h]
  rfl

theorem tick_of_exc {E : Env τ ω} {s s' : St τ ω} {x : Exc}
    (h : forLoop E s.ready.length s false = .exc x s') : tick E s = .done (classify x) s' := by
  unfold tick
  rw [h]

theorem stateAt_inv {E : Env τ ω} {I : St τ ω → Prop} (h : StepInv E I) {s0 : St τ ω} (h0 : I s0) :
    ∀ (n : Nat) (s : St τ ω), stateAt E n s0 = some s → I s
  | 0, s, hs => by simp only [stateAt, Option.some.injEq] at hs; subst hs; exact h0
  | n+1, s2, hs => by
    obtain ⟨s, hs', ht⟩ := stateAt_succ hs
    have := tick_inv h s (stateAt_inv h h0 n s hs')
    rw [ht] at this; exact this

/-- every pass before a reached pass was left with `continue` -/
theorem stateAt_prev {E : Env τ ω} {s0 : St τ ω} : ∀ (n : Nat) (s : St τ ω), stateAt E n s0 = some s →
    ∀ m, m < n → ∃ sm sm2, stateAt E m s0 = some sm ∧ tick E sm = .next sm2
  | 0, s, _, m, hm => by omega
  | n+1, s2, hs, m, hm => by
    obtain ⟨s, hs', ht⟩ := stateAt_succ hs
    by_cases hmn : m = n
    · subst hmn; exact ⟨s, s2, hs', ht⟩
    · exact stateAt_prev n s hs' m (by omega)

/-! ### running the same scheduler again -/

theorem restart_fields (E : Env τ ω) (houses : List House) (s : St τ ω) (w : ω) :
    ids (restart E houses s w).ready = ids s.ready ++ declared houses ∧ (restart E houses s w).events = [] ∧
    (restart E houses s w).tick = 0 ∧ (restart E houses s w).stamp = s.stamp ∧
    (restart E houses s w).storeStamp = s.stamp ∧ (restart E houses s w).P = s.P ∧
    (∀ e ∈ (restart E houses s w).ready, e ∈ s.ready ∨ e.retime = s.stamp) := by
  have := foldl_addReadyTask E (declared houses)
    { s with storeStamp := s.stamp, world := w, status := none, tick := 0, events := [] }
  simp only [restart, declared] at this ⊢
  exact this

/-- **`run()` drains the deque**, however it ended (`ready.clear()` in the `finally:` of the sweep) -/
theorem run_ready_empty (E : Env τ ω) (fuel : Nat) (s : St τ ω) (hne : (runLoop E fuel s).1 ≠ .fuel) :
    (run E fuel s).2.ready = [] := by
  unfold run
  cases hl : runLoop E fuel s with
  | mk en s' =>
    rw [hl] at hne
    have hfz : (finalize E s').2.ready = [] := rfl
    cases hf : finalize E s' with
    | mk o s'' =>
      rw [hf] at hfz
      cases en
      case fuel => exact absurd rfl hne
      all_goals (simp only [hf]; cases o <;> exact hfz)

/-- declared order and once-per-pass for a run started from any state whose deque is the declared order -/
theorem declared_order_from (E : Env τ ω) (D : List Nat) (s0 : St τ ω) (hr : ids s0.ready = D) (he : s0.events = [])
    (fuel n : Nat) : (passEvents n (run E fuel s0).2.events).map (·.id) <+ D := by
  rw [run_events_passEvents]
  apply runLoop_order E D fuel
  refine ⟨by rw [hr]; exact List.Sublist.refl _, ?_, ?_⟩
  · rw [he]; simp
  · rw [he]; simp [passEvents]


end Ioflo.Sked
