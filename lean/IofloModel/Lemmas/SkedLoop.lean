import IofloModel.Model.SkedLoop
import IofloModel.Lemmas.Sked
/-!
Helper lemmas for `Model/SkedLoop.lean`: what the hooks of a framer's runner leave alone
(`Pres`), the effect of `exitAll`, and the invariants of `LoopEnv` used by `Props/C03.lean`.
-/
set_option linter.unusedSectionVars false
set_option linter.unusedVariables false
set_option linter.unusedSimpArgs false
namespace Ioflo.SkedLoop
open Ioflo.Sked

variable {τ : Type} [TimeLike τ]

/-- a hook run on behalf of framer `i` never touches a status, a generator's liveness or a program,
and touches nobody else's entered frames -/
structure Pres (i : Nat) (w w' : World τ) : Prop where
  status : ∀ k, (w'.framers k).status = (w.framers k).status
  alive : ∀ k, (w'.framers k).alive = (w.framers k).alive
  frames : ∀ k, (w'.framers k).frames = (w.framers k).frames ∧ (w'.framers k).first = (w.framers k).first
  actives : ∀ k, k ≠ i → (w'.framers k).actives = (w.framers k).actives

theorem Pres.refl (i : Nat) (w : World τ) : Pres i w w :=
  ⟨fun _ => rfl, fun _ => rfl, fun _ => ⟨rfl, rfl⟩, fun _ _ => rfl⟩

theorem Pres.trans {i : Nat} {w w' w'' : World τ} (h1 : Pres i w w') (h2 : Pres i w' w'') : Pres i w w'' :=
  ⟨fun k => (h2.status k).trans (h1.status k), fun k => (h2.alive k).trans (h1.alive k),
   fun k => ⟨(h2.frames k).1.trans (h1.frames k).1, (h2.frames k).2.trans (h1.frames k).2⟩,
   fun k hk => (h2.actives k hk).trans (h1.actives k hk)⟩

/-- an update of framer `j` that keeps status, liveness, program (and entered frames unless `j = i`) -/
theorem Pres.modF (i j : Nat) (w : World τ) (g : Fr τ → Fr τ)
    (hs : ∀ f, (g f).status = f.status) (ha : ∀ f, (g f).alive = f.alive)
    (hf : ∀ f, (g f).frames = f.frames ∧ (g f).first = f.first)
    (hact : j ≠ i → ∀ f, (g f).actives = f.actives) : Pres i w (w.modF j g) := by
  refine ⟨?_, ?_, ?_, ?_⟩
  · intro k; simp only [World.modF]; split
    · rename_i h; subst h; exact hs _
    · rfl
  · intro k; simp only [World.modF]; split
    · rename_i h; subst h; exact ha _
    · rfl
  · intro k; simp only [World.modF]; split
    · rename_i h; subst h; exact hf _
    · exact ⟨rfl, rfl⟩
  · intro k hk; simp only [World.modF]; split
    · rename_i h; subst h; exact hact hk _
    · rfl

theorem Pres.same_framers (i : Nat) {w w' : World τ} (h : w'.framers = w.framers) : Pres i w w' := by
  refine ⟨?_, ?_, ?_, ?_⟩ <;> intros <;> simp [h]

theorem Pres.setDesire (i j : Nat) (c : Control) (w : World τ) : Pres i w (setDesire j c w) :=
  Pres.modF i j w _ (fun _ => rfl) (fun _ => rfl) (fun _ => ⟨rfl, rfl⟩) (fun _ _ => rfl)

theorem Pres.bids (i : Nat) (c : Control) : ∀ (ts : List Nat) (w : World τ),
    Pres i w (ts.foldl (fun w t => Ioflo.SkedLoop.setDesire t c w) w)
  | [], w => Pres.refl i w
  | t :: ts, w => Pres.trans (Pres.setDesire i t c w) (Pres.bids i c ts _)

theorem Pres.effect (i f : Nat) (ctx : Ctx) (a : Act) (w : World τ) : Pres i w (execAct.effect i f ctx a w) := by
  unfold execAct.effect
  cases a with
  | record => exact Pres.same_framers i rfl
  | step => exact Pres.refl i w
  | bid ts c => exact Pres.bids i c ts w

theorem Pres.execAct (i f : Nat) (ctx : Ctx) (a : Act) (w : World τ) : Pres i w (execAct i f ctx a w).w := by
  unfold Ioflo.SkedLoop.execAct
  simp only []
  have h0 : Pres i w { w with count := w.count + 1 } := Pres.same_framers i rfl
  split
  · split
    · exact h0
    · exact Pres.trans h0 (Pres.effect i f ctx a _)
  · exact Pres.trans h0 (Pres.effect i f ctx a _)

theorem Pres.andThen {i : Nat} {w : World τ} {r : Res τ} {g : World τ → Res τ}
    (h1 : Pres i w r.w) (h2 : ∀ w1, Pres i w1 (g w1).w) : Pres i w (r.andThen g).w := by
  unfold Res.andThen
  split
  · exact h1
  · exact Pres.trans h1 (h2 _)

theorem Pres.runActs (i f : Nat) (ctx : Ctx) : ∀ (acts : List Act) (w : World τ), Pres i w (runActs i f ctx acts w).w
  | [], w => Pres.refl i w
  | a :: rest, w => Pres.andThen (Pres.execAct i f ctx a w) (fun w1 => Pres.runActs i f ctx rest w1)

theorem Pres.runFrames (i : Nat) (ctx : Ctx) : ∀ (fs : List Nat) (w : World τ), Pres i w (runFrames i ctx fs w).w
  | [], w => Pres.refl i w
  | f :: rest, w => Pres.andThen (Pres.runActs i f ctx _ w) (fun w1 => Pres.runFrames i ctx rest w1)

theorem Pres.setActives (i : Nat) (l : List Nat) (w : World τ) : Pres i w (setActives i l w) :=
  Pres.modF i i w _ (fun _ => rfl) (fun _ => rfl) (fun _ => ⟨rfl, rfl⟩) (fun h => absurd rfl h)

theorem Pres.setRecurred (i n : Nat) (w : World τ) : Pres i w (setRecurred i n w) :=
  Pres.modF i i w _ (fun _ => rfl) (fun _ => rfl) (fun _ => ⟨rfl, rfl⟩) (fun _ _ => rfl)

theorem Pres.bumpRecurred (i : Nat) (w : World τ) : Pres i w (bumpRecurred i w) :=
  Pres.modF i i w _ (fun _ => rfl) (fun _ => rfl) (fun _ => ⟨rfl, rfl⟩) (fun _ _ => rfl)

theorem Pres.enterFrames (i : Nat) (l : List Nat) (w : World τ) : Pres i w (enterFrames i l w).w := by
  unfold Ioflo.SkedLoop.enterFrames
  split
  · exact Pres.runFrames i .enter l w
  · exact Pres.trans (Pres.setRecurred i 0 w) (Pres.runFrames i .enter l _)

theorem Pres.exitFrames (i : Nat) (l : List Nat) (w : World τ) : Pres i w (exitFrames i l w).w :=
  Pres.runFrames i .exit _ w

theorem Pres.enterAll (i : Nat) (w : World τ) : Pres i w (enterAll i w).w := by
  unfold Ioflo.SkedLoop.enterAll
  exact Pres.trans (Pres.setActives i _ w) (Pres.enterFrames i _ _)

theorem Pres.exitAll (i : Nat) (w : World τ) : Pres i w (exitAll i w).w := by
  unfold Ioflo.SkedLoop.exitAll
  exact Pres.andThen (Pres.exitFrames i _ w) (fun w1 => Pres.setActives i [] w1)

theorem Pres.recur (i : Nat) (w : World τ) : Pres i w (recur i w).w := Pres.runFrames i .recur _ w

theorem Pres.tryTrans (i : Nat) : ∀ (ts : List (Nat × Nat)) (w : World τ) (r : Res τ),
    tryTrans i ts w = some r → Pres i w r.w
  | [], w, r, h => by simp [Ioflo.SkedLoop.tryTrans] at h
  | (n, target) :: rest, w, r, h => by
    simp only [Ioflo.SkedLoop.tryTrans] at h
    split at h
    · split at h
      · exact Pres.tryTrans i rest w r h
      · simp only [Option.some.injEq] at h
        subst h
        exact Pres.andThen (Pres.exitFrames i _ w) (fun w1 =>
          Pres.andThen (Pres.enterFrames i _ w1) (fun w2 => Pres.setActives i _ w2))
    · exact Pres.tryTrans i rest w r h

theorem Pres.precurFrames (i : Nat) : ∀ (fs : List Nat) (w : World τ), Pres i w (precurFrames i fs w).w
  | [], w => Pres.refl i w
  | f :: rest, w => by
    simp only [Ioflo.SkedLoop.precurFrames]
    split
    · rename_i r hr; exact Pres.tryTrans i _ w r hr
    · exact Pres.precurFrames i rest w

theorem Pres.segue (i : Nat) (w : World τ) : Pres i w (segue i w).w := by
  unfold Ioflo.SkedLoop.segue
  exact Pres.trans (Pres.bumpRecurred i w) (Pres.precurFrames i _ _)

/-- **`exitAll` without a crash leaves no frame entered.** -/
theorem exitAll_actives (i : Nat) (w : World τ) (h : (exitAll i w).exc = none) :
    ((exitAll i w).w.framers i).actives = [] := by
  unfold exitAll Res.andThen at *
  split at h
  · rename_i x hx; simp [hx] at h
  · rename_i hx
    simp only [hx]
    simp [setActives, World.modF]

/-! ### the runner table -/

/-- like `Pres`, but framer `i`'s own status may change -/
structure PresO (i : Nat) (w w' : World τ) : Prop where
  status : ∀ k, k ≠ i → (w'.framers k).status = (w.framers k).status
  alive : ∀ k, (w'.framers k).alive = (w.framers k).alive
  frames : ∀ k, (w'.framers k).frames = (w.framers k).frames ∧ (w'.framers k).first = (w.framers k).first
  actives : ∀ k, k ≠ i → (w'.framers k).actives = (w.framers k).actives

theorem Pres.toO {i : Nat} {w w' : World τ} (h : Pres i w w') : PresO i w w' :=
  ⟨fun k _ => h.status k, h.alive, h.frames, h.actives⟩

theorem PresO.refl (i : Nat) (w : World τ) : PresO i w w := (Pres.refl i w).toO

theorem PresO.trans {i : Nat} {w w' w'' : World τ} (h1 : PresO i w w') (h2 : PresO i w' w'') : PresO i w w'' :=
  ⟨fun k hk => (h2.status k hk).trans (h1.status k hk), fun k => (h2.alive k).trans (h1.alive k),
   fun k => ⟨(h2.frames k).1.trans (h1.frames k).1, (h2.frames k).2.trans (h1.frames k).2⟩,
   fun k hk => (h2.actives k hk).trans (h1.actives k hk)⟩

theorem PresO.setStatus (i : Nat) (st : Status) (w : World τ) : PresO i w (setStatus i st w) := by
  refine ⟨?_, ?_, ?_, ?_⟩ <;> intro k <;> simp only [Ioflo.SkedLoop.setStatus, World.modF]
  · intro hk; simp [hk]
  · split
    · rename_i h; subst h; rfl
    · rfl
  · split
    · rename_i h; subst h; exact ⟨rfl, rfl⟩
    · exact ⟨rfl, rfl⟩
  · intro hk; simp [hk]

theorem PresO.andThen {i : Nat} {w : World τ} {r : Res τ} {g : World τ → Res τ}
    (h1 : PresO i w r.w) (h2 : ∀ w1, PresO i w1 (g w1).w) : PresO i w (r.andThen g).w := by
  unfold Res.andThen
  split
  · exact h1
  · exact PresO.trans h1 (h2 _)

theorem andThen_none {r : Res τ} {g : World τ → Res τ} (h : (r.andThen g).exc = none) :
    r.exc = none ∧ r.andThen g = g r.w := by
  unfold Res.andThen at *
  split at h
  · rename_i x hx; rw [hx] at h; simp at h
  · rename_i hx; exact ⟨hx, by simp [hx]⟩

theorem table_presO (i : Nat) (c : Control) (w : World τ) : PresO i w (table i c w).w := by
  have hrun : PresO i w (runLive i w).w :=
    PresO.andThen (Pres.andThen (Pres.segue i w) (fun w1 => Pres.recur i w1)).toO (fun w1 => PresO.setStatus i _ w1)
  have hbad : PresO i w (bad i w).w := PresO.trans (Pres.setDesire i i _ w).toO (PresO.setStatus i _ _)
  have hstart : PresO i w (startIdle i w).w :=
    PresO.andThen (Pres.andThen (Pres.trans (Pres.setDesire i i _ w) (Pres.enterAll i _)) (fun w1 => Pres.recur i w1)).toO
      (fun w1 => PresO.setStatus i _ w1)
  have hstop : PresO i w (stopLive i w).w :=
    PresO.andThen (Pres.trans (Pres.setDesire i i _ w) (Pres.exitAll i _)).toO (fun w1 => PresO.setStatus i _ w1)
  have habort : ∀ live, PresO i w (abortAny i live w).w := by
    intro live
    unfold abortAny
    apply PresO.andThen
    · split
      · exact (Pres.exitAll i w).toO
      · exact PresO.refl i w
    · intro w1; exact PresO.trans (Pres.setDesire i i _ w1).toO (PresO.setStatus i _ _)
  unfold table
  simp only []
  cases c <;> simp only []
  · split
    · exact hstop
    · split
      · exact PresO.refl i w
      · exact hbad
  · split
    · exact hstart
    · split
      · exact (Pres.setDesire i i _ w).toO
      · exact hbad
  · split
    · exact hrun
    · split
      · exact (Pres.setDesire i i _ w).toO
      · exact hbad
  · exact habort _
  · split
    · exact PresO.setStatus i _ w
    · split
      · exact PresO.refl i w
      · exact hbad
  · exact habort _

theorem status_setStatus (i : Nat) (st : Status) (w : World τ) : ((setStatus i st w).framers i).status = st := by
  simp [setStatus, World.modF]
theorem actives_setStatus (i : Nat) (st : Status) (w : World τ) :
    ((setStatus i st w).framers i).actives = (w.framers i).actives := by
  simp [setStatus, World.modF]
theorem status_setDesire (i : Nat) (c : Control) (w : World τ) :
    ((setDesire i c w).framers i).status = (w.framers i).status := by
  simp [setDesire, World.modF]
theorem actives_setDesire (i : Nat) (c : Control) (w : World τ) :
    ((setDesire i c w).framers i).actives = (w.framers i).actives := by
  simp [setDesire, World.modF]

theorem startIdle_status (i : Nat) (w : World τ) (h : (startIdle i w).exc = none) :
    ((startIdle i w).w.framers i).status = .started := by
  unfold startIdle at *
  obtain ⟨_, h2⟩ := andThen_none h
  rw [h2]; exact status_setStatus i _ _

theorem runLive_status (i : Nat) (w : World τ) (h : (runLive i w).exc = none) :
    ((runLive i w).w.framers i).status = .running := by
  unfold runLive at *
  obtain ⟨_, h2⟩ := andThen_none h
  rw [h2]; exact status_setStatus i _ _

theorem stopLive_actives (i : Nat) (w : World τ) (h : (stopLive i w).exc = none) :
    ((stopLive i w).w.framers i).actives = [] := by
  unfold stopLive at *
  obtain ⟨h1, h2⟩ := andThen_none h
  rw [h2]
  simp only []
  rw [actives_setStatus]; exact exitAll_actives i _ h1

theorem abortAny_true_actives (i : Nat) (w : World τ) (h : (abortAny i true w).exc = none) :
    ((abortAny i true w).w.framers i).actives = [] := by
  unfold abortAny at *
  simp only [if_true] at h ⊢
  obtain ⟨h1, h2⟩ := andThen_none h
  rw [h2]
  simp only []
  rw [actives_setStatus, actives_setDesire]; exact exitAll_actives i _ h1

theorem abortAny_false_actives (i : Nat) (w : World τ) :
    ((abortAny i false w).w.framers i).actives = (w.framers i).actives := by
  unfold abortAny
  simp only [Bool.false_eq_true, if_false, Res.andThen]
  rw [actives_setStatus, actives_setDesire]

/-- **After any resumption that did not crash, a framer that is not started/running has no frame entered**
(if that was so before): STOP and ABORT exit every entered frame. -/
theorem table_idle (i : Nat) (c : Control) (w : World τ) (hexc : (table i c w).exc = none)
    (hI : (w.framers i).status.live = false → (w.framers i).actives = []) :
    ((table i c w).w.framers i).status.live = false → ((table i c w).w.framers i).actives = [] := by
  unfold table at hexc ⊢
  simp only [] at hexc ⊢
  cases hst : (w.framers i).status <;> cases c <;>
    simp only [hst, decide_true, decide_false, Bool.or_true, Bool.or_false, Bool.true_or, Bool.false_or,
      if_true, if_false, reduceCtorEq, or_self, or_true, true_or, or_false, false_or, Bool.false_eq_true] at hexc ⊢ <;>
    simp only [hst, Status.live] at hI
  all_goals first
    | (intro h; rw [startIdle_status i w hexc] at h; simp [Status.live] at h)
    | (intro h; rw [runLive_status i w hexc] at h; simp [Status.live] at h)
    | (intro _; exact stopLive_actives i w hexc)
    | (intro _; exact abortAny_true_actives i w hexc)
    | (intro _; rw [abortAny_false_actives]; simpa using hI)
    | (intro _; simpa [hst, Status.live] using hI)
    | (intro _; rw [actives_setDesire]; simpa [hst, Status.live] using hI)
    | (intro _; rw [actives_setStatus]; simpa [hst, Status.live] using hI)
    | (unfold bad; simp only []; intro _; rw [actives_setStatus, actives_setDesire]; simpa [hst, Status.live] using hI)
    | (intro h; exfalso; simp [Status.live, status_setDesire, hst] at h; done)

/-! ### one send, and the environment -/

/-- a finished generator's framer shows status ABORTED -/
def DeadAborted (w : World τ) : Prop := ∀ k, (w.framers k).alive = false → (w.framers k).status = .aborted

/-- a living framer that is not started/running has no frame entered -/
def IdleEmpty (w : World τ) : Prop :=
  ∀ k, (w.framers k).alive = true → (w.framers k).status.live = false → (w.framers k).actives = []

theorem die_framers (i : Nat) (w : World τ) :
    ((die i w).framers i).alive = false ∧ ((die i w).framers i).status = .aborted ∧
    ∀ k, k ≠ i → (die i w).framers k = w.framers k := by
  simp only [die, World.modF, if_true, true_and]
  intro k hk; simp [hk]

/-- the effect of `send i c` on the framers -/
theorem send_spec (i : Nat) (c : Control) (w : World τ) :
    (∀ k, k ≠ i → ((send i c w).2.framers k).status = (w.framers k).status ∧
      ((send i c w).2.framers k).alive = (w.framers k).alive ∧
      ((send i c w).2.framers k).actives = (w.framers k).actives) ∧
    (∀ x, (send i c w).1 = .yielded x → ((send i c w).2.framers i).status = x ∧
      ((send i c w).2.framers i).alive = true ∧ (w.framers i).alive = true ∧
      ((w.framers i).status.live = false → (w.framers i).actives = []) →
        (x.live = false → ((send i c w).2.framers i).actives = [])) ∧
    ((send i c w).1 = .stopIteration → (w.framers i).alive = false ∧ (send i c w).2 = w) ∧
    (∀ x, (send i c w).1 = .raised x → ((send i c w).2.framers i).alive = false ∧
      ((send i c w).2.framers i).status = .aborted) := by
  unfold send
  by_cases ha : (w.framers i).alive = true
  · simp only [ha, Bool.not_true, Bool.false_eq_true, if_false]
    have hp := table_presO i c w
    cases hexc : (table i c w).exc with
    | some x =>
      simp only []
      obtain ⟨d1, d2, d3⟩ := die_framers i (table i c w).w
      refine ⟨?_, ?_, ?_, ?_⟩
      · intro k hk
        rw [d3 k hk]
        exact ⟨hp.status k hk, hp.alive k, hp.actives k hk⟩
      · intro y hy; simp at hy
      · intro hy; simp at hy
      · intro y _; exact ⟨d1, d2⟩
    | none =>
      simp only []
      refine ⟨?_, ?_, ?_, ?_⟩
      · intro k hk; exact ⟨hp.status k hk, hp.alive k, hp.actives k hk⟩
      · intro y hy
        simp only [Sent.yielded.injEq] at hy
        intro h
        intro hlive
        have := table_idle i c w hexc h.2.2.2
        rw [hy] at this
        exact this hlive
      · intro hy; simp at hy
      · intro y hy; simp at hy
  · have ha' : (w.framers i).alive = false := by simpa using ha
    simp only [ha', Bool.not_false, if_true]
    refine ⟨fun k _ => by simp, ?_, ?_, ?_⟩
    · intro y hy; simp at hy
    · intro _; simp
    · intro y hy; simp at hy

theorem send_yield_status (i : Nat) (c : Control) (w : World τ) (x : Status) (h : (send i c w).1 = .yielded x) :
    ((send i c w).2.framers i).status = x ∧ ((send i c w).2.framers i).alive = true ∧ (w.framers i).alive = true := by
  unfold send at h ⊢
  by_cases ha : (w.framers i).alive = true
  · simp only [ha, Bool.not_true, Bool.false_eq_true, if_false] at h ⊢
    cases hexc : (table i c w).exc with
    | some y => rw [hexc] at h; simp at h
    | none =>
      rw [hexc] at h
      simp only [Sent.yielded.injEq] at h
      simp only []
      refine ⟨h, ?_, trivial⟩
      rw [(table_presO i c w).alive i]; exact ha
  · have ha' : (w.framers i).alive = false := by simpa using ha
    simp only [ha', Bool.not_false, if_true] at h
    simp at h

/-- the framers seen through `LoopEnv.send` (which only adds trace entries around `send`) -/
theorem loopEnv_send_framers (ph : Phase) (i : Nat) (c : Control) (st : τ) (w : World τ) :
    ((LoopEnv (τ := τ)).send ph i c st w).2.framers = (send i c { w with trace := w.trace ++ [.recv ph i c] }).2.framers ∧
    ((LoopEnv (τ := τ)).send ph i c st w).1 = (send i c { w with trace := w.trace ++ [.recv ph i c] }).1 :=
  ⟨rfl, rfl⟩

theorem loopEnv_faithful : StatusFaithful (LoopEnv (τ := τ)) DeadAborted where
  closed := by
    intro ph i c st w hW k hk
    obtain ⟨hfr, hres⟩ := loopEnv_send_framers ph i c st w
    rw [hfr] at hk ⊢
    obtain ⟨ho, hy, hs, hr⟩ := send_spec i c { w with trace := w.trace ++ [.recv ph i c] }
    by_cases hki : k = i
    · subst hki
      cases hsent : (send k c { w with trace := w.trace ++ [.recv ph k c] }).1 with
      | yielded x =>
        have := (send_yield_status k c _ x hsent).2.1
        rw [this] at hk; simp at hk
      | stopIteration =>
        obtain ⟨h1, h2⟩ := hs hsent
        rw [h2]; exact hW k h1
      | raised x => exact (hr x hsent).2
    · obtain ⟨h1, h2, _⟩ := ho k hki
      rw [h1]; rw [h2] at hk; exact hW k hk
  other := by
    intro ph i c st w k _ hk
    show ((LoopEnv.send ph i c st w).2.framers k).status = (w.framers k).status
    rw [(loopEnv_send_framers ph i c st w).1]
    exact ((send_spec i c _).1 k hk).1
  own := by
    intro ph i c st w x _ h
    show ((LoopEnv.send ph i c st w).2.framers i).status = x
    rw [(loopEnv_send_framers ph i c st w).1]
    rw [(loopEnv_send_framers ph i c st w).2] at h
    exact (send_yield_status i c _ x h).1
  stop := by
    intro ph i c st w hW h
    show ((LoopEnv.send ph i c st w).2.framers i).status = .aborted
    rw [(loopEnv_send_framers ph i c st w).1]
    rw [(loopEnv_send_framers ph i c st w).2] at h
    obtain ⟨h1, h2⟩ := (send_spec i c _).2.2.1 h
    rw [h2]; exact hW i h1

/-- `IdleEmpty` is kept by every send -/
theorem idleEmpty_send (ph : Phase) (i : Nat) (c : Control) (st : τ) (w : World τ) (h : IdleEmpty w) :
    IdleEmpty ((LoopEnv (τ := τ)).send ph i c st w).2 := by
  intro k hk hlive
  obtain ⟨hfr, _⟩ := loopEnv_send_framers ph i c st w
  rw [hfr] at hk hlive ⊢
  let w1 : World τ := { w with trace := w.trace ++ [.recv ph i c] }
  obtain ⟨ho, hy, hs, hr⟩ := send_spec i c w1
  by_cases hki : k = i
  · subst hki
    cases hsent : (send k c w1).1 with
    | yielded x =>
      obtain ⟨h1, h2, h3⟩ := send_yield_status k c w1 x hsent
      have := hy x hsent ⟨h1, h2, h3, fun hl => h k h3 hl⟩
      apply this
      have hl2 : ((send k c w1).2.framers k).status.live = false := hlive
      rw [h1] at hl2; exact hl2
    | stopIteration =>
      obtain ⟨h1, h2⟩ := hs hsent
      have hk' : ((send k c w1).2.framers k).alive = true := hk
      rw [h2] at hk'
      have : (w.framers k).alive = false := h1
      have hk'' : (w.framers k).alive = true := hk'
      rw [this] at hk''; simp at hk''
    | raised x =>
      have := (hr x hsent).1
      have hk' : ((send k c w1).2.framers k).alive = true := hk
      rw [this] at hk'; simp at hk'
  · obtain ⟨h1, h2, h3⟩ := ho k hki
    have hk' : ((send i c w1).2.framers k).alive = true := hk
    have hl' : ((send i c w1).2.framers k).status.live = false := hlive
    show ((send i c w1).2.framers k).actives = []
    rw [h3]
    rw [h2] at hk'
    rw [h1] at hl'
    exact h k hk' hl'

theorem idleEmpty_step : StepInv (LoopEnv (τ := τ)) (fun s => IdleEmpty s.world) where
  after := by
    intro s e rest hi _
    show IdleEmpty (after LoopEnv s e rest).world
    rw [after_world]
    split
    · exact idleEmpty_send _ _ _ _ _ hi
    · exact hi
  afterFinal := fun s e rest hi _ => idleEmpty_send .final e.id .abort s.storeStamp s.world hi
  advance := fun s hi => hi
  halfAdvance := fun s hi => hi
  clear := fun s hi => hi

/-! ### what the recorder writes -/

/-- the marks left by the recorder actions among `acts` -/
def marksOf (i f : Nat) (ctx : Ctx) (acts : List Act) : List Obs :=
  acts.filterMap (fun a => if a = .record then some (.mark i f ctx) else none)

theorem bids_trace (c : Control) : ∀ (ts : List Nat) (w : World τ),
    (ts.foldl (fun w t => Ioflo.SkedLoop.setDesire t c w) w).trace = w.trace
  | [], w => rfl
  | t :: ts, w => by
    simp only [List.foldl_cons]
    rw [bids_trace c ts]; rfl

theorem execAct_trace (i f : Nat) (ctx : Ctx) (a : Act) (w : World τ) (h : (execAct i f ctx a w).exc = none) :
    (execAct i f ctx a w).w.trace = w.trace ++ marksOf i f ctx [a] := by
  unfold execAct at h ⊢
  simp only [] at h ⊢
  have heff : (execAct.effect i f ctx a { w with count := w.count + 1 }).trace = w.trace ++ marksOf i f ctx [a] := by
    unfold execAct.effect
    cases a with
    | record => simp [marksOf]
    | step => simp [marksOf]
    | bid ts c => simp [marksOf, bids_trace]
  split at h
  · split at h
    · simp at h
    · rename_i hk
      simp only [hk, if_false]; exact heff
  · exact heff

theorem runActs_trace (i f : Nat) (ctx : Ctx) : ∀ (acts : List Act) (w : World τ),
    (runActs i f ctx acts w).exc = none → (runActs i f ctx acts w).w.trace = w.trace ++ marksOf i f ctx acts
  | [], w, _ => by simp [Ioflo.SkedLoop.runActs, marksOf]
  | a :: rest, w, h => by
    simp only [Ioflo.SkedLoop.runActs] at h ⊢
    obtain ⟨h1, h2⟩ := andThen_none h
    rw [h2] at h ⊢
    rw [runActs_trace i f ctx rest _ h, execAct_trace i f ctx a w h1]
    simp [marksOf, List.filterMap_cons]
    cases a <;> simp

/-- the frames' contexts run in list order, each leaving its recorder marks; the program does not change -/
theorem runFrames_trace (i : Nat) (ctx : Ctx) : ∀ (fs : List Nat) (w : World τ),
    (runFrames i ctx fs w).exc = none →
    (runFrames i ctx fs w).w.trace =
      w.trace ++ fs.flatMap (fun f => marksOf i f ctx (actsOf (frameOf (w.framers i) f) ctx))
  | [], w, _ => by simp [Ioflo.SkedLoop.runFrames]
  | f :: rest, w, h => by
    simp only [Ioflo.SkedLoop.runFrames] at h ⊢
    obtain ⟨h1, h2⟩ := andThen_none h
    rw [h2] at h ⊢
    have hp := Pres.runActs i f ctx (actsOf (frameOf (w.framers i) f) ctx) w
    rw [runFrames_trace i ctx rest _ h, runActs_trace i f ctx _ w h1]
    have hfr : ∀ g, frameOf ((runActs i f ctx (actsOf (frameOf (w.framers i) f) ctx) w).w.framers i) g
        = frameOf (w.framers i) g := by
      intro g
      exact congrArg (fun l => List.getD l g {}) (hp.frames i).1
    simp only [List.flatMap_cons, hfr, List.append_assoc]

theorem send_abort_yields (i : Nat) (w : World τ) (x : Status) (h : (send i .abort w).1 = .yielded x) :
    x = .aborted := by
  unfold send at h
  by_cases ha : (w.framers i).alive = true
  · simp only [ha, Bool.not_true, Bool.false_eq_true, if_false] at h
    cases hexc : (table i .abort w).exc with
    | some y => rw [hexc] at h; simp at h
    | none =>
      rw [hexc] at h
      simp only [Sent.yielded.injEq] at h
      rw [← h]
      unfold table abortAny at hexc ⊢
      simp only [] at hexc ⊢
      obtain ⟨_, h2⟩ := andThen_none hexc
      rw [h2]
      exact status_setStatus i _ _
  · have ha' : (w.framers i).alive = false := by simpa using ha
    simp only [ha', Bool.not_false, if_true] at h
    simp at h

/-- every send of the abort sweep that yields, yields ABORTED -/
theorem sweepYield_step : StepInv (LoopEnv (τ := τ))
    (fun s => ∀ ev ∈ s.events, ev.phase = .final → ∀ x, ev.result = .yielded x → x = .aborted) where
  after := by
    intro s e rest hi _ ev hev hph
    rw [after_events] at hev
    rcases List.mem_append.mp hev with h | h
    · exact hi ev h hph
    · unfold newEvents at h
      split at h
      · simp at h; subst h; simp [sendEvent] at hph
      · simp at h
  afterFinal := by
    intro s e rest hi _ ev hev hph x hx
    have hev' : ev ∈ s.events ++ [finalEvent LoopEnv s e] := hev
    rcases List.mem_append.mp hev' with h | h
    · exact hi ev h hph x hx
    · simp at h; subst h
      have : (send e.id .abort { s.world with trace := s.world.trace ++ [.recv .final e.id .abort] }).1 = .yielded x := hx
      exact send_abort_yields _ _ x this
  advance := fun s hi => hi
  halfAdvance := fun s hi => hi
  clear := fun s hi => hi

/-! ### the entered frames are an outline, on every visit -/

/-- the entered frames of framer `i` are nothing, or the outline of one of its frames — with the program `F` -/
def AOK (i : Nat) (F : List Frame) (w : World τ) : Prop :=
  (w.framers i).frames = F ∧ ((w.framers i).actives = [] ∨ ∃ f, (w.framers i).actives = outline F f)

/-- an update that touches neither the program nor the entered frames of anybody -/
def KeepA (w w' : World τ) : Prop :=
  ∀ k, (w'.framers k).frames = (w.framers k).frames ∧ (w'.framers k).actives = (w.framers k).actives

theorem keepA_refl (w : World τ) : KeepA w w := fun _ => ⟨rfl, rfl⟩
theorem keepA_trans {w w' w'' : World τ} (h1 : KeepA w w') (h2 : KeepA w' w'') : KeepA w w'' :=
  fun k => ⟨(h2 k).1.trans (h1 k).1, (h2 k).2.trans (h1 k).2⟩
theorem keepA_aok {i : Nat} {F : List Frame} {w w' : World τ} (h : KeepA w w') (ha : AOK i F w) : AOK i F w' := by
  unfold AOK at *
  rw [(h i).1, (h i).2]; exact ha

theorem keepA_modF (j : Nat) (w : World τ) (g : Fr τ → Fr τ)
    (hf : ∀ f, (g f).frames = f.frames) (ha : ∀ f, (g f).actives = f.actives) : KeepA w (w.modF j g) := by
  intro k; simp only [World.modF]; split
  · rename_i h; subst h; exact ⟨hf _, ha _⟩
  · exact ⟨rfl, rfl⟩

theorem keepA_setDesire (j : Nat) (c : Control) (w : World τ) : KeepA w (Ioflo.SkedLoop.setDesire j c w) :=
  by
  intro k; simp only [Ioflo.SkedLoop.setDesire, Ioflo.SkedLoop.setStatus, Ioflo.SkedLoop.bumpRecurred, Ioflo.SkedLoop.setRecurred, Ioflo.SkedLoop.die, World.modF]; split <;> simp_all
theorem keepA_setStatus (j : Nat) (c : Status) (w : World τ) : KeepA w (Ioflo.SkedLoop.setStatus j c w) :=
  by
  intro k; simp only [Ioflo.SkedLoop.setDesire, Ioflo.SkedLoop.setStatus, Ioflo.SkedLoop.bumpRecurred, Ioflo.SkedLoop.setRecurred, Ioflo.SkedLoop.die, World.modF]; split <;> simp_all
theorem keepA_bumpRecurred (j : Nat) (w : World τ) : KeepA w (Ioflo.SkedLoop.bumpRecurred j w) :=
  by
  intro k; simp only [Ioflo.SkedLoop.setDesire, Ioflo.SkedLoop.setStatus, Ioflo.SkedLoop.bumpRecurred, Ioflo.SkedLoop.setRecurred, Ioflo.SkedLoop.die, World.modF]; split <;> simp_all
theorem keepA_die (j : Nat) (w : World τ) : KeepA w (Ioflo.SkedLoop.die j w) :=
  by
  intro k; simp only [Ioflo.SkedLoop.setDesire, Ioflo.SkedLoop.setStatus, Ioflo.SkedLoop.bumpRecurred, Ioflo.SkedLoop.setRecurred, Ioflo.SkedLoop.die, World.modF]; split <;> simp_all

theorem keepA_setRecurred (j n : Nat) (w : World τ) : KeepA w (Ioflo.SkedLoop.setRecurred j n w) := by
  intro k; simp only [Ioflo.SkedLoop.setRecurred, World.modF]; split <;> simp_all

theorem keepA_bids (c : Control) : ∀ (ts : List Nat) (w : World τ),
    KeepA w (ts.foldl (fun w t => Ioflo.SkedLoop.setDesire t c w) w)
  | [], w => keepA_refl w
  | t :: ts, w => by
    simp only [List.foldl_cons]
    exact keepA_trans (keepA_setDesire t c w) (keepA_bids c ts _)

theorem keepA_execAct (i f : Nat) (ctx : Ctx) (a : Act) (w : World τ) : KeepA w (execAct i f ctx a w).w := by
  have heff : ∀ w0 : World τ, KeepA w0 (execAct.effect i f ctx a w0) := by
    intro w0; unfold execAct.effect
    cases a with
    | record => exact fun _ => ⟨rfl, rfl⟩
    | step => exact keepA_refl _
    | bid ts c => exact keepA_bids c ts w0
  have h0 : KeepA w { w with count := w.count + 1 } := fun _ => ⟨rfl, rfl⟩
  unfold Ioflo.SkedLoop.execAct
  simp only []
  split
  · split
    · exact h0
    · exact keepA_trans h0 (heff _)
  · exact keepA_trans h0 (heff _)

theorem keepA_andThen {w : World τ} {r : Res τ} {g : World τ → Res τ}
    (h1 : KeepA w r.w) (h2 : ∀ w1, KeepA w1 (g w1).w) : KeepA w (r.andThen g).w := by
  unfold Res.andThen; split
  · exact h1
  · exact keepA_trans h1 (h2 _)

theorem keepA_runActs (i f : Nat) (ctx : Ctx) : ∀ (acts : List Act) (w : World τ), KeepA w (runActs i f ctx acts w).w
  | [], w => keepA_refl w
  | a :: rest, w => keepA_andThen (keepA_execAct i f ctx a w) (fun w1 => keepA_runActs i f ctx rest w1)

theorem keepA_runFrames (i : Nat) (ctx : Ctx) : ∀ (fs : List Nat) (w : World τ), KeepA w (runFrames i ctx fs w).w
  | [], w => keepA_refl w
  | f :: rest, w => keepA_andThen (keepA_runActs i f ctx _ w) (fun w1 => keepA_runFrames i ctx rest w1)

theorem keepA_enterFrames (i : Nat) (l : List Nat) (w : World τ) : KeepA w (enterFrames i l w).w := by
  unfold Ioflo.SkedLoop.enterFrames
  split
  · exact keepA_runFrames i .enter l w
  · exact keepA_trans (keepA_setRecurred i 0 w) (keepA_runFrames i .enter l _)

theorem keepA_exitFrames (i : Nat) (l : List Nat) (w : World τ) : KeepA w (exitFrames i l w).w :=
  keepA_runFrames i .exit _ w

theorem aok_setActives_outline {i : Nat} {F : List Frame} {w : World τ} (h : (w.framers i).frames = F) (f : Nat) :
    AOK i F (setActives i (outline F f) w) := by
  unfold AOK setActives World.modF; simp only [if_true]; exact ⟨h, Or.inr ⟨f, rfl⟩⟩

theorem aok_setActives_nil {i : Nat} {F : List Frame} {w : World τ} (h : (w.framers i).frames = F) :
    AOK i F (setActives i [] w) := by
  unfold AOK setActives World.modF; simp [h]

/-- **`enterAll` makes the outline of the first frame the entered frames** — whatever happened before -/
theorem enterAll_actives (i : Nat) (w : World τ) :
    ((enterAll i w).w.framers i).actives = outline (w.framers i).frames (w.framers i).first ∧
    ((enterAll i w).w.framers i).frames = (w.framers i).frames := by
  unfold Ioflo.SkedLoop.enterAll
  have h := keepA_enterFrames i (outline (w.framers i).frames (w.framers i).first)
    (setActives i (outline (w.framers i).frames (w.framers i).first) w) i
  rw [h.1, h.2]
  simp [setActives, World.modF]


theorem aok_andThen {i : Nat} {F : List Frame} {r : Res τ} {g : World τ → Res τ}
    (h1 : AOK i F r.w) (h2 : ∀ w1, AOK i F w1 → AOK i F (g w1).w) : AOK i F (r.andThen g).w := by
  unfold Res.andThen; split
  · exact h1
  · exact h2 _ h1

theorem aok_enterAll {i : Nat} {F : List Frame} {w : World τ} (h : AOK i F w) : AOK i F (enterAll i w).w := by
  obtain ⟨ha, hf⟩ := enterAll_actives i w
  refine ⟨hf.trans h.1, Or.inr ⟨(w.framers i).first, ?_⟩⟩
  rw [ha, h.1]

theorem aok_exitAll {i : Nat} {F : List Frame} {w : World τ} (h : AOK i F w) : AOK i F (exitAll i w).w := by
  unfold Ioflo.SkedLoop.exitAll
  refine aok_andThen (keepA_aok (keepA_exitFrames i _ w) h) ?_
  intro w1 h1
  exact aok_setActives_nil h1.1

theorem aok_recur {i : Nat} {F : List Frame} {w : World τ} (h : AOK i F w) : AOK i F (recur i w).w :=
  keepA_aok (keepA_runFrames i .recur _ w) h

theorem aok_tryTrans {i : Nat} {F : List Frame} : ∀ (ts : List (Nat × Nat)) (w : World τ) (r : Res τ),
    AOK i F w → tryTrans i ts w = some r → AOK i F r.w
  | [], w, r, _, h => by simp [Ioflo.SkedLoop.tryTrans] at h
  | (n, target) :: rest, w, r, ha, h => by
    simp only [Ioflo.SkedLoop.tryTrans] at h
    split at h
    · split at h
      · exact aok_tryTrans rest w r ha h
      · simp only [Option.some.injEq] at h
        subst h
        refine aok_andThen (keepA_aok (keepA_exitFrames i _ w) ha) ?_
        intro w1 h1
        refine aok_andThen (keepA_aok (keepA_enterFrames i _ w1) h1) ?_
        intro w2 h2
        have := aok_setActives_outline (w := w2) h2.1 target
        rw [ha.1]; exact this
    · exact aok_tryTrans rest w r ha h

theorem aok_precurFrames {i : Nat} {F : List Frame} : ∀ (l : List Nat) (w : World τ),
    AOK i F w → AOK i F (precurFrames i l w).w
  | [], w, h => h
  | f :: rest, w, h => by
    simp only [Ioflo.SkedLoop.precurFrames]
    split
    · rename_i r hr; exact aok_tryTrans _ w r h hr
    · exact aok_precurFrames rest w h

theorem aok_segue {i : Nat} {F : List Frame} {w : World τ} (h : AOK i F w) : AOK i F (segue i w).w := by
  unfold Ioflo.SkedLoop.segue
  exact aok_precurFrames _ _ (keepA_aok (keepA_bumpRecurred i w) h)

/-- **One resumption keeps "the entered frames are nothing or the outline of a frame of the program"** —
crash or not, whatever control, whatever status. -/
theorem aok_table {i : Nat} {F : List Frame} (c : Control) {w : World τ} (h : AOK i F w) : AOK i F (table i c w).w := by
  have hbad : AOK i F (bad i w).w := keepA_aok (keepA_trans (keepA_setDesire i .abort w) (keepA_setStatus i .aborted _)) h
  have hrun : AOK i F (runLive i w).w := by
    unfold runLive
    refine aok_andThen (aok_andThen (aok_segue h) (fun w1 h1 => aok_recur h1)) ?_
    intro w1 h1; exact keepA_aok (keepA_setStatus i _ w1) h1
  have hstart : AOK i F (startIdle i w).w := by
    unfold startIdle
    refine aok_andThen (aok_andThen (aok_enterAll (keepA_aok (keepA_setDesire i .run w) h)) (fun w1 h1 => aok_recur h1)) ?_
    intro w1 h1; exact keepA_aok (keepA_setStatus i _ w1) h1
  have hstop : AOK i F (stopLive i w).w := by
    unfold stopLive
    refine aok_andThen (aok_exitAll (keepA_aok (keepA_setDesire i .stop w) h)) ?_
    intro w1 h1; exact keepA_aok (keepA_setStatus i _ w1) h1
  have habort : ∀ b, AOK i F (abortAny i b w).w := by
    intro b
    unfold abortAny
    refine aok_andThen ?_ ?_
    · split
      · exact aok_exitAll h
      · exact h
    · intro w1 h1
      exact keepA_aok (keepA_trans (keepA_setDesire i .abort w1) (keepA_setStatus i .aborted _)) h1
  have hsd : ∀ c', AOK i F (Ioflo.SkedLoop.setDesire i c' w) := fun c' => keepA_aok (keepA_setDesire i c' w) h
  have hss : ∀ c', AOK i F (Ioflo.SkedLoop.setStatus i c' w) := fun c' => keepA_aok (keepA_setStatus i c' w) h
  unfold Ioflo.SkedLoop.table
  simp only []
  cases c <;> simp only [] <;> (repeat' split) <;> first | assumption | exact hsd _ | exact hss _ | exact habort _

/-- a resumption of framer `i` does not touch program or entered frames of another framer -/
theorem aok_table_other {i k : Nat} {F : List Frame} (c : Control) {w : World τ} (hk : k ≠ i) (h : AOK k F w) :
    AOK k F (table i c w).w := by
  have hp := (table_presO i c w)
  unfold AOK at *
  rw [(hp.frames k).1, hp.actives k hk]; exact h


/-- every framer's entered frames are nothing or the outline (top first) of one of the frames of its program `F k` -/
def Outlined (F : Nat → List Frame) (w : World τ) : Prop := ∀ k, AOK k (F k) w

theorem outlined_send (F : Nat → List Frame) (ph : Phase) (i : Nat) (c : Control) (st : τ) (w : World τ)
    (h : Outlined F w) : Outlined F ((LoopEnv (τ := τ)).send ph i c st w).2 := by
  intro k
  let w1 : World τ := { w with trace := w.trace ++ [.recv ph i c] }
  have h1 : AOK k (F k) w1 := h k
  have hfr := (loopEnv_send_framers ph i c st w).1
  have hs : AOK k (F k) (send i c w1).2 := by
    unfold Ioflo.SkedLoop.send
    split
    · exact h1
    · have ht : AOK k (F k) (Ioflo.SkedLoop.table i c w1).w := by
        by_cases hk : k = i
        · subst hk; exact aok_table c h1
        · exact aok_table_other c hk h1
      simp only []
      split
      · exact keepA_aok (keepA_die i _) ht
      · exact ht
  unfold AOK at hs ⊢
  rw [hfr]; exact hs

theorem outlined_step (F : Nat → List Frame) : StepInv (LoopEnv (τ := τ)) (fun s => Outlined F s.world) where
  after := by
    intro s e rest hi _
    show Outlined F (after LoopEnv s e rest).world
    rw [after_world]
    split
    · exact outlined_send F _ _ _ _ _ hi
    · exact hi
  afterFinal := fun s e rest hi _ => outlined_send F .final e.id .abort s.storeStamp s.world hi
  advance := fun s hi => hi
  halfAdvance := fun s hi => hi
  clear := fun s hi => hi

end Ioflo.SkedLoop
