import IofloModel.Lemmas.Sked
/-!
Exact-time (`Rat`) lemmas for the scheduler model: the due time of a tasker as a function of its
earlier runs, as an invariant over the passes of the main loop.  Core Lean only (`grind` for the linear arithmetic
over `Rat`): importing Mathlib here would make every run of the axiom audit load it.
-/
set_option linter.unusedSectionVars false
set_option linter.unusedVariables false
namespace Ioflo.Sked
open scoped List

variable {ω : Type}

theorem rat_add (a b : Rat) : TimeLike.add a b = a + b := rfl
theorem rat_lt (a b : Rat) : TimeLike.lt a b = decide (a < b) := rfl

theorem isDue_rat (s : St Rat ω) (e : Entry Rat) : isDue s e = decide (e.retime ≤ s.stamp) := by
  simp only [isDue, rat_lt]
  by_cases h : s.stamp < e.retime
  · simp [h]; exact Rat.not_le.mpr h
  · simp [h]; exact Rat.not_lt.mp h

/-- `e0.retime` plus the periods read at each earlier run of the tasker: the time its next run is due -/
def sumPeriods : List (Event Rat) → Rat
  | [] => 0
  | e :: es => e.periodAfter + sumPeriods es

theorem sumPeriods_append (a b : List (Event Rat)) : sumPeriods (a ++ b) = sumPeriods a + sumPeriods b := by
  induction a with
  | nil => simp [sumPeriods, Rat.zero_add]
  | cons x xs ih => simp only [List.cons_append, sumPeriods, ih, Rat.add_assoc]

def dueTime (e0 : Entry Rat) (evs : List (Event Rat)) : Rat :=
  e0.retime + sumPeriods (evOf e0.id evs)

structure ChainInv (s0 : St Rat ω) (e0 : Entry Rat) (n : Nat) (s : St Rat ω) : Prop where
  nodup : (ids s.ready).Nodup
  stamp : s.stamp = s0.stamp + n * s0.P
  tick : s.tick = s0.tick + n
  P : s.P = s0.P
  prefix_ : ∃ r, s.events = s0.events ++ r
  entry : (∀ ev ∈ evOf e0.id s.events, ev.result.terminal = false) →
    ∃ p, (⟨e0.id, dueTime e0 s.events, p⟩ : Entry Rat) ∈ s.ready

/-- what a completed pass from the start-of-pass state `s` does for tasker `e0.id`, in terms of its
due time -/
theorem pass_due {E : Env Rat ω} {s0 : St Rat ω} {e0 : Entry Rat} {n : Nat} {s s1 : St Rat ω} {m : Bool}
    (hc : ChainInv s0 e0 n s)
    (halive : ∀ ev ∈ evOf e0.id s.events, ev.result.terminal = false)
    (hpass : forLoop E s.ready.length s false = .ok s1 m) :
    (dueTime e0 s.events ≤ s0.stamp + n * s0.P →
      ∃ ev, evOf e0.id s1.events = evOf e0.id s.events ++ [ev] ∧ ev.id = e0.id ∧ ev.phase = .loop ∧
        ev.tick = s0.tick + n ∧ ev.stamp = s.storeStamp ∧
        (ev.result.terminal = false →
          (⟨e0.id, dueTime e0 s.events + ev.periodAfter, ev.periodAfter⟩ : Entry Rat) ∈ s1.ready)) ∧
    (¬ dueTime e0 s.events ≤ s0.stamp + n * s0.P →
      evOf e0.id s1.events = evOf e0.id s.events ∧
      ∃ p, (⟨e0.id, dueTime e0 s.events, p⟩ : Entry Rat) ∈ s1.ready) := by
  obtain ⟨p, hmem⟩ := hc.entry halive
  obtain ⟨hself, _, _⟩ := pass_self hpass hc.nodup
  have sp := hself _ hmem
  have hdue : isDue s ⟨e0.id, dueTime e0 s.events, p⟩ = decide (dueTime e0 s.events ≤ s0.stamp + n * s0.P) := by
    rw [isDue_rat, hc.stamp]
  refine ⟨?_, ?_⟩
  · intro h
    obtain ⟨ev, h1, h2, h3, h4, h5, h6, _⟩ := sp.due (by rw [hdue]; simpa using h)
    refine ⟨ev, h1, h2, h3, by rw [h4, hc.tick], h5, ?_⟩
    intro ht
    have := h6 ht
    simpa [rescheduled, rat_add] using this
  · intro h
    obtain ⟨h1, h2⟩ := sp.notDue (by rw [hdue]; simpa using h)
    exact ⟨h1, p, h2⟩

theorem chain_inv (E : Env Rat ω) (s0 : St Rat ω) (e0 : Entry Rat)
    (hnd : (ids s0.ready).Nodup) (he0 : e0 ∈ s0.ready) (h0 : evOf e0.id s0.events = []) :
    ∀ (n : Nat) (s : St Rat ω), stateAt E n s0 = some s → ChainInv s0 e0 n s
  | 0, s, h => by
    simp only [stateAt, Option.some.injEq] at h
    subst h
    refine ⟨hnd, ?_, by simp, rfl, ⟨[], by simp⟩, ?_⟩
    · have : ((0 : Nat) : Rat) = 0 := rfl
      rw [this, Rat.zero_mul, Rat.add_zero]
    intro _
    refine ⟨e0.period, ?_⟩
    simp only [dueTime, h0, sumPeriods, Rat.add_zero]
    exact he0
  | n+1, s2, h => by
    obtain ⟨s, hs, ht⟩ := stateAt_succ h
    have ih := chain_inv E s0 e0 hnd he0 h0 n s hs
    obtain ⟨s1, m, hpass, hs2⟩ := tick_next_forLoop ht
    obtain ⟨_, hnd1, spec⟩ := pass_self hpass ih.nodup
    obtain ⟨N, hN, _, _⟩ := spec.events
    obtain ⟨r, hr⟩ := ih.prefix_
    subst hs2
    refine ⟨hnd1, ?_, ?_, ?_, ⟨r ++ N, by show s1.events = _; rw [hN, hr]; simp⟩, ?_⟩
    · show s1.stamp + s1.P = _
      rw [spec.stamp, spec.P, ih.stamp, ih.P]
      have : ((n + 1 : Nat) : Rat) = (n : Rat) + 1 := by simp
      rw [this]; grind
    · show s1.tick + 1 = _
      rw [spec.tick, ih.tick]; omega
    · show s1.P = _
      rw [spec.P, ih.P]
    · intro halive2
      have halive2' : ∀ ev ∈ evOf e0.id s1.events, ev.result.terminal = false := halive2
      have halive : ∀ ev ∈ evOf e0.id s.events, ev.result.terminal = false := by
        intro ev hev
        apply halive2'
        rw [hN, evOf_append]; exact List.mem_append_left _ hev
      have pd := pass_due ih halive hpass
      show ∃ p, (⟨e0.id, dueTime e0 s1.events, p⟩ : Entry Rat) ∈ s1.ready
      by_cases hd : dueTime e0 s.events ≤ s0.stamp + n * s0.P
      · obtain ⟨ev, h1, _, _, _, _, h6⟩ := pd.1 hd
        have hev : ev ∈ evOf e0.id s1.events := by rw [h1]; simp
        refine ⟨ev.periodAfter, ?_⟩
        have hdt : dueTime e0 s1.events = dueTime e0 s.events + ev.periodAfter := by
          simp only [dueTime, h1, sumPeriods_append, sumPeriods]
          grind
        rw [hdt]; exact h6 (halive2' ev hev)
      · obtain ⟨h1, p, h2⟩ := pd.2 hd
        refine ⟨p, ?_⟩
        have hdt : dueTime e0 s1.events = dueTime e0 s.events := by simp only [dueTime, h1]
        rw [hdt]; exact h2

theorem evOf_length_le_one (i : Nat) : ∀ (N : List (Event Rat)), (N.map (·.id)).Nodup → (evOf i N).length ≤ 1
  | [], _ => by simp [evOf]
  | x :: xs, h => by
    simp only [List.map_cons, List.nodup_cons] at h
    by_cases hx : x.id = i
    · have : evOf i xs = [] := by
        apply evOf_other
        intro y hy hc
        apply h.1
        rw [hx, ← hc]; exact List.mem_map_of_mem hy
      have hc : evOf i (x :: xs) = x :: evOf i xs := by simp [evOf, hx]
      rw [hc, this]; simp
    · have := evOf_length_le_one i xs h.2
      have hc : evOf i (x :: xs) = evOf i xs := by simp [evOf, hx]
      rw [hc]; exact this

/-- a tasker is sent to at most once per pass, so at most `n` times before pass `n` -/
theorem chain_count (E : Env Rat ω) (s0 : St Rat ω) (i : Nat)
    (hnd : (ids s0.ready).Nodup) (h0 : evOf i s0.events = []) :
    ∀ (n : Nat) (s : St Rat ω), stateAt E n s0 = some s → (evOf i s.events).length ≤ n ∧ (ids s.ready).Nodup
  | 0, s, h => by
    simp only [stateAt, Option.some.injEq] at h
    subst h; simp [h0, hnd]
  | n+1, s2, h => by
    obtain ⟨s, hs, ht⟩ := stateAt_succ h
    obtain ⟨ih, ihnd⟩ := chain_count E s0 i hnd h0 n s hs
    obtain ⟨s1, m, hpass, hs2⟩ := tick_next_forLoop ht
    obtain ⟨_, hnd1, spec⟩ := pass_self hpass ihnd
    obtain ⟨N, hN, hNs, _⟩ := spec.events
    subst hs2
    refine ⟨?_, hnd1⟩
    show (evOf i s1.events).length ≤ n + 1
    rw [hN, evOf_append, List.length_append]
    have := evOf_length_le_one i N (hNs.nodup ihnd)
    omega

theorem sum_const (p : Rat) : ∀ (l : List (Event Rat)), (∀ ev ∈ l, ev.periodAfter = p) →
    sumPeriods l = l.length * p
  | [], _ => by
    have : ((0 : Nat) : Rat) = 0 := rfl
    simp [sumPeriods, this, Rat.zero_mul]
  | x :: xs, h => by
    have h1 := h x (by simp)
    have h2 := sum_const p xs (fun ev hev => h ev (List.mem_cons_of_mem _ hev))
    have : ((xs.length + 1 : Nat) : Rat) = (xs.length : Rat) + 1 := by simp
    simp only [sumPeriods, List.length_cons, h1, h2, this]
    grind

/-- with a constant period `p` the due time after `k` runs is `retime + k·p` -/
theorem dueTime_const (e0 : Entry Rat) (evs : List (Event Rat)) (p : Rat)
    (hp : ∀ ev ∈ evOf e0.id evs, ev.periodAfter = p) :
    dueTime e0 evs = e0.retime + (evOf e0.id evs).length * p := by
  rw [dueTime, sum_const p _ hp]

theorem evOf_prefix_eq {i : Nat} {a r b : List (Event Rat)} (h : b = a ++ r)
    (hl : (evOf i a).length = (evOf i b).length) : evOf i a = evOf i b := by
  subst h
  rw [evOf_append, List.length_append] at hl
  have : evOf i r = [] := by
    apply List.eq_nil_of_length_eq_zero; omega
  rw [evOf_append, this, List.append_nil]

/-- the events of an earlier start-of-pass state are a prefix of those of a later one -/
theorem stateAt_le (E : Env Rat ω) (s0 : St Rat ω) :
    ∀ (n : Nat) (s : St Rat ω), stateAt E n s0 = some s → ∀ m, m ≤ n →
      ∃ sm, stateAt E m s0 = some sm ∧ ∃ r, s.events = sm.events ++ r
  | 0, s, h, m, hm => by
    have : m = 0 := by omega
    subst this
    exact ⟨s, h, [], by simp⟩
  | n+1, s2, h, m, hm => by
    by_cases hmn : m = n + 1
    · subst hmn; exact ⟨s2, h, [], by simp⟩
    · obtain ⟨s, hs, ht⟩ := stateAt_succ h
      obtain ⟨sm, hsm, r, hr⟩ := stateAt_le E s0 n s hs m (by omega)
      obtain ⟨s1, mm, hpass, hs2⟩ := tick_next_forLoop ht
      obtain ⟨N, hN, _, _⟩ := ((forLoop_ok_proc hpass).spec [] (by simp)).events
      subst hs2
      exact ⟨sm, hsm, r ++ N, by show s1.events = _; rw [hN, hr]; simp⟩

end Ioflo.Sked
