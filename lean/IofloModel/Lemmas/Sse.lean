import IofloModel.Model.Sse
/-! Helper lemmas for C33: the line search under appended bytes, fuel irrelevance of `pump`,
the fuel-free unfolding `run_unfold`. -/
namespace Ioflo.Sse

/-! ### scan -/

theorem scan_length {raw l r : Bytes} {k : Bool} (h : scan raw = some (l, r, k)) :
    l.length + r.length < raw.length := by
  fun_induction scan raw generalizing l
  case case1 => simp at h
  case case6 => simp at h
  case case7 x ih =>
    simp at h; obtain ⟨rfl, rfl, rfl⟩ := h
    have := ih x; simp; omega
  all_goals (simp at h; obtain ⟨rfl, rfl, rfl⟩ := h; simp <;> omega)

theorem scan_cons_other {b : Nat} (h10 : ¬ b = 10) (h13 : ¬ b = 13) (rest : Bytes) :
    scan (b :: rest) = match scan rest with
      | none => none
      | some (l, r, k) => some (b :: l, r, k) := by
  rw [scan.eq_def]; simp only [h10, h13, if_false]
  cases scan rest <;> rfl

theorem scan_true_rest {raw l r : Bytes} (h : scan raw = some (l, r, true)) : r = [] := by
  fun_induction scan raw generalizing l
  case case7 x ih =>
    simp at h; obtain ⟨rfl, rfl, rfl⟩ := h
    exact ih x
  all_goals simp at h
  all_goals simp [h]

/-- an eol that is not a CR at the very end of the buffer is found unchanged when bytes are appended -/
theorem scan_append_false {raw l r : Bytes} (h : scan raw = some (l, r, false)) (b : Bytes) :
    scan (raw ++ b) = some (l, r ++ b, false) := by
  fun_induction scan raw generalizing l
  case case7 x ih =>
    simp at h; obtain ⟨rfl, rfl, rfl⟩ := h
    simp [scan, *, ih x]
  all_goals simp at h
  all_goals (obtain ⟨rfl, rfl⟩ := h; simp [scan, *])

/-- a CR as last byte: the line is the same, the CR swallows a LF that comes first in `b` -/
theorem scan_append_true {raw l r : Bytes} (h : scan raw = some (l, r, true)) (b : Bytes) :
    scan (raw ++ b) = match b with
      | [] => some (l, [], true)
      | c :: b' => if c = 10 then some (l, b', false) else some (l, c :: b', false) := by
  fun_induction scan raw generalizing l
  case case7 x ih =>
    simp at h; obtain ⟨rfl, rfl, rfl⟩ := h
    rw [List.cons_append, scan_cons_other ‹_› ‹_›, ih x]
    cases b with
    | nil => rfl
    | cons c b' => by_cases hc : c = 10 <;> simp [hc]
  case case3 =>
    simp at h; obtain ⟨rfl, rfl⟩ := h
    cases b with
    | nil => simp [scan]
    | cons c b' => by_cases hc : c = 10 <;> simp [scan, hc]
  all_goals simp at h

/-- no eol in `raw`: the search continues in the appended bytes -/
theorem scan_append_none {raw : Bytes} (h : scan raw = none) (b : Bytes) :
    scan (raw ++ b) = match scan b with
      | none => none
      | some (l, r, k) => some (raw ++ l, r, k) := by
  fun_induction scan raw
  case case1 => simp; cases scan b <;> rfl
  case case6 x ih =>
    rw [List.cons_append, scan_cons_other ‹_› ‹_›, ih x]
    cases scan b <;> simp
  all_goals simp at h

/-! ### norm -/

@[simp] theorem app_ev (s : St) (b : Bytes) : (s.app b).ev = s.ev := rfl
@[simp] theorem app_raw (s : St) (b : Bytes) : (s.app b).raw = s.raw ++ b := rfl
@[simp] theorem app_skip (s : St) (b : Bytes) : (s.app b).skip = s.skip := rfl

@[simp] theorem norm_ev (s : St) : (norm s).ev = s.ev := by
  unfold norm; split <;> rfl

theorem norm_length (s : St) : (norm s).raw.length ≤ s.raw.length := by
  unfold norm; split <;> simp_all

/-- after the prologue the skip flag can only survive on an empty buffer -/
theorem norm_skip (s : St) (h : (norm s).skip = true) : (norm s).raw = [] := by
  unfold norm at h ⊢; split at h <;> simp_all

theorem norm_of_skip_false {s : St} (h : s.skip = false) : norm s = s := by
  unfold norm; split <;> simp_all

theorem norm_app_norm (s : St) (b : Bytes) : norm ((norm s).app b) = norm (s.app b) := by
  obtain ⟨raw, skip, ev⟩ := s
  cases skip with
  | false => simp [norm, St.app]
  | true =>
    cases raw with
    | nil => simp [norm, St.app]
    | cons c r =>
      by_cases hc : c = 10
      · subst hc; simp [norm, St.app]
      · simp [norm, St.app]

/-! ### pump: one loop iteration with the rest of the loop as a continuation -/

/-- one iteration of the loop in `pump`, `κ` = the remaining iterations -/
def body (max : Nat) (κ : St → St) (s : St) : St :=
  if ¬ s.ev.running then s else
  let s := norm s
  match scan s.raw with
  | none =>
    if s.raw.length > max then { s with ev := s.ev.kill .lineTooLong } else s
  | some (line, rest, k) =>
    if line.length > max then { s with ev := s.ev.kill .lineTooLong }
    else κ { raw := rest, skip := k, ev := lineStep s.ev line }

theorem pump_succ (max n : Nat) (s : St) : pump max (n + 1) s = body max (pump max n) s := rfl

theorem body_congr {max : Nat} {κ κ' : St → St} {s : St}
    (h : ∀ s' : St, s'.raw.length < s.raw.length → κ s' = κ' s') :
    body max κ s = body max κ' s := by
  unfold body
  split
  · rfl
  · simp only []
    split
    · rfl
    · rename_i line rest k hs
      split
      · rfl
      · apply h
        have h1 := scan_length hs
        have h2 := norm_length s
        simp only []
        omega

theorem pump_fuel (max : Nat) : ∀ (n m : Nat) (s : St), s.raw.length < n → s.raw.length < m →
    pump max n s = pump max m s := by
  intro n
  induction n with
  | zero => intro m s h; omega
  | succ n ih =>
    intro m s hn hm
    cases m with
    | zero => omega
    | succ m =>
      rw [pump_succ, pump_succ]
      apply body_congr
      intro s' hs'
      apply ih <;> omega

/-- one `parse()` call on the buffer as it stands -/
def run (max : Nat) (s : St) : St := pump max (s.raw.length + 1) s

theorem feed_eq_run (max : Nat) (s : St) (b : Bytes) : feed max s b = run max (s.app b) := by
  simp [feed, run, St.app]

/-- fuel-free recursive equation of the parse loop -/
theorem run_unfold (max : Nat) (s : St) : run max s = body max (run max) s := by
  unfold run
  rw [pump_succ]
  apply body_congr
  intro s' hs'
  apply pump_fuel <;> omega

theorem run_of_not_running {max : Nat} {s : St} (h : s.ev.running = false) : run max s = s := by
  rw [run_unfold]; simp [body, h]

/-! ### states that differ only in what a dead parser no longer looks at -/

/-- same events / ids / retry / status, and identical altogether while the parser is alive -/
def St.sim (s t : St) : Prop := s.ev = t.ev ∧ (s.ev.running = true → s = t)

theorem St.sim.refl (s : St) : s.sim s := ⟨rfl, fun _ => rfl⟩
theorem St.sim.of_eq {s t : St} (h : s = t) : s.sim t := h ▸ St.sim.refl s
theorem St.sim.symm {s t : St} (h : s.sim t) : t.sim s :=
  ⟨h.1.symm, fun r => (h.2 (h.1 ▸ r)).symm⟩
theorem St.sim.trans {s t u : St} (h1 : s.sim t) (h2 : t.sim u) : s.sim u :=
  ⟨h1.1.trans h2.1, fun r => (h1.2 r).trans (h2.2 (h1.1 ▸ r))⟩

theorem norm_norm (s : St) : norm (norm s) = norm s := by
  obtain ⟨raw, skip, ev⟩ := s
  cases skip with
  | false => simp [norm]
  | true =>
    cases raw with
    | nil => simp [norm]
    | cons c r => by_cases hc : c = 10 <;> simp [norm, hc]

theorem run_norm {max : Nat} {s : St} (h : s.ev.running = true) : run max (norm s) = run max s := by
  rw [run_unfold max (norm s), run_unfold max s]
  simp [body, h, norm_norm]

theorem run_sim_norm (max : Nat) (s : St) : (run max s).sim (run max (norm s)) := by
  cases h : s.ev.running with
  | true => rw [run_norm h]; exact St.sim.refl _
  | false =>
    rw [run_of_not_running h, run_of_not_running (by simpa using h)]
    exact ⟨by simp, fun r => by simp [h] at r⟩

theorem run_norm_app {max : Nat} {s : St} (h : s.ev.running = true) (b : Bytes) :
    run max ((norm s).app b) = run max (s.app b) := by
  rw [run_unfold max ((norm s).app b), run_unfold max (s.app b)]
  simp [body, h, norm_app_norm]

/-! ### the central lemma: parsing, receiving `b`, parsing again = receiving `b` first -/

theorem kill_not_running (ev : Ev) (e : Err) : (ev.kill e).running = false := by
  simp [Ev.kill, Ev.running]

/-- by induction on the buffer length: run the loop, append `b`, run again ≈ append `b`, run -/
theorem run_app_run (max : Nat) (b : Bytes) : ∀ (n : Nat) (s : St), s.raw.length < n →
    (run max ((run max s).app b)).sim (run max (s.app b)) := by
  intro n
  induction n with
  | zero => intro s h; omega
  | succ n ih =>
    intro s hlen
    cases hr : s.ev.running with
    | false => rw [run_of_not_running hr]; exact St.sim.refl _
    | true =>
      have hA := run_norm_app (max := max) hr b
      have hlen' : (norm s).raw.length < n + 1 := Nat.lt_of_le_of_lt (norm_length s) hlen
      have hrn : (norm s).ev.running = true := by simpa using hr
      have hn := norm_norm s
      have hsk := norm_skip s
      rw [← hA, ← run_norm hr]
      -- from here on everything is about `t = norm s`
      generalize norm s = t at hlen' hrn hn hsk ⊢
      rw [run_unfold max t]
      simp only [body, hrn, hn]
      cases hs : scan t.raw with
      | none =>
        simp only [not_true_eq_false, if_false]
        by_cases hl : t.raw.length > max
        · simp only [hl, if_true]
          have hne : t.skip = false := by
            cases hk : t.skip with
            | false => rfl
            | true => have := hsk hk; simp [this] at hl
          rw [run_of_not_running (by simp [kill_not_running]), run_unfold max (t.app b)]
          simp only [body, app_ev, hrn, norm_of_skip_false (s := t.app b) hne, app_raw,
            scan_append_none hs]
          cases hb : scan b with
          | none =>
            have : max < t.raw.length + b.length := by omega
            simp only [List.length_append, gt_iff_lt, this, if_true]
            exact St.sim.of_eq rfl
          | some q =>
            obtain ⟨l, r, k⟩ := q
            have : max < t.raw.length + l.length := by omega
            simp only [List.length_append, gt_iff_lt, this, if_true]
            exact St.sim.of_eq rfl
        · simp only [hl, if_false]; exact St.sim.refl _
      | some p =>
        obtain ⟨line, rest, k⟩ := p
        simp only [not_true_eq_false, if_false]
        have hne : t.skip = false := by
          cases hk : t.skip with
          | false => rfl
          | true => have := hsk hk; simp [this, scan] at hs
        -- the right-hand side: one iteration on `t.raw ++ b`
        have hR : run max (t.app b) = body max (run max) (t.app b) := run_unfold max _
        simp only [body, app_ev, hrn, norm_of_skip_false (s := t.app b) hne, app_raw] at hR
        by_cases hl : line.length > max
        · simp only [hl, if_true]
          rw [run_of_not_running (by simp [kill_not_running]), hR]
          cases k with
          | false =>
            simp only [scan_append_false hs, hl, if_true, not_true_eq_false, if_false]
            exact St.sim.of_eq rfl
          | true =>
            rw [scan_append_true hs]
            cases b with
            | nil => simp only [hl, if_true, not_true_eq_false, if_false]; exact St.sim.of_eq rfl
            | cons c b' =>
              by_cases hc : c = 10 <;>
                simp only [hc, hl, if_true, not_true_eq_false, if_false] <;> exact St.sim.of_eq rfl
        · simp only [hl, if_false]
          have hrest : rest.length < n := by have := scan_length hs; omega
          refine St.sim.trans (ih { raw := rest, skip := k, ev := lineStep t.ev line } hrest) ?_
          rw [hR]
          cases k with
          | false =>
            simp only [scan_append_false hs, hl, if_false, not_true_eq_false]
            exact St.sim.of_eq rfl
          | true =>
            have hre := scan_true_rest hs
            subst hre
            rw [scan_append_true hs]
            refine St.sim.trans (run_sim_norm max _) ?_
            cases b with
            | nil => simp only [hl, if_false, not_true_eq_false]; exact St.sim.of_eq rfl
            | cons c b' =>
              by_cases hc : c = 10
              · subst hc
                simp only [hl, if_true, if_false, not_true_eq_false]
                exact St.sim.of_eq rfl
              · simp only [hc, hl, if_false, not_true_eq_false]
                exact St.sim.of_eq (by simp [norm, St.app])

theorem app_app (s : St) (a b : Bytes) : (s.app a).app b = s.app (a ++ b) := by
  simp [St.app]

theorem feed_feed_sim (max : Nat) (s : St) (a b : Bytes) :
    (feed max (feed max s a) b).sim (feed max s (a ++ b)) := by
  rw [feed_eq_run, feed_eq_run, feed_eq_run, ← app_app]
  exact run_app_run max b _ _ (Nat.lt_succ_self _)

theorem feed_sim {max : Nat} {s t : St} (h : s.sim t) (b : Bytes) :
    (feed max s b).sim (feed max t b) := by
  cases hr : s.ev.running with
  | true => rw [h.2 hr]; exact St.sim.refl _
  | false =>
    have hr' : t.ev.running = false := h.1 ▸ hr
    rw [feed_eq_run, feed_eq_run, run_of_not_running (by simpa using hr),
      run_of_not_running (by simpa using hr')]
    exact ⟨by simpa using h.1, fun r => by simp [hr] at r⟩

theorem feedAll_sim {max : Nat} {s t : St} (h : s.sim t) (ps : List Bytes) :
    (feedAll max s ps).sim (feedAll max t ps) := by
  induction ps generalizing s t with
  | nil => exact h
  | cons p ps ih => exact ih (feed_sim h p)

theorem feedAll_feed_sim (max : Nat) (s : St) (a : Bytes) (ps : List Bytes) :
    (feedAll max (feed max s a) ps).sim (feed max s (a ++ ps.flatten)) := by
  induction ps generalizing a with
  | nil => simp [feedAll]; exact St.sim.refl _
  | cons p ps ih =>
    have h1 : (feedAll max (feed max (feed max s a) p) ps).sim (feedAll max (feed max s (a ++ p)) ps) :=
      feedAll_sim (feed_feed_sim max s a p) ps
    have h2 := ih (a ++ p)
    simp only [List.flatten_cons, ← List.append_assoc]
    exact St.sim.trans h1 h2

theorem feed_init_nil (max : Nat) : feed max init [] = init := by
  rw [feed_eq_run, run_unfold]
  simp [body, init, St.app, norm, scan, Ev.running]

/-! ### line-end independence -/

inductive Eol | cr | lf | crlf
  deriving DecidableEq, Repr

def Eol.bytes : Eol → Bytes
  | .cr => [13]
  | .lf => [10]
  | .crlf => [13, 10]

/-- the byte stream of a list of lines, each with its own line end -/
def render : List (Bytes × Eol) → Bytes
  | [] => []
  | (l, e) :: r => l ++ (e.bytes ++ render r)

/-- a line: no CR, no LF inside -/
def clean (l : Bytes) : Prop := ∀ b ∈ l, b ≠ 10 ∧ b ≠ 13

instance (l : Bytes) : Decidable (clean l) := by unfold clean; infer_instance

/-- the choice of line ends can be read back: no CR-terminated line is directly followed by an
empty LF-terminated line (the bytes CR LF are one line end by the grammar).
`p` = the previous line end was a CR. -/
def unamb : Bool → List (Bytes × Eol) → Prop
  | _, [] => True
  | p, (l, e) :: r => ¬ (p = true ∧ l = [] ∧ e = .lf) ∧ unamb (decide (e = .cr)) r

/-- the per-line step as the loop applies it: nothing after the generator stopped -/
def evStep (ev : Ev) (l : Bytes) : Ev := if ev.running then lineStep ev l else ev

def evLines (ev : Ev) (ls : List Bytes) : Ev := ls.foldl evStep ev

theorem evLines_not_running {ev : Ev} (h : ev.running = false) (ls : List Bytes) :
    evLines ev ls = ev := by
  induction ls with
  | nil => rfl
  | cons l ls ih => simp only [evLines, List.foldl, evStep, h] at ih ⊢; exact ih

theorem unamb_false {p : Bool} {ls : List (Bytes × Eol)} (h : unamb p ls) : unamb false ls := by
  cases ls with
  | nil => trivial
  | cons x r => obtain ⟨l, e⟩ := x; exact ⟨by simp, h.2⟩

theorem scan_clean {l : Bytes} (h : clean l) (x : Bytes) :
    scan (l ++ x) = match scan x with
      | none => none
      | some (l', r, k) => some (l ++ l', r, k) := by
  induction l with
  | nil => simp; cases scan x <;> rfl
  | cons c l ih =>
    have hc := h c (by simp)
    have hl : clean l := fun b hb => h b (by simp [hb])
    rw [List.cons_append, scan_cons_other hc.1 hc.2, ih hl]
    cases scan x <;> simp

/-- first byte of a rendered stream whose first line is not an empty LF-terminated one -/
theorem render_head {l : Bytes} {e : Eol} {r : List (Bytes × Eol)} (hl : clean l)
    (h : ¬ (l = [] ∧ e = .lf)) : ∃ c R, render ((l, e) :: r) = c :: R ∧ c ≠ 10 := by
  cases l with
  | cons c l' => exact ⟨c, _, rfl, (hl c (by simp)).1⟩
  | nil =>
    cases e with
    | lf => simp at h
    | cr => exact ⟨13, _, rfl, by decide⟩
    | crlf => exact ⟨13, _, rfl, by decide⟩

theorem norm_head_ne {c : Nat} {R : Bytes} (hc : c ≠ 10) (skip : Bool) (ev : Ev) :
    norm { raw := c :: R, skip := skip, ev := ev } = { raw := c :: R, skip := false, ev := ev } := by
  cases skip <;> simp [norm]

/-- what the line search finds at the front of a rendered stream -/
theorem scan_render {l : Bytes} {e : Eol} {r : List (Bytes × Eol)} (hl : clean l)
    (hr : ∀ x ∈ r, clean x.1) (hu : unamb (decide (e = .cr)) r) :
    ∃ k, scan (render ((l, e) :: r)) = some (l, render r, k) ∧ (k = true → r = []) := by
  simp only [render]
  rw [scan_clean hl]
  cases e with
  | lf => exact ⟨false, by simp [Eol.bytes, scan], by simp⟩
  | crlf => exact ⟨false, by simp [Eol.bytes, scan], by simp⟩
  | cr =>
    cases r with
    | nil => exact ⟨true, by simp [Eol.bytes, scan, render], by simp⟩
    | cons x r' =>
      obtain ⟨l2, e2⟩ := x
      have h2 : ¬ (l2 = [] ∧ e2 = .lf) := by
        have := hu.1; simpa using this
      obtain ⟨c, R, hR, hc⟩ := render_head (r := r') (hr (l2, e2) (by simp)) h2
      refine ⟨false, ?_, by simp⟩
      rw [hR]
      simp [Eol.bytes, scan, hc]

/-- parsing a rendered stream from any state whose skip flag is compatible with it: the lines are
handed to the per-line step one by one, whatever the line ends -/
theorem run_render (max : Nat) : ∀ (ls : List (Bytes × Eol)) (skip : Bool) (ev : Ev),
    (∀ x ∈ ls, clean x.1 ∧ x.1.length ≤ max) → unamb skip ls →
    (run max { raw := render ls, skip := skip, ev := ev }).ev = evLines ev (ls.map (·.1)) ∧
    ((run max { raw := render ls, skip := skip, ev := ev }).ev.running = true →
      (run max { raw := render ls, skip := skip, ev := ev }).raw = []) := by
  intro ls
  induction ls with
  | nil =>
    intro skip ev _ _
    rw [run_unfold]
    cases hr : ev.running <;> cases skip <;> simp [body, render, hr, norm, scan, evLines]
  | cons x r ih =>
    intro skip ev hcl hu
    obtain ⟨l, e⟩ := x
    cases hr : ev.running with
    | false =>
      rw [run_of_not_running (by simpa using hr), evLines_not_running hr]
      exact ⟨rfl, fun h => by simp [hr] at h⟩
    | true =>
      have hl := hcl (l, e) (by simp)
      have hrc : ∀ x ∈ r, clean x.1 ∧ x.1.length ≤ max := fun x hx => hcl x (by simp [hx])
      have hne : ¬ (l = [] ∧ e = .lf) ∨ skip = false := by
        cases skip with
        | false => exact Or.inr rfl
        | true => have := hu.1; simp at this; exact Or.inl (by simpa using this)
      obtain ⟨k, hscan, hk⟩ := scan_render (r := r) hl.1 (fun x hx => (hrc x hx).1) hu.2
      -- the prologue does not eat anything
      have hnorm : norm { raw := render ((l, e) :: r), skip := skip, ev := ev }
          = { raw := render ((l, e) :: r), skip := false, ev := ev } := by
        cases hne with
        | inl h =>
          obtain ⟨c, R, hR, hc⟩ := render_head (r := r) hl.1 h
          rw [hR]; exact norm_head_ne hc skip ev
        | inr h => subst h; exact norm_of_skip_false rfl
      rw [run_unfold]
      simp only [body, hr, hnorm, hscan]
      have hlen : ¬ l.length > max := by have := hl.2; simp only [] at this; omega
      simp only [not_true_eq_false, if_false, hlen]
      have hu' : unamb k r := by
        cases k with
        | false => exact unamb_false hu.2
        | true => rw [hk rfl]; trivial
      have := ih k (lineStep ev l) hrc hu'
      simpa [evLines, evStep, hr] using this

/-! ### content of a block of field lines -/

/-- a field line of an event block, abstractly.  `sp` = the optional space after the colon is
written (it must be when the value itself starts with a space) -/
inductive Field
  | data (sp : Bool) (v : Bytes)
  | dataBare                          -- the line `data` without colon: an empty data line
  | event (sp : Bool) (v : Bytes)
  | id (sp : Bool) (v : Bytes)
  | retry (sp : Bool) (v : Bytes) (i : Int)
  | comment (c : Bytes)

def withSp (sp : Bool) (v : Bytes) : Bytes := if sp then 32 :: v else v

def Field.line : Field → Bytes
  | .data sp v => fData ++ 58 :: withSp sp v
  | .dataBare => fData
  | .event sp v => fEvent ++ 58 :: withSp sp v
  | .id sp v => fId ++ 58 :: withSp sp v
  | .retry sp v _ => fRetry ++ 58 :: withSp sp v
  | .comment c => 58 :: c

def spOk (sp : Bool) (v : Bytes) : Prop := sp = false → v.head? ≠ some 32

/-- values are UTF-8 text; a retry value is one that `int()` accepts, with result `i` -/
def Field.wf : Field → Prop
  | .data sp v => validUtf8 v = true ∧ spOk sp v
  | .dataBare => True
  | .event sp v => validUtf8 v = true ∧ spOk sp v
  | .id sp v => validUtf8 v = true ∧ spOk sp v
  | .retry sp v i => validUtf8 v = true ∧ spOk sp v ∧ pyInt v = .ok i ∧ floatOk i = true
  | .comment _ => True

/-- what the SSE field rules say a field does to the event under construction -/
def Field.apply (ev : Ev) : Field → Ev
  | .data _ v => { ev with parts := ev.parts ++ [v] }
  | .dataBare => { ev with parts := ev.parts ++ [[]] }
  | .event _ v => { ev with ename := v }
  | .id _ v => { ev with leid := some v, eid := some v }
  | .retry _ _ i => { ev with retry := some i }
  | .comment _ => ev

theorem strip_withSp {sp : Bool} {v : Bytes} (h : spOk sp v) : stripSp (withSp sp v) = v := by
  cases sp with
  | true => rfl
  | false =>
    have := h rfl
    cases v with
    | nil => rfl
    | cons c w =>
      by_cases hc : c = 32
      · subst hc; simp at this
      · simp only [withSp]
        unfold stripSp
        split
        · rename_i w' heq; simp at heq; exact absurd heq.1 hc
        · rfl

theorem partition_name {name : Bytes} (hn : ∀ b ∈ name, b ≠ 58) (v : Bytes) :
    partition 58 (name ++ 58 :: v) = (name, true, v) := by
  induction name with
  | nil => simp [partition]
  | cons c name ih =>
    have hc := hn c (by simp)
    have := ih (fun b hb => hn b (by simp [hb]))
    simp [partition, hc, this]

/-- a line `name:value` with a non-empty UTF-8 name and a UTF-8 value -/
theorem lineStep_named {ev : Ev} (hc : ev.closed = false) {name v : Bytes}
    (hn : ∀ b ∈ name, b ≠ 58) (hne : name ≠ []) (hvn : validUtf8 name = true)
    (hv : validUtf8 (stripSp v) = true) :
    lineStep ev (name ++ 58 :: v) =
      if name = fEvent then { ev with ename := stripSp v }
      else if name = fData then { ev with parts := ev.parts ++ [stripSp v] }
      else if name = fId then { ev with leid := some (stripSp v), eid := some (stripSp v) }
      else if name = fRetry then setRetry ev (pyInt (stripSp v))
      else ev := by
  unfold lineStep
  simp only [partition_name hn, hc, hne, hvn, hv]
  simp

theorem lineStep_field {ev : Ev} (hc : ev.closed = false) (f : Field) (hf : f.wf) :
    lineStep ev f.line = f.apply ev := by
  cases f with
  | comment c => simp [lineStep, Field.line, hc, partition, Field.apply]
  | dataBare =>
    simp [lineStep, Field.line, hc, fData, partition, Field.apply, validUtf8, u8run, u8step, fEvent,
      stripSp]
  | data sp v =>
    have hs := strip_withSp hf.2
    simp only [Field.line]
    rw [lineStep_named hc (by decide) (by decide) (by decide) (by rw [hs]; exact hf.1), hs]
    simp [fData, fEvent, Field.apply]
  | event sp v =>
    have hs := strip_withSp hf.2
    simp only [Field.line]
    rw [lineStep_named hc (by decide) (by decide) (by decide) (by rw [hs]; exact hf.1), hs]
    simp [Field.apply]
  | id sp v =>
    have hs := strip_withSp hf.2
    simp only [Field.line]
    rw [lineStep_named hc (by decide) (by decide) (by decide) (by rw [hs]; exact hf.1), hs]
    simp [fData, fEvent, fId, Field.apply]
  | retry sp v i =>
    have hs := strip_withSp hf.2.1
    simp only [Field.line]
    rw [lineStep_named hc (by decide) (by decide) (by decide) (by rw [hs]; exact hf.1), hs, hf.2.2.1]
    simp [fData, fEvent, fId, fRetry, Field.apply, setRetry, hf.2.2.2]

@[simp] theorem apply_status (ev : Ev) (f : Field) : (f.apply ev).status = ev.status := by
  cases f <;> rfl
@[simp] theorem apply_closed (ev : Ev) (f : Field) : (f.apply ev).closed = ev.closed := by
  cases f <;> rfl

/-- the field lines of a block are interpreted one by one by the rules `Field.apply` -/
theorem evLines_fields {ev : Ev} (hr : ev.running = true) (hc : ev.closed = false)
    (fs : List Field) (hwf : ∀ f ∈ fs, f.wf) :
    evLines ev (fs.map Field.line) = fs.foldl Field.apply ev := by
  induction fs generalizing ev with
  | nil => rfl
  | cons f fs ih =>
    have h1 : evStep ev f.line = f.apply ev := by
      simp only [evStep, hr, if_true]; exact lineStep_field hc f (hwf f (by simp))
    simp only [List.map_cons, evLines, List.foldl_cons, h1]
    exact ih (by simpa [Ev.running] using hr) (by simpa using hc) (fun g hg => hwf g (by simp [hg]))

/-- the data lines of a block, in order -/
def blockData : List Field → List Bytes
  | [] => []
  | .data _ v :: fs => v :: blockData fs
  | .dataBare :: fs => [] :: blockData fs
  | _ :: fs => blockData fs

/-- the last `event` field of a block, else `d` -/
def blockName (d : Bytes) : List Field → Bytes
  | [] => d
  | .event _ v :: fs => blockName v fs
  | _ :: fs => blockName d fs

/-- the last `id` field of a block, else `d` -/
def blockId (d : Option Bytes) : List Field → Option Bytes
  | [] => d
  | .id _ v :: fs => blockId (some v) fs
  | _ :: fs => blockId d fs

/-- the last accepted `retry` field of a block, else `d` -/
def blockRetry (d : Option Int) : List Field → Option Int
  | [] => d
  | .retry _ _ i :: fs => blockRetry (some i) fs
  | _ :: fs => blockRetry d fs

theorem blockId_append (d : Option Bytes) (a b : List Field) :
    blockId d (a ++ b) = blockId (blockId d a) b := by
  induction a generalizing d with
  | nil => rfl
  | cons f a ih => cases f <;> simp [blockId, ih]

theorem blockRetry_append (d : Option Int) (a b : List Field) :
    blockRetry d (a ++ b) = blockRetry (blockRetry d a) b := by
  induction a generalizing d with
  | nil => rfl
  | cons f a ih => cases f <;> simp [blockRetry, ih]

theorem foldl_apply (ev : Ev) (fs : List Field) :
    fs.foldl Field.apply ev =
      { ev with parts := ev.parts ++ blockData fs, ename := blockName ev.ename fs,
                eid := blockId ev.eid fs, leid := blockId ev.leid fs,
                retry := blockRetry ev.retry fs } := by
  induction fs generalizing ev with
  | nil => simp [blockData, blockName, blockId, blockRetry]
  | cons f fs ih =>
    rw [List.foldl_cons, ih]
    cases f <;> simp [Field.apply, blockData, blockName, blockId, blockRetry]

end Ioflo.Sse

namespace Ioflo.Sse

/-! ### `scan` is the `find`-based search of the code -/

def shift (o : Option (Nat × Nat)) : Option (Nat × Nat) := o.map (fun p => (p.1 + 1, p.2))

theorem better_shift (cur : Option (Nat × Nat)) (i : Option Nat) (tag : Nat) :
    better (shift cur) (i.map (· + 1)) tag = shift (better cur i tag) := by
  cases i with
  | none => rfl
  | some i =>
    cases cur with
    | none => rfl
    | some p =>
      obtain ⟨j, t⟩ := p
      simp only [better, shift, Option.map]
      by_cases h : i < j
      · have : i + 1 < j + 1 := by omega
        simp [h, this]
      · have : ¬ (i + 1 < j + 1) := by omega
        simp [h, this]

theorem better_shift_none (i : Option Nat) (tag : Nat) :
    better none (i.map (· + 1)) tag = shift (better none i tag) := by
  cases i <;> rfl

theorem better_shift_zero (c : Option (Nat × Nat)) (tag : Nat) :
    better (shift c) (some 0) tag = some (0, tag) := by
  cases c with
  | none => rfl
  | some p => obtain ⟨j, t⟩ := p; simp [better, shift]

theorem better_keep_zero (t : Nat) (i : Option Nat) (tag : Nat) :
    better (some (0, t)) i tag = some (0, t) := by
  cases i <;> simp [better]

theorem findCRLF_cons_ne {a : Nat} (h13 : a ≠ 13) (r : Bytes) :
    findCRLF (a :: r) = (findCRLF r).map (· + 1) := by
  cases r with
  | nil => simp [findCRLF]
  | cons b r' => simp [findCRLF, h13]

theorem findByte_cons_ne {c a : Nat} (h : a ≠ c) (r : Bytes) :
    findByte c (a :: r) = (findByte c r).map (· + 1) := by
  simp [findByte, h]

theorem earliestFind_other {a : Nat} (h10 : a ≠ 10) (h13 : a ≠ 13) (r : Bytes) :
    earliestFind (a :: r) = shift (earliestFind r) := by
  unfold earliestFind
  rw [findCRLF_cons_ne h13, findByte_cons_ne h10, findByte_cons_ne h13,
    better_shift_none, better_shift, better_shift]

theorem scanFind_other {a : Nat} (h10 : a ≠ 10) (h13 : a ≠ 13) (r : Bytes) :
    scanFind (a :: r) = match scanFind r with
      | none => none
      | some (l, r', k) => some (a :: l, r', k) := by
  unfold scanFind
  rw [earliestFind_other h10 h13]
  cases earliestFind r with
  | none => rfl
  | some p =>
    obtain ⟨i, t⟩ := p
    have : i + 1 + eolLen t = (i + eolLen t) + 1 := by omega
    simp [shift, this]

theorem scanFind_eq_scan (raw : Bytes) : scanFind raw = scan raw := by
  induction raw with
  | nil => rfl
  | cons a r ih =>
    by_cases h10 : a = 10
    · subst h10
      have e : earliestFind (10 :: r) = some (0, 1) := by
        unfold earliestFind
        rw [findCRLF_cons_ne (by decide), findByte_cons_ne (c := 13) (by decide), better_shift_none]
        have : findByte 10 (10 :: r) = some 0 := by simp [findByte]
        rw [this, better_shift_zero, better_keep_zero]
      simp [scanFind, e, scan, eolLen]
    · by_cases h13 : a = 13
      · subst h13
        cases r with
        | nil => simp [scanFind, earliestFind, findCRLF, findByte, better, scan, eolLen]
        | cons b r' =>
          by_cases hb : b = 10
          · subst hb
            have e : earliestFind (13 :: 10 :: r') = some (0, 0) := by
              unfold earliestFind
              have : findCRLF (13 :: 10 :: r') = some 0 := by simp [findCRLF]
              rw [this]
              show better (better (some (0, 0)) _ 1) _ 2 = _
              rw [better_keep_zero, better_keep_zero]
            simp [scanFind, e, scan, eolLen]
          · have e : earliestFind (13 :: b :: r') = some (0, 2) := by
              unfold earliestFind
              have hc : findCRLF (13 :: b :: r') = (findCRLF (b :: r')).map (· + 1) := by simp [findCRLF, hb]
              have h13' : findByte 13 (13 :: b :: r') = some 0 := by simp [findByte]
              rw [hc, findByte_cons_ne (c := 10) (by decide), h13', better_shift_none, better_shift,
                better_shift_zero]
            simp [scanFind, e, scan, eolLen, hb]
      · rw [scanFind_other h10 h13, ih, scan_cons_other h10 h13]

end Ioflo.Sse
