import IofloModel.Model.Store
/-!
Helper lemmas for `Model/Store.lean` (property C18): strings (`strip`, `split`, `joinL`),
the ordered dict (`get?`, `put`), and the loops of `add`, `addNode`, `change` seen through `find`.
-/
namespace Ioflo.Store

/-! ### strings -/

/-- `n` dots -/
def dots (n : Nat) : Str := List.replicate n '.'

theorem lstrip_dots (n : Nat) (s : Str) : lstrip (dots n ++ s) = lstrip s := by
  induction n with
  | zero => rfl
  | succ n ih => simpa [dots, List.replicate_succ, lstrip] using ih

/-- what `lstrip` removes is a run of dots -/
theorem lstrip_eq (s : Str) : ∃ n, s = dots n ++ lstrip s := by
  induction s with
  | nil => exact ⟨0, rfl⟩
  | cons c cs ih =>
    by_cases h : c = '.'
    · obtain ⟨n, hn⟩ := ih
      refine ⟨n + 1, ?_⟩
      simp only [lstrip, h, if_true, dots, List.replicate_succ, List.cons_append]
      exact congrArg _ hn
    · exact ⟨0, by simp [lstrip, h, dots]⟩

/-- the result of `lstrip` does not start with a dot -/
theorem lstrip_head (s : Str) : (lstrip s).head? ≠ some '.' := by
  induction s with
  | nil => simp [lstrip]
  | cons c cs ih =>
    by_cases h : c = '.'
    · simpa [lstrip, h] using ih
    · simp [lstrip, h]

theorem lstrip_of_head {s : Str} (h : s.head? ≠ some '.') : lstrip s = s := by
  cases s with
  | nil => rfl
  | cons c cs =>
    have : c ≠ '.' := by simpa using h
    simp [lstrip, this]

theorem lstrip_append_dots (s : Str) (n : Nat) :
    lstrip (s ++ dots n) = if lstrip s = [] then [] else lstrip s ++ dots n := by
  induction s with
  | nil =>
    have := lstrip_dots n []
    simp only [List.append_nil] at this
    simp [lstrip, this]
  | cons c cs ih =>
    by_cases h : c = '.'
    · simpa [lstrip, h] using ih
    · simp [lstrip, h]

theorem dots_reverse (n : Nat) : (dots n).reverse = dots n := by simp [dots]

/-- `strip` ignores leading and trailing dots -/
theorem strip_dots (a b : Nat) (s : Str) : strip (dots a ++ s ++ dots b) = strip s := by
  unfold strip
  rw [List.append_assoc, lstrip_dots, lstrip_append_dots]
  split
  · next h => simp [h]
  · rw [List.reverse_append, dots_reverse, lstrip_dots]

theorem strip_head (s : Str) : (strip s).head? ≠ some '.' := by
  unfold strip
  -- u = lstrip s, v = lstrip u.reverse, u.reverse = dots n ++ v
  obtain ⟨n, hn⟩ := lstrip_eq (lstrip s).reverse
  generalize hv : lstrip (lstrip s).reverse = v at hn
  have hu : lstrip s = v.reverse ++ dots n := by
    have := congrArg List.reverse hn
    simpa [dots_reverse] using this
  cases hvr : v.reverse with
  | nil => simp
  | cons c cs =>
    have h1 := lstrip_head s
    rw [hu, hvr] at h1
    simpa using h1

theorem strip_last (s : Str) : (strip s).reverse.head? ≠ some '.' := by
  unfold strip
  rw [List.reverse_reverse]
  exact lstrip_head _

theorem strip_strip (s : Str) : strip (strip s) = strip s := by
  have h1 := strip_head s
  have h2 := strip_last s
  generalize strip s = t at h1 h2
  unfold strip
  rw [lstrip_of_head h1, lstrip_of_head h2, List.reverse_reverse]

theorem levels_dots (a b : Nat) (s : Str) : levels (dots a ++ s ++ dots b) = levels s := by
  unfold levels; rw [strip_dots]

theorem levels_strip (s : Str) : levels (strip s) = levels s := by
  unfold levels; rw [strip_strip]

/-- `'.'.join(s.split('.')) == s` -/
theorem joinL_split (s : Str) : joinL ((split s).1 :: (split s).2) = s := by
  induction s with
  | nil => rfl
  | cons c cs ih =>
    by_cases h : c = '.'
    · simp only [split, h, if_true, joinL, List.nil_append]
      exact congrArg _ ih
    · simp only [split, h, if_false]
      cases ht : (split cs).2 with
      | nil => rw [ht] at ih; simp only [joinL] at ih ⊢; rw [ih]
      | cons k ks =>
        rw [ht] at ih
        simp only [joinL, List.cons_append] at ih ⊢
        rw [ih]

theorem joinL_pathOf (name : Str) : joinL (pathOf name) = strip name := joinL_split _

/-! ### the ordered dict -/

theorem get?_put (kids : Kids) (k j : Str) (v : Tree) :
    get? (put kids k v) j = if k = j then some v else get? kids j := by
  induction kids with
  | nil => simp [put, get?]
  | cons e rest ih =>
    obtain ⟨k', v'⟩ := e
    by_cases h : k' = k
    · subst h; by_cases hj : k' = j <;> simp [put, get?, hj]
    · by_cases hj : k' = j
      · subst hj
        have : ¬ k = k' := fun e => h e.symm
        simp [put, get?, h, this]
      · simp [put, get?, h, hj, ih]

theorem get?_put_self (kids : Kids) (k : Str) (v : Tree) : get? (put kids k v) k = some v := by
  simp [get?_put]

theorem get?_put_ne (kids : Kids) {k j : Str} (v : Tree) (h : k ≠ j) :
    get? (put kids k v) j = get? kids j := by
  simp [get?_put, h]

/-- storing back what is already there changes nothing -/
theorem put_get_self {kids : Kids} {k : Str} {v : Tree} (h : get? kids k = some v) :
    put kids k v = kids := by
  induction kids with
  | nil => simp [get?] at h
  | cons e rest ih =>
    obtain ⟨k', v'⟩ := e
    by_cases hk : k' = k
    · simp only [get?, hk, if_true, Option.some.injEq] at h
      simp [put, hk, h]
    · simp only [get?, hk, if_false] at h
      simp [put, hk, ih h]

/-- `find` looks at the top dict only through the first level -/
theorem find_congr {a b : Kids} {j : Str} (h : get? a j = get? b j) (js : List Str) :
    find a j js = find b j js := by
  cases js with
  | nil => simpa [find] using h
  | cons j' js' => simp only [find, h]

theorem find_nil (j : Str) (js : List Str) : find [] j js = none := by
  cases js <;> simp [find, get?]

theorem find_of_get?_none {kids : Kids} {k : Str} (h : get? kids k = none) (js : List Str) :
    find kids k js = none := by
  cases js <;> simp [find, h]

theorem find_share_below {kids : Kids} {k : Str} {n : Str} {i : Oid}
    (h : get? kids k = some (.share n i)) (j : Str) (js : List Str) :
    find kids k (j :: js) = none := by
  simp [find, h]

theorem find_node_below {kids : Kids} {k : Str} {n : Str} {i : Oid} {sub : Kids}
    (h : get? kids k = some (.node n i sub)) (j : Str) (js : List Str) :
    find kids k (j :: js) = find sub j js := by
  simp [find, h]

/-- find in a dict one of whose entries was (re)stored -/
theorem find_put (kids : Kids) (k : Str) (v : Tree) (j : Str) (js : List Str) :
    find (put kids k v) j js = if k = j then find [(k, v)] k js else find kids j js := by
  by_cases h : k = j
  · subst h
    simp only [if_true]
    apply find_congr
    simp [get?_put, get?]
  · simp only [h, if_false]
    apply find_congr
    simp [get?_put, h]

/-! ### `abs` and the spec helpers -/

theorem abs_cons (kids : Kids) (j : Str) (js : List Str) :
    abs kids (j :: js) = (find kids j js).map Tree.obj := rfl

theorem shift_abs_node {kids : Kids} {k n : Str} {i : Oid} {sub : Kids}
    (h : get? kids k = some (.node n i sub)) (q : Path) (hq : q ≠ []) :
    shift (abs kids) k q = abs sub q := by
  cases q with
  | nil => exact absurd rfl hq
  | cons j js => simp [shift, abs, find, h]

theorem shareOnWay_congr {m m' : Abs} (h : ∀ q, q ≠ [] → m q = m' q) (k : Str) (ks : List Str) :
    shareOnWay m k ks = shareOnWay m' k ks := by
  induction ks generalizing m m' k with
  | nil => rfl
  | cons k' ks ih =>
    simp only [shareOnWay, isShareAt]
    rw [h [k] (by simp), ih (m := shift m k) (m' := shift m' k) (fun q _ => h (k :: q) (by simp))]

theorem shareOnWay_none {m : Abs} (h : ∀ q, m q = none) (k : Str) (ks : List Str) :
    shareOnWay m k ks = false := by
  induction ks generalizing m k with
  | nil => rfl
  | cons k' ks ih => simp [shareOnWay, isShareAt, h, ih (m := shift m k) (fun q => h _)]

/-! ### `add` -/

/-- in a fresh node the (fixed) loop cannot fail -/
theorem addLoop_nil_ok (sh : Tree) (tag : Nat) (ks : List Str) :
    ∀ pre k, (addLoop false sh tag pre [] k ks).2 = none := by
  induction ks with
  | nil => intro pre k; simp [addLoop, get?]
  | cons k' ks ih => intro pre k; simp [addLoop, get?, ih]

/-- fixed loop: an exception leaves the dict as it was -/
theorem addLoop_err_unchanged (sh : Tree) (tag : Nat) (ks : List Str) :
    ∀ pre kids k e, (addLoop false sh tag pre kids k ks).2 = some e →
      (addLoop false sh tag pre kids k ks).1 = kids := by
  induction ks with
  | nil =>
    intro pre kids k e h
    simp only [addLoop] at h ⊢
    split at h <;> simp_all
  | cons k' ks ih =>
    intro pre kids k e h
    simp only [addLoop, Bool.false_and, Bool.false_eq_true, ↓reduceIte] at h ⊢
    split at h
    · simp [addLoop_nil_ok] at h
    · rfl
    · next nm id sub hg =>
      simp only at h ⊢
      rw [ih _ _ _ _ h]
      exact put_get_self hg

/-- fixed loop: exactly when it raises -/
theorem addLoop_rejects (sh : Tree) (tag : Nat) (ks : List Str) :
    ∀ pre kids k, ((addLoop false sh tag pre kids k ks).2).isSome =
      (shareOnWay (abs kids) k ks || (abs kids (k :: ks)).isSome) := by
  induction ks with
  | nil =>
    intro pre kids k
    simp only [addLoop, shareOnWay, Bool.false_or, abs_cons, find]
    split <;> simp_all
  | cons k' ks ih =>
    intro pre kids k
    simp only [addLoop, Bool.false_and, Bool.false_eq_true, ↓reduceIte, shareOnWay, isShareAt, abs_cons, find]
    split
    · next hg =>
      simp only [hg, addLoop_nil_ok]
      have : ∀ q, shift (abs kids) k q = none := by
        intro q; simp [shift, abs_cons, find_of_get?_none hg]
      simp [shareOnWay_none this]
    · next hg => simp [hg, Tree.obj]
    · next nm id sub hg =>
      simp only [hg, ih, Option.map, Tree.obj, abs_cons]
      rw [shareOnWay_congr (shift_abs_node hg)]
      simp

/-- fixed loop, accepted: the new dict read through `abs` -/
theorem addLoop_effect (n : Str) (i : Oid) (tag : Nat) (ks : List Str) :
    ∀ pre kids k, (addLoop false (.share n i) tag pre kids k ks).2 = none →
      ∀ j js, abs (addLoop false (.share n i) tag pre kids k ks).1 (j :: js) =
        if j :: js = k :: ks then some ⟨true, n, i⟩
        else if j :: js <+: k :: ks ∧ (abs kids (j :: js)).isNone then
          some ⟨false, joinL (pre ++ j :: js), ⟨tag, pre.length + (js.length + 1)⟩⟩
        else abs kids (j :: js) := by
  induction ks with
  | nil =>
    intro pre kids k h j js
    simp only [addLoop] at h ⊢
    split at h
    · simp at h
    · next hg =>
      have hg' : get? kids k = none := by simpa using hg
      simp only [hg, Bool.false_eq_true, ↓reduceIte, abs_cons, find_put]
      by_cases hjk : k = j
      · subst hjk
        cases js with
        | nil => simp [find, get?, Tree.obj]
        | cons j' js' => simp [find, get?, hg']
      · have : ¬ j = k := fun e => hjk e.symm
        simp [hjk, this]
  | cons k' ks ih =>
    intro pre kids k h j js
    simp only [addLoop, Bool.false_and, Bool.false_eq_true, ↓reduceIte] at h ⊢
    split at h
    · next hg =>
      simp only [abs_cons, find_put]
      by_cases hjk : k = j
      · subst hjk
        cases js with
        | nil => simp [find, get?, Tree.obj, hg]
        | cons j' js' =>
          have ih' := ih (pre ++ [k]) [] k' h j' js'
          simp only [abs_cons, find_nil] at ih'
          simp only [if_true, find, get?, ih', hg, List.cons.injEq, true_and,
            List.cons_prefix_cons, List.append_assoc, List.cons_append, List.nil_append,
            List.length_append, List.length_cons, List.length_nil]
          simp only [Option.map_none, Option.isNone_none, and_true, Nat.add_assoc, Nat.add_comm 1]
      · have : ¬ j = k := fun e => hjk e.symm
        simp [hjk, this]
    · simp at h
    · next nm id sub hg =>
      simp only [abs_cons, find_put]
      by_cases hjk : k = j
      · subst hjk
        cases js with
        | nil => simp [find, get?, Tree.obj, hg]
        | cons j' js' =>
          have ih' := ih (pre ++ [k]) sub k' h j' js'
          simp only [abs_cons] at ih'
          simp only [if_true, find, get?, ih', hg, List.cons.injEq, true_and,
            List.cons_prefix_cons, List.append_assoc, List.cons_append, List.nil_append,
            List.length_append, List.length_cons, List.length_nil]
          simp only [Nat.add_assoc, Nat.add_comm 1]
      · have : ¬ j = k := fun e => hjk e.symm
        simp [hjk, this]

/-! ### `addNode` -/

def isErrE : Except Err Obj → Bool
  | .ok _ => false
  | .error _ => true

theorem addNodeLoop_nil_ok (tag : Nat) (ks : List Str) :
    ∀ pre k, isErrE (addNodeLoop false tag pre [] k ks).2 = false := by
  induction ks with
  | nil => intro pre k; simp [addNodeLoop, get?, isErrE]
  | cons k' ks ih => intro pre k; simp [addNodeLoop, get?, ih]

theorem addNodeLoop_err_unchanged (tag : Nat) (ks : List Str) :
    ∀ pre kids k, isErrE (addNodeLoop false tag pre kids k ks).2 = true →
      (addNodeLoop false tag pre kids k ks).1 = kids := by
  induction ks with
  | nil =>
    intro pre kids k h
    simp only [addNodeLoop, Bool.false_and, Bool.false_eq_true, ↓reduceIte] at h ⊢
    split at h <;> simp_all [isErrE]
  | cons k' ks ih =>
    intro pre kids k h
    simp only [addNodeLoop, Bool.false_and, Bool.false_eq_true, ↓reduceIte] at h ⊢
    split at h
    · simp [addNodeLoop_nil_ok] at h
    · rfl
    · next nm id sub hg =>
      simp only at h ⊢
      rw [ih _ _ _ h]
      exact put_get_self hg

theorem addNodeLoop_rejects (tag : Nat) (ks : List Str) :
    ∀ pre kids k, isErrE (addNodeLoop false tag pre kids k ks).2 =
      (shareOnWay (abs kids) k ks || isShareAt (abs kids) (k :: ks)) := by
  induction ks with
  | nil =>
    intro pre kids k
    simp only [addNodeLoop, Bool.false_and, Bool.false_eq_true, ↓reduceIte, shareOnWay,
      Bool.false_or, isShareAt, abs_cons, find]
    split <;> simp_all [isErrE, Tree.obj]
  | cons k' ks ih =>
    intro pre kids k
    simp only [addNodeLoop, Bool.false_and, Bool.false_eq_true, ↓reduceIte, shareOnWay,
      isShareAt, abs_cons, find]
    split
    · next hg =>
      simp only [hg, addNodeLoop_nil_ok]
      have : ∀ q, shift (abs kids) k q = none := by
        intro q; simp [shift, abs_cons, find_of_get?_none hg]
      simp [shareOnWay_none this]
    · next hg => simp [hg, Tree.obj, isErrE]
    · next nm id sub hg =>
      simp only [hg, ih, Option.map, Tree.obj, abs_cons, isShareAt]
      rw [shareOnWay_congr (shift_abs_node hg)]
      simp

theorem addNodeLoop_effect (tag : Nat) (ks : List Str) :
    ∀ pre kids k, isErrE (addNodeLoop false tag pre kids k ks).2 = false →
      ∀ j js, abs (addNodeLoop false tag pre kids k ks).1 (j :: js) =
        if j :: js <+: k :: ks ∧ (abs kids (j :: js)).isNone then
          some ⟨false, joinL (pre ++ j :: js), ⟨tag, pre.length + (js.length + 1)⟩⟩
        else abs kids (j :: js) := by
  induction ks with
  | nil =>
    intro pre kids k h j js
    simp only [addNodeLoop, Bool.false_and, Bool.false_eq_true, ↓reduceIte] at h ⊢
    split at h
    · next hg =>
      simp only [abs_cons, find_put]
      by_cases hjk : k = j
      · subst hjk
        cases js with
        | nil => simp [find, get?, Tree.obj, hg]
        | cons j' js' => simp [find, get?, hg, find_nil]
      · have : ¬ j = k := fun e => hjk e.symm
        simp [hjk, this]
    · simp [isErrE] at h
    · next nm id sub hg =>
      simp only [abs_cons]
      by_cases hjk : k = j
      · subst hjk
        cases js with
        | nil => simp [find, hg]
        | cons j' js' => simp
      · have : ¬ j = k := fun e => hjk e.symm
        simp [this]
  | cons k' ks ih =>
    intro pre kids k h j js
    simp only [addNodeLoop, Bool.false_and, Bool.false_eq_true, ↓reduceIte] at h ⊢
    split at h
    · next hg =>
      simp only [abs_cons, find_put]
      by_cases hjk : k = j
      · subst hjk
        cases js with
        | nil => simp [find, get?, Tree.obj, hg]
        | cons j' js' =>
          have ih' := ih (pre ++ [k]) [] k' h j' js'
          simp only [abs_cons, find_nil] at ih'
          simp only [if_true, find, get?, ih', hg, true_and,
            List.cons_prefix_cons, List.append_assoc, List.cons_append, List.nil_append,
            List.length_append, List.length_cons, List.length_nil]
          simp only [Option.map_none, Option.isNone_none, and_true, Nat.add_assoc, Nat.add_comm 1]
      · have : ¬ j = k := fun e => hjk e.symm
        simp [hjk, this]
    · simp [isErrE] at h
    · next nm id sub hg =>
      simp only [abs_cons, find_put]
      by_cases hjk : k = j
      · subst hjk
        cases js with
        | nil => simp [find, get?, Tree.obj, hg]
        | cons j' js' =>
          have ih' := ih (pre ++ [k]) sub k' h j' js'
          simp only [abs_cons] at ih'
          simp only [if_true, find, get?, ih', hg, true_and,
            List.cons_prefix_cons, List.append_assoc, List.cons_append, List.nil_append,
            List.length_append, List.length_cons, List.length_nil]
          simp only [Nat.add_assoc, Nat.add_comm 1]
      · have : ¬ j = k := fun e => hjk e.symm
        simp [hjk, this]

/-- what `addNode` returns is the entry at the path afterwards -/
theorem addNodeLoop_result (tag : Nat) (ks : List Str) :
    ∀ pre kids k o, (addNodeLoop false tag pre kids k ks).2 = .ok o →
      abs (addNodeLoop false tag pre kids k ks).1 (k :: ks) = some o := by
  induction ks with
  | nil =>
    intro pre kids k o h
    simp only [addNodeLoop, Bool.false_and, Bool.false_eq_true, ↓reduceIte] at h ⊢
    split at h
    · simp only [Except.ok.injEq] at h; simp [abs_cons, find, get?_put, ← h]
    · simp at h
    · next nm id sub hg => simp only [Except.ok.injEq] at h; simp [abs_cons, find, hg, ← h]
  | cons k' ks ih =>
    intro pre kids k o h
    simp only [addNodeLoop, Bool.false_and, Bool.false_eq_true, ↓reduceIte] at h ⊢
    split at h
    · have := ih _ _ _ _ h
      simp only [abs_cons] at this
      simp [abs_cons, find, get?_put, this]
    · simp at h
    · have := ih _ _ _ _ h
      simp only [abs_cons] at this
      simp [abs_cons, find, get?_put, this]

/-! ### `change` -/

theorem changeLoop_err_unchanged (sh : Tree) (ks : List Str) :
    ∀ kids k e, (changeLoop sh kids k ks).2 = some e → (changeLoop sh kids k ks).1 = kids := by
  induction ks with
  | nil =>
    intro kids k e h
    simp only [changeLoop] at h ⊢
    split at h <;> simp_all
  | cons k' ks ih =>
    intro kids k e h
    simp only [changeLoop] at h ⊢
    by_cases he : k.isEmpty = true
    · simp [he]
    · simp only [he, Bool.false_eq_true, ↓reduceIte] at h ⊢
      cases hg : get? kids k with
      | none => simp
      | some t =>
        cases t with
        | share _ _ => simp
        | node nm id sub =>
          simp only [hg] at h ⊢
          rw [ih _ _ _ h]
          exact put_get_self hg

theorem changeLoop_rejects (sh : Tree) (ks : List Str) :
    ∀ kids k, ((changeLoop sh kids k ks).2).isSome =
      (initHasEmpty k ks || !isShareAt (abs kids) (k :: ks)) := by
  induction ks with
  | nil =>
    intro kids k
    simp only [changeLoop, initHasEmpty, Bool.false_or, isShareAt, abs_cons, find]
    split
    · next hg => simp [hg, Tree.obj]
    · next hg =>
      cases hk : get? kids k with
      | none => simp
      | some t =>
        cases t with
        | share n i => exact absurd hk (hg n i)
        | node n i sub => simp [Tree.obj]
  | cons k' ks ih =>
    intro kids k
    simp only [changeLoop, initHasEmpty, isShareAt, abs_cons, find]
    split
    · next he => simp [he]
    · next he =>
      split
      · next hg => simp [he]
      · next hg => simp [he]
      · next nm id sub hg =>
        simp only [ih, isShareAt, abs_cons]
        simp [he]

theorem changeLoop_effect (n : Str) (i : Oid) (ks : List Str) :
    ∀ kids k, (changeLoop (.share n i) kids k ks).2 = none →
      ∀ j js, abs (changeLoop (.share n i) kids k ks).1 (j :: js) =
        if j :: js = k :: ks then some ⟨true, n, i⟩ else abs kids (j :: js) := by
  induction ks with
  | nil =>
    intro kids k h j js
    simp only [changeLoop] at h ⊢
    split at h
    · next n' i' hg =>
      simp only [abs_cons, find_put]
      by_cases hjk : k = j
      · subst hjk
        cases js with
        | nil => simp [find, get?, Tree.obj]
        | cons j' js' => simp [find, get?, hg]
      · have : ¬ j = k := fun e => hjk e.symm
        simp [hjk, this]
    · simp at h
  | cons k' ks ih =>
    intro kids k h j js
    simp only [changeLoop] at h ⊢
    by_cases he : k.isEmpty = true
    · simp [he] at h
    · simp only [he, Bool.false_eq_true, ↓reduceIte] at h ⊢
      cases hg : get? kids k with
      | none => simp [hg] at h
      | some t =>
        cases t with
        | share _ _ => simp [hg] at h
        | node nm id sub =>
          simp only [hg] at h ⊢
          simp only [abs_cons, find_put]
          by_cases hjk : k = j
          · subst hjk
            cases js with
            | nil => simp [find, get?, Tree.obj, hg]
            | cons j' js' =>
              have ih' := ih sub k' h j' js'
              simp only [abs_cons] at ih'
              simp [find, get?, ih', hg]
          · have : ¬ j = k := fun e => hjk e.symm
            simp [hjk, this]

/-! ### whole methods -/

theorem abs_nil (kids : Kids) : abs kids [] = none := rfl

theorem add_rejects (root : Kids) (n : Str) (id : Oid) (tag : Nat) :
    ((add false root n id tag).2).isSome = addRejects (abs root) n := by
  unfold add addRejects pathOf
  by_cases h1 : n.isEmpty = true
  · simp [h1]
  · by_cases h2 : initHasEmpty (levels n).1 (levels n).2 = true
    · simp [h1, h2]
    · simp only [h1, h2, Bool.not_false, Bool.true_and, Bool.false_eq_true, ↓reduceIte,
        Bool.false_or, addLoop_rejects]

theorem add_err_unchanged (root : Kids) (n : Str) (id : Oid) (tag : Nat) (e : Err)
    (h : (add false root n id tag).2 = some e) : (add false root n id tag).1 = root := by
  unfold add at h ⊢
  by_cases h1 : n.isEmpty = true
  · simp [h1]
  · by_cases h2 : initHasEmpty (levels n).1 (levels n).2 = true
    · simp [h1, h2]
    · simp only [h1, h2, Bool.not_false, Bool.true_and, Bool.false_eq_true, ↓reduceIte] at h ⊢
      exact addLoop_err_unchanged _ _ _ _ _ _ _ h

theorem add_effect (root : Kids) (n : Str) (id : Oid) (tag : Nat)
    (h : (add false root n id tag).2 = none) :
    abs (add false root n id tag).1 = placeShare (abs root) (pathOf n) ⟨true, n, id⟩ tag := by
  unfold add at h ⊢
  by_cases h1 : n.isEmpty = true
  · simp [h1] at h
  · by_cases h2 : initHasEmpty (levels n).1 (levels n).2 = true
    · simp [h1, h2] at h
    · simp only [h1, h2, Bool.not_false, Bool.true_and, Bool.false_eq_true, ↓reduceIte] at h ⊢
      funext q
      cases q with
      | nil => simp [abs_nil, placeShare, pathOf]
      | cons j js =>
        rw [addLoop_effect n id tag _ _ _ _ h j js]
        simp [placeShare, pathOf, newNode]

theorem addNode_rejects (root : Kids) (n : Str) (tag : Nat) :
    isErrE (addNode false root n tag).2 = addNodeRejects (abs root) n := by
  unfold addNode addNodeRejects pathOf
  by_cases h2 : anyEmpty (levels n).1 (levels n).2 = true
  · simp [h2, isErrE]
  · simp only [h2, Bool.not_false, Bool.true_and, Bool.false_eq_true, ↓reduceIte,
      Bool.false_or, addNodeLoop_rejects]

theorem addNode_err_unchanged (root : Kids) (n : Str) (tag : Nat)
    (h : isErrE (addNode false root n tag).2 = true) : (addNode false root n tag).1 = root := by
  unfold addNode at h ⊢
  by_cases h2 : anyEmpty (levels n).1 (levels n).2 = true
  · simp [h2]
  · simp only [h2, Bool.not_false, Bool.true_and, Bool.false_eq_true, ↓reduceIte] at h ⊢
    exact addNodeLoop_err_unchanged _ _ _ _ _ h

theorem addNode_effect (root : Kids) (n : Str) (tag : Nat)
    (h : isErrE (addNode false root n tag).2 = false) :
    abs (addNode false root n tag).1 = placeNodes (abs root) (pathOf n) tag := by
  unfold addNode at h ⊢
  by_cases h2 : anyEmpty (levels n).1 (levels n).2 = true
  · simp [h2, isErrE] at h
  · simp only [h2, Bool.not_false, Bool.true_and, Bool.false_eq_true, ↓reduceIte] at h ⊢
    funext q
    cases q with
    | nil => simp [abs_nil, placeNodes]
    | cons j js =>
      rw [addNodeLoop_effect tag _ _ _ _ h j js]
      simp [placeNodes, pathOf, newNode]

theorem addNode_result (root : Kids) (n : Str) (tag : Nat) (o : Obj)
    (h : (addNode false root n tag).2 = .ok o) :
    abs (addNode false root n tag).1 (pathOf n) = some o := by
  unfold addNode at h ⊢
  by_cases h2 : anyEmpty (levels n).1 (levels n).2 = true
  · simp [h2] at h
  · simp only [h2, Bool.not_false, Bool.true_and, Bool.false_eq_true, ↓reduceIte] at h ⊢
    exact addNodeLoop_result _ _ _ _ _ _ h

theorem change_rejects (root : Kids) (n : Str) (id : Oid) :
    ((change root n id).2).isSome = changeRejects (abs root) n := by
  unfold change changeRejects pathOf
  exact changeLoop_rejects _ _ _ _

theorem change_err_unchanged (root : Kids) (n : Str) (id : Oid) (e : Err)
    (h : (change root n id).2 = some e) : (change root n id).1 = root :=
  changeLoop_err_unchanged _ _ _ _ _ h

theorem change_effect (root : Kids) (n : Str) (id : Oid) (h : (change root n id).2 = none) :
    abs (change root n id).1 = replaceAt (abs root) (pathOf n) ⟨true, n, id⟩ := by
  funext q
  cases q with
  | nil => simp [abs_nil, replaceAt, pathOf]
  | cons j js =>
    unfold change at h ⊢
    rw [changeLoop_effect n id _ _ _ h j js]
    simp [replaceAt, pathOf]

theorem fetch_eq (root : Kids) (n : Str) : fetch root n = abs root (pathOf n) := rfl

theorem fetchShare_eq (root : Kids) (n : Str) :
    fetchShare root n = if isShareAt (abs root) (pathOf n) then abs root (pathOf n) else none := by
  unfold fetchShare isShareAt
  rw [fetch_eq]
  cases abs root (pathOf n) with
  | none => simp
  | some o => cases h : o.isShare <;> simp [h]

theorem fetchNode_eq (root : Kids) (n : Str) :
    fetchNode root n = if isNodeAt (abs root) (pathOf n) then abs root (pathOf n) else none := by
  unfold fetchNode isNodeAt
  rw [fetch_eq]
  cases abs root (pathOf n) with
  | none => simp
  | some o => cases h : o.isShare <;> simp [h]

theorem pathOf_strip (n : Str) : pathOf (strip n) = pathOf n := by
  unfold pathOf; rw [levels_strip]

theorem pathOf_dots (a b : Nat) (n : Str) : pathOf (dots a ++ n ++ dots b) = pathOf n := by
  unfold pathOf; rw [levels_dots]

/-! ### every dict of the tree has distinct keys (it is a dict) -/

mutual
/-- all dicts inside the tree have distinct keys -/
def Tree.KeysOk : Tree → Prop
  | .share _ _ => True
  | .node _ _ kids => kidsOk kids
/-- this dict and all dicts below it have distinct keys -/
def kidsOk : List (Str × Tree) → Prop
  | [] => True
  | (k, t) :: rest => get? rest k = none ∧ t.KeysOk ∧ kidsOk rest
end

theorem kidsOk_put {kids : Kids} (h : kidsOk kids) (k : Str) {v : Tree} (hv : v.KeysOk) :
    kidsOk (put kids k v) := by
  induction kids with
  | nil => simp [put, kidsOk, get?, hv]
  | cons e rest ih =>
    obtain ⟨k', t⟩ := e
    simp only [kidsOk] at h
    by_cases hk : k' = k
    · simp only [put, hk, if_true, kidsOk]
      exact ⟨by rw [← hk]; exact h.1, hv, h.2.2⟩
    · simp only [put, hk, if_false, kidsOk]
      refine ⟨?_, h.2.1, ih h.2.2⟩
      rw [get?_put]
      have : ¬ k = k' := fun e => hk e.symm
      simp [this, h.1]

theorem kidsOk_sub {kids : Kids} (h : kidsOk kids) {k nm : Str} {id : Oid} {sub : Kids}
    (hg : get? kids k = some (.node nm id sub)) : kidsOk sub := by
  induction kids with
  | nil => simp [get?] at hg
  | cons e rest ih =>
    obtain ⟨k', t⟩ := e
    simp only [kidsOk] at h
    by_cases hk : k' = k
    · simp only [get?, hk, if_true, Option.some.injEq] at hg
      subst hg
      simpa [Tree.KeysOk] using h.2.1
    · simp only [get?, hk, if_false] at hg
      exact ih h.2.2 hg

theorem kidsOk_addLoop (lg : Bool) (n : Str) (i : Oid) (tag : Nat) (ks : List Str) :
    ∀ pre kids k, kidsOk kids → kidsOk (addLoop lg (.share n i) tag pre kids k ks).1 := by
  induction ks with
  | nil =>
    intro pre kids k h
    simp only [addLoop]
    split
    · exact h
    · exact kidsOk_put h k (by simp [Tree.KeysOk])
  | cons k' ks ih =>
    intro pre kids k h
    simp only [addLoop]
    split
    · exact h
    · split
      · exact kidsOk_put h k (by simpa [Tree.KeysOk] using ih _ [] k' (by simp [kidsOk]))
      · exact h
      · next nm id sub hg =>
        exact kidsOk_put h k (by simpa [Tree.KeysOk] using ih _ sub k' (kidsOk_sub h hg))

theorem kidsOk_addNodeLoop (lg : Bool) (tag : Nat) (ks : List Str) :
    ∀ pre kids k, kidsOk kids → kidsOk (addNodeLoop lg tag pre kids k ks).1 := by
  induction ks with
  | nil =>
    intro pre kids k h
    simp only [addNodeLoop]
    split
    · exact h
    · split
      · exact kidsOk_put h k (by simp [Tree.KeysOk, kidsOk])
      · exact h
      · exact h
  | cons k' ks ih =>
    intro pre kids k h
    simp only [addNodeLoop]
    split
    · exact h
    · split
      · exact kidsOk_put h k (by simpa [Tree.KeysOk] using ih _ [] k' (by simp [kidsOk]))
      · exact h
      · next nm id sub hg =>
        exact kidsOk_put h k (by simpa [Tree.KeysOk] using ih _ sub k' (kidsOk_sub h hg))

theorem kidsOk_changeLoop (n : Str) (i : Oid) (ks : List Str) :
    ∀ kids k, kidsOk kids → kidsOk (changeLoop (.share n i) kids k ks).1 := by
  induction ks with
  | nil =>
    intro kids k h
    simp only [changeLoop]
    split
    · exact kidsOk_put h k (by simp [Tree.KeysOk])
    · exact h
  | cons k' ks ih =>
    intro kids k h
    simp only [changeLoop]
    split
    · exact h
    · split
      · exact h
      · exact h
      · next nm id sub hg =>
        exact kidsOk_put h k (by simpa [Tree.KeysOk] using ih sub k' (kidsOk_sub h hg))

theorem kidsOk_step (lg : Bool) (root : Kids) (op : Op) (h : kidsOk root) :
    kidsOk (step lg root op).1 := by
  have hadd : ∀ n id tag, kidsOk (add lg root n id tag).1 := by
    intro n id tag
    unfold add
    split
    · exact h
    · split
      · exact h
      · exact kidsOk_addLoop lg n id tag _ _ _ _ h
  have haddNode : ∀ n tag, kidsOk (addNode lg root n tag).1 := by
    intro n tag
    unfold addNode
    split
    · exact h
    · exact kidsOk_addNodeLoop lg tag _ _ _ _ h
  cases op with
  | fetch n => exact h
  | fetchShare n => exact h
  | fetchNode n => exact h
  | addBad => exact h
  | changeBad => exact h
  | add n id tag =>
    have := hadd n id tag
    simp only [step]
    cases hr : add lg root n id tag with
    | mk r e => rw [hr] at this; cases e <;> exact this
  | addNode n tag =>
    have := haddNode n tag
    simp only [step]
    cases hr : addNode lg root n tag with
    | mk r e => rw [hr] at this; cases e <;> exact this
  | change n id =>
    have := kidsOk_changeLoop n id (levels n).2 root (levels n).1 h
    simp only [step]
    cases hr : change root n id with
    | mk r e => unfold change at hr; rw [hr] at this; cases e <;> exact this
  | create n tag =>
    simp only [step]
    split
    · exact h
    · have := hadd (strip n) ⟨tag, 0⟩ tag
      cases hr : add lg root (strip n) ⟨tag, 0⟩ tag with
      | mk r e => rw [hr] at this; cases e <;> exact this
  | createNode n tag =>
    simp only [step]
    split
    · exact h
    · have := haddNode n tag
      cases hr : addNode lg root n tag with
      | mk r e => rw [hr] at this; cases e <;> exact this

end Ioflo.Store
