import IofloModel.Model.StreamStack
/-! Helper lemmas for C36: the loops of the stream stacks keep `accepted ++ pending` and
`packets ++ buffer` unchanged. -/
namespace Ioflo.StreamStack

/-! ### client, transmit side -/

/-- everything the client stack still has to put on the socket, preceded by what the socket took -/
def txTotal (s : Cli) : Bytes := s.wire ++ s.txbs ++ flat s.txPkts
/-- everything the client stack has received: packets, then the unparsed buffer -/
def rxTotal (s : Cli) : Bytes := flat s.rxPkts ++ s.rxbs

/-- fields a transmit-side call never touches -/
def sameRx (s s' : Cli) : Prop :=
  s'.rxbs = s.rxbs ∧ s'.rxPkts = s.rxPkts ∧ s'.recvd = s.recvd ∧ s'.queued = s.queued ∧ s'.connected = s.connected

theorem sameRx_refl (s : Cli) : sameRx s s := ⟨rfl, rfl, rfl, rfl, rfl⟩

theorem sameRx_trans {a b c : Cli} (h1 : sameRx a b) (h2 : sameRx b c) : sameRx a c :=
  ⟨h2.1.trans h1.1, h2.2.1.trans h1.2.1, h2.2.2.1.trans h1.2.2.1, h2.2.2.2.1.trans h1.2.2.2.1,
   h2.2.2.2.2.trans h1.2.2.2.2⟩

theorem cliSendTxbs_spec (r : SendRes) (s : Cli) :
    (cliSendTxbs r s).1.wire ++ (cliSendTxbs r s).1.txbs = s.wire ++ s.txbs ∧
    (cliSendTxbs r s).1.txPkts = s.txPkts ∧ sameRx s (cliSendTxbs r s).1 ∧
    ((cliSendTxbs r s).2.1 = true → (cliSendTxbs r s).1.txbs = [] ∧ (cliSendTxbs r s).2.2 = false) := by
  unfold cliSendTxbs
  cases r with
  | fail => simp [tSend, sameRx]
  | acc k =>
    simp only [tSend, Bool.false_eq_true, if_false]
    by_cases h : min k s.txbs.length < s.txbs.length
    · simp only [h, ↓reduceIte]
      simp [sameRx, List.append_assoc]
    · simp only [h, ↓reduceIte]
      have h1 : min k s.txbs.length = s.txbs.length := by omega
      simp [sameRx, h1]
  | wouldBlock =>
    simp only [tSend, Bool.false_eq_true, if_false]
    by_cases h : 0 < s.txbs.length
    · simp only [h, ↓reduceIte]
      simp [sameRx]
    · simp only [h, ↓reduceIte]
      have : s.txbs = [] := by cases hb : s.txbs <;> simp_all
      simp [sameRx, this]
  | lost =>
    simp only [tSend, Bool.false_eq_true, if_false]
    by_cases h : 0 < s.txbs.length
    · simp only [h, ↓reduceIte]
      simp [sameRx]
    · simp only [h, ↓reduceIte]
      have : s.txbs = [] := by cases hb : s.txbs <;> simp_all
      simp [sameRx, this]

/-- the loop over `.txPkts` (entered with `.txbs` empty) -/
theorem cliTxLoop_spec (q : List Bytes) : ∀ (env : List SendRes) (s : Cli), s.txbs = [] →
    txTotal (cliTxLoop q env s).1 = s.wire ++ flat q ∧ sameRx s (cliTxLoop q env s).1 := by
  induction q with
  | nil => intro env s h; simp [cliTxLoop, txTotal, flat, h, sameRx]
  | cons p rest ih =>
    intro env s h
    unfold cliTxLoop
    by_cases hc : (s.connected && !s.cutoff) = true
    · simp only [hc, if_true]
      obtain ⟨h1, h2, h3, h4⟩ := cliSendTxbs_spec (nextSend env).1 { s with txbs := p }
      generalize hres : cliSendTxbs (nextSend env).1 { s with txbs := p } = res at h1 h2 h3 h4
      obtain ⟨s', again, raised⟩ := res
      simp only at h1 h2 h3 h4
      cases raised with
      | true =>
        simp only [txTotal, flat, List.flatten_cons]
        refine ⟨?_, ?_⟩
        · rw [h1]; simp [List.append_assoc]
        · exact ⟨h3.1, h3.2.1, h3.2.2.1, h3.2.2.2.1, h3.2.2.2.2⟩
      | false =>
        cases again with
        | true =>
          simp only
          obtain ⟨e1, _⟩ := h4 rfl
          obtain ⟨i1, i2⟩ := ih (nextSend env).2 s' e1
          refine ⟨?_, sameRx_trans (by exact ⟨h3.1, h3.2.1, h3.2.2.1, h3.2.2.2.1, h3.2.2.2.2⟩) i2⟩
          rw [i1]
          have : s'.wire = s.wire ++ p := by rw [e1, List.append_nil] at h1; exact h1
          rw [this]; simp [flat, List.append_assoc]
        | false =>
          simp only [txTotal, flat, List.flatten_cons]
          refine ⟨?_, ?_⟩
          · rw [h1]; simp [List.append_assoc]
          · exact ⟨h3.1, h3.2.1, h3.2.2.1, h3.2.2.2.1, h3.2.2.2.2⟩
    · simp only [hc]
      simp [txTotal, flat, h, sameRx]

theorem cliServiceTxPkts_spec (v : Variant) (s : Cli) (env : List SendRes) :
    txTotal (cliServiceTxPkts v s env).1 = txTotal s ∧ sameRx s (cliServiceTxPkts v s env).1 := by
  unfold cliServiceTxPkts
  by_cases hg : (enterTx v s && s.connected && !s.cutoff) = true
  · simp only [hg, ↓reduceIte]
    by_cases he : s.txbs.isEmpty = true
    · simp only [he, if_true]
      have hb : s.txbs = [] := by simpa using he
      obtain ⟨h1, h2⟩ := cliTxLoop_spec s.txPkts env s hb
      exact ⟨by rw [h1]; simp [txTotal, hb], h2⟩
    · simp only [he, Bool.false_eq_true, ↓reduceIte]
      obtain ⟨h1, h2, h3, h4⟩ := cliSendTxbs_spec (nextSend env).1 s
      generalize hres : cliSendTxbs (nextSend env).1 s = res at h1 h2 h3 h4
      obtain ⟨s', again, raised⟩ := res
      simp only at h1 h2 h3 h4
      cases raised with
      | true => simp only [txTotal]; exact ⟨by rw [h1, h2], h3⟩
      | false =>
        cases again with
        | true =>
          simp only
          obtain ⟨e1, _⟩ := h4 rfl
          obtain ⟨i1, i2⟩ := cliTxLoop_spec s'.txPkts (nextSend env).2 s' e1
          refine ⟨?_, sameRx_trans h3 i2⟩
          rw [i1, h2]
          rw [e1, List.append_nil] at h1
          simp [txTotal, h1]
        | false => simp only [txTotal]; exact ⟨by rw [h1, h2], h3⟩
  · simp only [hg]; exact ⟨rfl, sameRx_refl s⟩

theorem cliServiceTxPktsOnce_spec (v : Variant) (s : Cli) (env : List SendRes) :
    txTotal (cliServiceTxPktsOnce v s env).1 = txTotal s ∧ sameRx s (cliServiceTxPktsOnce v s env).1 := by
  unfold cliServiceTxPktsOnce
  by_cases hg : (enterTx v s && s.connected && !s.cutoff) = true
  · simp only [hg, ↓reduceIte]
    by_cases he : s.txbs.isEmpty = true
    · simp only [he, if_true]
      have hb : s.txbs = [] := by simpa using he
      cases hq : s.txPkts with
      | nil => simp [sameRx_refl]
      | cons p rest =>
        simp only
        obtain ⟨h1, h2, h3, _⟩ := cliSendTxbs_spec (nextSend env).1 { s with txbs := p, txPkts := rest }
        refine ⟨?_, ⟨h3.1, h3.2.1, h3.2.2.1, h3.2.2.2.1, h3.2.2.2.2⟩⟩
        simp only [txTotal]
        rw [h1, h2]
        simp [hb, hq, flat, List.append_assoc]
    · simp only [he, Bool.false_eq_true, ↓reduceIte]
      obtain ⟨h1, h2, h3, _⟩ := cliSendTxbs_spec (nextSend env).1 s
      exact ⟨by simp only [txTotal]; rw [h1, h2], h3⟩
  · simp only [hg]; exact ⟨rfl, sameRx_refl s⟩

/-! ### client, receive side -/

/-- fields a receive-side call never touches -/
def sameTx (s s' : Cli) : Prop :=
  s'.wire = s.wire ∧ s'.txbs = s.txbs ∧ s'.txPkts = s.txPkts ∧ s'.queued = s.queued

theorem parse_le (ps : Parser) (b : Bytes) (k : Nat) (h : parse ps b = some k) : k ≤ b.length := by
  cases ps with
  | whole => simp [parse] at h; omega
  | framed =>
    cases b with
    | nil => simp [parse] at h
    | cons n rest =>
      simp only [parse] at h
      split at h
      · cases h; simp; omega
      · cases h

theorem parseOnce_spec (ps : Parser) (s : Cli) :
    rxTotal (parseOnce ps s) = rxTotal s ∧ (parseOnce ps s).recvd = s.recvd ∧ sameTx s (parseOnce ps s) ∧
    (parseOnce ps s).cutoff = s.cutoff := by
  unfold parseOnce
  cases h : parse ps s.rxbs with
  | none => simp [sameTx]
  | some k => simp [rxTotal, flat, sameTx, List.append_assoc]

theorem cliRxLoop_spec (ps : Parser) (env : List RecvRes) : ∀ (received : Bool) (s : Cli),
    rxTotal s = s.recvd → rxTotal (cliRxLoop ps env received s).1 = (cliRxLoop ps env received s).1.recvd ∧
      sameTx s (cliRxLoop ps env received s).1 := by
  induction env with
  | nil =>
    intro received s h
    unfold cliRxLoop
    cases received
    · exact ⟨h, rfl, rfl, rfl, rfl⟩
    · obtain ⟨p1, p2, p3, _⟩ := parseOnce_spec ps s
      simp only [if_true]
      exact ⟨by rw [p1, p2, h], p3⟩
  | cons r env ih =>
    intro received s h
    unfold cliRxLoop
    cases r with
    | data b =>
      cases b with
      | nil =>
        simp only
        cases received
        · exact ⟨h, rfl, rfl, rfl, rfl⟩
        · obtain ⟨p1, p2, p3, _⟩ := parseOnce_spec ps { s with cutoff := true }
          simp only [if_true]
          exact ⟨by rw [p1, p2]; exact h, p3⟩
      | cons x xs =>
        simp only
        have h' : rxTotal { s with rxbs := s.rxbs ++ (x :: xs), recvd := s.recvd ++ (x :: xs) }
            = ({ s with rxbs := s.rxbs ++ (x :: xs), recvd := s.recvd ++ (x :: xs) } : Cli).recvd := by
          simp only [rxTotal] at h ⊢
          rw [← List.append_assoc, h]
        obtain ⟨i1, i2⟩ := ih true _ h'
        exact ⟨i1, i2⟩
    | wouldBlock =>
      simp only
      cases received
      · exact ⟨h, rfl, rfl, rfl, rfl⟩
      · obtain ⟨p1, p2, p3, _⟩ := parseOnce_spec ps s
        simp only [if_true]
        obtain ⟨i1, i2⟩ := ih false (parseOnce ps s) (by rw [p1, p2, h])
        exact ⟨i1, ⟨i2.1.trans p3.1, i2.2.1.trans p3.2.1, i2.2.2.1.trans p3.2.2.1, i2.2.2.2.trans p3.2.2.2⟩⟩
    | lost =>
      simp only
      cases received
      · exact ⟨h, rfl, rfl, rfl, rfl⟩
      · obtain ⟨p1, p2, p3, _⟩ := parseOnce_spec ps { s with cutoff := true }
        simp only [if_true]
        exact ⟨by rw [p1, p2]; exact h, p3⟩
    | fail => exact ⟨h, rfl, rfl, rfl, rfl⟩

/-- with the whole-buffer parser a completed `serviceReceives` leaves no byte outside a packet -/
theorem cliRxLoop_whole_complete (env : List RecvRes) : ∀ (received : Bool) (s : Cli),
    env.all RecvRes.noFail = true → (received = false → s.rxbs = []) →
    (cliRxLoop .whole env received s).1.rxbs = [] := by
  induction env with
  | nil =>
    intro received s _ h
    unfold cliRxLoop
    cases received
    · exact h rfl
    · simp [parseOnce, parse]
  | cons r env ih =>
    intro received s hnf h
    simp only [List.all_cons, Bool.and_eq_true] at hnf
    unfold cliRxLoop
    cases r with
    | data b =>
      cases b with
      | nil =>
        simp only
        cases received
        · exact h rfl
        · simp [parseOnce, parse]
      | cons x xs => exact ih true _ hnf.2 (by intro hh; cases hh)
    | wouldBlock =>
      simp only
      cases received
      · exact h rfl
      · simp only [if_true]
        exact ih false _ hnf.2 (by intro _; simp [parseOnce, parse])
    | lost =>
      simp only
      cases received
      · exact h rfl
      · simp [parseOnce, parse]
    | fail => simp [RecvRes.noFail] at hnf


/-! ### client: the queue drains when the socket accepts -/

theorem cliSendTxbs_acc_full (k : Nat) (s : Cli) (h : s.txbs.length ≤ k) :
    cliSendTxbs (.acc k) s =
      ({ s with cutoff := s.cutoff || false, wire := s.wire ++ s.txbs, txbs := [] }, true, false) := by
  unfold cliSendTxbs
  have h1 : min k s.txbs.length = s.txbs.length := by omega
  simp [tSend, h1]

theorem cliTxLoop_drains (K : Nat) (q : List Bytes) : ∀ (env : List SendRes) (s : Cli),
    s.txbs = [] → s.connected = true → s.cutoff = false → (∀ r ∈ env, ∃ k, r = SendRes.acc k ∧ K ≤ k) →
    q.length ≤ env.length → (∀ p ∈ q, p.length ≤ K) →
    (cliTxLoop q env s).1.txbs = [] ∧ (cliTxLoop q env s).1.txPkts = [] ∧ (cliTxLoop q env s).2 = false ∧
    (cliTxLoop q env s).1.wire = s.wire ++ flat q ∧ (cliTxLoop q env s).1.cutoff = false := by
  induction q with
  | nil =>
    intro env s hb _ hx _ _ _
    simp [cliTxLoop, hb, flat, hx]
  | cons p rest ih =>
    intro env s hb hc hx henv hlen hK
    cases env with
    | nil => simp at hlen
    | cons r env' =>
      obtain ⟨k, rfl, hk⟩ := henv r (by simp)
      have hp : p.length ≤ k := Nat.le_trans (hK p (by simp)) hk
      have hcond : (s.connected && !s.cutoff) = true := by simp [hc, hx]
      unfold cliTxLoop
      rw [if_pos hcond]
      simp only [nextSend]
      rw [cliSendTxbs_acc_full k { s with txbs := p } hp]
      simp only
      obtain ⟨i1, i2, i3, i4, i5⟩ := ih env'
        { s with txbs := [], cutoff := s.cutoff || false, wire := s.wire ++ p } rfl hc (by simp [hx])
        (fun r hr => henv r (List.mem_cons_of_mem _ hr)) (by simpa using hlen)
        (fun x hx' => hK x (List.mem_cons_of_mem _ hx'))
      refine ⟨i1, i2, i3, ?_, i5⟩
      rw [i4]; simp [flat, List.append_assoc]

/-- **repaired loop guard**: whatever is pending — leftover bytes of a partially sent packet and queued
packets — goes out when the socket accepts -/
theorem cliServiceTxPkts_drains (K : Nat) (s : Cli) (env : List SendRes)
    (hc : s.connected = true) (hx : s.cutoff = false)
    (henv : ∀ r ∈ env, ∃ k, r = SendRes.acc k ∧ K ≤ k) (hlen : s.txPkts.length + 1 ≤ env.length)
    (hb : s.txbs.length ≤ K) (hK : ∀ p ∈ s.txPkts, p.length ≤ K) :
    (cliServiceTxPkts .repaired s env).1.txbs = [] ∧ (cliServiceTxPkts .repaired s env).1.txPkts = [] ∧
    (cliServiceTxPkts .repaired s env).1.wire = s.wire ++ s.txbs ++ flat s.txPkts := by
  unfold cliServiceTxPkts
  by_cases hg : (enterTx .repaired s && s.connected && !s.cutoff) = true
  · simp only [hg, ↓reduceIte]
    by_cases he : s.txbs.isEmpty = true
    · have hbb : s.txbs = [] := by simpa using he
      simp only [he, ↓reduceIte]
      obtain ⟨i1, i2, _, i4, _⟩ := cliTxLoop_drains K s.txPkts env s hbb hc hx henv (by omega) hK
      exact ⟨i1, i2, by rw [i4, hbb]; simp⟩
    · simp only [he, Bool.false_eq_true, ↓reduceIte]
      cases env with
      | nil => simp at hlen
      | cons r env' =>
        obtain ⟨k, rfl, hk⟩ := henv r (by simp)
        simp only [nextSend]
        rw [cliSendTxbs_acc_full k s (by omega)]
        simp only
        obtain ⟨i1, i2, _, i4, _⟩ := cliTxLoop_drains K s.txPkts env'
          { s with cutoff := s.cutoff || false, wire := s.wire ++ s.txbs, txbs := [] } rfl hc (by simp [hx])
          (fun r hr => henv r (List.mem_cons_of_mem _ hr)) (by simp at hlen; omega) hK
        exact ⟨i1, i2, by rw [i4]⟩
  · -- the guard is false only when nothing is pending
    simp only [hg]
    simp only [enterTx, hc, hx, Bool.not_false, Bool.and_true, Bool.or_eq_true, Bool.not_eq_true',
      not_or, Bool.not_eq_false] at hg
    have h1 : s.txbs = [] := by simpa using hg.1
    have h2 : s.txPkts = [] := by simpa using hg.2
    simp [h1, h2, flat]



/-! ### server stack -/

theorem bytesOf_nil (ca : Nat) : bytesOf ca [] = [] := rfl

theorem bytesOf_append (ca : Nat) (a b : List (Bytes × Nat)) :
    bytesOf ca (a ++ b) = bytesOf ca a ++ bytesOf ca b := by
  simp [bytesOf]

theorem bytesOf_cons_eq (ca : Nat) (d : Bytes) (l : List (Bytes × Nat)) :
    bytesOf ca ((d, ca) :: l) = d ++ bytesOf ca l := by
  simp [bytesOf]

theorem bytesOf_cons_ne (ca c : Nat) (d : Bytes) (l : List (Bytes × Nat)) (h : c ≠ ca) :
    bytesOf ca ((d, c) :: l) = bytesOf ca l := by
  simp [bytesOf, h]

/-- per connection: accepted by the socket ++ waiting in `.txes` ++ waiting in the stack's queue `q`
is what was handed to `transmit` for it -/
def IxTx (q : List (Bytes × Nat)) (ix : Ix) : Prop :=
  ix.wire ++ flat ix.txes ++ bytesOf ix.ca q = ix.queued

/-- per connection: packets received from it ++ its buffer is what its socket delivered -/
def IxRx (rx : List (Bytes × Nat)) (ix : Ix) : Prop :=
  bytesOf ix.ca rx ++ ix.rxbs = ix.recvd

/-- a transmit-side step of one connection -/
def TxStep (ix ix' : Ix) : Prop :=
  ix'.ca = ix.ca ∧ ix'.queued = ix.queued ∧ ix'.recvd = ix.recvd ∧ ix'.rxbs = ix.rxbs ∧
  ix'.wire ++ flat ix'.txes = ix.wire ++ flat ix.txes

/-- a receive-side step of one connection -/
def RxStep (ix ix' : Ix) : Prop :=
  ix'.ca = ix.ca ∧ ix'.queued = ix.queued ∧ ix'.wire = ix.wire ∧ ix'.txes = ix.txes ∧
  ∃ δ, ix'.rxbs = ix.rxbs ++ δ ∧ ix'.recvd = ix.recvd ++ δ

theorem TxStep.keeps {q rx} {ix ix' : Ix} (h : TxStep ix ix') (h1 : IxTx q ix ∧ IxRx rx ix) :
    IxTx q ix' ∧ IxRx rx ix' := by
  obtain ⟨a, b, c, d, e⟩ := h
  unfold IxTx IxRx at *
  rw [a, b, c, d, e]
  exact h1

theorem RxStep.keeps {q rx} {ix ix' : Ix} (h : RxStep ix ix') (h1 : IxTx q ix ∧ IxRx rx ix) :
    IxTx q ix' ∧ IxRx rx ix' := by
  obtain ⟨a, b, c, d, δ, e, f⟩ := h
  unfold IxTx IxRx at *
  rw [a, b, c, d, e, f]
  refine ⟨h1.1, ?_⟩
  rw [← List.append_assoc, h1.2]

theorem hasIx_false {s : Srv} {ca : Nat} (h : hasIx s ca = false) : ∀ ix ∈ s.ixes, ix.ca ≠ ca := by
  intro ix hix hc
  have : hasIx s ca = true := by
    unfold hasIx
    rw [List.any_eq_true]
    exact ⟨ix, hix, by simp [hc]⟩
  rw [this] at h; cases h

/-- `Stack.serviceTxPkts` of the repaired server stack keeps the per-connection invariants — also when
it stops with `ValueError` at a packet whose address is not connected -/
theorem srvTxLoop_spec (q : List (Bytes × Nat)) : ∀ (s : Srv) (rx : List (Bytes × Nat)),
    (∀ ix ∈ s.ixes, IxTx q ix ∧ IxRx rx ix) →
    (∀ ix ∈ (srvTxLoop .repaired q s).1.ixes, IxTx (srvTxLoop .repaired q s).1.txPkts ix ∧ IxRx rx ix) ∧
    (srvTxLoop .repaired q s).1.ixes.map (·.ca) = s.ixes.map (·.ca) ∧
    (srvTxLoop .repaired q s).1.rxPkts = s.rxPkts ∧ (srvTxLoop .repaired q s).1.opened = s.opened := by
  induction q with
  | nil => intro s rx h; simpa [srvTxLoop] using h
  | cons p rest ih =>
    intro s rx h
    obtain ⟨d, ca⟩ := p
    unfold srvTxLoop
    by_cases ho : s.opened = true
    · rw [if_pos ho]
      simp only []
      by_cases hi : hasIx s ca = true
      · rw [if_pos hi]
        have h' : ∀ ix ∈ (updIx s ca (fun ix => { ix with txes := ix.txes ++ [d] })).ixes,
            IxTx rest ix ∧ IxRx rx ix := by
          intro ix1 hix1
          simp only [updIx, List.mem_map] at hix1
          obtain ⟨ix, hix, rfl⟩ := hix1
          obtain ⟨t, r⟩ := h ix hix
          by_cases hc : (ix.ca == ca) = true
          · simp only [hc, if_true]
            have hca : ix.ca = ca := by simpa using hc
            refine ⟨?_, r⟩
            unfold IxTx at t ⊢
            simp only
            rw [← t, hca, bytesOf_cons_eq]
            simp [flat, List.append_assoc]
          · simp only [hc, Bool.false_eq_true, ↓reduceIte]
            have hca : ca ≠ ix.ca := by intro e; exact hc (by simp [e])
            refine ⟨?_, r⟩
            unfold IxTx at t ⊢
            rw [← t, bytesOf_cons_ne _ _ _ _ hca]
        obtain ⟨i1, i2, i3, i4⟩ := ih (updIx s ca (fun ix => { ix with txes := ix.txes ++ [d] })) rx h'
        refine ⟨i1, ?_, i3, i4⟩
        rw [i2]
        simp only [updIx, List.map_map]
        apply List.map_congr_left
        intro ix _
        simp only [Function.comp]
        split <;> rfl
      · have hi' : hasIx s ca = false := by simpa using hi
        rw [if_neg hi]
        refine ⟨?_, rfl, rfl, rfl⟩
        intro ix hix
        obtain ⟨t, r⟩ := h ix hix
        refine ⟨?_, r⟩
        unfold IxTx at t ⊢
        simp only
        rw [← t, bytesOf_cons_ne _ _ _ _ (fun e => hasIx_false hi' ix hix e.symm)]
    · rw [if_neg ho]
      exact ⟨h, rfl, rfl, rfl⟩

theorem scriptFor_noFail (ca : Nat) (sc : List (Nat × List SendRes))
    (h : sc.all (fun p => p.2.all SendRes.noFail) = true) : (scriptFor ca sc).all SendRes.noFail = true := by
  induction sc with
  | nil => rfl
  | cons p rest ih =>
    obtain ⟨c, l⟩ := p
    simp only [List.all_cons, Bool.and_eq_true] at h
    unfold scriptFor
    split
    · exact h.1
    · exact ih h.2

/-- `Incomer.serviceTxes` under a script without non-transient errors -/
theorem ixTxLoop_spec (txes : List Bytes) : ∀ (env : List SendRes) (ix : Ix),
    env.all SendRes.noFail = true →
    (ixTxLoop txes env ix).2 = false ∧
    (ixTxLoop txes env ix).1.wire ++ flat (ixTxLoop txes env ix).1.txes = ix.wire ++ flat txes ∧
    (ixTxLoop txes env ix).1.ca = ix.ca ∧ (ixTxLoop txes env ix).1.queued = ix.queued ∧
    (ixTxLoop txes env ix).1.recvd = ix.recvd ∧ (ixTxLoop txes env ix).1.rxbs = ix.rxbs := by
  induction txes with
  | nil => intro env ix _; simp [ixTxLoop, flat]
  | cons d rest ih =>
    intro env ix hnf
    unfold ixTxLoop
    by_cases hc : (!ix.cutoff) = true
    · simp only [hc, if_true]
      have hr : (nextSend env).1.noFail = true ∧ (nextSend env).2.all SendRes.noFail = true := by
        cases env with
        | nil => exact ⟨rfl, rfl⟩
        | cons r e => simp only [List.all_cons, Bool.and_eq_true] at hnf; exact hnf
      generalize nextSend env = ne at hr
      obtain ⟨r, env'⟩ := ne
      simp only at hr ⊢
      cases r with
      | fail => simp [SendRes.noFail] at hr
      | acc k =>
        simp only [tSend, Bool.false_eq_true, if_false]
        by_cases hlt : min k d.length < d.length
        · simp only [hlt, ↓reduceIte]
          refine ⟨by simp, ?_, by simp, by simp, by simp, by simp⟩
          simp only [flat, List.flatten_cons, List.append_assoc]
          rw [← List.append_assoc (List.take _ _), List.take_append_drop]
        · simp only [hlt, ↓reduceIte]
          have hm : min k d.length = d.length := by omega
          obtain ⟨i1, i2, i3, i4, i5, i6⟩ := ih env'
            { ix with cutoff := ix.cutoff || false, wire := ix.wire ++ List.take (min k d.length) d } hr.2
          refine ⟨i1, ?_, i3, i4, i5, i6⟩
          rw [i2]; simp [hm, flat, List.append_assoc]
      | wouldBlock =>
        simp only [tSend, Bool.false_eq_true, if_false]
        by_cases hlt : 0 < d.length
        · simp only [hlt, ↓reduceIte]
          simp [flat]
        · simp only [hlt, ↓reduceIte]
          have hd : d = [] := by cases d <;> simp_all
          obtain ⟨i1, i2, i3, i4, i5, i6⟩ := ih env'
            { ix with cutoff := ix.cutoff || false, wire := ix.wire ++ List.take 0 d } hr.2
          refine ⟨i1, ?_, i3, i4, i5, i6⟩
          rw [i2]; simp [hd, flat]
      | lost =>
        simp only [tSend, Bool.false_eq_true, if_false]
        by_cases hlt : 0 < d.length
        · simp only [hlt, ↓reduceIte]
          simp [flat]
        · simp only [hlt, ↓reduceIte]
          have hd : d = [] := by cases d <;> simp_all
          obtain ⟨i1, i2, i3, i4, i5, i6⟩ := ih env'
            { ix with cutoff := ix.cutoff || true, wire := ix.wire ++ List.take 0 d } hr.2
          refine ⟨i1, ?_, i3, i4, i5, i6⟩
          rw [i2]; simp [hd, flat]
    · simp only [hc]
      simp [flat]

theorem srvTxesAll_spec (scripts : List (Nat × List SendRes))
    (hnf : scripts.all (fun p => p.2.all SendRes.noFail) = true) : ∀ (ixes : List Ix),
    (srvTxesAll scripts ixes).2 = false ∧
    (srvTxesAll scripts ixes).1.map (·.ca) = ixes.map (·.ca) ∧
    ∀ ix' ∈ (srvTxesAll scripts ixes).1, ∃ ix ∈ ixes, TxStep ix ix' := by
  intro ixes
  induction ixes with
  | nil => simp [srvTxesAll]
  | cons ix rest ih =>
    obtain ⟨j1, j2, j3, j4, j5, j6⟩ := ixTxLoop_spec ix.txes (scriptFor ix.ca scripts) ix (scriptFor_noFail _ _ hnf)
    obtain ⟨i1, i2, i3⟩ := ih
    unfold srvTxesAll
    simp only [j1, Bool.false_eq_true, if_false]
    refine ⟨i1, by simp [i2, j3], ?_⟩
    intro ix' hix'
    rcases List.mem_cons.mp hix' with rfl | h
    · exact ⟨ix, by simp, j3, j4, j5, j6, j2⟩
    · obtain ⟨ix0, h0, hs⟩ := i3 ix' h
      exact ⟨ix0, List.mem_cons_of_mem _ h0, hs⟩

theorem ixRxLoop_spec (env : List RecvRes) : ∀ (ix : Ix), RxStep ix (ixRxLoop env ix).1 := by
  induction env with
  | nil => intro ix; exact ⟨rfl, rfl, rfl, rfl, [], by simp [ixRxLoop], by simp [ixRxLoop]⟩
  | cons r env ih =>
    intro ix
    unfold ixRxLoop
    by_cases hc : (!ix.cutoff) = true
    · simp only [hc, if_true]
      cases r with
      | data b =>
        cases b with
        | nil => exact ⟨rfl, rfl, rfl, rfl, [], by simp, by simp⟩
        | cons x xs =>
          simp only
          obtain ⟨a, b, c, d, δ, e, f⟩ := ih { ix with rxbs := ix.rxbs ++ (x :: xs), recvd := ix.recvd ++ (x :: xs) }
          exact ⟨a, b, c, d, (x :: xs) ++ δ, by rw [e]; simp, by rw [f]; simp⟩
      | wouldBlock => exact ⟨rfl, rfl, rfl, rfl, [], by simp, by simp⟩
      | lost => exact ⟨rfl, rfl, rfl, rfl, [], by simp, by simp⟩
      | fail => exact ⟨rfl, rfl, rfl, rfl, [], by simp, by simp⟩
    · simp only [hc]
      exact ⟨rfl, rfl, rfl, rfl, [], by simp, by simp⟩

theorem srvRxAll_spec (scripts : List (Nat × List RecvRes)) : ∀ (ixes : List Ix),
    (srvRxAll scripts ixes).1.map (·.ca) = ixes.map (·.ca) ∧
    ∀ ix' ∈ (srvRxAll scripts ixes).1, ∃ ix ∈ ixes, RxStep ix ix' := by
  intro ixes
  induction ixes with
  | nil => simp [srvRxAll]
  | cons ix rest ih =>
    have j := ixRxLoop_spec (scriptFor ix.ca scripts) ix
    obtain ⟨i2, i3⟩ := ih
    unfold srvRxAll
    generalize ixRxLoop (scriptFor ix.ca scripts) ix = res at j
    obtain ⟨ix1, raised⟩ := res
    simp only at j ⊢
    cases raised with
    | true =>
      simp only [if_true]
      refine ⟨by simp [j.1], ?_⟩
      intro ix' hix'
      rcases List.mem_cons.mp hix' with rfl | h
      · exact ⟨ix, by simp, j⟩
      · exact ⟨ix', List.mem_cons_of_mem _ h, rfl, rfl, rfl, rfl, [], by simp, by simp⟩
    | false =>
      simp only [Bool.false_eq_true, if_false]
      refine ⟨by simp [i2, j.1], ?_⟩
      intro ix' hix'
      rcases List.mem_cons.mp hix' with rfl | h
      · exact ⟨ix, by simp, j⟩
      · obtain ⟨ix0, h0, hs⟩ := i3 ix' h
        exact ⟨ix0, List.mem_cons_of_mem _ h0, hs⟩

theorem ixParseLoop_spec (ps : Parser) (fuel : Nat) : ∀ (buf : Bytes) (acc : List Bytes),
    flat (ixParseLoop ps fuel buf acc).2 ++ (ixParseLoop ps fuel buf acc).1 = flat acc ++ buf := by
  induction fuel with
  | zero => intro buf acc; rfl
  | succ n ih =>
    intro buf acc
    unfold ixParseLoop
    split
    · rfl
    · split
      · rfl
      · split
        · rfl
        · rw [ih]; simp [flat, List.append_assoc]



theorem bytesOf_map_same (ca : Nat) (pkts : List Bytes) :
    bytesOf ca (pkts.map (fun p => (p, ca))) = flat pkts := by
  induction pkts with
  | nil => rfl
  | cons p r ih => simp only [List.map_cons, bytesOf_cons_eq, ih, flat, List.flatten_cons]

theorem bytesOf_map_other (ca c : Nat) (pkts : List Bytes) (h : c ≠ ca) :
    bytesOf ca (pkts.map (fun p => (p, c))) = [] := by
  induction pkts with
  | nil => rfl
  | cons p r ih => simp only [List.map_cons, bytesOf_cons_ne _ _ _ _ h, ih]

/-- `TcpServerStack.serviceReceives`: every connection's buffer is split into packets ++ rest, the
packets are tagged with its address, other connections are not affected -/
theorem srvParseAll_spec (ps : Parser) : ∀ (ixes : List Ix), (ixes.map (·.ca)).Nodup →
    (srvParseAll ps ixes).1.map (·.ca) = ixes.map (·.ca) ∧
    (∀ c, c ∉ ixes.map (·.ca) → bytesOf c (srvParseAll ps ixes).2 = []) ∧
    ∀ ix' ∈ (srvParseAll ps ixes).1, ∃ ix ∈ ixes,
      ix'.ca = ix.ca ∧ ix'.queued = ix.queued ∧ ix'.wire = ix.wire ∧ ix'.txes = ix.txes ∧ ix'.recvd = ix.recvd ∧
      bytesOf ix.ca (srvParseAll ps ixes).2 ++ ix'.rxbs = ix.rxbs := by
  intro ixes
  induction ixes with
  | nil => intro _; simp [srvParseAll, bytesOf]
  | cons ix rest ih =>
    intro hnd
    simp only [List.map_cons, List.nodup_cons] at hnd
    obtain ⟨i1, i2, i3⟩ := ih hnd.2
    have hp := ixParseLoop_spec ps ix.rxbs.length ix.rxbs []
    unfold srvParseAll
    generalize ixParseLoop ps ix.rxbs.length ix.rxbs [] = res at hp
    obtain ⟨buf, pkts⟩ := res
    simp only at hp ⊢
    refine ⟨by simp [i1], ?_, ?_⟩
    · intro c hc
      simp only [List.map_cons, List.mem_cons, not_or] at hc
      rw [bytesOf_append, bytesOf_map_other _ _ _ (fun e => hc.1 e.symm), i2 c hc.2]; rfl
    · intro ix' hix'
      rcases List.mem_cons.mp hix' with rfl | h
      · refine ⟨ix, by simp, rfl, rfl, rfl, rfl, rfl, ?_⟩
        rw [bytesOf_append, bytesOf_map_same, i2 ix.ca hnd.1]
        simpa [flat] using hp
      · obtain ⟨ix0, h0, a, b, c, d, e, f⟩ := i3 ix' h
        refine ⟨ix0, List.mem_cons_of_mem _ h0, a, b, c, d, e, ?_⟩
        have hne : ix.ca ≠ ix0.ca := by
          intro e; exact hnd.1 (e ▸ List.mem_map_of_mem (f := (·.ca)) h0)
        rw [bytesOf_append, bytesOf_map_other _ _ _ hne]
        exact f

/-- **the invariant of the server stack**: for every connection, bytes accepted by its socket ++
`.txes` ++ its packets on `.txPkts` = bytes handed to `transmit` for it, and its received packets ++
its buffer = bytes its socket delivered; connection addresses are distinct -/
def SrvInv (s : Srv) : Prop :=
  (∀ ix ∈ s.ixes, IxTx s.txPkts ix ∧ IxRx s.rxPkts ix) ∧ (s.ixes.map (·.ca)).Nodup

theorem SrvInv_init : SrvInv Srv.init := by simp [SrvInv, Srv.init]

theorem filter_map_nodup {l : List Ix} (p : Ix → Bool) (h : (l.map (·.ca)).Nodup) :
    ((l.filter p).map (·.ca)).Nodup :=
  h.sublist ((List.filter_sublist (l := l) (p := p)).map _)

theorem sstep_inv (ps : Parser) (s : Srv) (op : SOp) (hinv : SrvInv s) (hnf : op.noFail = true) :
    SrvInv (sstep .repaired ps s op).1 := by
  obtain ⟨hix, hnd⟩ := hinv
  cases op with
  | accept ca =>
    simp only [sstep]
    by_cases hh : hasIx s ca = true
    · rw [if_pos hh]; exact ⟨hix, hnd⟩
    · rw [if_neg hh]
      have hh' : hasIx s ca = false := by simpa using hh
      simp only [serviceConnectsLoop, dropCutoff]
      refine ⟨?_, ?_⟩
      · intro ix hm
        simp only [List.mem_filter, List.mem_append, List.mem_singleton] at hm
        rcases hm.1 with h | rfl
        · exact hix ix h
        · simp [IxTx, IxRx, flat]
      · apply filter_map_nodup
        simp only [List.map_append, List.map_cons, List.map_nil]
        rw [List.nodup_append]
        refine ⟨hnd, by simp, ?_⟩
        intro a ha b hb
        simp only [List.mem_singleton] at hb
        subst hb
        obtain ⟨ix, hixm, rfl⟩ := List.mem_map.mp ha
        exact hasIx_false hh' ix hixm
  | serviceConnects =>
    simp only [sstep, serviceConnectsLoop, dropCutoff]
    exact ⟨fun ix hm => hix ix (List.mem_filter.mp hm).1, filter_map_nodup _ hnd⟩
  | transmit d ca =>
    simp only [sstep, updIx]
    refine ⟨?_, ?_⟩
    · intro ix1 hm
      obtain ⟨ix, hm', rfl⟩ := List.mem_map.mp hm
      obtain ⟨t, r⟩ := hix ix hm'
      by_cases hc : (ix.ca == ca) = true
      · have hca : ix.ca = ca := by simpa using hc
        simp only [hc, if_true]
        refine ⟨?_, r⟩
        unfold IxTx at t ⊢
        simp only
        rw [bytesOf_append, ← t, hca, bytesOf_cons_eq]
        simp [bytesOf_nil, List.append_assoc]
      · simp only [hc, Bool.false_eq_true, ↓reduceIte]
        refine ⟨?_, r⟩
        have hca : ca ≠ ix.ca := by intro e; exact hc (by simp [e])
        unfold IxTx at t ⊢
        rw [bytesOf_append, bytesOf_cons_ne _ _ _ _ hca, bytesOf_nil, List.append_nil]
        exact t
    · rw [List.map_map]
      have : (List.map ((fun x => x.ca) ∘ fun ix => if (ix.ca == ca) = true then
          { ix with queued := ix.queued ++ d } else ix) s.ixes) = s.ixes.map (·.ca) := by
        apply List.map_congr_left
        intro ix _
        simp only [Function.comp]
        split <;> rfl
      rw [this]; exact hnd
  | serviceTxPkts =>
    simp only [sstep]
    obtain ⟨i1, i2, i3, _⟩ := srvTxLoop_spec s.txPkts s s.rxPkts hix
    refine ⟨?_, by rw [i2]; exact hnd⟩
    intro ix hm
    rw [i3]; exact i1 ix hm
  | serviceTxesAllIx scripts =>
    simp only [SOp.noFail] at hnf
    obtain ⟨_, i2, i3⟩ := srvTxesAll_spec scripts hnf s.ixes
    simp only [sstep]
    refine ⟨?_, by rw [i2]; exact hnd⟩
    intro ix' hm
    obtain ⟨ix, hm0, hs⟩ := i3 ix' hm
    exact hs.keeps (hix ix hm0)
  | serviceReceivesAllIx scripts =>
    obtain ⟨i2, i3⟩ := srvRxAll_spec scripts s.ixes
    simp only [sstep]
    refine ⟨?_, by rw [i2]; exact hnd⟩
    intro ix' hm
    obtain ⟨ix, hm0, hs⟩ := i3 ix' hm
    exact hs.keeps (hix ix hm0)
  | serviceReceives =>
    simp only [sstep]
    by_cases ho : s.opened = true
    · rw [if_pos ho]
      obtain ⟨i1, _, i3⟩ := srvParseAll_spec ps s.ixes hnd
      simp only
      refine ⟨?_, by rw [i1]; exact hnd⟩
      intro ix' hm
      obtain ⟨ix, hm0, a, b, c, d, e, f⟩ := i3 ix' hm
      obtain ⟨t, r⟩ := hix ix hm0
      unfold IxTx IxRx at *
      refine ⟨by rw [a, b, c, d]; exact t, ?_⟩
      rw [a, e, bytesOf_append, List.append_assoc, f]
      exact r
    · rw [if_neg ho]; exact ⟨hix, hnd⟩

theorem srun_inv (ps : Parser) (ops : List SOp) : ∀ (s : Srv), SrvInv s → ops.all SOp.noFail = true →
    SrvInv (srun .repaired ps s ops).1 := by
  induction ops with
  | nil => intro s h _; exact h
  | cons op ops ih =>
    intro s h hnf
    simp only [List.all_cons, Bool.and_eq_true] at hnf
    exact ih _ (sstep_inv ps s op h hnf.1) hnf.2

/-! ### client histories -/

def CliInv (s : Cli) : Prop := txTotal s = s.queued ∧ rxTotal s = s.recvd

theorem cstep_inv (v : Variant) (ps : Parser) (s : Cli) (op : COp) (h : CliInv s) :
    CliInv (cstep v ps s op).1 := by
  obtain ⟨ht, hr⟩ := h
  cases op with
  | connect =>
    simp only [cstep]
    split
    · exact ⟨ht, hr⟩
    · exact ⟨ht, hr⟩
  | transmit d =>
    simp only [cstep, CliInv, txTotal, rxTotal] at *
    refine ⟨?_, hr⟩
    rw [← ht]; simp [flat, List.append_assoc]
  | serviceTxPkts env =>
    obtain ⟨h1, h2⟩ := cliServiceTxPkts_spec v s env
    simp only [cstep, CliInv]
    refine ⟨by rw [h1, h2.2.2.2.1]; exact ht, ?_⟩
    simp only [rxTotal] at hr ⊢
    rw [h2.1, h2.2.1, h2.2.2.1]; exact hr
  | serviceTxPktsOnce env =>
    obtain ⟨h1, h2⟩ := cliServiceTxPktsOnce_spec v s env
    simp only [cstep, CliInv]
    refine ⟨by rw [h1, h2.2.2.2.1]; exact ht, ?_⟩
    simp only [rxTotal] at hr ⊢
    rw [h2.1, h2.2.1, h2.2.2.1]; exact hr
  | serviceReceives env =>
    simp only [cstep, CliInv, cliServiceReceives]
    split
    · obtain ⟨h1, h2⟩ := cliRxLoop_spec ps env false s hr
      refine ⟨?_, h1⟩
      simp only [txTotal] at ht ⊢
      rw [h2.1, h2.2.1, h2.2.2.1, h2.2.2.2]; exact ht
    · exact ⟨ht, hr⟩

theorem crun_inv (v : Variant) (ps : Parser) (ops : List COp) : ∀ (s : Cli), CliInv s →
    CliInv (crun v ps s ops).1 := by
  induction ops with
  | nil => intro s h; exact h
  | cons op ops ih => intro s h; exact ih _ (cstep_inv v ps s op h)

/-! ### server: pending bytes drain when the sockets accept -/

theorem ixTxLoop_drains (K : Nat) (txes : List Bytes) : ∀ (env : List SendRes) (ix : Ix),
    ix.cutoff = false → (∀ r ∈ env, ∃ k, r = SendRes.acc k ∧ K ≤ k) → txes.length ≤ env.length →
    (∀ d ∈ txes, d.length ≤ K) →
    (ixTxLoop txes env ix).1.txes = [] ∧ (ixTxLoop txes env ix).1.wire = ix.wire ++ flat txes := by
  induction txes with
  | nil => intro env ix _ _ _ _; simp [ixTxLoop, flat]
  | cons d rest ih =>
    intro env ix hx henv hlen hK
    cases env with
    | nil => simp at hlen
    | cons r env' =>
      obtain ⟨k, rfl, hk⟩ := henv r (by simp)
      have hd : d.length ≤ k := Nat.le_trans (hK d (by simp)) hk
      have hm : min k d.length = d.length := by omega
      have hnl : ¬ (d.length < d.length) := by omega
      have hcond : (!ix.cutoff) = true := by simp [hx]
      unfold ixTxLoop
      rw [if_pos hcond]
      simp only [nextSend, tSend, Bool.false_eq_true, if_false, hm, hnl, List.take_length]
      obtain ⟨i1, i2⟩ := ih env' { ix with cutoff := ix.cutoff || false, wire := ix.wire ++ d } (by simp [hx])
        (fun r hr => henv r (List.mem_cons_of_mem _ hr)) (by simpa using hlen)
        (fun x hx' => hK x (List.mem_cons_of_mem _ hx'))
      exact ⟨i1, by rw [i2]; simp [flat, List.append_assoc]⟩


theorem hasIx_updIx (s : Srv) (ca c : Nat) (f : Ix → Ix) (hf : ∀ ix, (f ix).ca = ix.ca) :
    hasIx (updIx s ca f) c = hasIx s c := by
  simp only [hasIx, updIx, List.any_map]
  congr 1
  funext ix
  simp only [Function.comp]
  split
  · rw [hf]
  · rfl

theorem ixParseLoop_whole (buf : Bytes) (acc : List Bytes) :
    (ixParseLoop .whole buf.length buf acc).1 = [] := by
  cases buf with
  | nil => rfl
  | cons x xs =>
    simp only [List.length_cons]
    unfold ixParseLoop
    simp only [List.isEmpty_cons, Bool.false_eq_true, if_false, parse, List.length_cons]
    have : ¬ (xs.length + 1 = 0) := by omega
    rw [if_neg this]
    have hd : List.drop (xs.length + 1) (x :: xs) = [] := by simp
    rw [hd]
    cases xs.length <;> simp [ixParseLoop]


/-- a length-prefixed packet as the `framed` parser expects it on the wire -/
def frame (p : Bytes) : Bytes := p.length :: p

theorem ixParseLoop_frames (fs : List Bytes) : ∀ (fuel : Nat) (acc : List Bytes), fs.length ≤ fuel →
    ixParseLoop .framed fuel (flat (fs.map frame)) acc = ([], acc ++ fs.map frame) := by
  induction fs with
  | nil =>
    intro fuel acc _
    cases fuel <;> simp [ixParseLoop, flat]
  | cons p rest ih =>
    intro fuel acc hf
    cases fuel with
    | zero => simp at hf
    | succ n =>
      have hbuf : flat ((p :: rest).map frame) = p.length :: (p ++ flat (rest.map frame)) := by
        simp [flat, frame]
      rw [hbuf]
      unfold ixParseLoop
      simp only [List.isEmpty_cons, Bool.false_eq_true, if_false, parse]
      have hle : p.length ≤ (p ++ flat (rest.map frame)).length := by simp
      rw [if_pos hle]
      simp only [Nat.add_one_ne_zero, if_false]
      have hd : List.drop (p.length + 1) (p.length :: (p ++ flat (rest.map frame))) = flat (rest.map frame) := by
        simp
      have ht : List.take (p.length + 1) (p.length :: (p ++ flat (rest.map frame))) = frame p := by
        simp [frame]
      rw [hd, ht, ih n (acc ++ [frame p]) (by simpa using hf)]
      simp


end Ioflo.StreamStack
