import IofloModel.Model.StreamStack
/-! Helper lemmas for C36: the loops of the stream stacks keep `accepted ++ pending` and
`packets ++ buffer` unchanged. -/
namespace Ioflo.StreamStack

/-! ### client, transmit side -/

/-- everything the client stack still has to put on the socket, preceded by what the socket took -/
def txTotal (s : Cli) : Bytes := s.wire ++ s.txbs ++ flat s.txPkts
/-- everything the client stack has received: packets, then the unparsed buffer -/
def rxTotal (s : Cli) : Bytes := flat s.rxPkts ++ s.rxbs

/-- fields a transmit-side call never touches -/
def sameRx (s s' : Cli) : Prop :=
  s'.rxbs = s.rxbs ∧ s'.rxPkts = s.rxPkts ∧ s'.recvd = s.recvd ∧ s'.queued = s.queued ∧ s'.connected = s.connected

theorem sameRx_refl (s : Cli) : sameRx s s := ⟨rfl, rfl, rfl, rfl, rfl⟩

theorem sameRx_trans {a b c : Cli} (h1 : sameRx a b) (h2 : sameRx b c) : sameRx a c :=
  ⟨h2.1.trans h1.1, h2.2.1.trans h1.2.1, h2.2.2.1.trans h1.2.2.1, h2.2.2.2.1.trans h1.2.2.2.1,
   h2.2.2.2.2.trans h1.2.2.2.2⟩

theorem cliSendTxbs_spec (r : SendRes) (s : Cli) :
    (cliSendTxbs r s).1.wire ++ (cliSendTxbs r s).1.txbs = s.wire ++ s.txbs ∧
    (cliSendTxbs r s).1.txPkts = s.txPkts ∧ sameRx s (cliSendTxbs r s).1 ∧
    ((cliSendTxbs r s).2.1 = true → (cliSendTxbs r s).1.txbs = [] ∧ (cliSendTxbs r s).2.2 = false) := by
  unfold cliSendTxbs
  cases r with
  | fail => simp [tSend, sameRx]
  | acc k =>
    simp only [tSend, Bool.false_eq_true, if_false]
    by_cases h : min k s.txbs.length < s.txbs.length
    · simp only [h, ↓reduceIte]
      simp [sameRx, List.append_assoc]
    · simp only [h, ↓reduceIte]
      have h1 : min k s.txbs.length = s.txbs.length := by omega
      simp [sameRx, h1]
  | wouldBlock =>
    simp only [tSend, Bool.false_eq_true, if_false]
    by_cases h : 0 < s.txbs.length
    · simp only [h, ↓reduceIte]
      simp [sameRx]
    · simp only [h, ↓reduceIte]
      have : s.txbs = [] := by cases hb : s.txbs <;> simp_all
      simp [sameRx, this]
  | lost =>
    simp only [tSend, Bool.false_eq_true, if_false]
    by_cases h : 0 < s.txbs.length
    · simp only [h, ↓reduceIte]
      simp [sameRx]
    · simp only [h, ↓reduceIte]
      have : s.txbs = [] := by cases hb : s.txbs <;> simp_all
      simp [sameRx, this]

/-- the loop over `.txPkts` (entered with `.txbs` empty) -/
theorem cliTxLoop_spec (q : List Bytes) : ∀ (env : List SendRes) (s : Cli), s.txbs = [] →
    txTotal (cliTxLoop q env s).1 = s.wire ++ flat q ∧ sameRx s (cliTxLoop q env s).1 := by
  induction q with
  | nil => intro env s h; simp [cliTxLoop, txTotal, flat, h, sameRx]
  | cons p rest ih =>
    intro env s h
    unfold cliTxLoop
    by_cases hc : (s.connected && !s.cutoff) = true
    · simp only [hc, if_true]
      obtain ⟨h1, h2, h3, h4⟩ := cliSendTxbs_spec (nextSend env).1 { s with txbs := p }
      generalize hres : cliSendTxbs (nextSend env).1 { s with txbs := p } = res at h1 h2 h3 h4
      obtain ⟨s', again, raised⟩ := res
      simp only at h1 h2 h3 h4
      cases raised with
      | true =>
        simp only [txTotal, flat, List.flatten_cons]
        refine ⟨?_, ?_⟩
        · rw [h1]; simp [List.append_assoc]
        · exact ⟨h3.1, h3.2.1, h3.2.2.1, h3.2.2.2.1, h3.2.2.2.2⟩
      | false =>
        cases again with
        | true =>
          simp only
          obtain ⟨e1, _⟩ := h4 rfl
          obtain ⟨i1, i2⟩ := ih (nextSend env).2 s' e1
          refine ⟨?_, sameRx_trans (by exact ⟨h3.1, h3.2.1, h3.2.2.1, h3.2.2.2.1, h3.2.2.2.2⟩) i2⟩
          rw [i1]
          have : s'.wire = s.wire ++ p := by rw [e1, List.append_nil] at h1; exact h1
          rw [this]; simp [flat, List.append_assoc]
        | false =>
          simp only [txTotal, flat, List.flatten_cons]
          refine ⟨?_, ?_⟩
          · rw [h1]; simp [List.append_assoc]
          · exact ⟨h3.1, h3.2.1, h3.2.2.1, h3.2.2.2.1, h3.2.2.2.2⟩
    · simp only [hc]
      simp [txTotal, flat, h, sameRx]

theorem cliServiceTxPkts_spec (v : Variant) (s : Cli) (env : List SendRes) :
    txTotal (cliServiceTxPkts v s env).1 = txTotal s ∧ sameRx s (cliServiceTxPkts v s env).1 := by
  unfold cliServiceTxPkts
  by_cases hg : (enterTx v s && s.connected && !s.cutoff) = true
  · simp only [hg, ↓reduceIte]
    by_cases he : s.txbs.isEmpty = true
    · simp only [he, if_true]
      have hb : s.txbs = [] := by simpa using he
      obtain ⟨h1, h2⟩ := cliTxLoop_spec s.txPkts env s hb
      exact ⟨by rw [h1]; simp [txTotal, hb], h2⟩
    · simp only [he, Bool.false_eq_true, ↓reduceIte]
      obtain ⟨h1, h2, h3, h4⟩ := cliSendTxbs_spec (nextSend env).1 s
      generalize hres : cliSendTxbs (nextSend env).1 s = res at h1 h2 h3 h4
      obtain ⟨s', again, raised⟩ := res
      simp only at h1 h2 h3 h4
      cases raised with
      | true => simp only [txTotal]; exact ⟨by rw [h1, h2], h3⟩
      | false =>
        cases again with
        | true =>
          simp only
          obtain ⟨e1, _⟩ := h4 rfl
          obtain ⟨i1, i2⟩ := cliTxLoop_spec s'.txPkts (nextSend env).2 s' e1
          refine ⟨?_, sameRx_trans h3 i2⟩
          rw [i1, h2]
          rw [e1, List.append_nil] at h1
          simp [txTotal, h1]
        | false => simp only [txTotal]; exact ⟨by rw [h1, h2], h3⟩
  · simp only [hg]; exact ⟨rfl, sameRx_refl s⟩

theorem cliServiceTxPktsOnce_spec (v : Variant) (s : Cli) (env : List SendRes) :
    txTotal (cliServiceTxPktsOnce v s env).1 = txTotal s ∧ sameRx s (cliServiceTxPktsOnce v s env).1 := by
  unfold cliServiceTxPktsOnce
  by_cases hg : (enterTx v s && s.connected && !s.cutoff) = true
  · simp only [hg, ↓reduceIte]
    by_cases he : s.txbs.isEmpty = true
    · simp only [he, if_true]
      have hb : s.txbs = [] := by simpa using he
      cases hq : s.txPkts with
      | nil => simp [sameRx_refl]
      | cons p rest =>
        simp only
        obtain ⟨h1, h2, h3, _⟩ := cliSendTxbs_spec (nextSend env).1 { s with txbs := p, txPkts := rest }
        refine ⟨?_, ⟨h3.1, h3.2.1, h3.2.2.1, h3.2.2.2.1, h3.2.2.2.2⟩⟩
        simp only [txTotal]
        rw [h1, h2]
        simp [hb, hq, flat, List.append_assoc]
    · simp only [he, Bool.false_eq_true, ↓reduceIte]
      obtain ⟨h1, h2, h3, _⟩ := cliSendTxbs_spec (nextSend env).1 s
      exact ⟨by simp only [txTotal]; rw [h1, h2], h3⟩
  · simp only [hg]; exact ⟨rfl, sameRx_refl s⟩

/-! ### client, receive side -/

/-- fields a receive-side call never touches -/
def sameTx (s s' : Cli) : Prop :=
  s'.wire = s.wire ∧ s'.txbs = s.txbs ∧ s'.txPkts = s.txPkts ∧ s'.queued = s.queued

theorem parse_le (ps : Parser) (b : Bytes) (k : Nat) (h : parse ps b = some k) : k ≤ b.length := by
  cases ps with
  | whole => simp [parse] at h; omega
  | framed =>
    cases b with
    | nil => simp [parse] at h
    | cons n rest =>
      simp only [parse] at h
      split at h
      · cases h; simp; omega
      · cases h

theorem parseOnce_spec (ps : Parser) (s : Cli) :
    rxTotal (parseOnce ps s) = rxTotal s ∧ (parseOnce ps s).recvd = s.recvd ∧ sameTx s (parseOnce ps s) ∧
    (parseOnce ps s).cutoff = s.cutoff := by
  unfold parseOnce
  cases h : parse ps s.rxbs with
  | none => simp [sameTx]
  | some k => simp [rxTotal, flat, sameTx, List.append_assoc]

theorem cliRxLoop_spec (ps : Parser) (env : List RecvRes) : ∀ (received : Bool) (s : Cli),
    rxTotal s = s.recvd → rxTotal (cliRxLoop ps env received s).1 = (cliRxLoop ps env received s).1.recvd ∧
      sameTx s (cliRxLoop ps env received s).1 := by
  induction env with
  | nil =>
    intro received s h
    unfold cliRxLoop
    cases received
    · exact ⟨h, rfl, rfl, rfl, rfl⟩
    · obtain ⟨p1, p2, p3, _⟩ := parseOnce_spec ps s
      simp only [if_true]
      exact ⟨by rw [p1, p2, h], p3⟩
  | cons r env ih =>
    intro received s h
    unfold cliRxLoop
    cases r with
    | data b =>
      cases b with
      | nil =>
        simp only
        cases received
        · exact ⟨h, rfl, rfl, rfl, rfl⟩
        · obtain ⟨p1, p2, p3, _⟩ := parseOnce_spec ps { s with cutoff := true }
          simp only [if_true]
          exact ⟨by rw [p1, p2]; exact h, p3⟩
      | cons x xs =>
        simp only
        have h' : rxTotal { s with rxbs := s.rxbs ++ (x :: xs), recvd := s.recvd ++ (x :: xs) }
            = ({ s with rxbs := s.rxbs ++ (x :: xs), recvd := s.recvd ++ (x :: xs) } : Cli).recvd := by
          simp only [rxTotal] at h ⊢
          rw [← List.append_assoc, h]
        obtain ⟨i1, i2⟩ := ih true _ h'
        exact ⟨i1, i2⟩
    | wouldBlock =>
      simp only
      cases received
      · exact ⟨h, rfl, rfl, rfl, rfl⟩
      · obtain ⟨p1, p2, p3, _⟩ := parseOnce_spec ps s
        simp only [if_true]
        obtain ⟨i1, i2⟩ := ih false (parseOnce ps s) (by rw [p1, p2, h])
        exact ⟨i1, ⟨i2.1.trans p3.1, i2.2.1.trans p3.2.1, i2.2.2.1.trans p3.2.2.1, i2.2.2.2.trans p3.2.2.2⟩⟩
    | lost =>
      simp only
      cases received
      · exact ⟨h, rfl, rfl, rfl, rfl⟩
      · obtain ⟨p1, p2, p3, _⟩ := parseOnce_spec ps { s with cutoff := true }
        simp only [if_true]
        exact ⟨by rw [p1, p2]; exact h, p3⟩
    | fail => exact ⟨h, rfl, rfl, rfl, rfl⟩

/-- with the whole-buffer parser a completed `serviceReceives` leaves no byte outside a packet -/
theorem cliRxLoop_whole_complete (env : List RecvRes) : ∀ (received : Bool) (s : Cli),
    env.all RecvRes.noFail = true → (received = false → s.rxbs = []) →
    (cliRxLoop .whole env received s).1.rxbs = [] := by
  induction env with
  | nil =>
    intro received s _ h
    unfold cliRxLoop
    cases received
    · exact h rfl
    · simp [parseOnce, parse]
  | cons r env ih =>
    intro received s hnf h
    simp only [List.all_cons, Bool.and_eq_true] at hnf
    unfold cliRxLoop
    cases r with
    | data b =>
      cases b with
      | nil =>
        simp only
        cases received
        · exact h rfl
        · simp [parseOnce, parse]
      | cons x xs => exact ih true _ hnf.2 (by intro hh; cases hh)
    | wouldBlock =>
      simp only
      cases received
      · exact h rfl
      · simp only [if_true]
        exact ih false _ hnf.2 (by intro _; simp [parseOnce, parse])
    | lost =>
      simp only
      cases received
      · exact h rfl
      · simp [parseOnce, parse]
    | fail => simp [RecvRes.noFail] at hnf

end Ioflo.StreamStack
