import IofloModel.Model.TxQueue
/-! Helper lemmas for C24: what one `send`, one `receive`, and the two service loops do to the
environment's record and to the history variables. -/
namespace Ioflo.TxQueue

/-- answers after which `send` returns (does not raise) for transport kind `k` -/
def SendRes.benign (k : Kind) : SendRes → Bool
  | .fail => false
  | .lost => !k.isSerial
  | _ => true

/-- fields no transmit-side method touches -/
structure SameRx (s s' : State) : Prop where
  kind : s'.kind = s.kind
  rxbs : s'.rxbs = s.rxbs
  live : s'.live = s.live
  wlogOn : s'.wlogOn = s.wlogOn
  recvScript : s'.recvScript = s.recvScript
  recvd : s'.recvd = s.recvd
  wrx : s'.wrx = s.wrx
  queued : s'.queued = s.queued
  taken : s'.taken = s.taken

/-- fields no receive-side method touches -/
structure SameTx (s s' : State) : Prop where
  kind : s'.kind = s.kind
  txes : s'.txes = s.txes
  live : s'.live = s.live
  wlogOn : s'.wlogOn = s.wlogOn
  sendScript : s'.sendScript = s.sendScript
  sent : s'.sent = s.sent
  wtx : s'.wtx = s.wtx
  queued : s'.queued = s.queued

theorem SameRx.refl (s : State) : SameRx s s := ⟨rfl, rfl, rfl, rfl, rfl, rfl, rfl, rfl, rfl⟩
theorem SameRx.trans {a b c : State} (h1 : SameRx a b) (h2 : SameRx b c) : SameRx a c :=
  ⟨h2.kind.trans h1.kind, h2.rxbs.trans h1.rxbs, h2.live.trans h1.live, h2.wlogOn.trans h1.wlogOn,
   h2.recvScript.trans h1.recvScript, h2.recvd.trans h1.recvd, h2.wrx.trans h1.wrx,
   h2.queued.trans h1.queued, h2.taken.trans h1.taken⟩
theorem SameTx.refl (s : State) : SameTx s s := ⟨rfl, rfl, rfl, rfl, rfl, rfl, rfl, rfl⟩
theorem SameTx.trans {a b c : State} (h1 : SameTx a b) (h2 : SameTx b c) : SameTx a c :=
  ⟨h2.kind.trans h1.kind, h2.txes.trans h1.txes, h2.live.trans h1.live, h2.wlogOn.trans h1.wlogOn,
   h2.sendScript.trans h1.sendScript, h2.sent.trans h1.sent, h2.wtx.trans h1.wtx,
   h2.queued.trans h1.queued⟩

/-! ### one send -/

theorem sendWith_frame (s : State) (data : Bytes) (r : SendRes) : SameRx s (sendWith s data r).1 := by
  cases r <;> simp only [sendWith] <;> (try split) <;> exact ⟨rfl, rfl, rfl, rfl, rfl, rfl, rfl, rfl, rfl⟩

theorem send_frame (s : State) (data : Bytes) : SameRx s (send s data).1 := by
  unfold send
  exact SameRx.trans (b := { s with sendScript := s.sendScript.tail })
    ⟨rfl, rfl, rfl, rfl, rfl, rfl, rfl, rfl, rfl⟩ (sendWith_frame _ _ _)

theorem sendWith_script (s : State) (data : Bytes) (r : SendRes) :
    (sendWith s data r).1.sendScript = s.sendScript := by
  cases r <;> simp only [sendWith] <;> (try split) <;> rfl

theorem send_script (s : State) (data : Bytes) : (send s data).1.sendScript = s.sendScript.tail := by
  unfold send; rw [sendWith_script]

/-- a send that returns `n`: at most `len data`, and the socket's record grew by `data[:n]` -/
theorem sendWith_some {s : State} {data : Bytes} {r : SendRes} {s' : State} {n : Nat}
    (h : sendWith s data r = (s', some n)) :
    n ≤ data.length ∧ s'.sent = s.sent ++ data.take n := by
  cases r with
  | acc k =>
    simp only [sendWith] at h
    split at h <;> (obtain ⟨rfl, rfl⟩ := Prod.mk.inj h |>.imp id Option.some.inj) <;>
      exact ⟨Nat.min_le_right _ _, rfl⟩
  | wouldBlock =>
    simp only [sendWith] at h
    obtain ⟨rfl, rfl⟩ := Prod.mk.inj h |>.imp id Option.some.inj
    exact ⟨Nat.zero_le _, by simp⟩
  | lost =>
    simp only [sendWith] at h
    split at h
    · exact absurd (Prod.mk.inj h).2 (by simp)
    · obtain ⟨rfl, rfl⟩ := Prod.mk.inj h |>.imp id Option.some.inj
      exact ⟨Nat.zero_le _, by simp⟩
  | fail => simp only [sendWith] at h; exact absurd (Prod.mk.inj h).2 (by simp)

/-- a send that raises: nothing was accepted -/
theorem sendWith_none {s : State} {data : Bytes} {r : SendRes} {s' : State}
    (h : sendWith s data r = (s', none)) : s'.sent = s.sent ∧ r.benign s.kind = false := by
  cases r with
  | acc k => simp only [sendWith] at h; split at h <;> exact absurd (Prod.mk.inj h).2 (by simp)
  | wouldBlock => simp only [sendWith] at h; exact absurd (Prod.mk.inj h).2 (by simp)
  | lost =>
    simp only [sendWith] at h
    split at h
    · next hs => obtain ⟨rfl, _⟩ := Prod.mk.inj h; exact ⟨rfl, by simp [SendRes.benign, hs]⟩
    · exact absurd (Prod.mk.inj h).2 (by simp)
  | fail => simp only [sendWith] at h; obtain ⟨rfl, _⟩ := Prod.mk.inj h; exact ⟨rfl, rfl⟩

theorem send_some {s : State} {data : Bytes} {s' : State} {n : Nat}
    (h : send s data = (s', some n)) : n ≤ data.length ∧ s'.sent = s.sent ++ data.take n := by
  unfold send at h; exact sendWith_some (s := { s with sendScript := s.sendScript.tail }) h

theorem send_none {s : State} {data : Bytes} {s' : State} (h : send s data = (s', none)) :
    s'.sent = s.sent ∧ (s.sendScript.headD .wouldBlock).benign s.kind = false := by
  unfold send at h; exact sendWith_none (s := { s with sendScript := s.sendScript.tail }) h

/-! ### the transmit loop -/

theorem txLoop_frame (s : State) (q : List Bytes) : SameRx s (txLoop s q).state := by
  induction q generalizing s with
  | nil => exact ⟨rfl, rfl, rfl, rfl, rfl, rfl, rfl, rfl, rfl⟩
  | cons data rest ih =>
    unfold txLoop
    split
    · have hf := send_frame s data
      split
      · next s' h => rw [h] at hf; exact SameRx.trans hf ⟨rfl, rfl, rfl, rfl, rfl, rfl, rfl, rfl, rfl⟩
      · next s' n h =>
        rw [h] at hf
        split
        · exact SameRx.trans hf ⟨rfl, rfl, rfl, rfl, rfl, rfl, rfl, rfl, rfl⟩
        · exact SameRx.trans hf (ih s')
    · exact ⟨rfl, rfl, rfl, rfl, rfl, rfl, rfl, rfl, rfl⟩

/-- Conservation through the loop: what the socket has accepted, then what an exception dropped,
then what is still queued, is what was accepted before followed by the queue — and nothing is
dropped unless the loop raised. -/
theorem txLoop_conserve (s : State) (q : List Bytes) :
    ∃ dropped : Bytes,
      (txLoop s q).state.sent ++ dropped ++ (txLoop s q).state.txes.flatten = s.sent ++ q.flatten
      ∧ ((txLoop s q).isRaised = false → dropped = []) := by
  induction q generalizing s with
  | nil => exact ⟨[], by simp [txLoop, Res.state], fun _ => rfl⟩
  | cons data rest ih =>
    unfold txLoop
    split
    · split
      · next s' h =>
        refine ⟨data, ?_, fun hr => by simp [Res.isRaised] at hr⟩
        simp [Res.state, (send_none h).1]
      · next s' n h =>
        obtain ⟨hn, hs⟩ := send_some h
        split
        · refine ⟨[], ?_, fun _ => rfl⟩
          simp only [Res.state, hs, List.append_nil, List.flatten_cons, List.append_assoc]
          rw [← List.append_assoc (List.take n data), List.take_append_drop]
        · next hlt =>
          have hn' : data.length ≤ n := Nat.le_of_not_lt hlt
          obtain ⟨d, hd, hr⟩ := ih s'
          refine ⟨d, ?_, hr⟩
          rw [hd, hs, List.take_of_length_le hn']
          simp [List.append_assoc]
    · exact ⟨[], by simp [Res.state], fun _ => rfl⟩

/-- with only benign answers in the script the loop never raises, and the script stays benign -/
theorem txLoop_benign (s : State) (q : List Bytes)
    (h : ∀ r ∈ s.sendScript, SendRes.benign s.kind r = true) :
    (txLoop s q).isRaised = false ∧
      ∀ r ∈ (txLoop s q).state.sendScript, SendRes.benign s.kind r = true := by
  induction q generalizing s with
  | nil => exact ⟨rfl, h⟩
  | cons data rest ih =>
    unfold txLoop
    split
    · have hsc := send_script s data
      have hfr := send_frame s data
      have htail : ∀ r ∈ s.sendScript.tail, SendRes.benign s.kind r = true :=
        fun r hr => h r (List.mem_of_mem_tail hr)
      split
      · next s' hsend =>
        exfalso
        have hb := (send_none hsend).2
        cases hs : s.sendScript with
        | nil => rw [hs] at hb; simp [SendRes.benign] at hb
        | cons r t =>
          rw [hs] at hb
          have := h r (by rw [hs]; exact List.mem_cons_self)
          simp only [List.headD_cons] at hb
          rw [hb] at this; exact absurd this (by simp)
      · next s' n hsend =>
        rw [hsend] at hsc hfr
        split
        · exact ⟨rfl, fun r hr => htail r (by simp only [Res.state] at hr; rwa [hsc] at hr)⟩
        · have := ih s' (by intro r hr; rw [hfr.kind]; exact htail r (by rwa [hsc] at hr))
          rw [hfr.kind] at this
          exact this
    · exact ⟨rfl, h⟩

/-! ### wire log (tx) -/

/-- the wire log's tx records, concatenated, are what the socket accepted; no record is empty;
without a wire log (or on a serial driver) nothing is recorded -/
def WTx (s : State) : Prop :=
  (s.wlogOn = true ∧ s.kind.isSerial = false → s.wtx.flatten = s.sent) ∧
  (∀ c ∈ s.wtx, c ≠ []) ∧
  (¬ (s.wlogOn = true ∧ s.kind.isSerial = false) → s.wtx = [])

theorem sendWith_wtx (s : State) (data : Bytes) (r : SendRes) (h : WTx s) :
    WTx (sendWith s data r).1 := by
  obtain ⟨h1, h2, h3⟩ := h
  cases r with
  | acc k =>
    simp only [sendWith]
    split
    · next hc =>
      refine ⟨fun _ => ?_, ?_, fun hn => absurd hc.2 hn⟩
      · simp [h1 hc.2]
      · intro c hcm
        simp only [List.mem_append, List.mem_singleton] at hcm
        rcases hcm with hcm | rfl
        · exact h2 c hcm
        · intro he
          have : (List.take (min k data.length) data).length = 0 := by rw [he]; rfl
          rw [List.length_take] at this
          have h0 := hc.1
          omega
    · next hc =>
      refine ⟨fun hw => ?_, h2, h3⟩
      have : min k data.length = 0 := by
        by_cases h0 : min k data.length = 0
        · exact h0
        · exact absurd ⟨h0, hw⟩ hc
      simp [this, h1 hw]
  | wouldBlock => exact ⟨h1, h2, h3⟩
  | lost => simp only [sendWith]; split <;> exact ⟨h1, h2, h3⟩
  | fail => exact ⟨h1, h2, h3⟩

theorem send_wtx (s : State) (data : Bytes) (h : WTx s) : WTx (send s data).1 := by
  unfold send; exact sendWith_wtx _ _ _ h

theorem txLoop_wtx (s : State) (q : List Bytes) (h : WTx s) : WTx (txLoop s q).state := by
  induction q generalizing s with
  | nil => exact h
  | cons data rest ih =>
    unfold txLoop
    split
    · have hw := send_wtx s data h
      split
      · next s' hs => rw [hs] at hw; exact hw
      · next s' n hs =>
        rw [hs] at hw
        split
        · exact hw
        · exact ih s' hw
    · exact h

/-! ### one receive, the receive loop -/

theorem receive_frame (s : State) (r : RecvRes) : SameTx s (receive s r).1 := by
  cases r <;> simp only [receive] <;> (repeat' split) <;> exact ⟨rfl, rfl, rfl, rfl, rfl, rfl, rfl, rfl⟩

/-- receive-side invariant: everything the socket ever returned is in `rxbs` (after what the
application cleared out), in arrival order; the wire log's rx records concatenate to the same -/
def RxInv (s : State) : Prop :=
  s.taken ++ s.rxbs = s.recvd ∧
  (s.wlogOn = true ∧ s.kind.isSerial = false → s.wrx.flatten = s.recvd) ∧
  (∀ c ∈ s.wrx, c ≠ []) ∧
  (¬ (s.wlogOn = true ∧ s.kind.isSerial = false) → s.wrx = [])

theorem rxLoop_frame (s : State) (env : List RecvRes) : SameTx s (rxLoop s env).state := by
  induction env generalizing s with
  | nil => exact ⟨rfl, rfl, rfl, rfl, rfl, rfl, rfl, rfl⟩
  | cons r t ih =>
    unfold rxLoop
    split
    · have hf := receive_frame s r
      split
      · next s' h => rw [h] at hf; exact SameTx.trans hf ⟨rfl, rfl, rfl, rfl, rfl, rfl, rfl, rfl⟩
      · next s' h => rw [h] at hf; exact SameTx.trans hf ⟨rfl, rfl, rfl, rfl, rfl, rfl, rfl, rfl⟩
      · next s' b h =>
        rw [h] at hf
        exact SameTx.trans (SameTx.trans hf (b := s') (c := { s' with rxbs := s'.rxbs ++ b }) ⟨rfl, rfl, rfl, rfl, rfl, rfl, rfl, rfl⟩) (ih _)
    · exact ⟨rfl, rfl, rfl, rfl, rfl, rfl, rfl, rfl⟩

theorem receive_rxinv_nochunk {s s' : State} {r : RecvRes} (h : RxInv s)
    (hr : receive s r = (s', .raised) ∨ receive s r = (s', .nothing)) : RxInv s' := by
  obtain ⟨h0, h1, h2, h3⟩ := h
  cases r with
  | data b =>
    simp only [receive] at hr
    split at hr
    · split at hr
      · next hb =>
        subst hb
        rcases hr with hr | hr <;> obtain ⟨rfl, _⟩ := Prod.mk.inj hr <;>
          exact ⟨by simpa using h0, by simpa using h1, h2, h3⟩
      · rcases hr with hr | hr <;> exact absurd (Prod.mk.inj hr).2 (by simp)
    · split at hr
      · next hb =>
        subst hb
        rcases hr with hr | hr
        · exact absurd (Prod.mk.inj hr).2 (by simp)
        · obtain ⟨rfl, _⟩ := Prod.mk.inj hr
          exact ⟨by simpa using h0, by simpa using h1, h2, h3⟩
      · split at hr <;> rcases hr with hr | hr <;> exact absurd (Prod.mk.inj hr).2 (by simp)
  | wouldBlock =>
    simp only [receive] at hr
    rcases hr with hr | hr <;> obtain ⟨rfl, _⟩ := Prod.mk.inj hr <;> exact ⟨h0, h1, h2, h3⟩
  | lost =>
    simp only [receive] at hr
    split at hr <;> rcases hr with hr | hr <;> obtain ⟨rfl, _⟩ := Prod.mk.inj hr <;>
      exact ⟨h0, h1, h2, h3⟩
  | fail =>
    simp only [receive] at hr
    rcases hr with hr | hr <;> obtain ⟨rfl, _⟩ := Prod.mk.inj hr <;> exact ⟨h0, h1, h2, h3⟩

theorem receive_rxinv_chunk {s s' : State} {r : RecvRes} {b : Bytes} (h : RxInv s)
    (hr : receive s r = (s', .chunk b)) : RxInv { s' with rxbs := s'.rxbs ++ b } := by
  obtain ⟨h0, h1, h2, h3⟩ := h
  cases r with
  | data b' =>
    simp only [receive] at hr
    split at hr
    · next hser =>
      split at hr
      · exact absurd (Prod.mk.inj hr).2 (by simp)
      · obtain ⟨rfl, hb⟩ := Prod.mk.inj hr
        obtain rfl := Rx.chunk.inj hb
        refine ⟨?_, fun hc => ?_, h2, h3⟩
        · show s.taken ++ (s.rxbs ++ b') = s.recvd ++ b'
          rw [← List.append_assoc, h0]
        · exact absurd hc.2 (by simp [hser])
    · next hser =>
      split at hr
      · exact absurd (Prod.mk.inj hr).2 (by simp)
      · next hb =>
        split at hr
        · next hw =>
          obtain ⟨rfl, hb'⟩ := Prod.mk.inj hr
          obtain rfl := Rx.chunk.inj hb'
          refine ⟨?_, fun hc => ?_, ?_, fun hn => ?_⟩
          · show s.taken ++ (s.rxbs ++ b') = s.recvd ++ b'
            rw [← List.append_assoc, h0]
          · show (s.wrx ++ [b']).flatten = s.recvd ++ b'
            simp [h1 hc]
          · intro c hc
            simp only [List.mem_append, List.mem_singleton] at hc
            rcases hc with hc | rfl
            · exact h2 c hc
            · exact hb
          · exact absurd ⟨hw, by simpa using hser⟩ hn
        · next hw =>
          obtain ⟨rfl, hb'⟩ := Prod.mk.inj hr
          obtain rfl := Rx.chunk.inj hb'
          refine ⟨?_, fun hc => absurd hc.1 hw, h2, h3⟩
          show s.taken ++ (s.rxbs ++ b') = s.recvd ++ b'
          rw [← List.append_assoc, h0]
  | wouldBlock => simp only [receive] at hr; exact absurd (Prod.mk.inj hr).2 (by simp)
  | lost => simp only [receive] at hr; split at hr <;> exact absurd (Prod.mk.inj hr).2 (by simp)
  | fail => simp only [receive] at hr; exact absurd (Prod.mk.inj hr).2 (by simp)

theorem rxLoop_rxinv (s : State) (env : List RecvRes) (h : RxInv s) : RxInv (rxLoop s env).state := by
  induction env generalizing s with
  | nil => exact h
  | cons r t ih =>
    unfold rxLoop
    split
    · split
      · next s' hr => have := receive_rxinv_nochunk h (Or.inl hr); exact this
      · next s' hr => have := receive_rxinv_nochunk h (Or.inr hr); exact this
      · next s' b hr => exact ih _ (receive_rxinv_chunk h hr)
    · exact h

/-! ### the single-shot variants -/

theorem serviceTxOnce_frame (s : State) : SameRx s (serviceTxOnce s).state := by
  unfold serviceTxOnce
  split
  · exact SameRx.refl s
  · next data rest _ =>
    split
    · have hf := send_frame s data
      split
      · next s' h => rw [h] at hf; exact SameRx.trans hf ⟨rfl, rfl, rfl, rfl, rfl, rfl, rfl, rfl, rfl⟩
      · next s' n h =>
        rw [h] at hf
        split <;> exact SameRx.trans hf ⟨rfl, rfl, rfl, rfl, rfl, rfl, rfl, rfl, rfl⟩
    · exact SameRx.refl s

theorem serviceTxOnce_conserve (s : State) :
    ∃ dropped : Bytes,
      (serviceTxOnce s).state.sent ++ dropped ++ (serviceTxOnce s).state.txes.flatten
        = s.sent ++ s.txes.flatten
      ∧ ((serviceTxOnce s).isRaised = false → dropped = []) := by
  unfold serviceTxOnce
  split
  · next hq => exact ⟨[], by simp [Res.state, hq], fun _ => rfl⟩
  · next data rest hq =>
    rw [hq]
    split
    · split
      · next s' h =>
        refine ⟨data, ?_, fun hr => by simp [Res.isRaised] at hr⟩
        simp [Res.state, (send_none h).1]
      · next s' n h =>
        obtain ⟨hn, hs⟩ := send_some h
        split
        · refine ⟨[], ?_, fun _ => rfl⟩
          simp only [Res.state, hs, List.append_nil, List.flatten_cons, List.append_assoc]
          rw [← List.append_assoc (List.take n data), List.take_append_drop]
        · next hlt =>
          have hn' : data.length ≤ n := Nat.le_of_not_lt hlt
          refine ⟨[], ?_, fun _ => rfl⟩
          simp only [Res.state, hs, List.take_of_length_le hn', List.append_nil, List.flatten_cons,
            List.append_assoc]
    · exact ⟨[], by simp [Res.state, hq], fun _ => rfl⟩

theorem serviceTxOnce_benign (s : State)
    (h : ∀ r ∈ s.sendScript, SendRes.benign s.kind r = true) :
    (serviceTxOnce s).isRaised = false ∧
      ∀ r ∈ (serviceTxOnce s).state.sendScript, SendRes.benign s.kind r = true := by
  unfold serviceTxOnce
  split
  · exact ⟨rfl, h⟩
  · next data rest _ =>
    split
    · have hsc := send_script s data
      have htail : ∀ r ∈ s.sendScript.tail, SendRes.benign s.kind r = true :=
        fun r hr => h r (List.mem_of_mem_tail hr)
      split
      · next s' hsend =>
        exfalso
        have hb := (send_none hsend).2
        cases hs : s.sendScript with
        | nil => rw [hs] at hb; simp [SendRes.benign] at hb
        | cons r t =>
          rw [hs] at hb
          have := h r (by rw [hs]; exact List.mem_cons_self)
          simp only [List.headD_cons] at hb
          rw [hb] at this; exact absurd this (by simp)
      · next s' n hsend =>
        rw [hsend] at hsc
        split <;> exact ⟨rfl, fun r hr => htail r (by simp only [Res.state] at hr; rwa [hsc] at hr)⟩
    · exact ⟨rfl, h⟩

theorem serviceTxOnce_wtx (s : State) (h : WTx s) : WTx (serviceTxOnce s).state := by
  unfold serviceTxOnce
  split
  · exact h
  · next data rest _ =>
    split
    · have hw := send_wtx s data h
      split
      · next s' hs => rw [hs] at hw; exact hw
      · next s' n hs => rw [hs] at hw; split <;> exact hw
    · exact h

theorem serviceReceiveOnce_frame (s : State) : SameTx s (serviceReceiveOnce s).state := by
  unfold serviceReceiveOnce
  split
  · split
    · exact SameTx.refl s
    · next r t _ =>
      have hf := receive_frame s r
      split
      · next s' h => rw [h] at hf; exact SameTx.trans hf ⟨rfl, rfl, rfl, rfl, rfl, rfl, rfl, rfl⟩
      · next s' h => rw [h] at hf; exact SameTx.trans hf ⟨rfl, rfl, rfl, rfl, rfl, rfl, rfl, rfl⟩
      · next s' b h => rw [h] at hf; exact SameTx.trans hf ⟨rfl, rfl, rfl, rfl, rfl, rfl, rfl, rfl⟩
  · exact SameTx.refl s

theorem serviceReceiveOnce_rxinv (s : State) (h : RxInv s) : RxInv (serviceReceiveOnce s).state := by
  unfold serviceReceiveOnce
  split
  · split
    · exact h
    · next r t _ =>
      split
      · next s' hr => have := receive_rxinv_nochunk h (Or.inl hr); exact this
      · next s' hr => have := receive_rxinv_nochunk h (Or.inr hr); exact this
      · next s' b hr => have := receive_rxinv_chunk h hr; exact this
  · exact h

/-! ### progress -/

/-- an answer that accepts at least one byte -/
def SendRes.eager : SendRes → Bool
  | .acc k => decide (1 ≤ k)
  | _ => false

/-- bytes still queued plus number of queued messages: the number of `send` calls that is
always enough to drain the queue when every call accepts at least one byte -/
def pending (q : List Bytes) : Nat := q.flatten.length + q.length

theorem guard_congr {s s' : State} (hk : s'.kind = s.kind) (hc : s'.cutoff = s.cutoff)
    (hl : s'.live = s.live) : guard s' = guard s := by
  unfold guard; rw [hk, hc, hl]

theorem send_eager {s : State} {data : Bytes} {r : SendRes} {t : List SendRes}
    (hs : s.sendScript = r :: t) (he : r.eager = true) :
    ∃ s' n, send s data = (s', some n) ∧ s'.sendScript = t ∧ guard s' = guard s ∧
      (data ≠ [] → 1 ≤ n) := by
  cases r with
  | acc k =>
    have hk : 1 ≤ k := by simpa [SendRes.eager] using he
    unfold send
    rw [hs]
    simp only [List.headD_cons, List.tail_cons, sendWith]
    split
    · refine ⟨_, _, rfl, rfl, guard_congr rfl rfl rfl, fun hd => ?_⟩
      have : 1 ≤ data.length := by cases data with | nil => exact absurd rfl hd | cons _ _ => simp
      omega
    · refine ⟨_, _, rfl, rfl, guard_congr rfl rfl rfl, fun hd => ?_⟩
      have : 1 ≤ data.length := by cases data with | nil => exact absurd rfl hd | cons _ _ => simp
      omega
  | wouldBlock => simp [SendRes.eager] at he
  | lost => simp [SendRes.eager] at he
  | fail => simp [SendRes.eager] at he

theorem pending_cons (d : Bytes) (q : List Bytes) : pending (d :: q) = d.length + pending q + 1 := by
  simp [pending]; omega

/-- one `serviceTxes` call against an eager environment: never raises, keeps the guard and the
eagerness of the script, and either drains the queue or strictly reduces `pending` -/
theorem txLoop_progress (s : State) (q : List Bytes) (hg : guard s = true)
    (he : ∀ r ∈ s.sendScript, SendRes.eager r = true) (hl : pending q ≤ s.sendScript.length) :
    let s' := (txLoop s q).state
    (txLoop s q).isRaised = false ∧ guard s' = true ∧
      (∀ r ∈ s'.sendScript, SendRes.eager r = true) ∧ pending s'.txes ≤ s'.sendScript.length ∧
      (s'.txes = [] ∨ pending s'.txes < pending q) := by
  induction q generalizing s with
  | nil => exact ⟨rfl, hg, he, by simp [Res.state, txLoop, pending], Or.inl rfl⟩
  | cons data rest ih =>
    rw [pending_cons] at hl
    cases hs : s.sendScript with
    | nil => rw [hs] at hl; simp at hl
    | cons r t =>
      have her : r.eager = true := he r (by rw [hs]; exact List.mem_cons_self)
      obtain ⟨s', n, hsend, hscr, hgd, hn⟩ := send_eager (data := data) hs her
      obtain ⟨hnle, _⟩ := send_some hsend
      have het : ∀ r ∈ s'.sendScript, SendRes.eager r = true := by
        intro r' hr'; rw [hscr] at hr'; exact he r' (by rw [hs]; exact List.mem_cons_of_mem _ hr')
      rw [hs] at hl
      simp only [List.length_cons] at hl
      unfold txLoop
      simp only [hg, if_true, hsend]
      split
      · next hlt =>
        have hd : data ≠ [] := by intro h0; rw [h0] at hlt; simp at hlt
        have h1 := hn hd
        refine ⟨rfl, (guard_congr (s := s') rfl rfl rfl).trans (hgd.trans hg), by simpa [Res.state] using het, ?_, Or.inr ?_⟩
        · simp only [Res.state, pending_cons, List.length_drop, hscr]; omega
        · simp only [Res.state, pending_cons, List.length_drop]; omega
      · have := ih s' (by rw [hgd]; exact hg) het (by rw [hscr]; omega)
        obtain ⟨a, b, c, d, e⟩ := this
        refine ⟨a, b, c, d, ?_⟩
        rcases e with e | e
        · exact Or.inl e
        · exact Or.inr (by rw [pending_cons]; omega)

end Ioflo.TxQueue
