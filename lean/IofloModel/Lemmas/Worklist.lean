import IofloModel.Model.Worklist
/-! Helper lemmas for C14 (termination of the resolve loops). -/
namespace Ioflo.Worklist

/-! ## pigeonhole -/

theorem nodup_bounded_length (n : Nat) : ∀ (l : List Nat), l.Nodup → (∀ x ∈ l, x < n) → l.length ≤ n := by
  induction n with
  | zero =>
    intro l _ hb
    cases l with
    | nil => simp
    | cons a t => exact absurd (hb a (List.mem_cons_self ..)) (Nat.not_lt_zero _)
  | succ n ih =>
    intro l hd hb
    by_cases hm : n ∈ l
    · have h1 : (l.erase n).Nodup := hd.erase n
      have h2 : ∀ x ∈ l.erase n, x < n := by
        intro x hx
        have hx' : x ∈ l := List.mem_of_mem_erase hx
        have hne : x ≠ n := by
          intro e; subst e
          exact (List.Nodup.not_mem_erase hd) hx
        have := hb x hx'; omega
      have := ih _ h1 h2
      rw [List.length_erase_of_mem hm] at this
      omega
    · have h2 : ∀ x ∈ l, x < n := by
        intro x hx
        have hne : x ≠ n := by intro e; subst e; exact hm hx
        have := hb x hx; omega
      have := ih l hd h2; omega

/-! ## chains (`under` descent, unchecked climbs) -/

theorem chain_mono {next : Nat → Option Nat} : ∀ (fuel k : Nat) (r : Out), chain next fuel k = some r →
    chain next (fuel + 1) k = some r := by
  intro fuel
  induction fuel with
  | zero => intro k r h; simp [chain] at h
  | succ f ih =>
    intro k r h
    rw [chain] at h ⊢
    cases hn : next k with
    | none => rw [hn] at h; simpa using h
    | some j => rw [hn] at h; simp only [] at h ⊢; exact ih j r h

/-- a rank that decreases along every link: the loop ends within `rank k + 1` steps -/
theorem chain_of_rank {next : Nat → Option Nat} (rank : Nat → Nat)
    (h : ∀ k j, next k = some j → rank j < rank k) : ∀ (fuel k : Nat), rank k < fuel → chain next fuel k = some .done := by
  intro fuel
  induction fuel with
  | zero => intro k hk; omega
  | succ f ih =>
    intro k hk
    rw [chain]
    cases hn : next k with
    | none => rfl
    | some j => simp only []; exact ih j (by have := h k j hn; omega)

/-- a set of frames closed under the link (every member has a link, to a member): from inside it the loop
never ends -/
theorem chain_diverges {next : Nat → Option Nat} (C : Nat → Prop)
    (hC : ∀ k, C k → ∃ j, next k = some j ∧ C j) : ∀ (fuel k : Nat), C k → chain next fuel k = none := by
  intro fuel
  induction fuel with
  | zero => intro k _; rfl
  | succ f ih =>
    intro k hk
    obtain ⟨j, hj, hcj⟩ := hC k hk
    rw [chain, hj]; exact ih j hcj

/-! ## `resolveOverLinks` -/

theorem climb_of_rank {over : Nat → Option Nat} (self : Nat) (rank : Nat → Nat)
    (h : ∀ k j, over k = some j → rank j < rank k) :
    ∀ (fuel k : Nat), rank k < fuel → ∃ r, climb over self fuel k = some r := by
  intro fuel
  induction fuel with
  | zero => intro k hk; omega
  | succ f ih =>
    intro k hk
    rw [climb]
    cases hn : over k with
    | none => exact ⟨_, rfl⟩
    | some j =>
      simp only []
      split
      · exact ⟨_, rfl⟩
      · exact ih j (by have := h k j hn; omega)

/-- a closed set of frames that does not contain the start frame: the loop test `over == self` never fires -/
theorem climb_diverges {over : Nat → Option Nat} (self : Nat) (C : Nat → Prop) (hs : ¬ C self)
    (hC : ∀ k, C k → ∃ j, over k = some j ∧ C j) :
    ∀ (fuel k : Nat), (C k ∨ ∃ j, over k = some j ∧ C j) → climb over self fuel k = none := by
  intro fuel
  induction fuel with
  | zero => intro k _; rfl
  | succ f ih =>
    intro k hk
    have : ∃ j, over k = some j ∧ C j := by
      rcases hk with hk | hk
      · exact hC k hk
      · exact hk
    obtain ⟨j, hj, hcj⟩ := this
    rw [climb, hj]
    simp only []
    have hne : (j == self) = false := by
      cases e : j == self with
      | false => rfl
      | true => exact absurd (by rw [← (beq_iff_eq.mp e)]; exact hcj) hs
    rw [hne]
    exact ih j (Or.inl hcj)

/-- `n` over links lead from `k` back to `self`: the loop test fires within `n` steps -/
def iter (next : Nat → Option Nat) : Nat → Nat → Option Nat
  | 0, k => some k
  | n + 1, k => match next k with
    | none => none
    | some j => iter next n j

theorem climb_detects {over : Nat → Option Nat} (self : Nat) :
    ∀ (n k : Nat), iter over (n + 1) k = some self → climb over self (n + 1) k = some .loopError := by
  intro n
  induction n with
  | zero =>
    intro k h
    rw [iter] at h
    cases hn : over k with
    | none => rw [hn] at h; cases h
    | some j =>
      rw [hn] at h; simp only [iter] at h
      cases h
      simp [climb, hn]
  | succ n ih =>
    intro k h
    rw [iter] at h
    cases hn : over k with
    | none => rw [hn] at h; cases h
    | some j =>
      rw [hn] at h; simp only [] at h
      rw [climb, hn]
      simp only []
      split
      · rfl
      · exact ih j h

/-! ## the repaired loops always end -/

theorem chainChecked_total {next : Nat → Option Nat} (n : Nat) (hb : ∀ k j, next k = some j → j < n) :
    ∀ (fuel : Nat) (seen : List Nat) (k : Nat), seen.Nodup → (∀ x ∈ seen, x < n) →
      n + 1 ≤ fuel + seen.length → ∃ r, chainChecked next fuel seen k = some r := by
  intro fuel
  induction fuel with
  | zero =>
    intro seen k hd hbs hl
    have := nodup_bounded_length n seen hd hbs
    omega
  | succ f ih =>
    intro seen k hd hbs hl
    rw [chainChecked]
    cases hn : next k with
    | none => exact ⟨_, rfl⟩
    | some j =>
      simp only []
      split
      · exact ⟨_, rfl⟩
      · rename_i hc
        have hnm : j ∉ seen := by simpa using hc
        refine ih (j :: seen) j (List.nodup_cons.mpr ⟨hnm, hd⟩) ?_ (by simp; omega)
        intro x hx
        rcases List.mem_cons.mp hx with rfl | hx
        · exact hb k _ hn
        · exact hbs x hx

/-! ## the clone worklist -/

/-- work a framer causes: itself and, recursively to depth `b`, everything its clones cause -/
def weight (moots : Nat → List Nat) : Nat → Nat → Nat
  | 0, _ => 1
  | b + 1, k => 1 + ((moots k).map (weight moots b)).sum

def total (moots : Nat → List Nat) (ps : List (Nat × Nat)) : Nat := (ps.map (fun p => weight moots p.2 p.1)).sum

theorem total_append (moots : Nat → List Nat) (a b : List (Nat × Nat)) :
    total moots (a ++ b) = total moots a + total moots b := by
  simp [total, List.sum_append]

theorem run_of_budget {moots : Nat → List Nat} (rank : Nat → Nat)
    (h : ∀ k j, j ∈ moots k → rank j < rank k) :
    ∀ (m : Nat) (ps : List (Nat × Nat)), (∀ p ∈ ps, rank p.1 < p.2) → total moots ps = m →
      run moots (m + 1) (ps.map (·.1)) = some ps.length ∨ ∃ n, run moots (m + 1) (ps.map (·.1)) = some n := by
  intro m
  induction m using Nat.strongRecOn with
  | _ m ih =>
    intro ps hp hm
    cases ps with
    | nil => left; simp [run]
    | cons p rest =>
      right
      obtain ⟨k, b⟩ := p
      have hkb := hp (k, b) (List.mem_cons_self ..)
      simp only [] at hkb
      cases b with
      | zero => omega
      | succ b =>
        have hw : weight moots (b + 1) k = 1 + ((moots k).map (weight moots b)).sum := rfl
        let ps' : List (Nat × Nat) := rest ++ (moots k).map (fun j => (j, b))
        have hps' : ∀ q ∈ ps', rank q.1 < q.2 := by
          intro q hq
          rcases List.mem_append.mp hq with hq | hq
          · exact hp q (List.mem_cons_of_mem _ hq)
          · obtain ⟨j, hj, rfl⟩ := List.mem_map.mp hq
            have := h k j hj
            simp only []; omega
        have htot : total moots ps' = m - 1 ∧ 1 ≤ m := by
          have e1 : total moots ((k, b + 1) :: rest) = weight moots (b + 1) k + total moots rest := by
            simp [total]
          have e2 : total moots ((moots k).map (fun j => (j, b))) = ((moots k).map (weight moots b)).sum := by
            simp [total, List.map_map, Function.comp_def]
          rw [e1, hw] at hm
          rw [total_append, e2]
          omega
        have hmap : ps'.map (·.1) = rest.map (·.1) ++ moots k := by
          simp [ps', List.map_append, List.map_map, Function.comp_def]
        have := ih (m - 1) (by omega) ps' hps' htot.1
        have hrun : ∃ n, run moots (m - 1 + 1) (rest.map (·.1) ++ moots k) = some n := by
          rw [← hmap]
          rcases this with h1 | h1
          · exact ⟨_, h1⟩
          · exact h1
        obtain ⟨n, hn⟩ := hrun
        have em : m + 1 = (m - 1 + 1) + 1 := by omega
        refine ⟨n + 1, ?_⟩
        rw [em]
        simp only [List.map_cons]
        rw [run, hn]; rfl

/-- a closed set of framers (every member clones some member): the worklist never empties -/
theorem run_diverges {moots : Nat → List Nat} (C : Nat → Prop)
    (hC : ∀ k, C k → ∃ j, j ∈ moots k ∧ C j) :
    ∀ (fuel : Nat) (wl : List Nat), (∃ k, k ∈ wl ∧ C k) → run moots fuel wl = none := by
  intro fuel
  induction fuel with
  | zero => intro wl _; rfl
  | succ f ih =>
    intro wl hwl
    cases wl with
    | nil => obtain ⟨k, hk, _⟩ := hwl; cases hk
    | cons a rest =>
      rw [run]
      have : ∃ k, k ∈ rest ++ moots a ∧ C k := by
        obtain ⟨k, hk, hck⟩ := hwl
        rcases List.mem_cons.mp hk with rfl | hk
        · obtain ⟨j, hj, hcj⟩ := hC k hck
          exact ⟨j, List.mem_append_right _ hj, hcj⟩
        · exact ⟨k, List.mem_append_left _ hk, hck⟩
      rw [ih _ this]; rfl

/-! ### the repaired clone worklist (lineage check) -/

/-- work bound of a worklist entry that may still grow `d` levels, with at most `B` moots per framer -/
def wBound (B : Nat) : Nat → Nat
  | 0 => 1
  | d + 1 => 1 + B * wBound B d

theorem wBound_pos (B d : Nat) : 1 ≤ wBound B d := by cases d <;> simp [wBound] <;> omega

def totalC (n B : Nat) (wl : List (Nat × List Nat)) : Nat := (wl.map (fun p => wBound B (n - p.2.length))).sum

theorem totalC_append (n B : Nat) (a b : List (Nat × List Nat)) :
    totalC n B (a ++ b) = totalC n B a + totalC n B b := by
  simp [totalC, List.sum_append]

theorem sum_const_le (c B : Nat) : ∀ (l : List Nat), l.length ≤ B → (l.map (fun _ => c)).sum ≤ B * c := by
  intro l
  induction l generalizing B with
  | nil => intro _; simp
  | cons a l ih =>
    intro h
    cases B with
    | zero => simp at h
    | succ B =>
      have := ih B (by simpa using h)
      simp only [List.map_cons, List.sum_cons]
      rw [Nat.succ_mul]; omega

/-- a lineage is a duplicate-free list of framers `< n` -/
def LinOK (n : Nat) (lin : List Nat) : Prop := lin.Nodup ∧ ∀ x ∈ lin, x < n

theorem LinOK_snoc {n : Nat} {lin : List Nat} {j : Nat} (h : LinOK n lin) (hj : j < n) (hn : j ∉ lin) :
    LinOK n (lin ++ [j]) := by
  refine ⟨?_, ?_⟩
  · rw [List.nodup_append]
    refine ⟨h.1, by simp, ?_⟩
    intro a ha b hb
    simp at hb
    subst hb
    intro e; subst e; exact hn ha
  · intro x hx
    rcases List.mem_append.mp hx with hx | hx
    · exact h.2 x hx
    · simp at hx; omega

/-- the repaired worklist ends on every clone table over `n` framers with at most `B` moots each -/
theorem runChecked_total {moots : Nat → List Nat} (n B : Nat) (hb : ∀ k j, j ∈ moots k → j < n)
    (hB : ∀ k, (moots k).length ≤ B) :
    ∀ (m : Nat) (wl : List (Nat × List Nat)), (∀ p ∈ wl, LinOK n p.2) → totalC n B wl ≤ m →
      ∃ r, runChecked moots (m + 1) wl = some r := by
  intro m
  induction m with
  | zero =>
    intro wl _ ht
    cases wl with
    | nil => exact ⟨_, rfl⟩
    | cons p rest =>
      have := wBound_pos B (n - p.2.length)
      simp [totalC] at ht
      omega
  | succ m ih =>
    intro wl hl ht
    cases wl with
    | nil => exact ⟨_, rfl⟩
    | cons p rest =>
      obtain ⟨k, lin⟩ := p
      rw [runChecked]
      by_cases hc : (moots k).any (fun j => lin.contains j) = true
      · rw [if_pos hc]; exact ⟨_, rfl⟩
      · rw [if_neg hc]
        have hlin : LinOK n lin := hl (k, lin) (List.mem_cons_self ..)
        have hfresh : ∀ j ∈ moots k, j ∉ lin := by
          intro j hj hin
          apply hc
          rw [List.any_eq_true]
          exact ⟨j, hj, by simpa using hin⟩
        let kids : List (Nat × List Nat) := (moots k).map (fun j => (j, lin ++ [j]))
        have hkids : ∀ q ∈ kids, LinOK n q.2 := by
          intro q hq
          obtain ⟨j, hj, rfl⟩ := List.mem_map.mp hq
          exact LinOK_snoc hlin (hb k j hj) (hfresh j hj)
        have hl' : ∀ q ∈ rest ++ kids, LinOK n q.2 := by
          intro q hq
          rcases List.mem_append.mp hq with hq | hq
          · exact hl q (List.mem_cons_of_mem _ hq)
          · exact hkids q hq
        have ht' : totalC n B (rest ++ kids) ≤ m := by
          have e1 : totalC n B ((k, lin) :: rest) = wBound B (n - lin.length) + totalC n B rest := by
            simp [totalC]
          rw [e1] at ht
          rw [totalC_append]
          cases hmk : moots k with
          | nil =>
            have : kids = [] := by simp [kids, hmk]
            rw [this]
            have := wBound_pos B (n - lin.length)
            simp [totalC] at *
            omega
          | cons j js =>
            have hj : j ∈ moots k := by rw [hmk]; exact List.mem_cons_self ..
            have hlen := nodup_bounded_length n _ (LinOK_snoc hlin (hb k j hj) (hfresh j hj)).1
              (LinOK_snoc hlin (hb k j hj) (hfresh j hj)).2
            simp at hlen
            obtain ⟨d, hd⟩ : ∃ d, n - lin.length = d + 1 := ⟨n - lin.length - 1, by omega⟩
            have ek : totalC n B kids = ((moots k).map (fun _ => wBound B d)).sum := by
              simp only [totalC, kids, List.map_map, Function.comp_def, List.length_append, List.length_cons,
                List.length_nil]
              have : n - (lin.length + (0 + 1)) = d := by omega
              rw [this]
            have := sum_const_le (wBound B d) B (moots k) (hB k)
            rw [ek]
            rw [hd] at ht
            simp only [wBound] at ht
            omega
        obtain ⟨r, hr⟩ := ih (rest ++ kids) hl' ht'
        exact ⟨r.map (· + 1), by rw [hr]; rfl⟩

/-- the repair changes nothing where it does not raise: the same framers are presolved as by the loop as found -/
theorem runChecked_conservative {moots : Nat → List Nat} :
    ∀ (fuel : Nat) (wl : List (Nat × List Nat)) (c : Nat), runChecked moots fuel wl = some (some c) →
      run moots fuel (wl.map (·.1)) = some c := by
  intro fuel
  induction fuel with
  | zero => intro wl c h; simp [runChecked] at h
  | succ f ih =>
    intro wl c h
    cases wl with
    | nil => simp [runChecked] at h; subst h; rfl
    | cons p rest =>
      obtain ⟨k, lin⟩ := p
      rw [runChecked] at h
      split at h
      · cases h
      · cases hr : runChecked moots f (rest ++ (moots k).map (fun j => (j, lin ++ [j]))) with
        | none => rw [hr] at h; cases h
        | some r =>
          rw [hr] at h
          cases r with
          | none => cases h
          | some c' =>
            have := ih _ c' hr
            simp only [List.map_append, List.map_map, Function.comp_def, List.map_id'] at this
            simp only [List.map_cons]
            rw [run, this]
            simpa using h

end Ioflo.Worklist
