import IofloModel.Model.Wrap
/-! Helper lemmas for C43 (angle wrapping): Python floor-mod on exact rationals. Core Lean only. -/
namespace Ioflo.Wrap

theorem pymod_eq (a w : Rat) : pymod a w = a - ((a / w).floor : Rat) * w := by
  unfold pymod; grind

theorem pymod_pos (a w : Rat) (hw : 0 < w) : 0 ≤ pymod a w ∧ pymod a w < w := by
  unfold pymod
  have h1 := Rat.floor_le (a / w)
  have h2 := Rat.lt_floor_add_one (a / w)
  have e : a / w * w = a := Rat.div_mul_cancel (Rat.ne_of_gt hw)
  have h3 := Rat.mul_le_mul_of_nonneg_right h1 (Rat.le_of_lt hw)
  have h4 := Rat.mul_lt_mul_of_pos_right h2 hw
  rw [e] at h3 h4
  constructor <;> grind

theorem pymod_neg (a w : Rat) (hw : w < 0) : w < pymod a w ∧ pymod a w ≤ 0 := by
  unfold pymod
  have h1 := Rat.floor_le (a / w)
  have h2 := Rat.lt_floor_add_one (a / w)
  have hw' : 0 < -w := by grind
  have e : a / w * w = a := Rat.div_mul_cancel (Rat.ne_of_lt hw)
  have h3 := Rat.mul_le_mul_of_nonneg_right h1 (Rat.le_of_lt hw')
  have h4 := Rat.mul_lt_mul_of_pos_right h2 hw'
  constructor <;> grind

/-- floor-mod is the unique representative in the half-open interval -/
theorem pymod_unique_pos (a w r : Rat) (k : Int) (hw : 0 < w) (h0 : 0 ≤ r) (h1 : r < w)
    (hk : r = a - (k : Rat) * w) : r = pymod a w := by
  have key : (a / w).floor = k := by
    have e : a / w = (k : Rat) + r / w := by
      have hne : w ≠ 0 := Rat.ne_of_gt hw
      have : a = ((k : Rat) + r / w) * w := by
        rw [Rat.add_mul, Rat.div_mul_cancel hne]; grind
      rw [this, Rat.mul_div_cancel hne]
    have hlo : 0 ≤ r / w := by
      rw [Rat.div_def]; exact Rat.mul_nonneg h0 (Rat.le_of_lt (Rat.inv_pos.2 hw))
    have hhi : r / w < 1 := by
      rw [Rat.div_lt_iff hw]; grind
    apply Int.le_antisymm
    · have : (a / w).floor < k + 1 := by
        rw [Rat.floor_lt_iff, e]; grind
      omega
    · rw [Rat.le_floor_iff, e]; grind
  rw [pymod_eq, key, hk]


theorem pymod_neg_neg (a w : Rat) (hw : w ≠ 0) : pymod (-a) (-w) = -(pymod a w) := by
  unfold pymod
  have : -a / -w = a / w := by
    have hnw : -w ≠ 0 := by grind
    have h1 : a / w * (-w) = -a := by
      have := Rat.div_mul_cancel (a := a) hw
      grind
    calc -a / -w = (a / w * (-w)) / (-w) := by rw [h1]
      _ = a / w := Rat.mul_div_cancel hnw
  rw [this]; grind

theorem pymod_unique_neg (a w r : Rat) (k : Int) (hw : w < 0) (h0 : w < r) (h1 : r ≤ 0)
    (hk : r = a - (k : Rat) * w) : r = pymod a w := by
  have h := pymod_unique_pos (-a) (-w) (-r) k (by grind) (by grind) (by grind) (by grind)
  rw [pymod_neg_neg a w (Rat.ne_of_lt hw)] at h
  grind

theorem pabs_of_nonneg {x : Rat} (h : 0 ≤ x) : pabs x = x := by
  unfold pabs; split <;> grind

theorem pabs_of_nonpos {x : Rat} (h : x ≤ 0) : pabs x = -x := by
  unfold pabs; split <;> grind

/-- `wrap2` for a positive wrap: the full-circle residue, lowered by a full circle when it is
beyond the half circle -/
theorem wrap2_pos (a w : Rat) (hw : 0 < w) :
    wrap2 a w = if pymod a (w * 2) ≤ w then pymod a (w * 2) else pymod a (w * 2) - w * 2 := by
  have hr := pymod_pos a (w * 2) (by grind)
  unfold wrap2
  simp only [ne_eq, Rat.ne_of_gt hw, not_false_eq_true, if_true]
  rw [pabs_of_nonneg hr.1, pabs_of_nonneg (Rat.le_of_lt hw)]
  by_cases h : pymod a (w * 2) ≤ w
  · have : ¬ (pymod a (w * 2) > w) := by grind
    simp only [this, h, if_true, if_false]
  · have h' : pymod a (w * 2) > w := by grind
    simp only [h', h, if_true, if_false]
    exact (pymod_unique_neg (pymod a (w * 2) - w) (-w) (pymod a (w * 2) - w * 2) (-1)
      (by grind) (by grind) (by grind) (by grind)).symm

theorem wrap2_neg (a w : Rat) (hw : w < 0) :
    wrap2 a w = if w ≤ pymod a (w * 2) then pymod a (w * 2) else pymod a (w * 2) - w * 2 := by
  have hr := pymod_neg a (w * 2) (by grind)
  unfold wrap2
  simp only [ne_eq, Rat.ne_of_lt hw, not_false_eq_true, if_true]
  rw [pabs_of_nonpos hr.2, pabs_of_nonpos (Rat.le_of_lt hw)]
  by_cases h : w ≤ pymod a (w * 2)
  · have : ¬ (-pymod a (w * 2) > -w) := by grind
    simp only [this, h, if_true, if_false]
  · have h' : -pymod a (w * 2) > -w := by grind
    simp only [h', h, if_true, if_false]
    exact (pymod_unique_pos (pymod a (w * 2) - w) (-w) (pymod a (w * 2) - w * 2) (-1)
      (by grind) (by grind) (by grind) (by grind)).symm


/-! ## rounding to binary64 preserves sign and zero -/


theorem two_pow_pos_rat (k : Nat) : (0 : Rat) < ((2 ^ k : Nat) : Rat) :=
  Rat.natCast_pos.2 (Nat.pow_pos (by omega))

theorem scale2_pos {y : Rat} (e : Int) (h : 0 < y) : 0 < scale2 y e := by
  unfold scale2
  split
  · exact Rat.mul_pos h (two_pow_pos_rat _)
  · rw [Rat.div_def]; exact Rat.mul_pos h (Rat.inv_pos.2 (two_pow_pos_rat _))

theorem roundEven_pos {m : Rat} (h : 1 ≤ m) : 0 < roundEven m := by
  have hf : 1 ≤ m.floor := Rat.le_floor_iff.2 (by simpa using h)
  unfold roundEven
  simp only []
  split
  · omega
  · split
    · omega
    · split <;> omega

/-- a positive rational scaled by `2^t` is at least 1 as soon as `t` compensates the size gap of
denominator and numerator -/
theorem one_le_scale2 (x : Rat) (hx : 0 < x) (t : Int)
    (ht : (Nat.log2 x.den : Int) + 1 ≤ (Nat.log2 x.num.toNat : Int) + t) : 1 ≤ scale2 x t := by
  have hnum : 0 < x.num := by
    have h1 : 0 ≤ x.num := Rat.num_nonneg.2 (Rat.le_of_lt hx)
    have h2 : x.num ≠ 0 := fun e => by
      have := Rat.num_eq_zero.1 e; rw [this] at hx; exact absurd hx (by decide)
    omega
  have hden : 0 < x.den := x.den_pos
  have hxe : x = ((x.num.toNat : Nat) : Rat) / ((x.den : Nat) : Rat) := by
    have h1 := Rat.mkRat_self x
    rw [Rat.mkRat_eq_div] at h1
    have : ((x.num.toNat : Nat) : Rat) = ((x.num : Int) : Rat) := by
      rw [← Rat.intCast_natCast]; congr 1; omega
    rw [this]; exact h1.symm
  have hn0 : x.num.toNat ≠ 0 := by omega
  have hlp := Nat.log2_self_le hn0
  have hlq := @Nat.lt_log2_self x.den
  generalize x.num.toNat = N at *
  generalize x.den = D at *
  have hD : (0 : Rat) < (D : Rat) := Rat.natCast_pos.2 hden
  unfold scale2
  split
  · next h0 =>
    -- x * 2^k ≥ 1  ⟸  D ≤ N * 2^k
    have hk : Nat.log2 D + 1 ≤ Nat.log2 N + t.toNat := by omega
    have hnat : D ≤ N * 2 ^ t.toNat := by
      calc D ≤ 2 ^ (Nat.log2 D + 1) := Nat.le_of_lt hlq
        _ ≤ 2 ^ (Nat.log2 N + t.toNat) := Nat.pow_le_pow_right (by omega) hk
        _ = 2 ^ Nat.log2 N * 2 ^ t.toNat := Nat.pow_add ..
        _ ≤ N * 2 ^ t.toNat := Nat.mul_le_mul_right _ hlp
    have hr : (D : Rat) ≤ (N : Rat) * ((2 ^ t.toNat : Nat) : Rat) := by
      rw [← Rat.natCast_mul]; exact Rat.natCast_le_natCast.2 hnat
    rw [hxe]
    have : (N : Rat) / (D : Rat) * ((2 ^ t.toNat : Nat) : Rat)
        = ((N : Rat) * ((2 ^ t.toNat : Nat) : Rat)) / (D : Rat) := by
      rw [Rat.div_def, Rat.div_def]; grind
    rw [this]
    apply Rat.not_lt.1
    rw [Rat.div_lt_iff hD]
    apply Rat.not_lt.2
    simpa using hr
  · next h0 =>
    have hk : Nat.log2 D + 1 + (-t).toNat ≤ Nat.log2 N := by omega
    have hnat : D * 2 ^ (-t).toNat ≤ N := by
      calc D * 2 ^ (-t).toNat ≤ 2 ^ (Nat.log2 D + 1) * 2 ^ (-t).toNat :=
            Nat.mul_le_mul_right _ (Nat.le_of_lt hlq)
        _ = 2 ^ (Nat.log2 D + 1 + (-t).toNat) := (Nat.pow_add ..).symm
        _ ≤ 2 ^ Nat.log2 N := Nat.pow_le_pow_right (by omega) hk
        _ ≤ N := hlp
    have hr : (D : Rat) * ((2 ^ (-t).toNat : Nat) : Rat) ≤ (N : Rat) := by
      rw [← Rat.natCast_mul]; exact Rat.natCast_le_natCast.2 hnat
    have hP := two_pow_pos_rat (-t).toNat
    rw [hxe]
    apply Rat.not_lt.1
    rw [Rat.div_lt_iff hP, Rat.div_lt_iff hD]
    apply Rat.not_lt.2
    have : (1 : Rat) * ((2 ^ (-t).toNat : Nat) : Rat) * (D : Rat) = (D : Rat) * ((2 ^ (-t).toNat : Nat) : Rat) := by
      grind
    rw [this]; exact hr

theorem rnPos_pos (x : Rat) (hx : 0 < x) : 0 < rnPos x := by
  unfold rnPos
  simp only []
  apply scale2_pos
  apply Rat.intCast_pos.2
  apply roundEven_pos
  apply one_le_scale2 x hx
  split <;> omega

theorem rn_eq_zero_iff (x : Rat) : rn x = 0 ↔ x = 0 := by
  constructor
  · intro h
    apply Classical.byContradiction
    intro hx
    unfold rn at h
    simp only [hx, if_false] at h
    split at h
    · next hneg =>
      have := rnPos_pos (-x) (by grind)
      grind
    · next hneg =>
      have := rnPos_pos x (by grind)
      grind
  · intro h; subst h; simp [rn]




/-! ## powers of two with integer exponent -/

def pow2 (e : Int) : Rat := (2 : Rat) ^ e

theorem pow2_pos (e : Int) : 0 < pow2 e := Rat.zpow_pos (by decide)

theorem pow2_add (a b : Int) : pow2 (a + b) = pow2 a * pow2 b :=
  Rat.zpow_add (by decide) a b

theorem pow2_zero : pow2 0 = 1 := Rat.zpow_zero _

theorem pow2_nat (k : Nat) : pow2 (k : Int) = ((2 ^ k : Nat) : Rat) := by
  unfold pow2
  rw [Rat.zpow_natCast, Rat.natCast_pow]; rfl

theorem one_le_pow2_nat (k : Nat) : 1 ≤ pow2 (k : Int) := by
  rw [pow2_nat]
  have : 1 ≤ 2 ^ k := Nat.one_le_two_pow
  have := Rat.natCast_le_natCast.2 this
  simpa using this

theorem pow2_mono {a b : Int} (h : a ≤ b) : pow2 a ≤ pow2 b := by
  obtain ⟨k, hk⟩ : ∃ k : Nat, b = a + k := ⟨(b - a).toNat, by omega⟩
  rw [hk, pow2_add]
  have h1 := one_le_pow2_nat k
  have h2 := pow2_pos a
  have := Rat.mul_le_mul_of_nonneg_left h1 (Rat.le_of_lt h2)
  rw [Rat.mul_one] at this; exact this

theorem pow2_neg_mul (e : Int) : pow2 (-e) * pow2 e = 1 := by
  rw [← pow2_add, Int.add_left_neg, pow2_zero]

theorem scale2_eq (x : Rat) (e : Int) : scale2 x e = x * pow2 e := by
  unfold scale2
  split
  · next h =>
    have : e = (e.toNat : Int) := by omega
    have hp : pow2 e = ((2 ^ e.toNat : Nat) : Rat) := by
      conv => lhs; rw [this]
      exact pow2_nat _
    rw [hp]
  · next h =>
    have he : e = -((-e).toNat : Int) := by omega
    have hp := pow2_neg_mul ((-e).toNat : Int)
    rw [← he, pow2_nat] at hp
    have hpos := two_pow_pos_rat (-e).toNat
    rw [Rat.div_def]
    congr 1
    exact Rat.inv_eq_of_mul_eq_one (by rw [Rat.mul_comm]; exact hp)




/-! ## roundEven -/

theorem roundEven_cases (m : Rat) : roundEven m = m.floor ∨ roundEven m = m.floor + 1 := by
  unfold roundEven
  simp only []
  split
  · left; rfl
  · split
    · right; rfl
    · split
      · left; rfl
      · right; rfl

/-- the result is within one half of the argument -/
theorem roundEven_near (m : Rat) :
    (roundEven m : Rat) - 1 / 2 ≤ m ∧ m ≤ (roundEven m : Rat) + 1 / 2 := by
  have h1 := Rat.floor_le m
  have h2 := Rat.lt_floor_add_one m
  rw [Rat.intCast_add] at h2
  unfold roundEven
  simp only []
  split
  · next h => constructor <;> grind
  · next h =>
    split
    · next h' => rw [Rat.intCast_add]; constructor <;> grind
    · next h' =>
      have he : m - (m.floor : Rat) = 1 / 2 := by grind
      split
      · constructor <;> grind
      · rw [Rat.intCast_add]; constructor <;> grind

theorem le_roundEven {m : Rat} {n : Int} (h : (n : Rat) ≤ m) : n ≤ roundEven m := by
  have hf : n ≤ m.floor := Rat.le_floor_iff.2 h
  rcases roundEven_cases m with e | e <;> omega

theorem roundEven_le {m : Rat} {n : Int} (h : m ≤ (n : Rat)) : roundEven m ≤ n := by
  by_cases heq : m = (n : Rat)
  · subst heq
    unfold roundEven
    simp only [Rat.floor_intCast]
    have : (n : Rat) - (n : Rat) < 1 / 2 := by grind
    simp [this]
  · have hlt : m < (n : Rat) := by grind
    have hf : m.floor < n := Rat.floor_lt_iff.2 hlt
    rcases roundEven_cases m with e | e <;> omega

theorem roundEven_mono {a b : Rat} (h : a ≤ b) : roundEven a ≤ roundEven b := by
  apply Classical.byContradiction
  intro hc
  have hlt : roundEven b + 1 ≤ roundEven a := by omega
  have hlt' : ((roundEven b + 1 : Int) : Rat) ≤ (roundEven a : Rat) := Rat.intCast_le_intCast.2 hlt
  rw [Rat.intCast_add] at hlt'
  have ha := roundEven_near a
  have hb := roundEven_near b
  have hab : a = b := by grind
  subst hab
  omega




/-! ## the exponent `rnPos` chooses -/

/-- first guess of the exponent -/
def exp0 (x : Rat) : Int := (Nat.log2 x.num.toNat : Int) - (Nat.log2 x.den : Int) - 52

/-- the exponent used by `rnPos` -/
def expOf (x : Rat) : Int :=
  if scale2 x (-(exp0 x)) < ((2 ^ 52 : Nat) : Rat) then exp0 x - 1 else exp0 x

theorem rnPos_eq (x : Rat) :
    rnPos x = (roundEven (x * pow2 (-(expOf x))) : Rat) * pow2 (expOf x) := by
  unfold rnPos expOf exp0
  simp only [scale2_eq]

/-- numerator and denominator against powers of two -/
theorem num_den_bounds (x : Rat) (hx : 0 < x) :
    ∃ N D : Rat, x * D = N ∧ 0 < D ∧
      pow2 (Nat.log2 x.num.toNat) ≤ N ∧ N < pow2 ((Nat.log2 x.num.toNat : Int) + 1) ∧
      pow2 (Nat.log2 x.den) ≤ D ∧ D < pow2 ((Nat.log2 x.den : Int) + 1) := by
  have hnum : 0 < x.num := by
    have h1 : 0 ≤ x.num := Rat.num_nonneg.2 (Rat.le_of_lt hx)
    have h2 : x.num ≠ 0 := fun e => by
      have := Rat.num_eq_zero.1 e; rw [this] at hx; exact absurd hx (by decide)
    omega
  have hden : 0 < x.den := x.den_pos
  have hD : (0 : Rat) < ((x.den : Nat) : Rat) := Rat.natCast_pos.2 hden
  have hxe : x = ((x.num.toNat : Nat) : Rat) / ((x.den : Nat) : Rat) := by
    have h1 := Rat.mkRat_self x
    rw [Rat.mkRat_eq_div] at h1
    have : ((x.num.toNat : Nat) : Rat) = ((x.num : Int) : Rat) := by
      rw [← Rat.intCast_natCast]; congr 1; omega
    rw [this]; exact h1.symm
  have hn0 : x.num.toNat ≠ 0 := by omega
  have hd0 : x.den ≠ 0 := by omega
  refine ⟨((x.num.toNat : Nat) : Rat), ((x.den : Nat) : Rat), ?_, hD, ?_, ?_, ?_, ?_⟩
  · have := congrArg (fun y => y * ((x.den : Nat) : Rat)) hxe
    rw [this]
    exact Rat.div_mul_cancel (Rat.ne_of_gt hD)
  · rw [pow2_nat]; exact Rat.natCast_le_natCast.2 (Nat.log2_self_le hn0)
  · have : ((Nat.log2 x.num.toNat : Int) + 1) = ((Nat.log2 x.num.toNat + 1 : Nat) : Int) := by omega
    rw [this, pow2_nat]; exact Rat.natCast_lt_natCast.2 Nat.lt_log2_self
  · rw [pow2_nat]; exact Rat.natCast_le_natCast.2 (Nat.log2_self_le hd0)
  · have : ((Nat.log2 x.den : Int) + 1) = ((Nat.log2 x.den + 1 : Nat) : Int) := by omega
    rw [this, pow2_nat]; exact Rat.natCast_lt_natCast.2 Nat.lt_log2_self

theorem pow2_52 : ((2 ^ 52 : Nat) : Rat) = pow2 52 := (pow2_nat 52).symm

/-- with the first guess the scaled value lies strictly between `2^51` and `2^53` -/
theorem exp0_range (x : Rat) (hx : 0 < x) :
    pow2 51 < x * pow2 (-(exp0 x)) ∧ x * pow2 (-(exp0 x)) < pow2 53 := by
  obtain ⟨N, D, hND, hD, hN1, hN2, hD1, hD2⟩ := num_den_bounds x hx
  generalize hlp : (Nat.log2 x.num.toNat : Int) = lp at *
  generalize hlq : (Nat.log2 x.den : Int) = lq at *
  have he : -(exp0 x) = lq + 52 - lp := by unfold exp0; rw [hlp, hlq]; omega
  rw [he]
  have hP := pow2_pos (lq + 52 - lp)
  -- multiply through by D > 0
  constructor
  · apply Rat.lt_of_mul_lt_mul_right (c := D) _ (Rat.le_of_lt hD)
    have e1 : x * pow2 (lq + 52 - lp) * D = N * pow2 (lq + 52 - lp) := by rw [← hND]; grind
    rw [e1]
    have s1 : pow2 51 * D < pow2 51 * pow2 (lq + 1) := Rat.mul_lt_mul_of_pos_left hD2 (pow2_pos 51)
    have s2 : pow2 51 * pow2 (lq + 1) = pow2 lp * pow2 (lq + 52 - lp) := by
      rw [← pow2_add, ← pow2_add]; congr 1; omega
    have s3 : pow2 lp * pow2 (lq + 52 - lp) ≤ N * pow2 (lq + 52 - lp) :=
      Rat.mul_le_mul_of_nonneg_right hN1 (Rat.le_of_lt hP)
    rw [s2] at s1
    grind
  · apply Rat.lt_of_mul_lt_mul_right (c := D) _ (Rat.le_of_lt hD)
    have e1 : x * pow2 (lq + 52 - lp) * D = N * pow2 (lq + 52 - lp) := by rw [← hND]; grind
    rw [e1]
    have s1 : N * pow2 (lq + 52 - lp) < pow2 (lp + 1) * pow2 (lq + 52 - lp) :=
      Rat.mul_lt_mul_of_pos_right hN2 hP
    have s2 : pow2 (lp + 1) * pow2 (lq + 52 - lp) = pow2 53 * pow2 lq := by
      rw [← pow2_add, ← pow2_add]; congr 1; omega
    have s3 : pow2 53 * pow2 lq ≤ pow2 53 * D :=
      Rat.mul_le_mul_of_nonneg_left hD1 (Rat.le_of_lt (pow2_pos 53))
    rw [s2] at s1
    grind

/-- with the final exponent the scaled value lies in `[2^52, 2^53)` -/
theorem expOf_range (x : Rat) (hx : 0 < x) :
    pow2 52 ≤ x * pow2 (-(expOf x)) ∧ x * pow2 (-(expOf x)) < pow2 53 := by
  have h0 := exp0_range x hx
  unfold expOf
  rw [scale2_eq, pow2_52]
  split
  · next hlt =>
    have e : -(exp0 x - 1) = -(exp0 x) + 1 := by omega
    rw [e, pow2_add]
    have h1 : pow2 1 = 2 := by decide +kernel
    have h51 : pow2 52 = pow2 51 * 2 := by decide +kernel
    have h53 : pow2 53 = pow2 52 * 2 := by decide +kernel
    rw [h1]
    constructor <;> grind
  · next hge =>
    exact ⟨Rat.not_lt.1 hge, h0.2⟩




theorem pow2_int (k : Nat) : pow2 (k : Int) = (((2 ^ k : Nat) : Int) : Rat) := by
  rw [pow2_nat, Rat.intCast_natCast]

/-- the rounded significand stays in `[2^52, 2^53]` -/
theorem sig_bounds (x : Rat) (hx : 0 < x) :
    pow2 52 ≤ (roundEven (x * pow2 (-(expOf x))) : Rat) ∧
    (roundEven (x * pow2 (-(expOf x))) : Rat) ≤ pow2 53 := by
  have hr := expOf_range x hx
  have e52 : pow2 52 = (((2 ^ 52 : Nat) : Int) : Rat) := pow2_int 52
  have e53 : pow2 53 = (((2 ^ 53 : Nat) : Int) : Rat) := pow2_int 53
  constructor
  · rw [e52]; apply Rat.intCast_le_intCast.2
    apply le_roundEven; rw [← e52]; exact hr.1
  · rw [e53]; apply Rat.intCast_le_intCast.2
    apply roundEven_le; rw [← e53]; exact Rat.le_of_lt hr.2

theorem mul_pow2_cancel (x : Rat) (e : Int) : x * pow2 (-e) * pow2 e = x := by
  rw [Rat.mul_assoc, pow2_neg_mul, Rat.mul_one]

theorem rnPos_mono {x y : Rat} (hx : 0 < x) (hxy : x ≤ y) : rnPos x ≤ rnPos y := by
  have hy : 0 < y := by grind
  have rx := expOf_range x hx
  have ry := expOf_range y hy
  have sx := sig_bounds x hx
  have sy := sig_bounds y hy
  rw [rnPos_eq, rnPos_eq]
  -- the exponents are ordered
  have hexp : expOf x ≤ expOf y := by
    apply Classical.byContradiction
    intro hc
    have h1 : expOf y + 1 ≤ expOf x := by omega
    -- y < 2^(53 + ey) ≤ 2^(52 + ex) ≤ x
    have hyu : y < pow2 53 * pow2 (expOf y) := by
      have := Rat.mul_lt_mul_of_pos_right ry.2 (pow2_pos (expOf y))
      rwa [mul_pow2_cancel] at this
    have hxl : pow2 52 * pow2 (expOf x) ≤ x := by
      have := Rat.mul_le_mul_of_nonneg_right rx.1 (Rat.le_of_lt (pow2_pos (expOf x)))
      rwa [mul_pow2_cancel] at this
    have hm : pow2 53 * pow2 (expOf y) ≤ pow2 52 * pow2 (expOf x) := by
      rw [← pow2_add, ← pow2_add]; apply pow2_mono; omega
    grind
  by_cases heq : expOf x = expOf y
  · rw [heq]
    apply Rat.mul_le_mul_of_nonneg_right _ (Rat.le_of_lt (pow2_pos _))
    apply Rat.intCast_le_intCast.2
    apply roundEven_mono
    rw [← heq]
    exact Rat.mul_le_mul_of_nonneg_right hxy (Rat.le_of_lt (pow2_pos _))
  · have hlt : expOf x + 1 ≤ expOf y := by omega
    have h1 : (roundEven (x * pow2 (-(expOf x))) : Rat) * pow2 (expOf x) ≤ pow2 53 * pow2 (expOf x) :=
      Rat.mul_le_mul_of_nonneg_right sx.2 (Rat.le_of_lt (pow2_pos _))
    have h2 : pow2 53 * pow2 (expOf x) ≤ pow2 52 * pow2 (expOf y) := by
      rw [← pow2_add, ← pow2_add]; apply pow2_mono; omega
    have h3 : pow2 52 * pow2 (expOf y) ≤ (roundEven (y * pow2 (-(expOf y))) : Rat) * pow2 (expOf y) :=
      Rat.mul_le_mul_of_nonneg_right sy.1 (Rat.le_of_lt (pow2_pos _))
    grind

theorem rn_neg (x : Rat) : rn (-x) = -(rn x) := by
  unfold rn
  by_cases h0 : x = 0
  · subst h0; simp
  · have h0' : -x ≠ 0 := by grind
    simp only [h0, h0', if_false]
    by_cases hn : x < 0
    · have : ¬ (-x < 0) := by grind
      simp only [hn, this, if_true, if_false]; grind
    · have : -x < 0 := by grind
      simp only [hn, this, if_true, if_false, Rat.neg_neg]

theorem rn_nonneg {x : Rat} (h : 0 ≤ x) : 0 ≤ rn x := by
  unfold rn
  by_cases h0 : x = 0
  · simp [h0]
  · have hp : 0 < x := by grind
    have : ¬ x < 0 := by grind
    simp only [h0, this, if_false]
    exact Rat.le_of_lt (rnPos_pos x hp)

/-- **rounding to nearest is monotone** -/
theorem rn_mono {x y : Rat} (h : x ≤ y) : rn x ≤ rn y := by
  by_cases hx : 0 < x
  · have hy : 0 < y := by grind
    have h1 : x ≠ 0 := by grind
    have h2 : y ≠ 0 := by grind
    have h3 : ¬ x < 0 := by grind
    have h4 : ¬ y < 0 := by grind
    unfold rn
    simp only [h1, h2, h3, h4, if_false]
    exact rnPos_mono hx h
  · by_cases hy : 0 ≤ y
    · have : rn x ≤ 0 := by
        have := rn_nonneg (x := -x) (by grind)
        rw [rn_neg] at this; grind
      have := rn_nonneg hy
      grind
    · -- both negative
      have hx' : x < 0 := by grind
      have hy' : y < 0 := by grind
      have h1 : x ≠ 0 := by grind
      have h2 : y ≠ 0 := by grind
      unfold rn
      simp only [h1, h2, hx', hy', if_true, if_false]
      have := rnPos_mono (x := -y) (y := -x) (by grind) (by grind)
      grind


theorem rn_zero : rn 0 = 0 := by simp [rn]

/-- the rounded floor-mod stays in the CLOSED range when the divisor is a binary64 value -/
theorem pymodF_range (a w : Rat) (hw : rn w = w) :
    (0 < w → 0 ≤ pymodF a w ∧ pymodF a w ≤ w) ∧ (w < 0 → w ≤ pymodF a w ∧ pymodF a w ≤ 0) := by
  unfold pymodF
  constructor
  · intro h
    have hr := pymod_pos a w h
    have h1 := rn_mono hr.1
    have h2 := rn_mono (Rat.le_of_lt hr.2)
    rw [rn_zero] at h1; rw [hw] at h2
    exact ⟨h1, h2⟩
  · intro h
    have hr := pymod_neg a w h
    have h1 := rn_mono (Rat.le_of_lt hr.1)
    have h2 := rn_mono hr.2
    rw [rn_zero] at h2; rw [hw] at h1
    exact ⟨h1, h2⟩

theorem pabs_le_iff (x w : Rat) : ¬ (pabs x > pabs w) → -(pabs w) ≤ x ∧ x ≤ pabs w := by
  unfold pabs
  intro h
  split at h <;> split at h <;> constructor <;> grind

end Ioflo.Wrap
