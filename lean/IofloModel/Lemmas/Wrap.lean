import IofloModel.Model.Wrap
/-! Helper lemmas for C43 (angle wrapping): Python floor-mod on exact rationals. Core Lean only. -/
namespace Ioflo.Wrap

theorem pymod_eq (a w : Rat) : pymod a w = a - ((a / w).floor : Rat) * w := by
  unfold pymod; grind

theorem pymod_pos (a w : Rat) (hw : 0 < w) : 0 ≤ pymod a w ∧ pymod a w < w := by
  unfold pymod
  have h1 := Rat.floor_le (a / w)
  have h2 := Rat.lt_floor_add_one (a / w)
  have e : a / w * w = a := Rat.div_mul_cancel (Rat.ne_of_gt hw)
  have h3 := Rat.mul_le_mul_of_nonneg_right h1 (Rat.le_of_lt hw)
  have h4 := Rat.mul_lt_mul_of_pos_right h2 hw
  rw [e] at h3 h4
  constructor <;> grind

theorem pymod_neg (a w : Rat) (hw : w < 0) : w < pymod a w ∧ pymod a w ≤ 0 := by
  unfold pymod
  have h1 := Rat.floor_le (a / w)
  have h2 := Rat.lt_floor_add_one (a / w)
  have hw' : 0 < -w := by grind
  have e : a / w * w = a := Rat.div_mul_cancel (Rat.ne_of_lt hw)
  have h3 := Rat.mul_le_mul_of_nonneg_right h1 (Rat.le_of_lt hw')
  have h4 := Rat.mul_lt_mul_of_pos_right h2 hw'
  constructor <;> grind

/-- floor-mod is the unique representative in the half-open interval -/
theorem pymod_unique_pos (a w r : Rat) (k : Int) (hw : 0 < w) (h0 : 0 ≤ r) (h1 : r < w)
    (hk : r = a - (k : Rat) * w) : r = pymod a w := by
  have key : (a / w).floor = k := by
    have e : a / w = (k : Rat) + r / w := by
      have hne : w ≠ 0 := Rat.ne_of_gt hw
      have : a = ((k : Rat) + r / w) * w := by
        rw [Rat.add_mul, Rat.div_mul_cancel hne]; grind
      rw [this, Rat.mul_div_cancel hne]
    have hlo : 0 ≤ r / w := by
      rw [Rat.div_def]; exact Rat.mul_nonneg h0 (Rat.le_of_lt (Rat.inv_pos.2 hw))
    have hhi : r / w < 1 := by
      rw [Rat.div_lt_iff hw]; grind
    apply Int.le_antisymm
    · have : (a / w).floor < k + 1 := by
        rw [Rat.floor_lt_iff, e]; grind
      omega
    · rw [Rat.le_floor_iff, e]; grind
  rw [pymod_eq, key, hk]


theorem pymod_neg_neg (a w : Rat) (hw : w ≠ 0) : pymod (-a) (-w) = -(pymod a w) := by
  unfold pymod
  have : -a / -w = a / w := by
    have hnw : -w ≠ 0 := by grind
    have h1 : a / w * (-w) = -a := by
      have := Rat.div_mul_cancel (a := a) hw
      grind
    calc -a / -w = (a / w * (-w)) / (-w) := by rw [h1]
      _ = a / w := Rat.mul_div_cancel hnw
  rw [this]; grind

theorem pymod_unique_neg (a w r : Rat) (k : Int) (hw : w < 0) (h0 : w < r) (h1 : r ≤ 0)
    (hk : r = a - (k : Rat) * w) : r = pymod a w := by
  have h := pymod_unique_pos (-a) (-w) (-r) k (by grind) (by grind) (by grind) (by grind)
  rw [pymod_neg_neg a w (Rat.ne_of_lt hw)] at h
  grind

theorem pabs_of_nonneg {x : Rat} (h : 0 ≤ x) : pabs x = x := by
  unfold pabs; split <;> grind

theorem pabs_of_nonpos {x : Rat} (h : x ≤ 0) : pabs x = -x := by
  unfold pabs; split <;> grind

/-- `wrap2` for a positive wrap: the full-circle residue, lowered by a full circle when it is
beyond the half circle -/
theorem wrap2_pos (a w : Rat) (hw : 0 < w) :
    wrap2 a w = if pymod a (w * 2) ≤ w then pymod a (w * 2) else pymod a (w * 2) - w * 2 := by
  have hr := pymod_pos a (w * 2) (by grind)
  unfold wrap2
  simp only [ne_eq, Rat.ne_of_gt hw, not_false_eq_true, if_true]
  rw [pabs_of_nonneg hr.1, pabs_of_nonneg (Rat.le_of_lt hw)]
  by_cases h : pymod a (w * 2) ≤ w
  · have : ¬ (pymod a (w * 2) > w) := by grind
    simp only [this, h, if_true, if_false]
  · have h' : pymod a (w * 2) > w := by grind
    simp only [h', h, if_true, if_false]
    exact (pymod_unique_neg (pymod a (w * 2) - w) (-w) (pymod a (w * 2) - w * 2) (-1)
      (by grind) (by grind) (by grind) (by grind)).symm

theorem wrap2_neg (a w : Rat) (hw : w < 0) :
    wrap2 a w = if w ≤ pymod a (w * 2) then pymod a (w * 2) else pymod a (w * 2) - w * 2 := by
  have hr := pymod_neg a (w * 2) (by grind)
  unfold wrap2
  simp only [ne_eq, Rat.ne_of_lt hw, not_false_eq_true, if_true]
  rw [pabs_of_nonpos hr.2, pabs_of_nonpos (Rat.le_of_lt hw)]
  by_cases h : w ≤ pymod a (w * 2)
  · have : ¬ (-pymod a (w * 2) > -w) := by grind
    simp only [this, h, if_true, if_false]
  · have h' : -pymod a (w * 2) > -w := by grind
    simp only [h', h, if_true, if_false]
    exact (pymod_unique_pos (pymod a (w * 2) - w) (-w) (pymod a (w * 2) - w * 2) (-1)
      (by grind) (by grind) (by grind) (by grind)).symm

end Ioflo.Wrap
