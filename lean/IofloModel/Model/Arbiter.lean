/-
Model of ioflo/base/arbiting.py : FixTruth and the `update` methods of ArbiterSwitch,
ArbiterPriority, ArbiterTrusted, ArbiterWeighted.

Generic over the number type `τ` (`+ * / < ==` as the Python code uses them on floats): theorems
at `τ := Rat` (exact, DESIGN §5.2), the driver also at `τ := Float` (= CPython float).

Modelled WITH two repairs (see /verif/fixes):
  D24  ArbiterTrusted tie branch read the unbound name `imputmax` (NameError) → `impmax`
  D25b `if inputmax:` tested the winning share's `__len__` (a share without fields lost to the
       default) → `if inputmax is not None:`   (both in Priority and Trusted)
`trustedOrig` keeps the NameError for the record.  NOT repaired (finding D25): ArbiterPriority
starts with `impmax = 0.0`, so an input of importance ≤ 0 never wins.

Domain (as in the property): selection = truthiness (a Bool here), importance a number, truth
None / bool / number, value None / bool / number / string; default truth is the number left by
`__init__` (`FixTruth` applied unless already a float in [0,1]).

Core Lean only.
-/
namespace Ioflo.Arbiter

/-- `share.truth` -/
inductive Truth (τ : Type)
  | none
  | bool (b : Bool)
  | num (x : τ)
  deriving DecidableEq, Repr

/-- `share.value` (strings are opaque: the arbiters only pass them through, or fail to multiply) -/
inductive Val (τ : Type)
  | none
  | bool (b : Bool)
  | num (x : τ)
  | str (id : Nat)
  deriving DecidableEq, Repr

structure Input (τ : Type) where
  sel : Bool          -- bool(self.insels.fetch(tag))
  imp : τ             -- self.inimps.fetch(tag)
  truth : Truth τ     -- input.truth
  value : Val τ       -- input.value
  deriving DecidableEq, Repr

/-- what `update` leaves in the output share -/
structure Out (τ : Type) where
  value : Val τ
  truth : Truth τ
  deriving DecidableEq, Repr

/-- `group.default` -/
structure Default (τ : Type) where
  value : Val τ
  truth : τ
  deriving DecidableEq, Repr

inductive Err
  | typeError | zeroDivision | nameError
  deriving DecidableEq, Repr

section generic
variable {τ : Type} [Add τ] [Mul τ] [Div τ] [LT τ] [DecidableLT τ] [BEq τ] [OfNat τ 0] [OfNat τ 1]

/-- `FixTruth`: None/True → 1.0, False → 0.0, else `float(min(1.0, max(0.0, truth)))`
(Python's `max(a, b)` is `b if b > a else a`, `min(a, b)` is `b if b < a else a`) -/
def fixTruth : Truth τ → τ
  | .none => 1
  | .bool true => 1
  | .bool false => 0
  | .num x =>
    let m := if 0 < x then x else 0
    if m < 1 then m else 1

def Default.out (d : Default τ) : Out τ := { value := d.value, truth := .num d.truth }

/-! ### ArbiterSwitch -/

/-- first input whose selection is true: its value and (raw) truth; else the default -/
def switch (d : Default τ) : List (Input τ) → Out τ
  | [] => d.out
  | i :: rest => if i.sel then { value := i.value, truth := i.truth } else switch d rest

/-! ### ArbiterPriority -/

/-- loop state `(inputmax, impmax, truthmax)` -/
structure Best (τ : Type) where
  input : Option (Input τ)
  impmax : τ
  truthmax : τ

def priorityStep (dt : τ) (b : Best τ) (i : Input τ) : Best τ :=
  let truth := fixTruth i.truth
  if i.sel ∧ dt < truth ∧ b.impmax < i.imp then
    { input := some i, impmax := i.imp, truthmax := truth }
  else b

/-- `if inputmax is not None:` (repaired) -/
def Best.out (d : Default τ) (b : Best τ) : Out τ :=
  match b.input with
  | some i => { value := i.value, truth := .num b.truthmax }
  | none => d.out

def priority (d : Default τ) (ins : List (Input τ)) : Out τ :=
  (ins.foldl (priorityStep d.truth) ({ input := none, impmax := 0, truthmax := 0 } : Best τ)).out d

/-! ### ArbiterTrusted -/

def trustedStep (dt : τ) (b : Best τ) (i : Input τ) : Best τ :=
  let truth := fixTruth i.truth
  if i.sel ∧ dt < truth then
    if b.truthmax < truth then { input := some i, impmax := i.imp, truthmax := truth }
    else if (truth == b.truthmax) ∧ b.impmax < i.imp then   -- repaired: `impmax`
      { input := some i, impmax := i.imp, truthmax := truth }
    else b
  else b

def trusted (d : Default τ) (ins : List (Input τ)) : Out τ :=
  (ins.foldl (trustedStep d.truth) ({ input := none, impmax := 0, truthmax := 0 } : Best τ)).out d

/-- the UNREPAIRED loop: a truth tie evaluates `imp > imputmax` → `NameError` -/
def trustedOrigLoop (dt : τ) : Best τ → List (Input τ) → Except Err (Best τ)
  | b, [] => .ok b
  | b, i :: rest =>
    let truth := fixTruth i.truth
    if i.sel ∧ dt < truth then
      if b.truthmax < truth then
        trustedOrigLoop dt { input := some i, impmax := i.imp, truthmax := truth } rest
      else if truth == b.truthmax then .error .nameError
      else trustedOrigLoop dt b rest
    else trustedOrigLoop dt b rest

def trustedOrig (d : Default τ) (ins : List (Input τ)) : Except Err (Out τ) :=
  match trustedOrigLoop d.truth ({ input := none, impmax := 0, truthmax := 0 } : Best τ) ins with
  | .ok b => .ok (b.out d)
  | .error e => .error e

/-! ### ArbiterWeighted -/

/-- a value that `float * value` accepts -/
def Val.toNum? : Val τ → Option τ
  | .bool b => some (if b then 1 else 0)
  | .num x => some x
  | _ => Option.none

/-- `(wgtval, wgtcnf, wgtimp)` -/
structure Sums (τ : Type) where
  wgtval : τ
  wgtcnf : τ
  wgtimp : τ

/-- the `for` loop inside `try`; `TypeError` when a selected input's value is not a number -/
def weightedLoop : Sums τ → List (Input τ) → Except Err (Sums τ)
  | s, [] => .ok s
  | s, i :: rest =>
    if i.sel then
      let truth := fixTruth i.truth
      match i.value.toNum? with
      | some v =>
        weightedLoop { wgtimp := s.wgtimp + i.imp, wgtcnf := s.wgtcnf + i.imp * truth,
                       wgtval := s.wgtval + i.imp * truth * v } rest
      | Option.none => .error .typeError
    else weightedLoop s rest

/-- the whole `try` block: loop, then the two divisions (`ZeroDivisionError`) -/
def weightedTry (ins : List (Input τ)) : Except Err (τ × τ) :=
  match weightedLoop ({ wgtval := 0, wgtcnf := 0, wgtimp := 0 } : Sums τ) ins with
  | .error e => .error e
  | .ok s =>
    if s.wgtcnf == 0 then .error .zeroDivision          -- wgtval / float(wgtcnf)
    else if s.wgtimp == 0 then .error .zeroDivision     -- wgtcnf / float(wgtimp)
    else .ok (s.wgtval / s.wgtcnf, s.wgtcnf / s.wgtimp)

def weighted (d : Default τ) (ins : List (Input τ)) : Out τ :=
  match weightedTry ins with
  | .error _ => d.out                                   -- except TypeError / ZeroDivisionError
  | .ok (wgtval, wgtcnf) =>
    if d.truth < wgtcnf then { value := .num wgtval, truth := .num wgtcnf } else d.out

end generic

/-- region of finding D25 (exact numbers): some input that is selected and sufficiently true has
importance ≤ 0 — the complement is the hypothesis of `C45_priority_first_max_importance_partial`;
the driver evaluates this very definition -/
def nonPosCandidate (dt : Rat) (ins : List (Input Rat)) : Bool :=
  ins.any (fun i => i.sel && decide (dt < fixTruth i.truth) && decide (i.imp ≤ 0))

end Ioflo.Arbiter
