import IofloModel.Model.Sked
/-
Model of bids and fiats:
  * `ioflo/base/framing.py`  `Framer.makeRunner` — the control × status table of a framer's
    generator, with the hooks it calls (`checkStart`, `enterAll`, `recur`, `segue`, `exitAll`);
  * `ioflo/base/wanting.py`  `Want{Stop,Start,Run,Abort,Ready}.action` — bids write `tasker.desire`
    (and `tasker.period = max(0.0, period)`);
  * `ioflo/base/fiating.py`  `Fiat{Ready,Start,Run,Stop,Abort}.action` — a fiat sends the control
    straight into the slave's runner and returns `status == <expected>`;
  * the scheduler side is `Model/Sked.lean` (`Skedder.run` sends `tasker.desire`), instantiated here
    with the environment `FramerEnv`.

Frames are modelled as far as bids, fiats and the runner table need them (the frame engine proper —
auxiliaries, conditional auxiliaries, clocks, clones — is `Model/Outline.lean` / `Model/Flo.lean`, another
engineer's): a framer is a forest of frames (`frame x in y`); the entered frames are the outline of the active
frame (ancestors, the frame, primary unders down to the bottom, as `Frame.traceOutline`), transitions exit and
enter the uncommon parts (`Framer.ExEn`); a frame has entry guards (`beacts`: `let me if …` needs and fiats
placed in the benter context), enter / recur / exit actions and transitions (`go <frame> if …`). Actions are
bids, fiats and `put <n> into .flag.<k>`; every frame's first enter and first exit action is a recorder
(`Obs.mark`). Fiats nest to any depth: a slave's frames may fiat its own slaves (`fiatD`).

Every write to a framer's `desire` is recorded in `World.trace` (`Obs.write`), and every scheduler
send is bracketed by `Obs.recv … Obs.yield`: the theorems of `Props/C04.lean` are about this trace.
Core Lean only.
-/
namespace Ioflo.Bids
open Ioflo.Sked

inductive Sched | active | inactive | slave
  deriving DecidableEq, Repr, Inhabited

/-- conditions of needs (`if recurred >= n`, `if .flag.k == v`) and the empty condition of `go next` -/
inductive Cond
  | always
  | recurredGe (n : Nat)
  | flagEq (flag : Nat) (v : Int)
  deriving DecidableEq, Repr, Inhabited

inductive Act (τ : Type)
  /-- `bid <control> <taskers> [at period]` with the taskers resolved to ids -/
  | bid (targets : List Nat) (c : Control) (period : Option τ)
  /-- `ready|start|run|stop|abort <slave>` -/
  | fiat (c : Control) (slave : Nat)
  /-- `put v into .flag.k` -/
  | put (flag : Nat) (v : Int)
  deriving Repr, Inhabited

/-- an entry guard (a need act in `frame.beacts`): a condition, or a fiat whose Boolean result is the guard -/
inductive Guard
  | cond (c : Cond)
  | fiat (c : Control) (slave : Nat)
  deriving DecidableEq, Repr, Inhabited

/-- `go <target> if <conds joined by and>` -/
structure Trans where
  conds : List Cond
  target : Nat
  deriving DecidableEq, Repr, Inhabited

structure Frame (τ : Type) where
  /-- `frame <name> in <over>` -/
  over : Option Nat := none
  beacts : List Guard := []
  enacts : List (Act τ) := []
  reacts : List (Act τ) := []
  exacts : List (Act τ) := []
  preacts : List Trans := []
  deriving Repr, Inhabited

/-- a framer: program (`sched`, `frames`; `frames[0]` is `first`) and run-time attributes -/
structure Fr (τ : Type) where
  sched : Sched
  period : τ
  frames : List (Frame τ)
  status : Status := .stopped
  desire : Control := .stop
  /-- `framer.actives`: the entered frames (the outline of the active frame), top down -/
  actives : List Nat := []
  recurred : Nat := 0
  deriving Repr, Inhabited

/-- observations, in execution order -/
inductive Obs (τ : Type)
  /-- the scheduler resumes framer `id` with `c` (main loop or abort sweep) -/
  | recv (ph : Phase) (id : Nat) (c : Control)
  /-- … and gets `st` back -/
  | yield (id : Nat) (st : Status)
  /-- an assignment `framer.desire = c` (by a bid, by the runner table, by `addReadyTask`) -/
  | write (id : Nat) (c : Control)
  /-- `Want<c>.action` handled target `target`; `period` is the value written (after `max(0.0, …)`), if any -/
  | bid (by_ target : Nat) (c : Control) (period : Option τ)
  /-- `Fiat<c>.action(slave)` sent `c`, the slave yielded `st`, the action returned `ret` -/
  | fiat (by_ slave : Nat) (c : Control) (st : Status) (ret : Bool)
  /-- `checkStart()` of framer `id` returned `ok` -/
  | check (id : Nat) (ok : Bool)
  /-- frame `f` of framer `id` is entered (`true`) / exited (`false`): the recorder deed that is the first enter
  and the first exit action of every frame -/
  | mark (id f : Nat) (enter : Bool)
  deriving Repr, Inhabited

structure World (τ : Type) where
  /-- number of framers (ids `0 … n-1`) -/
  n : Nat
  framers : Nat → Fr τ
  flags : Nat → Int
  trace : List (Obs τ)
  /-- a fiat was attempted from inside a slave framer: outside the model -/
  unsupported : Bool := false

variable {τ : Type} [TimeLike τ]

def World.modF (w : World τ) (i : Nat) (g : Fr τ → Fr τ) : World τ :=
  { w with framers := fun k => if k = i then g (w.framers i) else w.framers k }

def World.log (w : World τ) (o : Obs τ) : World τ := { w with trace := w.trace ++ [o] }

/-- `framer.desire = c` -/
def writeDesire (i : Nat) (c : Control) (w : World τ) : World τ :=
  (w.modF i fun f => { f with desire := c }).log (.write i c)

def setStatus (i : Nat) (st : Status) (w : World τ) : World τ :=
  w.modF i fun f => { f with status := st }

/-- the status a fiat asks for: `FiatReady` returns `status == READIED`, … -/
def expected : Control → Status
  | .stop => .stopped | .start => .started | .run => .running | .abort => .aborted
  | .ready => .readied | .other => .aborted

def evalCond (i : Nat) (w : World τ) : Cond → Bool
  | .always => true
  | .recurredGe n => decide (n ≤ (w.framers i).recurred)
  | .flagEq k v => decide (w.flags k = v)

/-- how a fiat issued by framer `by_` is carried out: the world after, and the action's return value -/
abbrev FiatH (τ : Type) := Nat → Control → Nat → World τ → World τ × Bool

/-- the period a bid writes: only Start/Run/Ready look at `period`, and they write `max(0.0, period)` -/
def bidPeriod (c : Control) (period : Option τ) : Option τ :=
  match c, period with
  | .start, some p | .run, some p | .ready, some p => some (max0 p)
  | _, _ => none

def setPeriod (t : Nat) (p : Option τ) (w : World τ) : World τ :=
  match p with
  | some p => w.modF t fun f => { f with period := p }
  | none => w

/-- `Want<c>.action` for one target -/
def bidOne (by_ : Nat) (c : Control) (period : Option τ) (t : Nat) (w : World τ) : World τ :=
  (writeDesire t c (setPeriod t (bidPeriod c period) w)).log (.bid by_ t c (bidPeriod c period))

/-- the acts of one context of a frame, in order -/
def runActs (H : FiatH τ) (by_ : Nat) : List (Act τ) → World τ → World τ
  | [], w => w
  | .bid ts c p :: rest, w => runActs H by_ rest (ts.foldl (fun w t => bidOne by_ c p t w) w)
  | .fiat c sl :: rest, w => runActs H by_ rest (H by_ c sl w).1
  | .put k v :: rest, w => runActs H by_ rest { w with flags := fun j => if j = k then v else w.flags j }

/-- `Frame.checkEnter`: the beacts in order, stopping at the first that fails -/
def evalGuards (H : FiatH τ) (by_ : Nat) : List Guard → World τ → Bool × World τ
  | [], w => (true, w)
  | .cond c :: rest, w => if evalCond by_ w c then evalGuards H by_ rest w else (false, w)
  | .fiat c sl :: rest, w =>
    let r := H by_ c sl w
    if r.2 then evalGuards H by_ rest r.1 else (false, r.1)

def frameOf (f : Fr τ) (idx : Nat) : Frame τ := f.frames.getD idx {}

def setRecurred (i n : Nat) (w : World τ) : World τ := w.modF i fun f => { f with recurred := n }
def bumpRecurred (i : Nat) (w : World τ) : World τ := w.modF i fun f => { f with recurred := f.recurred + 1 }
def setActives (i : Nat) (l : List Nat) (w : World τ) : World τ := w.modF i fun f => { f with actives := l }

/-! outlines (`Frame.traceOutline`) and `Framer.ExEn` -/

/-- ancestors of `f`, top first, `f` last (`fuel` bounds the climb) -/
def headOf (frames : List (Frame τ)) : Nat → Nat → List Nat
  | 0, f => [f]
  | fuel+1, f =>
    match (frames.getD f {}).over with
    | some o => headOf frames fuel o ++ [f]
    | none => [f]

/-- primary under: the first declared frame whose `over` is `f` -/
def underOf (frames : List (Frame τ)) (f : Nat) : Option Nat :=
  (List.range frames.length).find? (fun g => (frames.getD g {}).over == some f)

/-- primary unders below `f`, down to the bottom -/
def tailOf (frames : List (Frame τ)) : Nat → Nat → List Nat
  | 0, _ => []
  | fuel+1, f =>
    match underOf frames f with
    | some u => u :: tailOf frames fuel u
    | none => []

/-- `frame.outline`: the ancestors, the frame, then the primary unders down to the bottom -/
def outline (frames : List (Frame τ)) (f : Nat) : List Nat :=
  headOf frames frames.length f ++ tailOf frames frames.length f

/-- `Framer.ExEn(nears, far)`: (exits, enters) -/
def exEn (nears fars : List Nat) (far : Nat) : List Nat × List Nat :=
  match nears, fars with
  | n :: ns, f :: fs => if n = far ∨ n ≠ f then (n :: ns, f :: fs) else exEn ns fs far
  | _, _ => ([], [])

/-- `Framer.checkEnter(enters)`: the entry guards of each frame, top down, stopping at the first failure -/
def guardsOf (H : FiatH τ) (i : Nat) : List Nat → World τ → Bool × World τ
  | [], w => (true, w)
  | f :: rest, w =>
    let r := evalGuards H i (frameOf (w.framers i) f).beacts w
    if r.1 then guardsOf H i rest r.2 else (false, r.2)

/-- `Framer.checkStart()` = `checkEnter(enters=first.outline)`; false when there is no first frame -/
def checkStart (H : FiatH τ) (i : Nat) (w : World τ) : Bool × World τ :=
  let r := if (w.framers i).frames.isEmpty then (false, w)
           else guardsOf H i (outline (w.framers i).frames 0) w
  (r.1, r.2.log (.check i r.1))

/-- `Frame.enter()` for each frame of the list, in list order -/
def enterFrames (H : FiatH τ) (i : Nat) : List Nat → World τ → World τ
  | [], w => w
  | f :: rest, w => enterFrames H i rest (runActs H i (frameOf (w.framers i) f).enacts (w.log (.mark i f true)))

/-- `Frame.exit()` for each frame of the list, in list order (the caller reverses the outline) -/
def exitFrames (H : FiatH τ) (i : Nat) : List Nat → World τ → World τ
  | [], w => w
  | f :: rest, w => exitFrames H i rest (runActs H i (frameOf (w.framers i) f).exacts (w.log (.mark i f false)))

/-- `Frame.recur()` for each entered frame, top down -/
def recurFrames (H : FiatH τ) (i : Nat) : List Nat → World τ → World τ
  | [], w => w
  | f :: rest, w => recurFrames H i rest (runActs H i (frameOf (w.framers i) f).reacts w)

/-- `Framer.enterAll()`: `activate(first)`, restart the counter, enter the outline of the first frame top down -/
def enterAll (H : FiatH τ) (i : Nat) (w : World τ) : World τ :=
  enterFrames H i (outline (w.framers i).frames 0) (setRecurred i 0 (setActives i (outline (w.framers i).frames 0) w))

/-- `Framer.recur()` -/
def recur (H : FiatH τ) (i : Nat) (w : World τ) : World τ := recurFrames H i (w.framers i).actives w

/-- `Framer.exitAll()`: exit the entered frames bottom up, then `deactivate` -/
def exitAll (H : FiatH τ) (i : Nat) (w : World τ) : World τ :=
  setActives i [] (exitFrames H i (w.framers i).actives.reverse w)

/-- `Frame.precur()`: the transitions in order; a transition whose needs hold, that changes the outline and whose
entered frames' guards pass is taken (exit bottom up, enter top down, activate the target) and ends the
evaluation (`true`). -/
def precur (H : FiatH τ) (i : Nat) : List Trans → World τ → World τ × Bool
  | [], w => (w, false)
  | t :: rest, w =>
    if t.conds.all (evalCond i w) then
      let x := exEn (w.framers i).actives (outline (w.framers i).frames t.target) t.target
      if x.2.isEmpty then precur H i rest w
      else
        let r := guardsOf H i x.2 w
        if r.1 then
          (setActives i (outline (w.framers i).frames t.target)
            (enterFrames H i x.2 (setRecurred i 0 (exitFrames H i x.1.reverse r.2))), true)
        else precur H i rest r.2
    else precur H i rest w

/-- `for frame in self.actives: if frame.precur(): return True` -/
def precurFrames (H : FiatH τ) (i : Nat) : List Nat → World τ → World τ
  | [], w => w
  | f :: rest, w =>
    let r := precur H i (frameOf (w.framers i) f).preacts w
    if r.2 then r.1 else precurFrames H i rest r.1

/-- `Framer.segue()`: count the recurrence, then try the transitions of the entered frames, top down -/
def segue (H : FiatH τ) (i : Nat) (w : World τ) : World τ :=
  precurFrames H i ((bumpRecurred i w).framers i).actives (bumpRecurred i w)

/-! the branches of the control × status table of `Framer.makeRunner` -/

/-- RUN while running/started: `self.segue(); self.recur(); self.status = RUNNING` -/
def runLive (H : FiatH τ) (i : Nat) (w : World τ) : World τ :=
  setStatus i .running (recur H i (segue H i w))

/-- any control while ABORTED (or an unknown status): `self.desire = ABORT; self.status = ABORTED` -/
def abortBad (i : Nat) (w : World τ) : World τ :=
  setStatus i .aborted (writeDesire i .abort w)

/-- READY while stopped/readied -/
def readyIdle (H : FiatH τ) (i : Nat) (w : World τ) : World τ :=
  let r := checkStart H i w
  if r.1 then setStatus i .readied r.2
  else setStatus i .stopped (writeDesire i .stop r.2)

/-- START while stopped/readied: on success `self.desire = RUN; self.enterAll(); self.recur();
self.status = STARTED`, else `self.desire = STOP; self.status = STOPPED` -/
def startIdle (H : FiatH τ) (i : Nat) (w : World τ) : World τ :=
  let r := checkStart H i w
  if r.1 then setStatus i .started (recur H i (enterAll H i (writeDesire i .run r.2)))
  else setStatus i .stopped (writeDesire i .stop r.2)

/-- STOP while running/started: `self.desire = STOP; self.exitAll(abort=True); self.status = STOPPED` -/
def stopLive (H : FiatH τ) (i : Nat) (w : World τ) : World τ :=
  setStatus i .stopped (exitAll H i (writeDesire i .stop w))

/-- ABORT (or an unknown control): `exitAll()` if running/started, then
`self.desire = ABORT; self.status = ABORTED` -/
def abortAny (H : FiatH τ) (i : Nat) (live : Bool) (w : World τ) : World τ :=
  setStatus i .aborted (writeDesire i .abort (if live then exitAll H i w else w))

/-- One resumption of `Framer.makeRunner` with `control`: the control × status table.
Returns the status yielded. -/
def table (H : FiatH τ) (i : Nat) (c : Control) (w : World τ) : Status × World τ :=
  let st := (w.framers i).status            -- `status = self.status  #for speed`
  let live : Bool := st = .running ∨ st = .started
  let idle : Bool := st = .stopped ∨ st = .readied
  let w' : World τ :=
    match c with
    | .run =>
      if live then runLive H i w
      else if idle then writeDesire i .start w
      else abortBad i w
    | .ready =>
      if idle then readyIdle H i w
      else if live then w
      else abortBad i w
    | .start =>
      if idle then startIdle H i w
      else if live then writeDesire i .run w
      else abortBad i w
    | .stop =>
      if live then stopLive H i w
      else if idle then w
      else abortBad i w
    | .abort | .other => abortAny H i live w     -- `else: #control == ABORT or unknown`
  ((w'.framers i).status, w')

/-- no fiat can be carried out here (the recursion budget of `fiatD` is used up, or the target is a framer
whose generator is executing): outside the model -/
def noFiat : FiatH τ := fun _ _ _ w => ({ w with unsupported := true }, false)

/-- `Fiat<c>.action(tasker=slave)`: `status = tasker.runner.send(c); return status == <expected>`, at any depth
of the master/slave tree: the slave's runner is resumed, and the fiats that ITS frames issue are carried out one
level further down. `chain` = the framers whose generators are executing above the issuer `by_`; resuming one of
them (or the issuer itself) is a `ValueError: generator already executing` in Python and is not modelled
(`unsupported`). `d` bounds the depth (`World.n + 1` at the top: a chain of distinct framers is never longer). -/
def fiatD : Nat → List Nat → FiatH τ
  | 0, _ => noFiat
  | d+1, chain => fun by_ c sl w =>
    if sl ∈ by_ :: chain then ({ w with unsupported := true }, false) else
    let r := table (fiatD d (by_ :: chain)) sl c w
    let ret := decide (r.1 = expected c)
    (r.2.log (.fiat by_ sl c r.1 ret), ret)

/-- the fiats of a scheduled framer -/
def fiatTop (n : Nat) : FiatH τ := fiatD (n + 1) []

/-- the scheduler's view of the framers -/
def FramerEnv : Env τ (World τ) where
  desire w i := (w.framers i).desire
  period w i := (w.framers i).period
  status w i := (w.framers i).status
  active w i := (w.framers i).sched = .active
  setReady i c w := setStatus i .stopped (writeDesire i c w)
  send ph i c _ w :=
    let r := table (fiatTop w.n) i c (w.log (.recv ph i c))
    (.yielded r.1, r.2.log (.yield i r.1))
  boundary _ _ := none

/-! ### programs -/

structure Program (τ : Type) where
  period : τ
  stamp : τ
  houses : List House
  framers : List (Fr τ)
  deriving Repr, Inhabited

def actOk (n : Nat) (isSlave : Nat → Bool) (me : Nat) : Act τ → Bool
  | .bid ts _ _ => ts.all (fun t => decide (t < n) && !isSlave t)
  | .fiat c sl => decide (sl < n) && isSlave sl && c != .other && (!isSlave me || decide (me < sl))
  | .put _ _ => true

def guardOk (n : Nat) (isSlave : Nat → Bool) (me : Nat) : Guard → Bool
  | .cond _ => true
  | .fiat c sl => decide (sl < n) && isSlave sl && c != .other && (!isSlave me || decide (me < sl))

/-- ids in range, slaves are not scheduled and are the only fiat targets, bids go to non-slaves, a slave
fiats only slaves declared after it (so the master/slave relation is a forest-like DAG and no generator is
resumed while it is executing), every framer has a first frame, `over` points to an earlier frame, transitions go to another existing frame -/
def Program.wellFormed (p : Program τ) : Bool :=
  let n := p.framers.length
  let isSlave := fun i => (p.framers.getD i { sched := .inactive, period := p.period, frames := [] }).sched == .slave
  let placed := p.houses.flatMap House.taskables
  placed.all (fun i => decide (i < n) && !isSlave i) && placed.eraseDups.length == placed.length &&
  (List.range n).all (fun me =>
    let f := p.framers.getD me { sched := .inactive, period := p.period, frames := [] }
    !f.frames.isEmpty &&
    (List.range f.frames.length).all (fun idx =>
      let fr := frameOf f idx
      fr.beacts.all (guardOk n isSlave me) &&
      (fr.enacts ++ fr.reacts ++ fr.exacts).all (actOk n isSlave me) &&
      (match fr.over with | some o => decide (o < idx) | none => true) &&
      fr.preacts.all (fun t => decide (t.target < f.frames.length) && t.target != idx)))

def Program.world (p : Program τ) : World τ :=
  { n := p.framers.length
    framers := fun i => p.framers.getD i { sched := .inactive, period := TimeLike.zero, frames := [] }
    flags := fun _ => 0
    trace := [] }

def Program.run (p : Program τ) (fuel : Nat) : Outcome × St τ (World τ) :=
  Ioflo.Sked.run FramerEnv fuel (start FramerEnv p.period p.stamp p.houses p.world)

end Ioflo.Bids
