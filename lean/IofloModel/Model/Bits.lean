/-
Model of ioflo/aid/byting.py  (bit, byte, hex and binary-string codecs).

Transcribed function by function; core Lean only (the driver links it).

Conventions
* Python `int` is `Int`; values that the code has already masked / built from
  non-negative parts are `Nat`.  On two's-complement unbounded ints
  `x & (2**k - 1)` is `x mod 2^k` (Euclidean `%`), `x >> k` is floor division by
  `2^k` (`Int.shiftRight`), and `x ^ (1 << k)` flips bit `k`, i.e. adds `2^k` when
  that bit is clear and subtracts it when it is set (`xorBit`).
* a `bytearray` / `bytes` is `List Byte` (`Byte = BitVec 8`); a `str` is `List Char`.
* `fmt.split()` + `int(x)` (CPython text → int) is outside the model: a format is the
  `List Int` of its field lengths.  Negative lengths are kept: the code reaches
  `int & float` (`TypeError`) or a negative shift count (`ValueError`) on them, in the
  order transcribed below.
* `fields[i]` is an `Int` (`True`/`False` are `1`/`0`; only truthiness and `&` are used).
* An exception is a constructor of the result (`Except Err`).
-/
namespace Ioflo.Bits

abbrev Byte := BitVec 8

inductive Err where
  | valueError | typeError | indexError
  deriving DecidableEq, Repr

/-- element of the tuple returned by `unpackify` -/
inductive Fld where
  | int (n : Nat)
  | bool (b : Bool)
  deriving DecidableEq, Repr

/-! ### binize / unbinize -/

/-- `str((n >> y) & 1)` -/
def bitChar (n : Int) (y : Nat) : Char := if (n >>> y) % 2 = 1 then '1' else '0'

/-- `"".join([str((n >> y) & 1) for y in range(size-1, -1, -1)])` -/
def binize (n : Int) (size : Int) : List Char :=
  (List.range size.toNat).reverse.map (bitChar n)

/-- `int(bit)` for a one-character ASCII string (`none` = `ValueError`). -/
def digitVal? (c : Char) : Option Nat :=
  if '0' ≤ c ∧ c ≤ '9' then some (c.toNat - '0'.toNat) else none

/-- the `for bit in u` loop of `unbinize` with accumulator `n` -/
def unbinizeLoop : List Char → Nat → Except Err Nat
  | [], n => .ok n
  | c :: cs, n =>
    match digitVal? c with
    | none => .error .valueError
    | some d => unbinizeLoop cs ((n <<< 1) ||| (if d ≠ 0 then 1 else 0))

def unbinize (u : List Char) : Except Err Nat := unbinizeLoop u 0

/-! ### hexify / unhexify  (hexize / unhexize are the same functions on `bytes`) -/

def hexChar (n : Nat) : Char :=
  if n < 10 then Char.ofNat ('0'.toNat + n) else Char.ofNat ('a'.toNat + (n - 10))

/-- `"{0:02x}".format(byte)` -/
def hex2 (x : Byte) : List Char := [hexChar (x.toNat / 16), hexChar (x.toNat % 16)]

/-- `for byte in b: h += "{0:02x}".format(byte)` -/
def hexify : List Byte → List Char
  | [] => []
  | x :: xs => hex2 x ++ hexify xs

/-- `c in string.hexdigits` for a one-character string -/
def isHexDigit (c : Char) : Bool :=
  ('0' ≤ c ∧ c ≤ '9') || ('a' ≤ c ∧ c ≤ 'f') || ('A' ≤ c ∧ c ≤ 'F')

/-- value of one character under `int(s, 16)` (only ever applied to hex digits) -/
def hexVal (c : Char) : Nat :=
  if '0' ≤ c ∧ c ≤ '9' then c.toNat - '0'.toNat
  else if 'a' ≤ c ∧ c ≤ 'f' then c.toNat - 'a'.toNat + 10
  else c.toNat - 'A'.toNat + 10

/-- `for i in range(0, len(h), 2): b.append(int(h[i:i+2], 16))` -/
def hexPairs : List Char → List Byte
  | a :: b :: rest => BitVec.ofNat 8 (hexVal a * 16 + hexVal b) :: hexPairs rest
  | [a] => [BitVec.ofNat 8 (hexVal a)]
  | [] => []

def unhexify (h : List Char) : List Byte :=
  let h := h.filter isHexDigit                    -- delete every non-hex character
  let h := if h.length % 2 = 1 then '0' :: h else h
  hexPairs h

/-! ### bytify / unbytify -/

/-- `while n: b.insert(0, n & 0xFF); n >>= 8` with `b = acc` -/
def bytifyLoop (n : Nat) (acc : List Byte) : List Byte :=
  if h : n = 0 then acc else bytifyLoop (n / 256) (BitVec.ofNat 8 (n % 256) :: acc)
decreasing_by omega

def bytify (n : Int) (size : Nat) (reverse strict : Bool) : List Byte :=
  let n : Nat := if n < 0 ∨ strict then (n % 2 ^ (size * 8)).toNat else n.toNat
  let b := bytifyLoop n []
  let count := b.length
  let b := if count < size then List.replicate (size - count) 0#8 ++ b else b
  if reverse then b.reverse else b

/-- `n = 0; while b: n <<= 8; n += b.pop()`  (pops from the END of `b`) -/
def popLoop (b : List Byte) (n : Nat) : Nat :=
  b.reverse.foldl (fun n x => (n <<< 8) + x.toNat) n

def unbytify (b : List Byte) (reverse : Bool) : Nat :=
  let b := if !reverse then b.reverse else b
  popLoop b 0

/-! ### packify / packifyInto / unpackify -/

/-- `size` after the `if size is None` default and the range check
`0 <= tbfl <= size*8` (`ValueError` otherwise) -/
def checkSize (fmt : List Int) (size : Option Int) : Except Err Nat :=
  let tbfl := fmt.sum
  let size : Int := match size with
    | some s => s
    | none => if tbfl % 8 ≠ 0 then tbfl / 8 + 1 else tbfl / 8
  if 0 ≤ tbfl ∧ tbfl ≤ size * 8 then .ok size.toNat else .error .valueError

/-- the `bits` of one field before shifting -/
def packBits (bfl : Int) (f : Int) : Except Err Nat :=
  if bfl = 1 then .ok (if f ≠ 0 then 1 else 0)        -- truthiness
  else if bfl < 0 then .error .typeError               -- int & (2**bfl - 1) with a float
  else .ok (f % 2 ^ bfl.toNat).toNat                   -- fields[i] & (2**bfl - 1)

/-- the `for i, bfmt in enumerate(fmt.split())` loop of `packify`; returns `(n, bfp)` -/
def packLoop : List Int → List Int → Nat → Nat → Except Err (Nat × Nat)
  | [], _, n, bfp => .ok (n, bfp)
  | _ :: _, [], _, _ => .error .indexError              -- fields[i]
  | bfl :: fmt, f :: fs, n, bfp =>
    match packBits bfl f with
    | .error e => .error e
    | .ok bits =>
      if bfp < bfl.toNat then .error .valueError        -- negative shift count
      else packLoop fmt fs (n ||| (bits <<< (bfp - bfl.toNat))) (bfp - bfl.toNat)

def packify (fmt : List Int) (fields : List Int) (size : Option Int) (reverse : Bool) :
    Except Err (List Byte) :=
  match checkSize fmt size with
  | .error e => .error e
  | .ok size =>
    match packLoop fmt fields 0 (8 * size) with
    | .error e => .error e
    | .ok (n, _) => .ok (bytify n size reverse true)

/-- returns the new content of `b` and the returned `size`.  (On an exception the
caller's `b` may already have been zero-extended; that state is not modelled.) -/
def packifyInto (b : List Byte) (fmt : List Int) (fields : List Int) (size : Option Int)
    (offset : Nat) (reverse : Bool) : Except Err (List Byte × Nat) :=
  match checkSize fmt size with
  | .error e => .error e
  | .ok size =>
    let b := if b.length < offset + size
             then b ++ List.replicate (offset + size - b.length) 0#8 else b
    match packLoop fmt fields 0 (8 * size) with
    | .error e => .error e
    | .ok (n, _) =>
      let bp := bytify n size reverse true
      -- b[offset:offset + len(bp)] = bp
      .ok (b.take offset ++ bp ++ b.drop (offset + bp.length), size)

/-- one element of the result tuple -/
def mkFld (bfl : Int) (boolean : Bool) (bits : Nat) : Fld :=
  if bfl = 1 ∧ boolean = true then .bool (bits != 0) else .int bits

/-- the field loop of `unpackify`; returns the fields and the final `bfp` -/
def unpackLoop (n : Nat) (boolean : Bool) : List Int → Nat → Except Err (List Fld × Nat)
  | [], bfp => .ok ([], bfp)
  | bfl :: fmt, bfp =>
    if bfl < 0 then .error .typeError                   -- float << int
    else if bfp < bfl.toNat then .error .valueError     -- negative shift count
    else
      let sh := bfp - bfl.toNat
      let mask := (2 ^ bfl.toNat - 1) <<< sh
      let bits := (n &&& mask) >>> sh
      match unpackLoop n boolean fmt sh with
      | .error e => .error e
      | .ok (fs, bfp') => .ok (mkFld bfl boolean bits :: fs, bfp')

def unpackify (fmt : List Int) (b : List Byte) (boolean : Bool) (size : Option Int)
    (reverse : Bool) : Except Err (List Fld) :=
  let b := if reverse then b.reverse else b
  match checkSize fmt size with
  | .error e => .error e
  | .ok size =>
    let b := b.take size
    let n := unbytify b false
    match unpackLoop n boolean fmt (8 * size) with
    | .error e => .error e
    | .ok (fs, bfp) =>
      if bfp ≠ 0 then .ok (fs ++ [mkFld (bfp : Int) boolean (n &&& (2 ^ bfp - 1))])
      else .ok fs

/-- Region of the known finding about one-bit fields: some field of width 1 holds a value
other than 0/1 (`False`/`True`); such a value is packed by truthiness, not by masking. -/
def oneBitNonBool : List Int → List Int → Bool
  | bfl :: fmt, f :: fs => (bfl == 1 && f != 0 && f != 1) || oneBitNonBool fmt fs
  | _, _ => false

/-! ### signExtend -/

/-- `x ^ (1 << k)` on an unbounded two's-complement int -/
def xorBit (x : Int) (k : Nat) : Int :=
  if (x >>> k) % 2 = 0 then x + 2 ^ k else x - 2 ^ k

def signExtend (x : Int) (n : Int) : Except Err Int :=
  if n - 1 < 0 then .error .valueError                 -- 1 << (n-1): negative shift count
  else
    let m : Int := 2 ^ (n - 1).toNat
    .ok (xorBit x (n - 1).toNat - m)

/-! ### packByte / unpackByte (one byte, one decimal digit per field) -/

/-- field loop of `packByte`; `bu` (bits used) is `8 - bfp` throughout -/
def packByteLoop : List Nat → List Int → Nat → Nat → Except Err Nat
  | [], _, byte, _ => .ok byte
  | bfl :: fmt, fields, byte, bfp =>
    if ¬ (0 < bfl ∧ bfl ≤ 8) then .error .valueError
    else if bfp < bfl then .error .valueError               -- bu > 8  (bfp = 8 - bu)
    else match fields with
      | [] => .error .indexError
      | f :: fs =>
        let bits : Nat := if bfl = 1 then (if f ≠ 0 then 1 else 0) else (f % 2 ^ bfl).toNat
        packByteLoop fmt fs (byte ||| (bits <<< (bfp - bfl))) (bfp - bfl)

def packByte (fmt : List Nat) (fields : List Int) : Except Err Nat :=
  packByteLoop fmt fields 0 8

def unpackByteLoop (byte : Nat) (boolean : Bool) : List Nat → Nat → Except Err (List Fld)
  | [], _ => .ok []
  | bfl :: fmt, bfp =>
    if ¬ (0 < bfl ∧ bfl ≤ 8) then .error .valueError
    else if bfp < bfl then .error .valueError               -- bu > 8  (bfp = 8 - bu)
    else
      let sh := bfp - bfl
      let bits := (byte &&& ((2 ^ bfl - 1) <<< sh)) >>> sh
      match unpackByteLoop byte boolean fmt sh with
      | .error e => .error e
      | .ok fs => .ok (mkFld bfl boolean bits :: fs)

def unpackByte (fmt : List Nat) (byte : Int) (boolean : Bool) : Except Err (List Fld) :=
  unpackByteLoop (byte % 256).toNat boolean fmt 8



/-! ### the format TEXT: `fmt.split()` and `int(token)` (ASCII) -/

/-- `str.isspace` on ASCII: TAB LF VT FF CR, FS GS RS US, SPACE — what `str.split()` splits on -/
def isSpace (c : Char) : Bool :=
  c.toNat == 32 || (9 ≤ c.toNat && c.toNat ≤ 13) || (28 ≤ c.toNat && c.toNat ≤ 31)

def isDigit (c : Char) : Bool := 48 ≤ c.toNat && c.toNat ≤ 57
def digitOf (c : Char) : Nat := c.toNat - 48

/-- `fmt.split()`: maximal runs of non-whitespace characters; `cur` is the current run, reversed -/
def tokensAux : List Char → List Char → List (List Char)
  | [], cur => if cur.isEmpty then [] else [cur.reverse]
  | c :: cs, cur =>
    if isSpace c then
      if cur.isEmpty then tokensAux cs [] else cur.reverse :: tokensAux cs []
    else tokensAux cs (c :: cur)

def tokens (s : List Char) : List (List Char) := tokensAux s []

/-- the digits of `int(token)` after the first digit: digits, single underscores between digits -/
def digitsLoop : List Char → Nat → Option Nat
  | [], acc => some acc
  | c :: rest, acc =>
    if c = '_' then
      match rest with
      | d :: rest' => if isDigit d then digitsLoop rest' (acc * 10 + digitOf d) else none
      | [] => none
    else if isDigit c then digitsLoop rest (acc * 10 + digitOf c) else none

def parseDigits : List Char → Option Nat
  | [] => none
  | c :: rest => if isDigit c then digitsLoop rest (digitOf c) else none

/-- `int(token)` for an ASCII token without surrounding white space (`none` = `ValueError`) -/
def parseInt : List Char → Option Int
  | '+' :: rest => (parseDigits rest).map Int.ofNat
  | '-' :: rest => (parseDigits rest).map (fun n => -(Int.ofNat n))
  | s => (parseDigits s).map Int.ofNat

/-- `[int(x) for x in fmt.split()]`; the first bad token raises `ValueError` -/
def parseFmt (s : List Char) : Except Err (List Int) :=
  match (tokens s).mapM parseInt with
  | some ws => .ok ws
  | none => .error .valueError

/-- `packify(fmt=text, ...)`: the text is parsed (inside `sum(...)`) before anything else -/
def packifyText (fmt : List Char) (fields : List Int) (size : Option Int) (reverse : Bool) :
    Except Err (List Byte) :=
  match parseFmt fmt with
  | .error e => .error e
  | .ok ws => packify ws fields size reverse

def unpackifyText (fmt : List Char) (b : List Byte) (boolean : Bool) (size : Option Int)
    (reverse : Bool) : Except Err (List Fld) :=
  match parseFmt fmt with
  | .error e => .error e
  | .ok ws => unpackify ws b boolean size reverse

/-! ### packifyInto in full: any offset, any buffer type, the buffer after an exception -/

/-- what the caller passed as `b` -/
inductive BufKind where
  | bytearray | list | bytes
  deriving DecidableEq

/-- more exceptions (`bytes` has no `extend` / no item assignment) -/
inductive IntoErr where
  | codec (e : Err)
  | attributeError
  | typeErrorAssign
  deriving DecidableEq

/-- Python `b[i:j] = v` (step 1) on a sequence of length `n`: bounds as `slice.indices` computes them -/
def sliceBounds (n : Nat) (i j : Int) : Nat × Nat :=
  let cl (k : Int) : Nat := (if k < 0 then max (k + n) 0 else min k n).toNat
  let lo := cl i
  let hi := cl j
  (lo, if hi < lo then lo else hi)

def sliceAssign (b : List Byte) (i j : Int) (v : List Byte) : List Byte :=
  let (lo, hi) := sliceBounds b.length i j
  b.take lo ++ v ++ b.drop hi

/-- `packifyInto(b, fmt, fields, size, offset, reverse)`: the content of the caller's buffer after
the call — also when it raises — and the result.  Statement order of the code: parse + size
check (nothing touched yet), zero-extension, field loop (may raise with the buffer already
extended), slice assignment. -/
def packifyIntoFull (kind : BufKind) (b : List Byte) (fmt : List Int) (fields : List Int)
    (size : Option Int) (offset : Int) (reverse : Bool) : List Byte × Except IntoErr Nat :=
  match checkSize fmt size with
  | .error e => (b, .error (.codec e))
  | .ok size =>
    let short : Bool := decide ((b.length : Int) < offset + size)
    if short && kind == .bytes then (b, .error .attributeError)       -- bytes has no extend
    else
      let b := if short then b ++ List.replicate (offset + size - b.length).toNat 0#8 else b
      match packLoop fmt fields 0 (8 * size) with
      | .error e => (b, .error (.codec e))
      | .ok (n, _) =>
        if kind == .bytes then (b, .error .typeErrorAssign)           -- item assignment
        else
          let bp := bytify n size reverse true
          (sliceAssign b offset (offset + bp.length) bp, .ok size)

/-- Region of known finding D40b: a negative offset whose slice end `offset + size` is not negative
any more — Python then reads the end as an index from the FRONT and inserts instead of overwriting -/
def negOffsetInserts (offset : Int) (size : Nat) : Bool :=
  decide (offset < 0) && decide (0 ≤ offset + size) && decide (0 < size)


end Ioflo.Bits
