import IofloModel.Model.Literal
/-
Model of the optional-clause loops of ioflo/base/building.py and of the sub-parsers they call:

* `Builder.parseDirect`, `parseFields`, `parsePath`, `parseIndirect`, `parseRelation`, `verifyName`
* the `while index < len(tokens)` option loops of `buildFramer` (`at be in first via`), `buildFrame`
  (`in via`), `buildDo` (kind parts, then `as at via with from per for cum qua`), `buildAux`
  (`as via`, trailing `if`), `buildRear` (`as be in`), `buildLog` (`as to on`), `buildLogger`
  (`at to be in flush keep cycle size reuse`), `buildServer` (`at to be in rx tx per for`),
  and the `in frame` / `by` loop of `makeMarkerNeed`.

Python's `(tokens, index)` pairs are token lists: `tokens[index:]`.  An `IndexError` (reading past the
end) is `Err.index`; every verb catches it and raises `ParseError` ("Not enough tokens").  Literal
values are converted by the model of C17 (`Model/Literal.lean`).  What a verb does with its
configuration after the loop (creating framers, registries, "already exists" checks) is outside the
model: a verb returns the configuration it parsed.

`fix` selects the terminator list of the `as` name loop of `buildDo`: `true` = repaired
(fixes/D09-do-as-terminators.patch), `false` = as found (defect D9: `'from' 'per'` is one string
`'fromper'` and `'via'` is missing).
-/
set_option linter.unusedVariables false
namespace Ioflo.Clauses
open Ioflo.Literal

/-- the exception classes that can leave a sub-parser -/
inductive Err where
  | parse      -- excepting.ParseError
  | value      -- ValueError of a literal converter
  | type_      -- TypeError (format/arity slips in error paths, `max(0.0, complex)`)
  | index      -- IndexError, before the verb turns it into ParseError
  | overflow   -- OverflowError (`int(float('inf'))`)
deriving DecidableEq, Repr

abbrev P (α : Type) := Except Err α

instance {α : Type} [DecidableEq α] : DecidableEq (P α) := fun a b =>
  match a, b with
  | .ok x, .ok y => if h : x = y then isTrue (by rw [h]) else isFalse (by intro e; cases e; exact h rfl)
  | .error x, .error y => if h : x = y then isTrue (by rw [h]) else isFalse (by intro e; cases e; exact h rfl)
  | .ok _, .error _ => isFalse (by intro e; cases e)
  | .error _, .ok _ => isFalse (by intro e; cases e)

/-! ### reserved words, names, paths -/

def Comparisons : List Str := ["==", "<", "<=", ">=", ">", "!="].map String.toList
def Connectives : List Str :=
  ["to", "by", "with", "from", "per", "for", "cum", "qua", "via",
   "as", "at", "in", "of", "on", "re", "is",
   "if", "be", "into", "and", "not", "+-"].map String.toList
def Reserved : List Str := Connectives ++ Comparisons
def isReserved (t : Str) : Bool := Reserved.contains t

def str (s : String) : Str := s.toList

/-- `REO_IdentPub = ^[a-zA-Z]\w*$` -/
def identPub (t : Str) : Bool :=
  match t with
  | c :: cs =>
    (isLetter_ c && c != '_') &&
    (match cs.dropWhile isWord with
     | [] => true
     | ['\n'] => true
     | _ => false)
  | [] => false

/-- `verifyName`: a public identifier that is not reserved -/
def verifyName (name : Str) : P Unit :=
  if !identPub name || isReserved name then .error .parse else .ok ()

/-- `$`: one final newline is tolerated -/
def dropNl (t : Str) : Str := if t.getLast? == some '\n' then t.dropLast else t

/-- final state of the path recogniser of `Model/Literal.lean` on the text without that newline -/
def pathState (t : Str) : PathSt := (dropNl t).foldl pathStep .start

/-- `REO_RelPath` / `REO_RelPathNode` (node: a trailing dot is allowed) -/
def relPath (node : Bool) (t : Str) : Bool :=
  (match t with | c :: _ => isLetter_ c | [] => false) &&
  (match pathState t with
   | .ident => true
   | .dot => node
   | _ => false)

/-- `REO_DotPath` / `REO_DotPathNode` -/
def dotPath (node : Bool) (t : Str) : Bool :=
  (match t with | c :: _ => c == '.' | [] => false) &&
  (match pathState t with
   | .ident => true
   | .dot => node
   | _ => false)

/-- `REO_Path`: dot path or relative path (no trailing dot) -/
def anyPath (t : Str) : Bool := relPath false t || dotPath false t

/-- `text.split('.')` -/
def splitDots : Str → List Str
  | [] => [[]]
  | c :: cs =>
    match splitDots cs with
    | [] => [[c]]           -- unreachable: splitDots never returns []
    | h :: tl => if c == '.' then [] :: h :: tl else (c :: h) :: tl

/-- Python `a in b` for strings -/
def isSubstr (a : Str) : Str → Bool
  | [] => a.isEmpty
  | c :: cs => a.isPrefixOf (c :: cs) || isSubstr a cs

/-! ### `parseRelation`, `parseIndirect`, `parsePath` -/

/-- finishing `of frame [name]` once the `of framer …` part after it has been parsed (`fr`) -/
def frameRel (name framername : Str) (inner : P (Str × List Str)) : P (Str × List Str) :=
  let relation := str "frame." ++ name
  match inner with
  | .error e => .error e
  | .ok (fr, rest) =>
    if !fr.isEmpty && (isSubstr (str ".frame.") fr || isSubstr (str ".actor.") fr) then .error .parse
    else if !fr.isEmpty then .ok (fr ++ '.' :: relation, rest)
    else .ok (str "framer." ++ (if framername.isEmpty then str "me" else framername) ++ '.' :: relation, rest)

/-- finishing `of actor [name]` -/
def actorRel (name : Str) (inner : P (Str × List Str)) : P (Str × List Str) :=
  let relation := str "actor." ++ name
  match inner with
  | .error e => .error e
  | .ok (fr, rest) =>
    if !fr.isEmpty && isSubstr (str ".actor.") fr then .error .parse
    else if !fr.isEmpty then .ok (fr ++ '.' :: relation, rest)
    else .ok (str "framer.me.frame.me." ++ relation, rest)

def mainOr (name : Str) : Str := if name == str "main" then str "main" else []

/-- `parseRelation(tokens, index, framername)`: the `of …` clauses after a path.  The optional name after
`framer` / `frame` / `actor` is taken when the next token is not reserved; after `frame` and `actor`
the function calls itself for the enclosing relation. -/
def parseRelation : List Str → Str → P (Str × List Str)
  | [], _ => .ok ([], [])
  | t :: rest, framername =>
    if t != str "of" then .ok ([], t :: rest) else
    match rest with
    | [] => .error .index                       -- `tokens[index]` after `of`
    | rel :: rest1 =>
      if ![str "root", str "me", str "framer", str "frame", str "actor"].contains rel then .error .parse
      else if rel == str "root" then .ok ([], rest1)
      else if rel == str "me" then .ok (str "me", rest1)
      else if rel == str "framer" then
        match rest1 with
        | [] => .ok (str "framer." ++ (if framername.isEmpty then str "me" else framername), [])
        | name :: rest2 =>
          if !isReserved name then
            (if identPub name then .ok (str "framer." ++ name, rest2) else .error .parse)
          else .ok (str "framer." ++ (if framername.isEmpty then str "me" else framername), name :: rest2)
      else if rel == str "frame" then
        match rest1 with
        | [] => frameRel (str "me") [] (.ok ([], []))
        | name :: rest2 =>
          if !isReserved name then
            (if identPub name then frameRel name (mainOr name) (parseRelation rest2 (mainOr name)) else .error .parse)
          else frameRel (str "me") [] (parseRelation (name :: rest2) [])
      else -- actor
        match rest1 with
        | [] => actorRel (str "me") (.ok ([], []))
        | name :: rest2 =>
          if !isReserved name then
            (if identPub name then actorRel name (parseRelation rest2 []) else .error .parse)
          else actorRel (str "me") (parseRelation (name :: rest2) [])

/-- the path `parseIndirect` returns for a path token and the relation parsed after it
(`relation + path`, inline `framer.`/`frame.`/`actor.` heads, conflicts) -/
def indirectPath (node : Bool) (path relation : Str) : P Str :=
  if dotPath node path then .ok (relation ++ path)
  else if relPath node path then
    let chunks := splitDots path
    let c0 := chunks.headD []
    if !relation.isEmpty then
      if [str "framer", str "frame", str "actor"].contains c0 &&
         (c0 == str "framer" ||
          (c0 == str "frame" && isSubstr (str ".frame.") relation) ||
          (c0 == str "actor" && isSubstr (str ".actor.") relation)) then .error .parse
      else if [str "framer", str "frame", str "actor"].contains c0 && relation == str "me" then .error .parse
      else .ok (relation ++ '.' :: path)
    else
      if c0 == str "actor" then
        if chunks.length < 3 then .error .parse else .ok (str "framer.me.frame.me." ++ path)
      else if c0 == str "frame" then
        if chunks.length < 3 then .error .parse
        else
          let fn := if chunks.getD 1 [] == str "main" then str "main" else str "me"
          .ok (str "framer." ++ fn ++ '.' :: path)
      else .ok path
  else .error .parse

/-- `parseIndirect(tokens, index, node)` -/
def parseIndirect (node : Bool) (toks : List Str) : P (Str × List Str) :=
  match toks with
  | [] => .error .index
  | path :: rest =>
    if isReserved path then .error .parse
    else if !(dotPath node path || relPath node path) then .error .parse   -- "Invalid path"
    else
      match parseRelation rest [] with
      | .error e => .error e
      | .ok (relation, rest') =>
        match indirectPath node path relation with
        | .error e => .error e
        | .ok p => .ok (p, rest')

/-- `parsePath` -/
def parsePath (toks : List Str) : P (Str × List Str) :=
  match toks with
  | [] => .error .index
  | path :: rest => if anyPath path then .ok (path, rest) else .error .parse

/-! ### `parseFields`, `parseDirect` -/

/-- the provisional scan of `parseFields`: fields up to `in`; `none` when a reserved word or the end
comes first -/
def scanFields : List Str → Option (List Str × List Str)
  | [] => none
  | t :: rest =>
    if t == str "in" then some ([], rest)
    else if isReserved t then none
    else match scanFields rest with
      | some (fs, r) => some (stripQuotes t :: fs, r)
      | none => none

/-- `parseFields(tokens, index)` -/
def parseFields (toks : List Str) : P (List Str × List Str) :=
  match scanFields toks with
  | none => .ok ([], toks)
  | some (fields, rest) =>
    if fields.length > 1 && fields.contains (str "value") then .error .parse
    else if fields.all identPub then .ok (fields, rest) else .error .parse

/-- the `while index < len(tokens)` pair loop of `parseDirect` -/
def directPairs : List Str → List (Str × Val) → P (List (Str × Val) × List Str)
  | [], acc => .ok (acc, [])
  | [f], acc =>
    if isReserved f then .ok (acc, [f]) else .error .index         -- `tokens[index]` for the value
  | f :: v :: rest, acc =>
    if isReserved f then .ok (acc, f :: v :: rest)
    else if isReserved v then .error .type_            -- `"… '{0}' …" % (value)`: TypeError (defect D7)
    else match convert2StrBoolPathCoordPointNum v with
      | .error _ => .error .value
      | .ok val => directPairs rest (acc ++ [(stripQuotes f, val)])

/-- `odict` update: a later value for the same field replaces the earlier one in place -/
def odictSet (d : List (Str × Val)) (k : Str) (v : Val) : List (Str × Val) :=
  if d.any (·.1 == k) then d.map (fun p => if p.1 == k then (k, v) else p) else d ++ [(k, v)]

def odictOf (ps : List (Str × Val)) : List (Str × Val) := ps.foldl (fun d p => odictSet d p.1 p.2) []

/-- the first field/value of `parseDirect`: `(field, value text, rest)` -/
def directFirst (toks : List Str) : P ((Str × Str) × List Str) :=
  match toks with
  | [] => .error .index                            -- `tokens[index]`
  | [v] => if isReserved v then .error .type_ else .ok ((str "value", v), [])
  | f :: v :: rest =>
    if isReserved f then .error .type_              -- `"… '{0}' …" % (field)`: TypeError (defect D7)
    else if isReserved v then .ok ((str "value", f), v :: rest)
    else .ok ((stripQuotes f, v), rest)

/-- the checks at the end of `parseDirect` -/
def directFinish (pairs : List (Str × Val)) (rest : List Str) : P (List (Str × Val) × List Str) :=
  let data := odictOf pairs
  if data.length > 1 && data.any (·.1 == str "value") then .error .parse
  else if data.all (fun p => identPub p.1) then .ok (data, rest) else .error .parse

/-- `parseDirect(tokens, index)`: `[value] value` or `field value [field value …]` -/
def parseDirect (toks : List Str) : P (List (Str × Val) × List Str) :=
  match directFirst toks with
  | .error e => .error e
  | .ok ((field, vtext), rest) =>
    match convert2StrBoolPathCoordPointNum vtext with
    | .error _ => .error .value
    | .ok val =>
      match directPairs rest [(field, val)] with
      | .error e => .error e
      | .ok (pairs, rest') => directFinish pairs rest'

/-! ### numbers in clauses -/

/-- is a decimal value negative (strictly below zero)? -/
def fNeg : FloatV → Bool
  | .fin d => d.neg && d.mant != 0
  | .inf n => n
  | .nan => false

/-- `float(i)` raises OverflowError: `|i|` rounds to 2^1024 or beyond -/
def intTooBig (i : Int) : Bool := decide (2 ^ 1024 - 2 ^ 970 ≤ i.natAbs)

/-- `max(0.0, Convert2RealNum(t))` (`framer … at`, `bid … at`); `Convert2RealNum` goes through `Convert2FloatNum`:
ValueError for an integer too large for a float (was OverflowError further on: defect D65b) -/
def max0 (t : Str) : P Val :=
  match convert2Num t with
  | .error _ => .error .value
  | .ok (.int i) =>
    if intTooBig i then .error .value
    else .ok (if i > 0 then .int i else .float zero)       -- `max` keeps the first of equals: 0.0
  | .ok (.float f) =>
    (match f with
     | .nan => .ok (.float zero)                  -- `nan > 0.0` is false
     | .fin d => if d.mant != 0 && !d.neg then .ok (.float f) else .ok (.float zero)
     | .inf n => if n then .ok (.float zero) else .ok (.float f))
  | .ok (.complex _ _) => .error .value           -- `Convert2RealNum`: ValueError (was TypeError from `max`: defect D8)
  | .ok v => .ok v

/-! ### the option loops -/

/-- a verb's option loop: `clause connective tokens-after-it cfg`; it must not return more tokens
than it was given -/
structure Verb (σ : Type) where
  clause : Str → List Str → σ → P (σ × List Str)
  shorter : ∀ c toks s s' r, clause c toks s = .ok (s', r) → r.length ≤ toks.length

/-- `while index < len(tokens): connective = tokens[index]; index += 1; …` -/
def runClauses {σ : Type} (v : Verb σ) (toks : List Str) (s : σ) : P σ :=
  match toks with
  | [] => .ok s
  | c :: rest =>
    match h : v.clause c rest s with
    | .error e => .error e
    | .ok (s', r) => runClauses v r s'
termination_by toks.length
decreasing_by
  have := v.shorter c rest s s' r h
  simp; omega

/-- the verb's `except IndexError: raise ParseError("Not enough tokens")` -/
def catchIndex {α : Type} (r : P α) : P α :=
  match r with
  | .error .index => .error .parse
  | r => r

def bind {α β : Type} (r : P α) (f : α → P β) : P β :=
  match r with
  | .error e => .error e
  | .ok a => f a

/-- one token as the value of a clause -/
def oneTok (toks : List Str) : P (Str × List Str) :=
  match toks with
  | [] => .error .index
  | t :: rest => .ok (t, rest)

/-- `while …: if tokens[index] in stops: break; parts.append(tokens[index])` -/
def takeParts (stops : List Str) : List Str → List Str × List Str
  | [] => ([], [])
  | t :: rest =>
    if stops.contains t then ([], t :: rest)
    else let r := takeParts stops rest; (t :: r.1, r.2)

/-! ### no sub-parser returns more tokens than it was given (needed for the termination of the loops) -/

/-- a parse result whose remaining tokens number at most `n` -/
def Short {α : Type} (n : Nat) (r : P (α × List Str)) : Prop := ∀ a rest, r = .ok (a, rest) → rest.length ≤ n

theorem Short.mono {α : Type} {n m : Nat} {r : P (α × List Str)} (h : Short n r) (hnm : n ≤ m) : Short m r :=
  fun a rest e => Nat.le_trans (h a rest e) hnm

theorem short_error {α : Type} (n : Nat) (e : Err) : Short n (.error e : P (α × List Str)) := by
  intro a rest h; cases h

theorem short_ok {α : Type} {n : Nat} (a : α) (rest : List Str) (h : rest.length ≤ n) :
    Short n (.ok (a, rest) : P (α × List Str)) := by
  intro a' rest' e; cases e; exact h

theorem frameRel_short {n : Nat} (name fn : Str) {inner : P (Str × List Str)} (h : Short n inner) :
    Short n (frameRel name fn inner) := by
  unfold frameRel
  cases inner with
  | error e => exact short_error _ _
  | ok p =>
    obtain ⟨fr, rest⟩ := p
    have hr := h fr rest rfl
    simp only []
    split
    · exact short_error _ _
    · split <;> exact short_ok _ _ hr

theorem actorRel_short {n : Nat} (name : Str) {inner : P (Str × List Str)} (h : Short n inner) :
    Short n (actorRel name inner) := by
  unfold actorRel
  cases inner with
  | error e => exact short_error _ _
  | ok p =>
    obtain ⟨fr, rest⟩ := p
    have hr := h fr rest rfl
    simp only []
    split
    · exact short_error _ _
    · split <;> exact short_ok _ _ hr

theorem parseRelation_short (toks : List Str) (fn : Str) : Short toks.length (parseRelation toks fn) := by
  fun_induction parseRelation toks fn <;>
    first
      | exact short_error _ _
      | exact short_ok _ _ (by simp <;> omega)
      | exact (frameRel_short _ _ (short_ok _ _ (Nat.le_refl _))).mono (by simp)
      | exact (actorRel_short _ (short_ok _ _ (Nat.le_refl _))).mono (by simp)
      | exact (frameRel_short _ _ ‹Short _ _›).mono (by simp <;> omega)
      | exact (actorRel_short _ ‹Short _ _›).mono (by simp <;> omega)

theorem bind_short {α β : Type} {n : Nat} {r : P (α × List Str)} {f : α × List Str → P (β × List Str)}
    (hr : Short n r) (hf : ∀ a rest, rest.length ≤ n → Short n (f (a, rest))) : Short n (bind r f) := by
  unfold bind
  cases r with
  | error e => exact short_error _ _
  | ok p => obtain ⟨a, rest⟩ := p; exact hf a rest (hr a rest rfl)

theorem oneTok_short (toks : List Str) : Short toks.length (oneTok toks) := by
  unfold oneTok
  cases toks with
  | nil => exact short_error _ _
  | cons t rest => exact short_ok _ _ (by simp)

theorem parseIndirect_short (node : Bool) (toks : List Str) : Short toks.length (parseIndirect node toks) := by
  unfold parseIndirect
  cases toks with
  | nil => exact short_error _ _
  | cons path rest =>
    have hrel := parseRelation_short rest []
    simp only []
    split
    · exact short_error _ _
    · split
      · exact short_error _ _
      · cases hpr : parseRelation rest [] with
        | error e => exact short_error _ _
        | ok p =>
          obtain ⟨relation, rest'⟩ := p
          have hl : rest'.length ≤ (path :: rest).length := by
            have := hrel relation rest' hpr; simp; omega
          simp only []
          cases indirectPath node path relation with
          | error e => exact short_error _ _
          | ok q => exact short_ok _ _ hl

theorem parsePath_short (toks : List Str) : Short toks.length (parsePath toks) := by
  unfold parsePath
  cases toks with
  | nil => exact short_error _ _
  | cons p rest => simp only []; split <;> first | exact short_error _ _ | exact short_ok _ _ (by simp)

theorem scanFields_short (toks : List Str) : ∀ fs r, scanFields toks = some (fs, r) → r.length ≤ toks.length := by
  induction toks with
  | nil => intro fs r h; simp [scanFields] at h
  | cons t rest ih =>
    intro fs r h
    unfold scanFields at h
    split at h
    · cases h; simp
    · split at h
      · cases h
      · split at h
        · rename_i fs' r' hs; cases h; have := ih _ _ hs; simp; omega
        · cases h

theorem parseFields_short (toks : List Str) : Short toks.length (parseFields toks) := by
  unfold parseFields
  cases hs : scanFields toks with
  | none => exact short_ok _ _ (Nat.le_refl _)
  | some p =>
    obtain ⟨fs, r⟩ := p
    have := scanFields_short toks fs r hs
    simp only []
    repeat' split
    all_goals first | exact short_error _ _ | exact short_ok _ _ this

theorem directPairs_short (toks : List Str) (acc : List (Str × Val)) :
    Short toks.length (directPairs toks acc) := by
  fun_induction directPairs toks acc <;>
    first
      | exact short_error _ _
      | exact short_ok _ _ (by simp)
      | exact Short.mono ‹Short _ _› (by simp; omega)

theorem directFirst_short (toks : List Str) : Short toks.length (directFirst toks) := by
  unfold directFirst
  split
  · exact short_error _ _
  · split <;> first | exact short_error _ _ | exact short_ok _ _ (by simp)
  · repeat' split
    all_goals first | exact short_error _ _ | exact short_ok _ _ (by simp only [List.length_cons]; omega)

theorem directFinish_short {n : Nat} (pairs : List (Str × Val)) {rest : List Str} (h : rest.length ≤ n) :
    Short n (directFinish pairs rest) := by
  unfold directFinish
  simp only []
  repeat' split
  all_goals first | exact short_error _ _ | exact short_ok _ _ h

theorem parseDirect_short (toks : List Str) : Short toks.length (parseDirect toks) := by
  unfold parseDirect
  cases h1 : directFirst toks with
  | error e => exact short_error _ _
  | ok p =>
    obtain ⟨⟨field, vtext⟩, rest⟩ := p
    have hl := directFirst_short toks _ _ h1
    simp only []
    cases convert2StrBoolPathCoordPointNum vtext with
    | error e => exact short_error _ _
    | ok val =>
      simp only []
      cases hd : directPairs rest [(field, val)] with
      | error e => exact short_error _ _
      | ok q =>
        obtain ⟨pairs, rest'⟩ := q
        have := directPairs_short rest [(field, val)] pairs rest' hd
        exact directFinish_short pairs (by omega)

theorem takeParts_short (stops : List Str) (toks : List Str) : (takeParts stops toks).2.length ≤ toks.length := by
  induction toks with
  | nil => simp [takeParts]
  | cons t rest ih =>
    unfold takeParts
    split
    · simp
    · simp; omega

/-- A clause: parse its value from the tokens after the connective, check/convert it, store it.
(`tokens[index]` reads, sub-parser calls, `if x not in …: raise ParseError`, assignment.) -/
def clauseOf {α β σ : Type} (parse : List Str → P (α × List Str)) (check : α → P β) (upd : σ → β → σ)
    (toks : List Str) (s : σ) : P (σ × List Str) :=
  match parse toks with
  | .error e => .error e
  | .ok (a, rest) =>
    match check a with
    | .error e => .error e
    | .ok b => .ok (upd s b, rest)

theorem clauseOf_short {α β σ : Type} {n : Nat} {parse : List Str → P (α × List Str)} {check : α → P β}
    {upd : σ → β → σ} {toks : List Str} (s : σ) (hp : Short n (parse toks)) :
    Short n (clauseOf parse check upd toks s) := by
  unfold clauseOf
  cases h : parse toks with
  | error e => exact short_error _ _
  | ok p =>
    obtain ⟨a, rest⟩ := p
    simp only []
    cases check a with
    | error e => exact short_error _ _
    | ok b => exact short_ok _ _ (hp a rest h)

/-- `if t not in words: raise ParseError` -/
def oneOf (words : List Str) (t : Str) : P Str := if words.contains t then .ok t else .error .parse
def accept {α : Type} (a : α) : P α := .ok a
def named (t : Str) : P Str := bind (verifyName t) fun _ => .ok t

def ScheduleWords : List Str := ["inactive", "active", "aux", "slave", "moot"].map String.toList
def OrderWords : List Str := ["mid", "front", "back"].map String.toList
def ContextWords : List Str :=
  ["native", "enter", "recur", "precur", "exit", "renter", "rexit", "benter"].map String.toList

/-! #### framer name [be …] [at …] [in …] [first …] [via …] -/

structure FramerCfg where
  schedule : Str := str "inactive"
  order : Str := str "mid"
  period : Val := .float zero
  first : Str := []
  inode : Str := []
deriving DecidableEq, Repr

def framerClause (c : Str) (toks : List Str) (s : FramerCfg) : P (FramerCfg × List Str) :=
  if c == str "at" then clauseOf oneTok max0 (fun s v => { s with period := v }) toks s
  else if c == str "be" then clauseOf oneTok (oneOf ScheduleWords) (fun s v => { s with schedule := v }) toks s
  else if c == str "in" then clauseOf oneTok (oneOf OrderWords) (fun s v => { s with order := v }) toks s
  else if c == str "first" then clauseOf oneTok named (fun s v => { s with first := v }) toks s
  else if c == str "via" then clauseOf (parseIndirect true) accept (fun s v => { s with inode := v }) toks s
  else .error .parse

def framerVerb : Verb FramerCfg where
  clause := framerClause
  shorter := by
    intro c toks s s' r h
    have : Short toks.length (framerClause c toks s) := by
      unfold framerClause
      repeat' split
      all_goals first
        | exact short_error _ _
        | exact clauseOf_short _ (oneTok_short _)
        | exact clauseOf_short _ (parseIndirect_short _ _)
    exact this s' r h

/-- `framer name <options>`: the name and the parsed options -/
def buildFramer (toks : List Str) : P (Str × FramerCfg) :=
  catchIndex (bind (oneTok toks) fun (name, rest) =>
    bind (verifyName name) fun _ => bind (runClauses framerVerb rest {}) fun cfg => .ok (name, cfg))

/-! #### frame name [in over] [via inode] -/

structure FrameCfg where
  over : Option Str := none
  inode : Str := []
deriving DecidableEq, Repr

def frameClause (c : Str) (toks : List Str) (s : FrameCfg) : P (FrameCfg × List Str) :=
  if c == str "in" then clauseOf oneTok accept (fun s v => { s with over := some v }) toks s
  else if c == str "via" then clauseOf (parseIndirect true) accept (fun s v => { s with inode := v }) toks s
  else .error .parse

def frameVerb : Verb FrameCfg where
  clause := frameClause
  shorter := by
    intro c toks s s' r h
    have : Short toks.length (frameClause c toks s) := by
      unfold frameClause
      repeat' split
      all_goals first
        | exact short_error _ _
        | exact clauseOf_short _ (oneTok_short _)
        | exact clauseOf_short _ (parseIndirect_short _ _)
    exact this s' r h

def ReservedFrameNames : List Str := [str "next", str "prev"]

def buildFrame (toks : List Str) : P (Str × FrameCfg) :=
  bind (catchIndex (bind (oneTok toks) fun (name, rest) =>
    bind (verifyName name) fun _ => bind (runClauses frameVerb rest {}) fun cfg => .ok (name, cfg)))
    fun (name, cfg) => if ReservedFrameNames.contains name then .error .parse else .ok (name, cfg)

/-! #### do kind [part …] [as name [part …]] [at context] [via inode] [with data] [from source] [per data]
[for source] [cum data] [qua source] -/

def upperC (c : Char) : Char := if 97 ≤ c.toNat && c.toNat ≤ 122 then Char.ofNat (c.toNat - 32) else c
/-- `str.capitalize()` (ASCII) -/
def capitalize (t : Str) : Str :=
  match t with
  | [] => []
  | c :: cs => upperC c :: lower cs

def camel (parts : List Str) : Str := (parts.map capitalize).flatten

/-- connectives that end the kind parts of `do` -/
def doStops : List Str := ["as", "at", "via", "with", "from", "per", "for", "cum", "qua"].map String.toList
/-- … and the list the `as` name loop uses: as found `'from' 'per'` is the single word `fromper` and
`via` is missing -/
def doAsStops (fix : Bool) : List Str :=
  if fix then doStops else ["as", "at", "with", "fromper", "for", "cum", "qua"].map String.toList

def odictMerge (d data : List (Str × Val)) : List (Str × Val) := data.foldl (fun d p => odictSet d p.1 p.2) d

def assocSet (d : List (Str × List Str)) (k : Str) (v : List Str) : List (Str × List Str) :=
  if d.any (·.1 == k) then d.map (fun p => if p.1 == k then (k, v) else p) else d ++ [(k, v)]

structure DoCfg where
  name : Str := []
  context : Option Str := none
  inode : Option Str := none
  parms : List (Str × Val) := []
  ioinits : List (Str × Val) := []
  inits : List (Str × Val) := []
  preParms : List (Str × List Str) := []
  preIoinits : List (Str × List Str) := []
  preInits : List (Str × List Str) := []
deriving DecidableEq, Repr

/-- `[(value, fields) in] indirect` -/
def parseSource (toks : List Str) : P ((Str × List Str) × List Str) :=
  match parseFields toks with
  | .error e => .error e
  | .ok (fields, rest) =>
    match parseIndirect false rest with
    | .error e => .error e
    | .ok (path, rest') => .ok ((path, fields), rest')

theorem parseSource_short (toks : List Str) : Short toks.length (parseSource toks) := by
  unfold parseSource
  cases h1 : parseFields toks with
  | error e => exact short_error _ _
  | ok p =>
    obtain ⟨fields, rest⟩ := p
    have hl := parseFields_short toks _ _ h1
    simp only []
    cases h2 : parseIndirect false rest with
    | error e => exact short_error _ _
    | ok q =>
      obtain ⟨path, rest'⟩ := q
      have := parseIndirect_short false rest _ _ h2
      exact short_ok _ _ (by omega)

/-- the name parts after `as` -/
def asName (fix : Bool) (toks : List Str) : P (Str × List Str) :=
  let r := takeParts (doAsStops fix) toks
  .ok (camel r.1, r.2)

def nonEmpty (name : Str) : P Str := if name.isEmpty then .error .parse else .ok name

def doClause (fix : Bool) (c : Str) (toks : List Str) (s : DoCfg) : P (DoCfg × List Str) :=
  if c == str "as" then clauseOf (asName fix) nonEmpty (fun s v => { s with name := v }) toks s
  else if c == str "at" then clauseOf oneTok (oneOf ContextWords) (fun s v => { s with context := some v }) toks s
  else if c == str "via" then clauseOf (parseIndirect true) accept (fun s v => { s with inode := some v }) toks s
  else if c == str "with" then clauseOf parseDirect accept (fun s d => { s with parms := odictMerge s.parms d }) toks s
  else if c == str "from" then
    clauseOf parseSource accept (fun s ps => { s with preParms := assocSet s.preParms ps.1 ps.2 }) toks s
  else if c == str "per" then clauseOf parseDirect accept (fun s d => { s with ioinits := odictMerge s.ioinits d }) toks s
  else if c == str "for" then
    clauseOf parseSource accept (fun s ps => { s with preIoinits := assocSet s.preIoinits ps.1 ps.2 }) toks s
  else if c == str "cum" then clauseOf parseDirect accept (fun s d => { s with inits := odictMerge s.inits d }) toks s
  else if c == str "qua" then
    clauseOf parseSource accept (fun s ps => { s with preInits := assocSet s.preInits ps.1 ps.2 }) toks s
  else .error .parse

def doVerb (fix : Bool) : Verb DoCfg where
  clause := doClause fix
  shorter := by
    intro c toks s s' r h
    have : Short toks.length (doClause fix c toks s) := by
      unfold doClause
      repeat' split
      all_goals first
        | exact short_error _ _
        | exact clauseOf_short _ (oneTok_short _)
        | exact clauseOf_short _ (parseIndirect_short _ _)
        | exact clauseOf_short _ (parseDirect_short _)
        | exact clauseOf_short _ (parseSource_short _)
        | exact clauseOf_short _ (short_ok _ _ (takeParts_short _ _))
    exact this s' r h

/-- `do <kind parts> <options>`: the deed kind (camel case of the parts) and the parsed options;
`if not kind: raise ParseError` -/
def buildDo (fix : Bool) (toks : List Str) : P (Str × DoCfg) :=
  let r := takeParts doStops toks
  catchIndex (bind (runClauses (doVerb fix) r.2 {}) fun cfg =>
    if (camel r.1).isEmpty then .error .parse else .ok (camel r.1, cfg))

/-! #### aux name [as clone] [via inode] [if needs…] -/

structure AuxCfg where
  clone : Option Str := none
  inode : Str := []
  needs : Option (List Str) := none      -- the tokens of the trailing `if` clause (needs are not parsed here)
deriving DecidableEq, Repr

/-- `if …` takes everything that follows -/
def allToks (toks : List Str) : P (List Str × List Str) := .ok (toks, [])

def auxClause (c : Str) (toks : List Str) (s : AuxCfg) : P (AuxCfg × List Str) :=
  if c == str "as" then clauseOf oneTok named (fun s v => { s with clone := some v }) toks s
  else if c == str "via" then clauseOf (parseIndirect true) accept (fun s v => { s with inode := v }) toks s
  else if c == str "if" then clauseOf allToks accept (fun s v => { s with needs := some v }) toks s
  else .error .parse

def auxVerb : Verb AuxCfg where
  clause := auxClause
  shorter := by
    intro c toks s s' r h
    have : Short toks.length (auxClause c toks s) := by
      unfold auxClause
      repeat' split
      all_goals first
        | exact short_error _ _
        | exact clauseOf_short _ (oneTok_short _)
        | exact clauseOf_short _ (parseIndirect_short _ _)
        | exact clauseOf_short _ (short_ok _ _ (Nat.zero_le _))
    exact this s' r h

/-- `aux name <options>`; "conditional auxiliary may not be clone" -/
def buildAux (toks : List Str) : P (Str × AuxCfg) :=
  bind (catchIndex (bind (oneTok toks) fun (name, rest) =>
    bind (verifyName name) fun _ => bind (runClauses auxVerb rest {}) fun cfg => .ok (name, cfg)))
    fun (name, cfg) =>
      if cfg.clone.isSome && (match cfg.needs with | some (_ :: _) => true | _ => false) then .error .parse
      else .ok (name, cfg)

/-! #### rear original [as clone] [be schedule] [in frame name] -/

structure RearCfg where
  clone : Str := str "mine"
  schedule : Str := str "aux"
  frame : Str := str "me"
deriving DecidableEq, Repr

/-- `in frame [name]` of `rear` and `raze`: the next token, whatever it is, is taken as the name -/
def inFrameAny (toks : List Str) : P (Option Str × List Str) :=
  match toks with
  | [] => .error .index
  | place :: rest =>
    if place != str "frame" then .error .parse
    else match rest with
      | [] => .ok (none, [])
      | name :: rest' => .ok (some name, rest')

theorem inFrameAny_short (toks : List Str) : Short toks.length (inFrameAny toks) := by
  unfold inFrameAny
  repeat' split
  all_goals first | exact short_error _ _ | exact short_ok _ _ (by simp only [List.length_cons, List.length_nil]; omega)

def rearClause (c : Str) (toks : List Str) (s : RearCfg) : P (RearCfg × List Str) :=
  if c == str "as" then clauseOf oneTok named (fun s v => { s with clone := v }) toks s
  else if c == str "be" then clauseOf oneTok accept (fun s v => { s with schedule := v }) toks s
  else if c == str "in" then clauseOf inFrameAny accept (fun s v => { s with frame := v.getD s.frame }) toks s
  else .error .parse

def rearVerb : Verb RearCfg where
  clause := rearClause
  shorter := by
    intro c toks s s' r h
    have : Short toks.length (rearClause c toks s) := by
      unfold rearClause
      repeat' split
      all_goals first
        | exact short_error _ _
        | exact clauseOf_short _ (oneTok_short _)
        | exact clauseOf_short _ (inFrameAny_short _)
    exact this s' r h

/-- `rear original <options>` with the checks after the loop (only `be aux`, only `as mine`, frame required) -/
def buildRear (toks : List Str) : P (Str × RearCfg) :=
  bind (catchIndex (bind (oneTok toks) fun (name, rest) =>
    bind (verifyName name) fun _ => bind (runClauses rearVerb rest {}) fun cfg => .ok (name, cfg)))
    fun (name, cfg) =>
      if cfg.schedule != str "aux" then .error .parse
      else if cfg.clone != str "mine" then .error .parse
      else if cfg.frame == str "me" then .error .parse
      else .ok (name, cfg)

/-! #### log name [to file] [as kind] [on rule] -/

structure LogCfg where
  kind : Str := str "text"
  file : Str := []
  rule : Str := str "Never"
deriving DecidableEq, Repr

def LogRules : List Str := ["Never", "Once", "Always", "Update", "Change", "Streak", "Deck"].map String.toList

def logRule (t : Str) : P Str := oneOf LogRules (capitalize t)

def logClause (c : Str) (toks : List Str) (s : LogCfg) : P (LogCfg × List Str) :=
  if c == str "as" then clauseOf oneTok (oneOf [str "text", str "binary"]) (fun s v => { s with kind := v }) toks s
  else if c == str "to" then clauseOf oneTok accept (fun s v => { s with file := v }) toks s
  else if c == str "on" then clauseOf oneTok logRule (fun s v => { s with rule := v }) toks s
  else .error .parse

def logVerb : Verb LogCfg where
  clause := logClause
  shorter := by
    intro c toks s s' r h
    have : Short toks.length (logClause c toks s) := by
      unfold logClause
      repeat' split
      all_goals first
        | exact short_error _ _
        | exact clauseOf_short _ (oneTok_short _)
    exact this s' r h

def buildLog (toks : List Str) : P (Str × LogCfg) :=
  catchIndex (bind (oneTok toks) fun (name, rest) =>
    bind (runClauses logVerb rest {}) fun cfg => .ok (name, cfg))

/-! #### logger name [to prefix] [at period] [be scheduled] [in order] [flush s] [keep n] [cycle s] [size n] [reuse]

The numeric options go through `abs`, `int`, `max` in Python; the model keeps the converted number
(`Convert2Num`) and the exception class those operations raise. -/

structure LoggerCfg where
  period : Option Val := none
  prefix_ : Str := str "./"
  schedule : Str := str "active"
  order : Str := str "mid"
  flush : Option Val := none
  keep : Option Val := none
  cycle : Option Val := none
  size : Option Val := none
  reuse : Bool := false
deriving DecidableEq, Repr

/-- `Convert2Num(text)` -/
def num (t : Str) : P Val :=
  match convert2Num t with
  | .error _ => .error .value
  | .ok v => .ok v

/-- `Convert2FloatNum(text)` (`logger … at`, `server … at`): a number whose magnitude fits a float (integers; the
magnitude of a complex number with components near the float limit is not modelled) -/
def numF (t : Str) : P Val :=
  bind (num t) fun v =>
    match v with
    | .int i => if intTooBig i then .error .value else .ok v
    | v => .ok v

/-- `int(Convert2Num(text))` with `except (OverflowError, ValueError, TypeError)` → ParseError (`logger … keep`;
as found these were TypeError, ValueError, OverflowError: defects D8, D65) -/
def numInt (t : Str) : P Val :=
  bind (num t) fun v =>
    match v with
    | .complex _ _ => .error .parse
    | .float .nan => .error .parse
    | .float (.inf _) => .error .parse
    | v => .ok v

/-- a flag: no value token -/
def noToks (toks : List Str) : P (Unit × List Str) := .ok ((), toks)

def ServiceWords : List Str := [str "active", str "inactive", str "slave"]

def loggerClause (c : Str) (toks : List Str) (s : LoggerCfg) : P (LoggerCfg × List Str) :=
  if c == str "at" then clauseOf oneTok numF (fun s v => { s with period := some v }) toks s
  else if c == str "to" then clauseOf oneTok accept (fun s v => { s with prefix_ := v }) toks s
  else if c == str "be" then clauseOf oneTok (oneOf ServiceWords) (fun s v => { s with schedule := v }) toks s
  else if c == str "in" then clauseOf oneTok (oneOf OrderWords) (fun s v => { s with order := v }) toks s
  else if c == str "flush" then clauseOf oneTok num (fun s v => { s with flush := some v }) toks s
  else if c == str "keep" then clauseOf oneTok numInt (fun s v => { s with keep := some v }) toks s
  else if c == str "cycle" then clauseOf oneTok num (fun s v => { s with cycle := some v }) toks s
  else if c == str "size" then clauseOf oneTok num (fun s v => { s with size := some v }) toks s
  else if c == str "reuse" then clauseOf noToks accept (fun s _ => { s with reuse := true }) toks s
  else .error .parse

def loggerVerb : Verb LoggerCfg where
  clause := loggerClause
  shorter := by
    intro c toks s s' r h
    have : Short toks.length (loggerClause c toks s) := by
      unfold loggerClause
      repeat' split
      all_goals first
        | exact short_error _ _
        | exact clauseOf_short _ (oneTok_short _)
        | exact clauseOf_short _ (short_ok _ _ (Nat.le_refl _))
    exact this s' r h

def buildLogger (toks : List Str) : P (Str × LoggerCfg) :=
  catchIndex (bind (oneTok toks) fun (name, rest) =>
    bind (runClauses loggerVerb rest {}) fun cfg => .ok (name, cfg))

/-! #### server name [at period] [be scheduled] [rx addr] [tx addr] [in order] [to prefix] [per data] [for source] -/

structure ServerCfg where
  period : Option Val := none
  prefix_ : Str := str "./"
  schedule : Str := str "active"
  order : Str := str "mid"
  rx : Str := []
  tx : Str := []
  init : List (Str × Val) := []
  source : Option (Str × List Str) := none
deriving DecidableEq, Repr

/-- `[fields in] path` of `server … for` -/
def parseFieldsPath (toks : List Str) : P ((Str × List Str) × List Str) :=
  match parseFields toks with
  | .error e => .error e
  | .ok (fields, rest) =>
    match parsePath rest with
    | .error e => .error e
    | .ok (path, rest') => .ok ((path, fields), rest')

theorem parseFieldsPath_short (toks : List Str) : Short toks.length (parseFieldsPath toks) := by
  unfold parseFieldsPath
  cases h1 : parseFields toks with
  | error e => exact short_error _ _
  | ok p =>
    obtain ⟨fields, rest⟩ := p
    have hl := parseFields_short toks _ _ h1
    simp only []
    cases h2 : parsePath rest with
    | error e => exact short_error _ _
    | ok q =>
      obtain ⟨path, rest'⟩ := q
      have := parsePath_short rest _ _ h2
      exact short_ok _ _ (by omega)

def serverClause (c : Str) (toks : List Str) (s : ServerCfg) : P (ServerCfg × List Str) :=
  if c == str "at" then clauseOf oneTok numF (fun s v => { s with period := some v }) toks s
  else if c == str "to" then clauseOf oneTok accept (fun s v => { s with prefix_ := v }) toks s
  else if c == str "be" then clauseOf oneTok (oneOf ServiceWords) (fun s v => { s with schedule := v }) toks s
  else if c == str "in" then clauseOf oneTok (oneOf OrderWords) (fun s v => { s with order := v }) toks s
  else if c == str "rx" then clauseOf oneTok accept (fun s v => { s with rx := v }) toks s
  else if c == str "tx" then clauseOf oneTok accept (fun s v => { s with tx := v }) toks s
  else if c == str "per" then clauseOf parseDirect accept (fun s d => { s with init := odictMerge s.init d }) toks s
  else if c == str "for" then clauseOf parseFieldsPath accept (fun s v => { s with source := some v }) toks s
  else .error .parse

def serverVerb : Verb ServerCfg where
  clause := serverClause
  shorter := by
    intro c toks s s' r h
    have : Short toks.length (serverClause c toks s) := by
      unfold serverClause
      repeat' split
      all_goals first
        | exact short_error _ _
        | exact clauseOf_short _ (oneTok_short _)
        | exact clauseOf_short _ (parseDirect_short _)
        | exact clauseOf_short _ (parseFieldsPath_short _)
    exact this s' r h

def buildServer (toks : List Str) : P (Str × ServerCfg) :=
  catchIndex (bind (oneTok toks) fun (name, rest) =>
    bind (runClauses serverVerb rest {}) fun cfg => .ok (name, cfg))

/-! #### the `in frame [name]` / `by marker` loop of `makeMarkerNeed` (after `is updated|changed`) -/

structure MarkerCfg where
  frame : Str := []
  marker : Str := []
deriving DecidableEq, Repr

/-- stops (without error) at the first token that is neither `in` nor `by` -/
def markerLoop : List Str → MarkerCfg → P (MarkerCfg × List Str)
  | [], s => .ok (s, [])
  | c :: rest, s =>
    if c == str "in" then
      match rest with
      | [] => .error .index
      | place :: rest1 =>
        if place != str "frame" then .error .parse
        else match rest1 with
          | [] => .ok ({ s with frame := str "me" }, [])
          | name :: rest2 =>
            if !isReserved name then
              (if identPub name then markerLoop rest2 { s with frame := name } else .error .parse)
            else markerLoop (name :: rest2) { s with frame := str "me" }
    else if c == str "by" then
      match rest with
      | [] => .error .index
      | m :: rest1 => markerLoop rest1 { s with marker := stripQuotes m }
    else .ok (s, c :: rest)

/-! ### clause texts and the regions of the known findings -/

/-- the connectives of a list of clause texts (`key body…`) -/
def keysOf (cs : List (List Str)) : List Str := cs.filterMap List.head?

/-- does a relation text end with a relation word whose optional name is omitted? -/
def openRel (toks : List Str) : Bool :=
  toks.getLast? == some (str "framer") || toks.getLast? == some (str "frame") || toks.getLast? == some (str "actor")

/-- D9 (buildDo as found): an `as` clause together with a `via`, `from` or `per` clause -/
def d9Region (cs : List (List Str)) : Bool :=
  (keysOf cs).contains (str "as") &&
  ((keysOf cs).contains (str "via") || (keysOf cs).contains (str "from") || (keysOf cs).contains (str "per"))

/-- D61 (buildFramer): a `first` clause together with a `via` clause whose relation ends open -/
def d61Region (cs : List (List Str)) : Bool :=
  (keysOf cs).contains (str "first") &&
  cs.any (fun c => c.head? == some (str "via") && openRel c.tail.tail)

/-- D62 (buildServer): a `per` clause together with an `rx` or `tx` clause -/
def d62Region (cs : List (List Str)) : Bool :=
  (keysOf cs).contains (str "per") && ((keysOf cs).contains (str "rx") || (keysOf cs).contains (str "tx"))

/-- D63 (buildServer): a `for` clause without field list together with an `in` clause -/
def d63Region (cs : List (List Str)) : Bool :=
  (keysOf cs).contains (str "in") &&
  cs.any (fun c => c.head? == some (str "for") && !c.tail.contains (str "in"))

end Ioflo.Clauses
