import IofloModel.Model.ResolvePath
/-
Model for C12 — cloned framers, `rear` and `raze`   (core Lean only).

Transcribed from
  ioflo/base/framing.py   Framer.__init__ (state shares), Framer.clone, Frame.clone, Framer.mains / .surname,
                          Framer.resolveMoots, newMootTag, newAuxTag, Framer.prune, Framer.presolve / resolve,
                          Frame.resolveAuxLinks / resolveOverLinks / traceOutline, and the framer core that runs
                          clones: enterAll exitAll enter exit rexit renter recur segue checkStart checkEnter
                          activate deactivate, Frame.enter / exit / recur / segueAuxes / precur, Framer.ExEn
  ioflo/base/acting.py    Act.clone (deep copy), Act.resolve for the acts below, Transiter, Rearer, Razer
                          (Act.resolvePath is `Ioflo.ResolvePath.resolvePath` of C13)
  ioflo/base/housing.py   House.resolve, presolvePresolvables, resolveResolvables
  ioflo/base/building.py  buildFramer / buildFrame / buildAux (clone forms, `mine`) / buildRear / buildRaze
  ioflo/base/needing.py   NeedDirect (elapsed, recurred, share), NeedDoneAux (all / any / aux tag)
  ioflo/base/poking.py    PokeDirect (`put`), IncDirect (`inc`);  completing.py CompleteDone (`done me`)

The tree modelled is /repo with the two repairs of C12 applied (fixes/D12a…, fixes/D12b…): `Framer.prune` prunes
every clone auxiliary of the pruned framer (named ones too) and exits the pruned framer when it is still entered
(`if self.active`), not only when it is not `done`.

Conventions
* A framer object is a record `Fr` with an identity `uid`; the heap `St.objs` holds every object ever made.
  `St.names` is the registry `Framer.Names` (name ↦ object).  Frames live inside their framer and are named.
* Script items keep their position (`Frame.items`); the act lists of a frame are the filtered items in order.
  Resolving an act rewrites its reference from the relative path to the resolved share path.
* Every house has its own store and its own name registry.  A share is keyed `<house>/<path>`.  `St.names` is the
  registry the class attribute `Framer.Names` points at (`House.assignRegistries` switches it: `assignRegistries`).
* The store holds the `value` field of the shares touched (`put`, `inc`, needs, the framer clocks): an entry with
  `none` is a `value` field that holds None; time is an `Int` (period 1).
* Calls from a frame into its auxiliary framers go through `Ops` (as in Model/Flo.lean); `opsAt 0` fails with
  `Err.depth`.  Worklists and link walks take fuel and fail with `Err.fuel` (the known non-termination D5 of C14).
* An exception of the Python is a constructor of `Err`, never a default.
-/
namespace Ioflo.Clones
open Ioflo.ResolvePath (RawCtx RawFrame RawMain isIdentPub)

/-! ## programs -/

inductive Sched | active | aux | moot
  deriving DecidableEq, Repr, Inhabited
inductive Ctxt | benter | enter | recur | exit | precur | renter | rexit
  deriving DecidableEq, Repr, Inhabited
inductive Who | all | first | last
  deriving DecidableEq, Repr, Inhabited
inductive Op | eq | ne | lt | le | ge | gt
  deriving DecidableEq, Repr, Inhabited

inductive NeedK
  | state (ref : String) (op : Op) (v : Int)   -- NeedDirect on a share: `elapsed`, `recurred`, `path [of …]`
  | allDone                                    -- `all is done`  (frame me)
  | anyDone                                    -- `any is done`
  | auxTag (tag : String)                      -- `aux TAG is done`, unresolved
  | auxObj (uid : Nat)                         -- … resolved to the framer object
  deriving DecidableEq, Repr

structure Need where
  neg : Bool
  k : NeedK
  deriving DecidableEq, Repr

inductive ActK
  | record (tag : String)                       -- recorder deed of the harness
  | io (ref : String)                          -- counting deed with one ioinit share
  | put (v : Int) (ref : String)
  | inc (ref : String) (v : Int)
  | done                                       -- `done me`
  | rear (moot : String) (frame : String)      -- `rear moot as mine be aux in frame F`
  | raze (who : Who) (frame : String)          -- `raze who [in frame F]`, `me` = the act's frame
  deriving DecidableEq, Repr

inductive Item
  | aux (orig : String) (clone : Option String) (via : String)   -- `aux orig [as clone] [via inode]`
  | act (ctx : Ctxt) (a : ActK)
  | go (far : String) (needs : List Need)
  | under (frame : String)                     -- `under frame`: makes it the primary under of the current frame
  | cond (needs : List Need)                   -- `let [me] if [not] need [and …]`: entry conditions (the frame's beacts;
                                               -- a negated need is an `Nact`, `neg = true`)
  deriving DecidableEq, Repr

/-- an entry of `frame.auxes` before `resolveAuxLinks`: a framer name or the mapping `{tag: …}` of a clone -/
inductive AuxLink | name (n : String) | tag (t : String)
  deriving DecidableEq, Repr

structure FrameSrc where
  name : String
  over : Option String
  via : String
  items : List Item
  deriving Repr

structure FramerSrc where
  house : String
  name : String
  sched : Sched
  first : Option String
  via : String
  frames : List FrameSrc
  deriving Repr

/-! ## objects -/

structure Frame where
  name : String
  inode : String
  over : Option String          -- name of the over frame
  overRes : Bool := false       -- `isinstance(self.over, Frame)`
  next : Option String
  unders : List String := []
  outline : List String := []
  links : List AuxLink          -- unresolved part of `.auxes`
  auxes : List Nat := []        -- resolved part of `.auxes` (framer objects)
  items : List Item
  deriving DecidableEq, Repr

/-- value of `framer.moots[tag]` -/
structure Moot where
  original : String
  clone : String
  inode : String
  insular : Bool
  deriving DecidableEq, Repr

structure Ctl where
  done : Bool := true
  active : Option String := none
  actives : List String := []
  stamp : Int := 0
  elapsed : Int := 0
  recurred : Int := 0
  deriving DecidableEq, Repr

structure Fr where
  uid : Nat
  house : String                           -- `.store.house`
  name : String
  tag : String
  sched : Sched
  original : Bool := true
  insular : Bool := false
  razeable : Bool := false
  main : Option (Nat × String) := none     -- main frame: (its framer object, its name)
  inode : String
  first : String                           -- '' = none
  moots : List (String × Moot) := []
  lineage : List String := []              -- names of the moot originals this framer was cloned from, outermost first
  frames : List Frame := []                -- `.frameNames` in creation order
  auxes : List (String × Nat) := []        -- `.auxes`: tag or name ↦ framer object
  presolved : Bool := false
  resolved : Bool := false
  ctl : Ctl := {}
  deriving DecidableEq, Repr

inductive Err
  | parse | resolve | clone | typeError
  | internal          -- AttributeError / KeyError of the Python on a state the builder cannot produce
  | fuel | depth
  deriving DecidableEq, Repr

structure St where
  objs : List Fr := []
  names : List (String × Nat) := []     -- `Framer.Names`: the registry the class attribute points at (house `cur`)
  cur : String := ""                    -- the house whose registries the class attributes point at
  regs : List (String × List (String × Nat)) := []   -- the tasker registries of the other houses
  houses : List String := []            -- the houses of the skedder in creation order
  nextUid : Nat := 0
  presolvables : List Nat := []
  resolvables : List Nat := []
  store : List (String × Option Int) := []
  now : Int := 0
  out : List String := []          -- output lines, newest first
  announced : List Nat := []
  -- ghost state (finding D12r): frames whose entry check has passed but that are not entered yet, and the flag
  -- "a rear added an auxiliary to such a frame" (nothing in the model reads them, the driver reports the flag)
  pending : List (Nat × String) := []
  lateRear : Bool := false
  deriving Repr

/-! ## heap and store helpers -/

def St.get? (s : St) (u : Nat) : Option Fr := s.objs.find? (fun o => o.uid == u)

def St.mod (s : St) (u : Nat) (f : Fr → Fr) : St :=
  { s with objs := s.objs.map (fun o => if o.uid == u then f o else o) }

def St.modCtl (s : St) (u : Nat) (f : Ctl → Ctl) : St := s.mod u (fun o => { o with ctl := f o.ctl })

def St.emit (s : St) (l : String) : St := { s with out := l :: s.out }

abbrev Store := List (String × Option Int)

/-- `share.value` (None when there is no such field or it holds None) -/
def St.read (s : St) (p : String) : Option Int := ((s.store.find? (fun kv => kv.1 == p)).map (·.2)).join

def storeSet (st : Store) (p : String) (v : Option Int) : Store :=
  if st.any (fun kv => kv.1 == p) then st.map (fun kv => if kv.1 == p then (p, v) else kv) else st ++ [(p, v)]

/-- `if field not in share: share[field] = v` -/
def storeTouch (st : Store) (p : String) (v : Option Int) : Store :=
  if st.any (fun kv => kv.1 == p) then st else st ++ [(p, v)]

def St.write (s : St) (p : String) (v : Int) : St := { s with store := storeSet s.store p (some v) }

def Fr.frame? (o : Fr) (n : String) : Option Frame := o.frames.find? (fun f => f.name == n)

def Fr.modFrame (o : Fr) (n : String) (g : Frame → Frame) : Fr :=
  { o with frames := o.frames.map (fun f => if f.name == n then g f else f) }

def St.modFrame (s : St) (u : Nat) (n : String) (g : Frame → Frame) : St := s.mod u (fun o => o.modFrame n g)

def lookup {α : Type} (l : List (String × α)) (k : String) : Option α := (l.find? (fun kv => kv.1 == k)).map (·.2)

def erase {α : Type} (l : List (String × α)) (k : String) : List (String × α) := l.filter (fun kv => kv.1 != k)

/-- `odict[k] = v` -/
def assign {α : Type} (l : List (String × α)) (k : String) (v : α) : List (String × α) :=
  if l.any (fun kv => kv.1 == k) then l.map (fun kv => if kv.1 == k then (k, v) else kv) else l ++ [(k, v)]

/-- `for x in xs: f(x)` threading the state -/
def forEach {α : Type} (f : α → St → Except Err St) : List α → St → Except Err St
  | [], s => .ok s
  | x :: xs, s =>
    match f x s with
    | .error e => .error e
    | .ok s' => forEach f xs s'

/-- `for x in xs: if not p(x): return False` / `return True` -/
def allM {α : Type} (p : α → Except Err Bool) : List α → Except Err Bool
  | [] => .ok true
  | x :: xs =>
    match p x with
    | .error e => .error e
    | .ok false => .ok false
    | .ok true => allM p xs

/-- `for x in xs: if not p(x, claimed): return False` / `return True`, the list `claimed` threaded through -/
def allC {α : Type} (p : α → List Nat → Except Err (Bool × List Nat)) : List α → List Nat → Except Err (Bool × List Nat)
  | [], cl => .ok (true, cl)
  | x :: xs, cl =>
    match p x cl with
    | .error e => .error e
    | .ok (false, cl) => .ok (false, cl)
    | .ok (true, cl) => allC p xs cl

/-! ## Framer.__init__, Framer.clone, naming -/

def statePath (house name what : String) : String := house ++ "/framer." ++ name ++ ".state." ++ what

/-- `House.assignRegistries()`: point the class registries at house `h` -/
def assignRegistries (h : String) (s : St) : St :=
  if s.cur = h then s
  else { s with regs := assign s.regs s.cur s.names, names := (lookup s.regs h).getD [], cur := h }

/-- the tasker registry of house `h` -/
def St.regOf (s : St) (h : String) : List (String × Nat) :=
  if s.cur = h then s.names else (lookup s.regs h).getD []

/-- `Framer(name=…, tag=…, store=…)` in house `house`: registers the name in `Framer.Names`, creates the state shares -/
def newFramer (s : St) (house name tag : String) (sched : Sched) : St × Fr :=
  let o : Fr := { uid := s.nextUid, house := house, name := name, tag := if tag = "" then name else tag, sched := sched,
                  inode := "", first := "" }
  let s := { s with nextUid := s.nextUid + 1, names := assign s.names name o.uid, objs := s.objs ++ [o] }
  ((s.write (statePath house name "elapsed") 0).write (statePath house name "recurred") 0, o)

/-- `Frame.clone(framer)`: same name, inode, aux links, over / next / under names; every act deep copied.
(Links already resolved to objects raise CloneError: see `cloneFramer`.) -/
def Frame.clone (f : Frame) : Frame :=
  { name := f.name, inode := f.inode, over := f.over, next := f.next, unders := f.unders, links := f.links,
    items := f.items }

/-- `Framer.clone(name, tag, schedule=AUX)`.  Its first statement `self.store.house.assignRegistries()` is made by the
callers (`rear`; `resolveHouse` for the clones of `resolveMoots`), where it is not already in force. -/
def cloneFramer (s : St) (orig : Fr) (name tag : String) : Except Err (St × Fr) :=
  if name ≠ "" ∧ ¬ isIdentPub name then .error .clone
  else if (lookup s.names name).isSome then .error .clone
  -- Frame.clone / Act.clone raise CloneError on links that are objects: every link of a resolved framer is
  else if orig.resolved ∨ orig.presolved then .error .clone
  else
    let (s, c) := newFramer s orig.house name tag .aux
    let c := { c with first := orig.first, moots := orig.moots, inode := orig.inode,
                      frames := orig.frames.map Frame.clone }
    .ok (s.mod c.uid (fun _ => c), c)

/-- `Framer.mains`, names and tags only: from the first original framer down to `u` -/
def surnameParts (s : St) : Nat → Nat → Except Err (List String)
  | 0, _ => .error .fuel
  | fuel + 1, u =>
    match s.get? u with
    | none => .error .internal
    | some o =>
      if o.original then .ok [o.name]
      else match o.main with
        | none => .error .internal            -- `framer.main.framer` on None
        | some (m, _) =>
          match surnameParts s fuel m with
          | .error e => .error e
          | .ok ps => .ok (ps ++ [o.tag])

/-- `Framer.surname` -/
def surname (s : St) (u : Nat) : Except Err String :=
  match surnameParts s (s.objs.length + 1) u with
  | .error e => .error e
  | .ok ps => .ok ("_".intercalate ps)

/-- `newMootTag` / `newAuxTag`: the first of `base1, base2, …` that is not a key -/
def newTag (keys : List String) (base : String) : Except Err String :=
  match (List.range' 1 (keys.length + 1)).find? (fun n => !(keys.contains (base ++ toString n))) with
  | some n => .ok (base ++ toString n)
  | none => .error .internal

/-! ## the builder -/

def reservedFrameNames : List String := ["next", "prev"]

/-- `Builder.verifyName`: a public identifier that is not a reserved word -/
def validName (n : String) : Bool := isIdentPub n && !(Ioflo.ResolvePath.reserved.contains n)

/-- `buildAux` for one item: returns the link appended to `frame.auxes` and the new `.moots` -/
def buildAux (moots : List (String × Moot)) (orig : String) (clone : Option String) (via : String) :
    Except Err (AuxLink × List (String × Moot)) :=
  if ¬ validName orig then .error .parse
  else match clone with
    | none => .ok (.name orig, moots)
    | some c =>
      if ¬ validName c then .error .parse
      else
        let r : Except Err (String × Bool) :=
          if c = "mine" then (newTag (moots.map (·.1)) orig).map (fun t => (t, true)) else .ok (c, false)
        match r with
        | .error e => .error e
        | .ok (tag, insular) =>
          if (lookup moots tag).isSome then .error .parse
          else .ok (.tag tag, moots ++ [(tag, { original := orig, clone := tag, inode := via, insular := insular })])

def buildItems : List Item → List (String × Moot) → List AuxLink → List String →
    Except Err (List (String × Moot) × List AuxLink × List String)
  | [], moots, links, unders => .ok (moots, links, unders)
  | .aux o c v :: rest, moots, links, unders =>
    match buildAux moots o c v with
    | .error e => .error e
    | .ok (l, moots) => buildItems rest moots (links ++ [l]) unders
  | .act _ (.rear m f) :: rest, moots, links, unders =>
    -- buildRear: the original's name is verified, frame `me` (the default) is refused
    if ¬ validName m ∨ f = "me" then .error .parse else buildItems rest moots links unders
  | .under n :: rest, moots, links, unders =>
    -- buildUnder: the name is verified; an empty `.unders` gets it, otherwise the first (only) name is overwritten
    if ¬ validName n then .error .parse
    else buildItems rest moots links (match unders with | [] => [n] | u0 :: tl => if n = u0 then u0 :: tl else n :: (tl.filter (· != n)))
  | _ :: rest, moots, links, unders => buildItems rest moots links unders

/-- `buildFrame` and the verbs of its body -/
def buildFrames : List FrameSrc → Fr → Except Err Fr
  | [], o => .ok o
  | f :: rest, o =>
    if ¬ validName f.name ∨ f.name ∈ reservedFrameNames then .error .parse
    else if (o.frame? f.name).isSome then .error .parse
    else
      match buildItems f.items o.moots [] [] with
      | .error e => .error e
      | .ok (moots, links, unders) =>
        let fr : Frame := { name := f.name, inode := f.via, over := f.over, next := none, links := links, unders := unders,
                            items := f.items }
        -- the previous frame without an explicit next gets this one as its lexical next
        let frames := match o.frames.reverse with
          | [] => []
          | p :: before => (if p.next.isNone then { p with next := some f.name } else p) :: before
        let o := { o with frames := frames.reverse ++ [fr], moots := moots,
                          first := if o.first = "" then f.name else o.first }
        buildFrames rest o

def buildFramers : List FramerSrc → St → Except Err St
  | [], s => .ok s
  | src :: rest, s =>
    if !validName src.name || !((src.first.map validName).getD true) then .error .parse
    else if s.cur ≠ src.house ∧ s.houses.contains src.house then .error .parse   -- `house` verb: the name is taken
    else
    -- the `house` verb: a new house, its registries assigned
    let s := if s.cur = src.house then s else { (assignRegistries src.house s) with houses := s.houses ++ [src.house] }
    if (lookup s.names src.name).isSome then .error .parse
    else
      let (s, o) := newFramer s src.house src.name "" src.sched
      let o := { o with first := src.first.getD "", inode := src.via }
      match buildFrames src.frames o with
      | .error e => .error e
      | .ok o => buildFramers rest (s.mod o.uid (fun _ => o))

/-! ## presolve: moots become clones, aux links become objects -/

/-- `resolveFramer(name, contexts=[sched])` -/
def resolveFramer (s : St) (name : String) (sched : Option Sched) : Except Err Fr :=
  match lookup s.names name with
  | none => .error .resolve
  | some u =>
    match s.get? u with
    | none => .error .internal
    | some o => if sched.isSome ∧ sched ≠ some o.sched then .error .resolve else .ok o

/-- one entry of `Framer.resolveMoots` for framer `u` -/
def resolveMoot (u : Nat) (s : St) (tm : String × Moot) : Except Err St :=
  let (tag, d) := tm
  if d.clone ≠ tag then .error .resolve
  else if d.clone = "mine" then .error .resolve
  else
    match resolveFramer s d.original (some .moot) with
    | .error e => .error e
    | .ok orig =>
      match s.get? u with
      | none => .error .internal
      | some me =>
        if me.lineage.contains orig.name then .error .resolve          -- "Clone loop" (fix D5)
        else if (lookup me.auxes tag).isSome then .error .resolve
        else
          match surname s u with
          | .error e => .error e
          | .ok sn =>
            match cloneFramer s orig (sn ++ "_" ++ tag) tag with
            | .error .clone => .error .resolve                         -- CloneError is re-raised as ResolveError (fix D69)
            | .error e => .error e
            | .ok (s, c) =>
              let s := s.mod u (fun o => { o with auxes := assign o.auxes tag c.uid })
              let s := s.mod c.uid (fun o => { o with lineage := me.lineage ++ [orig.name],
                                                      inode := if d.inode ≠ "mine" then d.inode else o.inode,
                                                      original := false, insular := d.insular })
              .ok { s with presolvables := s.presolvables ++ [c.uid] }

/-- `Framer.resolveMoots` -/
def resolveMoots (u : Nat) (s : St) : Except Err St :=
  match s.get? u with
  | none => .error .internal
  | some me =>
    match (forEach (fun tm s => resolveMoot u s tm) me.moots s) with
    | .error e => .error e
    | .ok s => .ok (s.mod u (fun o => { o with moots := [] }))

/-- `Frame.resolveAuxLinks` for one link of frame `fn` of framer `u` -/
def resolveAuxLink (u : Nat) (fn : String) (s : St) (l : AuxLink) : Except Err St :=
  match s.get? u with
  | none => .error .internal
  | some me =>
    match l with
    | .tag t =>
      if t = "" then .error .resolve
      else match lookup me.auxes t with
        | none => .error .resolve
        | some a =>
          match s.get? a with
          | none => .error .internal
          | some ao =>
            if ao.sched ≠ .aux then .error .resolve
            else if ao.original then .error .resolve
            else if ao.main.isSome then .error .resolve
            else
              let s := s.mod a (fun o => { o with main := some (u, fn) })
              .ok (s.modFrame u fn (fun f => { f with auxes := f.auxes ++ [a] }))
    | .name n =>
      match resolveFramer s n (some .aux) with
      | .error e => .error e
      | .ok ao =>
        if ¬ ao.original then .error .resolve
        else
          let r : Except Err St :=
            match lookup me.auxes ao.name with
            | none => .ok (s.mod u (fun o => { o with auxes := assign o.auxes ao.name ao.uid }))
            | some a' => if a' ≠ ao.uid then .error .resolve else .ok s
          match r with
          | .error e => .error e
          | .ok s => .ok (s.modFrame u fn (fun f => { f with auxes := f.auxes ++ [ao.uid] }))

/-- `Frame.presolve` -/
def presolveFrame (u : Nat) (s : St) (f : Frame) : Except Err St :=
  match forEach (fun l s => resolveAuxLink u f.name s l) f.links s with
  | .error e => .error e
  | .ok s => .ok (s.modFrame u f.name (fun f => { f with links := [] }))

/-- `Framer.presolve` -/
def presolve (u : Nat) (s : St) : Except Err St :=
  match resolveMoots u s with
  | .error e => .error e
  | .ok s =>
    match s.get? u with
    | none => .error .internal
    | some me =>
      if me.first = "" ∨ (me.frame? me.first).isNone then .error .resolve
      else
        match forEach (fun f s => presolveFrame u s f) me.frames s with
        | .error e => .error e
        | .ok s => .ok (s.mod u (fun o => { o with presolved := true }))

/-- `House.presolvePresolvables`: a worklist; D5 (a moot that clones itself) never empties it -/
def presolveAll : Nat → St → Except Err St
  | 0, s => if s.presolvables.isEmpty then .ok s else .error .fuel
  | fuel + 1, s =>
    match s.presolvables with
    | [] => .ok s
    | u :: rest =>
      match presolve u { s with presolvables := rest } with
      | .error e => .error e
      | .ok s => presolveAll fuel { s with resolvables := s.resolvables ++ [u] }

/-! ## resolve: over links, outlines, acts -/

/-- `Frame.resolveOverLinks` of frame `self` (with the loop check of fix D64) -/
def climbOver (self : String) : Nat → String → List String → List Frame → Except Err (List Frame)
  | 0, _, _, _ => .error .fuel
  | fuel + 1, under, climbed, frames =>
    match frames.find? (fun f => f.name == under) with
    | none => .error .internal
    | some uf =>
      match uf.over with
      | none => .ok frames
      | some o =>
        match frames.find? (fun f => f.name == o) with
        | none => .error .resolve                            -- "Bad over link in outline"
        | some _ =>
          if o = self then .error .resolve                   -- "Outline overs create loop"
          else
            let frames :=
              if uf.overRes then frames
              else frames.map (fun f =>
                if f.name == o then (if f.unders.contains under then f else { f with unders := f.unders ++ [under] })
                else if f.name == under then { f with overRes := true }
                else f)
            if climbed.contains o then .error .resolve
            else climbOver self fuel o (climbed ++ [o]) frames

/-- `Frame.traceOutline`: up the over links, down the primary unders -/
def upChain (frames : List Frame) : Nat → String → Except Err (List String)
  | 0, _ => .error .fuel
  | fuel + 1, n =>
    match frames.find? (fun f => f.name == n) with
    | none => .error .internal
    | some f =>
      match f.over with
      | none => .ok [n]
      | some o => (upChain frames fuel o).map (· ++ [n])

/-- the descent of `Frame.traceOutline` through the primary unders; a frame met again is "Outline unders create
loop" (ResolveError) -/
def downChain (frames : List Frame) : Nat → String → List String → Except Err (List String)
  | 0, _, _ => .error .fuel
  | fuel + 1, n, acc =>
    match frames.find? (fun f => f.name == n) with
    | none => .error .internal
    | some f =>
      match f.unders.head? with
      | none => .ok acc
      | some d => if acc.contains d then .error .resolve else downChain frames fuel d (acc ++ [d])

def traceOutline (frames : List Frame) (n : String) : Except Err (List String) :=
  match upChain frames (frames.length + 1) n with
  | .error e => .error e
  | .ok up => downChain frames (frames.length + 2) n up

/-- the context `Act.resolvePath` reads off the objects: the act's frame and its overs, the framer, and the
chain of main frames / main framers -/
def frameChain (frames : List Frame) : Nat → String → Except Err (List RawFrame)
  | 0, _ => .error .fuel
  | fuel + 1, n =>
    match frames.find? (fun f => f.name == n) with
    | none => .error .internal
    | some f =>
      match f.over with
      | none => .ok [⟨f.name, f.inode⟩]
      | some o => (frameChain frames fuel o).map (⟨f.name, f.inode⟩ :: ·)

def mainChain (s : St) : Nat → Option (Nat × String) → Except Err (List RawMain)
  | 0, _ => .error .fuel
  | _, none => .ok []
  | fuel + 1, some (m, fn) =>
    match s.get? m with
    | none => .error .internal
    | some mo =>
      match frameChain mo.frames (mo.frames.length + 1) fn with
      | .error e => .error e
      | .ok ch =>
        match mainChain s fuel mo.main with
        | .error e => .error e
        | .ok rest => .ok (⟨ch, mo.name, mo.inode⟩ :: rest)

def actCtx (s : St) (o : Fr) (fn : String) (actor : Option String) : Except Err RawCtx :=
  match frameChain o.frames (o.frames.length + 1) fn with
  | .error e => .error e
  | .ok ch =>
    match mainChain s (s.objs.length + 1) o.main with
    | .error e => .error e
    | .ok ms => .ok { frames := ch, framerName := o.name, framerInode := o.inode, mains := ms, actor := actor }

/-- `act.resolvePath(ipath)` to the name of the share (`Act.inode` is None for every act modelled) -/
def resolveRef (s : St) (o : Fr) (fn : String) (actor : Option String) (ref : String) : Except Err String :=
  match actCtx s o fn actor with
  | .error e => .error e
  | .ok c =>
    match Ioflo.ResolvePath.resolvePath c none ref with
    | .error _ => .error .resolve                    -- incomplete path, missing main, unresolved actor: ResolveError
    | .ok (p, _) => .ok (o.house ++ "/" ++ Ioflo.ResolvePath.lstripDots p)

def mapM' {α β : Type} (f : α → Except Err β) : List α → Except Err (List β)
  | [] => .ok []
  | x :: xs =>
    match f x with
    | .error e => .error e
    | .ok y => (mapM' f xs).map (y :: ·)

/-- resolving a need: NeedState._resolve creates a missing `value` field as 0.0;
NeedDoneAux._resolve (framer = me, frame = '') looks the tag up in `framer.auxes` -/
def resolveNeeds (s : St) (o : Fr) (fn : String) : List Need → Store → Except Err (List Need × Store)
  | [], st => .ok ([], st)
  | n :: ns, st =>
    let r : Except Err (Need × Store) :=
      match n.k with
      | .state ref op v =>
        (resolveRef s o fn none ref).map (fun p => ({ n with k := .state p op v }, storeTouch st p (some 0)))
      | .auxTag t =>
        match lookup o.auxes t with
        | none => .error .resolve
        | some a => .ok ({ n with k := .auxObj a }, st)
      | _ => .ok (n, st)
    match r with
    | .error e => .error e
    | .ok (n, st) =>
      match resolveNeeds s o fn ns st with
      | .error e => .error e
      | .ok (ns, st) => .ok (n :: ns, st)

/-- `Act.resolve` for one item of frame `fn` of framer `o`; Poke._resolve creates a missing `value` field as None -/
def resolveItem (s : St) (o : Fr) (fn : String) (next : Option String) (st : Store) : Item → Except Err (Item × Store)
  | .aux a c v => .ok (.aux a c v, st)
  | .under n => .ok (.under n, st)
  | .cond needs => (resolveNeeds s o fn needs st).map (fun (ns, st) => (.cond ns, st))
  | .act ctx a =>
    match a with
    | .record t => .ok (.act ctx (.record t), st)
    | .io ref => (resolveRef s o fn (some "CkIo") ref).map (fun p => (.act ctx (.io p), st))
    | .put v ref => (resolveRef s o fn none ref).map (fun p => (.act ctx (.put v p), storeTouch st p none))
    | .inc ref v => (resolveRef s o fn none ref).map (fun p => (.act ctx (.inc p v), storeTouch st p none))
    | .done => .ok (.act ctx .done, st)
    | .rear m f =>
      -- Rearer._resolve: original must be a moot framer; frame `me` is refused; the frame must exist
      match resolveFramer s m (some .moot) with
      | .error e => .error e
      | .ok _ =>
        if f = "me" then .error .resolve
        else if (o.frame? f).isNone then .error .resolve
        else .ok (.act ctx (.rear m f), st)
    | .raze w f =>
      let f := if f = "me" then fn else f
      if (o.frame? f).isNone then .error .resolve else .ok (.act ctx (.raze w f), st)
  | .go far needs =>
    -- Transiter._resolve
    let far' : Except Err String :=
      if far = "next" then (match next with | some n => .ok n | none => .error .resolve)
      else if far = "me" then .ok fn
      else if (o.frame? far).isSome then .ok far else .error .resolve
    match far' with
    | .error e => .error e
    | .ok far => (resolveNeeds s o fn needs st).map (fun (ns, st) => (.go far ns, st))

/-- is the item in the act list that `Frame.resolve` is walking? (`preacts` holds the precur acts and the `go`s) -/
def inList (c : Ctxt) : Item → Bool
  | .aux _ _ _ => false
  | .act c' _ => c' == c
  | .go _ _ => c == .precur
  | .under _ => false
  | .cond _ => c == .benter

/-- resolve the items of one act list, in place -/
def resolveList (s : St) (o : Fr) (fn : String) (next : Option String) (c : Ctxt) :
    List Item → Store → Except Err (List Item × Store)
  | [], st => .ok ([], st)
  | it :: rest, st =>
    let r : Except Err (Item × Store) := if inList c it then resolveItem s o fn next st it else .ok (it, st)
    match r with
    | .error e => .error e
    | .ok (it, st) =>
      match resolveList s o fn next c rest st with
      | .error e => .error e
      | .ok (rest, st) => .ok (it :: rest, st)

/-- the order in which `Frame.resolve` walks the act lists: beacts, enacts, reacts, preacts, exacts, rexacts, renacts -/
def resolveOrder : List Ctxt := [.benter, .enter, .recur, .precur, .exit, .rexit, .renter]

def resolveLists (s : St) (o : Fr) (fn : String) (next : Option String) :
    List Ctxt → List Item → Store → Except Err (List Item × Store)
  | [], items, st => .ok (items, st)
  | c :: cs, items, st =>
    match resolveList s o fn next c items st with
    | .error e => .error e
    | .ok (items, st) => resolveLists s o fn next cs items st

/-- `Frame.resolve` (next / over / under links, then the acts) -/
def resolveFrame (u : Nat) (s : St) (fn : String) : Except Err St :=
  match s.get? u with
  | none => .error .internal
  | some o =>
    match o.frame? fn with
    | none => .error .internal
    | some f =>
      if (match f.next with | some n => (o.frame? n).isNone | none => false) then .error .resolve
      else
        match climbOver fn (o.frames.length + 1) fn [] o.frames with
        | .error e => .error e
        | .ok frames =>
          -- resolveUnderLinks: every under names a frame of this framer; no duplicates
          let unders := match frames.find? (fun g => g.name == fn) with | some g => g.unders | none => []
          if unders.any (fun n => (frames.find? (fun g => g.name == n)).isNone) || !(unders.eraseDups.length == unders.length)
          then .error .resolve
          else
          let o := { o with frames := frames }
          let s := s.mod u (fun _ => o)
          match resolveLists s o fn f.next resolveOrder f.items s.store with
          | .error e => .error e
          | .ok (items, st) => .ok { (s.modFrame u fn (fun f => { f with items := items })) with store := st }

/-- `Framer.traceOutlines` -/
def traceOutlines (u : Nat) (s : St) : Except Err St :=
  match s.get? u with
  | none => .error .internal
  | some o =>
    match mapM' (fun f => (traceOutline o.frames f.name).map (fun ol => { f with outline := ol })) o.frames with
    | .error e => .error e
    | .ok frames => .ok (s.mod u (fun o => { o with frames := frames }))

/-- `Framer.resolve` -/
def resolve (u : Nat) (s : St) : Except Err St :=
  match s.get? u with
  | none => .error .internal
  | some o =>
    if ¬ o.presolved then .error .resolve
    else
      match forEach (fun fn s => resolveFrame u s fn) (o.frames.map (·.name)) s with
      | .error e => .error e
      | .ok s =>
        match traceOutlines u s with
        | .error e => .error e
        | .ok s => .ok (s.mod u (fun o => { o with resolved := true }))

/-- `House.resolveResolvables` -/
def resolveAll : Nat → St → Except Err St
  | 0, s => if s.resolvables.isEmpty then .ok s else .error .fuel
  | fuel + 1, s =>
    match s.resolvables with
    | [] => .ok s
    | u :: rest =>
      match resolve u { s with resolvables := rest } with
      | .error e => .error e
      | .ok s => resolveAll fuel s

/-- fuel of the two house worklists: an artefact of the model (the Python loops are unbounded; with D5 repaired a
  lineage loop is a ResolveError, so every worklist empties); large enough for every script the harness generates -/
def worklistFuel : Nat := 20000

/-- `House.resolve` -/
def resolveHouse (s : St) (h : String) : Except Err St :=
  let s := assignRegistries h s
  let todo := (s.objs.filter (fun o => o.house == h && o.sched != .moot)).map (·.uid)
  match presolveAll worklistFuel { s with presolvables := todo } with
  | .error e => .error e
  | .ok s => resolveAll worklistFuel s

/-- `Builder.build`: the verbs, then `House.resolve` for every house in order -/
def build (src : List FramerSrc) : Except Err St :=
  match buildFramers src {} with
  | .error e => .error e
  | .ok s => forEach (fun h s => resolveHouse s h) s.houses s

/-! ## run time -/

def cmp (op : Op) (a b : Int) : Bool :=
  match op with
  | .eq => a == b | .ne => a != b | .lt => a < b | .le => a ≤ b | .ge => a ≥ b | .gt => a > b

/-- `Need.Check(state, comparison, goal, 0)` with `state` possibly None -/
def check (state : Option Int) (op : Op) (goal : Int) : Except Err Bool :=
  match state with
  | some v => .ok (cmp op v goal)
  | none =>
    match op with
    | .eq => .ok false
    | .ne => .ok true
    | _ => .error .typeError

def ctxName : Ctxt → String
  | .benter => "benter"
  | .enter => "enter" | .recur => "recur" | .exit => "exit" | .precur => "precur"
  | .renter => "renter" | .rexit => "rexit"

def Frame.acts (f : Frame) (c : Ctxt) : List ActK :=
  f.items.filterMap (fun it => match it with | .act c' a => if c' = c then some a else none | _ => none)

/-- `frame.beacts`: the needs of the `let` verbs in order -/
def Frame.beacts (f : Frame) : List Need :=
  f.items.flatMap (fun it => match it with | .cond ns => ns | _ => [])

inductive Pre | act (a : ActK) | go (far : String) (needs : List Need)

def Frame.preacts (f : Frame) : List Pre :=
  f.items.filterMap (fun it => match it with
    | .act .precur a => some (.act a) | .go far ns => some (.go far ns) | _ => none)

def St.frameOf (s : St) (u : Nat) (fn : String) : Except Err Frame :=
  match s.get? u with
  | none => .error .internal
  | some o => match o.frame? fn with | none => .error .internal | some f => .ok f

def St.fr (s : St) (u : Nat) : Except Err Fr :=
  match s.get? u with | none => .error .internal | some o => .ok o

/-- `Framer.ExEn(nears, far)` with `fars = far.outline` -/
def exEn (far : String) : List String → List String → List String → List String × List String × List String
  | n :: ns, f :: fs, pre =>
    if n = far ∨ n ≠ f then (n :: ns, f :: fs, pre) else exEn far ns fs (pre ++ [n])
  | _, _, pre => ([], [], pre)          -- unreachable for a far in its own outline: `return ([], [], nears[:])`

structure Ops where
  enterAll : Nat → St → Except Err St
  exitAll : Nat → St → Except Err St
  recur : Nat → St → Except Err St
  segue : Nat → St → Except Err St
  prune : Nat → St → Except Err St
  checkStart : Nat → List Nat → St → Except Err (Bool × List Nat)

def Ops.bottom : Ops :=
  { enterAll := fun _ _ => .error .depth, exitAll := fun _ _ => .error .depth, recur := fun _ _ => .error .depth,
    segue := fun _ _ => .error .depth, prune := fun _ _ => .error .depth, checkStart := fun _ _ _ => .error .depth }

/-- the part of `Rearer.action` that makes the clone: fresh tag, name `surname_tag`, `Framer.clone`, the flags,
`framer.auxes[tag] = clone`, `frame.addAux(clone)`, `clone.main = frame`, `presolvables.append(clone)` -/
def rearCreate (u : Nat) (moot frame : String) (s : St) : Except Err (St × Fr) :=
  match resolveFramer s moot none with             -- parms['original'] was resolved at resolve time
  | .error e => .error e
  | .ok orig =>
    match s.get? u with
    | none => .error .internal
    | some me =>
      match newTag (me.auxes.map (·.1)) orig.tag with
      | .error e => .error e
      | .ok tag =>
        match surname s u with
        | .error e => .error e
        | .ok sn =>
          match cloneFramer s orig (sn ++ "_" ++ tag) tag with
          | .error e => .error e
          | .ok (s, c) =>
            let s := s.mod c.uid (fun o => { o with original := false, insular := true, razeable := true,
                                                    main := some (u, frame) })
            let s := s.mod u (fun o => { o with auxes := assign o.auxes tag c.uid })
            let s := s.modFrame u frame (fun f => { f with auxes := f.auxes ++ [c.uid] })
            .ok ({ s with presolvables := s.presolvables ++ [c.uid] }, c)

/-- `Rearer.action` -/
def rear (u : Nat) (fn : String) (moot frame : String) (s : St) : Except Err St :=
  match s.get? u with
  | none => .error .internal
  | some me =>
    match me.frame? fn with
    | none => .error .internal
    | some af =>
      if af.outline.contains frame then .ok s            -- "Cannot rear clone in own outline": logs and returns
      else
        -- `original.clone(…)` starts with `self.store.house.assignRegistries()` (the original lives in this house)
        match rearCreate u moot frame (assignRegistries me.house s) with
        | .error e => .error e
        | .ok (s, _) =>
          match presolveAll worklistFuel s with
          | .error e => .error e
          | .ok s => resolveAll worklistFuel s

/-- `aux.insular and aux.razeable` -/
def isRazeable (s : St) (a : Nat) : Bool :=
  match s.get? a with
  | some o => o.insular && o.razeable
  | none => false

/-- `not aux.original` -/
def isCloneAux (s : St) (a : Nat) : Bool :=
  match s.get? a with
  | some o => !o.original
  | none => false

/-- which auxiliaries of a frame `Razer.action` selects -/
def razeables (s : St) (who : Who) (auxes : List Nat) : List Nat :=
  match who with
  | .all => auxes.filter (isRazeable s)
  | .first => (auxes.find? (isRazeable s)).toList
  | .last => (auxes.reverse.find? (isRazeable s)).toList

/-- `frame.auxes.remove(aux)` and `del framer.auxes[aux.tag]` (if present) for frame `fn` of framer `u` -/
def dropAux (u : Nat) (fn : String) (a : Nat) (tag : String) (s : St) : St :=
  (s.modFrame u fn (fun f => { f with auxes := f.auxes.erase a })).mod u (fun o => { o with auxes := erase o.auxes tag })

/-- `del Framer.Names[name]` if it names this object -/
def unregister (s : St) (o : Fr) : St :=
  if lookup s.names o.name = some o.uid then { s with names := erase s.names o.name } else s

section level
variable (lo : Ops)

/-- `aux.prune(); frame.auxes.remove(aux); if aux.tag in framer.auxes: del framer.auxes[aux.tag]`
(the loop body shared by `Razer.action` and `Framer.prune`) -/
def pruneStep (u : Nat) (fn : String) (a : Nat) (s : St) : Except Err St :=
  match lo.prune a s with
  | .error e => .error e
  | .ok s =>
    match s.get? a with
    | none => .error .internal
    | some ao => .ok (dropAux u fn a ao.tag s)

/-- `Razer.action` -/
def raze (u : Nat) (who : Who) (frame : String) (s : St) : Except Err St :=
  match s.frameOf u frame with
  | .error e => .error e
  | .ok f => forEach (pruneStep lo u frame) (razeables s who f.auxes) s

/-- `act()` for one act of frame `fn` of framer `u` in context `c` (every actor modelled returns None) -/
def runAct (u : Nat) (fn : String) (c : Ctxt) (a : ActK) (s : St) : Except Err St :=
  match s.fr u with
  | .error e => .error e
  | .ok me =>
    match a with
    | .record tag => .ok (s.emit ("E " ++ me.name ++ " " ++ fn ++ " " ++ ctxName c ++ " " ++ tag))
    | .io p =>
      let v := match s.read p with | none => 1 | some v => v + 1
      .ok ((s.write p v).emit ("E " ++ me.name ++ " " ++ fn ++ " " ++ ctxName c ++ " io=" ++ toString v))
    | .put v p => .ok (s.write p v)
    | .inc p d => match s.read p with | none => .ok s | some v => .ok (s.write p (v + d))
    | .done => .ok (s.modCtl u (fun x => { x with done := true }))
    | .rear m f =>
      -- ghost (finding D12r): a clone was made in a frame that is checked but not entered yet
      (rear u fn m f s).map (fun s' =>
        if s.pending.contains (u, f) && s'.nextUid != s.nextUid then { s' with lateRear := true } else s')
    | .raze w f => raze lo u w f s

def runActs (u : Nat) (fn : String) (c : Ctxt) (acts : List ActK) (s : St) : Except Err St :=
  forEach (runAct lo u fn c) acts s

/-- one need of a `go` in frame `fn` of framer `u` -/
def needHolds (u : Nat) (fn : String) (s : St) (n : Need) : Except Err Bool :=
  let r : Except Err Bool :=
    match n.k with
    | .state p op v => check (s.read p) op v
    | .allDone =>
      match s.frameOf u fn with
      | .error e => .error e
      | .ok f => .ok (!f.auxes.isEmpty && f.auxes.all (fun a => match s.get? a with | some o => o.ctl.done | none => false))
    | .anyDone =>
      match s.frameOf u fn with
      | .error e => .error e
      | .ok f => .ok (f.auxes.any (fun a => match s.get? a with | some o => o.ctl.done | none => false))
    | .auxObj a => match s.get? a with | some o => .ok o.ctl.done | none => .error .internal
    | .auxTag _ => .error .internal
  r.map (fun b => if n.neg then !b else b)

/-- `aux.main and (aux.main is not self) and (aux.main not in exits)` for frame `fn` of framer `u` -/
def heldElsewhere (u : Nat) (fn : String) (exits : List String) (ao : Fr) : Bool :=
  match ao.main with
  | some (m, mf) => !(m == u && mf == fn) && !(m == u && exits.contains mf)
  | none => false

/-- the aux part of `Frame.checkEnter(exits, claimed)`; `claimed` = the original auxiliaries of the frames checked so
far in this same check (an original auxiliary may not be claimed by two frames of one entry) -/
def auxCheck (u : Nat) (fn : String) (exits : List String) (s : St) (a : Nat) (claimed : List Nat) :
    Except Err (Bool × List Nat) :=
  match s.get? a with
  | none => .error .internal
  | some ao =>
    if heldElsewhere u fn exits ao then .ok (false, claimed)
    else if ao.original && claimed.contains a then .ok (false, claimed)
    else lo.checkStart a (if ao.original then claimed ++ [a] else claimed) s

/-- `Frame.checkEnter(exits, claimed)`: the entry conditions (`for need in self.beacts: if not need(): return False`),
then the auxiliaries -/
def frameCheckEnter (u : Nat) (exits : List String) (s : St) (fn : String) (claimed : List Nat) :
    Except Err (Bool × List Nat) :=
  match s.frameOf u fn with
  | .error e => .error e
  | .ok f =>
    match allM (needHolds u fn s) f.beacts with
    | .error e => .error e
    | .ok false => .ok (false, claimed)
    | .ok true => allC (auxCheck lo u fn exits s) f.auxes claimed

/-- `Framer.checkEnter(enters, exits, claimed)` -/
def checkEnter (u : Nat) (enters exits : List String) (claimed : List Nat) (s : St) : Except Err (Bool × List Nat) :=
  if enters.isEmpty then .ok (false, claimed)
  else allC (frameCheckEnter lo u exits s) enters claimed

/-- `Frame.enter()` -/
def frameEnter (u : Nat) (fn : String) (s : St) : Except Err St :=
  match s.frameOf u fn with
  | .error e => .error e
  | .ok f =>
    match runActs lo u fn .enter (f.acts .enter) s with
    | .error e => .error e
    | .ok s =>
      match s.frameOf u fn with
      | .error e => .error e
      | .ok f =>
        forEach (fun a s =>
          match s.get? a with
          | none => .error .internal
          | some ao => lo.enterAll a (if ao.original then s.mod a (fun o => { o with main := some (u, fn) }) else s))
          f.auxes s

/-- `restartTimer(); restartCounter()` -/
def restartClocks (u : Nat) (s : St) : Except Err St :=
  match s.fr u with
  | .error e => .error e
  | .ok me =>
    let s := s.modCtl u (fun x => { x with stamp := s.now, elapsed := 0, recurred := 0 })
    .ok ((s.write (statePath me.house me.name "elapsed") 0).write (statePath me.house me.name "recurred") 0)

/-- `updateTimer(); updateCounter()` -/
def updateClocks (u : Nat) (s : St) : Except Err St :=
  match s.fr u with
  | .error e => .error e
  | .ok me =>
    let el := s.now - me.ctl.stamp
    let rc := me.ctl.recurred + 1
    let s := s.modCtl u (fun x => { x with elapsed := el, recurred := rc })
    .ok ((s.write (statePath me.house me.name "elapsed") el).write (statePath me.house me.name "recurred") rc)

/-- `Framer.enter(enters)` -/
def enter (u : Nat) (enters : List String) (s : St) : Except Err St :=
  match (if enters.isEmpty then .ok s else restartClocks u s) with
  | .error e => .error e
  | .ok s => forEach (frameEnter lo u) enters s

/-- `Frame.exit()` -/
def frameExit (u : Nat) (fn : String) (s : St) : Except Err St :=
  match s.frameOf u fn with
  | .error e => .error e
  | .ok f =>
    match forEach (fun a s =>
            match lo.exitAll a s with
            | .error e => .error e
            | .ok s =>
              match s.get? a with
              | none => .error .internal
              | some ao => .ok (if ao.original then s.mod a (fun o => { o with main := none }) else s)) f.auxes s with
    | .error e => .error e
    | .ok s => runActs lo u fn .exit (f.acts .exit) s

/-- `Framer.exit(exits)` -/
def exit (u : Nat) (exits : List String) (s : St) : Except Err St :=
  forEach (frameExit lo u) exits.reverse s

def rexit (u : Nat) (rexits : List String) (s : St) : Except Err St :=
  forEach (fun fn s =>
    match s.frameOf u fn with
    | .error e => .error e
    | .ok f => runActs lo u fn .rexit (f.acts .rexit) s) rexits.reverse s

def renter (u : Nat) (renters : List String) (s : St) : Except Err St :=
  forEach (fun fn s =>
    match s.frameOf u fn with
    | .error e => .error e
    | .ok f => runActs lo u fn .renter (f.acts .renter) s) renters s

/-- ghost bracket (finding D12r): while `k` runs, the frames `p` count as checked-but-not-yet-entered -/
def ghosted (p : List (Nat × String)) (k : St → Except Err St) (s : St) : Except Err St :=
  match k { s with pending := s.pending ++ p } with
  | .error e => .error e
  | .ok s' => .ok { s' with pending := s.pending }

/-- `Framer.activate(active)` -/
def activate (u : Nat) (fn : String) (s : St) : Except Err St :=
  match s.frameOf u fn with
  | .error e => .error e
  | .ok f => .ok (s.modCtl u (fun x => { x with active := some fn, actives := f.outline }))

/-- `Framer.enterAll()` -/
def enterAll (u : Nat) (s : St) : Except Err St :=
  match s.fr u with
  | .error e => .error e
  | .ok me =>
    match activate u me.first (s.modCtl u (fun x => { x with done := false })) with
    | .error e => .error e
    | .ok s =>
      match s.fr u with
      | .error e => .error e
      | .ok me => ghosted (me.ctl.actives.map (fun f => (u, f))) (enter lo u me.ctl.actives) s

/-- `Framer.exitAll(abort)` -/
def exitAll (abort : Bool) (u : Nat) (s : St) : Except Err St :=
  match s.fr u with
  | .error e => .error e
  | .ok me =>
    match exit lo u me.ctl.actives s with
    | .error e => .error e
    | .ok s =>
      let s := s.modCtl u (fun x => { x with active := none, actives := [] })
      .ok (if abort then s else s.modCtl u (fun x => { x with done := true }))

/-- `Frame.recur()` -/
def frameRecur (u : Nat) (fn : String) (s : St) : Except Err St :=
  match s.frameOf u fn with
  | .error e => .error e
  | .ok f =>
    match runActs lo u fn .recur (f.acts .recur) s with
    | .error e => .error e
    | .ok s =>
      match s.frameOf u fn with
      | .error e => .error e
      | .ok f => forEach lo.recur f.auxes s

/-- `Framer.recur()` -/
def recur (u : Nat) (s : St) : Except Err St :=
  match s.fr u with
  | .error e => .error e
  | .ok me => forEach (frameRecur lo u) me.ctl.actives s

/-- `Framer.checkStart(claimed)` -/
def checkStart (u : Nat) (claimed : List Nat) (s : St) : Except Err (Bool × List Nat) :=
  match s.fr u with
  | .error e => .error e
  | .ok me =>
    match s.frameOf u me.first with
    | .error e => .error e
    | .ok f => checkEnter lo u f.outline [] claimed s

/-- the middle of `Transiter.action`: `framer.exit(exits); framer.rexit(reexens); framer.renter(reexens);
framer.enter(enters)` -/
def transitBody (u : Nat) (exits reexens enters : List String) (s : St) : Except Err St :=
  match exit lo u exits s with
  | .error e => .error e
  | .ok s =>
    match rexit lo u reexens s with
    | .error e => .error e
    | .ok s =>
      match renter lo u reexens s with
      | .error e => .error e
      | .ok s => enter lo u enters s

/-- `Transiter.action(needs, near, far)`; the Bool is the truthiness of the result -/
def transit (u : Nat) (fn : String) (far : String) (needs : List Need) (s : St) : Except Err (Bool × St) :=
  match allM (needHolds u fn s) needs with
  | .error e => .error e
  | .ok false => .ok (false, s)
  | .ok true =>
    match s.fr u, s.frameOf u far with
    | .error e, _ => .error e
    | _, .error e => .error e
    | .ok me, .ok ff =>
      let (exits, enters, reexens) := exEn far me.ctl.actives ff.outline []
      match checkEnter lo u enters exits [] s with
      | .error e => .error e
      | .ok (false, _) => .ok (false, s)
      | .ok (true, _) =>
        -- the entry check is over: from here to the end of `enter` the frames of `enters` are pending (ghost)
        match ghosted (enters.map (fun f => (u, f))) (transitBody lo u exits reexens enters) s with
        | .error e => .error e
        | .ok s => (activate u far s).map (fun s => (true, s))

/-- `Frame.precur()` -/
def precurLoop (u : Nat) (fn : String) : List Pre → St → Except Err (Bool × St)
  | [], s => .ok (false, s)
  | .act a :: ps, s =>
    match runAct lo u fn .precur a s with
    | .error e => .error e
    | .ok s => precurLoop u fn ps s
  | .go far needs :: ps, s =>
    match transit lo u fn far needs s with
    | .error e => .error e
    | .ok (true, s) => .ok (true, s)
    | .ok (false, s) => precurLoop u fn ps s

/-- second loop of `Framer.segue()` -/
def segueLoop (u : Nat) : List String → St → Except Err St
  | [], s => .ok s
  | fn :: fns, s =>
    match s.frameOf u fn with
    | .error e => .error e
    | .ok f =>
      match precurLoop lo u fn f.preacts s with
      | .error e => .error e
      | .ok (true, s) => .ok s
      | .ok (false, s) => segueLoop u fns s

/-- `Framer.segue()` -/
def segue (u : Nat) (s : St) : Except Err St :=
  match updateClocks u s with
  | .error e => .error e
  | .ok s =>
    match s.fr u with
    | .error e => .error e
    | .ok me =>
      match forEach (fun fn s =>
              match s.frameOf u fn with
              | .error e => .error e
              | .ok f => forEach lo.segue f.auxes s) me.ctl.actives s with
      | .error e => .error e
      | .ok s => segueLoop lo u me.ctl.actives s

/-- the body of the frame loop of `Framer.prune`: `prunables = [aux for aux in frame.auxes if not aux.original]`
(fix D12a; it was `if aux.insular`), then prune and drop each -/
def pruneFrame (u : Nat) (fn : String) (s : St) : Except Err St :=
  match s.frameOf u fn with
  | .error e => .error e
  | .ok f => forEach (pruneStep lo u fn) (f.auxes.filter (isCloneAux s)) s

/-- `Framer.prune()` of the repaired tree: exit when still entered (D12b), prune every clone below (D12a) -/
def prune (u : Nat) (s : St) : Except Err St :=
  match s.fr u with
  | .error e => .error e
  | .ok me =>
    match (if me.ctl.active.isSome then exitAll lo false u s else .ok s) with
    | .error e => .error e
    | .ok s =>
      match forEach (pruneFrame lo u) (me.frames.map (·.name)) s with
      | .error e => .error e
      | .ok s => .ok (unregister (assignRegistries me.house s) me)   -- fix D47a: the framer's own house

def nextOps : Ops :=
  { enterAll := enterAll lo, exitAll := exitAll lo false, recur := recur lo, segue := segue lo,
    prune := prune lo, checkStart := checkStart lo }

end level

def opsAt : Nat → Ops
  | 0 => Ops.bottom
  | n + 1 => nextOps (opsAt n)

/-! ## the scheduler: every host is an active framer with period 0, stopped by the harness after `ticks` ticks -/

inductive Status | stopped | started | running
  deriving DecidableEq, Repr
inductive Control | start | run | stop
  deriving DecidableEq, Repr

structure Host where
  uid : Nat
  status : Status := .stopped
  desire : Control := .start
  deriving Repr

/-- one `runner.send(desire)` of `Framer.makeRunner` (the controls the harness produces) -/
def hostStep (lo : Ops) (h : Host) (s : St) : Except Err (Host × St) :=
  match h.desire, h.status with
  | .start, .stopped =>
    match checkStart lo h.uid [] s with
    | .error e => .error e
    | .ok (false, _) => .ok ({ h with desire := .stop, status := .stopped }, s)
    | .ok (true, _) =>
      match enterAll lo h.uid s with
      | .error e => .error e
      | .ok s =>
        match recur lo h.uid s with
        | .error e => .error e
        | .ok s => .ok ({ h with desire := .run, status := .started }, s)
  | .start, _ => .ok ({ h with desire := .run }, s)
  | .run, .stopped => .ok ({ h with desire := .start }, s)
  | .run, _ =>
    match segue lo h.uid s with
    | .error e => .error e
    | .ok s =>
      match recur lo h.uid s with
      | .error e => .error e
      | .ok s => .ok ({ h with status := .running }, s)
  | .stop, .stopped => .ok (h, s)
  | .stop, _ =>
    match exitAll lo true h.uid s with
    | .error e => .error e
    | .ok s => .ok ({ h with status := .stopped }, s)

def hostsStep (lo : Ops) : List Host → St → Except Err (List Host × St)
  | [], s => .ok ([], s)
  | h :: hs, s =>
    match hostStep lo h s with
    | .error e => .error e
    | .ok (h, s) =>
      match hostsStep lo hs s with
      | .error e => .error e
      | .ok (hs, s) => .ok (h :: hs, s)

end Ioflo.Clones
