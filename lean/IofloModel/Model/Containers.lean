/-
Model of ioflo/aid/odicting.py (odict, lodict, modict) and ioflo/aid/osetting.py (oset).

Transcribed method by method.  An `odict` is a Python `dict` (here: `d`, an association list in
CPython's insertion order, unique keys) plus the separate list `_keys` (here: `keys`); nothing in
the model assumes the two agree — that they always do is a theorem (`Props/C39.lean`).
Every method returns the object after the call together with the value returned or the
exception raised (`Res`).  The code modelled is /repo + fixes/D23-*.patch, D39a, D39b
(lodict overrides of create/sift/insert/pop/reorder, modict.update from a dict,
modict.popitem/poplistitem, modict.get, odict.reorder(self), modict.__reduce__, oset.copy; all committed in
/repo) + fixes/D39e (odict.__reversed__/__or__/__ior__).

Core Lean only (the driver links this file).
-/
namespace Ioflo.Containers

inductive Err | KeyError | ValueError | TypeError | IndexError | AttributeError
  deriving DecidableEq, Repr

/-- object after the call × (returned value | raised exception) -/
abbrev Res (σ α : Type) := σ × Except Err α

/-! ## Python primitives: dict (association list) and list indexing -/
section Prim
variable {K V : Type} [DecidableEq K]

/-- `dict.get(d, k)` as an option -/
def dget : List (K × V) → K → Option V
  | [], _ => none
  | (a, b) :: t, k => if a = k then some b else dget t k

/-- `k in d` (dict.__contains__) -/
def dhas (d : List (K × V)) (k : K) : Bool := (dget d k).isSome

/-- `dict.__setitem__`: an existing key keeps its slot (and its key object), a new key goes last -/
def dset : List (K × V) → K → V → List (K × V)
  | [], k, v => [(k, v)]
  | (a, b) :: t, k, v => if a = k then (a, v) :: t else (a, b) :: dset t k v

/-- removal of a key from a dict (no-op when absent; callers test presence first) -/
def ddel : List (K × V) → K → List (K × V)
  | [], _ => []
  | (a, b) :: t, k => if a = k then t else (a, b) :: ddel t k

/-- `list.insert(i, x)`: negative indexes count from the end, out-of-range indexes are clamped -/
def pyInsert {α : Type} (l : List α) (i : Int) (x : α) : List α :=
  let n : Int := l.length
  let j : Int := if i < 0 then (if i + n < 0 then 0 else i + n) else (if i > n then n else i)
  l.take j.toNat ++ x :: l.drop j.toNat

/-- `l[i]` (none = IndexError) -/
def pyIndex {α : Type} (l : List α) (i : Int) : Option α :=
  let n : Int := l.length
  let j : Int := if i < 0 then i + n else i
  if j < 0 then none else l[j.toNat]?

/-- `[(key, dict.__getitem__(self, key)) for key in ks]` -/
def rawItems (d : List (K × V)) : List K → Except Err (List (K × V))
  | [] => .ok []
  | k :: ks =>
    match dget d k with
    | none => .error .KeyError
    | some v =>
      match rawItems d ks with
      | .ok r => .ok ((k, v) :: r)
      | .error e => .error e

end Prim

/-! ## odict -/

/-- an `odict` instance: the dict part and the `_keys` list -/
structure OD (K V : Type) where
  d : List (K × V)
  keys : List K
  deriving Repr, DecidableEq

namespace OD
variable {K V : Type} [DecidableEq K]

/-- `odict()` -/
def empty : OD K V := ⟨[], []⟩

/-- `key in self` (inherited `dict.__contains__`) -/
def has (s : OD K V) (k : K) : Bool := dhas s.d k

/-- `odict.__setitem__` -/
def setitem (s : OD K V) (k : K) (v : V) : OD K V :=
  { d := dset s.d k v, keys := if k ∈ s.keys then s.keys else s.keys ++ [k] }

/-- `odict.__delitem__`: `dict.__delitem__` (KeyError) then `_keys.remove` (ValueError) -/
def delitem (s : OD K V) (k : K) : Res (OD K V) Unit :=
  if dhas s.d k then
    if k ∈ s.keys then ({ d := ddel s.d k, keys := s.keys.erase k }, .ok ())
    else ({ s with d := ddel s.d k }, .error .ValueError)
  else (s, .error .KeyError)

/-- inherited `dict.__getitem__` -/
def getitem (s : OD K V) (k : K) : Except Err V :=
  match dget s.d k with
  | some v => .ok v
  | none => .error .KeyError

/-- inherited `dict.get` (no default given: `None`) -/
def get (s : OD K V) (k : K) (dflt : Option V) : Option V :=
  match dget s.d k with
  | some v => some v
  | none => dflt

/-- inherited `dict.__len__` -/
def len (s : OD K V) : Nat := s.d.length

/-- `odict.items()` -/
def items (s : OD K V) : Except Err (List (K × V)) := rawItems s.d s.keys

/-- `odict.values()` -/
def values (s : OD K V) : Except Err (List V) :=
  match s.items with
  | .ok l => .ok (l.map Prod.snd)
  | .error e => .error e

/-- `odict.update(pairs)` / the loops of `odict.__init__`: `self[k] = v` for each pair -/
def update (s : OD K V) (ps : List (K × V)) : OD K V :=
  ps.foldl (fun s p => s.setitem p.1 p.2) s

/-- `odict(pairs)` -/
def init (ps : List (K × V)) : OD K V := update empty ps

/-- `odict.append` -/
def append (s : OD K V) (k : K) (v : V) : Res (OD K V) Unit :=
  if s.has k then (s, .error .KeyError) else (s.setitem k v, .ok ())

/-- `odict.clear` -/
def clear (_ : OD K V) : OD K V := empty

/-- `odict.copy`: `self.__class__(items)` -/
def copy (s : OD K V) : Except Err (OD K V) :=
  match s.items with
  | .ok l => .ok (init l)
  | .error e => .error e

/-- `odict.create`: tests `k not in self._keys` -/
def create (s : OD K V) (ps : List (K × V)) : OD K V :=
  ps.foldl (fun s p => if p.1 ∈ s.keys then s else s.setitem p.1 p.2) s

/-- `odict.sift` -/
def sift (s : OD K V) (fields : Option (List K)) : Except Err (OD K V) :=
  match fields with
  | none => s.copy
  | some fs =>
    match rawItems s.d fs with
    | .ok l => .ok (init l)
    | .error e => .error e

/-- `odict.insert`: `dict.__setitem__` and `_keys.insert` -/
def insert (s : OD K V) (i : Int) (k : K) (v : V) : Res (OD K V) Unit :=
  if s.has k then (s, .error .KeyError)
  else ({ d := dset s.d k v, keys := pyInsert s.keys i k }, .ok ())

/-- `odict.pop(key[, default])` -/
def pop (s : OD K V) (k : K) (dflt : Option V) : Res (OD K V) V :=
  match dget s.d k, dflt with
  | some v, _ => ({ d := ddel s.d k, keys := if k ∈ s.keys then s.keys.erase k else s.keys }, .ok v)
  | none, some dv => ({ s with keys := if k ∈ s.keys then s.keys.erase k else s.keys }, .ok dv)
  | none, none => (s, .error .KeyError)

/-- `odict.popitem`, with the `del self[key]` it ends in passed as `del` (virtual) -/
def popitemWith (del : OD K V → K → Res (OD K V) Unit) (s : OD K V) : Res (OD K V) (K × V) :=
  match s.keys.getLast? with
  | none => (s, .error .KeyError)
  | some k =>
    match dget s.d k with
    | none => (s, .error .KeyError)
    | some v =>
      match del s k with
      | (s', .ok ()) => (s', .ok (k, v))
      | (s', .error e) => (s', .error e)

def popitem (s : OD K V) : Res (OD K V) (K × V) := popitemWith delitem s

/-- `dict.update(self, other)` for an `other` that overrides `__iter__`:
`for key in other.keys(): dict[key] = other[key]` -/
def rawUpdate (d : List (K × V)) (other : OD K V) : List K → List (K × V) × Except Err Unit
  | [] => (d, .ok ())
  | k :: ks =>
    match dget other.d k with
    | none => (d, .error .KeyError)
    | some v => rawUpdate (dset d k v) other ks

/-- `odict.reorder(other)` for an `other` that is an odict and is not `self`
(`other is self` returns at once, fix D39b: see `Heap`) -/
def reorder (s : OD K V) (other : OD K V) : Res (OD K V) Unit :=
  match rawUpdate s.d other other.keys with
  | (d', .error e) => ({ s with d := d' }, .error e)
  | (d', .ok ()) =>
    ({ d := d', keys := other.keys.foldl (fun ks k => ks.erase k ++ [k]) s.keys }, .ok ())

/-- `odict.setdefault` -/
def setdefault (s : OD K V) (k : K) (dflt : V) : Res (OD K V) V :=
  match dget s.d k with
  | some v => ({ s with keys := if k ∈ s.keys then s.keys else s.keys ++ [k] }, .ok v)
  | none => ({ d := dset s.d k dflt, keys := if k ∈ s.keys then s.keys else s.keys ++ [k] }, .ok dflt)

/-- unpickling at protocol >= 2 (also copy.copy / copy.deepcopy): `odict.__new__` (empty `_keys`), then the
dict items are stored one by one through `__setitem__`, then `__setstate__(items)` = `__init__(items)`
stores them once more -/
def unpickle (s : OD K V) : Except Err (OD K V) :=
  match s.items with
  | .ok l => .ok (update (update empty l) l)
  | .error e => .error e

/-- unpickling at protocol 0 or 1: `copyreg._reconstructor` fills the dict part directly from `dict(self)`
— neither `odict.__new__` nor `__setitem__` runs, there is no `_keys` yet — and then, only if the state
`items()` is not empty, `__setstate__(items)` = `__init__(items)`, whose first `__setitem__` creates `_keys`.
An empty odict comes back without `_keys`: every later use raises AttributeError (defect D39f) -/
def unpickleLegacy (s : OD K V) : Except Err (OD K V) :=
  match s.items with
  | .ok [] => .error .AttributeError
  | .ok l => .ok (update ⟨l, []⟩ l)
  | .error e => .error e

/-- inherited `dict.__eq__`: same length and every item of `self` is an item of `other` -/
def eq [DecidableEq V] (s o : OD K V) : Bool :=
  s.d.length == o.d.length && s.d.all (fun p => decide (dget o.d p.1 = some p.2))

end OD

/-! ### operations and results of odict / lodict as data (for histories and for the driver) -/

inductive Op (K V : Type)
  | setitem (k : K) (v : V) | delitem (k : K) | getitem (k : K) | contains (k : K)
  | get (k : K) (dflt : Option V) | len | keys | values | items
  | append (k : K) (v : V) | clear | copy | create (ps : List (K × V))
  | sift (fields : Option (List K)) | insert (i : Int) (k : K) (v : V)
  | pop (k : K) (dflt : Option V) | popitem | reorder (other : OD K V) | reorderBad
  | setdefault (k : K) (dflt : V) | update (ps : List (K × V)) | eq (other : OD K V)
  | reversed | ior (ps : List (K × V)) | or (ps : List (K × V))   -- `reversed(d)`, `d |= other`, `d | other` (fix D39e)
  | pickle         -- pickle round trip at protocol >= 2, copy.copy, copy.deepcopy
  | pickleLegacy   -- pickle round trip at protocol 0 or 1
  deriving Repr

inductive Out (K V : Type)
  | none | err (e : Err) | val (v : V) | bool (b : Bool) | nat (n : Nat)
  | keys (l : List K) | vals (l : List V) | items (l : List (K × V)) | item (k : K) (v : V)
  | obj (o : OD K V)
  deriving Repr, DecidableEq

namespace Out
variable {K V α : Type}
def ofUnit : Except Err Unit → Out K V
  | .ok () => .none
  | .error e => .err e
def ofVal : Except Err V → Out K V
  | .ok v => .val v
  | .error e => .err e
def ofObj : Except Err (OD K V) → Out K V
  | .ok o => .obj o
  | .error e => .err e
end Out

namespace OD
variable {K V : Type} [DecidableEq K] [DecidableEq V]

/-- one call on an `odict` -/
def step (s : OD K V) : Op K V → OD K V × Out K V
  | .setitem k v => (s.setitem k v, .none)
  | .delitem k => let r := s.delitem k; (r.1, .ofUnit r.2)
  | .getitem k => (s, .ofVal (s.getitem k))
  | .contains k => (s, .bool (s.has k))
  | .get k dflt => (s, match s.get k dflt with | some v => .val v | none => .none)
  | .len => (s, .nat s.len)
  | .keys => (s, .keys s.keys)
  | .values => (s, match s.values with | .ok l => .vals l | .error e => .err e)
  | .items => (s, match s.items with | .ok l => .items l | .error e => .err e)
  | .append k v => let r := s.append k v; (r.1, .ofUnit r.2)
  | .clear => (s.clear, .none)
  | .copy => (s, .ofObj s.copy)
  | .create ps => (s.create ps, .none)
  | .sift fs => (s, .ofObj (s.sift fs))
  | .insert i k v => let r := s.insert i k v; (r.1, .ofUnit r.2)
  | .pop k dflt => let r := s.pop k dflt; (r.1, .ofVal r.2)
  | .popitem => let r := s.popitem; (r.1, match r.2 with | .ok (k, v) => .item k v | .error e => .err e)
  | .reorder o => let r := s.reorder o; (r.1, .ofUnit r.2)
  | .reorderBad => (s, .err .ValueError)
  | .setdefault k dflt => let r := s.setdefault k dflt; (r.1, .ofVal r.2)
  | .update ps => (s.update ps, .none)
  | .eq o => (s, .bool (s.eq o))
  | .reversed => (s, .keys s.keys.reverse)
  | .ior ps => (s.update ps, .none)
  | .or ps => (s, match s.copy with | .ok c => .obj (c.update ps) | .error e => .err e)
  | .pickle => (s, .ofObj s.unpickle)
  | .pickleLegacy => (s, .ofObj s.unpickleLegacy)

end OD

/-! ## lodict (subclass of odict; `lower` is `str.lower`) -/
namespace LOD
variable {K V : Type} [DecidableEq K] (lower : K → K)

def setitem (s : OD K V) (k : K) (v : V) : OD K V := OD.setitem s (lower k) v
def delitem (s : OD K V) (k : K) : Res (OD K V) Unit := OD.delitem s (lower k)
def has (s : OD K V) (k : K) : Bool := OD.has s (lower k)
def getitem (s : OD K V) (k : K) : Except Err V := OD.getitem s (lower k)
def get (s : OD K V) (k : K) (dflt : Option V) : Option V := OD.get s (lower k) dflt

/-- `lodict.setdefault` (kind=None): try `__getitem__(key.lower())`, on any exception
`__setitem__(key.lower(), default)` -/
def setdefault (s : OD K V) (k : K) (dflt : V) : Res (OD K V) V :=
  match OD.getitem s (lower k) with
  | .ok v => (s, .ok v)
  | .error _ => (OD.setitem s (lower k) dflt, .ok dflt)

/-- `lodict.update`: collect into a temporary odict under lowered keys, then
`odict.update(self, d)`, whose `self[k] = d[k]` is again `lodict.__setitem__` -/
def update (s : OD K V) (ps : List (K × V)) : Res (OD K V) Unit :=
  let d : OD K V := ps.foldl (fun t p => OD.setitem t (lower p.1) p.2) OD.empty
  match d.items with
  | .ok l => (l.foldl (fun s p => setitem lower s p.1 p.2) s, .ok ())
  | .error e => (s, .error e)

/-- `lodict(pairs)` -/
def init (ps : List (K × V)) : Except Err (OD K V) :=
  match update lower OD.empty ps with
  | (s, .ok ()) => .ok s
  | (_, .error e) => .error e

/-- inherited `odict.append`: `key in self` and `self[key] = item` are lodict's -/
def append (s : OD K V) (k : K) (v : V) : Res (OD K V) Unit :=
  if has lower s k then (s, .error .KeyError) else (setitem lower s k v, .ok ())

/-- inherited `odict.copy` -/
def copy (s : OD K V) : Except Err (OD K V) :=
  match s.items with
  | .ok l => init lower l
  | .error e => .error e

/-- `lodict.create` (fix D23): `k not in self`, `self[k] = v` -/
def create (s : OD K V) (ps : List (K × V)) : OD K V :=
  ps.foldl (fun s p => if has lower s p.1 then s else setitem lower s p.1 p.2) s

/-- `lodict.sift` (fix D23): `odict.sift(self, [key.lower() for key in fields])` -/
def sift (s : OD K V) (fields : Option (List K)) : Except Err (OD K V) :=
  match fields with
  | none => copy lower s
  | some fs =>
    match rawItems s.d (fs.map lower) with
    | .ok l => init lower l
    | .error e => .error e

/-- `lodict.insert` (fix D23): `odict.insert(self, index, key.lower(), val)`; its `key in self`
is lodict's -/
def insert (s : OD K V) (i : Int) (k : K) (v : V) : Res (OD K V) Unit :=
  if has lower s (lower k) then (s, .error .KeyError)
  else ({ d := dset s.d (lower k) v, keys := pyInsert s.keys i (lower k) }, .ok ())

/-- `lodict.pop` (fix D23) -/
def pop (s : OD K V) (k : K) (dflt : Option V) : Res (OD K V) V := OD.pop s (lower k) dflt

/-- inherited `odict.popitem`; `del self[key]` is lodict's -/
def popitem (s : OD K V) : Res (OD K V) (K × V) := OD.popitemWith (delitem lower) s

/-- `lodict(other)` for a mapping `other`: `d[k.lower()] = other[k]` for k in other -/
def initFrom (other : OD K V) : Except Err (OD K V) :=
  match other.items with
  | .ok l => init lower l
  | .error e => .error e

/-- `lodict.reorder` (fix D23): `odict.reorder(self, lodict(other))` -/
def reorder (s : OD K V) (other : OD K V) : Res (OD K V) Unit :=
  match initFrom lower other with
  | .ok o => OD.reorder s o
  | .error e => (s, .error e)

/-- unpickling a lodict at protocol >= 2: items stored through `lodict.__setitem__`, then `lodict.__init__(items)` -/
def unpickle (s : OD K V) : Except Err (OD K V) :=
  match s.items with
  | .ok l =>
    (match update lower (l.foldl (fun t p => setitem lower t p.1 p.2) OD.empty) l with
     | (c, .ok ()) => .ok c
     | (_, .error e) => .error e)
  | .error e => .error e

/-- unpickling a lodict at protocol 0 or 1 (see `OD.unpickleLegacy`): dict part filled directly, then
`lodict.__init__(items)` = `self.update(items)` -/
def unpickleLegacy (s : OD K V) : Except Err (OD K V) :=
  match s.items with
  | .ok [] => .error .AttributeError
  | .ok l =>
    (match update lower ⟨l, []⟩ l with
     | (c, .ok ()) => .ok c
     | (_, .error e) => .error e)
  | .error e => .error e

variable [DecidableEq V]

/-- one call on a `lodict` -/
def step (s : OD K V) : Op K V → OD K V × Out K V
  | .setitem k v => (setitem lower s k v, .none)
  | .delitem k => let r := delitem lower s k; (r.1, .ofUnit r.2)
  | .getitem k => (s, .ofVal (getitem lower s k))
  | .contains k => (s, .bool (has lower s k))
  | .get k dflt => (s, match get lower s k dflt with | some v => .val v | none => .none)
  | .len => (s, .nat s.len)
  | .keys => (s, .keys s.keys)
  | .values => (s, match s.values with | .ok l => .vals l | .error e => .err e)
  | .items => (s, match s.items with | .ok l => .items l | .error e => .err e)
  | .append k v => let r := append lower s k v; (r.1, .ofUnit r.2)
  | .clear => (s.clear, .none)
  | .copy => (s, .ofObj (copy lower s))
  | .create ps => (create lower s ps, .none)
  | .sift fs => (s, .ofObj (sift lower s fs))
  | .insert i k v => let r := insert lower s i k v; (r.1, .ofUnit r.2)
  | .pop k dflt => let r := pop lower s k dflt; (r.1, .ofVal r.2)
  | .popitem => let r := popitem lower s; (r.1, match r.2 with | .ok (k, v) => .item k v | .error e => .err e)
  | .reorder o => let r := reorder lower s o; (r.1, .ofUnit r.2)
  | .reorderBad => (s, .err .ValueError)
  | .setdefault k dflt => let r := setdefault lower s k dflt; (r.1, .ofVal r.2)
  | .update ps => let r := update lower s ps; (r.1, .ofUnit r.2)
  | .eq o => (s, .bool (s.eq o))
  | .reversed => (s, .keys s.keys.reverse)
  | .ior ps => let r := update lower s ps; (r.1, .ofUnit r.2)
  | .or ps => (s, match copy lower s with
      | .ok c => (match update lower c ps with | (c', .ok ()) => .obj c' | (_, .error e) => .err e)
      | .error e => .err e)
  | .pickle => (s, .ofObj (unpickle lower s))
  | .pickleLegacy => (s, .ofObj (unpickleLegacy lower s))

end LOD

/-- a history of calls on one object -/
def run {σ ο ω : Type} (step : σ → ο → σ × ω) : σ → List ο → σ × List ω
  | s, [] => (s, [])
  | s, o :: os => let r := step s o; let rs := run step r.1 os; (rs.1, r.2 :: rs.2)

/-! ### several odicts / lodicts at once: construction from one another, `other` by reference -/

inductive Cls | od | lod
  deriving DecidableEq, Repr

/-- the objects alive, in order of creation (their index is their identity) -/
abbrev Heap (K V : Type) := List (Cls × OD K V)

inductive HOp (K V : Type)
  | new (c : Cls) (ps : List (K × V))     -- `odict(pairs)` / `lodict(pairs)`
  | newFrom (c : Cls) (j : Nat)           -- `odict(other)` / `lodict(other)`
  | call (i : Nat) (op : Op K V)          -- a call all of whose arguments are literals
  | reorder (i j : Nat) | update (i j : Nat) | create (i j : Nat) | eq (i j : Nat)
  deriving Repr

inductive HOut (K V : Type)
  | out (o : Out K V)        -- anything but an object
  | ref (n : Nat)            -- a new object: its index
  | bad                      -- no such object
  deriving Repr

namespace Heap
variable {K V : Type} [DecidableEq K] [DecidableEq V] (lower : K → K)

def stepObj (c : Cls) (s : OD K V) (op : Op K V) : OD K V × Out K V :=
  match c with
  | .od => OD.step s op
  | .lod => LOD.step lower s op

/-- store the new state of object `i`; a returned object is allocated at the end -/
def commit (h : Heap K V) (i : Nat) (c : Cls) (r : OD K V × Out K V) : Heap K V × HOut K V :=
  let h' := h.set i (c, r.1)
  match r.2 with
  | .obj o => (h' ++ [(c, o)], .ref h'.length)
  | out => (h', .out out)

/-- `odict(pairs)` / `lodict(pairs)` -/
def alloc (h : Heap K V) (c : Cls) (ps : List (K × V)) : Heap K V × HOut K V :=
  match c with
  | .od => (h ++ [(.od, OD.init ps)], .ref h.length)
  | .lod =>
    match LOD.init lower ps with
    | .ok s => (h ++ [(.lod, s)], .ref h.length)
    | .error e => (h, .out (.err e))

def step (h : Heap K V) : HOp K V → Heap K V × HOut K V
  | .new c ps => alloc lower h c ps
  | .newFrom c j =>
    match h[j]? with
    | none => (h, .bad)
    | some (_, o) =>
      match o.items with
      | .error e => (h, .out (.err e))
      | .ok l => alloc lower h c l
  | .call i op =>
    match h[i]? with
    | none => (h, .bad)
    | some (c, s) => commit h i c (stepObj lower c s op)
  | .reorder i j =>
    match h[i]?, h[j]? with
    | some (c, s), some (_, o) =>
      -- `if other is self: return` (odict.reorder, fix D39b); lodict.reorder passes a fresh lodict(other)
      if i = j ∧ c = .od then (h, .out .none) else commit h i c (stepObj lower c s (.reorder o))
    | _, _ => (h, .bad)
  | .update i j =>
    match h[i]?, h[j]? with
    | some (c, s), some (_, o) =>
      match o.items with
      | .ok l => commit h i c (stepObj lower c s (.update l))
      | .error e => (h, .out (.err e))
    | _, _ => (h, .bad)
  | .create i j =>
    match h[i]?, h[j]? with
    | some (c, s), some (_, o) =>
      match o.items with
      | .ok l => commit h i c (stepObj lower c s (.create l))
      | .error e => (h, .out (.err e))
    | _, _ => (h, .bad)
  | .eq i j =>
    match h[i]?, h[j]? with
    | some (c, s), some (_, o) => commit h i c (stepObj lower c s (.eq o))
    | _, _ => (h, .bad)

end Heap

/-! ## modict (subclass of odict whose values are the lists of everything stored under a key) -/
namespace MD
variable {K V : Type} [DecidableEq K]

abbrev MDict (K V : Type) := OD K (List V)

/-- `modict.append`: `odict.setdefault(self, key, []).append(value)` -/
def append (s : MDict K V) (k : K) (v : V) : MDict K V :=
  let r := OD.setdefault s k []
  match r.2 with
  | .ok l => { r.1 with d := dset r.1.d k (l ++ [v]) }
  | .error _ => r.1

/-- `v[-1]` -/
def newest (l : List V) : Except Err V :=
  match l.getLast? with
  | some v => .ok v
  | none => .error .IndexError

/-- `modict.__getitem__` -/
def getitem (s : MDict K V) (k : K) : Except Err V :=
  match OD.getitem s k with
  | .ok l => newest l
  | .error e => .error e

/-- `odict.itervalues(self)` -/
def listvalues (s : MDict K V) : Except Err (List (List V)) := OD.values s
def listitems (s : MDict K V) : Except Err (List (K × List V)) := OD.items s

def mapNewest : List (K × List V) → Except Err (List (K × V))
  | [] => .ok []
  | (k, l) :: t =>
    match newest l with
    | .error e => .error e
    | .ok v =>
      match mapNewest t with
      | .ok r => .ok ((k, v) :: r)
      | .error e => .error e

/-- `modict.items()`: `[(k, v[-1]) ...]` -/
def items (s : MDict K V) : Except Err (List (K × V)) :=
  match OD.items s with
  | .ok l => mapNewest l
  | .error e => .error e

def values (s : MDict K V) : Except Err (List V) :=
  match items s with
  | .ok l => .ok (l.map Prod.snd)
  | .error e => .error e

/-- `modict.allitems()` -/
def allitems (s : MDict K V) : Except Err (List (K × V)) :=
  match OD.items s with
  | .ok l => .ok (l.flatMap (fun p => p.2.map (fun v => (p.1, v))))
  | .error e => .error e

def allvalues (s : MDict K V) : Except Err (List V) :=
  match allitems s with
  | .ok l => .ok (l.map Prod.snd)
  | .error e => .error e

/-- `modict.update(pairs)` / `update(dict)` (fix D23) / `update(**kwa)`: `self.append(k, v)` each -/
def update (s : MDict K V) (ps : List (K × V)) : MDict K V :=
  ps.foldl (fun s p => append s p.1 p.2) s

/-- `modict(pairs)` -/
def init (ps : List (K × V)) : MDict K V := update OD.empty ps

/-- `modict.update(other)` for a modict `other`: append every `other.iterallitems()` -/
def updateFrom (s other : MDict K V) : Res (MDict K V) Unit :=
  match allitems other with
  | .ok l => (update s l, .ok ())
  | .error e => (s, .error e)

/-- `modict.copy`: `self.__class__(self)` -/
def copy (s : MDict K V) : Except Err (MDict K V) :=
  match updateFrom OD.empty s with
  | (c, .ok ()) => .ok c
  | (_, .error e) => .error e

/-- `modict.get(key, default, index)` (kind=None; fix D39a): any exception gives `default` -/
def get (s : MDict K V) (k : K) (dflt : Option V) (index : Int) : Option V :=
  match dget s.d k with
  | none => dflt
  | some l =>
    match pyIndex l index with
    | some v => some v
    | none => dflt

/-- `modict.getlist`: `odict.get(self, key) or []` -/
def getlist (s : MDict K V) (k : K) : List V :=
  match dget s.d k with
  | some l => l
  | none => []

/-- `modict.replace` -/
def replace (s : MDict K V) (k : K) (v : V) : MDict K V := OD.setitem s k [v]

/-- `modict.setdefault` (kind=None) -/
def setdefault (s : MDict K V) (k : K) (dflt : V) : Res (MDict K V) V :=
  match OD.getitem s k with
  | .ok l =>
    match l.getLast? with
    | some v => (s, .ok v)
    | none => (append s k dflt, .ok dflt)
  | .error _ => (append s k dflt, .ok dflt)

/-- `modict.poplist(key[, default])`; the default is returned as given (`inr`) -/
def poplist (s : MDict K V) (k : K) (dflt : Option V) : Res (MDict K V) (List V ⊕ V) :=
  match OD.pop s k none with
  | (s', .ok l) => (s', .ok (.inl l))
  | (s', .error .KeyError) =>
    match dflt with
    | some dv => (s', .ok (.inr dv))
    | none => (s', .error .KeyError)
  | (s', .error e) => (s', .error e)

/-- `modict.pop(key[, default], index=-1)` (fix D39g): the indexed element is read first, only then the key removed -/
def pop (s : MDict K V) (k : K) (dflt : Option V) (index : Int) : Res (MDict K V) V :=
  match dget s.d k with
  | none =>
    match dflt with
    | some dv => (s, .ok dv)
    | none => (s, .error .KeyError)
  | some l =>
    match pyIndex l index with
    | none => (s, .error .IndexError)
    | some v => ((OD.pop s k none).1, .ok v)

/-- `modict.poplistitem(last)` (fix D23) -/
def poplistitem (s : MDict K V) (last : Bool) : Res (MDict K V) (K × List V) :=
  match (if last then s.keys.getLast? else s.keys.head?) with
  | none => (s, .error .KeyError)
  | some k =>
    match OD.pop s k none with
    | (s', .ok l) => (s', .ok (k, l))
    | (s', .error e) => (s', .error e)

/-- `modict.popitem(last, index)` (fixes D23, D39g): the indexed element is read first, only then the key removed -/
def popitem (s : MDict K V) (last : Bool) (index : Int) : Res (MDict K V) (K × V) :=
  match (if last then s.keys.getLast? else s.keys.head?) with
  | none => (s, .error .KeyError)
  | some k =>
    match dget s.d k with
    | none => (s, .error .KeyError)
    | some l =>
      match pyIndex l index with
      | none => (s, .error .IndexError)
      | some v => ((OD.pop s k none).1, .ok (k, v))

/-- `modict.fromkeys(seq, default)` -/
def fromkeys (seq : List K) (dflt : V) : MDict K V := init (seq.map (fun k => (k, dflt)))

/-- inherited `odict.create`: `self[k] = v` is `modict.append` -/
def create (s : MDict K V) (ps : List (K × V)) : MDict K V :=
  ps.foldl (fun s p => if p.1 ∈ s.keys then s else append s p.1 p.2) s

end MD

inductive MOp (K V : Type)
  | setitem (k : K) (v : V) | append (k : K) (v : V) | getitem (k : K) | contains (k : K)
  | delitem (k : K) | len | keys | clear
  | values | listvalues | allvalues | items | listitems | allitems
  | copy | get (k : K) (dflt : Option V) (index : Int) | getlist (k : K)
  | replace (k : K) (v : V) | setdefault (k : K) (dflt : V)
  | pop (k : K) (dflt : Option V) (index : Int) | poplist (k : K) (dflt : Option V)
  | popitem (last : Bool) (index : Int) | poplistitem (last : Bool)
  | fromkeys (seq : List K) (dflt : V) | update (ps : List (K × V)) | updateFrom (other : OD K (List V))
  | create (ps : List (K × V)) | eq (other : OD K (List V))
  | reversed | ior (ps : List (K × V)) | or (ps : List (K × V))   -- inherited from odict (fix D39e)
  deriving Repr

inductive MOut (K V : Type)
  | none | err (e : Err) | val (v : V) | bool (b : Bool) | nat (n : Nat)
  | keys (l : List K) | vals (l : List V) | lists (l : List (List V))
  | items (l : List (K × V)) | listitems (l : List (K × List V))
  | item (k : K) (v : V) | listitem (k : K) (l : List V) | list (l : List V)
  | obj (o : OD K (List V))
  deriving Repr, DecidableEq

namespace MD
variable {K V : Type} [DecidableEq K] [DecidableEq V]

def outOf {α : Type} (f : α → MOut K V) : Except Err α → MOut K V
  | .ok a => f a
  | .error e => .err e

/-- one call on a `modict` -/
def step (s : MDict K V) : MOp K V → MDict K V × MOut K V
  | .setitem k v => (append s k v, .none)
  | .append k v => (append s k v, .none)
  | .getitem k => (s, outOf .val (getitem s k))
  | .contains k => (s, .bool (OD.has s k))
  | .delitem k => let r := OD.delitem s k; (r.1, outOf (fun _ => .none) r.2)
  | .len => (s, .nat (OD.len s))
  | .keys => (s, .keys s.keys)
  | .clear => (OD.clear s, .none)
  | .values => (s, outOf .vals (values s))
  | .listvalues => (s, outOf .lists (listvalues s))
  | .allvalues => (s, outOf .vals (allvalues s))
  | .items => (s, outOf .items (items s))
  | .listitems => (s, outOf .listitems (listitems s))
  | .allitems => (s, outOf .items (allitems s))
  | .copy => (s, outOf .obj (copy s))
  | .get k dflt i => (s, match get s k dflt i with | some v => .val v | none => .none)
  | .getlist k => (s, .list (getlist s k))
  | .replace k v => (replace s k v, .none)
  | .setdefault k dflt => let r := setdefault s k dflt; (r.1, outOf .val r.2)
  | .pop k dflt i => let r := pop s k dflt i; (r.1, outOf .val r.2)
  | .poplist k dflt =>
    let r := poplist s k dflt
    (r.1, outOf (fun x => match x with | .inl l => .list l | .inr v => .val v) r.2)
  | .popitem last i => let r := popitem s last i; (r.1, outOf (fun p => .item p.1 p.2) r.2)
  | .poplistitem last => let r := poplistitem s last; (r.1, outOf (fun p => .listitem p.1 p.2) r.2)
  | .fromkeys seq dflt => (s, .obj (fromkeys seq dflt))
  | .update ps => (update s ps, .none)
  | .updateFrom o => let r := updateFrom s o; (r.1, outOf (fun _ => .none) r.2)
  | .create ps => (create s ps, .none)
  | .eq o => (s, .bool (OD.eq s o))
  | .reversed => (s, .keys s.keys.reverse)
  | .ior ps => (update s ps, .none)
  | .or ps => (s, match copy s with | .ok c => .obj (update c ps) | .error e => .err e)

end MD

/-! ## oset (insertion-ordered set; the doubly linked list + map is modelled as the list of keys
in link order) and the `collections.abc.MutableSet` mixin methods it inherits -/
namespace OSet
variable {K : Type} [DecidableEq K]

/-- `oset.add` -/
def add (l : List K) (k : K) : List K := if k ∈ l then l else l ++ [k]
/-- `oset.discard` -/
def discard (l : List K) (k : K) : List K := l.erase k
/-- `MutableSet.__ior__` / `oset.__init__`: `for value in it: self.add(value)` -/
def ior (l : List K) (it : List K) : List K := it.foldl add l
/-- `oset(iterable)` -/
def init (it : List K) : List K := ior [] it
/-- `oset.pop(last)` -/
def pop (l : List K) (last : Bool) : Res (List K) K :=
  match (if last then l.getLast? else l.head?) with
  | none => (l, .error .KeyError)
  | some k => (discard l k, .ok k)
/-- `MutableSet.remove` -/
def remove (l : List K) (k : K) : Res (List K) Unit :=
  if k ∈ l then (discard l k, .ok ()) else (l, .error .KeyError)
/-- `MutableSet.clear`: `self.pop()` until KeyError (`fuel` = number of elements) -/
def clearLoop : Nat → List K → List K
  | 0, l => l
  | n + 1, l =>
    match pop l true with
    | (l', .ok _) => clearLoop n l'
    | (l', .error _) => l'
def clear (l : List K) : List K := clearLoop (l.length + 1) l

/-- the other operand of a binary operation: another oset (a `Set`) or a plain list (an iterable) -/
inductive Arg (K : Type) | set (l : List K) | list (l : List K)
  deriving Repr
def Arg.elems : Arg K → List K
  | .set l => l
  | .list l => l
/-- `other = self._from_iterable(other)` unless it is a `Set` -/
def Arg.asSet : Arg K → List K
  | .set l => l
  | .list l => init l

/-- `Set.__or__`: `oset(chain(self, other))` -/
def or (l : List K) (o : Arg K) : List K := init (l ++ o.elems)
/-- `Set.__and__`: `oset(v for v in other if v in self)` -/
def and (l : List K) (o : Arg K) : List K := init (o.elems.filter (· ∈ l))
/-- `Set.__sub__` -/
def sub (l : List K) (o : Arg K) : List K := init (l.filter (· ∉ o.asSet))
/-- `Set.__rsub__`: `other - self` for an iterable `other` -/
def rsub (l : List K) (o : Arg K) : List K := init (o.asSet.filter (· ∉ l))
/-- `Set.__xor__`: `(self - other) | (other - self)` -/
def xor (l : List K) (o : Arg K) : List K :=
  let o' := o.asSet
  or (sub l (.set o')) (.set (sub o' (.set l)))
/-- `MutableSet.__iand__`: `for value in (self - it): self.discard(value)` -/
def iand (l : List K) (o : Arg K) : List K := (sub l o).foldl discard l
/-- `MutableSet.__ixor__` for `it is not self` -/
def ixor (l : List K) (o : Arg K) : List K :=
  o.asSet.foldl (fun l v => if v ∈ l then discard l v else add l v) l
/-- `MutableSet.__isub__` for `it is not self` -/
def isub (l : List K) (o : Arg K) : List K := o.elems.foldl discard l
/-- `Set.isdisjoint` -/
def isdisjoint (l : List K) (o : Arg K) : Bool := o.elems.all (· ∉ l)
/-- `Set.__le__` against another `Set` -/
def le (l o : List K) : Bool := l.length ≤ o.length && l.all (· ∈ o)
def lt (l o : List K) : Bool := l.length < o.length && le l o
def ge (l o : List K) : Bool := o.length ≤ l.length && o.all (· ∈ l)
def gt (l o : List K) : Bool := o.length < l.length && ge l o
/-- `oset.__eq__`: against an oset order matters, against anything else `set(self) == set(other)` -/
def eq (l : List K) : Arg K → Bool
  | .set o => l.length == o.length && l == o
  | .list o => l.all (· ∈ o) && o.all (· ∈ l)

end OSet

inductive SOp (K : Type)
  | add (k : K) | discard (k : K) | remove (k : K) | pop (last : Bool) | clear
  | contains (k : K) | len | iter | reversed
  | or (o : OSet.Arg K) | and (o : OSet.Arg K) | sub (o : OSet.Arg K) | rsub (o : OSet.Arg K)
  | xor (o : OSet.Arg K)
  | ior (o : OSet.Arg K) | iand (o : OSet.Arg K) | ixor (o : OSet.Arg K) | isub (o : OSet.Arg K)
  | ixorSelf | isubSelf
  | isdisjoint (o : OSet.Arg K) | le (o : List K) | lt (o : List K) | ge (o : List K) | gt (o : List K)
  | eq (o : OSet.Arg K)
  deriving Repr

inductive SOut (K : Type)
  | none | err (e : Err) | key (k : K) | bool (b : Bool) | nat (n : Nat) | keys (l : List K)
  | obj (l : List K)
  deriving Repr, DecidableEq

namespace OSet
variable {K : Type} [DecidableEq K]

/-- one call on an `oset` -/
def step (l : List K) : SOp K → List K × SOut K
  | .add k => (add l k, .none)
  | .discard k => (discard l k, .none)
  | .remove k => let r := remove l k; (r.1, match r.2 with | .ok _ => .none | .error e => .err e)
  | .pop last => let r := pop l last; (r.1, match r.2 with | .ok k => .key k | .error e => .err e)
  | .clear => (clear l, .none)
  | .contains k => (l, .bool (k ∈ l))
  | .len => (l, .nat l.length)
  | .iter => (l, .keys l)
  | .reversed => (l, .keys l.reverse)
  | .or o => (l, .obj (or l o))
  | .and o => (l, .obj (and l o))
  | .sub o => (l, .obj (sub l o))
  | .rsub o => (l, .obj (rsub l o))
  | .xor o => (l, .obj (xor l o))
  | .ior o => (ior l o.elems, .none)
  | .iand o => (iand l o, .none)
  | .ixor o => (ixor l o, .none)
  | .isub o => (isub l o, .none)
  | .ixorSelf => (clear l, .none)
  | .isubSelf => (clear l, .none)
  | .isdisjoint o => (l, .bool (isdisjoint l o))
  | .le o => (l, .bool (le l o))
  | .lt o => (l, .bool (lt l o))
  | .ge o => (l, .bool (ge l o))
  | .gt o => (l, .bool (gt l o))
  | .eq o => (l, .bool (eq l o))

end OSet

/-- ASCII `str.lower` on a key -/
def lowerStr (s : String) : String := String.ofList (s.toList.map Char.toLower)

end Ioflo.Containers
