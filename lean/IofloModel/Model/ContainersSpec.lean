import IofloModel.Model.Containers
/-
Reference containers for C39 (what the property compares the code with):

* `Spec`   an insertion-ordered dictionary is ONE list of (key, value) pairs without duplicate keys;
           a new key goes to the end, assigning to an existing key keeps its place.
* `MSpec`  an ordered multi-dictionary is one list of (key, non-empty list of values) pairs.

They are written with plain list operations (append at the end, `dropLast`, insertion at a position)
and are related to the two-structure implementation model (`OD`: dict part + `_keys`) by `Rel`.
Core Lean only.
-/
namespace Ioflo.Containers

section
variable {K V : Type} [DecidableEq K]

/-- the keys of an association list, in order -/
def dkeys (m : List (K × V)) : List K := m.map Prod.fst

/-- `m` is the ordered dictionary that the odict object `s` represents: same key order, same lookups,
and both of the object's structures free of duplicates -/
structure Rel (s : OD K V) (m : List (K × V)) : Prop where
  nodupKeys : s.keys.Nodup
  nodupDict : (dkeys s.d).Nodup
  keys : dkeys m = s.keys
  get : ∀ k, dget m k = dget s.d k

/-- the object invariant: `_keys` and the dict part list the same keys, once each -/
structure Inv (s : OD K V) : Prop where
  nodupKeys : s.keys.Nodup
  nodupDict : (dkeys s.d).Nodup
  sync : ∀ k, k ∈ s.keys ↔ k ∈ dkeys s.d

end

/-- what an ordered-dictionary call returns, with returned objects as abstract dictionaries -/
inductive AOut (K V : Type)
  | none | err (e : Err) | val (v : V) | bool (b : Bool) | nat (n : Nat)
  | keys (l : List K) | vals (l : List V) | items (l : List (K × V)) | item (k : K) (v : V)
  | obj (m : List (K × V))

/-- a call with its by-reference argument replaced by the dictionary it represents -/
inductive AOp (K V : Type)
  | setitem (k : K) (v : V) | delitem (k : K) | getitem (k : K) | contains (k : K)
  | get (k : K) (dflt : Option V) | len | keys | values | items
  | append (k : K) (v : V) | clear | copy | create (ps : List (K × V))
  | sift (fields : Option (List K)) | insert (i : Int) (k : K) (v : V)
  | pop (k : K) (dflt : Option V) | popitem | reorder (other : List (K × V)) | reorderBad
  | setdefault (k : K) (dflt : V) | update (ps : List (K × V)) | eq (other : List (K × V))
  | reversed | ior (ps : List (K × V)) | or (ps : List (K × V)) | pickle | pickleLegacy

namespace Spec
variable {K V : Type} [DecidableEq K]

/-- the dictionary built from pairs: later values win, first positions stay -/
def fromPairs (ps : List (K × V)) : List (K × V) := ps.foldl (fun m p => dset m p.1 p.2) []

/-- one call on the reference ordered dictionary -/
def step [DecidableEq V] (m : List (K × V)) : AOp K V → List (K × V) × AOut K V
  | .setitem k v => (dset m k v, .none)
  | .delitem k => if dhas m k then (ddel m k, .none) else (m, .err .KeyError)
  | .getitem k => (m, match dget m k with | some v => .val v | none => .err .KeyError)
  | .contains k => (m, .bool (dhas m k))
  | .get k dflt => (m, match dget m k, dflt with
      | some v, _ => .val v | none, some dv => .val dv | none, none => .none)
  | .len => (m, .nat m.length)
  | .keys => (m, .keys (dkeys m))
  | .values => (m, .vals (m.map Prod.snd))
  | .items => (m, .items m)
  | .append k v => if dhas m k then (m, .err .KeyError) else (m ++ [(k, v)], .none)
  | .clear => ([], .none)
  | .copy => (m, .obj m)
  | .create ps => (ps.foldl (fun m p => if dhas m p.1 then m else m ++ [p]) m, .none)
  | .sift none => (m, .obj m)
  | .sift (some fs) => (m, match rawItems m fs with | .ok l => .obj (fromPairs l) | .error e => .err e)
  | .insert i k v => if dhas m k then (m, .err .KeyError) else (pyInsert m i (k, v), .none)
  | .pop k dflt =>
    match dget m k, dflt with
    | some v, _ => (ddel m k, .val v)
    | none, some dv => (m, .val dv)
    | none, none => (m, .err .KeyError)
  | .popitem =>
    match m.getLast? with
    | some (k, v) => (m.dropLast, .item k v)
    | none => (m, .err .KeyError)
  | .reorder o => (o.foldl (fun m p => ddel m p.1 ++ [p]) m, .none)
  | .reorderBad => (m, .err .ValueError)
  | .setdefault k dflt =>
    match dget m k with
    | some v => (m, .val v)
    | none => (m ++ [(k, dflt)], .val dflt)
  | .update ps => (ps.foldl (fun m p => dset m p.1 p.2) m, .none)
  | .eq o => (m, .bool (m.length == o.length && m.all (fun p => decide (dget o p.1 = some p.2))))
  | .reversed => (m, .keys (dkeys m).reverse)
  | .ior ps => (ps.foldl (fun m p => dset m p.1 p.2) m, .none)
  | .or ps => (m, .obj (ps.foldl (fun m p => dset m p.1 p.2) m))
  | .pickle => (m, .obj m)
  -- protocols 0 and 1 lose an EMPTY dictionary (the object comes back unusable: defect D39f); otherwise equal
  | .pickleLegacy => (m, if m.isEmpty then .err .AttributeError else .obj m)

end Spec

/-! ### the ordered multi-dictionary -/

inductive AMOut (K V : Type)
  | none | err (e : Err) | val (v : V) | bool (b : Bool) | nat (n : Nat)
  | keys (l : List K) | vals (l : List V) | lists (l : List (List V))
  | items (l : List (K × V)) | listitems (l : List (K × List V))
  | item (k : K) (v : V) | listitem (k : K) (l : List V) | list (l : List V)
  | obj (m : List (K × List V))

inductive AMOp (K V : Type)
  | setitem (k : K) (v : V) | append (k : K) (v : V) | getitem (k : K) | contains (k : K)
  | delitem (k : K) | len | keys | clear
  | values | listvalues | allvalues | items | listitems | allitems
  | copy | get (k : K) (dflt : Option V) (index : Int) | getlist (k : K)
  | replace (k : K) (v : V) | setdefault (k : K) (dflt : V)
  | pop (k : K) (dflt : Option V) (index : Int) | poplist (k : K) (dflt : Option V)
  | popitem (last : Bool) (index : Int) | poplistitem (last : Bool)
  | fromkeys (seq : List K) (dflt : V) | update (ps : List (K × V)) | updateFrom (other : List (K × List V))
  | create (ps : List (K × V)) | eq (other : List (K × List V))
  | reversed | ior (ps : List (K × V)) | or (ps : List (K × V))

namespace MSpec
variable {K V : Type} [DecidableEq K]

/-- add one value under a key: at the end of the key's list, a new key at the end of the dictionary -/
def add (m : List (K × List V)) (k : K) (v : V) : List (K × List V) :=
  match dget m k with
  | some l => dset m k (l ++ [v])
  | none => m ++ [(k, [v])]

def addAll (m : List (K × List V)) (ps : List (K × V)) : List (K × List V) :=
  ps.foldl (fun m p => add m p.1 p.2) m

/-- every (key, value) stored, grouped by key in dictionary order, oldest first -/
def all (m : List (K × List V)) : List (K × V) := m.flatMap (fun p => p.2.map (fun v => (p.1, v)))

/-- every value list is non-empty -/
def NonEmpty (m : List (K × List V)) : Prop := ∀ p ∈ m, p.2 ≠ []

/-- the newest value of every key (defined on dictionaries whose lists are non-empty) -/
def newestAll : List (K × List V) → Option (List (K × V))
  | [] => some []
  | (k, l) :: t =>
    match l.getLast?, newestAll t with
    | some v, some r => some ((k, v) :: r)
    | _, _ => none

def step [DecidableEq V] (m : List (K × List V)) : AMOp K V → List (K × List V) × AMOut K V
  | .setitem k v => (add m k v, .none)
  | .append k v => (add m k v, .none)
  | .getitem k => (m, match dget m k with
      | some l => (match l.getLast? with | some v => .val v | none => .err .IndexError)
      | none => .err .KeyError)
  | .contains k => (m, .bool (dhas m k))
  | .delitem k => if dhas m k then (ddel m k, .none) else (m, .err .KeyError)
  | .len => (m, .nat m.length)
  | .keys => (m, .keys (dkeys m))
  | .clear => ([], .none)
  | .values => (m, match newestAll m with | some l => .vals (l.map Prod.snd) | none => .err .IndexError)
  | .listvalues => (m, .lists (m.map Prod.snd))
  | .allvalues => (m, .vals ((all m).map Prod.snd))
  | .items => (m, match newestAll m with | some l => .items l | none => .err .IndexError)
  | .listitems => (m, .listitems m)
  | .allitems => (m, .items (all m))
  | .copy => (m, .obj m)
  | .get k dflt i => (m, match (dget m k).bind (pyIndex · i), dflt with
      | some v, _ => .val v | none, some dv => .val dv | none, none => .none)
  | .getlist k => (m, .list (match dget m k with | some l => l | none => []))
  | .replace k v => (dset m k [v], .none)
  | .setdefault k dflt =>
    match (dget m k).bind List.getLast? with
    | some v => (m, .val v)
    | none => (add m k dflt, .val dflt)
  | .pop k dflt i =>
    match dget m k, dflt with
    | some l, _ => (match pyIndex l i with | some v => (ddel m k, .val v) | none => (m, .err .IndexError))
    | none, some dv => (m, .val dv)
    | none, none => (m, .err .KeyError)
  | .poplist k dflt =>
    match dget m k, dflt with
    | some l, _ => (ddel m k, .list l)
    | none, some dv => (m, .val dv)
    | none, none => (m, .err .KeyError)
  | .popitem last i =>
    match (if last then m.getLast? else m.head?) with
    | some (k, l) => (match pyIndex l i with
        | some v => (if last then m.dropLast else m.tail, .item k v)
        | none => (m, .err .IndexError))
    | none => (m, .err .KeyError)
  | .poplistitem last =>
    match (if last then m.getLast? else m.head?) with
    | some (k, l) => (if last then m.dropLast else m.tail, .listitem k l)
    | none => (m, .err .KeyError)
  | .fromkeys seq dflt => (m, .obj (addAll [] (seq.map (fun k => (k, dflt)))))
  | .update ps => (addAll m ps, .none)
  | .updateFrom o => (addAll m (all o), .none)
  | .create ps => (ps.foldl (fun m p => if dhas m p.1 then m else add m p.1 p.2) m, .none)
  | .eq o => (m, .bool (m.length == o.length && m.all (fun p => decide (dget o p.1 = some p.2))))
  | .reversed => (m, .keys (dkeys m).reverse)
  | .ior ps => (addAll m ps, .none)
  | .or ps => (m, .obj (addAll m ps))

end MSpec

/-! ### the ordered set -/
namespace SSpec
variable {K : Type} [DecidableEq K]

/-- first occurrences, in order -/
def dedup : List K → List K
  | [] => []
  | a :: t => a :: (dedup t).filter (· ≠ a)

/-- one call on the reference ordered set: a duplicate-free list; every operation is a filter of the
operands, new elements go to the end.  (An intersection is ordered by the second operand: that is the
order `collections.abc.Set.__and__` produces.) -/
def step (l : List K) : SOp K → List K × SOut K
  | .add k => (if k ∈ l then l else l ++ [k], .none)
  | .discard k => (l.filter (· ≠ k), .none)
  | .remove k => if k ∈ l then (l.filter (· ≠ k), .none) else (l, .err .KeyError)
  | .pop true => (match l.getLast? with | some k => (l.dropLast, .key k) | none => (l, .err .KeyError))
  | .pop false => (match l with | k :: t => (t, .key k) | [] => (l, .err .KeyError))
  | .clear => ([], .none)
  | .contains k => (l, .bool (k ∈ l))
  | .len => (l, .nat l.length)
  | .iter => (l, .keys l)
  | .reversed => (l, .keys l.reverse)
  | .or o => (l, .obj (l ++ (dedup o.elems).filter (· ∉ l)))
  | .and o => (l, .obj (dedup (o.elems.filter (· ∈ l))))
  | .sub o => (l, .obj (l.filter (· ∉ o.elems)))
  | .rsub o => (l, .obj (dedup (o.elems.filter (· ∉ l))))
  | .xor o => (l, .obj (l.filter (· ∉ o.elems) ++ dedup (o.elems.filter (· ∉ l))))
  | .ior o => (l ++ (dedup o.elems).filter (· ∉ l), .none)
  | .iand o => (l.filter (· ∈ o.elems), .none)
  | .ixor o => (l.filter (· ∉ o.elems) ++ dedup (o.elems.filter (· ∉ l)), .none)
  | .isub o => (l.filter (· ∉ o.elems), .none)
  | .ixorSelf => ([], .none)
  | .isubSelf => ([], .none)
  | .isdisjoint o => (l, .bool (o.elems.all (· ∉ l)))
  | .le o => (l, .bool (l.all (· ∈ o)))
  | .lt o => (l, .bool (l.length < o.length && l.all (· ∈ o)))
  | .ge o => (l, .bool (o.all (· ∈ l)))
  | .gt o => (l, .bool (o.length < l.length && o.all (· ∈ l)))
  | .eq (.set o) => (l, .bool (l = o))
  | .eq (.list o) => (l, .bool (l.all (· ∈ o) && o.all (· ∈ l)))

end SSpec

end Ioflo.Containers
