/-
Model of ioflo/aid/checking.py  (crc16, crc64).

Transcribed statement by statement.  Python's unbounded ints masked with
`& 0xffff` / `& 0xffffffff` after every shift are `BitVec 16` / `BitVec 32`
registers; `byte & 0x00ff` is a `BitVec 8`.  No Mathlib import (driver links it).
-/
namespace Ioflo.Crc

/-! ### crc16 -/

/-- One pass of the inner `while i < 8` loop body of `crc16`. -/
def bit16 (crc : BitVec 16) (byte : BitVec 8) : BitVec 16 × BitVec 8 :=
  let crcbit := crc.msb            -- crc & 0x8000
  let databit := byte.msb          -- byte & 0x80
  let crc := crc <<< 1             -- (crc << 1) & 0xffff
  let crc := if crcbit != databit then crc ^^^ 0x1021#16 else crc
  (crc, byte <<< 1)

/-- `k` passes of the inner loop. -/
def bits16 : Nat → BitVec 16 → BitVec 8 → BitVec 16
  | 0, crc, _ => crc
  | k+1, crc, byte => let (c, b) := bit16 crc byte; bits16 k c b

/-- The body of `for element in inpkt`. -/
def byte16 (crc : BitVec 16) (byte : BitVec 8) : BitVec 16 := bits16 8 crc byte

/-- `crc16(inpkt)` as the 16-bit number that is then packed big endian. -/
def crc16 (inpkt : List (BitVec 8)) : BitVec 16 :=
  (inpkt.foldl byte16 0xffff#16) ^^^ 0xffff#16

/-! ### crc64 (two 32-bit halves, exactly as the code keeps them) -/

def bit64 (top bot : BitVec 32) (byte : BitVec 8) : BitVec 32 × BitVec 32 × BitVec 8 :=
  let topbit := top.msb
  let databit := byte.msb
  let top := top <<< 1
  let botbit := bot.msb
  let top := top ||| (if botbit then 1#32 else 0#32)
  let bot := bot <<< 1
  let (top, bot) :=
    if topbit != databit then (top ^^^ 0x42f0e1eb#32, bot ^^^ 0xa9ea3693#32) else (top, bot)
  (top, bot, byte <<< 1)

def bits64 : Nat → BitVec 32 → BitVec 32 → BitVec 8 → BitVec 32 × BitVec 32
  | 0, top, bot, _ => (top, bot)
  | k+1, top, bot, byte => let (t, b, y) := bit64 top bot byte; bits64 k t b y

def byte64 (s : BitVec 32 × BitVec 32) (byte : BitVec 8) : BitVec 32 × BitVec 32 :=
  bits64 8 s.1 s.2 byte

/-- `crc64(inpkt)` = `(crctop, crcbot)`. -/
def crc64 (inpkt : List (BitVec 8)) : BitVec 32 × BitVec 32 :=
  let s := inpkt.foldl byte64 (0xffffffff#32, 0xffffffff#32)
  (s.1 ^^^ 0xffffffff#32, s.2 ^^^ 0xffffffff#32)

/-! ### Reference: the catalogue's table-driven MSB-first CRC
(CRC-16/GENIBUS: width 16 poly 0x1021 init 0xffff refin/refout false xorout 0xffff;
 CRC-64/WE: width 64 poly 0x42f0e1eba9ea3693 init/xorout all ones, not reflected) -/

/-- One shift of the pure LFSR (no data). -/
def lfsr (w : Nat) (poly : BitVec w) (c : BitVec w) : BitVec w :=
  if c.msb then (c <<< 1) ^^^ poly else c <<< 1

def lfsrN (w : Nat) (poly : BitVec w) : Nat → BitVec w → BitVec w
  | 0, c => c
  | k+1, c => lfsrN w poly k (lfsr w poly c)

/-- Table entry for index `i`: eight shifts of `i` placed in the top byte. -/
def tableEntry (w : Nat) (poly : BitVec w) (i : BitVec 8) : BitVec w :=
  lfsrN w poly 8 (i.zeroExtend w <<< (w - 8))

/-- Table-driven update for one byte:
`crc = (crc << 8) ^ table[(crc >> (w-8)) ^ byte]`. -/
def tableByte (w : Nat) (poly : BitVec w) (crc : BitVec w) (byte : BitVec 8) : BitVec w :=
  (crc <<< 8) ^^^ tableEntry w poly ((crc >>> (w - 8)).truncate 8 ^^^ byte)

def refCrc (w : Nat) (poly init xorout : BitVec w) (msg : List (BitVec 8)) : BitVec w :=
  (msg.foldl (tableByte w poly) init) ^^^ xorout

def refCrc16 := refCrc 16 0x1021#16 0xffff#16 0xffff#16
def refCrc64 := refCrc 64 0x42f0e1eba9ea3693#64 0xffffffffffffffff#64 0xffffffffffffffff#64

end Ioflo.Crc
