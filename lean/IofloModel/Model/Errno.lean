/-
Model of the error-classification ladders of ioflo's transports (C25).

Transcribed from the `except` ladders of
  ioflo/aio/tcp/clienting.py  Client.receive/send, ClientTls.receive/send, ClientTls.handshake, Client.accept
  ioflo/aio/tcp/serving.py    Incomer.receive/send, IncomerTls.receive/send, IncomerTls.handshake, Acceptor.accept
  ioflo/aio/udp/udping.py     SocketUdpNb.receive/send
  ioflo/aio/proto/stacking.py GramStack._serviceOneTxPkt / _serviceOneReceived

An exception is (`cls`, `arg0`): its class — what the `except` clauses and `isinstance` see — and
`ex.args[0]` (= `ex.errno`), an integer.  The ladders compare `ex.args[0]` with tuples whose elements
are integers … and, in the TLS ladders of the unrepaired code, the *class* `ssl.SSLEOFError`; a tuple
element is therefore an `Item`, so that the confusion (D26) is expressible: an int never equals a class.

Two versions: `orig` = the code as found (D13: `==` instead of `in` in `GramStack._serviceOneReceived`;
D26: `ssl.SSLEOFError` listed among the errnos; D26b: would-block recognised by number only),
`fixed` = with fixes/D13-*.patch and fixes/D26-*.patch, `fixed2` = also with fixes/D26b-*.patch.
Core Lean only.
-/
namespace Ioflo.Errno

/-! ### numbers (Linux `errno`, OpenSSL error codes); checked against Python by the correspondence run -/
def EAGAIN : Nat := 11
def EWOULDBLOCK : Nat := 11
def ECONNRESET : Nat := 104
def ENETRESET : Nat := 102
def ENETUNREACH : Nat := 101
def EHOSTUNREACH : Nat := 113
def ENETDOWN : Nat := 100
def EHOSTDOWN : Nat := 112
def ETIMEDOUT : Nat := 110
def ECONNREFUSED : Nat := 111
def ETIME : Nat := 62
def ECONNABORTED : Nat := 103
def EISCONN : Nat := 106
def EINVAL : Nat := 22
def SSL_ERROR_WANT_READ : Nat := 2
def SSL_ERROR_WANT_WRITE : Nat := 3
def SSL_ERROR_ZERO_RETURN : Nat := 6
def SSL_ERROR_EOF : Nat := 8

def constant? : String → Option Nat
  | "EAGAIN" => some EAGAIN | "EWOULDBLOCK" => some EWOULDBLOCK | "ECONNRESET" => some ECONNRESET
  | "ENETRESET" => some ENETRESET | "ENETUNREACH" => some ENETUNREACH | "EHOSTUNREACH" => some EHOSTUNREACH
  | "ENETDOWN" => some ENETDOWN | "EHOSTDOWN" => some EHOSTDOWN | "ETIMEDOUT" => some ETIMEDOUT
  | "ECONNREFUSED" => some ECONNREFUSED | "ETIME" => some ETIME | "ECONNABORTED" => some ECONNABORTED
  | "EISCONN" => some EISCONN | "EINVAL" => some EINVAL
  | "SSL_ERROR_WANT_READ" => some SSL_ERROR_WANT_READ | "SSL_ERROR_WANT_WRITE" => some SSL_ERROR_WANT_WRITE
  | "SSL_ERROR_ZERO_RETURN" => some SSL_ERROR_ZERO_RETURN | "SSL_ERROR_EOF" => some SSL_ERROR_EOF
  | _ => none

/-! ### exceptions -/

inductive ExcClass
  | osError        -- OSError / socket.error and its non-ssl subclasses (ConnectionResetError, …)
  | sslError       -- ssl.SSLError proper (SSL_ERROR_SSL, SSL_ERROR_SYSCALL, …)
  | sslWantRead    -- ssl.SSLWantReadError
  | sslWantWrite   -- ssl.SSLWantWriteError
  | sslEof         -- ssl.SSLEOFError
  | sslZeroReturn  -- ssl.SSLZeroReturnError
  | notOs          -- any exception that is not an OSError (ValueError, …)
  deriving DecidableEq, Repr

/-- `isinstance(ex, socket.error)` (socket.error is OSError; ssl.SSLError is a subclass) -/
def ExcClass.isOs : ExcClass → Bool
  | .notOs => false
  | _ => true

/-- `isinstance(ex, ssl.SSLError)` -/
def ExcClass.isSsl : ExcClass → Bool
  | .sslError | .sslWantRead | .sslWantWrite | .sslEof | .sslZeroReturn => true
  | _ => false

structure Err where
  cls : ExcClass
  /-- `ex.args[0]`, equal to `ex.errno` -/
  arg0 : Nat
  deriving DecidableEq, Repr

/-- element of a tuple literal in a ladder -/
inductive Item
  | num (n : Nat)
  | cls (c : ExcClass)
  deriving DecidableEq, Repr

/-- Python `a == item` for an int `a` -/
def Item.eqInt (a : Nat) : Item → Bool
  | .num n => a == n
  | .cls _ => false

/-- Python `a in (item, …)` for an int `a` -/
def inTuple (a : Nat) (t : List Item) : Bool := t.any (Item.eqInt a)

/-! ### the sites -/

inductive Site
  | clientRecv | clientSend | clientTlsRecv | clientTlsSend
  | incomerRecv | incomerSend | incomerTlsRecv | incomerTlsSend
  | clientTlsHandshake | incomerTlsHandshake
  | acceptorAccept | udpRecv | udpSend | gramSend | gramRecv
  deriving DecidableEq, Repr

def Site.all : List Site :=
  [.clientRecv, .clientSend, .clientTlsRecv, .clientTlsSend, .incomerRecv, .incomerSend,
   .incomerTlsRecv, .incomerTlsSend, .clientTlsHandshake, .incomerTlsHandshake,
   .acceptorAccept, .udpRecv, .udpSend, .gramSend, .gramRecv]

/-- `receive` / `send` of a stream transport -/
def Site.isData : Site → Bool
  | .clientRecv | .clientSend | .clientTlsRecv | .clientTlsSend
  | .incomerRecv | .incomerSend | .incomerTlsRecv | .incomerTlsSend => true
  | _ => false

def Site.isHandshake : Site → Bool
  | .clientTlsHandshake | .incomerTlsHandshake => true
  | _ => false

/-- a stream-transport site (data operation or handshake) -/
def Site.isStream (s : Site) : Bool := s.isData || s.isHandshake

def Site.isTls : Site → Bool
  | .clientTlsRecv | .clientTlsSend | .incomerTlsRecv | .incomerTlsSend
  | .clientTlsHandshake | .incomerTlsHandshake => true
  | _ => false

def Site.isSend : Site → Bool
  | .clientSend | .clientTlsSend | .incomerSend | .incomerTlsSend | .udpSend | .gramSend => true
  | _ => false

/-- `orig` = as found; `fixed` = with D13 and D26; `fixed2` = also with D26b
(`isinstance(ex, ssl.SSLError) and ex.args[0] in (WANT_READ, WANT_WRITE)`) -/
inductive Version | orig | fixed | fixed2
  deriving DecidableEq, Repr

inductive Outcome
  | wouldBlock   -- the "nothing yet" value is returned; nothing else happens
  | cutoff       -- `.cutoff = True`, empty data / 0 returned
  | retry        -- datagram stack: no exception; packet kept for later / "no data"
  | closeRaise   -- handshake: `shutclose()` and re-raise
  | raise        -- (re-)raised to the caller; nothing else happens
  deriving DecidableEq, Repr

/-! ### the tuples, as written in the code -/

/-- `(errno.EAGAIN, errno.EWOULDBLOCK)` -/
def plainBlock : List Item := [.num EAGAIN, .num EWOULDBLOCK]
/-- `(ssl.SSL_ERROR_WANT_READ, ssl.SSL_ERROR_WANT_WRITE)` -/
def tlsBlock : List Item := [.num SSL_ERROR_WANT_READ, .num SSL_ERROR_WANT_WRITE]
/-- the eight errnos of the stream ladders, in the code's order -/
def streamLoss : List Item :=
  [.num ECONNRESET, .num ENETRESET, .num ENETUNREACH, .num EHOSTUNREACH,
   .num ENETDOWN, .num EHOSTDOWN, .num ETIMEDOUT, .num ECONNREFUSED]
/-- the TLS ladders of the code as found: the eight errnos and then the class `ssl.SSLEOFError` -/
def tlsLossOrig : List Item := streamLoss ++ [.cls .sslEof]
/-- the nine errnos of the GramStack ladders, in the code's order -/
def gramTransient : List Item :=
  [.num ECONNREFUSED, .num ECONNRESET, .num ENETRESET, .num ENETUNREACH, .num EHOSTUNREACH,
   .num ENETDOWN, .num EHOSTDOWN, .num ETIMEDOUT, .num ETIME]

/-- `except socket.error as ex:` ladder of a plain `receive` / `send`:
```
if ex.args[0] in (EAGAIN, EWOULDBLOCK): …            # return None / result = 0
elif ex.args[0] in (ECONNRESET, …, ECONNREFUSED): …  # cutoff
else: raise
``` -/
def plainLadder (e : Err) : Outcome :=
  if !e.cls.isOs then .raise                           -- not caught by `except socket.error`
  else if inTuple e.arg0 plainBlock then .wouldBlock
  else if inTuple e.arg0 streamLoss then .cutoff
  else .raise

/-- the same ladder in `ClientTls` / `IncomerTls`.  As found the would-block test looks at the number in
`ex.args[0]` only (D26b: an `OSError` with errno 2 or 3 passes for want-read / want-write); with
fixes/D26b it also requires an `ssl.SSLError`. -/
def tlsLadder (v : Version) (e : Err) : Outcome :=
  if !e.cls.isOs then .raise
  else if (match v with
           | .fixed2 => e.cls.isSsl && inTuple e.arg0 tlsBlock
           | _ => inTuple e.arg0 tlsBlock) then .wouldBlock
  else match v with
    | .orig => if inTuple e.arg0 tlsLossOrig then .cutoff else .raise
    -- fixes/D26: `elif isinstance(ex, ssl.SSLEOFError) or ex.args[0] in (…eight errnos…):`
    | _ => if e.cls = .sslEof || inTuple e.arg0 streamLoss then .cutoff else .raise

/-- `handshake()`:
```
except ssl.SSLError as ex:
    if ex.errno in (SSL_ERROR_WANT_READ, SSL_ERROR_WANT_WRITE): return False
    elif ex.errno in (SSL_ERROR_EOF, ): self.shutclose(); raise
    else: self.shutclose(); raise
except OSError as ex: self.shutclose(); … raise
except Exception as ex: self.shutclose(); raise
``` -/
def handshakeLadder (e : Err) : Outcome :=
  if e.cls.isSsl then
    if inTuple e.arg0 tlsBlock then .wouldBlock
    else if inTuple e.arg0 [.num SSL_ERROR_EOF] then .closeRaise
    else .closeRaise
  else .closeRaise

/-- `Acceptor.accept`: `if ex.errno in (EAGAIN, EWOULDBLOCK): return (None, None)` else `raise` -/
def acceptLadder (e : Err) : Outcome :=
  if !e.cls.isOs then .raise
  else if inTuple e.arg0 plainBlock then .wouldBlock
  else .raise

/-- `SocketUdpNb.receive`: EAGAIN/EWOULDBLOCK → `(b'', None)`, else `raise` -/
def udpRecvLadder (e : Err) : Outcome := acceptLadder e

/-- `SocketUdpNb.send`: `result = 0; raise` -/
def udpSendLadder (_ : Err) : Outcome := .raise

/-- `GramStack._serviceOneTxPkt` around `self.handler.send` (which re-raises everything) -/
def gramSendLadder (e : Err) : Outcome :=
  match udpSendLadder e with
  | .raise =>
    if !e.cls.isOs then .raise
    else if inTuple e.arg0 gramTransient then .retry   -- `laters.append(...); blockeds.append(ha)`
    else .raise
  | o => o

/-- `GramStack._serviceOneReceived` around `self.handler.receive`.
As found: `if (ex.args[0] == (ECONNREFUSED, …))` — an int is never equal to a tuple (D13). -/
def gramRecvLadder (v : Version) (e : Err) : Outcome :=
  match udpRecvLadder e with
  | .raise =>
    if !e.cls.isOs then .raise
    else match v with
      | .orig => .raise                                 -- `int == tuple` is False: `else: raise`
      | _ => if inTuple e.arg0 gramTransient then .retry else .raise
  | o => o

def classify (v : Version) : Site → Err → Outcome
  | .clientRecv, e => plainLadder e
  | .clientSend, e => plainLadder e
  | .incomerRecv, e => plainLadder e
  | .incomerSend, e => plainLadder e
  | .clientTlsRecv, e => tlsLadder v e
  | .clientTlsSend, e => tlsLadder v e
  | .incomerTlsRecv, e => tlsLadder v e
  | .incomerTlsSend, e => tlsLadder v e
  | .clientTlsHandshake, e => handshakeLadder e
  | .incomerTlsHandshake, e => handshakeLadder e
  | .acceptorAccept, e => acceptLadder e
  | .udpRecv, e => udpRecvLadder e
  | .udpSend, e => udpSendLadder e
  | .gramSend, e => gramSendLadder e
  | .gramRecv, e => gramRecvLadder v e

/-! ### effect on the transport -/

/-- what the caller of the operation gets -/
inductive Ret
  | noneVal      -- `None`            (receive: nothing yet)
  | emptyBytes   -- `bytes()`         (receive that cut off)
  | zero         -- `0`               (send: nothing sent)
  | falseVal     -- `False`           (handshake not done; GramStack: no data)
  | nonePair     -- `(None, None)`    (accept: nobody there)
  | emptyPair    -- `(b'', None)`     (SocketUdpNb.receive: nothing)
  | kept         -- datagram send: no exception, packet queued again
  | raised
  deriving DecidableEq, Repr

/-- the "nothing yet" value of each operation -/
def blockRet : Site → Ret
  | .clientRecv | .clientTlsRecv | .incomerRecv | .incomerTlsRecv => .noneVal
  | .clientSend | .clientTlsSend | .incomerSend | .incomerTlsSend => .zero
  | .clientTlsHandshake | .incomerTlsHandshake => .falseVal
  | .acceptorAccept => .nonePair
  | .udpRecv => .emptyPair
  | .gramRecv => .falseVal
  | .udpSend | .gramSend => .raised          -- not reachable: these ladders have no would-block branch

/-- what a cut-off operation returns: `bytes()` from receive, `0` from send -/
def cutRet (site : Site) : Ret := if site.isSend then .zero else .emptyBytes

/-- the part of the transport's state the ladders can touch -/
structure St where
  cutoff : Bool
  /-- `.cs is not None` (and `.connected` where it exists) -/
  sockOpen : Bool
  deriving DecidableEq, Repr

def effect (v : Version) (site : Site) (s : St) (e : Err) : St × Ret :=
  match classify v site e with
  | .wouldBlock => (s, blockRet site)
  | .cutoff => ({ s with cutoff := true }, cutRet site)
  | .retry => (s, if site.isSend then .kept else .falseVal)
  | .closeRaise => ({ s with sockOpen := false }, .raised)
  | .raise => (s, .raised)

/-! ### the datagram stack's transmit service entry points

`GramStack.serviceTxPkts` / `serviceTxPktsOnce`, and `Stack.serviceAllTx` / `serviceAllTxOnce` / `serviceAll`
which reach them (`.txMsgs` empty, nothing to receive).  A packet is (id, destination); the script holds
the answer of each `sendto` call (`none` = sent). -/

abbrev Pkt := Nat × Nat

inductive GramEntry | txPkts | txPktsOnce | allTx | allTxOnce | all
  deriving DecidableEq, Repr

inductive GramRes
  | ok (sent queue : List Pkt)
  | raised (sent queue : List Pkt)
  deriving DecidableEq, Repr

/-- `_serviceOneTxPkt` for the popped packet `p`: `Sum.inl` = went on (new sent, laters, blockeds, script),
`Sum.inr` = the error was re-raised -/
def gramOne (v : Version) (p : Pkt) (script : List (Option Err)) (sent laters : List Pkt) (bl : List Nat) :
    Option (List Pkt × List Pkt × List Nat × List (Option Err)) :=
  if bl.contains p.2 then some (sent, laters ++ [p], bl, script)        -- `laters.append((pkt, ha)); return False`
  else match script.headD none with
    | none => some (sent ++ [p], laters, bl, script.tail)               -- `handler.send` returned
    | some e =>
      match classify v .gramSend e with
      | .retry => some (sent, laters ++ [p], bl ++ [p.2], script.tail)  -- `laters.append(...); blockeds.append(ha)`
      | _ => none                                                       -- `raise`

/-- `while self.txPkts: self._serviceOneTxPkt(laters, blockeds)` then `while laters: self.txPkts.append(...)`;
an exception leaves the loop with the popped packet and the local `laters` gone -/
def gramLoop (v : Version) : List Pkt → List (Option Err) → List Pkt → List Pkt → List Nat → GramRes
  | [], _, sent, laters, _ => .ok sent laters
  | p :: rest, script, sent, laters, bl =>
    match gramOne v p script sent laters bl with
    | some (sent', laters', bl', script') => gramLoop v rest script' sent' laters' bl'
    | none => .raised sent rest

/-- `serviceTxPktsOnce`: `if self.txPkts: self._serviceOneTxPkt(laters, [])` then put `laters` back -/
def gramOnce (v : Version) (q : List Pkt) (script : List (Option Err)) : GramRes :=
  match q with
  | [] => .ok [] []
  | p :: rest =>
    match gramOne v p script [] [] [] with
    | some (sent', laters', _, _) => .ok sent' (rest ++ laters')
    | none => .raised [] rest

/-- every transmit entry point of the stack, on a queue `q` of packed packets -/
def gramService (v : Version) (entry : GramEntry) (q : List Pkt) (script : List (Option Err)) : GramRes :=
  match entry with
  | .txPkts | .allTx | .all => gramLoop v q script [] [] []
  | .txPktsOnce | .allTxOnce => gramOnce v q script

/-- the `sendto` answers left over after one pass (an answer is consumed by every call, also by the one
that raises) -/
def gramLoopRest (v : Version) : List Pkt → List (Option Err) → List Nat → List (Option Err)
  | [], sc, _ => sc
  | p :: rest, sc, bl =>
    match gramOne v p sc [] [] bl with
    | some (_, _, bl', sc') => gramLoopRest v rest sc' bl'
    | none => sc.tail

def gramRest (v : Version) (entry : GramEntry) (q : List Pkt) (script : List (Option Err)) : List (Option Err) :=
  match entry with
  | .txPkts | .allTx | .all => gramLoopRest v q script []
  | .txPktsOnce | .allTxOnce =>
    match q with
    | [] => script
    | p :: _ =>
      match gramOne v p script [] [] [] with
      | some (_, _, _, sc') => sc'
      | none => script.tail

def GramRes.queue : GramRes → List Pkt
  | .ok _ q => q
  | .raised _ q => q

def GramRes.sent : GramRes → List Pkt
  | .ok s _ => s
  | .raised s _ => s

def GramRes.isOk : GramRes → Bool
  | .ok _ _ => true
  | .raised _ _ => false

/-- several service passes on one stack: `laters` and `blockeds` are locals of each pass, so every pass starts
with no destination blocked; the queue and the remaining answers carry over.  Each result comes with the
number of answers that were still scripted when the pass began (0 = every `sendto` of this pass succeeds). -/
def gramPasses (v : Version) : List GramEntry → List Pkt → List (Option Err) → List (GramRes × Nat)
  | [], _, _ => []
  | en :: rest, q, sc =>
    (gramService v en q sc, sc.length) ::
      gramPasses v rest (gramService v en q sc).queue (gramRest v en q sc)

/-! ### a stream client through close / re-open cycles

`Client` / `ClientTls`: `close()` (= `shutclose`) drops `.cs`; `reopen()` + `connect()` bring a new socket.
Every `receive` / `send` must go to the socket that is current, with the ladder of its class applied to that
socket's answer.  Sockets are numbered in the order they are opened. -/

inductive SessOp
  | io (isSend : Bool) (ans : Option Err)    -- `receive()` / `send(data)`; `ans` = what the current socket answers
  | close
  | reopen
  deriving Repr

inductive SessOut
  | done (sock : Nat)                         -- the call went to socket `sock` and returned data / a count
  | classified (sock : Nat) (r : Ret) (cutoff : Bool)   -- … and failed there: the ladder's outcome
  | noSocket                                  -- `.cs` is None: AttributeError
  | closed
  | opened (sock : Nat)
  deriving DecidableEq, Repr

structure Sess where
  tls : Bool
  cur : Option Nat := none
  next : Nat := 0
  cutoff : Bool := false
  deriving Repr

def sessSite (tls isSend : Bool) : Site :=
  match tls, isSend with
  | false, false => .clientRecv | false, true => .clientSend
  | true, false => .clientTlsRecv | true, true => .clientTlsSend

def sessStep (v : Version) (s : Sess) : SessOp → Sess × SessOut
  | .io isSend ans =>
    match s.cur with
    | none => (s, .noSocket)
    | some k =>
      match ans with
      | none => (s, .done k)
      | some e =>
        let r := effect v (sessSite s.tls isSend) ⟨s.cutoff, true⟩ e
        ({ s with cutoff := r.1.cutoff }, .classified k r.2 r.1.cutoff)
  | .close => ({ s with cur := none }, .closed)
  -- `open()`: `self.cutoff = False`, a new socket
  | .reopen => ({ s with cur := some s.next, next := s.next + 1, cutoff := false }, .opened s.next)

def sessRun (v : Version) (s : Sess) : List SessOp → List SessOut
  | [] => []
  | op :: ops => (sessStep v s op).2 :: sessRun v (sessStep v s op).1 ops

/-! ### `Client.accept`: `connect_ex` returns a code instead of raising -/

inductive Connect
  | accepted      -- `result in [0, EISCONN]`: `.accepted = True; .cutoff = False; return True`
  | reopenRetry   -- `result in (EINVAL, ECONNREFUSED)`: `self.reopen(); return False`
  | retry         -- anything else: `return False`
  deriving DecidableEq, Repr

def connect (code : Nat) : Connect :=
  if inTuple code [.num 0, .num EISCONN] then .accepted
  else if inTuple code [.num EINVAL, .num ECONNREFUSED] then .reopenRetry
  else .retry

end Ioflo.Errno
