/-
Model of `ioflo/aio/proto/exchanging.py` (`Exchange`, `Exchanger`, `Exchangent`) together with the
two collaborators its timing depends on: `ioflo/aid/timing.py` `StoreTimer` (`__init__`, `restart`,
`expired`) and `Stamper.advance`, and the stack's `transmit` (a queue of messages).

Time is exact: `Int` ticks of 1/1024 s (on that grid CPython's float arithmetic is exact as well,
so the correspondence demands equality).  A message / packet object is a `Nat` id.
Transcribed statement by statement; an exception is a constructor of the result and — as in
Python — does not undo the assignments made before it was raised.

`Variant.asIs`: the constructor of the unchanged tree (parameter spelt `redoTimout`, body reads
`redoTimeout`: passing it raises `NameError`).  `Variant.repaired`: after
`fixes/D22-exchange-redotimeout-nameerror.patch`.  Core Lean only.
-/
namespace Ioflo.Exchange

inductive Variant where
  | asIs
  | repaired
deriving DecidableEq, Repr

inductive Kind where
  | exchange
  | exchanger
  | exchangent
deriving DecidableEq, Repr

inductive Err where
  | nameError
  | valueError
  | noExchange      -- harness-level: a call before a successful `create`
deriving DecidableEq, Repr

/-- class attribute `Timeout` in ticks: 2.0 s, `Exchangent` 0.5 s -/
def Kind.defTimeout : Kind → Int
  | .exchangent => 512
  | _ => 2048

/-- class attribute `RedoTimeout` in ticks: 0.5 s.  `Exchangent.RedoTimeout` is 0.1 s, which is not on
the dyadic grid: the harness exercises `Exchangent` through a subclass with `RedoTimeout = 0.125`. -/
def Kind.defRedo : Kind → Int
  | .exchangent => 128
  | _ => 512

def iabs (x : Int) : Int := if x < 0 then -x else x

/-- `timing.StoreTimer` -/
structure Timer where
  start : Int
  duration : Int
  stop : Int
deriving DecidableEq, Repr

/-- `StoreTimer(store, duration)` = `restart(start=store.stamp, duration=duration)`:
`start = abs(start)`, `duration = abs(duration)`, `stop = start + duration` -/
def Timer.new (stamp duration : Int) : Timer :=
  ⟨iabs stamp, iabs duration, iabs stamp + iabs duration⟩

/-- `restart()` without arguments: `start = store.stamp`, duration kept -/
def Timer.restart (t : Timer) (stamp : Int) : Timer :=
  ⟨stamp, t.duration, stamp + t.duration⟩

/-- `expired`: `store.stamp >= stop` -/
def Timer.expired (t : Timer) (stamp : Int) : Bool := decide (t.stop ≤ stamp)

structure Exch where
  kind : Kind
  timeout : Int
  timer : Timer
  redoTimeout : Int
  redoTimer : Timer
  tx : Option Nat
  rx : Option Nat
  done : Bool
  failed : Bool
  acked : Bool
deriving DecidableEq, Repr

/-- `Exchange.__init__(stack, device=…, timeout=…, redoTimeout=…, tx=…, rx=…)` at time `stamp` -/
def create (v : Variant) (k : Kind) (stamp : Int) (timeout redo : Option Int) (tx rx : Option Nat) :
    Except Err Exch :=
  let t := match timeout with | some x => x | none => k.defTimeout
  match v, redo with
  | .asIs, some _ => .error .nameError      -- `redoTimeout if redoTimout is not None else …`
  | _, _ =>
    let r := match redo with | some x => x | none => k.defRedo
    .ok { kind := k, timeout := t, timer := Timer.new stamp t, redoTimeout := r,
          redoTimer := Timer.new stamp r, tx := tx, rx := rx,
          done := false, failed := false, acked := false }

/-- what a call did: messages it put on the stack's queue, exception that escaped -/
structure Out where
  queued : List Nat
  err : Option Err
deriving DecidableEq, Repr

/-- `send(tx)`: `prepSend(tx)`; `transmit(pkt=tx)` → `stack.transmit(self.tx)` -/
def send (e : Exch) (tx : Option Nat) : Exch × Out :=
  let e := match tx with | some m => { e with tx := some m } | none => e
  match e.tx with
  | none => (e, ⟨[], some .valueError⟩)
  | some m => (e, ⟨[m], none⟩)

/-- `fail()` = `failed = True; finish()`; `finish()` = `prepFinish()` = `done = True` -/
def fail (e : Exch) : Exch := { e with failed := true, done := true }

/-- `Exchange.process()` at time `stamp` -/
def process (stamp : Int) (e : Exch) : Exch × Out :=
  if e.timeout > 0 ∧ e.timer.expired stamp = true then
    (fail e, ⟨[], none⟩)                                   -- self.fail(); return
  else if e.redoTimeout > 0 ∧ e.redoTimer.expired stamp = true then
    let e := { e with redoTimer := e.redoTimer.restart stamp }
    match e.tx with
    | some _ => send e e.tx                               -- if self.tx is not None: self.send(self.tx)
    | none => (e, ⟨[], none⟩)
  else (e, ⟨[], none⟩)

def prepStart (e : Exch) : Exch := { e with done := false, failed := false, acked := false }

/-- `start(arg)` of the three classes -/
def start (stamp : Int) (e : Exch) (arg : Option Nat) : Exch × Out :=
  match e.kind with
  | .exchange => (prepStart e, ⟨[], none⟩)                 -- the base class only resets the flags
  | .exchanger =>
    let e := prepStart e
    let e := { e with timer := e.timer.restart stamp, redoTimer := e.redoTimer.restart stamp }
    send e arg
  | .exchangent =>
    let e := prepStart e
    let e := { e with timer := e.timer.restart stamp, redoTimer := e.redoTimer.restart stamp }
    -- respond(rx)
    let e := match arg with | some r => { e with rx := some r } | none => e
    match e.rx with
    | none => (e, ⟨[], some .valueError⟩)
    | some _ => ({ e with done := true }, ⟨[], none⟩)      -- finish()

/-- which of the three methods that record and queue the latest message is called:
`send(tx)` (= `prepSend(tx)`; `transmit(pkt=tx)`), `transmit(pkt)` directly, or `message(msg)`;
all three: `if x is not None: self.tx = x`; `if self.tx is None: raise ValueError`; queue `self.tx` -/
inductive Via where
  | send
  | transmit
  | message
deriving DecidableEq, Repr

inductive Op where
  | create (k : Kind) (timeout redo : Option Int) (tx rx : Option Nat)
  | start (arg : Option Nat)
  | advance (dt : Int)            -- `stack.stamper.advance(dt)`
  | process
  | send (via : Via) (tx : Option Nat)
  | receive (rx : Nat)
  | finish
  | fail
  | run
deriving DecidableEq, Repr

structure World where
  stamp : Int
  ex : Option Exch
  queue : List Nat        -- `stack.txPkts`
deriving DecidableEq, Repr

def World.init : World := ⟨0, none, []⟩

/-- apply a method of the exchange -/
def World.call (w : World) (f : Exch → Exch × Out) : World × Out :=
  match w.ex with
  | none => (w, ⟨[], some .noExchange⟩)
  | some e =>
    let (e', o) := f e
    ({ w with ex := some e', queue := w.queue ++ o.queued }, o)

def step (v : Variant) (w : World) : Op → World × Out
  | .create k t r tx rx =>
    match create v k w.stamp t r tx rx with
    | .ok e => ({ w with ex := some e }, ⟨[], none⟩)
    | .error err => ({ w with ex := none }, ⟨[], some err⟩)
  | .start arg => w.call (fun e => start w.stamp e arg)
  | .advance dt => ({ w with stamp := w.stamp + dt }, ⟨[], none⟩)
  | .process => w.call (process w.stamp)
  | .send _ tx => w.call (fun e => send e tx)
  | .receive rx => w.call (fun e => ({ e with rx := some rx }, ⟨[], none⟩))
  | .finish => w.call (fun e => ({ e with done := true }, ⟨[], none⟩))
  | .fail => w.call (fun e => (fail e, ⟨[], none⟩))
  | .run => w.call (fun e => ({ e with done := true }, ⟨[], none⟩))

/-- one record per call: the call, the time it was made at, what it did -/
structure Rec where
  op : Op
  stamp : Int
  out : Out
deriving DecidableEq, Repr

def run (v : Variant) : World → List Op → World × List Rec
  | w, [] => (w, [])
  | w, op :: ops =>
    let (w', o) := step v w op
    let (w'', rs) := run v w' ops
    (w'', ⟨op, w.stamp, o⟩ :: rs)

/-- the calls the owner of a running exchange makes between `start` and the end:
time passes (never backwards), `process`, a new message, a reception -/
def Op.passive : Op → Bool
  | .advance dt => decide (0 ≤ dt)
  | .process => true
  | .send _ (some _) => true
  | .receive _ => true
  | _ => false

/-- stamps at which a `process` call put a message on the queue (= retransmissions) -/
def redoStamps : List Rec → List Int
  | [] => []
  | r :: rs =>
    match r.op with
    | .process => if r.out.queued ≠ [] then r.stamp :: redoStamps rs else redoStamps rs
    | _ => redoStamps rs

/-! ## the same definitions over an arbitrary time type

`Tick τ` is what the code needs of a time value: `+`, `≤`, `0 <`, `abs`.  The definitions below repeat
`Timer`, `Exch`, `create`, `send`, `process`, `start`, `step`, `run` word for word with `τ` for `Int`;
`Lemmas/Exchange.lean` proves that their `Int` instantiation *is* the model above (`gstep_int`), and the
driver runs their `Float` (IEEE binary64 = CPython `float`) instantiation for schedules off the dyadic
grid.  The class attributes `Timeout` / `RedoTimeout` are a parameter (`defs`). -/

class Tick (τ : Type) where
  add : τ → τ → τ
  le : τ → τ → Bool
  pos : τ → Bool
  abs : τ → τ

instance : Tick Int := ⟨fun a b => a + b, fun a b => decide (a ≤ b), fun a => decide (0 < a), iabs⟩
instance : Tick Float := ⟨fun a b => a + b, fun a b => decide (a ≤ b), fun a => decide (0.0 < a), Float.abs⟩

structure GTimer (τ : Type) where
  start : τ
  duration : τ
  stop : τ

structure GExch (τ : Type) where
  kind : Kind
  timeout : τ
  timer : GTimer τ
  redoTimeout : τ
  redoTimer : GTimer τ
  tx : Option Nat
  rx : Option Nat
  done : Bool
  failed : Bool
  acked : Bool

variable {τ : Type} [Tick τ]

def GTimer.new (stamp duration : τ) : GTimer τ :=
  ⟨Tick.abs stamp, Tick.abs duration, Tick.add (Tick.abs stamp) (Tick.abs duration)⟩

def GTimer.restart (t : GTimer τ) (stamp : τ) : GTimer τ := ⟨stamp, t.duration, Tick.add stamp t.duration⟩

def GTimer.expired (t : GTimer τ) (stamp : τ) : Bool := Tick.le t.stop stamp

def gcreate (defs : Kind → τ × τ) (v : Variant) (k : Kind) (stamp : τ) (timeout redo : Option τ)
    (tx rx : Option Nat) : Except Err (GExch τ) :=
  let t := match timeout with | some x => x | none => (defs k).1
  match v, redo with
  | .asIs, some _ => .error .nameError
  | _, _ =>
    let r := match redo with | some x => x | none => (defs k).2
    .ok { kind := k, timeout := t, timer := GTimer.new stamp t, redoTimeout := r,
          redoTimer := GTimer.new stamp r, tx := tx, rx := rx,
          «done» := false, failed := false, acked := false }

def gsend (e : GExch τ) (tx : Option Nat) : GExch τ × Out :=
  let e := match tx with | some m => { e with tx := some m } | none => e
  match e.tx with
  | none => (e, ⟨[], some .valueError⟩)
  | some m => (e, ⟨[m], none⟩)

def gfail (e : GExch τ) : GExch τ := { e with failed := true, «done» := true }

def gprocess (stamp : τ) (e : GExch τ) : GExch τ × Out :=
  if Tick.pos e.timeout && e.timer.expired stamp then
    (gfail e, ⟨[], none⟩)
  else if Tick.pos e.redoTimeout && e.redoTimer.expired stamp then
    let e := { e with redoTimer := e.redoTimer.restart stamp }
    match e.tx with
    | some _ => gsend e e.tx
    | none => (e, ⟨[], none⟩)
  else (e, ⟨[], none⟩)

def gprepStart (e : GExch τ) : GExch τ := { e with «done» := false, failed := false, acked := false }

def gstart (stamp : τ) (e : GExch τ) (arg : Option Nat) : GExch τ × Out :=
  match e.kind with
  | .exchange => (gprepStart e, ⟨[], none⟩)
  | .exchanger =>
    let e := gprepStart e
    let e := { e with timer := e.timer.restart stamp, redoTimer := e.redoTimer.restart stamp }
    gsend e arg
  | .exchangent =>
    let e := gprepStart e
    let e := { e with timer := e.timer.restart stamp, redoTimer := e.redoTimer.restart stamp }
    let e := match arg with | some r => { e with rx := some r } | none => e
    match e.rx with
    | none => (e, ⟨[], some .valueError⟩)
    | some _ => ({ e with «done» := true }, ⟨[], none⟩)

inductive GOp (τ : Type) where
  | create (k : Kind) (timeout redo : Option τ) (tx rx : Option Nat)
  | start (arg : Option Nat)
  | advance (dt : τ)
  | process
  | send (via : Via) (tx : Option Nat)
  | receive (rx : Nat)
  | finish
  | fail
  | run

structure GWorld (τ : Type) where
  stamp : τ
  ex : Option (GExch τ)
  queue : List Nat

def GWorld.call (w : GWorld τ) (f : GExch τ → GExch τ × Out) : GWorld τ × Out :=
  match w.ex with
  | none => (w, ⟨[], some .noExchange⟩)
  | some e =>
    let (e', o) := f e
    ({ w with ex := some e', queue := w.queue ++ o.queued }, o)

def gstep (defs : Kind → τ × τ) (v : Variant) (w : GWorld τ) : GOp τ → GWorld τ × Out
  | .create k t r tx rx =>
    match gcreate defs v k w.stamp t r tx rx with
    | .ok e => ({ w with ex := some e }, ⟨[], none⟩)
    | .error err => ({ w with ex := none }, ⟨[], some err⟩)
  | .start arg => w.call (fun e => gstart w.stamp e arg)
  | .advance dt => ({ w with stamp := Tick.add w.stamp dt }, ⟨[], none⟩)
  | .process => w.call (gprocess w.stamp)
  | .send _ tx => w.call (fun e => gsend e tx)
  | .receive rx => w.call (fun e => ({ e with rx := some rx }, ⟨[], none⟩))
  | .finish => w.call (fun e => ({ e with «done» := true }, ⟨[], none⟩))
  | .fail => w.call (fun e => (gfail e, ⟨[], none⟩))
  | .run => w.call (fun e => ({ e with «done» := true }, ⟨[], none⟩))

/-- a history over the generic definitions: final world and what each call did -/
def grun (defs : Kind → τ × τ) (v : Variant) : GWorld τ → List (GOp τ) → GWorld τ × List Out
  | w, [] => (w, [])
  | w, op :: ops =>
    let (w', o) := gstep defs v w op
    let (w'', os) := grun defs v w' ops
    (w'', o :: os)

/-- the class attributes in ticks of 1/1024 s (as `Kind.defTimeout`, `Kind.defRedo`) -/
def defsInt (k : Kind) : Int × Int := (k.defTimeout, k.defRedo)

/-- the class attributes as the floats of the source: `Exchange`/`Exchanger` 2.0 / 0.5, `Exchangent` 0.5 / 0.1 -/
def defsFloat : Kind → Float × Float
  | .exchangent => (0.5, 0.1)
  | _ => (2.0, 0.5)


end Ioflo.Exchange
