/-
Model of `ioflo/aio/proto/exchanging.py` (`Exchange`, `Exchanger`, `Exchangent`) together with the
two collaborators its timing depends on: `ioflo/aid/timing.py` `StoreTimer` (`__init__`, `restart`,
`expired`) and `Stamper.advance`, and the stack's `transmit` (a queue of messages).

Time is exact: `Int` ticks of 1/1024 s (on that grid CPython's float arithmetic is exact as well,
so the correspondence demands equality).  A message / packet object is a `Nat` id.
Transcribed statement by statement; an exception is a constructor of the result and — as in
Python — does not undo the assignments made before it was raised.

`Variant.asIs`: the constructor of the unchanged tree (parameter spelt `redoTimout`, body reads
`redoTimeout`: passing it raises `NameError`).  `Variant.repaired`: after
`fixes/D22-exchange-redotimeout-nameerror.patch`.  Core Lean only.
-/
namespace Ioflo.Exchange

inductive Variant where
  | asIs
  | repaired
deriving DecidableEq, Repr

inductive Kind where
  | exchange
  | exchanger
  | exchangent
deriving DecidableEq, Repr

inductive Err where
  | nameError
  | valueError
  | noExchange      -- harness-level: a call before a successful `create`
deriving DecidableEq, Repr

/-- class attribute `Timeout` in ticks: 2.0 s, `Exchangent` 0.5 s -/
def Kind.defTimeout : Kind → Int
  | .exchangent => 512
  | _ => 2048

/-- class attribute `RedoTimeout` in ticks: 0.5 s.  `Exchangent.RedoTimeout` is 0.1 s, which is not on
the dyadic grid: the harness exercises `Exchangent` through a subclass with `RedoTimeout = 0.125`. -/
def Kind.defRedo : Kind → Int
  | .exchangent => 128
  | _ => 512

def iabs (x : Int) : Int := if x < 0 then -x else x

/-- `timing.StoreTimer` -/
structure Timer where
  start : Int
  duration : Int
  stop : Int
deriving DecidableEq, Repr

/-- `StoreTimer(store, duration)` = `restart(start=store.stamp, duration=duration)`:
`start = abs(start)`, `duration = abs(duration)`, `stop = start + duration` -/
def Timer.new (stamp duration : Int) : Timer :=
  ⟨iabs stamp, iabs duration, iabs stamp + iabs duration⟩

/-- `restart()` without arguments: `start = store.stamp`, duration kept -/
def Timer.restart (t : Timer) (stamp : Int) : Timer :=
  ⟨stamp, t.duration, stamp + t.duration⟩

/-- `expired`: `store.stamp >= stop` -/
def Timer.expired (t : Timer) (stamp : Int) : Bool := decide (t.stop ≤ stamp)

structure Exch where
  kind : Kind
  timeout : Int
  timer : Timer
  redoTimeout : Int
  redoTimer : Timer
  tx : Option Nat
  rx : Option Nat
  done : Bool
  failed : Bool
  acked : Bool
deriving DecidableEq, Repr

/-- `Exchange.__init__(stack, device=…, timeout=…, redoTimeout=…, tx=…, rx=…)` at time `stamp` -/
def create (v : Variant) (k : Kind) (stamp : Int) (timeout redo : Option Int) (tx rx : Option Nat) :
    Except Err Exch :=
  let t := match timeout with | some x => x | none => k.defTimeout
  match v, redo with
  | .asIs, some _ => .error .nameError      -- `redoTimeout if redoTimout is not None else …`
  | _, _ =>
    let r := match redo with | some x => x | none => k.defRedo
    .ok { kind := k, timeout := t, timer := Timer.new stamp t, redoTimeout := r,
          redoTimer := Timer.new stamp r, tx := tx, rx := rx,
          done := false, failed := false, acked := false }

/-- what a call did: messages it put on the stack's queue, exception that escaped -/
structure Out where
  queued : List Nat
  err : Option Err
deriving DecidableEq, Repr

/-- `send(tx)`: `prepSend(tx)`; `transmit(pkt=tx)` → `stack.transmit(self.tx)` -/
def send (e : Exch) (tx : Option Nat) : Exch × Out :=
  let e := match tx with | some m => { e with tx := some m } | none => e
  match e.tx with
  | none => (e, ⟨[], some .valueError⟩)
  | some m => (e, ⟨[m], none⟩)

/-- `fail()` = `failed = True; finish()`; `finish()` = `prepFinish()` = `done = True` -/
def fail (e : Exch) : Exch := { e with failed := true, done := true }

/-- `Exchange.process()` at time `stamp` -/
def process (stamp : Int) (e : Exch) : Exch × Out :=
  if e.timeout > 0 ∧ e.timer.expired stamp = true then
    (fail e, ⟨[], none⟩)                                   -- self.fail(); return
  else if e.redoTimeout > 0 ∧ e.redoTimer.expired stamp = true then
    let e := { e with redoTimer := e.redoTimer.restart stamp }
    match e.tx with
    | some _ => send e e.tx                               -- if self.tx is not None: self.send(self.tx)
    | none => (e, ⟨[], none⟩)
  else (e, ⟨[], none⟩)

def prepStart (e : Exch) : Exch := { e with done := false, failed := false, acked := false }

/-- `start(arg)` of the three classes -/
def start (stamp : Int) (e : Exch) (arg : Option Nat) : Exch × Out :=
  match e.kind with
  | .exchange => (prepStart e, ⟨[], none⟩)                 -- the base class only resets the flags
  | .exchanger =>
    let e := prepStart e
    let e := { e with timer := e.timer.restart stamp, redoTimer := e.redoTimer.restart stamp }
    send e arg
  | .exchangent =>
    let e := prepStart e
    let e := { e with timer := e.timer.restart stamp, redoTimer := e.redoTimer.restart stamp }
    -- respond(rx)
    let e := match arg with | some r => { e with rx := some r } | none => e
    match e.rx with
    | none => (e, ⟨[], some .valueError⟩)
    | some _ => ({ e with done := true }, ⟨[], none⟩)      -- finish()

/-- which of the three methods that record and queue the latest message is called:
`send(tx)` (= `prepSend(tx)`; `transmit(pkt=tx)`), `transmit(pkt)` directly, or `message(msg)`;
all three: `if x is not None: self.tx = x`; `if self.tx is None: raise ValueError`; queue `self.tx` -/
inductive Via where
  | send
  | transmit
  | message
deriving DecidableEq, Repr

inductive Op where
  | create (k : Kind) (timeout redo : Option Int) (tx rx : Option Nat)
  | start (arg : Option Nat)
  | advance (dt : Int)            -- `stack.stamper.advance(dt)`
  | process
  | send (via : Via) (tx : Option Nat)
  | receive (rx : Nat)
  | finish
  | fail
  | run
deriving DecidableEq, Repr

structure World where
  stamp : Int
  ex : Option Exch
  queue : List Nat        -- `stack.txPkts`
deriving DecidableEq, Repr

def World.init : World := ⟨0, none, []⟩

/-- apply a method of the exchange -/
def World.call (w : World) (f : Exch → Exch × Out) : World × Out :=
  match w.ex with
  | none => (w, ⟨[], some .noExchange⟩)
  | some e =>
    let (e', o) := f e
    ({ w with ex := some e', queue := w.queue ++ o.queued }, o)

def step (v : Variant) (w : World) : Op → World × Out
  | .create k t r tx rx =>
    match create v k w.stamp t r tx rx with
    | .ok e => ({ w with ex := some e }, ⟨[], none⟩)
    | .error err => ({ w with ex := none }, ⟨[], some err⟩)
  | .start arg => w.call (fun e => start w.stamp e arg)
  | .advance dt => ({ w with stamp := w.stamp + dt }, ⟨[], none⟩)
  | .process => w.call (process w.stamp)
  | .send _ tx => w.call (fun e => send e tx)
  | .receive rx => w.call (fun e => ({ e with rx := some rx }, ⟨[], none⟩))
  | .finish => w.call (fun e => ({ e with done := true }, ⟨[], none⟩))
  | .fail => w.call (fun e => (fail e, ⟨[], none⟩))
  | .run => w.call (fun e => ({ e with done := true }, ⟨[], none⟩))

/-- one record per call: the call, the time it was made at, what it did -/
structure Rec where
  op : Op
  stamp : Int
  out : Out
deriving DecidableEq, Repr

def run (v : Variant) : World → List Op → World × List Rec
  | w, [] => (w, [])
  | w, op :: ops =>
    let (w', o) := step v w op
    let (w'', rs) := run v w' ops
    (w'', ⟨op, w.stamp, o⟩ :: rs)

/-- the calls the owner of a running exchange makes between `start` and the end:
time passes (never backwards), `process`, a new message, a reception -/
def Op.passive : Op → Bool
  | .advance dt => decide (0 ≤ dt)
  | .process => true
  | .send _ (some _) => true
  | .receive _ => true
  | _ => false

/-- stamps at which a `process` call put a message on the queue (= retransmissions) -/
def redoStamps : List Rec → List Int
  | [] => []
  | r :: rs =>
    match r.op with
    | .process => if r.out.queued ≠ [] then r.stamp :: redoStamps rs else redoStamps rs
    | _ => redoStamps rs

end Ioflo.Exchange
