import IofloModel.Model.Outline
/-
Model of the framer core of ioflo/base/framing.py and ioflo/base/acting.py  (core Lean only).

Layers (each stands alone):
  1. outline algebra                      — Model/Outline.lean
  2. core framer                          — status/control table (`framerStep` = `Framer.makeRunner`),
                                            `enterAll exitAll enter exit rexit renter recur segue checkStart
                                            checkEnter activate deactivate` and `Transiter.action`
  3. plain auxiliaries                    — `Frame.enter/exit/recur/segueAuxes/checkEnter` over `frame.auxes`
  4. conditional auxiliaries (Suspender)  — `Suspender.action`, `deactivate`, the `deactivize` exit side-act,
                                            `Framer.change/reactivate` (defect D3 is reproduced as written)
     The code transcribed is /repo with the fix commits D3b (`Suspender.action` / `deactivize` test
     `aux.main is self._act.frame`: `notOwner`) and D3d (`Framer.checkEnter` / `Frame.checkEnter` /
     `Framer.checkStart` thread one list `claimed` through a check: `allC`, `auxClaim`, `checkEnterC`) and D3e
     (`Suspender.action` does nothing for an auxiliary that is also a plain auxiliary of its frame).
  5. a minimal scheduler loop             — `Skedder.run` for taskers whose period is 0 (run at every tick)

Conventions
* Frames and framers are numbers (`Fid`, `Frid`); the static program is `Prog`.
* What an action does to the store is opaque: `Sem.act : ActId → … → W → W × Bool` (the Bool is the
  truthiness of the value the action returns — `Frame.precur` stops at the first truthy preact), a condition
  is `Sem.need : NeedId → … → Bool`.  Actions that touch framers are syntax: `done`, `bid`.
* Calls from a frame into its auxiliary framers go through a record `Ops` of the five framer entry points;
  `opsAt n` is that record for nesting depth `n` (`opsAt 0` fails with `Err.depth`: Python's
  `RecursionError`); all functions of one level are therefore defined without recursion.
* A Python exception is an `Err` constructor of the result, never a default value.
-/
namespace Ioflo.Flo
open Ioflo.Outline (Fid exEn)

abbrev Frid := Nat
abbrev ActId := Nat
abbrev NeedId := Nat

inductive Status | readied | started | running | stopped | aborted
  deriving DecidableEq, Repr, Inhabited

inductive Control | ready | start | run | stop | abort
  deriving DecidableEq, Repr, Inhabited

/-- action contexts (`ActionContextNames` + the `transit` sub-context) -/
inductive Ctx | benter | enter | renter | precur | recur | exit | rexit | transit
  deriving DecidableEq, Repr, Inhabited

inductive Err
  | depth       -- auxiliary nesting deeper than the fuel: `RecursionError`
  | noActive    -- `framer.reactivate()` with `framer.active is None`: `AttributeError`
  deriving DecidableEq, Repr

/-- acts as the builder creates them (the subset that is modelled) -/
inductive Act
  | world (a : ActId)                       -- put / inc / copy / set / do …: acts on the store only
  | done (frs : List Frid)                  -- `done [tasker …]`  (CompleteDone)
  | bid (c : Control) (frs : List Frid)     -- `bid control [tasker …]`  (Want*)
  deriving Repr

/-- precur acts: plain actions, transitions (`go`, `timeout`, `repeat`), conditional auxiliaries -/
inductive Preact
  | act (a : Act)
  | transit (needs : List NeedId) (far : Fid) (tracts : List Act)
  | suspend (needs : List NeedId) (aux : Frid) (tracts : List Act)
  deriving Repr

structure FrameDef where
  framer : Frid
  outline : List Fid        -- `frame.outline`
  head : List Fid           -- `frame.head`
  beacts : List NeedId
  enacts : List Act
  renacts : List Act
  reacts : List Act
  exacts : List Act         -- exit acts of the script (the `deactivize` side acts follow them, see `suspAuxes`)
  rexacts : List Act
  preacts : List Preact
  auxes : List Frid         -- plain auxiliaries `frame.auxes`
  deriving Repr

structure FramerDef where
  first : Fid
  original : Bool := true
  deriving Repr

structure Prog where
  frame : Fid → FrameDef
  framer : Frid → FramerDef
  frames : Frid → List Fid      -- the frames of a framer (`framer.frameNames`); only used by `condAuxesOf`

/-- the auxiliaries of the Suspender preacts of a frame, in preact order: `Suspender._resolve` appends one
`deactivize` SideAct per conditional auxiliary to the frame's exit acts -/
def suspAuxes : List Preact → List Frid
  | [] => []
  | .suspend _ aux _ :: rest => aux :: suspAuxes rest
  | _ :: rest => suspAuxes rest

structure FramerSt where
  status : Status := .stopped
  desire : Control := .stop
  done : Bool := true
  active : Option Fid := none
  actives : List Fid := []
  main : Option Fid := none
  stamp : Nat := 0
  elapsed : Nat := 0
  recurred : Nat := 0
  deriving Repr, Inhabited

inductive Event
  | act (ctx : Ctx) (f : Fid) (a : ActId)   -- a store action ran in context `ctx` of frame `f`
  | enter (f : Fid)                          -- `Frame.enter` called
  | exit (f : Fid)                           -- `Frame.exit` called
  | renter (f : Fid)
  | rexit (f : Fid)
  | recur (f : Fid)
  | activate (fr : Frid) (f : Fid)           -- `Framer.activate`
  | deactivate (fr : Frid)                   -- `Framer.deactivate`
  | truncate (fr : Frid) (f : Fid)           -- `Framer.change(main.head)` by a Suspender
  | reactivate (fr : Frid)
  deriving DecidableEq, Repr

structure St (W : Type) where
  frs : Frid → FramerSt
  world : W
  now : Nat
  trace : List Event := []     -- newest first
  /-- ghost flag (never read by the interpreter): a Suspender truncated the outline while another conditional
  auxiliary of the same framer was still running — the region of defect D3 -/
  overlap : Bool := false
  /-- ghost flag: `enterAll` was called on a framer that was still active (entered twice without exit) -/
  reenter : Bool := false
  /-- ghost flag: `exitAll` or a taken transition worked on a truncated outline (`actives ≠ active.outline`), i.e.
  frames suspended below a conditional auxiliary were left entered -/
  left : Bool := false
  /-- ghost: frames entered and not exited since (updated where `.enter` / `.exit` events are emitted) -/
  ent : Fid → Bool := fun _ => false
  /-- ghost flag: a frame was entered while entered, or exited while not entered -/
  dbl : Bool := false

/-- semantics of the opaque parts -/
structure Sem (W : Type) where
  act : ActId → (Frid → FramerSt) → Nat → W → W × Bool
  need : NeedId → (Frid → FramerSt) → Nat → W → Bool

variable {W : Type}

/-! ### state helpers -/

def St.fr (s : St W) (i : Frid) : FramerSt := s.frs i

def St.setFr (s : St W) (i : Frid) (x : FramerSt) : St W :=
  { s with frs := fun j => if j = i then x else s.frs j }

def St.modFr (s : St W) (i : Frid) (f : FramerSt → FramerSt) : St W :=
  s.setFr i (f (s.frs i))

def St.emit (s : St W) (e : Event) : St W := { s with trace := e :: s.trace }

abbrev M (W : Type) (α : Type) := St W → Except Err (α × St W)

/-! ### actions -/

def setDone (frs : List Frid) (s : St W) : St W :=
  frs.foldl (fun s i => s.modFr i (fun x => { x with done := true })) s

def setDesire (c : Control) (frs : List Frid) (s : St W) : St W :=
  frs.foldl (fun s i => s.modFr i (fun x => { x with desire := c })) s

/-- `act()` for one Act in context `ctx` of frame `f`; the Bool is the truthiness of the result -/
def runAct (sem : Sem W) (ctx : Ctx) (f : Fid) (a : Act) (s : St W) : St W × Bool :=
  match a with
  | .world id =>
    let r := sem.act id s.frs s.now s.world
    (({ s with world := r.1 }).emit (.act ctx f id), r.2)
  | .done frs => (setDone frs s, false)
  | .bid c frs => (setDesire c frs s, false)

/-- `for act in acts: act()` -/
def runActs (sem : Sem W) (ctx : Ctx) (f : Fid) (acts : List Act) (s : St W) : St W :=
  acts.foldl (fun s a => (runAct sem ctx f a s).1) s

/-- `for need in needs: if not need(): return False` -/
def needsHold (sem : Sem W) (needs : List NeedId) (s : St W) : Bool :=
  needs.all (fun n => sem.need n s.frs s.now s.world)

/-! ### clocks -/

def restartClocks (i : Frid) (s : St W) : St W :=      -- restartTimer; restartCounter
  s.modFr i (fun x => { x with stamp := s.now, elapsed := 0, recurred := 0 })

def updateClocks (i : Frid) (s : St W) : St W :=       -- updateTimer; updateCounter
  s.modFr i (fun x => { x with elapsed := s.now - x.stamp, recurred := x.recurred + 1 })

/-! ### activation -/

def activate (P : Prog) (i : Frid) (a : Fid) (s : St W) : St W :=
  (s.modFr i (fun x => { x with active := some a, actives := (P.frame a).outline })).emit (.activate i a)

def deactivate (i : Frid) (s : St W) : St W :=
  (s.modFr i (fun x => { x with active := none, actives := [] })).emit (.deactivate i)

/-- `framer.change(main.head, main.headHuman)` -/
def truncate (P : Prog) (i : Frid) (m : Fid) (s : St W) : St W :=
  (s.modFr i (fun x => { x with actives := (P.frame m).head })).emit (.truncate i m)

/-- the conditional auxiliaries `(main frame, aux)` declared in the frames of framer `i` -/
def condAuxesOf (P : Prog) (i : Frid) : List (Fid × Frid) :=
  (P.frames i).flatMap (fun m => (suspAuxes (P.frame m).preacts).map (fun x => (m, x)))

/-- is a conditional auxiliary of framer `i` other than `aux` not done? (ghost) -/
def otherRunning (P : Prog) (i : Frid) (aux : Frid) (s : St W) : Bool :=
  (condAuxesOf P i).any (fun mx => mx.2 != aux && !(s.fr mx.2).done)

def markOverlap (b : Bool) (s : St W) : St W := { s with overlap := s.overlap || b }
def markReenter (b : Bool) (s : St W) : St W := { s with reenter := s.reenter || b }
def markLeft (b : Bool) (s : St W) : St W := { s with left := s.left || b }

/-- `Frame.enter` is called on `f` (ghost bookkeeping + the event) -/
def noteEnter (f : Fid) (s : St W) : St W :=
  ({ s with dbl := s.dbl || s.ent f, ent := fun g => if g = f then true else s.ent g }).emit (.enter f)

/-- `Frame.exit` is called on `f` -/
def noteExit (f : Fid) (s : St W) : St W :=
  ({ s with dbl := s.dbl || !(s.ent f), ent := fun g => if g = f then false else s.ent g }).emit (.exit f)

/-- is the outline of framer `i` truncated (a conditional auxiliary suspends frames)? (ghost) -/
def truncated (P : Prog) (i : Frid) (s : St W) : Bool :=
  (s.fr i).actives != (match (s.fr i).active with
                       | some a => (P.frame a).outline
                       | none => [])

/-- `framer.reactivate()`: `self.change(self.active.outline, …)` -/
def reactivate (P : Prog) (i : Frid) (s : St W) : Except Err (St W) :=
  match (s.fr i).active with
  | none => .error .noActive
  | some a => .ok ((s.modFr i (fun x => { x with actives := (P.frame a).outline })).emit (.reactivate i))

/-! ### the entry points of an auxiliary framer, as seen from a frame of its main framer -/

structure Ops (W : Type) where
  enterAll : Frid → St W → Except Err (St W)
  exitAll : Frid → St W → Except Err (St W)        -- `aux.exitAll()` (abort = False)
  recur : Frid → St W → Except Err (St W)
  segue : Frid → St W → Except Err (St W)
  checkStart : Frid → List Frid → St W → Except Err (Option (List Frid))   -- `aux.checkStart(claimed)`

def Ops.bottom : Ops W :=
  { enterAll := fun _ _ => .error .depth, exitAll := fun _ _ => .error .depth,
    recur := fun _ _ => .error .depth, segue := fun _ _ => .error .depth,
    checkStart := fun _ _ _ => .error .depth }

/-- `for x in xs: f(x)` threading the state -/
def forEach {α : Type} (f : α → St W → Except Err (St W)) : List α → St W → Except Err (St W)
  | [], s => .ok s
  | x :: xs, s =>
    match f x s with
    | .error e => .error e
    | .ok s' => forEach f xs s'

/-- `for x in xs: if not p(x): return False` / `return True` -/
def allM {α : Type} (p : α → Except Err Bool) : List α → Except Err Bool
  | [] => .ok true
  | x :: xs =>
    match p x with
    | .error e => .error e
    | .ok false => .ok false
    | .ok true => allM p xs

/-- the same loop for a check that extends the list `claimed` (Python mutates one list object; a check that
fails is abandoned as a whole, so the list need not be returned in that case): `none` = `False` -/
def allC {α : Type} (p : List Frid → α → Except Err (Option (List Frid))) :
    List α → List Frid → Except Err (Option (List Frid))
  | [], cl => .ok (some cl)
  | x :: xs, cl =>
    match p cl x with
    | .error e => .error e
    | .ok none => .ok none
    | .ok (some cl') => allC p xs cl'

section level
variable (P : Prog) (sem : Sem W) (lo : Ops W)

/-- release of an original auxiliary: `if aux.original: aux.main = None` -/
def release (aux : Frid) (s : St W) : St W :=
  if (P.framer aux).original then s.modFr aux (fun x => { x with main := none }) else s

def claim (aux : Frid) (m : Fid) (s : St W) : St W :=
  if (P.framer aux).original then s.modFr aux (fun x => { x with main := some m }) else s

/-- `Suspender.deactivate(aux)`: `aux.exitAll(); if aux.original: aux.main = None` -/
def deactivateAux (aux : Frid) (s : St W) : Except Err (St W) :=
  match lo.exitAll aux s with
  | .error e => .error e
  | .ok s' => .ok (release P aux s')

/-- `aux.original and (aux.main is not self._act.frame)`: the auxiliary is in use by another frame (or by none) -/
def notOwner (aux : Frid) (f : Fid) (s : St W) : Bool :=
  (P.framer aux).original && (s.fr aux).main != some f

/-- `Suspender.deactivize(aux)`: the exit side act of the conditional auxiliary `aux` of frame `f`:
`if not aux.done and (not aux.original or aux.main is self._act.frame): self.deactivate(aux)` -/
def deactivize (f : Fid) (aux : Frid) (s : St W) : Except Err (St W) :=
  if (s.fr aux).done || notOwner P aux f s then .ok s else deactivateAux P lo aux s

/-- the second half of the aux part of `Frame.checkEnter`: an original auxiliary already claimed by a frame
checked earlier in the same check fails; otherwise it is appended to `claimed` and its own start is checked -/
def auxClaim (s : St W) (cl : List Frid) (aux : Frid) : Except Err (Option (List Frid)) :=
  if (P.framer aux).original then
    if cl.contains aux then .ok none else lo.checkStart aux (cl ++ [aux]) s
  else lo.checkStart aux cl s

/-- the aux part of `Frame.checkEnter(exits, claimed)` for one aux -/
def auxCheck (f : Fid) (exits : List Fid) (s : St W) (cl : List Frid) (aux : Frid) :
    Except Err (Option (List Frid)) :=
  match (s.fr aux).main with
  | some m => if m ≠ f ∧ m ∉ exits then .ok none else auxClaim P lo s cl aux
  | none => auxClaim P lo s cl aux

/-- `Frame.checkEnter(exits, claimed)` -/
def frameCheckEnter (exits : List Fid) (s : St W) (cl : List Frid) (f : Fid) : Except Err (Option (List Frid)) :=
  if needsHold sem (P.frame f).beacts s then allC (auxCheck P lo f exits s) (P.frame f).auxes cl
  else .ok none

/-- `Framer.checkEnter(enters, exits, claimed)` -/
def checkEnterC (enters exits : List Fid) (cl : List Frid) (s : St W) : Except Err (Option (List Frid)) :=
  if enters.isEmpty then .ok none else allC (frameCheckEnter P sem lo exits s) enters cl

/-- `Framer.checkEnter(enters, exits)` called with `claimed=None`: a new check -/
def checkEnter (enters exits : List Fid) (s : St W) : Except Err Bool :=
  match checkEnterC P sem lo enters exits [] s with
  | .error e => .error e
  | .ok r => .ok r.isSome

/-- `Frame.enter()` -/
def frameEnter (f : Fid) (s : St W) : Except Err (St W) :=
  let s := runActs sem .enter f (P.frame f).enacts (noteEnter f s)
  forEach (fun aux s => lo.enterAll aux (claim P aux f s)) (P.frame f).auxes s

/-- `Framer.enter(enters)` -/
def enter (i : Frid) (enters : List Fid) (s : St W) : Except Err (St W) :=
  let s := if enters.isEmpty then s else restartClocks i s
  forEach (frameEnter P sem lo) enters s

/-- `Frame.exit()`: auxes first (`aux.exitAll(); if aux.original: aux.main = None`, the same two statements as
`Suspender.deactivate`), then the exit acts, the `deactivize` side acts last -/
def frameExit (f : Fid) (s : St W) : Except Err (St W) :=
  match forEach (deactivateAux P lo) (P.frame f).auxes (noteExit f s) with
  | .error e => .error e
  | .ok s1 =>
    let s2 := runActs sem .exit f (P.frame f).exacts s1
    forEach (deactivize P lo f) (suspAuxes (P.frame f).preacts) s2

/-- `Framer.exit(exits)`: reversed in place, then `frame.exit()` for each -/
def exit (exits : List Fid) (s : St W) : Except Err (St W) :=
  forEach (frameExit P sem lo) exits.reverse s

/-- `Framer.rexit(rexits)` -/
def rexit (rexits : List Fid) (s : St W) : St W :=
  rexits.reverse.foldl (fun s f => runActs sem .rexit f (P.frame f).rexacts (s.emit (.rexit f))) s

/-- `Framer.renter(renters)` -/
def renter (renters : List Fid) (s : St W) : St W :=
  renters.foldl (fun s f => runActs sem .renter f (P.frame f).renacts (s.emit (.renter f))) s

/-- `Framer.enterAll()` -/
def enterAll (i : Frid) (s : St W) : Except Err (St W) :=
  let s := markReenter (s.fr i).active.isSome s
  let s := s.modFr i (fun x => { x with done := false })
  let s := activate P i (P.framer i).first s
  enter P sem lo i (s.fr i).actives s

/-- `Framer.exitAll(abort)` -/
def exitAll (abort : Bool) (i : Frid) (s : St W) : Except Err (St W) :=
  match exit P sem lo (s.fr i).actives (markLeft (truncated P i s) s) with
  | .error e => .error e
  | .ok s1 =>
    let s2 := deactivate i s1
    .ok (if abort then s2 else s2.modFr i (fun x => { x with done := true }))

/-- `Frame.recur()` -/
def frameRecur (f : Fid) (s : St W) : Except Err (St W) :=
  let s := runActs sem .recur f (P.frame f).reacts (s.emit (.recur f))
  forEach lo.recur (P.frame f).auxes s

/-- `Framer.recur()` -/
def recur (i : Frid) (s : St W) : Except Err (St W) :=
  forEach (frameRecur P sem lo) (s.fr i).actives s

/-- `Framer.checkStart(claimed)` -/
def checkStartC (i : Frid) (cl : List Frid) (s : St W) : Except Err (Option (List Frid)) :=
  checkEnterC P sem lo (P.frame (P.framer i).first).outline [] cl s

/-- `Framer.checkStart()` -/
def checkStart (i : Frid) (s : St W) : Except Err Bool :=
  checkEnter P sem lo (P.frame (P.framer i).first).outline [] s

/-- `Transiter.action(needs, near, far, human)`; `i = near.framer`, `f` = the act's frame -/
def transit (i : Frid) (f : Fid) (needs : List NeedId) (far : Fid) (tracts : List Act) (s : St W) :
    Except Err (Bool × St W) :=
  if !needsHold sem needs s then .ok (false, s) else
  let r := exEn far (s.fr i).actives (P.frame far).outline
  let exits := r.1
  let enters := r.2.1
  let reexens := r.2.2
  match checkEnter P sem lo enters exits s with
  | .error e => .error e
  | .ok false => .ok (false, s)
  | .ok true =>
    let s := runActs sem .transit f tracts (markLeft (truncated P i s) s)
    match exit P sem lo exits s with
    | .error e => .error e
    | .ok s =>
      let s := rexit P sem reexens s
      let s := renter P sem reexens s
      match enter P sem lo i enters s with
      | .error e => .error e
      | .ok s => .ok (true, activate P i far s)

/-- `aux.main and (aux.main is not self._act.frame)` -/
def ownedElsewhere (aux : Frid) (f : Fid) (s : St W) : Bool :=
  match (s.fr aux).main with
  | some m => decide (m ≠ f)
  | none => false

/-- `Suspender.action`, branch `if aux.done:` after the needs, the ownership test and `checkStart` passed -/
def suspendEnter (i : Frid) (f : Fid) (aux : Frid) (tracts : List Act) (s : St W) : Except Err (Bool × St W) :=
  let s := claim P aux f (runActs sem .transit f tracts s)
  match lo.enterAll aux s with
  | .error e => .error e
  | .ok s =>
    match lo.recur aux s with
    | .error e => .error e
    | .ok s =>
      if (s.fr aux).done then
        match deactivateAux P lo aux s with
        | .error e => .error e
        | .ok s => .ok (false, s)
      else .ok (true, truncate P i f (markOverlap (otherRunning P i aux s) s))

/-- `Suspender.action`, branch `if aux.done:` (not active) -/
def suspendStart (i : Frid) (f : Fid) (needs : List NeedId) (aux : Frid) (tracts : List Act) (s : St W) :
    Except Err (Bool × St W) :=
  if needsHold sem needs s then
    if ownedElsewhere aux f s then .ok (false, s)
    else
      match lo.checkStart aux [] s with
      | .error e => .error e
      | .ok none => .ok (false, s)
      | .ok (some _) => suspendEnter P sem lo i f aux tracts s
  else .ok (false, s)

/-- `Suspender.action`, branch `if not aux.done:` (active) -/
def suspendRun (i : Frid) (aux : Frid) (s : St W) : Except Err (Bool × St W) :=
  match lo.segue aux s with
  | .error e => .error e
  | .ok s =>
    match lo.recur aux s with
    | .error e => .error e
    | .ok s =>
      if (s.fr aux).done then
        match deactivateAux P lo aux s with
        | .error e => .error e
        | .ok s =>
          match reactivate P i s with
          | .error e => .error e
          | .ok s => .ok (false, s)
      else .ok (true, s)

/-- `Suspender.action(needs, main, aux, human)`; `i = main.framer`, `f = main` = the act's frame -/
def suspend (i : Frid) (f : Fid) (needs : List NeedId) (aux : Frid) (tracts : List Act) (s : St W) :
    Except Err (Bool × St W) :=
  if (P.frame f).auxes.contains aux then .ok (false, s)    -- also a plain auxiliary of this frame (fix D3e)
  else if (s.fr aux).done then suspendStart P sem lo i f needs aux tracts s
  else if notOwner P aux f s then .ok (false, s)
  else suspendRun P lo i aux s

def runPreact (i : Frid) (f : Fid) (p : Preact) (s : St W) : Except Err (Bool × St W) :=
  match p with
  | .act a => let r := runAct sem .precur f a s; .ok (r.2, r.1)
  | .transit needs far tracts => transit P sem lo i f needs far tracts s
  | .suspend needs aux tracts => suspend P sem lo i f needs aux tracts s

/-- `Frame.precur()`: `for act in self.preacts: if act(): return True` / `return False` -/
def precurLoop (i : Frid) (f : Fid) : List Preact → St W → Except Err (Bool × St W)
  | [], s => .ok (false, s)
  | p :: ps, s =>
    match runPreact P sem lo i f p s with
    | .error e => .error e
    | .ok (true, s') => .ok (true, s')
    | .ok (false, s') => precurLoop i f ps s'

def framePrecur (i : Frid) (f : Fid) (s : St W) : Except Err (Bool × St W) :=
  precurLoop P sem lo i f (P.frame f).preacts s

/-- second loop of `Framer.segue()`: `for frame in self.actives: if frame.precur(): return True`.
The list iterated is the list object that `.actives` named when the loop started. -/
def segueLoop (i : Frid) : List Fid → St W → Except Err (St W)
  | [], s => .ok s
  | f :: fs, s =>
    match framePrecur P sem lo i f s with
    | .error e => .error e
    | .ok (true, s') => .ok s'
    | .ok (false, s') => segueLoop i fs s'

/-- `Framer.segue()` -/
def segue (i : Frid) (s : St W) : Except Err (St W) :=
  let s := updateClocks i s
  match forEach (fun f s => forEach lo.segue (P.frame f).auxes s) (s.fr i).actives s with
  | .error e => .error e
  | .ok s => segueLoop P sem lo i (s.fr i).actives s

/-- the entry points of level `n+1` from those of level `n` -/
def nextOps : Ops W :=
  { enterAll := enterAll P sem lo, exitAll := exitAll P sem lo false,
    recur := recur P sem lo, segue := segue P sem lo, checkStart := checkStartC P sem lo }

end level

/-- entry points at nesting depth `n` (`n` = number of framer levels that may be entered below) -/
def opsAt (P : Prog) (sem : Sem W) : Nat → Ops W
  | 0 => Ops.bottom
  | n + 1 => nextOps P sem (opsAt P sem n)

/-! ### the runner: control × status table of `Framer.makeRunner` -/

def setStatus (i : Frid) (st : Status) (s : St W) : St W := s.modFr i (fun x => { x with status := st })
def setDesire1 (i : Frid) (c : Control) (s : St W) : St W := s.modFr i (fun x => { x with desire := c })

def isUp (st : Status) : Bool := st == .running || st == .started
def isDown (st : Status) : Bool := st == .stopped || st == .readied

/-- one `runner.send(control)` of framer `i`; `lo` are the entry points for its auxiliaries -/
def framerStep (P : Prog) (sem : Sem W) (lo : Ops W) (i : Frid) (control : Control) (s : St W) :
    Except Err (St W) :=
  let status := (s.fr i).status
  let bad (s : St W) : Except Err (St W) := .ok (setStatus i .aborted (setDesire1 i .abort s))
  match control with
  | .run =>
    if isUp status then
      match segue P sem lo i s with
      | .error e => .error e
      | .ok s =>
        match recur P sem lo i s with
        | .error e => .error e
        | .ok s => .ok (setStatus i .running s)
    else if isDown status then .ok (setDesire1 i .start s)
    else bad s
  | .ready =>
    if isDown status then
      match checkStart P sem lo i s with
      | .error e => .error e
      | .ok true => .ok (setStatus i .readied s)
      | .ok false => .ok (setStatus i .stopped (setDesire1 i .stop s))
    else if isUp status then .ok s
    else bad s
  | .start =>
    if isDown status then
      match checkStart P sem lo i s with
      | .error e => .error e
      | .ok true =>
        match enterAll P sem lo i (setDesire1 i .run s) with
        | .error e => .error e
        | .ok s =>
          match recur P sem lo i s with
          | .error e => .error e
          | .ok s => .ok (setStatus i .started s)
      | .ok false => .ok (setStatus i .stopped (setDesire1 i .stop s))
    else if isUp status then .ok (setDesire1 i .run s)
    else bad s
  | .stop =>
    if isUp status then
      match exitAll P sem lo true i (setDesire1 i .stop s) with
      | .error e => .error e
      | .ok s => .ok (setStatus i .stopped s)
    else if isDown status then .ok s
    else bad s
  | .abort =>
    if isUp status then
      match exitAll P sem lo false i s with
      | .error e => .error e
      | .ok s => bad s
    else bad s

/-! ### a minimal `Skedder.run` (every tasker has period 0: it is due at every tick) -/

structure Sked where
  ready : List Frid
  aborted : List Frid := []
  deriving Repr

/-- `addReadyTask`: `desire = START if schedule == ACTIVE else STOP; status = STOPPED` -/
def addReady (i : Frid) (activeSched : Bool) (s : St W) : St W :=
  s.modFr i (fun x => { x with desire := if activeSched then .start else .stop, status := .stopped })

/-- the `for i in range(len(ready))` loop of one tick: returns the new ready/aborted lists, `more`, state -/
def tickLoop (P : Prog) (sem : Sem W) (lo : Ops W) :
    List Frid → List Frid → List Frid → Bool → St W → Except Err (List Frid × List Frid × Bool × St W)
  | [], ready', aborted, more, s => .ok (ready', aborted, more, s)
  | i :: rest, ready', aborted, more, s =>
    match framerStep P sem lo i (s.fr i).desire s with
    | .error e => .error e
    | .ok s' =>
      let status := (s'.fr i).status
      let more' := more || isUp status
      if status == .aborted then tickLoop P sem lo rest ready' (aborted ++ [i]) more' s'
      else tickLoop P sem lo rest (ready' ++ [i]) aborted more' s'

def tick (P : Prog) (sem : Sem W) (lo : Ops W) (k : Sked) (s : St W) : Except Err (Sked × Bool × St W) :=
  match tickLoop P sem lo k.ready [] k.aborted false s with
  | .error e => .error e
  | .ok (r, a, more, s') => .ok ({ ready := r, aborted := a }, more, s')

/-- the `finally` block: `ABORT` to every entry still in `ready` -/
def finalize (P : Prog) (sem : Sem W) (lo : Ops W) (k : Sked) (s : St W) : Except Err (St W) :=
  forEach (fun i s => framerStep P sem lo i .abort s) k.ready s

end Ioflo.Flo
