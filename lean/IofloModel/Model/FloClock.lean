/-
Model for C11 — a framer's `elapsed` / `recurred` clocks and the `timeout` / `repeat` verbs.

Transcribed from
  ioflo/base/framing.py    Framer.restartTimer / updateTimer / restartCounter / updateCounter,
                           Framer.enterAll / enter / segue, Frame.precur (first transition whose needs hold)
  ioflo/base/acting.py     Transiter.action (needs → exit → enter(enters) → activate)
  ioflo/base/building.py   buildTimeout (`go next if elapsed >= float(abs(v))`),
                           buildRepeat  (`go next if recurred >= int(abs(v))`), makeFramerNeed
  ioflo/base/needing.py    Need.Check with tolerance 0
  ioflo/base/skedding.py   Skedder.run: `self.stamp += self.period` once per tick, from 0.0

One framer; frames may be nested (`frame F in G`): the transitions in effect are those of the active
frame's outline, top down (every taken transition changes the outline: `enters` is never empty,
forced re-entry `go me` included).  Generic over the number type `τ`: `Int` (exact time in
units of a quantum) for the theorems, `Float` (IEEE binary64 = CPython float) in the driver.
`Framer.updateTimer`'s `except TypeError` branch (store stamp `None`) cannot be reached under the
Skedder, which stamps the store before the first tick; it is not modelled.
Core Lean only.
-/
namespace Ioflo.FloClock

/-- the two number conversions the builder applies to the literal of `timeout` / `repeat` -/
class Lit (τ : Type) where
  abs : τ → τ            -- `abs(v)`
  trunc : τ → Nat        -- `int(abs(v))`

instance : Lit Int := ⟨fun x => (x.natAbs : Int), Int.natAbs⟩
instance : Lit Float := ⟨Float.abs, fun x => (Float.floor (Float.abs x)).toUInt64.toNat⟩

inductive Cmp where
  | ge | gt | le | lt | eq | ne
deriving DecidableEq, Repr

section generic
variable {τ : Type} [Add τ] [Sub τ] [LE τ] [LT τ] [DecidableLE τ] [DecidableLT τ]

/-- `Need.Check(state, comparison, goal, tolerance=0)`; `==` is
`(goal - 0) <= state <= (goal + 0)`. -/
def check {α : Type} [LE α] [LT α] [DecidableLE α] [DecidableLT α] (state : α) (c : Cmp) (goal : α) : Bool :=
  match c with
  | .ge => decide (goal ≤ state)
  | .gt => decide (goal < state)
  | .le => decide (state ≤ goal)
  | .lt => decide (state < goal)
  | .eq => decide (goal ≤ state) && decide (state ≤ goal)
  | .ne => !(decide (goal ≤ state) && decide (state ≤ goal))

/-- a framer need: `elapsed cmp goal` or `recurred cmp goal` (integer goal) -/
inductive Need (τ : Type) where
  | elapsed (c : Cmp) (goal : τ)
  | recurred (c : Cmp) (goal : Nat)
deriving Repr

structure Trans (τ : Type) where
  needs : List (Need τ)
  far : Nat
deriving Repr

/-- far frame of a `go` as written -/
inductive Far where
  | next | me | idx (i : Nat)
deriving DecidableEq, Repr

/-- transition verbs of a frame as written in FloScript -/
inductive Verb (τ : Type) where
  | timeout (v : τ)                           -- `timeout v`
  | rep (v : τ)                               -- `repeat v`
  | go (far : Far) (needs : List (Need τ))    -- `go far [if need and need …]`
deriving Repr

/-- a frame as written: `frame Fi [in Fover]` and its transition verbs in order -/
structure FrameSrc (τ : Type) where
  over : Option Nat
  verbs : List (Verb τ)
deriving Repr

abbrev Program (τ : Type) := List (FrameSrc τ)      -- frames in lexical order

/-- a resolved frame -/
structure RFrame (τ : Type) where
  over : Option Nat
  trans : List (Trans τ)
deriving Repr

inductive ResolveErr where
  | badNext | badFar
deriving DecidableEq, Repr

def resolveFar (n home : Nat) : Far → Except ResolveErr Nat
  | .me => .ok home
  | .next => if home + 1 < n then .ok (home + 1) else .error .badNext
  | .idx i => if i < n then .ok i else .error .badFar

/-- `buildTimeout`, `buildRepeat`, `buildGo` + `Transiter._resolve` of the far link -/
def resolveVerb [Lit τ] (n home : Nat) : Verb τ → Except ResolveErr (Trans τ)
  | .timeout v => do
    let far ← resolveFar n home .next
    return ⟨[.elapsed .ge (Lit.abs v)], far⟩
  | .rep v => do
    let far ← resolveFar n home .next
    return ⟨[.recurred .ge (Lit.trunc v)], far⟩
  | .go far needs => do
    let far ← resolveFar n home far
    return ⟨needs, far⟩

def resolveFrames [Lit τ] (n : Nat) : Nat → Program τ → Except ResolveErr (List (RFrame τ))
  | _, [] => .ok []
  | i, f :: fs => do
    let ts ← f.verbs.mapM (resolveVerb n i)
    let rest ← resolveFrames n (i + 1) fs
    return ⟨f.over, ts⟩ :: rest

def resolve [Lit τ] (p : Program τ) : Except ResolveErr (List (RFrame τ)) :=
  resolveFrames p.length 0 p

/-! ### outlines (`Frame.traceOutline`): the over frames down to the frame, then its primary
(first declared) under frames -/

def overOf (fr : List (RFrame τ)) (i : Nat) : Option Nat := (fr[i]?).bind (·.over)

/-- root … `i` (fuel = number of frames bounds the climb; a well formed forest needs less) -/
def headOf (fr : List (RFrame τ)) : Nat → Nat → List Nat
  | 0, i => [i]
  | fuel + 1, i =>
    match overOf fr i with
    | some o => headOf fr fuel o ++ [i]
    | none => [i]

/-- `frame.under`: the first frame (in declaration order) whose over is `i` -/
def firstUnder (fr : List (RFrame τ)) (i : Nat) : Option Nat :=
  (List.range fr.length).find? (fun j => overOf fr j == some i)

def tailOf (fr : List (RFrame τ)) : Nat → Nat → List Nat
  | 0, _ => []
  | fuel + 1, i =>
    match firstUnder fr i with
    | some u => u :: tailOf fr fuel u
    | none => []

def outline (fr : List (RFrame τ)) (i : Nat) : List Nat :=
  headOf fr fr.length i ++ tailOf fr fr.length i

/-- `Framer.segue`: `for frame in self.actives: if frame.precur(): return` — the transitions in effect
when `i` is the active frame are those of its outline, top down, each frame's in order -/
def transOf (fr : List (RFrame τ)) (i : Nat) : List (Trans τ) :=
  (outline fr i).flatMap (fun j => ((fr[j]?).map (·.trans)).getD [])

/-- no over link points at itself through the chain within the fuel (the real builder does not
terminate on such input, defect D6; the driver refuses it) -/
def acyclic (fr : List (RFrame τ)) : Bool :=
  (List.range fr.length).all (fun i => (headOf fr fr.length i).length ≤ fr.length)

/-- the framer's clock state -/
structure St (τ : Type) where
  active : Nat
  stamp : τ          -- Framer.stamp: store time of the last outline change
  elapsed : τ        -- Framer.elapsed / the elapsed share
  recurred : Nat     -- Framer.recurred / the recurred share
deriving Repr

def evalNeed (s : St τ) : Need τ → Bool
  | .elapsed c g => check s.elapsed c g
  | .recurred c g => check s.recurred c g

/-- `Frame.precur`: the first transition whose needs all hold -/
def firstTrans (s : St τ) : List (Trans τ) → Option (Trans τ)
  | [] => none
  | t :: ts => if t.needs.all (evalNeed s) then some t else firstTrans s ts

/-- `Framer.enter(enters)` with non-empty `enters` + `activate`: restartTimer, restartCounter -/
def enter [OfNat τ 0] (now : τ) (far : Nat) : St τ :=
  { active := far, stamp := now, elapsed := 0, recurred := 0 }

/-- what one tick shows: the values the needs saw (`eval*`, absent in the start tick), whether the
outline changed, the state afterwards -/
structure Obs (τ : Type) where
  now : τ
  evalElapsed : Option τ
  evalRecurred : Option Nat
  entered : Bool
  after : St τ
deriving Repr

/-- `Framer.segue`: updateTimer, updateCounter, then the transitions in effect for the active frame
(`tr a` = `transOf frames a`) -/
def segue [OfNat τ 0] (tr : Nat → List (Trans τ)) (now : τ) (s : St τ) : Obs τ :=
  let s1 : St τ := { s with elapsed := now - s.stamp, recurred := s.recurred + 1 }
  match firstTrans s1 (tr s.active) with
  | some t => ⟨now, some s1.elapsed, some s1.recurred, true, enter now t.far⟩
  | none => ⟨now, some s1.elapsed, some s1.recurred, false, s1⟩

/-- ticks after the start tick -/
def runFrom [OfNat τ 0] (tr : Nat → List (Trans τ)) (s : St τ) : List τ → List (Obs τ)
  | [] => []
  | now :: rest => let o := segue tr now s; o :: runFrom tr o.after rest

/-- the whole run over the store stamps `nows` (first element = the START tick: `enterAll`) -/
def run [OfNat τ 0] (tr : Nat → List (Trans τ)) : List τ → List (Obs τ)
  | [] => []
  | now :: rest =>
    let s0 := enter now 0
    ⟨now, none, none, true, s0⟩ :: runFrom tr s0 rest

/-! ## conditional auxiliaries (`aux helper if <needs>`, `acting.Suspender`)

A frame's preacts are, in order, transitions and suspenders.  While the helper runs, the main framer's
active outline is truncated to the head of the suspending frame (`Framer.change`), the helper is
iterated by the suspender each tick, and when it is done the full outline comes back
(`Framer.reactivate`).  None of this touches the main framer's clocks: only `Framer.enter` with
non-empty `enters` restarts them.  One helper framer, one suspender per program. -/

inductive Pre (τ : Type) where
  | trans (t : Trans τ)
  | susp (needs : List (Need τ))
deriving Repr

structure SFrame (τ : Type) where
  over : Option Nat
  pres : List (Pre τ)
deriving Repr

/-- the helper framer: its frames and the frames whose entry runs `done me` -/
structure Helper (τ : Type) where
  frames : List (RFrame τ)
  doneAt : List Nat
deriving Repr

/-- what the suspender machinery remembers between ticks: the helper's clock state while it runs
(`none` = `aux.done`), and the frame at whose head the outline is truncated -/
structure Aux (τ : Type) where
  h : Option (St τ) := none
  suspAt : Option Nat := none
deriving Repr

def SFrame.toR (f : SFrame τ) : RFrame τ := ⟨f.over, []⟩

/-- `Framer.ExEn(nears, far)`: the frames to enter — from the first position where the active outline
holds `far` itself or differs from `far`'s outline -/
def entersOf : List Nat → List Nat → Nat → List Nat
  | n :: ns, f :: fs, far => if n = far ∨ n ≠ f then f :: fs else entersOf ns fs far
  | _, _, _ => []

/-- `framer.actives` as it is right now: the head of the suspending frame while the helper runs, else
the outline of the active frame -/
def activesNow (fr : List (SFrame τ)) (x : Aux τ) (active : Nat) : List Nat :=
  let r := fr.map SFrame.toR
  match x.suspAt with
  | some m => headOf r r.length m
  | none => outline r active

/-- one preact of frame `m`.  Result: `some d` = processing of this tick stops with decision `d`
(`some far` a transition is taken, `none` the framer stays); `none` = go on with the next preact. -/
def stepPre [OfNat τ 0] (fr : List (SFrame τ)) (hp : Helper τ) (now : τ) (s1 : St τ)
    (m : Nat) (x : Aux τ) : Pre τ → Option (Option Nat) × Aux τ
  | .trans t =>
    -- `Transiter.action`: needs, then `framer.checkEnter(enters)` with `ExEn(framer.actives, far)` (no
    -- transition on empty enters; `framer.actives` is the restored outline if the helper finished
    -- earlier in this tick); a taken transition exits the suspending frame, whose exit act
    -- force-deactivates the helper
    if t.needs.all (evalNeed s1) &&
        !(entersOf (activesNow fr x s1.active) (outline (fr.map SFrame.toR) t.far) t.far).isEmpty then
      (some (some t.far), {})
    else (none, x)
  | .susp needs =>
    match x.h with
    | none =>                                   -- `if aux.done:` not active
      if needs.all (evalNeed s1) then
        -- `aux.enterAll(); aux.recur(); if aux.done: deactivate, return None`
        if hp.doneAt.contains 0 then (none, x)
        else (some none, { h := some (enter now 0), suspAt := some m })     -- `framer.change(main.head)`
      else (none, x)
    | some h =>                                 -- `if not aux.done:` `aux.segue(); aux.recur()`
      let o := segue (transOf hp.frames) now h
      if o.entered && hp.doneAt.contains o.after.active then
        (none, { h := none, suspAt := none })   -- done: deactivate, `framer.reactivate()`, go on
      else (some none, { x with h := some o.after })

def scanPres [OfNat τ 0] (fr : List (SFrame τ)) (hp : Helper τ) (now : τ) (s1 : St τ)
    (m : Nat) : List (Pre τ) → Aux τ → Option (Option Nat) × Aux τ
  | [], x => (none, x)
  | p :: ps, x =>
    match stepPre fr hp now s1 m x p with
    | (some d, x') => (some d, x')
    | (none, x') => scanPres fr hp now s1 m ps x'

/-- `for frame in self.actives: if frame.precur(): return` over the list the loop started with -/
def scanFrames [OfNat τ 0] (fr : List (SFrame τ)) (hp : Helper τ) (now : τ) (s1 : St τ) :
    List Nat → Aux τ → Option (Option Nat) × Aux τ
  | [], x => (none, x)
  | m :: ms, x =>
    match scanPres fr hp now s1 m (((fr[m]?).map (·.pres)).getD []) x with
    | (some d, x') => (some d, x')
    | (none, x') => scanFrames fr hp now s1 ms x'

/-- the decision of one tick of the main framer -/
def decideS [OfNat τ 0] (fr : List (SFrame τ)) (hp : Helper τ) (now : τ) (x : Aux τ) (s1 : St τ) :
    Option Nat × Aux τ :=
  let res := scanFrames fr hp now s1 (activesNow fr x s1.active) x
  (res.1.getD none, res.2)

/-- a frame line as written: a transition verb or `aux helper if <needs>` -/
inductive VerbS (τ : Type) where
  | plain (v : Verb τ)
  | susp (needs : List (Need τ))
deriving Repr

structure FrameSrcS (τ : Type) where
  over : Option Nat
  verbs : List (VerbS τ)
deriving Repr

def resolveVerbS [Lit τ] (n home : Nat) : VerbS τ → Except ResolveErr (Pre τ)
  | .plain v => do
    let t ← resolveVerb n home v
    return .trans t
  | .susp needs => .ok (.susp needs)

def resolveFramesS [Lit τ] (n : Nat) : Nat → List (FrameSrcS τ) → Except ResolveErr (List (SFrame τ))
  | _, [] => .ok []
  | i, f :: fs => do
    let ps ← f.verbs.mapM (resolveVerbS n i)
    let rest ← resolveFramesS n (i + 1) fs
    return ⟨f.over, ps⟩ :: rest

def resolveS [Lit τ] (p : List (FrameSrcS τ)) : Except ResolveErr (List (SFrame τ)) :=
  resolveFramesS p.length 0 p

/-! ### the machine over an arbitrary decision function
`d now x s1`: given the extra state `x` and the clock state `s1` the needs see, either a far frame
(a transition is taken) or nothing, and the new extra state. -/

def segueG {σ : Type} [OfNat τ 0] (d : τ → σ → St τ → Option Nat × σ) (now : τ) (s : St τ) (x : σ) : Obs τ × σ :=
  let s1 : St τ := { s with elapsed := now - s.stamp, recurred := s.recurred + 1 }
  match d now x s1 with
  | (some far, x') => (⟨now, some s1.elapsed, some s1.recurred, true, enter now far⟩, x')
  | (none, x') => (⟨now, some s1.elapsed, some s1.recurred, false, s1⟩, x')

def runFromG {σ : Type} [OfNat τ 0] (d : τ → σ → St τ → Option Nat × σ) (s : St τ) (x : σ) : List τ → List (Obs τ)
  | [] => []
  | now :: rest => let r := segueG d now s x; r.1 :: runFromG d r.1.after r.2 rest

def runG {σ : Type} [OfNat τ 0] (d : τ → σ → St τ → Option Nat × σ) (x0 : σ) : List τ → List (Obs τ)
  | [] => []
  | now :: rest =>
    let s0 := enter now 0
    ⟨now, none, none, true, s0⟩ :: runFromG d s0 x0 rest

/-- the machine of the first part is the instance without extra state -/
def decideT (tr : Nat → List (Trans τ)) (_ : τ) (_ : Unit) (s1 : St τ) : Option Nat × Unit :=
  ((firstTrans s1 (tr s1.active)).map (·.far), ())

/-! ## plain auxiliaries nested inside the timed framer (`aux pa` in frame `main`)

`Frame.enter` of the main frame runs `aux.enterAll()` (the auxiliary's clocks restart: `enter now 0`),
`Framer.segue` of the timed framer first runs `frame.segueAuxes()` for every active frame — the auxiliary's own
`segue` with its own clocks — and only then the framer's transitions; `Frame.exit` of the main frame runs
`aux.exitAll()`.  The auxiliary never touches the timed framer's clocks, and the timed framer's decision does
not look at the auxiliary. -/

structure PAux (τ : Type) where
  main : Nat                      -- the frame that carries `aux pa`
  frames : List (RFrame τ)        -- the auxiliary framer's frames
deriving Repr

/-- `Framer.ExEn(nears, far)`: the frames to exit (counterpart of `entersOf`) -/
def exitsOf : List Nat → List Nat → Nat → List Nat
  | n :: ns, f :: fs, far => if n = far ∨ n ≠ f then n :: ns else exitsOf ns fs far
  | _, _, _ => []

/-- the auxiliary after the timed framer's decision `d` of this tick: restarted when its main frame is
entered (re-entry `go me` included), gone when the main frame is exited and not entered, else as its own
segue left it.  The state is its last observation (`none` = not active). -/
def auxAfter [OfNat τ 0] (fr : List (RFrame τ)) (pa : PAux τ) (now : τ) (active : Nat) (d : Option Nat)
    (x1 : Option (Obs τ)) : Option (Obs τ) :=
  match d with
  | none => x1
  | some far =>
    if (entersOf (outline fr active) (outline fr far) far).contains pa.main then
      some ⟨now, none, none, true, enter now 0⟩
    else if (exitsOf (outline fr active) (outline fr far) far).contains pa.main then none
    else x1

/-- one tick of the timed framer with a plain auxiliary: the auxiliary segues first, then the framer's
own transitions (exactly `decideT`) -/
def decideP [OfNat τ 0] (fr : List (RFrame τ)) (pa : PAux τ) (now : τ) (x : Option (Obs τ)) (s1 : St τ) :
    Option Nat × Option (Obs τ) :=
  let x1 := x.map (fun o => segue (transOf pa.frames) now o.after)
  let d := (firstTrans s1 (transOf fr s1.active)).map (·.far)
  (d, auxAfter fr pa now s1.active d x1)

/-- the run showing both framers per tick -/
def runFromP [OfNat τ 0] (fr : List (RFrame τ)) (pa : PAux τ) (s : St τ) (x : Option (Obs τ)) :
    List τ → List (Obs τ × Option (Obs τ))
  | [] => []
  | now :: rest => let r := segueG (decideP fr pa) now s x; r :: runFromP fr pa r.1.after r.2 rest

def runP [OfNat τ 0] (fr : List (RFrame τ)) (pa : PAux τ) : List τ → List (Obs τ × Option (Obs τ))
  | [] => []
  | now :: rest =>
    let s0 := enter now 0
    let x0 : Option (Obs τ) :=
      if (outline fr 0).contains pa.main then some ⟨now, none, none, true, enter now 0⟩ else none
    (⟨now, none, none, true, s0⟩, x0) :: runFromP fr pa s0 x0 rest

/-- `Skedder.run`: the store stamp of tick `n` is `0 + P + … + P` (n additions, in this order) -/
def stampAt [OfNat τ 0] (P : τ) : Nat → τ
  | 0 => 0
  | n + 1 => stampAt P n + P

def stamps [OfNat τ 0] (P : τ) (n : Nat) : List τ := (List.range n).map (stampAt P)

/-- the stamps an instance sees that is started at tick `s` and runs for `n` ticks (an auxiliary framer
or a clone is entered when its main frame is entered, not necessarily at tick 0) -/
def stampsFrom [OfNat τ 0] (P : τ) (s n : Nat) : List τ := (stamps P (s + n)).drop s

/-! ## framer periods (`framer x be active at Q`)

`Skedder.run` keeps `(tasker, retime, period)` for every ready tasker: in each tick
`if retime > stamp: skip  else: run; retime += period`, then `stamp += P`.  `retime` starts as the store
stamp at the start (0).  The framer's clocks only move when it runs, so it sees the sub-list of the
store stamps at which it is run; period 0 (the default) runs every tick. -/

/-- per tick: is the framer run? -/
def runsAt (P Q : τ) : Nat → τ → τ → List Bool
  | 0, _, _ => []
  | n + 1, stamp, retime =>
    if stamp < retime then false :: runsAt P Q n (stamp + P) retime
    else true :: runsAt P Q n (stamp + P) (retime + Q)

/-- the store stamps at which a framer of period `Q` is run during the first `n` ticks -/
def framerStamps [OfNat τ 0] (P Q : τ) (n : Nat) : List τ :=
  ((stamps P n).zip (runsAt P Q n 0 0)).filterMap (fun sr => if sr.2 then some sr.1 else none)

/-! ### a Skedder started at store stamp `b` (`Skedder(stamp=b)`); with `P = 0` ("asap") or with `b`
so large that `b + P = b` in binary64 all ticks have the same store stamp -/

def stampAtB (b P : τ) : Nat → τ
  | 0 => b
  | n + 1 => stampAtB b P n + P

def stampsB (b P : τ) (n : Nat) : List τ := (List.range n).map (stampAtB b P)

def stampsFromB (b P : τ) (s n : Nat) : List τ := (stampsB b P (s + n)).drop s

def framerStampsB (b P Q : τ) (n : Nat) : List τ :=
  ((stampsB b P n).zip (runsAt P Q n b b)).filterMap (fun sr => if sr.2 then some sr.1 else none)

end generic

end Ioflo.FloClock
